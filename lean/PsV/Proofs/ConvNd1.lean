import PsV.Proofs.ConvEval
/-!
# Flattening the specification's `contract` for row-major strides

`contract_some`: a `some` row of `ConvSpec.contract` is a plain finite sum.
`contract_block`: a block of `some` rows whose strides are row-major (times a multiplier `M`) is one sum over the
flattened index `I < Π n_e`, with weight `blockW vss I` (the product of the rows' values at the digits of `I`).
-/
namespace PsV
open Finset ConvSpec

/-- the fold over `zipIdx` that `contract` runs on a `some` row, as a sum (offset version) -/
theorem foldl_zipIdx_sum (g : Nat → Rat) : ∀ (vs : List Rat) (k : Nat) (a : Rat),
    (vs.zipIdx k).foldl (fun acc (p : Rat × Nat) => if p.1 = 0 then acc else acc + p.1 * g p.2) a =
      a + ∑ i ∈ range vs.length, vs.getD i 0 * g (k + i)
  | [], k, a => by simp
  | v :: vs, k, a => by
    rw [List.zipIdx_cons, List.foldl_cons, foldl_zipIdx_sum g vs (k+1), List.length_cons, Finset.sum_range_succ']
    have e : ∀ i, (v :: vs).getD (i+1) 0 * g (k + (i+1)) = vs.getD i 0 * g (k + 1 + i) := by
      intro i
      rw [List.getD_cons_succ]
      congr 2
      omega
    simp only [e, List.getD_cons_zero, Nat.add_zero]
    by_cases hv : v = 0
    · simp [hv]
    · simp only [hv, if_false]
      ring

/-- a `some` row of `contract` is a plain sum -/
theorem contract_some (coef : Nat → Rat) (s : Nat) (vs : List Rat) (rest : List (Nat × Option (List Rat))) (l pos : Nat) :
    contract coef ((s, some vs) :: rest) l pos =
      ∑ i ∈ range vs.length, vs.getD i 0 * contract coef rest l (pos + i * s) := by
  rw [contract]
  have h := foldl_zipIdx_sum (fun i => contract coef rest l (pos + i * s)) vs 0 0
  simp only [zero_add] at h
  exact h

theorem contract_none (coef : Nat → Rat) (s : Nat) (rest : List (Nat × Option (List Rat))) (l pos : Nat) :
    contract coef ((s, none) :: rest) l pos = contract coef rest l (pos + l * s) := by
  rw [contract]

theorem contract_nil (coef : Nat → Rat) (l pos : Nat) : contract coef [] l pos = coef pos := by
  rw [contract]

/-- a sum over `range (n*P)` as a double sum -/
theorem sum_range_mul (f : Nat → Rat) (P : Nat) : ∀ n : Nat,
    ∑ I ∈ range (n * P), f I = ∑ i ∈ range n, ∑ I' ∈ range P, f (i * P + I')
  | 0 => by simp
  | n+1 => by
    rw [Nat.succ_mul, Finset.sum_range_add, sum_range_mul f P n, Finset.sum_range_succ]

/-- the rows of a block of dimensions with value lists `vss`, row-major strides times `M` -/
def blockRows (M : Nat) : List (List Rat) → List (Nat × Option (List Rat))
  | [] => []
  | vs :: vss => ((vss.map List.length).prod * M, some vs) :: blockRows M vss

/-- the weight of the flattened index `I` of a block -/
def blockW : List (List Rat) → Nat → Rat
  | [], _ => 1
  | vs :: vss, I => vs.getD (I / (vss.map List.length).prod) 0 * blockW vss (I % (vss.map List.length).prod)

/-- **flattening**: a row-major block of `some` rows is one sum over the flattened index -/
theorem contract_block (coef : Nat → Rat) (M : Nat) (rest : List (Nat × Option (List Rat))) (l : Nat) :
    ∀ (vss : List (List Rat)) (pos : Nat),
    contract coef (blockRows M vss ++ rest) l pos =
      ∑ I ∈ range (vss.map List.length).prod, blockW vss I * contract coef rest l (pos + I * M)
  | [], pos => by
    simp [blockRows, blockW]
  | vs :: vss, pos => by
    rw [blockRows, List.cons_append, contract_some, List.map_cons, List.prod_cons, sum_range_mul]
    apply Finset.sum_congr rfl
    intro i _
    rw [contract_block coef M rest l vss, Finset.mul_sum]
    apply Finset.sum_congr rfl
    intro I' hI'
    have hI : I' < (vss.map List.length).prod := mem_range.mp hI'
    have hP : 0 < (vss.map List.length).prod := by omega
    have e1 : (i * (vss.map List.length).prod + I') / (vss.map List.length).prod = i := by
      rw [Nat.add_comm, Nat.add_mul_div_right _ _ hP, Nat.div_eq_of_lt hI]; omega
    have e2 : (i * (vss.map List.length).prod + I') % (vss.map List.length).prod = I' := by
      rw [Nat.add_comm, Nat.add_mul_mod_self_right, Nat.mod_eq_of_lt hI]
    rw [blockW, e1, e2]
    have e3 : pos + i * ((vss.map List.length).prod * M) + I' * M = pos + (i * (vss.map List.length).prod + I') * M := by
      ring
    rw [e3]
    ring

/-- rows before `dim` (multiplier `n*s2`), the `none` row of `dim`, rows after `dim` -/
theorem contract_rows_none (coef : Nat → Rat) (vssPre vssPost : List (List Rat)) (n j : Nat) :
    contract coef (blockRows (n * (vssPost.map List.length).prod) vssPre ++
        ((vssPost.map List.length).prod, none) :: blockRows 1 vssPost) j 0 =
      ∑ I ∈ range (vssPre.map List.length).prod, ∑ K ∈ range (vssPost.map List.length).prod,
        blockW vssPre I * blockW vssPost K *
          coef (I * (vssPost.map List.length).prod * n + j * (vssPost.map List.length).prod + K) := by
  rw [contract_block]
  apply Finset.sum_congr rfl
  intro I _
  rw [contract_none, ← List.append_nil (blockRows 1 vssPost), contract_block, Finset.mul_sum]
  apply Finset.sum_congr rfl
  intro K _
  rw [contract_nil]
  have e : 0 + I * (n * (vssPost.map List.length).prod) + j * (vssPost.map List.length).prod + K * 1 =
      I * (vssPost.map List.length).prod * n + j * (vssPost.map List.length).prod + K := by ring
  rw [e]
  ring

/-- rows before `dim`, the `some` row of `dim`, rows after `dim` -/
theorem contract_rows_some (coef : Nat → Rat) (vssPre vssPost : List (List Rat)) (vs : List Rat) (n l : Nat) :
    contract coef (blockRows (n * (vssPost.map List.length).prod) vssPre ++
        ((vssPost.map List.length).prod, some vs) :: blockRows 1 vssPost) l 0 =
      ∑ I ∈ range (vssPre.map List.length).prod, ∑ K ∈ range (vssPost.map List.length).prod,
        blockW vssPre I * blockW vssPost K *
          ∑ m ∈ range vs.length,
            coef (I * (vssPost.map List.length).prod * n + m * (vssPost.map List.length).prod + K) * vs.getD m 0 := by
  rw [contract_block]
  apply Finset.sum_congr rfl
  intro I _
  rw [contract_some]
  have h : ∀ m, contract coef (blockRows 1 vssPost) l (0 + I * (n * (vssPost.map List.length).prod) +
        m * (vssPost.map List.length).prod) =
      ∑ K ∈ range (vssPost.map List.length).prod, blockW vssPost K *
        coef (I * (vssPost.map List.length).prod * n + m * (vssPost.map List.length).prod + K) := by
    intro m
    rw [← List.append_nil (blockRows 1 vssPost), contract_block]
    apply Finset.sum_congr rfl
    intro K _
    rw [contract_nil]
    have e : 0 + I * (n * (vssPost.map List.length).prod) + m * (vssPost.map List.length).prod + K * 1 =
        I * (vssPost.map List.length).prod * n + m * (vssPost.map List.length).prod + K := by ring
    rw [e]
  simp only [h]
  simp only [Finset.mul_sum]
  rw [Finset.sum_comm]
  apply Finset.sum_congr rfl
  intro K _
  apply Finset.sum_congr rfl
  intro m _
  ring

end PsV
