import PsV.Proofs.ConvolveShape
/-! Soundness of the polynomial calculus used by the exact specification of C14. -/
namespace PsV.ConvSpec

theorem peval_nil (x : Rat) : peval [] x = 0 := rfl
theorem peval_cons (a : Rat) (p : Poly) (x : Rat) : peval (a :: p) x = a + x * peval p x := rfl

theorem peval_padd : ∀ (p q : Poly) (x : Rat), peval (padd p q) x = peval p x + peval q x
  | [], q, x => by simp [padd, peval_nil]
  | a :: p, [], x => by simp [padd, peval_nil]
  | a :: p, b :: q, x => by
    simp only [padd, peval_cons, peval_padd p q x]; ring

theorem peval_pscale (c : Rat) : ∀ (p : Poly) (x : Rat), peval (pscale c p) x = c * peval p x
  | [], x => by simp [pscale, peval_nil]
  | a :: p, x => by
    have := peval_pscale c p x
    simp only [pscale, List.map_cons, peval_cons] at this ⊢
    rw [this]; ring

theorem peval_pmulLin (a b : Rat) (p : Poly) (x : Rat) :
    peval (pmulLin a b p) x = (a + b * x) * peval p x := by
  unfold pmulLin
  rw [peval_padd, peval_cons, peval_pscale, peval_pscale]; ring

theorem peval_pmul : ∀ (p q : Poly) (x : Rat), peval (pmul p q) x = peval p x * peval q x
  | [], q, x => by simp [pmul, peval_nil]
  | a :: p, q, x => by
    simp only [pmul, peval_padd, peval_cons, peval_pscale, peval_pmul p q x]; ring

theorem peval_pcompLin (a b : Rat) : ∀ (p : Poly) (x : Rat), peval (pcompLin p a b) x = peval p (a + b * x)
  | [], x => rfl
  | c :: p, x => by
    have ih := peval_pcompLin a b p x
    unfold pcompLin at ih ⊢
    simp only [List.foldr_cons, peval_padd, peval_pmulLin, peval_cons, peval_nil, ih]; ring

end PsV.ConvSpec

namespace PsV
open ConvSpec

/-- the polynomial pieces of the specification are the Cox–de Boor recursion `PsV.Bind` (the shared
B-spline specification) with the indicator of knot interval `j` -/
theorem bpiece_eval (t : Int → Rat) (j : Nat) (x : Rat) : ∀ (p i : Nat),
    peval (bpiece (fun n => t (n : Nat)) j p i) x = Bind (fun k => decide (k = (j : Int))) t x p (i : Int)
  | 0, i => by
    unfold bpiece Bind
    by_cases h : i = j
    · subst h; simp [peval_cons, peval_nil]; rfl
    · have h2 : ¬ ((i : Int) = (j : Int)) := by exact_mod_cast h
      simp [h, h2, peval_nil]; rfl
  | p+1, i => by
    unfold bpiece Bind
    have e1 : ((i + p + 1 : Nat) : Int) = (i : Int) + p + 1 := by push_cast; ring
    have e2 : ((i + p + 2 : Nat) : Int) = (i : Int) + p + 2 := by push_cast; ring
    have e3 : ((i + 1 : Nat) : Int) = (i : Int) + 1 := by push_cast; ring
    simp only [peval_padd, peval_pmulLin, bpiece_eval t j x p i, bpiece_eval t j x p (i+1), e1, e2, e3]
    show _ = (x - t i) / (t (i + p + 1) - t i) * _ + (t (i + p + 2) - x) / (t (i + p + 2) - t (i + 1)) * _
    ring

end PsV
