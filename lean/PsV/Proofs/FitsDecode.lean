import PsV.Proofs.FitsCodec
import Mathlib.Tactic.Ring
/-!
# What an accepted byte string looks like (C07: the decoder stays inside the buffer)

`PsV/Proofs/FitsCodec.lean` proves `decode (encode f) = f`.  This file proves the other direction's framing facts,
for **every** byte string `b`: if `decodeFits b = some f` then `b` is tiled by the HDUs of `f` (`Framed b f`):
HDU number `j` occupies a header of `k_j ≥ 2880` bytes (a multiple of 2880) followed by `m_j` data bytes (a multiple
of 2880), all of it inside `b`; its pixel array has exactly `npix axes` elements, needs `width·npix ≤ m_j` bytes, and
its elements are the big-endian words of `b` at offset `k_j` of the HDU.  So no pixel the reader model ever returns
comes from outside the buffer, the sizes declared by the header cards are covered by bytes that are present
(`framed_size`), and nothing of the buffer is left over.  Buffers that are shorter than their headers claim — the
inputs on which cfitsio's memory driver over-reads (known finding) — are rejected by `decodeFits`.
-/
namespace PsV.Fits

/-! ## big-endian words, decoding direction -/

theorem horner32 (a0 a1 a2 a3 : Nat) :
    a0 * 16777216 + a1 * 65536 + a2 * 256 + a3 = ((a0 * 256 + a1) * 256 + a2) * 256 + a3 := by ring

theorem horner64 (a0 a1 a2 a3 a4 a5 a6 a7 : Nat) :
    a0 * 72057594037927936 + a1 * 281474976710656 + a2 * 1099511627776
    + a3 * 4294967296 + a4 * 16777216 + a5 * 65536 + a6 * 256 + a7
    = ((((((a0 * 256 + a1) * 256 + a2) * 256 + a3) * 256 + a4) * 256 + a5) * 256 + a6) * 256 + a7 := by ring

theorem step256 (x b : Nat) (hb : b < 256) : (x * 256 + b) / 256 = x ∧ (x * 256 + b) % 256 = b := by omega

theorem lt_step (x b k : Nat) (hx : x < k) (hb : b < 256) : x * 256 + b < k * 256 := by omega

theorem be32_rd32 (b0 b1 b2 b3 : UInt8) : be32 (rd32 b0 b1 b2 b3) = [b0, b1, b2, b3] := by
  have h0 : b0.toNat < 256 := b0.toNat_lt
  have h1 : b1.toNat < 256 := b1.toNat_lt
  have h2 : b2.toNat < 256 := b2.toNat_lt
  have h3 : b3.toNat < 256 := b3.toNat_lt
  simp only [be32, rd32, UInt32.toNat_ofNat', horner32]
  have x1 := lt_step _ _ 256 h0 h1
  have x2 := lt_step _ _ _ x1 h2
  have x3 := lt_step _ _ _ x2 h3
  have e32 : 256 * 256 * 256 * 256 = 2 ^ 32 := by decide
  rw [e32] at x3
  rw [Nat.mod_eq_of_lt x3]
  have e2 : ∀ n, n / 65536 = n / 256 / 256 := by intro n; simp only [Nat.div_div_eq_div_mul]
  have e3 : ∀ n, n / 16777216 = n / 256 / 256 / 256 := by intro n; simp only [Nat.div_div_eq_div_mul]
  rw [e2, e3]
  simp only [(step256 _ _ h3).1, (step256 _ _ h2).1, (step256 _ _ h1).1, (step256 _ _ h3).2, (step256 _ _ h2).2,
    (step256 _ _ h1).2, UInt8.ofNat_toNat]

theorem be64_rd64 (b0 b1 b2 b3 b4 b5 b6 b7 : UInt8) :
    be64 (rd64 b0 b1 b2 b3 b4 b5 b6 b7) = [b0, b1, b2, b3, b4, b5, b6, b7] := by
  have h0 : b0.toNat < 256 := b0.toNat_lt
  have h1 : b1.toNat < 256 := b1.toNat_lt
  have h2 : b2.toNat < 256 := b2.toNat_lt
  have h3 : b3.toNat < 256 := b3.toNat_lt
  have h4 : b4.toNat < 256 := b4.toNat_lt
  have h5 : b5.toNat < 256 := b5.toNat_lt
  have h6 : b6.toNat < 256 := b6.toNat_lt
  have h7 : b7.toNat < 256 := b7.toNat_lt
  simp only [be64, rd64, UInt64.toNat_ofNat', horner64]
  have x1 := lt_step _ _ 256 h0 h1
  have x2 := lt_step _ _ _ x1 h2
  have x3 := lt_step _ _ _ x2 h3
  have x4 := lt_step _ _ _ x3 h4
  have x5 := lt_step _ _ _ x4 h5
  have x6 := lt_step _ _ _ x5 h6
  have x7 := lt_step _ _ _ x6 h7
  have e64 : 256 * 256 * 256 * 256 * 256 * 256 * 256 * 256 = 2 ^ 64 := by decide
  rw [e64] at x7
  rw [Nat.mod_eq_of_lt x7]
  have e2 : ∀ n, n / 65536 = n / 256 / 256 := by intro n; simp only [Nat.div_div_eq_div_mul]
  have e3 : ∀ n, n / 16777216 = n / 256 / 256 / 256 := by intro n; simp only [Nat.div_div_eq_div_mul]
  have e4 : ∀ n, n / 4294967296 = n / 256 / 256 / 256 / 256 := by intro n; simp only [Nat.div_div_eq_div_mul]
  have e5 : ∀ n, n / 1099511627776 = n / 256 / 256 / 256 / 256 / 256 := by intro n; simp only [Nat.div_div_eq_div_mul]
  have e6 : ∀ n, n / 281474976710656 = n / 256 / 256 / 256 / 256 / 256 / 256 := by
    intro n; simp only [Nat.div_div_eq_div_mul]
  have e7 : ∀ n, n / 72057594037927936 = n / 256 / 256 / 256 / 256 / 256 / 256 / 256 := by
    intro n; simp only [Nat.div_div_eq_div_mul]
  rw [e2, e3, e4, e5, e6, e7]
  simp only [(step256 _ _ h7).1, (step256 _ _ h6).1, (step256 _ _ h5).1, (step256 _ _ h4).1, (step256 _ _ h3).1,
    (step256 _ _ h2).1, (step256 _ _ h1).1, (step256 _ _ h7).2, (step256 _ _ h6).2, (step256 _ _ h5).2,
    (step256 _ _ h4).2, (step256 _ _ h3).2, (step256 _ _ h2).2, (step256 _ _ h1).2, UInt8.ofNat_toNat]

/-- `dec32 n b` succeeds only when `b` holds the `4n` bytes, and returns exactly the words they spell -/
theorem dec32_spec : ∀ (n : Nat) (b : Bytes) (d : List UInt32), dec32 n b = some d →
    d.length = n ∧ 4 * n ≤ b.length ∧ enc32 d = b.take (4 * n)
  | 0, b, d, h => by
    simp only [dec32, Option.some.injEq] at h; subst h; simp [enc32]
  | n+1, b, d, h => by
    rcases b with _ | ⟨b0, _ | ⟨b1, _ | ⟨b2, _ | ⟨b3, r⟩⟩⟩⟩
    · simp [dec32] at h
    · simp [dec32] at h
    · simp [dec32] at h
    · simp [dec32] at h
    · simp only [dec32] at h
      cases hr : dec32 n r with
      | none => rw [hr] at h; cases h
      | some d' =>
        rw [hr] at h
        simp only [Option.map_some, Option.some.injEq] at h
        subst h
        obtain ⟨l, hl, he⟩ := dec32_spec n r d' hr
        refine ⟨by simp [l], by simp only [List.length_cons]; omega, ?_⟩
        rw [show 4 * (n + 1) = 4 * n + 1 + 1 + 1 + 1 by omega]
        simp only [enc32, be32_rd32, he, List.take_succ_cons, List.cons_append, List.nil_append]

theorem dec64_spec : ∀ (n : Nat) (b : Bytes) (d : List UInt64), dec64 n b = some d →
    d.length = n ∧ 8 * n ≤ b.length ∧ enc64 d = b.take (8 * n)
  | 0, b, d, h => by
    simp only [dec64, Option.some.injEq] at h; subst h; simp [enc64]
  | n+1, b, d, h => by
    rcases b with _ | ⟨b0, _ | ⟨b1, _ | ⟨b2, _ | ⟨b3, _ | ⟨b4, _ | ⟨b5, _ | ⟨b6, _ | ⟨b7, r⟩⟩⟩⟩⟩⟩⟩⟩
    · simp [dec64] at h
    · simp [dec64] at h
    · simp [dec64] at h
    · simp [dec64] at h
    · simp [dec64] at h
    · simp [dec64] at h
    · simp [dec64] at h
    · simp [dec64] at h
    · simp only [dec64] at h
      cases hr : dec64 n r with
      | none => rw [hr] at h; cases h
      | some d' =>
        rw [hr] at h
        simp only [Option.map_some, Option.some.injEq] at h
        subst h
        obtain ⟨l, hl, he⟩ := dec64_spec n r d' hr
        refine ⟨by simp [l], by simp only [List.length_cons]; omega, ?_⟩
        rw [show 8 * (n + 1) = 8 * n + 1 + 1 + 1 + 1 + 1 + 1 + 1 + 1 by omega]
        simp only [enc64, be64_rd64, he, List.take_succ_cons, List.cons_append, List.nil_append]

/-! ## headers -/

theorem blockPad_spec (m : Nat) : (m + blockPad m) % 2880 = 0 := by unfold blockPad; omega

/-- a header that `splitHeader` accepts ends `k` bytes into the buffer, `k` at least one card, inside the buffer,
    and at a block boundary (counting the `n` cards consumed before) -/
theorem splitHeader_spec : ∀ (fuel n : Nat) (b : Bytes) (cs : List Str) (r : Bytes),
    splitHeader fuel n b = some (cs, r) →
    ∃ k, 80 ≤ k ∧ k ≤ b.length ∧ (n * 80 + k) % 2880 = 0 ∧ r = b.drop k
  | 0, n, b, cs, r, h => by simp [splitHeader] at h
  | fuel+1, n, b, cs, r, h => by
    unfold splitHeader at h
    split at h
    · cases h
    · rename_i hlen
      simp only at h
      split at h
      · split at h
        · cases h
        · rename_i hpad
          simp only [Option.some.injEq, Prod.mk.injEq] at h
          obtain ⟨_, rfl⟩ := h
          have hp := blockPad_spec ((n + 1) * 80)
          simp only [List.length_drop] at hpad
          refine ⟨80 + blockPad ((n + 1) * 80), by omega, by omega, by omega, by rw [List.drop_drop]⟩
      · cases hs : splitHeader fuel (n + 1) (b.drop 80) with
        | none => rw [hs] at h; cases h
        | some p =>
          obtain ⟨cs', r'⟩ := p
          rw [hs] at h
          simp only [Option.map_some, Option.some.injEq, Prod.mk.injEq] at h
          obtain ⟨_, rfl⟩ := h
          obtain ⟨k, h1, h2, h3, h4⟩ := splitHeader_spec fuel (n + 1) _ cs' r' hs
          simp only [List.length_drop] at h2
          refine ⟨80 + k, by omega, by omega, by omega, by rw [h4, List.drop_drop]⟩

/-! ## HDUs and files -/

/-- bytes per pixel -/
def Pix.width : Pix → Nat
  | .f32 _ => 4
  | .f64 _ => 8

/-- the pixel array as big-endian bytes -/
def pixBytes : Pix → Bytes
  | .f32 d => enc32 d
  | .f64 d => enc64 d

/-- HDU `h` occupies `b[0, k+m)`: header blocks `b[0, k)`, data blocks `b[k, k+m)`; its pixel array has the
    declared number of elements, fits into the data blocks, and is spelled by the bytes at offset `k` -/
structure HduSpan (b : Bytes) (h : Hdu) (k m : Nat) : Prop where
  hdr_pos : 2880 ≤ k
  hdr_blocks : k % 2880 = 0
  data_blocks : m % 2880 = 0
  inside : k + m ≤ b.length
  count : h.pix.length = npix h.axes
  fits : h.pix.width * npix h.axes ≤ m
  words : pixBytes h.pix = (b.drop k).take (h.pix.width * npix h.axes)

theorem decodeHdu_frame (p : Bool) (b : Bytes) (h : Hdu) (rest : Bytes) (hd : decodeHdu p b = some (h, rest)) :
    ∃ k m, HduSpan b h k m ∧ rest = b.drop (k + m) := by
  unfold decodeHdu at hd
  cases hs : splitHeader (b.length / 80 + 1) 0 b with
  | none => rw [hs] at hd; cases hd
  | some q =>
    obtain ⟨raw, r0⟩ := q
    rw [hs] at hd
    simp only at hd
    obtain ⟨k, k1, k2, k3, rfl⟩ := splitHeader_spec _ _ _ _ _ hs
    have k4 : k % 2880 = 0 := by omega
    have k5 : 2880 ≤ k := by omega
    cases hm : mapM' parseCard raw with
    | none => rw [hm] at hd; cases hd
    | some cs =>
      rw [hm] at hd
      simp only at hd
      cases hp : parseStruct p cs with
      | none => rw [hp] at hd; cases hd
      | some q =>
        obtain ⟨bp, axes, cards⟩ := q
        rw [hp] at hd
        simp only at hd
        split at hd
        · cases hdd : dec32 (npix axes) (b.drop k) with
          | none => rw [hdd] at hd; cases hd
          | some d =>
            rw [hdd] at hd
            simp only at hd
            split at hd
            · cases hd
            · rename_i hused
              simp only [Option.some.injEq, Prod.mk.injEq] at hd
              obtain ⟨rfl, rfl⟩ := hd
              obtain ⟨d1, d2, d3⟩ := dec32_spec _ _ _ hdd
              have hp4 := blockPad_spec (4 * npix axes)
              simp only [List.length_drop] at hused
              refine ⟨k, 4 * npix axes + blockPad (4 * npix axes),
                ⟨k5, k4, hp4, by omega, d1, by simp only [Pix.width]; omega, d3⟩, by rw [List.drop_drop]⟩
        · split at hd
          · cases hdd : dec64 (npix axes) (b.drop k) with
            | none => rw [hdd] at hd; cases hd
            | some d =>
              rw [hdd] at hd
              simp only at hd
              split at hd
              · cases hd
              · rename_i hused
                simp only [Option.some.injEq, Prod.mk.injEq] at hd
                obtain ⟨rfl, rfl⟩ := hd
                obtain ⟨d1, d2, d3⟩ := dec64_spec _ _ _ hdd
                have hp8 := blockPad_spec (8 * npix axes)
                simp only [List.length_drop] at hused
                refine ⟨k, 8 * npix axes + blockPad (8 * npix axes),
                  ⟨k5, k4, hp8, by omega, d1, by simp only [Pix.width]; omega, d3⟩, by rw [List.drop_drop]⟩
          · cases hd

/-- `b` is tiled by the HDUs of `f`, nothing left over -/
def Framed : Bytes → List Hdu → Prop
  | b, [] => b = []
  | b, h :: hs => ∃ k m, HduSpan b h k m ∧ Framed (b.drop (k + m)) hs

theorem decodeAux_framed : ∀ (fuel : Nat) (p : Bool) (b : Bytes) (f : List Hdu),
    decodeAux fuel p b = some f → Framed b f
  | 0, p, b, f, h => by simp [decodeAux] at h
  | fuel+1, p, b, f, h => by
    unfold decodeAux at h
    split at h
    · rename_i hb
      split at h
      · cases h
      · have := Option.some.inj h; subst this; exact hb
    · cases hd : decodeHdu p b with
      | none => rw [hd] at h; cases h
      | some q =>
        obtain ⟨hdu, rest⟩ := q
        rw [hd] at h
        simp only at h
        cases hr : decodeAux fuel false rest with
        | none => rw [hr] at h; cases h
        | some hs =>
          rw [hr] at h
          simp only [Option.map_some, Option.some.injEq] at h
          subst h
          obtain ⟨k, m, hspan, rfl⟩ := decodeHdu_frame p b hdu rest hd
          exact ⟨k, m, hspan, decodeAux_framed fuel false _ hs hr⟩

/-- **every byte string the decoder accepts is tiled by the HDUs it yields** -/
theorem decodeFits_framed (b : Bytes) (f : Fits) (h : decodeFits b = some f) : Framed b f :=
  decodeAux_framed _ _ _ _ h

/-- in a framed store every pixel array has exactly the number of elements its axes declare -/
theorem framed_count : ∀ (b : Bytes) (f : List Hdu), Framed b f → ∀ h ∈ f, h.pix.length = npix h.axes
  | _, [], _, h, hm => by cases hm
  | b, g :: gs, hf, h, hm => by
    obtain ⟨k, m, hs, hr⟩ := hf
    rcases List.mem_cons.mp hm with rfl | hm'
    · exact hs.count
    · exact framed_count _ gs hr h hm'

/-- the sizes the header cards declare are covered by bytes that are present: one header block and the pixel
    bytes per HDU, summed, do not exceed the buffer -/
theorem framed_size : ∀ (b : Bytes) (f : List Hdu), Framed b f →
    (f.map fun h => 2880 + h.pix.width * npix h.axes).sum ≤ b.length
  | _, [], _ => by simp
  | b, g :: gs, hf => by
    obtain ⟨k, m, hs, hr⟩ := hf
    have := framed_size _ gs hr
    simp only [List.length_drop] at this
    simp only [List.map_cons, List.sum_cons]
    have h1 := hs.hdr_pos; have h2 := hs.fits; have h3 := hs.inside
    omega

/-- a decodable file is not empty and starts with an HDU -/
theorem decodeFits_ne_nil (b : Bytes) (f : Fits) (h : decodeFits b = some f) : f ≠ [] := by
  intro hf
  subst hf
  unfold decodeFits decodeAux at h
  split at h
  · simp at h
  · cases hd : decodeHdu true b with
    | none => rw [hd] at h; cases h
    | some q =>
      rw [hd] at h
      simp only at h
      cases hr : decodeAux (b.length / 2880) false q.2 with
      | none => rw [hr] at h; cases h
      | some hs => rw [hr] at h; simp at h

end PsV.Fits
