import PsV.Model.FitsWrite
/-! Helper lemmas for the C08 control-flow theorems. -/
namespace PsV.C08

theorem runCore_ok (env : Env) : ∀ (steps : List Step) (i : Nat), (runCore env steps i).1 = true →
    (runCore env steps i).2 = steps.map (fun s => (s, true)) ∧ ∀ j, j < steps.length → env (i + j) = true
  | [], _, _ => ⟨rfl, fun j hj => absurd hj (Nat.not_lt_zero _)⟩
  | s :: rest, i, h => by
    unfold runCore at h ⊢
    by_cases he : env i = true
    · simp only [he, if_true] at h ⊢
      obtain ⟨h1, h2⟩ := runCore_ok env rest (i+1) h
      refine ⟨by simp only [h1, List.map_cons], ?_⟩
      intro j hj
      cases j with
      | zero => simpa using he
      | succ k =>
        have := h2 k (by simpa using hj)
        have e : i + (k + 1) = i + 1 + k := by omega
        rw [e]; exact this
    · simp only [he] at h
      exact absurd h (by simp)

theorem runCore_length_le (env : Env) : ∀ (steps : List Step) (i : Nat), (runCore env steps i).2.length ≤ steps.length
  | [], _ => Nat.le_refl _
  | s :: rest, i => by
    unfold runCore
    by_cases he : env i = true
    · simp only [he, if_true, List.length_cons]
      exact Nat.succ_le_succ (runCore_length_le env rest (i+1))
    · simp only [he]; simp

end PsV.C08
