import PsV.Model.FitsView
import PsV.Proofs.FitsRead
import PsV.Proofs.ReadsEval
import PsV.Proofs.ReadsGrad
import PsV.Proofs.Bridge
/-!
# From the reader's well-formedness (`Fits.Table.WF`) to the hypotheses of the lookup and evaluation theorems

For a table `t` with `t.WF` (every table `readFixed` returns, `readFixed_wf`):
* the lookup on `t.lookupAxes memK` reads `knots[i][j]` only for `j < nknots[i]` (`searchAxis_congr`), never
  diverges, and every centre vector it returns satisfies `CentersInRange` of the evaluation view;
* the evaluation view has `RowMajor` strides, is non-empty, its `ncoef` is the length of the coefficient array
  read from the file, and two views that differ only outside the owned cells are `SameShape` / `AgreeOn`;
* for an interpretation `kn` of the knot bit patterns that is monotone in the integer key `dkey`, the view is
  `Table.WF` in the sense of `PsV/Proofs/Bridge.lean` (`Dim.WF` for every dimension, last stride 1).
-/
namespace PsV
open PsV.Fits

/-! ## the lookup reads only `knots[0 .. nknots)` -/
section congr
variable {α : Type} [Cmp α]

theorem bsearch_congr (k k' : Nat → α) (x : α) (M : Nat) (h : ∀ i, i ≤ M + 1 → k i = k' i) :
    ∀ fuel min max, min ≤ M + 1 → max ≤ M → bsearch k x fuel min max = bsearch k' x fuel min max := by
  intro fuel
  induction fuel with
  | zero => intros; rfl
  | succ fuel ih =>
    intro min max hmin hmax
    have hc : (max + min) / 2 ≤ M := by omega
    simp only [bsearch]
    rw [h _ (Nat.le_succ_of_le hc), h ((max + min) / 2 + 1) (by omega)]
    split
    · apply ih
      · split <;> omega
      · split <;> omega
    · rfl

/-- with `nknots ≥ 2·order+2` one dimension of `searchcenters` depends on `knots[0 .. nknots)` only -/
theorem searchAxis_congr (order nknots : Nat) (k k' : Nat → α) (x : α) (hn : 2 * order + 2 ≤ nknots)
    (h : ∀ i, i < nknots → k i = k' i) : searchAxis order nknots k x = searchAxis order nknots k' x := by
  unfold searchAxis
  simp only
  rw [h 0 (by omega), h (nknots - 1) (by omega), h order (by omega), h (nknots - order - 1) (by omega),
    bsearch_congr k k' x (nknots - 2) (fun i hi => h i (by omega)) nknots order (nknots - 2) (by omega)
      (Nat.le_refl _)]

end congr

/-! ## facts about `dkey`, `keyOf` -/

theorem finite_not_nan (b : UInt64) (h : finiteBits b = true) : nanBits b = false := by
  unfold finiteBits at h
  unfold nanBits
  simp only [bne_iff_ne, ne_eq] at h
  simp [h]

theorem keyOf_finite (b : UInt64) (h : finiteBits b = true) : keyOf b = some (dkey b) := by
  unfold keyOf; rw [finite_not_nan b h]; rfl

/-! ## one dimension -/

/-- the integer-key axis of dimension `i` (what `axisOf` of `Props/C07.lean` is) -/
def keyAxis (t : Fits.Table) (i : Nat) : Axis Int :=
  ⟨t.order.getD i 0, (t.knots.getD i []).length, fun j => ((t.knots.getD i []).map dkey).getD j 0⟩

theorem getD_map_dkey (k : List UInt64) (j : Nat) (hj : j < k.length) :
    (k.map dkey).getD j 0 = dkey (k.getD j 0) := by
  simp [List.getD_eq_getElem?_getD, hj]

theorem getD_mem_of_lt {α} (k : List α) (j : Nat) (d : α) (hj : j < k.length) : k.getD j d ∈ k := by
  rw [List.getD_eq_getElem?_getD, List.getElem?_eq_getElem hj]; exact List.getElem_mem hj

theorem keyAxis_WF (t : Fits.Table) (i : Nat) (hd : DimWF (t.order.getD i 0) (t.naxes.getD i 0) (t.knots.getD i [])) :
    (keyAxis t i).WF := by
  obtain ⟨hlen, _, hv⟩ := hd
  refine ⟨hlen, ?_⟩
  intro a b hab hb
  have hs : sortedKeys ((t.knots.getD i []).map dkey) = true := by
    unfold knotsValid at hv
    simp only [Bool.and_eq_true] at hv
    exact hv.2
  exact sortedKeys_mono _ hs a b hab (by simpa [keyAxis] using hb)

/-- on a valid dimension the lookup axis is the `some`-lifted integer-key axis, whatever the memory beyond holds -/
theorem lookupAxis_search (t : Fits.Table) (memK : Nat → Nat → Option Int) (i : Nat)
    (hd : DimWF (t.order.getD i 0) (t.naxes.getD i 0) (t.knots.getD i [])) (x : Int) :
    searchAxis (t.lookupAxis memK i).order (t.lookupAxis memK i).nknots (t.lookupAxis memK i).knots (some x)
      = @searchAxis Int (cmpLO Int) (keyAxis t i).order (keyAxis t i).nknots (keyAxis t i).knots x := by
  rw [← C04_driver_instance]
  obtain ⟨hlen, _, hv⟩ := hd
  apply searchAxis_congr _ _ _ _ _ hlen
  intro j hj
  unfold knotsValid at hv
  simp only [Bool.and_eq_true, List.all_eq_true] at hv
  simp only [Table.lookupAxis, keyAxis, hj, if_true]
  rw [keyOf_finite _ (hv.1 _ (getD_mem_of_lt _ _ _ hj)), getD_map_dkey _ _ hj]

/-- outcome of one dimension of the lookup on a valid dimension: rejection, or a centre in
    `[order, nknots-order-2]`; never divergence; and it does not depend on memory beyond the knot array -/
theorem lookupAxis_outcome (t : Fits.Table) (memK : Nat → Nat → Option Int) (i : Nat)
    (hd : DimWF (t.order.getD i 0) (t.naxes.getD i 0) (t.knots.getD i [])) (x : Option Int) :
    (searchAxis (t.lookupAxis memK i).order (t.lookupAxis memK i).nknots (t.lookupAxis memK i).knots x = .reject ∨
      ∃ c, searchAxis (t.lookupAxis memK i).order (t.lookupAxis memK i).nknots (t.lookupAxis memK i).knots x = .ok c ∧
        (t.lookupAxis memK i).order ≤ c ∧ c + (t.lookupAxis memK i).order + 2 ≤ (t.lookupAxis memK i).nknots) := by
  cases x with
  | none => left; exact searchAxis_nan _ _ _
  | some x =>
    have hw := keyAxis_WF t i hd
    have hs := lookupAxis_search t memK i hd x
    have h4 := C04_searchAxis (keyAxis t i) x hw
    by_cases hr : InRange (keyAxis t i) x
    · obtain ⟨c, hc, h1, h2, _⟩ := h4.2 hr
      right
      refine ⟨c, ?_, h1, ?_⟩
      · rw [hs]; exact hc
      · have := hw.len
        show c + (keyAxis t i).order + 2 ≤ (keyAxis t i).nknots
        omega
    · left
      rw [hs]; exact h4.1 hr

theorem lookupAxis_mem_indep (t : Fits.Table) (memK memK' : Nat → Nat → Option Int) (i : Nat)
    (hd : DimWF (t.order.getD i 0) (t.naxes.getD i 0) (t.knots.getD i [])) (x : Option Int) :
    searchAxis (t.lookupAxis memK i).order (t.lookupAxis memK i).nknots (t.lookupAxis memK i).knots x
      = searchAxis (t.lookupAxis memK' i).order (t.lookupAxis memK' i).nknots (t.lookupAxis memK' i).knots x := by
  apply searchAxis_congr _ _ _ _ _ hd.1
  intro j hj
  simp only [Table.lookupAxis, hj, if_true]

/-! ## all dimensions (induction over `List.range' s n`) -/

variable {α : Type}

theorem search_range' (t : Fits.Table) (memK : Nat → Nat → Option Int) (kn : UInt64 → α) (mem : Nat → Int → α) :
    ∀ (n s : Nat) (xs : List (Option Int)),
      (∀ i, s ≤ i → i < s + n → DimWF (t.order.getD i 0) (t.naxes.getD i 0) (t.knots.getD i [])) →
      searchCenters ((List.range' s n).map (t.lookupAxis memK)) xs ≠ .nonterm ∧
      ∀ cs, searchCenters ((List.range' s n).map (t.lookupAxis memK)) xs = .ok cs →
        CentersInRange ((List.range' s n).map (t.evalDim kn mem)) cs := by
  intro n
  induction n with
  | zero =>
    intro s xs _
    simp only [List.range'_zero, List.map_nil, searchCenters]
    refine ⟨by simp, ?_⟩
    intro cs h
    cases h
    trivial
  | succ n ih =>
    intro s xs hd
    simp only [List.range'_succ, List.map_cons]
    cases xs with
    | nil => simp [searchCenters]
    | cons x xs =>
      have ih' := ih (s + 1) xs (fun i h1 h2 => hd i (by omega) (by omega))
      have hds := hd s (Nat.le_refl _) (by omega)
      simp only [searchCenters]
      rcases lookupAxis_outcome t memK s hds x with hrej | ⟨c, hc, h1, h2⟩
      · rw [hrej]
        exact ⟨by simp, fun cs h => by cases h⟩
      · rw [hc]
        simp only
        cases hrest : searchCenters ((List.range' (s + 1) n).map (t.lookupAxis memK)) xs with
        | reject => exact ⟨by simp, fun cs h => by cases h⟩
        | nonterm => exact absurd hrest ih'.1
        | ok cs' =>
          refine ⟨by simp, ?_⟩
          intro cs h
          simp only [Res.ok.injEq] at h
          subst h
          exact ⟨⟨h1, h2, hds.2.1⟩, ih'.2 cs' hrest⟩

theorem search_mem_indep_range' (t : Fits.Table) (memK memK' : Nat → Nat → Option Int) :
    ∀ (n s : Nat) (xs : List (Option Int)),
      (∀ i, s ≤ i → i < s + n → DimWF (t.order.getD i 0) (t.naxes.getD i 0) (t.knots.getD i [])) →
      searchCenters ((List.range' s n).map (t.lookupAxis memK)) xs
        = searchCenters ((List.range' s n).map (t.lookupAxis memK')) xs := by
  intro n
  induction n with
  | zero => intros; rfl
  | succ n ih =>
    intro s xs hd
    simp only [List.range'_succ, List.map_cons]
    cases xs with
    | nil => rfl
    | cons x xs =>
      simp only [searchCenters]
      rw [lookupAxis_mem_indep t memK memK' s (hd s (Nat.le_refl _) (by omega)) x,
        ih (s + 1) xs (fun i h1 h2 => hd i (by omega) (by omega))]

/-! ## row-major strides -/

theorem rowMajor_getD_last : ∀ (l : List Nat), l ≠ [] → (rowMajor l).getD (l.length - 1) 0 = 1
  | [], h => absurd rfl h
  | [a], _ => rfl
  | a :: b :: r, _ => by
    have := rowMajor_getD_last (b :: r) (by simp)
    simpa [rowMajor] using this

theorem rowMajor_getD_step : ∀ (l : List Nat) (i : Nat), i + 1 < l.length →
    (rowMajor l).getD i 0 = (rowMajor l).getD (i + 1) 0 * l.getD (i + 1) 0
  | [], i, h => by simp at h
  | [a], i, h => by simp at h
  | a :: b :: r, 0, _ => by
    simp only [rowMajor, List.getD_cons_zero, List.getD_cons_succ, prod_cons]
    exact Nat.mul_comm _ _
  | a :: b :: r, i + 1, h => by
    have := rowMajor_getD_step (b :: r) i (by simpa using h)
    simpa [rowMajor] using this

theorem rowMajor_range' (g : Nat → Dim α) : ∀ (n s : Nat),
    (∀ i, s ≤ i → i < s + n → (g i).stride = (g (i + 1)).stride * (g (i + 1)).naxes) →
    (g (s + n)).stride = 1 → RowMajor ((List.range' s (n + 1)).map g)
  | 0, s, _, h1 => by simpa [RowMajor] using h1
  | n + 1, s, hs, h1 => by
    rw [List.range'_succ, List.range'_succ]
    simp only [List.map_cons, RowMajor]
    refine ⟨hs s (Nat.le_refl _) (by omega), ?_⟩
    have := rowMajor_range' g n (s + 1) (fun i a b => hs i (by omega) (by omega))
      (by rw [show s + 1 + n = s + (n + 1) by omega]; exact h1)
    rw [List.range'_succ] at this
    simpa using this

theorem evalDims_length (t : Fits.Table) (kn : UInt64 → α) (mem : Nat → Int → α) :
    (t.evalDims kn mem).length = t.ndim := by simp [Table.evalDims]

theorem evalDims_rowMajor (t : Fits.Table) (h : t.WF) (kn : UInt64 → α) (mem : Nat → Int → α) :
    RowMajor (t.evalDims kn mem) := by
  obtain ⟨hpos, _, hnx, hst, _⟩ := h
  unfold Table.evalDims
  obtain ⟨m, hm⟩ : ∃ m, t.ndim = m + 1 := ⟨t.ndim - 1, by omega⟩
  rw [hm, List.range_eq_range']
  apply rowMajor_range'
  · intro i _ hi
    simp only [Table.evalDim, hst]
    exact rowMajor_getD_step _ _ (by omega)
  · simp only [Table.evalDim, hst, Nat.zero_add]
    have := rowMajor_getD_last t.naxes (by intro h; rw [h] at hnx; simp at hnx; omega)
    rw [hnx, hm] at this
    simpa using this

theorem evalDims_ne_nil (t : Fits.Table) (h : t.WF) (kn : UInt64 → α) (mem : Nat → Int → α) :
    t.evalDims kn mem ≠ [] := by
  intro h'
  have := evalDims_length t kn mem
  rw [h'] at this
  have := h.1
  simp at *
  omega

/-- the evaluators' coefficient count `strides[0]*naxes[0]` is the length of the array read from the file -/
theorem evalDims_ncoef (t : Fits.Table) (h : t.WF) (kn : UInt64 → α) (mem : Nat → Int → α) :
    ncoef (t.evalDims kn mem) = t.coef.length := by
  obtain ⟨hpos, _, hnx, hst, hco, _⟩ := h
  unfold Table.evalDims
  obtain ⟨m, hm⟩ : ∃ m, t.ndim = m + 1 := ⟨t.ndim - 1, by omega⟩
  rw [hm, List.range_succ_eq_map]
  simp only [List.map_cons, ncoef, Table.evalDim]
  rw [hco, hst]
  have hne : t.naxes ≠ [] := by intro h; rw [h] at hnx; simp at hnx; omega
  rw [← headD_rowMajor_mul _ hne]
  cases hn : t.naxes with
  | nil => exact absurd hn hne
  | cons a as => simp [rowMajor]

/-! ## two views that differ only outside the owned cells -/

/-- the memory contents agree on the padding cells `[-order, 0) ∪ [nknots, nknots+order)` of every dimension -/
def PadAgree (t : Fits.Table) (mem mem' : Nat → Int → α) : Prop :=
  ∀ i j, -((t.order.getD i 0 : Nat) : Int) ≤ j → j < ((t.knots.getD i []).length : Int) + (t.order.getD i 0 : Nat) →
    mem i j = mem' i j

theorem sameShape_range' [Arith α] (t : Fits.Table) (kn : UInt64 → α) (mem mem' : Nat → Int → α) (hp : PadAgree t mem mem') :
    ∀ (n s : Nat), SameShape ((List.range' s n).map (t.evalDim kn mem)) ((List.range' s n).map (t.evalDim kn mem'))
  | 0, _ => by simp [SameShape]
  | n + 1, s => by
    simp only [List.range'_succ, List.map_cons, SameShape]
    refine ⟨⟨rfl, rfl, rfl, rfl, ?_⟩, sameShape_range' t kn mem mem' hp n (s + 1)⟩
    intro j h1 h2
    simp only [Table.evalDim] at h1 h2 ⊢
    split
    · rfl
    · exact hp s j h1 (by omega)

theorem evalView_coef_agree [Arith α] (t : Fits.Table) (kn : UInt64 → α) (cf : UInt32 → α) (mem mem' : Nat → Int → α)
    (memC memC' : Int → α) (n : Int) (hn : n ≤ t.coef.length) :
    AgreeOn (t.evalView kn cf mem memC).coef (t.evalView kn cf mem' memC').coef 0 (n - 1) := by
  intro j h1 h2
  have : 0 ≤ j ∧ j < (t.coef.length : Int) := ⟨h1, by omega⟩
  simp only [Table.evalView, this, and_self, if_true]

/-! ## the made-up extents index inside the knot vectors -/

theorem getElem?_eq_some_getD {α} (l : List α) (i : Nat) (d : α) (h : i < l.length) : l[i]? = some (l.getD i d) := by
  simp [List.getD_eq_getElem?_getD, List.getElem?_eq_getElem h]

theorem defaultExtentsChk_eq (order : List Nat) (knots : List (List UInt64)) (hk : knots.length = order.length)
    (hd : ∀ i, i < order.length → 2 * order.getD i 0 + 2 ≤ (knots.getD i []).length) :
    defaultExtentsChk order knots = some (defaultExtents order knots) := by
  unfold defaultExtentsChk defaultExtents
  have hl : ∀ i ∈ List.range order.length, i < order.length := fun i hi => List.mem_range.mp hi
  generalize List.range order.length = l at hl
  induction l with
  | nil => rfl
  | cons i l ih =>
    have hi := hl i (by simp)
    have ih' := ih (fun j hj => hl j (by simp [hj]))
    have hlen := hd i hi
    simp only [List.foldr_cons, List.flatMap_cons, ih']
    rw [getElem?_eq_some_getD order i 0 hi, getElem?_eq_some_getD knots i [] (by omega)]
    simp only
    rw [getElem?_eq_some_getD (knots.getD i []) (order.getD i 0) 0 (by omega),
      getElem?_eq_some_getD (knots.getD i []) ((knots.getD i []).length - order.getD i 0 - 1) 0 (by omega)]
    rfl

/-! ## the well-formedness the evaluation-correctness theorems assume (`Proofs/Bridge.lean`, `Proofs/EvalSpec.lean`) -/
section field
variable {β : Type} [Field β] [LinearOrder β]
attribute [local instance] Arith.ofField

/-- an interpretation of knot bit patterns that respects the order of finite doubles (the real value of a
    finite double is one: `dkey` is order-isomorphic to it) -/
def KeyMono (kn : UInt64 → β) : Prop :=
  ∀ a b, finiteBits a = true → finiteBits b = true → dkey a ≤ dkey b → kn a ≤ kn b

theorem evalDim_WF (t : Fits.Table) (kn : UInt64 → β) (hk : KeyMono kn) (mem : Nat → Int → β) (i : Nat)
    (hd : DimWF (t.order.getD i 0) (t.naxes.getD i 0) (t.knots.getD i [])) : (t.evalDim kn mem i).WF := by
  obtain ⟨hlen, hna, hv⟩ := hd
  refine ⟨hlen, hna, ?_⟩
  intro a b ha hab hb
  unfold knotsValid at hv
  simp only [Bool.and_eq_true, List.all_eq_true] at hv
  simp only [Table.evalDim] at hb ⊢
  have h1 : 0 ≤ a ∧ a < ((t.knots.getD i []).length : Int) := ⟨ha, by omega⟩
  have h2 : 0 ≤ b ∧ b < ((t.knots.getD i []).length : Int) := ⟨by omega, hb⟩
  rw [if_pos h1, if_pos h2]
  have la : a.toNat < (t.knots.getD i []).length := by omega
  have lb : b.toNat < (t.knots.getD i []).length := by omega
  apply hk _ _ (hv.1 _ (getD_mem_of_lt _ _ _ la)) (hv.1 _ (getD_mem_of_lt _ _ _ lb))
  have := sortedKeys_mono _ hv.2 a.toNat b.toNat (by omega) (by simpa using lb)
  rwa [getD_map_dkey _ _ la, getD_map_dkey _ _ lb] at this

theorem lastStrideOne_range' (g : Nat → Dim β) : ∀ (n s : Nat), (g (s + n)).stride = 1 →
    lastStrideOne ((List.range' s (n + 1)).map g)
  | 0, s, h => by simpa [lastStrideOne] using h
  | n + 1, s, h => by
    rw [List.range'_succ, List.range'_succ]
    simp only [List.map_cons, lastStrideOne]
    have := lastStrideOne_range' g n (s + 1) (by rw [show s + 1 + n = s + (n + 1) by omega]; exact h)
    rw [List.range'_succ] at this
    simpa using this

/-- every table with the reader's well-formedness is well-formed in the sense of the evaluation theorems -/
theorem evalView_WF (t : Fits.Table) (h : t.WF) (kn : UInt64 → β) (hk : KeyMono kn) (cf : UInt32 → β)
    (mem : Nat → Int → β) (memC : Int → β) : (t.evalView kn cf mem memC).WF := by
  obtain ⟨hpos, _, hnx, hst, _, hd, _⟩ := h
  constructor
  · intro d hd'
    simp only [Table.evalView, Table.evalDims, List.mem_map, List.mem_range] at hd'
    obtain ⟨i, hi, rfl⟩ := hd'
    exact evalDim_WF t kn hk mem i (hd i hi)
  · simp only [Table.evalView, Table.evalDims]
    obtain ⟨m, hm⟩ : ∃ m, t.ndim = m + 1 := ⟨t.ndim - 1, by omega⟩
    rw [hm, List.range_eq_range']
    apply lastStrideOne_range'
    simp only [Table.evalDim, hst, Nat.zero_add]
    have := rowMajor_getD_last t.naxes (by intro h; rw [h] at hnx; simp at hnx; omega)
    rw [hnx, hm] at this
    simpa using this

end field

end PsV
