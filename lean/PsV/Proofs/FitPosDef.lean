import PsV.Proofs.FitQuad
/-!
# C09: when is the normal matrix positive definite?

For non-negative weights and non-negative smoothing strengths the quadratic form of the normal matrix is
`vᵀMv = Σ_r w_r (Bv)_r² + Σ_d λ_d ‖K_d v‖²`, a sum of non-negative terms; it vanishes exactly when `Bv`
vanishes at every datum of non-zero weight and every penalty term with `λ_d ≠ 0` vanishes on `v`.  Hence
`M` is positive definite iff no non-zero coefficient vector is invisible to both the data and the penalty;
in particular when the weights are positive on a set of data points on which the design matrix has full
column rank.
-/
namespace PsV
open Arith Finset NormalEq
set_option linter.unusedSectionVars false

section
variable {α : Type} [Field α] [LinearOrder α] [IsStrictOrderedRing α] [A : Arith α] [L : LawfulArith α]

/-- `(B v)_r` -/
def fitVal (P : FitProblem α) (v : Nat → α) (r : Nat) : α := ∑ i ∈ range P.ncoef, designEntry P r i * v i

theorem penaltySum_cons (d : Dim α) (ds : List (Dim α)) (l : α) (ls : List α) (p : Nat) (ps : List Nat)
    (N : Nat) (c : Nat → α) :
    penaltySum (d :: ds) (l :: ls) (p :: ps) N c
      = l * (∑ q ∈ range (penaltyNK d p N),
              (∑ i ∈ range N, penaltyRow d.knots d.order p d.naxes d.stride q i * c i) ^ 2)
        + penaltySum ds ls ps N c := by
  have hN : N / (d.naxes * d.stride) * d.naxes * d.stride ≤ N := by
    rw [Nat.mul_assoc]; exact Nat.div_mul_le_self _ _
  simp only [penaltySum]
  rw [L.add_eq, L.mul_eq, penaltyTerm_eq _ _ _ _ _ _ N c hN]
  rfl

theorem penaltySum_nonneg (ds : List (Dim α)) (ls : List α) (ps : List Nat) (N : Nat) (c : Nat → α)
    (hl : ∀ l ∈ ls, 0 ≤ l) : 0 ≤ penaltySum ds ls ps N c := by
  induction ds generalizing ls ps with
  | nil => cases ls <;> cases ps <;> simp [penaltySum, L.zero_eq]
  | cons d ds ih =>
    cases ps with
    | nil => cases ls <;> simp [penaltySum, L.zero_eq]
    | cons p ps =>
      cases ls with
      | nil => simp [penaltySum, L.zero_eq]
      | cons l ls =>
        rw [penaltySum_cons]
        have h1 : 0 ≤ l := hl l (by simp)
        have h2 := ih ls ps (fun x hx => hl x (by simp [hx]))
        have h3 : 0 ≤ ∑ q ∈ range (penaltyNK d p N),
            (∑ i ∈ range N, penaltyRow d.knots d.order p d.naxes d.stride q i * c i) ^ 2 :=
          sum_nonneg (fun q _ => sq_nonneg _)
        have := mul_nonneg h1 h3
        linarith

/-- for non-negative smoothing strengths the penalty vanishes on `c` iff in every dimension `λ_d = 0` or
every row of `K_d` vanishes on `c` -/
theorem penaltySum_eq_zero_iff (ds : List (Dim α)) (ls : List α) (ps : List Nat) (N : Nat) (c : Nat → α)
    (hl : ∀ l ∈ ls, 0 ≤ l) : penaltySum ds ls ps N c = 0 ↔ PenaltyVanishes ds ls ps N c := by
  induction ds generalizing ls ps with
  | nil => cases ls <;> cases ps <;> simp [penaltySum, PenaltyVanishes, L.zero_eq]
  | cons d ds ih =>
    cases ps with
    | nil => cases ls <;> simp [penaltySum, PenaltyVanishes, L.zero_eq]
    | cons p ps =>
      cases ls with
      | nil => simp [penaltySum, PenaltyVanishes, L.zero_eq]
      | cons l ls =>
        rw [penaltySum_cons]
        have h1 : 0 ≤ l := hl l (by simp)
        have hl' : ∀ x ∈ ls, 0 ≤ x := fun x hx => hl x (by simp [hx])
        have h2 := penaltySum_nonneg ds ls ps N c hl'
        have h3 : 0 ≤ ∑ q ∈ range (penaltyNK d p N),
            (∑ i ∈ range N, penaltyRow d.knots d.order p d.naxes d.stride q i * c i) ^ 2 :=
          sum_nonneg (fun q _ => sq_nonneg _)
        have h4 := mul_nonneg h1 h3
        show _ ↔ (l = 0 ∨ ∀ q < penaltyNK d p N,
            ∑ i ∈ range N, penaltyRow d.knots d.order p d.naxes d.stride q i * c i = 0)
              ∧ PenaltyVanishes ds ls ps N c
        rw [← ih ls ps hl']
        constructor
        · intro h
          have e1 : l * ∑ q ∈ range (penaltyNK d p N),
              (∑ i ∈ range N, penaltyRow d.knots d.order p d.naxes d.stride q i * c i) ^ 2 = 0 := by
            linarith
          have e2 : penaltySum ds ls ps N c = 0 := by linarith
          refine ⟨?_, e2⟩
          rcases mul_eq_zero.1 e1 with h0 | h0
          · exact Or.inl h0
          · refine Or.inr (fun q hq => ?_)
            have := (sum_eq_zero_iff_of_nonneg (fun q _ => sq_nonneg _)).1 h0 q (mem_range.2 hq)
            exact pow_eq_zero_iff (two_ne_zero) |>.1 this
        · rintro ⟨h0 | h0, e2⟩
          · rw [h0, zero_mul, e2, add_zero]
          · rw [sum_eq_zero (fun q hq => by rw [h0 q (mem_range.1 hq)]; ring), mul_zero, e2, add_zero]

/-- the data part of the quadratic form -/
theorem dataQuad_nonneg (P : FitProblem α) (v : Nat → α) (hw : ∀ r < P.rows.size, 0 ≤ rowW P r) :
    0 ≤ ∑ r ∈ range P.rows.size, rowW P r * fitVal P v r ^ 2 :=
  sum_nonneg (fun r hr => mul_nonneg (hw r (mem_range.1 hr)) (sq_nonneg _))

theorem dataQuad_eq_zero_iff (P : FitProblem α) (v : Nat → α) (hw : ∀ r < P.rows.size, 0 ≤ rowW P r) :
    ∑ r ∈ range P.rows.size, rowW P r * fitVal P v r ^ 2 = 0
      ↔ ∀ r < P.rows.size, rowW P r ≠ 0 → fitVal P v r = 0 := by
  rw [sum_eq_zero_iff_of_nonneg (fun r hr => mul_nonneg (hw r (mem_range.1 hr)) (sq_nonneg _))]
  constructor
  · intro h r hr hne
    rcases mul_eq_zero.1 (h r (mem_range.2 hr)) with h0 | h0
    · exact absurd h0 hne
    · exact pow_eq_zero_iff (two_ne_zero) |>.1 h0
  · intro h r hr
    by_cases hne : rowW P r = 0
    · rw [hne, zero_mul]
    · rw [h r (mem_range.1 hr) hne]; ring

/-- **Characterisation of positive definiteness.**  For non-negative weights and smoothing strengths the
normal matrix is positive definite iff the only coefficient vector (on `[0,N)`) whose spline vanishes at every
datum of non-zero weight and on which every active penalty term vanishes is zero. -/
theorem posDef_iff_trivial_kernel (P : FitProblem α) (hw : ∀ r < P.rows.size, 0 ≤ rowW P r)
    (hl : ∀ l ∈ P.smooth, 0 ≤ l) :
    PosDef P.ncoef (Mf P) ↔
      ∀ v : Nat → α, (∀ r < P.rows.size, rowW P r ≠ 0 → fitVal P v r = 0) →
        PenaltyVanishes P.dims P.smooth P.porder P.ncoef v → ∀ i < P.ncoef, v i = 0 := by
  have hq : ∀ v, quad P.ncoef (Mf P) v
      = ∑ r ∈ range P.rows.size, rowW P r * fitVal P v r ^ 2
        + penaltySum P.dims P.smooth P.porder P.ncoef v := fun v => quad_Mf P v
  constructor
  · intro hP v hv hpen i hi
    by_contra hne
    have hpos := hP v ⟨i, hi, hne⟩
    rw [hq, (dataQuad_eq_zero_iff P v hw).2 hv, (penaltySum_eq_zero_iff _ _ _ _ _ hl).2 hpen] at hpos
    simp at hpos
  · intro hK v hv
    have h1 := dataQuad_nonneg P v hw
    have h2 := penaltySum_nonneg P.dims P.smooth P.porder P.ncoef v hl
    rw [hq]
    by_contra hnp
    have e1 : ∑ r ∈ range P.rows.size, rowW P r * fitVal P v r ^ 2 = 0 := by linarith
    have e2 : penaltySum P.dims P.smooth P.porder P.ncoef v = 0 := by linarith
    obtain ⟨i, hi, hne⟩ := hv
    exact hne (hK v ((dataQuad_eq_zero_iff P v hw).1 e1) ((penaltySum_eq_zero_iff _ _ _ _ _ hl).1 e2) i hi)

/-- **Sufficient condition.**  Weights non-negative, smoothing strengths non-negative, and the weights are
positive on a set `S` of data rows on which the design matrix has full column rank (a coefficient vector
whose spline vanishes at every datum of `S` is zero): then the normal matrix is positive definite. -/
theorem posDef_of_full_rank (P : FitProblem α) (hw : ∀ r < P.rows.size, 0 ≤ rowW P r)
    (hl : ∀ l ∈ P.smooth, 0 ≤ l) (S : Nat → Prop) (hS : ∀ r, S r → r < P.rows.size ∧ 0 < rowW P r)
    (hrank : ∀ v : Nat → α, (∀ r, S r → fitVal P v r = 0) → ∀ i < P.ncoef, v i = 0) :
    PosDef P.ncoef (Mf P) :=
  (posDef_iff_trivial_kernel P hw hl).2 (fun v hv _ =>
    hrank v (fun r hr => hv r (hS r hr).1 (ne_of_gt (hS r hr).2)))

end
end PsV
