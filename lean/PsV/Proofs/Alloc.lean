import PsV.Model.Alloc
/-!
# C19 — lemmas about allocation-event sequences and the generated size terms (core Lean only)
-/
namespace PsV.C19
open PsV.Generated.C19

/-! ## event sequences -/

def allocBytes : List Event → Nat
  | [] => 0
  | .alloc n :: es => n + allocBytes es
  | .free _ :: es => allocBytes es

def freeBytes : List Event → Nat
  | [] => 0
  | .alloc _ :: es => freeBytes es
  | .free n :: es => n + freeBytes es

def allocOnly : List Event → Bool
  | [] => true
  | .alloc _ :: es => allocOnly es
  | .free _ :: _ => false

def freeOnly : List Event → Bool
  | [] => true
  | .alloc _ :: _ => false
  | .free _ :: es => freeOnly es

theorem le_peakFrom (l : Nat) (es : List Event) : l ≤ peakFrom l es := by
  cases es with
  | nil => exact Nat.le_refl _
  | cons e es => exact Nat.le_max_left _ _

theorem peakFrom_append (a b : List Event) (l : Nat) :
    peakFrom l (a ++ b) = max (peakFrom l a) (peakFrom (liveAfter l a) b) := by
  induction a generalizing l with
  | nil =>
    have := le_peakFrom l b
    simp only [List.nil_append, peakFrom, liveAfter]; omega
  | cons e a ih =>
    simp only [List.cons_append, peakFrom, liveAfter, ih]; omega

theorem liveAfter_append (a b : List Event) (l : Nat) :
    liveAfter l (a ++ b) = liveAfter (liveAfter l a) b := by
  induction a generalizing l with
  | nil => rfl
  | cons e a ih => simp only [List.cons_append, liveAfter, ih]

theorem balanced_append (a b : List Event) (l : Nat) :
    balanced l (a ++ b) = (balanced l a && balanced (liveAfter l a) b) := by
  induction a generalizing l with
  | nil => simp [balanced, liveAfter]
  | cons e a ih =>
    cases e with
    | alloc n => simp only [List.cons_append, balanced, liveAfter, step, ih]
    | free n => simp only [List.cons_append, balanced, liveAfter, step, ih, Bool.and_assoc]

theorem allocOnly_run (es : List Event) (h : allocOnly es = true) (l : Nat) :
    peakFrom l es = l + allocBytes es ∧ liveAfter l es = l + allocBytes es ∧ balanced l es = true := by
  induction es generalizing l with
  | nil => simp [peakFrom, liveAfter, balanced, allocBytes]
  | cons e es ih =>
    cases e with
    | alloc n =>
      obtain ⟨h1, h2, h3⟩ := ih (by simpa [allocOnly] using h) (l + n)
      refine ⟨?_, ?_, ?_⟩
      · show max l (peakFrom (l + n) es) = l + (n + allocBytes es)
        rw [h1]; omega
      · show liveAfter (l + n) es = l + (n + allocBytes es)
        rw [h2]; omega
      · show balanced (l + n) es = true
        exact h3
    | free n => simp [allocOnly] at h

theorem freeOnly_run (es : List Event) (h : freeOnly es = true) (l : Nat) (hb : freeBytes es ≤ l) :
    peakFrom l es = l ∧ liveAfter l es = l - freeBytes es ∧ balanced l es = true := by
  induction es generalizing l with
  | nil => simp [peakFrom, liveAfter, balanced, freeBytes]
  | cons e es ih =>
    cases e with
    | alloc n => simp [freeOnly] at h
    | free n =>
      simp only [freeBytes] at hb
      obtain ⟨h1, h2, h3⟩ := ih (by simpa [freeOnly] using h) (l - n) (by omega)
      refine ⟨?_, ?_, ?_⟩
      · show max l (peakFrom (l - n) es) = l
        rw [h1]; omega
      · show liveAfter (l - n) es = l - (n + freeBytes es)
        rw [h2]; omega
      · show (decide (n ≤ l) && balanced (l - n) es) = true
        rw [h3]; simp; omega

theorem allocBytes_append (a b : List Event) : allocBytes (a ++ b) = allocBytes a + allocBytes b := by
  induction a with
  | nil => simp [allocBytes]
  | cons e a ih => cases e <;> simp only [List.cons_append, allocBytes, ih] <;> omega

theorem freeBytes_append (a b : List Event) : freeBytes (a ++ b) = freeBytes a + freeBytes b := by
  induction a with
  | nil => simp [freeBytes]
  | cons e a ih => cases e <;> simp only [List.cons_append, freeBytes, ih] <;> omega

theorem allocOnly_append (a b : List Event) : allocOnly (a ++ b) = (allocOnly a && allocOnly b) := by
  induction a with
  | nil => simp [allocOnly]
  | cons e a ih => cases e <;> simp [allocOnly, ih]

theorem freeOnly_append (a b : List Event) : freeOnly (a ++ b) = (freeOnly a && freeOnly b) := by
  induction a with
  | nil => simp [freeOnly]
  | cons e a ih => cases e <;> simp [freeOnly, ih]

section flatMap
variable {α : Type}

theorem allocOnly_flatMap (l : List α) (f : α → List Event) (h : ∀ a, allocOnly (f a) = true) :
    allocOnly (l.flatMap f) = true := by
  induction l with
  | nil => rfl
  | cons a l ih => simp [List.flatMap_cons, allocOnly_append, h, ih]

theorem freeOnly_flatMap (l : List α) (f : α → List Event) (h : ∀ a, freeOnly (f a) = true) :
    freeOnly (l.flatMap f) = true := by
  induction l with
  | nil => rfl
  | cons a l ih => simp [List.flatMap_cons, freeOnly_append, h, ih]

theorem allocBytes_flatMap (l : List α) (f : α → List Event) (g : α → Nat) (h : ∀ a, allocBytes (f a) = g a) :
    allocBytes (l.flatMap f) = (l.map g).sum := by
  induction l with
  | nil => rfl
  | cons a l ih => simp [List.flatMap_cons, allocBytes_append, h, ih]

theorem freeBytes_flatMap (l : List α) (f : α → List Event) (g : α → Nat) (h : ∀ a, freeBytes (f a) = g a) :
    freeBytes (l.flatMap f) = (l.map g).sum := by
  induction l with
  | nil => rfl
  | cons a l ih => simp [List.flatMap_cons, freeBytes_append, h, ih]

theorem sum_map_le (l : List α) (g : α → Nat) (c : Nat) (h : ∀ a ∈ l, g a ≤ c) : (l.map g).sum ≤ c * l.length := by
  induction l with
  | nil => simp
  | cons a l ih =>
    have h1 := h a (List.mem_cons_self ..)
    have h2 := ih (fun b hb => h b (List.mem_cons_of_mem _ hb))
    simp only [List.map_cons, List.sum_cons, List.length_cons, Nat.mul_succ]; omega
end flatMap

/-! ## shapes -/

/-- bytes of the knot vectors (with their `2·order` padding) of a shape -/
def knotBytes (ds : List Dim) : Nat := (ds.map fun d => (d.nknots + 2 * d.order) * 8).sum

theorem length_adjustAt (f : Dim → Dim) (c : Nat) (ds : List Dim) : (adjustAt f c ds).length = ds.length := by
  induction ds generalizing c with
  | nil => cases c <;> rfl
  | cons d ds ih => cases c <;> simp [adjustAt, ih]

theorem adjustAt_congr (f g : Dim → Dim) (h : ∀ d, f d = g d) (c : Nat) (ds : List Dim) : adjustAt f c ds = adjustAt g c ds := by
  have : f = g := funext h
  rw [this]

theorem knotBytes_adjustAt_ge (f : Dim → Dim) (h : ∀ d, (d.nknots + 2 * d.order) * 8 ≤ ((f d).nknots + 2 * (f d).order) * 8)
    (c : Nat) (ds : List Dim) : knotBytes ds ≤ knotBytes (adjustAt f c ds) := by
  induction ds generalizing c with
  | nil => cases c <;> simp [adjustAt]
  | cons d ds ih =>
    cases c with
    | zero => have := h d; simp only [adjustAt, knotBytes, List.map_cons, List.sum_cons]; omega
    | succ c => have := ih c; simp only [adjustAt, knotBytes, List.map_cons, List.sum_cons] at *; omega

theorem prodNaxes_adjustAt_ge (f : Dim → Dim) (c : Nat) (ds : List Dim)
    (h : ∀ d, ds[c]? = some d → d.naxes ≤ (f d).naxes) : prodNaxes ds ≤ prodNaxes (adjustAt f c ds) := by
  induction ds generalizing c with
  | nil => cases c <;> simp [adjustAt]
  | cons d ds ih =>
    cases c with
    | zero => exact Nat.mul_le_mul_right _ (h d (by simp))
    | succ c => exact Nat.mul_le_mul_left _ (ih c (fun e he => h e (by simpa using he)))

theorem sumKnotTerms_eq (ds : List Dim) : sumKnotTerms ds = knotBytes ds := by
  induction ds with
  | nil => rfl
  | cons d ds ih => simp only [sumKnotTerms, knotBytes, List.map_cons, List.sum_cons, knotTerms, List.sum_nil, ih] at *; omega

/-- For `n ≥ 1` the shape `estimateMemory` computes is the shape `convolve` installs. -/
theorem estDims_eq_convDims (p : Params) (hn : 1 ≤ p.n) : estDims p = convDims p := by
  unfold estDims convDims
  apply adjustAt_congr
  intro d
  simp only [estDim, convDim, orderAdj, nknotsAdj, naxesAdj]
  have : d.order + (p.n - 1) = d.order + p.n - 1 := by omega
  rw [this]

/-- In the convolved dimension the coefficient axis does not shrink (needs the file's axis to be consistent
    with its knot count): `n·nknots − (order+n−1) − 1 − (nknots−order−1) = (n−1)(nknots−1) ≥ 0`. -/
theorem convDim_naxes_ge (n : Nat) (hn : 1 ≤ n) (d : Dim) (hc : d.naxes + d.order + 1 = d.nknots) :
    d.naxes ≤ (convDim n d).naxes := by
  simp only [convDim]
  obtain ⟨m, rfl⟩ : ∃ m, n = m + 1 := ⟨n - 1, by omega⟩
  have h1 : d.nknots * (m + 1) = d.nknots * m + d.nknots := Nat.mul_succ _ _
  have h2 : m ≤ d.nknots * m := Nat.le_mul_of_pos_left m (by omega)
  rw [h1]; omega

theorem convDim_knots_ge (n : Nat) (hn : 1 ≤ n) (d : Dim) :
    (d.nknots + 2 * d.order) * 8 ≤ ((convDim n d).nknots + 2 * (convDim n d).order) * 8 := by
  simp only [convDim]
  have : d.nknots ≤ d.nknots * n := Nat.le_mul_of_pos_right _ (by omega)
  omega

end PsV.C19

namespace PsV.C19
theorem allocBytes_flatMap' {α : Type} (l : List α) (f : α → List Event) :
    allocBytes (l.flatMap f) = (l.map fun a => allocBytes (f a)).sum :=
  allocBytes_flatMap l f _ (fun _ => rfl)

theorem freeBytes_flatMap' {α : Type} (l : List α) (f : α → List Event) :
    freeBytes (l.flatMap f) = (l.map fun a => freeBytes (f a)).sum :=
  freeBytes_flatMap l f _ (fun _ => rfl)
end PsV.C19

/-! ## sequences made of per-item segments -/
namespace PsV.C19

/-- A sequence made of one segment per item, where the segment of `a` leaves `net a` more bytes live than it found
    and never has more than `net a + C` above its starting level: at the end `Σ net` more bytes are live, and the
    level never rose more than `Σ net + C` above the start. -/
theorem segments_run {α : Type} (as : List α) (f : α → List Event) (net : α → Nat) (C : Nat)
    (h : ∀ a ∈ as, ∀ l, liveAfter l (f a) = l + net a ∧ peakFrom l (f a) ≤ l + net a + C ∧ balanced l (f a) = true)
    (l : Nat) :
    liveAfter l (as.flatMap f) = l + (as.map net).sum ∧
    peakFrom l (as.flatMap f) ≤ l + (as.map net).sum + C ∧
    balanced l (as.flatMap f) = true := by
  induction as generalizing l with
  | nil => simp [liveAfter, peakFrom, balanced]
  | cons a as ih =>
    obtain ⟨h1, h2, h3⟩ := h a (List.mem_cons_self ..) l
    obtain ⟨i1, i2, i3⟩ := ih (fun b hb => h b (List.mem_cons_of_mem _ hb)) (l + net a)
    simp only [List.flatMap_cons, List.map_cons, List.sum_cons]
    refine ⟨?_, ?_, ?_⟩
    · rw [liveAfter_append, h1, i1]; omega
    · rw [peakFrom_append, h1]; omega
    · rw [balanced_append, h3, h1, i3]; rfl

end PsV.C19

/-! ## closed forms of the generated event sequences -/
namespace PsV.C19
open PsV.Generated.C19

/-- bytes of the auxiliary entries that stay live: the pair of pointers, the key and the stored value of every entry -/
def auxBytes (as : List AuxEntry) : Nat := (as.map fun a => 16 + (a.keylen + a.storedlen)).sum

/-- What the reader requests for one auxiliary card: the pointer pair, the key, a block of the raw value length, and
    - when the stored string is shorter than the raw card value (the value was quoted) - a second block of the exact
    length, after which the first one is released. -/
def auxSeg (a : AuxEntry) : List Event :=
  [.alloc 16, .alloc a.keylen, .alloc a.vallen] ++
    (if a.storedlen != a.vallen then [.alloc a.storedlen, .free a.vallen] else [])

/-- What the reader requests after the auxiliary cards: only allocations. -/
def readTail (p : Params) : List Event :=
  [.alloc (p.dims.length * 4), .alloc (p.dims.length * 8), .alloc (p.dims.length * 8), .alloc (p.dims.length * 8),
   .alloc (p.dims.length * 8), .alloc (2 * p.dims.length * 8), .alloc (p.dims.length * 8), .alloc (p.dims.length * 8),
   .alloc (prodNaxes p.dims * 4)] ++ p.dims.flatMap (fun d => [.alloc ((d.nknots + 2 * d.order) * 8)])

/-- The generated call sites of `read_fits_core`, evaluated: the array of entries, one segment per card, the rest. -/
theorem readEvents_eq (p : Params) :
    readEvents p = .alloc (p.aux.length * 8) :: (p.aux.flatMap auxSeg ++ readTail p) := by
  have haux : ∀ a : AuxEntry,
      evalSites { topEnv p p.dims p.dims with keylen := a.keylen, valuelen := a.vallen, storedlen := a.storedlen }
        [⟨.alloc, 8, fun v => 2, fun v => true⟩, ⟨.alloc, 1, fun v => v.keylen, fun v => true⟩,
         ⟨.alloc, 1, fun v => v.valuelen, fun v => true⟩,
         ⟨.alloc, 1, fun v => v.storedlen, fun v => (v.storedlen != v.valuelen)⟩,
         ⟨.free, 1, fun v => v.valuelen, fun v => (v.storedlen != v.valuelen)⟩] = auxSeg a := by
    intro a
    by_cases h : (a.storedlen != a.vallen) = true <;> simp [evalSites, evalSite, auxSeg, List.filter, h]
  simp only [readEvents, readBlocks, interp, haux]
  simp [evalSites, evalSite, topEnv, readTail]

/-- One card: `16 + keylen + storedlen` bytes stay; while both value blocks exist `vallen` more are live. -/
theorem auxSeg_run (a : AuxEntry) (l : Nat) :
    liveAfter l (auxSeg a) = l + (16 + (a.keylen + a.storedlen)) ∧
    peakFrom l (auxSeg a) ≤ l + (16 + (a.keylen + a.storedlen)) + a.vallen ∧
    balanced l (auxSeg a) = true := by
  by_cases h : a.storedlen = a.vallen
  · simp [auxSeg, h, liveAfter, peakFrom, balanced, step]; omega
  · simp [auxSeg, h, liveAfter, peakFrom, balanced, step]; omega

theorem readTail_allocOnly (p : Params) : allocOnly (readTail p) = true := by
  simp only [readTail, allocOnly_append, allocOnly, Bool.true_and]
  exact allocOnly_flatMap _ _ (fun _ => rfl)

theorem readTail_bytes (p : Params) :
    allocBytes (readTail p) = 68 * p.dims.length + 4 * prodNaxes p.dims + knotBytes p.dims := by
  simp [readTail, allocBytes, allocBytes_flatMap', knotBytes]
  omega

/-- bytes live when `read_fits_core` returns: the footprint of the loaded table -/
def readBytes (p : Params) : Nat :=
  8 * p.aux.length + auxBytes p.aux + 68 * p.dims.length + 4 * prodNaxes p.dims + knotBytes p.dims

/-- Loading: exactly the footprint is live at the end; the level never exceeds the larger of the footprint and
    (array of entries + all cards + `C`), `C` bounding the raw value length of every card (the first block of a quoted
    value is still live when its exact-size replacement is requested); nothing is over-released. -/
theorem read_run (p : Params) (C : Nat) (hC : ∀ a ∈ p.aux, a.vallen ≤ C) :
    liveAfter 0 (readEvents p) = readBytes p ∧
    peakFrom 0 (readEvents p) ≤ max (8 * p.aux.length + auxBytes p.aux + C) (readBytes p) ∧
    balanced 0 (readEvents p) = true := by
  obtain ⟨s1, s2, s3⟩ := segments_run p.aux auxSeg (fun a => 16 + (a.keylen + a.storedlen)) C
    (fun a ha l => by
      obtain ⟨h1, h2, h3⟩ := auxSeg_run a l
      have := hC a ha
      exact ⟨h1, by omega, h3⟩) (p.aux.length * 8)
  obtain ⟨t1, t2, t3⟩ := allocOnly_run _ (readTail_allocOnly p) (p.aux.length * 8 + auxBytes p.aux)
  rw [readTail_bytes] at t1 t2
  have e : (p.aux.map fun a => 16 + (a.keylen + a.storedlen)).sum = auxBytes p.aux := rfl
  rw [e] at s1 s2
  rw [readEvents_eq]
  refine ⟨?_, ?_, ?_⟩
  · show liveAfter (0 + p.aux.length * 8) _ = _
    rw [Nat.zero_add, liveAfter_append, s1, t2]; unfold readBytes; omega
  · show max 0 (peakFrom (0 + p.aux.length * 8) _) ≤ _
    rw [Nat.zero_add, peakFrom_append, s1, t1]; unfold readBytes; omega
  · show balanced (0 + p.aux.length * 8) _ = true
    rw [Nat.zero_add, balanced_append, s3, s1, t3]; rfl

/-- `convolve` first releases the coefficients and every knot vector … -/
def convFrees (p : Params) : List Event :=
  .free (prodNaxes p.dims * 4) :: p.dims.flatMap (fun d => [.free ((d.nknots + 2 * d.order) * 8)])

/-- … and only then requests the new coefficient array and the new knot vectors. -/
def convAllocs (p : Params) : List Event :=
  .alloc (prodNaxes (convDims p) * 4) :: (convDims p).flatMap (fun d => [.alloc ((d.nknots + 2 * d.order) * 8)])

/-- The source order of the allocator calls of `convolve` (generated) is: all frees, then all allocations. -/
theorem convolveEvents_eq (p : Params) : convolveEvents p = convFrees p ++ convAllocs p := by
  simp [convolveEvents, convolveBlocks, interp, evalSites, evalSite, topEnv, convFrees, convAllocs]

theorem convFrees_freeOnly (p : Params) : freeOnly (convFrees p) = true := by
  simp only [convFrees, freeOnly]
  exact freeOnly_flatMap _ _ (fun _ => rfl)

theorem convFrees_bytes (p : Params) : freeBytes (convFrees p) = 4 * prodNaxes p.dims + knotBytes p.dims := by
  simp [convFrees, freeBytes, freeBytes_flatMap', knotBytes]
  omega

theorem convAllocs_allocOnly (p : Params) : allocOnly (convAllocs p) = true := by
  simp only [convAllocs, allocOnly]
  exact allocOnly_flatMap _ _ (fun _ => rfl)

theorem convAllocs_bytes (p : Params) :
    allocBytes (convAllocs p) = 4 * prodNaxes (convDims p) + knotBytes (convDims p) := by
  simp [convAllocs, allocBytes, allocBytes_flatMap', knotBytes]
  omega

/-- bytes live when `convolve` returns: the footprint of the convolved table -/
def convolvedBytes (p : Params) : Nat :=
  8 * p.aux.length + auxBytes p.aux + 68 * p.dims.length + 4 * prodNaxes (convDims p) + knotBytes (convDims p)

/-- What `estimateMemory` returns, in closed form, when it counts `naux` auxiliary cards. -/
theorem estimateWith_ge (naux : Nat) (p : Params) :
    p.objsize + knotBytes (estDims p) + 68 * p.dims.length + 4 * prodNaxes (estDims p) + 146 * naux + 1025
      ≤ estimateWith naux p := by
  simp only [estimateWith, rawSizeWith, sizeInit, fixedTerms, roundingTerm, sumKnotTerms_eq, List.sum_cons, List.sum_nil]
  omega

theorem auxBytes_le (as : List AuxEntry) (h : ∀ a ∈ as, a.keylen + a.vallen ≤ 82) (hs : ∀ a ∈ as, a.storedlen ≤ a.vallen) :
    auxBytes as ≤ 98 * as.length :=
  sum_map_le as _ 98 (fun a ha => by have := h a ha; have := hs a ha; omega)

/-- Load-then-convolve: the level never exceeds the largest of the transient while reading the auxiliary cards, the
    footprint after loading and the footprint after convolving (nothing in between exceeds them because `convolve`
    frees before it allocates); at the end exactly the footprint of the convolved table is live. -/
theorem read_convolve_run (p : Params) (C : Nat) (hC : ∀ a ∈ p.aux, a.vallen ≤ C) :
    balanced 0 (readEvents p ++ convolveEvents p) = true ∧
    peak (readEvents p ++ convolveEvents p) ≤
      max (8 * p.aux.length + auxBytes p.aux + C) (max (readBytes p) (convolvedBytes p)) ∧
    liveAfter 0 (readEvents p ++ convolveEvents p) = convolvedBytes p := by
  obtain ⟨r1, r2, r3⟩ := read_run p C hC
  have hle : freeBytes (convFrees p) ≤ readBytes p := by
    rw [convFrees_bytes]; unfold readBytes; omega
  obtain ⟨f1, f2, f3⟩ := freeOnly_run _ (convFrees_freeOnly p) (readBytes p) hle
  obtain ⟨a1, a2, a3⟩ := allocOnly_run _ (convAllocs_allocOnly p) (readBytes p - freeBytes (convFrees p))
  have hfin : readBytes p - freeBytes (convFrees p) + allocBytes (convAllocs p) = convolvedBytes p := by
    rw [convFrees_bytes, convAllocs_bytes]; unfold readBytes convolvedBytes; omega
  refine ⟨?_, ?_, ?_⟩
  · rw [convolveEvents_eq, balanced_append, balanced_append, r3, r1, f3, f2, a3]; rfl
  · unfold peak
    rw [convolveEvents_eq, peakFrom_append, peakFrom_append, r1, f1, f2, a1, hfin]; omega
  · rw [convolveEvents_eq, liveAfter_append, liveAfter_append, r1, f2, a2, hfin]

theorem le_sum_of_mem (l : List Nat) (x : Nat) (h : x ∈ l) : x ≤ l.sum := by
  induction l with
  | nil => cases h
  | cons y l ih =>
    simp only [List.sum_cons]
    cases h with
    | head => omega
    | tail _ h => have := ih h; omega

/-- The exact number of bytes live after load-then-convolve (no hypothesis). -/
theorem live_after_read_convolve (p : Params) :
    liveAfter 0 (readEvents p ++ convolveEvents p) = convolvedBytes p :=
  (read_convolve_run p ((p.aux.map (·.vallen)).sum)
    (fun _ ha => le_sum_of_mem _ _ (List.mem_map_of_mem ha))).2.2

end PsV.C19
