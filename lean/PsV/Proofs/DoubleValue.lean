import PsV.Proofs.FitsEvalBridge
import Mathlib.Tactic.Linarith
import Mathlib.Tactic.Ring
/-!
# The real value of a finite double is monotone in the integer key `dkey`

`valQ b` is the rational a finite binary64 bit pattern denotes (`± (m [+ 2⁵²]) · 2^(e-1) · 2⁻¹⁰⁷⁴`).  The validation block
of the reader compares knots as doubles, which the model does on `dkey`; `valQ_keyMono` shows that this is the order of
the denoted reals, so a table the reader accepts is well-formed for the exact-arithmetic evaluation theorems
(`Dim.WF.mono` over `Rat`) when its knots are read as the numbers they are.
-/
namespace PsV
open PsV.Fits

/-- magnitude of a finite double in units of 2⁻¹⁰⁷⁴, from the 63 magnitude bits `n = e·2⁵² + m` -/
def magUnits (n : Nat) : Nat :=
  if n / 4503599627370496 = 0 then n % 4503599627370496
  else (n % 4503599627370496 + 4503599627370496) * 2 ^ (n / 4503599627370496 - 1)

theorem magUnits_mono (x y : Nat) (h : x ≤ y) : magUnits x ≤ magUnits y := by
  unfold magUnits
  have hx := Nat.div_add_mod x 4503599627370496
  have hy := Nat.div_add_mod y 4503599627370496
  have mx := Nat.mod_lt x (show 4503599627370496 > 0 by decide)
  have my := Nat.mod_lt y (show 4503599627370496 > 0 by decide)
  generalize x / 4503599627370496 = ex at *
  generalize y / 4503599627370496 = ey at *
  generalize x % 4503599627370496 = a at *
  generalize y % 4503599627370496 = b at *
  have hexy : ex ≤ ey := by
    by_contra hc
    have : ey + 1 ≤ ex := by omega
    have : 4503599627370496 * (ey + 1) ≤ 4503599627370496 * ex := Nat.mul_le_mul_left _ this
    omega
  rcases Nat.eq_or_lt_of_le hexy with heq | hlt
  · subst heq
    have hab : a ≤ b := by omega
    split
    · exact hab
    · exact Nat.mul_le_mul_right _ (by omega)
  · have hey : ey ≠ 0 := by omega
    rw [if_neg hey]
    have hp1 : 1 ≤ 2 ^ (ey - 1) := Nat.one_le_two_pow
    split
    · calc a ≤ 4503599627370496 * 1 := by omega
        _ ≤ (b + 4503599627370496) * 2 ^ (ey - 1) := Nat.mul_le_mul (by omega) hp1
    · rename_i hex
      have hpow : 2 ^ (ex - 1) * 2 ≤ 2 ^ (ey - 1) := by
        rw [← Nat.pow_succ]
        exact Nat.pow_le_pow_right (by decide) (by omega)
      calc (a + 4503599627370496) * 2 ^ (ex - 1) ≤ (4503599627370496 * 2) * 2 ^ (ex - 1) :=
            Nat.mul_le_mul_right _ (by omega)
        _ = 4503599627370496 * (2 ^ (ex - 1) * 2) := by ring
        _ ≤ 4503599627370496 * 2 ^ (ey - 1) := Nat.mul_le_mul_left _ hpow
        _ ≤ (b + 4503599627370496) * 2 ^ (ey - 1) := Nat.mul_le_mul_right _ (by omega)

/-- 2¹⁰⁷⁴ -/
def twoPow1074 : Rat := 2 ^ 1074

theorem twoPow1074_pos : 0 < twoPow1074 := pow_pos (by decide) _

/-- the real number a finite double denotes: `± magUnits · 2⁻¹⁰⁷⁴` -/
def valQ (b : UInt64) : Rat :=
  if b.toNat < 9223372036854775808 then (magUnits b.toNat : Rat) / twoPow1074
  else - ((magUnits (b.toNat - 9223372036854775808) : Nat) : Rat) / twoPow1074

theorem valQ_keyMono : KeyMono valQ := by
  intro a b _ _ hab
  unfold dkey at hab
  unfold valQ
  have hpos := twoPow1074_pos
  by_cases ha : a.toNat < 9223372036854775808 <;> by_cases hb : b.toNat < 9223372036854775808
  · simp only [ha, hb, if_true] at hab ⊢
    have : a.toNat ≤ b.toNat := by exact_mod_cast hab
    have := magUnits_mono _ _ this
    exact div_le_div_of_nonneg_right (by exact_mod_cast this) hpos.le
  · simp only [ha, hb, if_true, if_false] at hab ⊢
    have h0 : a.toNat = 0 ∧ b.toNat - 9223372036854775808 = 0 := by omega
    rw [h0.1, h0.2]
    simp [magUnits]
  · simp only [ha, hb, if_true, if_false] at hab ⊢
    have h1 : (0 : Rat) ≤ (magUnits b.toNat : Rat) / twoPow1074 := div_nonneg (Nat.cast_nonneg _) hpos.le
    have h2 : -((magUnits (a.toNat - 9223372036854775808) : Nat) : Rat) / twoPow1074 ≤ 0 := by
      rw [neg_div]; exact neg_nonpos.mpr (div_nonneg (Nat.cast_nonneg _) hpos.le)
    linarith
  · simp only [ha, hb, if_false] at hab ⊢
    have : b.toNat - 9223372036854775808 ≤ a.toNat - 9223372036854775808 := by omega
    have := magUnits_mono _ _ this
    rw [neg_div, neg_div]
    exact neg_le_neg (div_le_div_of_nonneg_right (by exact_mod_cast this) hpos.le)

end PsV
