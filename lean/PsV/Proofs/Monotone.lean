import PsV.Model.Monotone
import PsV.Spec.BSpline
import Mathlib.Tactic.Linarith
import Mathlib.Tactic.Ring
import Mathlib.Algebra.BigOperators.Group.Finset.Basic
import Mathlib.Algebra.BigOperators.Ring.Finset
import Mathlib.Algebra.Order.BigOperators.Group.Finset
import Mathlib.Algebra.Order.Field.Basic
import Mathlib.Data.Rat.Defs
import Mathlib.Data.List.GetD
/-! Helper lemmas for C10: the cumulative-sum loop, Cox–de Boor non-negativity, the derivative
formula (summation by parts) and the n-D `specSum` induction. -/
namespace PsV
open Finset

/-! ## `forUp` -/

/-- generic loop-invariant rule for `forUp` -/
theorem forUp_induction {σ : Type} (P : Nat → σ → Prop) (body : Nat → σ → σ) :
    ∀ (cnt lo : Nat) (st : σ), P lo st →
      (∀ v s, lo ≤ v → v < lo + cnt → P v s → P (v+1) (body v s)) →
      P (lo + cnt) (forUp cnt lo body st) := by
  intro cnt
  induction cnt with
  | zero => intro lo st h _; simpa [forUp] using h
  | succ c ih =>
    intro lo st h hstep
    have h1 : P (lo+1) (body lo st) := hstep lo st (Nat.le_refl _) (by omega) h
    have := ih (lo+1) (body lo st) h1 (fun v s hv hv' hp => hstep v s (by omega) (by omega) hp)
    have e : lo + (c+1) = lo + 1 + c := by omega
    rw [e]
    exact this

/-! ## `idx3` -/

theorem idx3_eq (n s2 i j k : Nat) : idx3 n s2 i j k = (i * n + j) * s2 + k := by
  unfold idx3
  rw [Nat.add_mul, Nat.mul_assoc, Nat.mul_assoc, Nat.mul_comm s2 n]

theorem idx3_succ (n s2 i j k : Nat) : idx3 n s2 i (j+1) k = idx3 n s2 i j k + s2 := by
  unfold idx3
  rw [Nat.add_mul, Nat.one_mul]; omega

/-- `idx3` is injective on the box -/
theorem idx3_inj {n s2 i j k i' j' k' : Nat} (hj : j < n) (hk : k < s2) (hj' : j' < n) (hk' : k' < s2)
    (h : idx3 n s2 i j k = idx3 n s2 i' j' k') : i = i' ∧ j = j' ∧ k = k' := by
  rw [idx3_eq, idx3_eq] at h
  have hs : 0 < s2 := by omega
  have hn : 0 < n := by omega
  have e1 : ((i * n + j) * s2 + k) / s2 = i * n + j := by
    rw [Nat.mul_comm, Nat.mul_add_div hs, Nat.div_eq_of_lt hk]; rfl
  have e2 : ((i' * n + j') * s2 + k') / s2 = i' * n + j' := by
    rw [Nat.mul_comm, Nat.mul_add_div hs, Nat.div_eq_of_lt hk']; rfl
  have e3 : ((i * n + j) * s2 + k) % s2 = k := by
    rw [Nat.mul_comm, Nat.mul_add_mod, Nat.mod_eq_of_lt hk]
  have e4 : ((i' * n + j') * s2 + k') % s2 = k' := by
    rw [Nat.mul_comm, Nat.mul_add_mod, Nat.mod_eq_of_lt hk']
  have hk2 : k = k' := by rw [← e3, ← e4, h]
  have hA : i * n + j = i' * n + j' := by rw [← e1, ← e2, h]
  have f1 : (i * n + j) / n = i := by
    rw [Nat.mul_comm, Nat.mul_add_div hn, Nat.div_eq_of_lt hj]; rfl
  have f2 : (i' * n + j') / n = i' := by
    rw [Nat.mul_comm, Nat.mul_add_div hn, Nat.div_eq_of_lt hj']; rfl
  have f3 : (i * n + j) % n = j := by
    rw [Nat.mul_comm, Nat.mul_add_mod, Nat.mod_eq_of_lt hj]
  have f4 : (i' * n + j') % n = j' := by
    rw [Nat.mul_comm, Nat.mul_add_mod, Nat.mod_eq_of_lt hj']
  exact ⟨by rw [← f1, ← f2, hA], by rw [← f3, ← f4, hA], hk2⟩

theorem idx3_lt {s1 n s2 i j k : Nat} (hi : i < s1) (hj : j < n) (hk : k < s2) :
    idx3 n s2 i j k < s1 * n * s2 := by
  rw [idx3_eq]
  have h1 : i * n + j + 1 ≤ s1 * n := by
    have : (i + 1) * n ≤ s1 * n := Nat.mul_le_mul_right n hi
    rw [Nat.add_mul, Nat.one_mul] at this
    omega
  have h2 : (i * n + j + 1) * s2 ≤ s1 * n * s2 := Nat.mul_le_mul_right s2 h1
  rw [Nat.add_mul, Nat.one_mul] at h2
  omega

/-! ## closed form of the cumulative-sum loop -/

/-- the running sum along the middle index of fibre `(i, k)`, in the operation order of the loop -/
def csum {α : Type} (add : α → α → α) (out : Nat → α) (n s2 i k : Nat) : Nat → α
  | 0 => out (idx3 n s2 i 0 k)
  | j+1 => add (out (idx3 n s2 i (j+1) k)) (csum add out n s2 i k j)

/-- cell `(i,j,k)` has been processed when the loop counters stand at `(I,J,K)` -/
def Done (I J K i j k : Nat) : Prop := i < I ∨ (i = I ∧ (j < J ∨ (j = J ∧ k < K)))

/-- loop invariant: processed cells hold the running sum, the others their initial value -/
def CInv {α : Type} (add : α → α → α) (out : Nat → α) (n s2 : Nat) (I J K : Nat) (st : Nat → α) : Prop :=
  ∀ i j k, j < n → k < s2 →
    (Done I J K i j k → st (idx3 n s2 i j k) = csum add out n s2 i k j) ∧
    (¬ Done I J K i j k → st (idx3 n s2 i j k) = out (idx3 n s2 i j k))

section Loop
variable {α : Type} (add : α → α → α) (out : Nat → α) (n s2 : Nat)

theorem CInv_step (I J K : Nat) (hJ : 1 ≤ J) (hJn : J < n) (hK : K < s2) (st : Nat → α)
    (h : CInv add out n s2 I J K st) : CInv add out n s2 I J (K+1) (cumStep add n s2 I J K st) := by
  intro i j k hj hk
  by_cases heq : i = I ∧ j = J ∧ k = K
  · obtain ⟨rfl, rfl, rfl⟩ := heq
    constructor
    · intro _
      have h1 := (h i j k hj hk).2 (by unfold Done; omega)
      have h2 := (h i (j-1) k (by omega) hk).1 (by unfold Done; omega)
      unfold cumStep monoSetAt
      simp only [if_true]
      rw [h1, h2]
      obtain ⟨j', rfl⟩ : ∃ j', j = j'+1 := ⟨j-1, by omega⟩
      simp only [Nat.add_sub_cancel]
      rfl
    · intro hnd; exfalso; apply hnd; unfold Done; omega
  · have hne : idx3 n s2 i j k ≠ idx3 n s2 I J K := by
      intro e
      exact heq (idx3_inj hj hk hJn hK e)
    have hval : cumStep add n s2 I J K st (idx3 n s2 i j k) = st (idx3 n s2 i j k) := by
      unfold cumStep monoSetAt
      simp only [hne, if_false]
    rw [hval]
    constructor
    · intro hd; exact (h i j k hj hk).1 (by unfold Done at hd ⊢; omega)
    · intro hd; exact (h i j k hj hk).2 (by unfold Done at hd ⊢; omega)

theorem CInv_k (I J : Nat) (hJ : 1 ≤ J) (hJn : J < n) (st : Nat → α)
    (h : CInv add out n s2 I J 0 st) :
    CInv add out n s2 I (J+1) 0 (forUp s2 0 (fun k st => cumStep add n s2 I J k st) st) := by
  have := forUp_induction (fun K s => K ≤ s2 ∧ CInv add out n s2 I J K s)
    (fun k st => cumStep add n s2 I J k st) s2 0 st ⟨Nat.zero_le _, h⟩
    (fun v s _ hv hp => ⟨by omega, CInv_step add out n s2 I J v hJ hJn (by omega) s hp.2⟩)
  have h2 := this.2
  simp only [Nat.zero_add] at h2
  intro i j k hj hk
  constructor
  · intro hd; exact (h2 i j k hj hk).1 (by unfold Done at hd ⊢; omega)
  · intro hd; exact (h2 i j k hj hk).2 (by unfold Done at hd ⊢; omega)

theorem CInv_j (I : Nat) (st : Nat → α) (h : CInv add out n s2 I 0 0 st) :
    CInv add out n s2 (I+1) 0 0
      (forUp (n - 1) 1 (fun j st => forUp s2 0 (fun k st => cumStep add n s2 I j k st) st) st) := by
  have h1 : CInv add out n s2 I 1 0 st := by
    intro i j k hj hk
    constructor
    · intro hd
      by_cases hd0 : Done I 0 0 i j k
      · exact (h i j k hj hk).1 hd0
      · have hj0 : j = 0 := by unfold Done at hd hd0; omega
        subst hj0
        rw [(h i 0 k hj hk).2 hd0]; rfl
    · intro hd; exact (h i j k hj hk).2 (by unfold Done at hd ⊢; omega)
  have := forUp_induction (fun J s => J ≤ n ∨ n = 0 → CInv add out n s2 I J 0 s)
    (fun j st => forUp s2 0 (fun k st => cumStep add n s2 I j k st) st) (n-1) 1 st (fun _ => h1)
    (fun v s hv hv' hp _ => CInv_k add out n s2 I v hv (by omega) s (hp (by omega)))
  intro i j k hj hk
  have h2 := this (by omega) i j k hj hk
  constructor
  · intro hd; exact h2.1 (by unfold Done at hd ⊢; omega)
  · intro hd; exact h2.2 (by unfold Done at hd ⊢; omega)

theorem CInv_i (s1 : Nat) : CInv add out n s2 s1 0 0 (cumsumLoop add s1 n s2 out) := by
  have := forUp_induction (fun I s => CInv add out n s2 I 0 0 s)
    (fun i st => forUp (n - 1) 1 (fun j st =>
      forUp s2 0 (fun k st => cumStep add n s2 i j k st) st) st) s1 0 out
    (by
      intro i j k _ _
      constructor
      · intro hd; unfold Done at hd; omega
      · intro _; rfl)
    (fun v s _ _ hp => CInv_j add out n s2 v s hp)
  simp only [Nat.zero_add] at this
  exact this

/-- closed form of the loop: every cell of the box ends up holding the running sum of its fibre -/
theorem cumsumLoop_spec (s1 : Nat) {i j k : Nat} (hi : i < s1) (hj : j < n) (hk : k < s2) :
    cumsumLoop add s1 n s2 out (idx3 n s2 i j k) = csum add out n s2 i k j :=
  (CInv_i add out n s2 s1 i j k hj hk).1 (by unfold Done; omega)

end Loop

/-! ## monotonicity of the running sums -/

theorem csum_mono_step {α : Type} [LinearOrder α] (z : α) (add : α → α → α)
    (hadd : ∀ a s, z ≤ a → s ≤ add a s) (out : Nat → α) (n s2 i k j : Nat)
    (h : z ≤ out (idx3 n s2 i (j+1) k)) :
    csum add out n s2 i k j ≤ csum add out n s2 i k (j+1) :=
  hadd _ _ h

theorem monoAlongB_of_le {α : Type} [LinearOrder α] (s1 n s2 : Nat) (c : Nat → α)
    (h : ∀ i, i < s1 → ∀ j, j + 1 < n → ∀ k, k < s2 → c (idx3 n s2 i j k) ≤ c (idx3 n s2 i (j+1) k)) :
    monoAlongB (fun a b => decide (a ≤ b)) s1 n s2 c = true := by
  unfold monoAlongB
  simp only [List.all_eq_true, List.mem_range, decide_eq_true_eq]
  intro i hi j hj k hk
  exact h i hi j (by omega) k hk

theorem le_of_monoAlongB {α : Type} [LinearOrder α] (s1 n s2 : Nat) (c : Nat → α)
    (h : monoAlongB (fun a b => decide (a ≤ b)) s1 n s2 c = true) :
    ∀ i, i < s1 → ∀ j, j + 1 < n → ∀ k, k < s2 → c (idx3 n s2 i j k) ≤ c (idx3 n s2 i (j+1) k) := by
  unfold monoAlongB at h
  simp only [List.all_eq_true, List.mem_range, decide_eq_true_eq] at h
  intro i hi j hj k hk
  exact h i hi j (by omega) k hk

/-! ## exact arithmetic: running sum = finite sum -/

theorem csum_add_eq_sum {α : Type} [AddCommMonoid α] (t : Nat → α) (n s2 i k j : Nat) :
    csum (· + ·) t n s2 i k j = ∑ l ∈ range (j+1), t (idx3 n s2 i l k) := by
  induction j with
  | zero => simp [csum]
  | succ j ih =>
    rw [Finset.sum_range_succ, ← ih]
    exact add_comm _ _

theorem sum_range_ite_le {α : Type} [AddCommMonoid α] (f : Nat → α) (n j : Nat) (h : j < n) :
    ∑ l ∈ range n, (if l ≤ j then f l else 0) = ∑ l ∈ range (j+1), f l := by
  rw [← Finset.sum_filter]
  congr 1
  ext a
  simp only [mem_filter, mem_range]
  omega

/-- one fibre of the change of basis: `Σ_j (B·L)_j t_j = Σ_j B_j (Σ_{l ≤ j} t_l)` -/
theorem fibre_BL {α : Type} [CommRing α] (B t : Nat → α) (n : Nat) :
    ∑ j ∈ range n, (∑ l ∈ range n, if j ≤ l then B l else 0) * t j
      = ∑ j ∈ range n, B j * ∑ l ∈ range (j+1), t l := by
  have h1 : ∀ j ∈ range n, B j * ∑ l ∈ range (j+1), t l
      = ∑ l ∈ range n, (if l ≤ j then B j * t l else 0) := by
    intro j hj
    rw [sum_range_ite_le (fun l => B j * t l) n j (mem_range.mp hj), Finset.mul_sum]
  rw [Finset.sum_congr rfl h1, Finset.sum_comm]
  apply Finset.sum_congr rfl
  intro j _
  rw [Finset.sum_mul]
  apply Finset.sum_congr rfl
  intro l _
  split <;> simp

/-! ## strides -/

theorem foldl_mul_eq (l : List Nat) (a : Nat) : l.foldl (· * ·) a = a * l.foldl (· * ·) 1 := by
  induction l generalizing a with
  | nil => simp
  | cons x l ih =>
    simp only [List.foldl_cons, Nat.one_mul]
    rw [ih (a * x), ih x, Nat.mul_assoc]

theorem foldl_mul_cons (x : Nat) (l : List Nat) :
    (x :: l).foldl (· * ·) 1 = x * l.foldl (· * ·) 1 := by
  simp only [List.foldl_cons, Nat.one_mul]
  exact foldl_mul_eq l x

theorem strides_total_aux (naxes : List Nat) (m : Nat) (h : m < naxes.length) :
    stride1 naxes m * naxes[m] * stride2 naxes m = naxes.foldl (· * ·) 1 := by
  induction naxes generalizing m with
  | nil => simp at h
  | cons x l ih =>
    cases m with
    | zero =>
      simp only [stride1, stride2, List.take_zero, List.foldl_nil, List.getElem_cons_zero,
        Nat.one_mul, Nat.zero_add, List.drop_succ_cons, List.drop_zero]
      exact (foldl_mul_cons x l).symm
    | succ m =>
      have hm : m < l.length := by simpa using h
      have := ih m hm
      simp only [stride1, stride2, List.take_succ_cons, List.getElem_cons_succ,
        List.drop_succ_cons] at this ⊢
      rw [foldl_mul_cons, foldl_mul_cons, ← this]
      simp only [Nat.mul_assoc]

/-! ## Cox–de Boor over `Rat` -/

section RatBind
variable (ind : Int → Bool) (t : Int → Rat) (x : Rat)

theorem Bind_zero_rat (i : Int) : Bind ind t x 0 i = if ind i then 1 else 0 := rfl

theorem Bind_succ_rat (n : Nat) (i : Int) :
    Bind ind t x (n+1) i
      = (x - t i) / (t (i + n + 1) - t i) * Bind ind t x n i
        + (t (i + n + 2) - x) / (t (i + n + 2) - t (i + 1)) * Bind ind t x n (i+1) := rfl

theorem Dind_one_succ_rat (n : Nat) (i : Int) :
    Dind ind t x 1 (n+1) i
      = ((n+1 : Nat) : Rat) * (Bind ind t x n i / (t (i + n + 1) - t i)
          - Bind ind t x n (i+1) / (t (i + n + 2) - t (i + 1))) := rfl

/-- support of a Cox–de Boor function: purely combinatorial, no hypothesis on the knots -/
theorem Bind_support_aux (n : Nat) (i : Int) (h : Bind ind t x n i ≠ 0) :
    ∃ m, ind m = true ∧ i ≤ m ∧ m ≤ i + n := by
  induction n generalizing i with
  | zero =>
    rw [Bind_zero_rat] at h
    by_cases hi : ind i = true
    · exact ⟨i, hi, le_refl _, by simp⟩
    · simp [hi] at h
  | succ n ih =>
    rw [Bind_succ_rat] at h
    by_cases h1 : Bind ind t x n i = 0
    · by_cases h2 : Bind ind t x n (i+1) = 0
      · rw [h1, h2] at h; simp at h
      · obtain ⟨m, hm, h3, h4⟩ := ih (i+1) h2
        exact ⟨m, hm, by omega, by push_cast; omega⟩
    · obtain ⟨m, hm, h3, h4⟩ := ih i h1
      exact ⟨m, hm, h3, by push_cast; omega⟩

theorem Bind_eq_zero_of_no_support (n : Nat) (i : Int)
    (h : ∀ m, ind m = true → ¬ (i ≤ m ∧ m ≤ i + n)) : Bind ind t x n i = 0 := by
  by_contra hne
  obtain ⟨m, hm, h1, h2⟩ := Bind_support_aux ind t x n i hne
  exact h m hm ⟨h1, h2⟩

variable (hmono : ∀ a b : Int, a ≤ b → t a ≤ t b)
  (hind : ∀ m, ind m = true → t m ≤ x ∧ x ≤ t (m+1))
include hmono hind

theorem Bind_nonneg_aux (n : Nat) (i : Int) : 0 ≤ Bind ind t x n i := by
  induction n generalizing i with
  | zero =>
    rw [Bind_zero_rat]
    split <;> simp
  | succ n ih =>
    rw [Bind_succ_rat]
    apply add_nonneg
    · by_cases h1 : Bind ind t x n i = 0
      · rw [h1, mul_zero]
      · obtain ⟨m, hm, h3, h4⟩ := Bind_support_aux ind t x n i h1
        apply mul_nonneg _ (ih i)
        apply div_nonneg
        · have := hmono i m h3
          have := (hind m hm).1
          linarith
        · have := hmono i (i + n + 1) (by omega)
          linarith
    · by_cases h1 : Bind ind t x n (i+1) = 0
      · rw [h1, mul_zero]
      · obtain ⟨m, hm, h3, h4⟩ := Bind_support_aux ind t x n (i+1) h1
        apply mul_nonneg _ (ih (i+1))
        apply div_nonneg
        · have := hmono (m+1) (i + n + 2) (by omega)
          have := (hind m hm).2
          linarith
        · have := hmono (i+1) (i + n + 2) (by omega)
          linarith

end RatBind

/-! ## summation by parts -/

theorem mono_sum_by_parts (c g : Nat → Rat) (M : Nat) :
    ∑ j ∈ range (M+1), c j * (g j - g (j+1))
      = c 0 * g 0 - c M * g (M+1) + ∑ j ∈ range M, (c (j+1) - c j) * g (j+1) := by
  induction M with
  | zero => simp; ring
  | succ M ih =>
    rw [Finset.sum_range_succ, ih, Finset.sum_range_succ (fun j => (c (j+1) - c j) * g (j+1))]
    ring

section Deriv
variable (ind : Int → Bool) (t : Int → Rat) (x : Rat) (n N : Nat)
  (hsup : ∀ m, ind m = true → ((n : Int) + 1 ≤ m ∧ m + 1 ≤ (N : Int)))
include hsup

theorem Bind_left_zero : Bind ind t x n 0 = 0 :=
  Bind_eq_zero_of_no_support ind t x n 0 (fun m hm h => by have := hsup m hm; omega)

theorem Bind_right_zero : Bind ind t x n (N : Int) = 0 :=
  Bind_eq_zero_of_no_support ind t x n N (fun m hm h => by have := hsup m hm; omega)

theorem deriv_formula_aux (c : Nat → Rat) :
    ∑ j ∈ range N, c j * Dind ind t x 1 (n+1) (j : Int)
      = ∑ j ∈ range (N-1), ((n+1 : Nat) : Rat) * (c (j+1) - c j)
          / (t ((j : Int) + 1 + n + 1) - t ((j : Int) + 1)) * Bind ind t x n ((j : Int) + 1) := by
  cases N with
  | zero => simp
  | succ M =>
    let g : Nat → Rat := fun j => Bind ind t x n (j : Int) / (t ((j : Int) + n + 1) - t (j : Int))
    have h0 : g 0 = 0 := by
      show Bind ind t x n ((0 : Nat) : Int) / _ = 0
      rw [Nat.cast_zero, Bind_left_zero ind t x n (M+1) hsup, zero_div]
    have hN : g (M+1) = 0 := by
      show Bind ind t x n ((M+1 : Nat) : Int) / _ = 0
      rw [Bind_right_zero ind t x n (M+1) hsup, zero_div]
    have hD : ∀ j : Nat, c j * Dind ind t x 1 (n+1) (j : Int)
        = ((n+1 : Nat) : Rat) * (c j * (g j - g (j+1))) := by
      intro j
      rw [Dind_one_succ_rat]
      show _ = ((n+1 : Nat) : Rat) * (c j * (Bind ind t x n (j : Int) / (t ((j : Int) + n + 1) - t (j : Int))
        - Bind ind t x n ((j+1 : Nat) : Int) / (t (((j+1 : Nat) : Int) + n + 1) - t ((j+1 : Nat) : Int))))
      have e1 : ((j+1 : Nat) : Int) = (j : Int) + 1 := by push_cast; rfl
      have e2 : (j : Int) + 1 + n + 1 = (j : Int) + n + 2 := by omega
      rw [e1, e2]
      ring
    rw [Finset.sum_congr rfl (fun j _ => hD j), ← Finset.mul_sum, mono_sum_by_parts, h0, hN,
      Nat.add_sub_cancel]
    simp only [mul_zero, sub_zero, zero_add]
    rw [Finset.mul_sum]
    apply Finset.sum_congr rfl
    intro j _
    show _ * ((c (j+1) - c j) * (Bind ind t x n ((j+1 : Nat) : Int)
      / (t (((j+1 : Nat) : Int) + n + 1) - t ((j+1 : Nat) : Int)))) = _
    have e1 : ((j+1 : Nat) : Int) = (j : Int) + 1 := by push_cast; rfl
    rw [e1]
    ring

theorem deriv_nonneg_aux (hmono : ∀ a b : Int, a ≤ b → t a ≤ t b)
    (hind : ∀ m, ind m = true → t m ≤ x ∧ x ≤ t (m+1))
    (c : Nat → Rat) (hc : ∀ j, j + 1 < N → c j ≤ c (j+1)) :
    0 ≤ ∑ j ∈ range N, c j * Dind ind t x 1 (n+1) (j : Int) := by
  rw [deriv_formula_aux ind t x n N hsup c]
  apply Finset.sum_nonneg
  intro j hj
  have hj' : j + 1 < N := by have := mem_range.mp hj; omega
  apply mul_nonneg _ (Bind_nonneg_aux ind t x hmono hind n _)
  apply div_nonneg
  · apply mul_nonneg (Nat.cast_nonneg _)
    have := hc j hj'
    linarith
  · have := hmono ((j : Int) + 1) ((j : Int) + 1 + n + 1) (by omega)
    linarith

end Deriv

/-! ## the selected order-0 indicator -/

theorem selInd_bracket (d : Dim Rat) (x : Rat) (q : Int) (h : selInd d x q = true) :
    d.knots q ≤ x ∧ x ≤ d.knots (q+1) := by
  unfold selInd at h
  split at h
  · have h' : (decide (d.knots q ≤ x) && decide (x < d.knots (q+1))) = true := h
    simp only [Bool.and_eq_true, decide_eq_true_eq] at h'
    exact ⟨h'.1, le_of_lt h'.2⟩
  · have h' : (decide (d.knots q < x) && decide (x ≤ d.knots (q+1))) = true := h
    simp only [Bool.and_eq_true, decide_eq_true_eq] at h'
    exact ⟨le_of_lt h'.1, h'.2⟩

theorem selInd_region (d : Dim Rat) (x : Rat) (hmono : ∀ a b : Int, a ≤ b → d.knots a ≤ d.knots b)
    (hlo : d.knots d.order ≤ x) (hhi : x ≤ d.knots d.naxes) (hlt : d.knots d.order < d.knots d.naxes)
    (q : Int) (h : selInd d x q = true) : (d.order : Int) ≤ q ∧ q + 1 ≤ (d.naxes : Int) := by
  unfold selInd at h
  by_cases hx : x < d.knots d.naxes
  · have hx' : Arith.lt x (d.knots d.naxes) = true := decide_eq_true hx
    rw [if_pos hx'] at h
    have h' : (decide (d.knots q ≤ x) && decide (x < d.knots (q+1))) = true := h
    simp only [Bool.and_eq_true, decide_eq_true_eq] at h'
    constructor
    · by_contra hc
      have := hmono (q+1) d.order (by omega)
      linarith [h'.2]
    · by_contra hc
      have := hmono d.naxes q (by omega)
      linarith [h'.1]
  · have hx' : ¬ (Arith.lt x (d.knots d.naxes) = true) := by
      intro e; exact hx (of_decide_eq_true e)
    rw [if_neg hx'] at h
    have h' : (decide (d.knots q < x) && decide (x ≤ d.knots (q+1))) = true := h
    simp only [Bool.and_eq_true, decide_eq_true_eq] at h'
    have hxe : x = d.knots d.naxes := le_antisymm hhi (not_lt.mp hx)
    constructor
    · by_contra hc
      have := hmono (q+1) d.order (by omega)
      linarith [h'.2]
    · by_contra hc
      have := hmono d.naxes q (by omega)
      linarith [h'.1]

/-! ## the tensor-product sum -/

section Spec

theorem specSumRow_eq_sum (inner : Rat → Int → Rat) (s : Nat) (p : Rat) (fs : List Rat) (pos : Int) :
    specSumRow inner s p fs pos
      = ∑ a ∈ range fs.length, inner (p * fs.getD a 0) (pos + (a : Int) * s) := by
  induction fs generalizing pos with
  | nil => rfl
  | cons f fs ih =>
    show inner (p * f) pos + specSumRow inner s p fs (pos + s) = _
    rw [ih, List.length_cons, Finset.sum_range_succ', add_comm]
    congr 1
    · apply Finset.sum_congr rfl
      intro a _
      have e : pos + (s : Int) + (a : Int) * s = pos + ((a + 1 : Nat) : Int) * s := by
        push_cast; ring
      rw [e]; rfl
    · simp

theorem specSum_nil (coef : Int → Rat) (p : Rat) (pos : Int) :
    specSum coef [] p pos = p * coef pos := rfl

theorem specSum_cons (coef : Int → Rat) (s : Nat) (fs : List Rat) (rest : List (Nat × List Rat))
    (p : Rat) (pos : Int) :
    specSum coef ((s, fs) :: rest) p pos
      = ∑ a ∈ range fs.length, specSum coef rest (p * fs.getD a 0) (pos + (a : Int) * s) :=
  specSumRow_eq_sum (specSum coef rest) s p fs pos

/-- `specSum` is linear in the accumulated basis product -/
theorem specSum_lin (coef : Int → Rat) (rows : List (Nat × List Rat)) (p : Rat) (pos : Int) :
    specSum coef rows p pos = p * specSum coef rows 1 pos := by
  induction rows generalizing p pos with
  | nil => simp [specSum_nil]
  | cons r rest ih =>
    obtain ⟨s, fs⟩ := r
    rw [specSum_cons, specSum_cons, Finset.mul_sum]
    apply Finset.sum_congr rfl
    intro a _
    rw [ih (p * _), ih (1 * _)]
    ring

theorem specSum_shift (coef : Int → Rat) (δ : Int) (rows : List (Nat × List Rat)) (p : Rat) (pos : Int) :
    specSum coef rows p (pos + δ) = specSum (fun q => coef (q + δ)) rows p pos := by
  induction rows generalizing p pos with
  | nil => rfl
  | cons r rest ih =>
    obtain ⟨s, fs⟩ := r
    rw [specSum_cons, specSum_cons]
    apply Finset.sum_congr rfl
    intro a _
    have e : pos + δ + (a : Int) * s = pos + (a : Int) * s + δ := by ring
    rw [e, ih]

/-- number of coefficients addressed by a list of rows -/
def rsize : List (Nat × List Rat) → Nat
  | [] => 1
  | r :: rest => r.2.length * rsize rest

/-- each stride is the number of coefficients of the remaining dimensions -/
def RowMajor : List (Nat × List Rat) → Prop
  | [] => True
  | r :: rest => r.1 = rsize rest ∧ RowMajor rest

def RowsNonneg (rows : List (Nat × List Rat)) : Prop := ∀ r ∈ rows, ∀ f ∈ r.2, (0 : Rat) ≤ f

theorem getD_nonneg (fs : List Rat) (h : ∀ f ∈ fs, (0 : Rat) ≤ f) (a : Nat) : 0 ≤ fs.getD a 0 := by
  by_cases ha : a < fs.length
  · rw [List.getD_eq_getElem _ _ ha]
    exact h _ (List.getElem_mem ha)
  · rw [List.getD_eq_default _ _ (by omega)]

theorem mul_add_lt {a L S off : Nat} (ha : a < L) (ho : off < S) : a * S + off < L * S := by
  have : (a + 1) * S ≤ L * S := Nat.mul_le_mul_right S ha
  rw [Nat.add_mul, Nat.one_mul] at this
  omega

/-- `specSum` is monotone in the coefficients when all basis values are non-negative -/
theorem specSum_mono (c1 c2 : Int → Rat) (rows : List (Nat × List Rat)) (hnn : RowsNonneg rows)
    (hrm : RowMajor rows) (p : Rat) (hp : 0 ≤ p) (pos : Int)
    (h : ∀ off : Nat, off < rsize rows → c1 (pos + off) ≤ c2 (pos + off)) :
    specSum c1 rows p pos ≤ specSum c2 rows p pos := by
  induction rows generalizing p pos with
  | nil =>
    rw [specSum_nil, specSum_nil]
    have := h 0 (by simp [rsize])
    simp only [Nat.cast_zero, add_zero] at this
    exact mul_le_mul_of_nonneg_left this hp
  | cons r rest ih =>
    obtain ⟨s, fs⟩ := r
    obtain ⟨hs, hrm'⟩ := hrm
    simp only at hs
    rw [specSum_cons, specSum_cons]
    apply Finset.sum_le_sum
    intro a ha
    have ha' : a < fs.length := mem_range.mp ha
    apply ih (fun r hr => hnn r (List.mem_cons_of_mem _ hr)) hrm'
    · exact mul_nonneg hp (getD_nonneg fs (hnn (s, fs) List.mem_cons_self) a)
    · intro off hoff
      have hlt : a * s + off < rsize ((s, fs) :: rest) := by
        rw [hs]; exact mul_add_lt ha' hoff
      have := h (a * s + off) hlt
      have e : pos + ((a * s + off : Nat) : Int) = pos + (a : Int) * s + off := by
        push_cast; ring
      rw [e] at this
      exact this

/-- the monotonic dimension itself: Abel summation over `j` with the inner sums as coefficients -/
theorem specSum_base (coef : Int → Rat) (s2 : Nat) (fm : List Rat) (rpost : List (Nat × List Rat))
    (hnn : RowsNonneg rpost) (hrm : RowMajor rpost) (hs2 : s2 = rsize rpost)
    (hcore : ∀ c : Nat → Rat, (∀ j, j + 1 < fm.length → c j ≤ c (j+1)) →
      0 ≤ ∑ j ∈ range fm.length, c j * fm.getD j 0)
    (p : Rat) (hp : 0 ≤ p) (pos : Int)
    (hco : ∀ j, j + 1 < fm.length → ∀ k : Nat, k < s2 →
      coef (pos + (j : Int) * s2 + k) ≤ coef (pos + (j : Int) * s2 + k + s2)) :
    0 ≤ specSum coef ((s2, fm) :: rpost) p pos := by
  rw [specSum_cons]
  have h1 : ∀ a ∈ range fm.length, specSum coef rpost (p * fm.getD a 0) (pos + (a : Int) * s2)
      = p * (specSum coef rpost 1 (pos + (a : Int) * s2) * fm.getD a 0) := by
    intro a _
    rw [specSum_lin]; ring
  rw [Finset.sum_congr rfl h1, ← Finset.mul_sum]
  apply mul_nonneg hp
  apply hcore (fun j => specSum coef rpost 1 (pos + (j : Int) * s2))
  intro j hj
  show specSum coef rpost 1 (pos + (j : Int) * s2) ≤ specSum coef rpost 1 (pos + ((j+1 : Nat) : Int) * s2)
  have e : pos + ((j+1 : Nat) : Int) * s2 = pos + (j : Int) * s2 + s2 := by push_cast; ring
  rw [e, specSum_shift coef s2 rpost 1 (pos + (j : Int) * s2)]
  apply specSum_mono _ _ rpost hnn hrm 1 (by norm_num)
  intro off hoff
  exact hco j hj off (by rw [hs2]; exact hoff)

end Spec

/-! ## the n-D induction over the dimensions of a table -/

section Dims

def KnotsMono (d : Dim Rat) : Prop := ∀ a b : Int, a ≤ b → d.knots a ≤ d.knots b

/-- recursive form of "the strides are row-major" -/
def DimsRM : List (Dim Rat) → Prop
  | [] => True
  | d :: ds => d.stride = (ds.map Dim.naxes).foldl (· * ·) 1 ∧ DimsRM ds

theorem DimsRM_of_index (ds : List (Dim Rat))
    (h : ∀ e d, ds[e]? = some d → d.stride = ((ds.drop (e+1)).map Dim.naxes).foldl (· * ·) 1) :
    DimsRM ds := by
  induction ds with
  | nil => trivial
  | cons d ds ih =>
    refine ⟨?_, ih (fun e d' he => ?_)⟩
    · have := h 0 d (by simp)
      simpa using this
    · have := h (e+1) d' (by simpa using he)
      simpa using this

theorem Bsel_value_nonneg (d : Dim Rat) (hk : KnotsMono d) (x : Rat) (i : Nat) : 0 ≤ Bsel d x 0 i := by
  show 0 ≤ Bind (selInd d x) d.knots x d.order (i : Int)
  exact Bind_nonneg_aux (selInd d x) d.knots x hk (selInd_bracket d x) d.order i

theorem getD_map_range (f : Nat → Rat) (n j : Nat) (h : j < n) :
    ((List.range n).map f).getD j 0 = f j := by
  rw [List.getD_eq_getElem _ _ (by simpa using h)]
  simp

theorem specRows_cons (d : Dim Rat) (ds : List (Dim Rat)) (x : Rat) (xs : List Rat)
    (mo : BasisMode) (ms : List BasisMode) :
    specRows (d :: ds) (x :: xs) (mo :: ms)
      = (d.stride, (List.range d.naxes).map (Bsel d x (derivOrder mo))) :: specRows ds xs ms := rfl

theorem valueRows (ds : List (Dim Rat)) : ∀ (xs : List Rat) (ms : List BasisMode),
    xs.length = ds.length → ms.length = ds.length → (∀ mo ∈ ms, mo = BasisMode.value) →
    (∀ d ∈ ds, KnotsMono d) → DimsRM ds →
    RowsNonneg (specRows ds xs ms) ∧ RowMajor (specRows ds xs ms) ∧
      rsize (specRows ds xs ms) = (ds.map Dim.naxes).foldl (· * ·) 1 := by
  induction ds with
  | nil =>
    intro xs ms hx hm _ _ _
    cases xs with
    | cons _ _ => simp at hx
    | nil =>
      cases ms with
      | cons _ _ => simp at hm
      | nil =>
        refine ⟨?_, trivial, rfl⟩
        intro r hr
        exact absurd hr (by simp [specRows])
  | cons d ds ih =>
    intro xs ms hx hm hval hk hrm
    cases xs with
    | nil => simp at hx
    | cons x xs =>
      cases ms with
      | nil => simp at hm
      | cons mo ms =>
        have hmo : mo = BasisMode.value := hval mo (by simp)
        subst hmo
        obtain ⟨h1, h2, h3⟩ := ih xs ms (by simpa using hx) (by simpa using hm)
          (fun mo h => hval mo (List.mem_cons_of_mem _ h))
          (fun d' h => hk d' (List.mem_cons_of_mem _ h)) hrm.2
        rw [specRows_cons]
        refine ⟨?_, ⟨?_, h2⟩, ?_⟩
        · intro r hr
          rcases List.mem_cons.mp hr with rfl | hr
          · intro f hf
            simp only [List.mem_map, List.mem_range] at hf
            obtain ⟨i, _, rfl⟩ := hf
            exact Bsel_value_nonneg d (hk d (by simp)) x i
          · exact h1 r hr
        · show d.stride = rsize (specRows ds xs ms)
          rw [h3]; exact hrm.1
        · show ((List.range d.naxes).map _).length * rsize (specRows ds xs ms) = _
          rw [h3, List.length_map, List.length_range, List.map_cons, foldl_mul_cons]

theorem strides_total_dims (ds : List (Dim Rat)) (m : Nat) (dm : Dim Rat) (h : ds[m]? = some dm) :
    stride1 (ds.map Dim.naxes) m * dm.naxes * stride2 (ds.map Dim.naxes) m
      = (ds.map Dim.naxes).foldl (· * ·) 1 := by
  obtain ⟨hlt, heq⟩ := List.getElem?_eq_some_iff.mp h
  have := strides_total_aux (ds.map Dim.naxes) m (by simpa using hlt)
  simp only [List.getElem_map, heq] at this
  exact this

theorem idx3_block (n S2 S1 a i j k : Nat) :
    idx3 n S2 (a * S1 + i) j k = a * (S1 * n * S2) + idx3 n S2 i j k := by
  unfold idx3; ring

theorem specSum_dims_nonneg (coef : Int → Rat) (dm : Dim Rat) (xm : Rat)
    (hcore : ∀ c : Nat → Rat, (∀ j, j + 1 < dm.naxes → c j ≤ c (j+1)) →
      0 ≤ ∑ j ∈ range dm.naxes, c j * Bsel dm xm 1 j) :
    ∀ (m : Nat) (ds : List (Dim Rat)) (xs : List Rat) (ms : List BasisMode),
      xs.length = ds.length → ms.length = ds.length → ds[m]? = some dm → xs[m]? = some xm →
      (∀ e mo, ms[e]? = some mo → mo = if e = m then BasisMode.deriv1 else BasisMode.value) →
      (∀ d ∈ ds, KnotsMono d) → DimsRM ds →
      ∀ (p : Rat), 0 ≤ p → ∀ pos : Int,
      (∀ i, i < stride1 (ds.map Dim.naxes) m → ∀ j, j + 1 < dm.naxes →
        ∀ k, k < stride2 (ds.map Dim.naxes) m →
          coef (pos + (idx3 dm.naxes (stride2 (ds.map Dim.naxes) m) i j k : Nat))
            ≤ coef (pos + (idx3 dm.naxes (stride2 (ds.map Dim.naxes) m) i (j+1) k : Nat))) →
      0 ≤ specSum coef (specRows ds xs ms) p pos := by
  intro m
  induction m with
  | zero =>
    intro ds xs ms hx hm hdm hxm hmode hk hrm p hp pos hco
    rcases ds with _ | ⟨d, post⟩
    · simp at hdm
    rcases xs with _ | ⟨x, xpost⟩
    · simp at hxm
    rcases ms with _ | ⟨mo, mpost⟩
    · simp at hm
    simp only [List.getElem?_cons_zero, Option.some.injEq] at hdm hxm
    subst hdm; subst hxm
    have hmo : mo = BasisMode.deriv1 := by simpa using hmode 0 mo (by simp)
    subst hmo
    obtain ⟨hnn, hrmr, hsz⟩ := valueRows post xpost mpost (by simpa using hx) (by simpa using hm)
      (by
        intro mo hmem
        obtain ⟨e, he, rfl⟩ := List.mem_iff_getElem.mp hmem
        have := hmode (e+1) mpost[e] (by simp [he])
        simpa using this)
      (fun d' h => hk d' (List.mem_cons_of_mem _ h)) hrm.2
    have hS1 : stride1 ((d :: post).map Dim.naxes) 0 = 1 := by simp [stride1]
    have hS2 : stride2 ((d :: post).map Dim.naxes) 0 = d.stride := by
      simp only [stride2, List.map_cons, Nat.zero_add, List.drop_succ_cons, List.drop_zero]
      exact hrm.1.symm
    rw [hS1, hS2] at hco
    rw [specRows_cons]
    apply specSum_base coef _ _ _ hnn hrmr (by rw [hsz]; exact hrm.1) _ p hp pos
    · intro j hj k hk'
      rw [List.length_map, List.length_range] at hj
      have := hco 0 (by omega) j hj k hk'
      have e1 : pos + ((idx3 d.naxes d.stride 0 j k : Nat) : Int) = pos + (j : Int) * d.stride + k := by
        unfold idx3; push_cast; ring
      have e2 : pos + ((idx3 d.naxes d.stride 0 (j+1) k : Nat) : Int)
          = pos + (j : Int) * d.stride + k + d.stride := by
        unfold idx3; push_cast; ring
      rw [e1, e2] at this
      exact this
    · intro c hc
      rw [List.length_map, List.length_range] at hc ⊢
      have := hcore c hc
      have e : ∀ j ∈ range d.naxes,
          c j * ((List.range d.naxes).map (Bsel d x (derivOrder BasisMode.deriv1))).getD j 0
            = c j * Bsel d x 1 j := by
        intro j hj
        rw [getD_map_range _ _ _ (mem_range.mp hj)]; rfl
      rw [Finset.sum_congr rfl e]
      exact this
  | succ m ih =>
    intro ds xs ms hx hm hdm hxm hmode hk hrm p hp pos hco
    rcases ds with _ | ⟨d, ds⟩
    · simp at hdm
    rcases xs with _ | ⟨x, xs⟩
    · simp at hxm
    rcases ms with _ | ⟨mo, ms⟩
    · simp at hm
    simp only [List.getElem?_cons_succ] at hdm hxm
    have hmo : mo = BasisMode.value := by simpa using hmode 0 mo (by simp)
    subst hmo
    have F1 : stride1 ((d :: ds).map Dim.naxes) (m+1) = d.naxes * stride1 (ds.map Dim.naxes) m := by
      simp only [stride1, List.map_cons, List.take_succ_cons]
      exact foldl_mul_cons _ _
    have F2 : stride2 ((d :: ds).map Dim.naxes) (m+1) = stride2 (ds.map Dim.naxes) m := by
      simp only [stride2, List.map_cons, List.drop_succ_cons]
    have F3 : d.stride = stride1 (ds.map Dim.naxes) m * dm.naxes * stride2 (ds.map Dim.naxes) m := by
      rw [strides_total_dims ds m dm hdm]; exact hrm.1
    rw [F1, F2] at hco
    rw [specRows_cons, specSum_cons]
    apply Finset.sum_nonneg
    intro a ha
    rw [List.length_map, List.length_range] at ha
    have ha' : a < d.naxes := mem_range.mp ha
    apply ih ds xs ms (by simpa using hx) (by simpa using hm) hdm hxm
      (by
        intro e mo he
        have := hmode (e+1) mo (by simpa using he)
        simpa using this)
      (fun d' h => hk d' (List.mem_cons_of_mem _ h)) hrm.2
    · apply mul_nonneg hp
      apply getD_nonneg
      intro f hf
      simp only [List.mem_map, List.mem_range] at hf
      obtain ⟨i, _, rfl⟩ := hf
      exact Bsel_value_nonneg d (hk d (by simp)) x i
    · intro i hi j hj k hk'
      have := hco (a * stride1 (ds.map Dim.naxes) m + i) (mul_add_lt ha' hi) j hj k hk'
      rw [idx3_block, idx3_block, ← F3] at this
      have e : ∀ q : Nat, pos + ((a * d.stride + q : Nat) : Int) = pos + (a : Int) * d.stride + q := by
        intro q; push_cast; ring
      rw [e, e] at this
      exact this

end Dims

end PsV
