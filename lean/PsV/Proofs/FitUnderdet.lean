import PsV.Proofs.FitPosDef
import PsV.Proofs.NormalEqExists
import Mathlib.LinearAlgebra.FiniteDimensional.Lemmas
import Mathlib.LinearAlgebra.Matrix.ToLin
/-!
# C13 ∩ C09: argument tuples the sanity block accepts although the fit cannot be well-posed

A fit problem without smoothing and with fewer data points than coefficients has a singular normal matrix `BᵀWB`,
whatever knots, abscissae, weights and data are: a homogeneous system of `rows` equations in `ncoef > rows` unknowns
has a non-trivial solution `v`; the spline with coefficients `v` vanishes at every datum, and no penalty term is active.
Stated with C09's own definitions (`FitProblem`, `Mf`, `PosDef`, `normal_matrix_posDef_iff`).
-/
namespace PsV
open Arith Finset NormalEq
set_option linter.unusedSectionVars false

variable {α : Type} [Field α] [LinearOrder α] [IsStrictOrderedRing α]

/-- a homogeneous linear system with fewer equations than unknowns has a non-trivial solution -/
theorem exists_kernel_vector {m n : Nat} (D : Nat → Nat → α) (h : m < n) :
    ∃ v : Nat → α, (∃ i < n, v i ≠ 0) ∧ ∀ r < m, ∑ i ∈ range n, D r i * v i = 0 := by
  have hker : LinearMap.ker (Matrix.mulVecLin (Matrix.of fun (r : Fin m) (i : Fin n) => D r.val i.val)) ≠ ⊥ :=
    LinearMap.ker_ne_bot_of_finrank_lt (by simpa using h)
  obtain ⟨w, hw, hne⟩ := Submodule.exists_mem_ne_zero_of_ne_bot hker
  refine ⟨ext0 w, ?_, ?_⟩
  · obtain ⟨i, hi⟩ := Function.ne_iff.mp hne
    exact ⟨i.val, i.isLt, by rw [ext0_apply]; exact hi⟩
  · intro r hr
    have h0 := congrFun (LinearMap.mem_ker.mp hw) ⟨r, hr⟩
    rw [← Fin.sum_univ_eq_sum_range (fun i => D r i * ext0 w i) n]
    simp only [Matrix.mulVecLin_apply, Matrix.mulVec, dotProduct, Matrix.of_apply, Pi.zero_apply] at h0
    simpa [ext0_apply] using h0

variable [A : Arith α] [L : LawfulArith α]

theorem penaltyVanishes_of_no_smoothing (dims : List (Dim α)) (smooth : List α) (porder : List Nat) (N : Nat)
    (c : Nat → α) (h : ∀ l ∈ smooth, l = 0) : PenaltyVanishes dims smooth porder N c := by
  induction dims generalizing smooth porder with
  | nil => simp [PenaltyVanishes]
  | cons d ds ih =>
    cases smooth with
    | nil => simp [PenaltyVanishes]
    | cons l ls =>
      cases porder with
      | nil => simp [PenaltyVanishes]
      | cons p ps =>
        simp only [PenaltyVanishes]
        exact ⟨Or.inl (h l (by simp)), ih ls ps fun l' hl' => h l' (by simp [hl'])⟩

/-- **No smoothing and fewer data points than coefficients ⇒ the normal matrix is not positive definite.** -/
theorem underdetermined_not_posDef (P : FitProblem α) (hw : ∀ r < P.rows.size, 0 ≤ rowW P r)
    (hsm : ∀ l ∈ P.smooth, l = 0) (hrows : P.rows.size < P.ncoef) : ¬ PosDef P.ncoef (Mf P) := by
  intro hP
  obtain ⟨v, ⟨i, hi, hne⟩, hv⟩ := exists_kernel_vector (designEntry P) hrows
  have hl : ∀ l ∈ P.smooth, 0 ≤ l := fun l hl => by rw [hsm l hl]
  exact hne ((posDef_iff_trivial_kernel P hw hl).mp hP v (fun r hr _ => hv r hr)
    (penaltyVanishes_of_no_smoothing _ _ _ _ _ hsm) i hi)

end PsV
