import PsV.Proofs.RoundingAcc
import PsV.Proofs.RoundingEval
import PsV.Proofs.BSpline
import PsV.Model.DerivAbs
/-!
# Forward error of derivative evaluation (bitmask derivatives) under rounding

`bspline_deriv_nonzero` at a point of the fully supported range: the values of degree `n-1` come from
`bsplvb` with relative error (`bsplvb_relerr`, `1 + 7(n-1)` roundings); every quotient
`n·B/(t_{i+n} − t_i)` adds 4 roundings (conversion of `n`, product, knot difference, quotient) and keeps
the relative error; the **difference** of two quotients is then known only up to `Acc` with the sum of the
two quotients as majorant, and difference + store add 2 more: `7n` roundings against the majorant row
`bsplineDerivNonzeroAbs`.  Value rows are their own majorant (`1 + 7n` roundings), so the walk analysis
`walk_err3` runs with `kr = 1 + 7·maxorder` for every mixture of value / derivative rows and gives the
same constant as plain evaluation.
-/
namespace PsV
variable {F : Type} [Field F] [LinearOrder F] [IsStrictOrderedRing F]
variable {ε : F} {fl st : F → F}

section
variable (fl st : F → F)
@[simp] theorem rd_ofNat (n : Nat) : @Arith.ofNat F (Arith.rounded fl st) n = fl (n : F) := rfl
@[simp] theorem rd_neg (a : F) : @Arith.neg F (Arith.rounded fl st) a = -a := rfl
end

theorem derivMid_length {α : Type} [A : Arith α] (t : Int → α) (left : Int) (n : Nat) :
    ∀ (vs : List α) (i : Nat) (temp : α), (derivMid t left n i temp vs).length = vs.length + 1 := by
  intro vs
  induction vs with
  | nil => intros; simp [derivMid]
  | cons v vs ih => intros; simp [derivMid, ih]

theorem vbLevels_length' (t : Int → F) (x : F) (left : Int) : ∀ (count j : Nat) (row : List F), row.length = j + 1 →
    (@vbLevels F (Arith.ofField F) t x left count j row).length = j + count + 1 := by
  intro count
  induction count with
  | zero => intro j row h; simpa [vbLevels] using h
  | succ k ih =>
    intro j row h
    simp only [vbLevels]
    rw [ih (j + 1) _ (by rw [vbStep_length, h])]; omega

theorem bsplvb_length' (t : Int → F) (x : F) (left : Int) (jhigh : Nat) :
    (@bsplvb F (Arith.ofField F) t x left jhigh).length = jhigh - 1 + 1 := by
  unfold bsplvb
  rw [vbLevels_length' t x left _ 0 _ (by simp)]
  omega

section
variable (hε : 0 ≤ ε) (hfl : ∀ a, RelErr ε 1 a (fl a)) (hst : ∀ a, RelErr ε 1 a (st a))
include hε hfl

/-- `n*temp/(knot difference)`: conversion, product, difference, quotient — 4 roundings -/
theorem quot_relerr (n k : Nat) (tE tR Δ : F) (ht : RelErr ε k tE tR) :
    RelErr ε (k + 4) ((n : F) * tE / Δ) (fl (fl (fl (n : F) * tR) / fl Δ)) := by
  have h1 := RelErr.round hε hfl (RelErr.mul hε (hfl (n : F)) ht)
  have h2 := RelErr.round hε hfl (RelErr.div hε h1 (hfl Δ))
  exact h2.mono hε (by omega)

include hst

/-- slots `i ≥ 1` of the derivative combination -/
theorem derivMid_row3 (t : Int → F) (left : Int) (n k : Nat) :
    ∀ (vsE vsR : List F) (i : Nat) (tE tR : F),
      List.Forall₂ (RelErr ε k) vsE vsR → (∀ b ∈ vsE, 0 ≤ b) → RelErr ε k tE tR → 0 ≤ tE →
      (∀ m : Nat, i ≤ m → m ≤ i + vsE.length → t (left + m - n) ≤ t (left + m)) →
      Row3 ε (k + 6) (@derivMidAbs F (Arith.ofField F) t left n i tE vsE)
        (@derivMid F (Arith.ofField F) t left n i tE vsE)
        (@derivMid F (Arith.rounded fl st) t left n i tR vsR) := by
  intro vsE
  induction vsE with
  | nil =>
    intro vsR i tE tR h _ ht ht0 hk
    cases h
    simp only [derivMid, derivMidAbs, of_rnd, of_div, of_mul, of_sub, of_ofNat, rd_rnd, rd_div, rd_mul, rd_sub, rd_ofNat]
    have hΔ : 0 ≤ t (left + i) - t (left + i - n) := by
      have := hk i (le_refl _) (by simp); linarith
    have hq := RelErr.round hε hst (quot_relerr hε hfl n k tE tR (t (left + i) - t (left + i - n)) ht)
    refine ⟨?_, trivial⟩
    exact (Acc.of_relerr_nonneg hε hq (div_nonneg (mul_nonneg (Nat.cast_nonneg n) ht0) hΔ)).mono hε (by omega)
  | cons v vs ih =>
    intro vsR i tE tR h hnn ht ht0 hk
    cases h with
    | cons hv hvs =>
      rename_i vR vsR'
      simp only [derivMid, derivMidAbs, of_rnd, of_div, of_mul, of_sub, of_add, of_ofNat, rd_rnd, rd_div, rd_mul, rd_sub, rd_ofNat]
      have hv0 : 0 ≤ v := hnn v (by simp)
      have hΔ1 : 0 ≤ t (left + i) - t (left + i - n) := by
        have := hk i (le_refl _) (by omega); linarith
      have hΔ2 : 0 ≤ t (left + i + 1) - t (left + i + 1 - n) := by
        have := hk (i + 1) (by omega) (by simp)
        have e1 : left + ((i + 1 : Nat) : Int) = left + i + 1 := by push_cast; ring
        rw [e1] at this; linarith
      have ha := Acc.of_relerr_nonneg hε (quot_relerr hε hfl n k tE tR (t (left + i) - t (left + i - n)) ht)
        (div_nonneg (mul_nonneg (Nat.cast_nonneg n) ht0) hΔ1)
      have hb := Acc.of_relerr_nonneg hε (quot_relerr hε hfl n k v vR (t (left + i + 1) - t (left + i + 1 - n)) hv)
        (div_nonneg (mul_nonneg (Nat.cast_nonneg n) hv0) hΔ2)
      have hd := Acc.relerr_right hε (Acc.sub ha hb) (relerr_stfl hε hfl hst _)
      refine ⟨hd.mono hε (by omega), ?_⟩
      exact ih vsR' (i + 1) v vR hvs (fun b hb => hnn b (by simp [hb])) hv hv0
        (fun m h1 h2 => hk m (by omega) (by simp only [List.length_cons]; omega))

/-- the whole derivative combination on a row of degree `n-1` known up to `k` roundings -/
theorem derivCombine_row3 (t : Int → F) (left : Int) (n k : Nat) (v0E v0R : F) (vsE vsR : List F)
    (hv0 : RelErr ε k v0E v0R) (h0 : 0 ≤ v0E) (hvs : List.Forall₂ (RelErr ε k) vsE vsR) (hnn : ∀ b ∈ vsE, 0 ≤ b)
    (hk : ∀ m : Nat, 1 ≤ m → m ≤ 1 + vsE.length → t (left + m - n) ≤ t (left + m)) :
    Row3 ε (k + 6) (@derivCombineAbs F (Arith.ofField F) t left n (v0E :: vsE))
      (@derivCombine F (Arith.ofField F) t left n (v0E :: vsE))
      (@derivCombine F (Arith.rounded fl st) t left n (v0R :: vsR)) := by
  simp only [derivCombine, derivCombineAbs, of_rnd, of_div, of_mul, of_sub, of_neg, of_ofNat, rd_rnd, rd_div, rd_mul, rd_sub,
    rd_neg, rd_ofNat]
  have hΔ : 0 ≤ t (left + 1) - t (left + 1 - n) := by
    have := hk 1 (le_refl _) (by omega)
    simp only [Nat.cast_one] at this; linarith
  have h1 := RelErr.round hε hfl (RelErr.mul hε (hfl (n : F)) hv0)
  have h2 := RelErr.div hε (RelErr.neg h1) (hfl (t (left + 1) - t (left + 1 - n)))
  have h3 := RelErr.round hε hst (RelErr.round hε hfl h2)
  have hacc := Acc.of_relerr hε h3
  have e : |(-((n : F) * v0E)) / (t (left + 1) - t (left + 1 - n))| = (n : F) * v0E / (t (left + 1) - t (left + 1 - n)) := by
    rw [neg_div, abs_neg, abs_of_nonneg (div_nonneg (mul_nonneg (Nat.cast_nonneg n) h0) hΔ)]
  rw [e] at hacc
  exact ⟨hacc.mono hε (by omega), derivMid_row3 hε hfl hst t left n k vsE vsR 1 v0E v0R hvs hnn hv0 h0 hk⟩

/-- **`bspline_deriv_nonzero` at a point of the fully supported range**: every slot is within
`gfac ε (7·order)` × (slot of the absolute derivative row) of its exact value -/
theorem bsplineDerivNonzero_row3 (d : Dim F) (x : F) (c : Nat) (h : Interior d x c) :
    Row3 ε (7 * d.order)
      (@bsplineDerivNonzeroAbs F (Arith.ofField F) d.knots d.nknots x c d.order)
      (@bsplineDerivNonzero F (Arith.ofField F) d.knots d.nknots x c d.order)
      (@bsplineDerivNonzero F (Arith.rounded fl st) d.knots d.nknots x c d.order) ∧
    (@bsplineDerivNonzero F (Arith.ofField F) d.knots d.nknots x c d.order).length = d.order + 1 := by
  obtain ⟨lo, hi, hl, hr, _, hmono⟩ := h
  cases ho : d.order with
  | zero =>
    have hst0 : st 0 = 0 := (hst 0).zero_left hε
    simp only [bsplineDerivNonzero, bsplineDerivNonzeroAbs, if_true, of_rnd, of_zero, rd_rnd, rd_zero, hst0]
    exact ⟨⟨Acc.zero hε _, trivial⟩, rfl⟩
  | succ o =>
    rw [ho] at lo hi hmono
    unfold bsplineDerivNonzero bsplineDerivNonzeroAbs
    simp only [Nat.succ_ne_zero, if_false]
    rw [marginShift_interior (A := Arith.ofField F) d.knots d.nknots x c (o + 1) (by simpa using hl) (by simpa using hr),
      marginShift_interior (A := Arith.rounded fl st) d.knots d.nknots x c (o + 1) (by simpa using hl) (by simpa using hr),
      rearrange_interior (A := Arith.ofField F) d.nknots c (o + 1) _ (by exact_mod_cast lo) (by exact_mod_cast hi),
      rearrange_interior (A := Arith.ofField F) d.nknots c (o + 1) _ (by exact_mod_cast lo) (by exact_mod_cast hi),
      rearrange_interior (A := Arith.rounded fl st) d.nknots c (o + 1) _ (by exact_mod_cast lo) (by exact_mod_cast hi)]
    obtain ⟨hrel, hnn⟩ := bsplvb_relerr hε hfl hst d.knots x c (o + 1)
      (fun m hm => le_trans hr (hmono _ _ (by omega) (by omega) (by omega)))
      (fun m hm => le_trans (hmono _ _ (by omega) (by omega) (by omega)) hl)
    have hlen := bsplvb_length' d.knots x (c : Int) (o + 1)
    cases hE : @bsplvb F (Arith.ofField F) d.knots x (c : Int) (o + 1) with
    | nil => rw [hE] at hlen; simp at hlen
    | cons v0 vs =>
      rw [hE] at hrel hnn hlen
      generalize @bsplvb F (Arith.rounded fl st) d.knots x (c : Int) (o + 1) = lR at hrel
      cases hrel with
      | cons h0 hs =>
        rename_i v0R vsR
        have hvl : vs.length = o := by simpa using hlen
        have hrow := derivCombine_row3 hε hfl hst d.knots (c : Int) (o + 1) (1 + 7 * (o + 1 - 1)) v0 v0R vs vsR h0
          (hnn v0 (by simp)) hs (fun b hb => hnn b (by simp [hb]))
          (fun m h1 h2 => hmono _ _ (by push_cast; omega) (by push_cast; omega) (by push_cast; omega))
        refine ⟨hrow.mono hε (by simp only [Nat.add_sub_cancel]; omega), ?_⟩
        simp only [derivCombine, List.length_cons, derivMid_length, hvl]

end
end PsV
