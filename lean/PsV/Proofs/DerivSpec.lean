import PsV.Proofs.BasisSpec
import PsV.Proofs.ReadsCoef
/-!
The row produced by `bspline_deriv_nonzero` holds, in slot `j`, the knot-difference derivative
formula `Dind … 1` of the specification for basis function `centre - order + j`.
-/
namespace PsV
variable {α : Type} [Field α] [LinearOrder α]
attribute [local instance] Arith.ofField

/-- knot-difference derivative formula on the polynomial piece `left` -/
def DBp (t : Int → α) (x : α) (left : Int) (m : Nat) (i : Int) : α :=
  ((m + 1 : Nat) : α) * (Bp t x left m i / (t (i + m + 1) - t i) - Bp t x left m (i + 1) / (t (i + m + 2) - t (i + 1)))

theorem DBp_zero_of_not_mem (t : Int → α) (x : α) (left : Int) (m : Nat) (i : Int)
    (h : left < i ∨ i + (m + 1 : Nat) < left) : DBp t x left m i = 0 := by
  unfold DBp
  rcases h with h | h
  · rw [Bp_zero_of_not_mem t x left m i (Or.inl h), Bp_zero_of_not_mem t x left m (i+1) (Or.inl (by omega))]; simp
  · rw [Bp_zero_of_not_mem t x left m i (Or.inr (by push_cast at h; omega)),
      Bp_zero_of_not_mem t x left m (i+1) (Or.inr (by push_cast at h; omega))]; simp

theorem derivMid_spec (t : Int → α) (x : α) (left : Int) (m : Nat) :
    ∀ (vs : List α) (i : Nat) (temp : α), 1 ≤ i → i + vs.length = m + 1 →
      temp = Bp t x left m (left - m + i - 1) →
      (∀ k (hk : k < vs.length), vs[k] = Bp t x left m (left - m + i + k)) →
      ∀ k (hk : k < (derivMid t left (m+1) i temp vs).length),
        (derivMid t left (m+1) i temp vs)[k] = DBp t x left m (left - m - 1 + i + k) := by
  intro vs
  induction vs with
  | nil =>
    intro i temp hi hlen htemp _ k hk
    simp only [derivMid, List.length_singleton] at hk ⊢
    have hk0 : k = 0 := by omega
    subst hk0
    have him : (i : Int) = m + 1 := by simp at hlen; omega
    simp only [List.getElem_cons_zero, of_rnd, of_div, of_mul, of_sub, of_ofNat, DBp]
    have e1 : left - (m:Int) - 1 + i + (0:Nat) = left := by rw [him]; push_cast; ring
    rw [e1, htemp, Bp_zero_of_not_mem t x left m (left + 1) (Or.inl (by omega))]
    have e2 : left - (m:Int) + i - 1 = left := by rw [him]; ring
    have e3 : left + (i:Int) = left + m + 1 := by rw [him]; ring
    have e4 : left + (i:Int) - ((m + 1 : Nat) : Int) = left := by rw [him]; push_cast; ring
    rw [e2, e4, e3]
    ring
  | cons v vs ih =>
    intro i temp hi hlen htemp hvs k hk
    simp only [derivMid]
    simp only [List.length_cons] at hlen
    have hv : v = Bp t x left m (left - m + i) := by
      have := hvs 0 (by simp); simpa using this
    cases k with
    | zero =>
      simp only [List.getElem_cons_zero, of_rnd, of_div, of_mul, of_sub, of_ofNat, DBp]
      rw [htemp, hv]
      have e0 : left - (m:Int) - 1 + i + (0:Nat) = left - m + i - 1 := by push_cast; ring
      rw [e0]
      have e1 : left - (m:Int) + i - 1 + m + 1 = left + i := by ring
      have e2 : left - (m:Int) + i - 1 + 1 = left - m + i := by ring
      have e3 : left - (m:Int) + i - 1 + m + 2 = left + i + 1 := by ring
      have e4 : left + (i:Int) - ((m + 1 : Nat) : Int) = left - m + i - 1 := by push_cast; ring
      have e5 : left + (i:Int) + 1 - ((m + 1 : Nat) : Int) = left - m + i := by push_cast; ring
      rw [e1, e2, e3, e4, e5]
      ring
    | succ k =>
      simp only [List.getElem_cons_succ]
      have := ih (i+1) v (by omega) (by omega)
        (by rw [hv]; congr 1; push_cast; ring)
        (by intro k' hk'
            have := hvs (k'+1) (by simp; omega)
            simp only [List.getElem_cons_succ] at this
            rw [this]; congr 1; push_cast; ring)
        k (by simpa [derivMid] using hk)
      rw [this]; congr 1; push_cast; ring

/-- the derivative combination applied to a level-`m` row gives the `m+2` values `DBp … m (left-m-1+k)` -/
theorem derivCombine_spec (t : Int → α) (x : α) (left : Int) (m : Nat) (vals : List α)
    (h : IsLevel t x left m vals) :
    (derivCombine t left (m+1) vals).length = m + 2 ∧
    ∀ k (hk : k < (derivCombine t left (m+1) vals).length),
      (derivCombine t left (m+1) vals)[k] = DBp t x left m (left - ((m + 1 : Nat) : Int) + k) := by
  obtain ⟨hlen, hval⟩ := h
  cases vals with
  | nil => simp at hlen
  | cons v0 vs =>
    simp only [List.length_cons] at hlen
    have hv0 : v0 = Bp t x left m (left - m) := by
      have := hval 0 (by simp); simpa using this
    have hmid := derivMid_spec t x left m vs 1 v0 (le_refl _) (by omega)
      (by rw [hv0]; congr 1; push_cast; ring)
      (by intro k hk
          have := hval (k+1) (by simp; omega)
          simp only [List.getElem_cons_succ] at this
          rw [this]; congr 1; push_cast; ring)
    have hml : (derivMid t left (m+1) 1 v0 vs).length = vs.length + 1 := derivMid_length t left (m+1) vs 1 v0
    refine ⟨by simp only [derivCombine, List.length_cons, hml]; omega, ?_⟩
    intro k hk
    simp only [derivCombine] at hk ⊢
    cases k with
    | zero =>
      simp only [List.getElem_cons_zero, of_rnd, of_div, of_mul, of_sub, of_neg, of_ofNat, DBp]
      rw [hv0, Bp_zero_of_not_mem t x left m (left - ((m + 1 : Nat) : Int) + (0:Nat)) (Or.inr (by push_cast; omega))]
      have e1 : left - ((m + 1 : Nat) : Int) + (0:Nat) + 1 = left - m := by push_cast; ring
      have e2 : left - ((m + 1 : Nat) : Int) + (0:Nat) + m + 2 = left + 1 := by push_cast; ring
      have e3 : left + 1 - ((m + 1 : Nat) : Int) = left - m := by push_cast; ring
      rw [e1, e2, e3]
      ring
    | succ k =>
      simp only [List.getElem_cons_succ]
      rw [hmid k (by simpa using hk)]
      congr 1; push_cast; ring

/-- the specification's first-derivative formula agrees with `DBp` on valid basis functions -/
theorem Dind_one_eq_DBp (t : Int → α) (x : α) (nknots : Nat) (l : Int) (ind : Int → Bool)
    (hind : ∀ i : Int, 0 ≤ i → i ≤ (nknots:Int) - 2 → (ind i = true ↔ i = l))
    (m : Nat) (i : Int) (h0 : 0 ≤ i) (h1 : i + (m + 1 : Nat) + 1 ≤ (nknots:Int) - 1) :
    Dind ind t x 1 (m+1) i = DBp t x l m i := by
  simp only [Dind, DBp, of_mul, of_sub, of_div, of_ofNat]
  rw [Bind_eq_Bp t x nknots l ind hind m i h0 (by push_cast at h1; omega),
    Bind_eq_Bp t x nknots l ind hind m (i+1) (by omega) (by push_cast at h1; omega)]

/-- **Derivative basis = specification.**  Slot `j` of `bspline_deriv_nonzero`'s output is the
knot-difference derivative formula of basis function `c - n + j` (zero for order 0). -/
theorem bsplineDerivNonzero_spec (t : Int → α) (nknots n : Nat) (x : α) (c : Nat)
    (h : CenterOK t nknots n x c)
    (hnd : t ((nknots:Int) - n - 2) < t ((nknots:Int) - n - 1) ∨ x ≠ t ((nknots:Int) - n - 1)) :
    (bsplineDerivNonzero t nknots x c n).length = n + 1 ∧
    ∀ j, j ≤ n → (bsplineDerivNonzero t nknots x c n)[j]? =
      some (Dind (if x < t ((nknots:Int) - n - 1) then indR t x else indL t x) t x 1 n ((c:Int) - n + j)) := by
  cases n with
  | zero =>
    refine ⟨by simp [bsplineDerivNonzero], ?_⟩
    intro j hj
    have : j = 0 := by omega
    subst this
    simp [bsplineDerivNonzero, Dind]
  | succ m =>
    have hs := marginShift_spec t nknots (m+1) x c h hnd
    have hrow := derivCombine_spec t x (marginShift t nknots x c (m+1)) m _ (bsplvb_level t x _ m)
    have hlen : (bsplineDerivNonzero t nknots x c (m+1)).length = m + 1 + 1 := by
      simp only [bsplineDerivNonzero, Nat.add_one_ne_zero, if_false]
      obtain ⟨hl0, hl1, _, hdown, hup⟩ := hs
      have := h.lo; have := h.hi
      unfold rearrange
      simp only
      split
      · rw [List.length_append, List.length_drop, List.length_replicate, hrow.1]; omega
      · split
        · rw [List.length_append, List.length_take, List.length_replicate, hrow.1]; omega
        · rw [hrow.1]
    refine ⟨hlen, ?_⟩
    intro j hj
    simp only [bsplineDerivNonzero, Nat.add_one_ne_zero, if_false]
    rw [rearrange_spec_gen t nknots (m+1) x c _ _ (DBp t x (marginShift t nknots x c (m+1)) m)
      (fun i hi => DBp_zero_of_not_mem t x _ m i hi) h.lo h.hi hs (by rw [hrow.1]) hrow.2 j hj]
    congr 1
    symm
    obtain ⟨hl0, hl1, hb, _, _⟩ := hs
    have hidx0 : (0:Int) ≤ (c:Int) - (m + 1 : Nat) + j := by have := h.lo; omega
    have hidx1 : (c:Int) - (m + 1 : Nat) + j + (m + 1 : Nat) + 1 ≤ (nknots:Int) - 1 := by have := h.hi; omega
    rcases hb with ⟨hx, b1, b2⟩ | ⟨hx, b1, b2⟩
    · rw [if_pos hx]
      exact Dind_one_eq_DBp t x nknots _ _ (indR_iff t x nknots _ h.mono hl0 hl1 b1 b2) m _ hidx0 hidx1
    · rw [if_neg (not_lt.mpr hx)]
      exact Dind_one_eq_DBp t x nknots _ _ (indL_iff t x nknots _ h.mono hl0 hl1 b1 b2) m _ hidx0 hidx1

end PsV
