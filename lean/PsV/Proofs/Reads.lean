import PsV.Model.Eval
/-!
# Which memory the evaluation routines depend on (C05)

For **every** arithmetic (`Arith` instance: any comparison outcomes, so NaN and infinities are
covered) the routines' results are unchanged when the knot function is altered outside the owned
range `[-order, nknots+order)` and the coefficient function outside `[0, ncoef)`: every index they
pass to `knots[·]` / `coefficients[·]` lies inside owned storage. All loops are structural
recursions or carry explicit fuel, so they terminate.
-/
namespace PsV
variable {α : Type} [A : Arith α]

/-- two knot functions agree on the index interval `[lo, hi]` -/
def AgreeOn (t t' : Int → α) (lo hi : Int) : Prop := ∀ i, lo ≤ i → i ≤ hi → t i = t' i

theorem AgreeOn.mono {t t' : Int → α} {lo hi lo' hi' : Int} (h : AgreeOn t t' lo hi)
    (h1 : lo ≤ lo') (h2 : hi' ≤ hi) : AgreeOn t t' lo' hi' :=
  fun i a b => h i (by omega) (by omega)

theorem shiftDown_congr (t t' : Int → α) (x : α) :
    ∀ (fuel : Nat) (left : Int), AgreeOn t t' 0 left →
      shiftDown t x fuel left = shiftDown t' x fuel left ∧ (-1 ≤ left → -1 ≤ shiftDown t x fuel left) ∧
      shiftDown t x fuel left ≤ left := by
  intro fuel
  induction fuel with
  | zero => intro left _; simp [shiftDown]
  | succ f ih =>
    intro left h
    unfold shiftDown
    by_cases hl : left ≥ 0
    · have e : t left = t' left := h left hl (Int.le_refl _)
      rw [← e]
      by_cases hc : A.lt x (t left) = true
      · simp only [hl, hc, decide_true, Bool.and_self, if_true]
        obtain ⟨a, b, c⟩ := ih (left - 1) (h.mono (Int.le_refl _) (by omega))
        exact ⟨a, fun _ => b (by omega), by omega⟩
      · simp only [hc, Bool.and_false, Bool.false_eq_true, if_false]
        exact ⟨trivial, fun h => h, Int.le_refl _⟩
    · have : decide (left ≥ 0) = false := by simp [hl]
      simp only [this, Bool.false_and, Bool.false_eq_true, if_false]
      exact ⟨trivial, fun h => h, Int.le_refl _⟩

theorem shiftUp_congr (t t' : Int → α) (nknots : Nat) (x : α) :
    ∀ (fuel : Nat) (left : Int), AgreeOn t t' (left + 1) ((nknots : Int) - 1) →
      shiftUp t nknots x fuel left = shiftUp t' nknots x fuel left ∧ left ≤ shiftUp t nknots x fuel left ∧
      (left ≤ (nknots : Int) - 1 → shiftUp t nknots x fuel left ≤ (nknots : Int) - 1) := by
  intro fuel
  induction fuel with
  | zero => intro left _; simp [shiftUp]
  | succ f ih =>
    intro left h
    unfold shiftUp
    by_cases hl : left < (nknots : Int) - 1
    · have e : t (left + 1) = t' (left + 1) := h (left + 1) (Int.le_refl _) (by omega)
      rw [← e]
      by_cases hc : A.lt (t (left + 1)) x = true
      · simp only [hl, hc, decide_true, Bool.and_self, if_true]
        obtain ⟨a, b, c⟩ := ih (left + 1) (h.mono (by omega) (Int.le_refl _))
        exact ⟨a, by omega, fun _ => c (by omega)⟩
      · simp only [hc, Bool.and_false, Bool.false_eq_true, if_false]
        exact ⟨trivial, Int.le_refl _, fun h => h⟩
    · have : decide (left < (nknots : Int) - 1) = false := by simp [hl]
      simp only [this, Bool.false_and, Bool.false_eq_true, if_false]
      exact ⟨trivial, Int.le_refl _, fun h => h⟩

/-- the margin loops read only `knots[0 .. nknots-1]` and leave `left` in `[-1, nknots-1]` -/
theorem marginShift_congr (t t' : Int → α) (nknots : Nat) (x : α) (left : Int) (n : Nat)
    (h : AgreeOn t t' 0 ((nknots : Int) - 1)) (h0 : 0 ≤ left) (h1 : left ≤ (nknots : Int) - 2) :
    marginShift t nknots x left n = marginShift t' nknots x left n ∧
    -1 ≤ marginShift t nknots x left n ∧ marginShift t nknots x left n ≤ (nknots : Int) - 1 := by
  unfold marginShift
  have hd := shiftDown_congr t t' x (nknots + 1) left (h.mono (Int.le_refl _) (by omega))
  have e1 : (if left = (n : Int) then shiftDown t x (nknots + 1) left else left)
      = (if left = (n : Int) then shiftDown t' x (nknots + 1) left else left) := by
    split
    · exact hd.1
    · rfl
  have b1 : -1 ≤ (if left = (n : Int) then shiftDown t x (nknots + 1) left else left) ∧
      (if left = (n : Int) then shiftDown t x (nknots + 1) left else left) ≤ left := by
    split
    · exact ⟨hd.2.1 (by omega), hd.2.2⟩
    · omega
  rw [← e1]
  generalize (if left = (n : Int) then shiftDown t x (nknots + 1) left else left) = l1 at b1 ⊢
  have hu := shiftUp_congr t t' nknots x (nknots + 1) l1 (h.mono (by omega) (Int.le_refl _))
  simp only
  split
  · exact ⟨hu.1, by have := hu.2.1; omega, hu.2.2 (by omega)⟩
  · exact ⟨rfl, b1.1, by omega⟩

theorem vbStep_len (t : Int → α) (x : α) (left : Int) (j : Nat) :
    ∀ (bs : List α) (i : Nat) (saved : α), (vbStep t x left j i saved bs).length = bs.length + 1 := by
  intro bs
  induction bs with
  | nil => intros; simp [vbStep]
  | cons b bs ih => intros; simp [vbStep, ih]

theorem vbStep_congr (t t' : Int → α) (x : α) (left : Int) (j : Nat)
    (h : AgreeOn t t' (left - j) (left + j + 1)) :
    ∀ (bs : List α) (i : Nat) (saved : α), i + bs.length ≤ j + 1 →
      vbStep t x left j i saved bs = vbStep t' x left j i saved bs := by
  intro bs
  induction bs with
  | nil => intros; rfl
  | cons b bs ih =>
    intro i saved hl
    simp only [List.length_cons] at hl
    simp only [vbStep]
    have e1 : t (left + i + 1) = t' (left + i + 1) := h _ (by omega) (by omega)
    have e2 : t (left - ((j - i : Nat) : Int)) = t' (left - ((j - i : Nat) : Int)) := h _ (by omega) (by omega)
    rw [e1, e2, ih (i+1) _ (by omega)]

theorem vbLevels_congr (t t' : Int → α) (x : α) (left : Int) :
    ∀ (count j : Nat) (row : List α), row.length = j + 1 →
      AgreeOn t t' (left - (j + count) + 1) (left + (j + count)) →
      vbLevels t x left count j row = vbLevels t' x left count j row ∧
      (vbLevels t x left count j row).length = j + count + 1 := by
  intro count
  induction count with
  | zero => intro j row hl _; exact ⟨rfl, by simpa [vbLevels] using hl⟩
  | succ c ih =>
    intro j row hl h
    simp only [vbLevels]
    have hs := vbStep_congr t t' x left j (h.mono (by omega) (by omega)) row 0 A.zero (by omega)
    rw [← hs]
    have := ih (j+1) (vbStep t x left j 0 A.zero row) (by rw [vbStep_len, hl])
      (h.mono (by omega) (by omega))
    exact ⟨this.1, by rw [this.2]; omega⟩

/-- `bsplvb(…, jhigh)` reads `knots[left-jhigh+2 .. left+jhigh-1]` -/
theorem bsplvb_congr (t t' : Int → α) (x : α) (left : Int) (jhigh : Nat) (hj : 1 ≤ jhigh)
    (h : AgreeOn t t' (left - jhigh + 2) (left + jhigh - 1)) :
    bsplvb t x left jhigh = bsplvb t' x left jhigh ∧ (bsplvb t x left jhigh).length = (jhigh - 1) + 1 := by
  unfold bsplvb
  obtain ⟨m, rfl⟩ : ∃ m, jhigh = m + 1 := ⟨jhigh - 1, by omega⟩
  have := vbLevels_congr t t' x left m 0 [A.rnd A.one] rfl (h.mono (by push_cast; omega) (by push_cast; omega))
  simp only [Nat.add_sub_cancel]
  exact ⟨this.1, by rw [this.2]; omega⟩

theorem derivMid_congr (t t' : Int → α) (left : Int) (n : Nat) :
    ∀ (vs : List α) (i : Nat) (temp : α), 1 ≤ i → AgreeOn t t' (left + 1 - n) (left + i + vs.length) →
      derivMid t left n i temp vs = derivMid t' left n i temp vs := by
  intro vs
  induction vs with
  | nil =>
    intro i temp hi h
    simp only [derivMid]
    simp only [List.length_nil] at h
    rw [h (left + i) (by omega) (by omega), h (left + i - n) (by omega) (by omega)]
  | cons v vs ih =>
    intro i temp hi h
    simp only [derivMid, List.length_cons] at h ⊢
    rw [h (left + i) (by omega) (by omega), h (left + i - n) (by omega) (by omega),
      h (left + i + 1) (by omega) (by omega), h (left + i + 1 - n) (by omega) (by omega),
      ih (i+1) v (by omega) (h.mono (Int.le_refl _) (by push_cast; omega))]

/-- the derivative combination on `n` values reads `knots[left+1-n .. left+n]` -/
theorem derivCombine_congr (t t' : Int → α) (left : Int) (n : Nat) (vals : List α) (hl : vals.length = n)
    (h : AgreeOn t t' (left + 1 - n) (left + n)) :
    derivCombine t left n vals = derivCombine t' left n vals := by
  cases vals with
  | nil => rfl
  | cons v vs =>
    simp only [derivCombine]
    simp only [List.length_cons] at hl
    rw [h (left + 1) (by omega) (by omega), h (left + 1 - n) (by omega) (by omega),
      derivMid_congr t t' left n vs 1 v (Nat.le_refl _) (h.mono (Int.le_refl _) (by omega))]

/-- **`bsplvb_simple` reads only `knots[-order .. nknots+order-1]`** (centre in the fully supported
range; any `x`, any arithmetic). -/
theorem bsplvbSimple_congr (t t' : Int → α) (nknots : Nat) (x : α) (c : Nat) (n : Nat)
    (hc1 : n ≤ c) (hc2 : c + n + 2 ≤ nknots)
    (h : AgreeOn t t' (-(n : Int)) ((nknots : Int) + n - 1)) :
    bsplvbSimple t nknots x c n = bsplvbSimple t' nknots x c n := by
  unfold bsplvbSimple
  obtain ⟨e, b1, b2⟩ := marginShift_congr t t' nknots x c n (h.mono (by omega) (by omega)) (by omega) (by omega)
  simp only
  rw [← e]
  generalize marginShift t nknots x c n = l at b1 b2 ⊢
  rw [(bsplvb_congr t t' x l (n+1) (by omega) (h.mono (by push_cast; omega) (by push_cast; omega))).1]

/-- **`bspline_deriv_nonzero` reads only `knots[-order .. nknots+order-1]`.** -/
theorem bsplineDerivNonzero_congr (t t' : Int → α) (nknots : Nat) (x : α) (c : Nat) (n : Nat)
    (hc1 : n ≤ c) (hc2 : c + n + 2 ≤ nknots)
    (h : AgreeOn t t' (-(n : Int)) ((nknots : Int) + n - 1)) :
    bsplineDerivNonzero t nknots x c n = bsplineDerivNonzero t' nknots x c n := by
  unfold bsplineDerivNonzero
  by_cases hn : n = 0
  · simp [hn]
  · obtain ⟨m, rfl⟩ : ∃ m, n = m + 1 := ⟨n - 1, by omega⟩
    simp only [Nat.add_one_ne_zero, if_false]
    obtain ⟨e, b1, b2⟩ := marginShift_congr t t' nknots x c (m+1) (h.mono (by omega) (by omega)) (by omega) (by omega)
    rw [← e]
    generalize marginShift t nknots x c (m+1) = l at b1 b2 ⊢
    obtain ⟨e2, len⟩ := bsplvb_congr t t' x l (m+1) (by omega) (h.mono (by push_cast; omega) (by push_cast; omega))
    rw [← e2, derivCombine_congr t t' l (m+1) _ (by rw [len]; omega) (h.mono (by push_cast; omega) (by push_cast; omega))]

/-- **`bspline_nonzero` (gradient lanes) reads only `knots[-order .. nknots+order-1]`.** -/
theorem bsplineNonzero_congr (t t' : Int → α) (nknots : Nat) (x : α) (c : Nat) (n : Nat)
    (hc1 : n ≤ c) (hc2 : c + n + 2 ≤ nknots)
    (h : AgreeOn t t' (-(n : Int)) ((nknots : Int) + n - 1)) :
    bsplineNonzero t nknots x c n = bsplineNonzero t' nknots x c n := by
  unfold bsplineNonzero
  by_cases hn : n = 0
  · simp [hn]
  · obtain ⟨m, rfl⟩ : ∃ m, n = m + 1 := ⟨n - 1, by omega⟩
    simp only [Nat.add_one_ne_zero, if_false, Nat.add_sub_cancel]
    obtain ⟨e, b1, b2⟩ := marginShift_congr t t' nknots x c (m+1) (h.mono (by omega) (by omega)) (by omega) (by omega)
    rw [← e]
    generalize marginShift t nknots x c (m+1) = l at b1 b2 ⊢
    obtain ⟨e2, len⟩ := bsplvb_congr t t' x l (m+1) (by omega) (h.mono (by push_cast; omega) (by push_cast; omega))
    rw [← e2, derivCombine_congr t t' l (m+1) _ (by rw [len]; omega) (h.mono (by push_cast; omega) (by push_cast; omega)),
      vbStep_congr t t' x l m (h.mono (by push_cast; omega) (by push_cast; omega)) _ 0 A.zero (by rw [len]; omega)]

theorem bsplineRec_congr (t t' : Int → α) (x : α) :
    ∀ (n : Nat) (i : Int), AgreeOn t t' i (i + n + 1) → bsplineRec t x n i = bsplineRec t' x n i := by
  intro n
  induction n with
  | zero =>
    intro i h
    simp only [bsplineRec]
    rw [h i (Int.le_refl _) (by omega), h (i+1) (by omega) (by simp)]
  | succ n ih =>
    intro i h
    simp only [bsplineRec]
    rw [h i (Int.le_refl _) (by omega), h (i + n + 1) (by omega) (by push_cast; omega),
      h (i + n + 2) (by omega) (by push_cast; omega), h (i + 1) (by omega) (by push_cast; omega),
      ih i (h.mono (Int.le_refl _) (by push_cast; omega)), ih (i+1) (h.mono (by omega) (by push_cast; omega))]

theorem bsplineDerivRec_congr (t t' : Int → α) (x : α) :
    ∀ (n : Nat) (i : Int) (k : Nat), AgreeOn t t' i (i + n + 1) →
      bsplineDerivRec t x n i k = bsplineDerivRec t' x n i k := by
  intro n
  induction n with
  | zero => intro i k _; simp [bsplineDerivRec]
  | succ n ih =>
    intro i k h
    simp only [bsplineDerivRec]
    rw [h i (Int.le_refl _) (by omega), h (i + n + 1) (by omega) (by push_cast; omega),
      h (i + n + 2) (by omega) (by push_cast; omega), h (i + 1) (by omega) (by push_cast; omega),
      bsplineRec_congr t t' x n i (h.mono (Int.le_refl _) (by push_cast; omega)),
      bsplineRec_congr t t' x n (i+1) (h.mono (by omega) (by push_cast; omega)),
      ih i (k-1) (h.mono (Int.le_refl _) (by push_cast; omega)), ih (i+1) (k-1) (h.mono (by omega) (by push_cast; omega))]

/-- every way of producing a local basis row reads only owned knot storage -/
theorem localRow_congr (d d' : Dim α) (x : α) (c : Nat) (m : BasisMode)
    (ho : d'.order = d.order) (hk : d'.nknots = d.nknots)
    (hc1 : d.order ≤ c) (hc2 : c + d.order + 2 ≤ d.nknots)
    (h : AgreeOn d.knots d'.knots (-(d.order : Int)) ((d.nknots : Int) + d.order - 1)) :
    localRow d x c m = localRow d' x c m := by
  cases m with
  | value => simp only [localRow, ho, hk]; exact bsplvbSimple_congr _ _ _ x c _ hc1 hc2 h
  | deriv1 => simp only [localRow, ho, hk]; exact bsplineDerivNonzero_congr _ _ _ x c _ hc1 hc2 h
  | derivK k =>
    simp only [localRow, ho]
    apply List.map_congr_left
    intro i hi
    rw [List.mem_range] at hi
    rw [bsplineDerivRec_congr d.knots d'.knots x d.order _ k (h.mono (by omega) (by omega))]

end PsV
