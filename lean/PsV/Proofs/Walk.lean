import PsV.Proofs.BasisSpec
/-!
The coefficient-block walk equals the specification's sum restricted to the block, and the block sum
equals the sum over all stored coefficients because every basis function outside the block vanishes.
-/
namespace PsV
variable {α : Type} [Field α] [LinearOrder α]
attribute [local instance] Arith.ofField

/-! ### walk = acc + specSum over the same rows -/

theorem walkLast_eq (coef : Int → α) (bt : α) :
    ∀ (row : List α) (pos : Int) (acc : α),
      walkLast coef bt row pos acc = acc + specSumRow (specSum coef []) 1 bt row pos := by
  intro row
  induction row with
  | nil => intro pos acc; simp [walkLast, specSumRow]
  | cons b bs ih =>
    intro pos acc
    simp only [walkLast, specSumRow, specSum, of_sadd, of_smul, of_add, of_mul, ih]
    push_cast
    ring

/-- rows whose last stride is 1 (the innermost loop indexes `coefficients[tablepos + i]`) -/
def LastStrideOne : List (Nat × List α) → Prop
  | [] => False
  | [(s, _)] => s = 1
  | _ :: r :: rest => LastStrideOne (r :: rest)

theorem walkRow_eq (coef : Int → α) (s : Nat) (rest : List (Nat × List α))
    (ih : ∀ (bt : α) (pos : Int) (acc : α), walk coef rest bt pos acc = acc + specSum coef rest bt pos) (bt : α) :
    ∀ (row : List α) (pos : Int) (acc : α),
      walkRow coef s rest bt row pos acc = acc + specSumRow (specSum coef rest) s bt row pos := by
  intro row
  induction row with
  | nil => intro pos acc; simp [walkRow, specSumRow]
  | cons b bs ihr =>
    intro pos acc
    simp only [walkRow, specSumRow, of_smul, of_add, of_mul, ih, ihr]
    ring

theorem walk_eq (coef : Int → α) :
    ∀ (rows : List (Nat × List α)), LastStrideOne rows →
      ∀ (bt : α) (pos : Int) (acc : α), walk coef rows bt pos acc = acc + specSum coef rows bt pos := by
  intro rows
  induction rows with
  | nil => intro h; exact absurd h (by simp [LastStrideOne])
  | cons r rest ih =>
    intro h bt pos acc
    obtain ⟨s, row⟩ := r
    cases rest with
    | nil =>
      have hs : s = 1 := h
      subst hs
      simp only [walk, specSum]
      exact walkLast_eq coef bt row pos acc
    | cons r2 rest2 =>
      simp only [walk, specSum]
      exact walkRow_eq coef s (r2 :: rest2) (ih h) bt row pos acc

/-! ### restricting the full sum to the window of non-vanishing basis functions -/

theorem specSumRow_append (inner : α → Int → α) (s : Nat) (p : α) :
    ∀ (l1 l2 : List α) (pos : Int),
      specSumRow inner s p (l1 ++ l2) pos =
        specSumRow inner s p l1 pos + specSumRow inner s p l2 (pos + (l1.length : Int) * s) := by
  intro l1
  induction l1 with
  | nil => intro l2 pos; simp [specSumRow]
  | cons a l ih =>
    intro l2 pos
    simp only [List.cons_append, specSumRow, of_add, ih, List.length_cons]
    have : pos + (s:Int) + (l.length : Int) * s = pos + ((l.length + 1 : Nat) : Int) * s := by push_cast; ring
    rw [this]; ring

theorem specSumRow_zero (inner : α → Int → α) (hz : ∀ pos, inner 0 pos = 0) (s : Nat) (p : α) :
    ∀ (l : List α) (pos : Int), (∀ a ∈ l, a = 0) → specSumRow inner s p l pos = 0 := by
  intro l
  induction l with
  | nil => intros; simp [specSumRow]
  | cons a l ih =>
    intro pos h
    simp only [specSumRow, of_add, of_mul]
    rw [h a (by simp), mul_zero, hz, ih _ (fun b hb => h b (by simp [hb]))]
    ring

theorem specSum_zero (coef : Int → α) :
    ∀ (rows : List (Nat × List α)) (pos : Int), specSum coef rows 0 pos = 0 := by
  intro rows
  induction rows with
  | nil => intro pos; simp [specSum]
  | cons r rest ih =>
    intro pos
    obtain ⟨s, fs⟩ := r
    simp only [specSum]
    have : ∀ (l : List α) (pos : Int), specSumRow (specSum coef rest) s 0 l pos = 0 := by
      intro l
      induction l with
      | nil => intros; simp [specSumRow]
      | cons a l ihl => intro pos; simp only [specSumRow, of_add, of_mul, zero_mul, ih, ihl]; ring
    exact this fs pos

theorem specSumRow_shift (g : α → Int → α) (k : Int) (s : Nat) (p : α) :
    ∀ (l : List α) (pos : Int),
      specSumRow (fun p' pos' => g p' (pos' + k)) s p l pos = specSumRow g s p l (pos + k) := by
  intro l
  induction l with
  | nil => intros; simp [specSumRow]
  | cons a l ih =>
    intro pos
    simp only [specSumRow, ih]
    have : pos + k + (s:Int) = pos + s + k := by ring
    rw [this]

/-- one dimension of the window decomposition -/
structure DimW (α : Type) where
  s : Nat
  N : Nat
  a : Nat
  m : Nat
  f : Nat → α

def DimW.OK (d : DimW α) : Prop :=
  d.a + d.m ≤ d.N ∧ ∀ i, i < d.N → (i < d.a ∨ d.a + d.m ≤ i) → d.f i = 0

def fullRows (ds : List (DimW α)) : List (Nat × List α) := ds.map fun d => (d.s, (List.range d.N).map d.f)
def winRows (ds : List (DimW α)) : List (Nat × List α) := ds.map fun d => (d.s, (List.range' d.a d.m).map d.f)
def winOff : List (DimW α) → Int
  | [] => 0
  | d :: ds => (d.a : Int) * d.s + winOff ds

theorem range_split (N a m : Nat) (h : a + m ≤ N) :
    List.range N = List.range' 0 a ++ (List.range' a m ++ List.range' (a + m) (N - (a + m))) := by
  rw [List.range_eq_range']
  have e1 : N = a + (N - a) := by omega
  conv_lhs => rw [e1]
  rw [← List.range'_append_1 (s := 0) (m := a) (n := N - a)]
  congr 1
  have e2 : N - a = m + (N - (a + m)) := by omega
  rw [e2, ← List.range'_append_1 (s := 0 + a) (m := m) (n := N - (a+m))]
  simp

theorem specSum_window (coef : Int → α) :
    ∀ (ds : List (DimW α)), (∀ d ∈ ds, d.OK) → ∀ (p : α) (pos : Int),
      specSum coef (fullRows ds) p pos = specSum coef (winRows ds) p (pos + winOff ds) := by
  intro ds
  induction ds with
  | nil => intro _ p pos; simp [fullRows, winRows, winOff, specSum]
  | cons d ds ih =>
    intro hok p pos
    have hd : d.OK := hok d (by simp)
    have ih' := ih (fun e he => hok e (by simp [he]))
    simp only [fullRows, winRows, List.map_cons, specSum, winOff]
    change specSumRow (specSum coef (fullRows ds)) d.s p _ pos = specSumRow (specSum coef (winRows ds)) d.s p _ _
    have hinner : specSum coef (fullRows ds) = fun p' pos' => specSum coef (winRows ds) p' (pos' + winOff ds) := by
      funext p' pos'; exact ih' p' pos'
    rw [hinner, specSumRow_shift]
    obtain ⟨hlen, hzero⟩ := hd
    rw [range_split d.N d.a d.m hlen, List.map_append, List.map_append, specSumRow_append, specSumRow_append]
    have hz : ∀ pos, specSum coef (winRows ds) 0 pos = 0 := specSum_zero coef _
    have z1 : ∀ q, specSumRow (specSum coef (winRows ds)) d.s p (List.map d.f (List.range' 0 d.a)) q = 0 := by
      intro q
      apply specSumRow_zero _ hz
      intro b hb
      simp only [List.mem_map, List.mem_range'_1] at hb
      obtain ⟨i, ⟨_, hi2⟩, rfl⟩ := hb
      exact hzero i (by omega) (Or.inl (by omega))
    have z3 : ∀ q, specSumRow (specSum coef (winRows ds)) d.s p
        (List.map d.f (List.range' (d.a + d.m) (d.N - (d.a + d.m)))) q = 0 := by
      intro q
      apply specSumRow_zero _ hz
      intro b hb
      simp only [List.mem_map, List.mem_range'_1] at hb
      obtain ⟨i, ⟨hi1, hi2⟩, rfl⟩ := hb
      exact hzero i (by omega) (Or.inr hi1)
    rw [z1, z3]
    simp only [List.length_map, List.length_range', zero_add, add_zero]
    congr 1
    ring

end PsV
