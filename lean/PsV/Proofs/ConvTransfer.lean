import PsV.Proofs.ConvBlossom
/-!
# The transfer matrix against the new basis (list level)

`trafo_sum_closed`: for the sorted knot list `rho` containing every pairwise sum, every old basis function `j`,
and every non-empty interval `left` of `rho`: `Σ_{i < nNew} trafo[i,j] · B_{i,p+q}(u | rho)` (polynomial piece
`left`) is `norm · (τ_{j+p+1} − τ_j) · [τ_j..τ_{j+p+1}] [y_0..y_q] (τ_a + y_b − u)_+^{p+q}` with the truncated power cut
at the interval.  The stored range `i < nNew` is handled by extending `rho` by strictly smaller/larger knots:
the blossoms of the extra basis functions vanish.
-/
namespace PsV
open Finset

/-- `rho` extended to all integers by strictly smaller knots on the left and larger ones on the right -/
def extKnots (rho : List Rat) (z : Int) : Rat :=
  if z < 0 then getK rho 0 + (z : Rat)
  else if z < rho.length then getK rho z.toNat
  else getK rho (rho.length - 1) + ((z : Rat) - rho.length + 1)

theorem getK_eq (l : List Rat) (i : Nat) (h : i < l.length) : getK l i = l[i] := by
  unfold getK; simp [List.getD, h]

theorem getK_mono (rho : List Rat) (hs : rho.Pairwise (· ≤ ·)) (a b : Nat) (hab : a ≤ b) (hb : b < rho.length) :
    getK rho a ≤ getK rho b := by
  rcases Nat.eq_or_lt_of_le hab with h | h
  · subst h; exact le_refl _
  · rw [getK_eq rho a (by omega), getK_eq rho b hb]
    exact (List.pairwise_iff_getElem.mp hs) a b (by omega) hb h

theorem extKnots_nat (rho : List Rat) (i : Nat) (h : i < rho.length) : extKnots rho (i : Int) = getK rho i := by
  unfold extKnots
  have h1 : ¬ ((i : Int) < 0) := by omega
  have h2 : (i : Int) < rho.length := by exact_mod_cast h
  simp [h1, h2]

theorem extKnots_mono (rho : List Rat) (hs : rho.Pairwise (· ≤ ·)) (hpos : 0 < rho.length) (a b : Int) (hab : a ≤ b) :
    extKnots rho a ≤ extKnots rho b := by
  have hlast : ∀ i : Nat, i < rho.length → getK rho i ≤ getK rho (rho.length - 1) :=
    fun i hi => getK_mono rho hs i _ (by omega) (by omega)
  have hfirst : ∀ i : Nat, i < rho.length → getK rho 0 ≤ getK rho i :=
    fun i hi => getK_mono rho hs 0 i (by omega) hi
  have hab' : (a : Rat) ≤ (b : Rat) := by exact_mod_cast hab
  unfold extKnots
  by_cases ha0 : a < 0
  · by_cases hb0 : b < 0
    · simp only [ha0, hb0, if_true]; linarith
    · by_cases hb1 : b < rho.length
      · simp only [ha0, hb0, hb1, if_true, if_false]
        have := hfirst b.toNat (by omega)
        have : (a : Rat) < 0 := by exact_mod_cast ha0
        linarith
      · simp only [ha0, hb0, hb1, if_true, if_false]
        have := hfirst (rho.length - 1) (by omega)
        have h1 : (a : Rat) < 0 := by exact_mod_cast ha0
        have h2 : ((rho.length : Int) : Rat) ≤ (b : Rat) := by exact_mod_cast (not_lt.mp hb1)
        push_cast at h2
        linarith
  · have hb0 : ¬ b < 0 := by omega
    by_cases ha1 : a < rho.length
    · by_cases hb1 : b < rho.length
      · simp only [ha0, hb0, ha1, hb1, if_true, if_false]
        exact getK_mono rho hs _ _ (by omega) (by omega)
      · simp only [ha0, hb0, ha1, hb1, if_true, if_false]
        have := hlast a.toNat (by omega)
        have h2 : ((rho.length : Int) : Rat) ≤ (b : Rat) := by exact_mod_cast (not_lt.mp hb1)
        push_cast at h2
        linarith
    · have hb1 : ¬ b < rho.length := by omega
      simp only [ha0, hb0, ha1, hb1, if_false]
      linarith

theorem extKnots_neg_lt (rho : List Rat) (z : Int) (hz : z < 0) : extKnots rho z < getK rho 0 := by
  unfold extKnots
  have : (z : Rat) < 0 := by exact_mod_cast hz
  simp only [hz, if_true]; linarith

/-- a member of `rho` is the knot of some index -/
theorem node_index (rho : List Rat) (s : Rat) (h : s ∈ rho) : ∃ r : Nat, r < rho.length ∧ extKnots rho (r : Int) = s := by
  obtain ⟨r, hr, he⟩ := List.getElem_of_mem h
  exact ⟨r, hr, by rw [extKnots_nat rho r hr, getK_eq rho r hr, he]⟩

section
variable (knots ck rho : List Rat) (p q : Nat)
  (hτ : ∀ a b, a < b → b < knots.length → getK knots a < getK knots b)
  (hy : ∀ a b, a < b → b < ck.length → getK ck a < getK ck b)
  (hsorted : rho.Pairwise (· ≤ ·))
  (hmem : ∀ a b, a < knots.length → b < ck.length → getK knots a + getK ck b ∈ rho)

/-- coefficient of the (possibly fictitious) basis function `i` of the extended knot vector -/
def extCoef (j : Nat) (i : Int) : Rat :=
  dd2 (getK knots) (getK ck)
    (fun a b => blossomG (extKnots rho i) (fun m => extKnots rho (i + 1 + m)) (p+q) (getK knots a + getK ck b))
    (p+2) j (q+1) 0

include hτ hy hsorted hmem in
/-- **entry of the transfer matrix in closed form** -/
theorem trafoEntry_closed (norm : Rat) (i j : Nat) (hck : ck.length = q + 1) (hj : j + p + 1 < knots.length)
    (hi : i + (p+q) + 1 < rho.length) :
    trafoEntry knots ck rho (p+1) q norm i j =
      norm * ((getK knots (j+p+1) - getK knots j) * extCoef knots ck rho p q j (i : Int)) := by
  have hpos : 0 < rho.length := by omega
  unfold trafoEntry
  show norm * _ = _
  congr 1
  have e1 : p + 1 + q - 1 = p + q := by omega
  rw [e1, hck]
  rw [convolutedBlossom_eq (fun a => getK knots (j + a)) (p+1+1) (getK ck) (q+1) (getK rho i)
    (fun a => getK rho (i + 1 + a)) (p+q) (by omega) (by omega) (by omega)
    (fun a b hab hb => hτ (j+a) (j+b) (by omega) (by omega))
    (fun a b hab hb => hy a b hab (by omega))]
  · have e2 : p + 1 + 1 - 1 = p + 1 := by omega
    have e3 : j + (p + 1) = j + p + 1 := by omega
    rw [e2, e3, Nat.add_zero]
    congr 1
    unfold extCoef dd2
    have := dd_shift (getK knots)
      (fun a => divdiff (getK ck) (fun b => blossomG (extKnots rho (i : Int)) (fun m => extKnots rho ((i : Int) + 1 + m)) (p+q)
        (getK knots a + getK ck b)) (q+1) 0) j (p+2) 0
    refine Eq.trans ?_ this
    apply dd_congr; intro a _ _
    apply dd_congr; intro b _ _
    show blossomG (getK rho i) (fun a => getK rho (i + 1 + a)) (p+q) (getK knots (j + a) + getK ck b) =
      blossomG (extKnots rho (i : Int)) (fun m => extKnots rho ((i : Int) + 1 + m)) (p+q) (getK knots (j + a) + getK ck b)
    rw [extKnots_nat rho i (by omega)]
    unfold blossomG
    split
    · unfold linProd
      apply Finset.prod_congr rfl
      intro m hm
      have hm' := mem_range.mp hm
      have : ((i : Int) + 1 + (m : Int)) = ((i + 1 + m : Nat) : Int) := by push_cast; ring
      show getK knots (j + a) + getK ck b - getK rho (i + 1 + m) =
        getK knots (j + a) + getK ck b - extKnots rho ((i : Int) + 1 + (m : Int))
      rw [this, extKnots_nat rho (i+1+m) (by omega)]
    · rfl
  · -- nodes strictly between z = rho_i and the last bag are bags
    intro a b ha hb hz hlt
    obtain ⟨r, hr, he⟩ := node_index rho _ (hmem (j+a) b (by omega) (by omega))
    rw [extKnots_nat rho r hr] at he
    have h1 : i < r := by
      by_contra hcon
      have := getK_mono rho hsorted r i (by omega) (by omega)
      rw [he] at this
      exact absurd hz (not_lt.mpr this)
    have h2 : r < i + 1 + (p + q - 1) := by
      by_contra hcon
      have := getK_mono rho hsorted (i + 1 + (p+q-1)) r (by omega) hr
      rw [he] at this
      exact absurd hlt (not_lt.mpr this)
    exact ⟨r - i - 1, by omega, by rw [← he]; congr 1; omega⟩

include hτ hy in
/-- fictitious basis functions to the left of the knot vector get coefficient 0 -/
theorem extCoef_neg (j : Nat) (i : Int) (hi : i < 0) (_hpos : 0 < rho.length)
    (hck : ck.length = q + 1) (hj : j + p + 1 < knots.length)
    (hsorted : rho.Pairwise (· ≤ ·))
    (hmem : ∀ a b, a < knots.length → b < ck.length → getK knots a + getK ck b ∈ rho) :
    extCoef knots ck rho p q j i = 0 := by
  unfold extCoef
  have : dd2 (getK knots) (getK ck)
      (fun a b => blossomG (extKnots rho i) (fun m => extKnots rho (i + 1 + m)) (p+q) (getK knots a + getK ck b))
      (p+2) j (q+1) 0 =
    dd2 (getK knots) (getK ck)
      (fun a b => linProd (fun m => extKnots rho (i + 1 + m)) (p+q) (getK knots a + getK ck b)) (p+2) j (q+1) 0 := by
    apply dd2_congr
    intro a b ha1 ha2 hb1 hb2
    unfold blossomG
    obtain ⟨r, hr, he⟩ := node_index rho _ (hmem a b (by omega) (by omega))
    have h0 := getK_mono rho hsorted 0 r (by omega) hr
    rw [extKnots_nat rho r hr] at he
    have : extKnots rho i < getK knots a + getK ck b := by
      have := extKnots_neg_lt rho i hi
      rw [← he]; linarith
    simp [this]
  rw [this]
  exact dd2_linProd_zero _ _ _ j 0 (p+q) (p+2) (q+1)
    (distinctOn_of_strictMono (fun a b _ hab hb => hτ a b hab (by omega)))
    (distinctOn_of_strictMono (fun a b _ hab hb => hy a b hab (by omega))) (by omega) (by omega) (by omega)

/-- basis functions that would need knots beyond the end of `rho` get coefficient 0 -/
theorem extCoef_high (j : Nat) (i : Int) (hlo : (rho.length : Int) - (p+q) - 1 ≤ i) (hpos : 0 < rho.length)
    (hck : ck.length = q + 1) (hj : j + p + 1 < knots.length)
    (hsorted : rho.Pairwise (· ≤ ·))
    (hmem : ∀ a b, a < knots.length → b < ck.length → getK knots a + getK ck b ∈ rho) :
    extCoef knots ck rho p q j i = 0 := by
  unfold extCoef
  rw [show (0:Rat) = dd2 (getK knots) (getK ck) (fun _ _ => 0) (p+2) j (q+1) 0 from (dd2_zero_fun _ _ _ _ _ _).symm]
  apply dd2_congr
  intro a b ha1 ha2 hb1 hb2
  unfold blossomG
  split
  · rename_i hz
    obtain ⟨r, hr, he⟩ := node_index rho _ (hmem a b (by omega) (by omega))
    have h1 : i < (r : Int) := by
      by_contra hcon
      have := extKnots_mono rho hsorted hpos (r : Int) i (by omega)
      rw [he] at this
      exact absurd hz (not_lt.mpr this)
    unfold linProd
    have hm : ((r : Int) - i - 1).toNat < p + q := by omega
    apply Finset.prod_eq_zero (mem_range.mpr hm)
    have : i + 1 + (((r : Int) - i - 1).toNat : Int) = (r : Int) := by omega
    show getK knots a + getK ck b - extKnots rho (i + 1 + (((r : Int) - i - 1).toNat : Int)) = 0
    rw [this, he]; ring
  · rfl

end

/-- re-indexing: the stored coefficients `i < nNew` and the window `left-n … left` of the extended knot vector
carry the same non-zero terms -/
theorem window_reindex (g : Int → Rat) (nNew left n : Nat)
    (hneg : ∀ i : Int, i < 0 → g i = 0)
    (hlow : ∀ i : Int, i + n < left → g i = 0)
    (hhigh : ∀ i : Int, (left : Int) < i → g i = 0)
    (hbig : ∀ i : Int, (nNew : Int) ≤ i → i ≤ left → g i = 0) :
    ∑ i ∈ range nNew, g (i : Int) = ∑ k ∈ range (n+1), g ((left : Int) - n + k) := by
  -- both are the sum over 0 … left
  have hA : ∑ i ∈ range nNew, g (i : Int) = ∑ i ∈ range (left+1), g (i : Int) := by
    rcases Nat.le_total nNew (left+1) with h | h
    · apply Finset.sum_subset (range_subset_range.mpr h)
      intro i hi1 hi2
      rw [mem_range] at hi1 hi2
      exact hbig i (by omega) (by omega)
    · symm
      apply Finset.sum_subset (range_subset_range.mpr h)
      intro i hi1 hi2
      rw [mem_range] at hi1 hi2
      exact hhigh i (by omega)
  have hB : ∑ k ∈ range (left + n + 1), g ((k : Int) - n) = ∑ i ∈ range (left+1), g (i : Int) := by
    have e : left + n + 1 = n + (left + 1) := by omega
    rw [e, Finset.sum_range_add]
    have z : ∑ k ∈ range n, g ((k : Int) - n) = 0 := by
      apply Finset.sum_eq_zero
      intro k hk
      rw [mem_range] at hk
      exact hneg _ (by omega)
    rw [z, zero_add]
    apply Finset.sum_congr rfl
    intro i _
    congr 1; push_cast; ring
  have hC : ∑ k ∈ range (left + n + 1), g ((k : Int) - n) = ∑ k ∈ range (n+1), g ((left : Int) - n + k) := by
    have e : left + n + 1 = left + (n + 1) := by omega
    rw [e, Finset.sum_range_add]
    have z : ∑ k ∈ range left, g ((k : Int) - n) = 0 := by
      apply Finset.sum_eq_zero
      intro k hk
      rw [mem_range] at hk
      exact hlow _ (by omega)
    rw [z, zero_add]
    apply Finset.sum_congr rfl
    intro i _
    congr 1; push_cast; ring
  rw [hA, ← hB, hC]

/-- **the transfer matrix against the new basis, in closed form** -/
theorem trafo_sum_closed (knots ck rho : List Rat) (p q : Nat) (norm : Rat) (j left : Nat) (t : Int → Rat) (u : Rat)
    (hck : ck.length = q + 1) (hj : j + p + 1 < knots.length)
    (hτ : ∀ a b, a < b → b < knots.length → getK knots a < getK knots b)
    (hy : ∀ a b, a < b → b < ck.length → getK ck a < getK ck b)
    (hsorted : rho.Pairwise (· ≤ ·))
    (hmem : ∀ a b, a < knots.length → b < ck.length → getK knots a + getK ck b ∈ rho)
    (hleft : left + 1 < rho.length) (hne : getK rho left < getK rho (left+1))
    (ht : ∀ i : Nat, i < rho.length → t (i : Int) = getK rho i) :
    ∑ i ∈ range (rho.length - (p+q) - 1), trafoEntry knots ck rho (p+1) q norm i j * Bp t u (left : Int) (p+q) (i : Int)
      = norm * ((getK knots (j+p+1) - getK knots j) *
          dd2 (getK knots) (getK ck)
            (fun a b => if getK rho (left+1) ≤ getK knots a + getK ck b then (getK knots a + getK ck b - u)^(p+q) else 0)
            (p+2) j (q+1) 0) := by
  have hpos : 0 < rho.length := by omega
  set n := p + q with hn
  -- 1. rewrite every stored term over the extended knots
  have hterm : ∀ i ∈ range (rho.length - n - 1),
      trafoEntry knots ck rho (p+1) q norm i j * Bp t u (left : Int) n (i : Int) =
      norm * (getK knots (j+p+1) - getK knots j) * (extCoef knots ck rho p q j (i : Int) * Bp (extKnots rho) u (left : Int) n (i : Int)) := by
    intro i hi
    rw [mem_range] at hi
    rw [trafoEntry_closed knots ck rho p q hτ hy hsorted hmem norm i j hck hj (by omega)]
    have : Bp t u (left : Int) n (i : Int) = Bp (extKnots rho) u (left : Int) n (i : Int) := by
      apply Bp_congr_knots
      intro z hz1 hz2
      have hz : z = ((z.toNat : Nat) : Int) := by omega
      rw [hz, ht z.toNat (by omega), extKnots_nat rho z.toNat (by omega)]
    rw [this]; ring
  rw [Finset.sum_congr rfl hterm, ← Finset.mul_sum]
  -- 2. window
  rw [window_reindex (fun i => extCoef knots ck rho p q j i * Bp (extKnots rho) u (left : Int) n i) (rho.length - n - 1) left n
    (fun i hi => by
      show extCoef knots ck rho p q j i * _ = 0
      rw [extCoef_neg knots ck rho p q hτ hy j i hi hpos hck hj hsorted hmem]; ring)
    (fun i hi => by
      show _ * Bp (extKnots rho) u (left : Int) n i = 0
      rw [Bp_zero_of_not_mem (extKnots rho) u left n i (Or.inr hi)]; ring)
    (fun i hi => by
      show _ * Bp (extKnots rho) u (left : Int) n i = 0
      rw [Bp_zero_of_not_mem (extKnots rho) u left n i (Or.inl hi)]; ring)
    (fun i hi1 hi2 => by
      show extCoef knots ck rho p q j i * _ = 0
      rw [extCoef_high knots ck rho p q j i (by omega) hpos hck hj hsorted hmem]; ring)]
  -- 3. Marsden
  have hmonoT : ∀ a b : Int, a ≤ b → (extKnots rho) a ≤ (extKnots rho) b := fun a b h => extKnots_mono rho hsorted hpos a b h
  have hTl : (extKnots rho) (left : Int) = getK rho left := extKnots_nat rho left (by omega)
  have hTl1 : (extKnots rho) ((left : Int) + 1) = getK rho (left+1) := by
    have : ((left : Int) + 1) = ((left + 1 : Nat) : Int) := by push_cast; ring
    rw [this]; exact extKnots_nat rho (left+1) hleft
  have key := blossom_sum (getK knots) (getK ck) (p+2) j (q+1) 0 (extKnots rho) u (left : Int) n
    (by rw [hTl, hTl1]; exact hne)
    (fun a b _ hab _ => hmonoT a b hab)
    (fun a b ha1 ha2 hb1 hb2 => by
      obtain ⟨r, hr, he⟩ := node_index rho _ (hmem a b (by omega) (by omega))
      rw [← he]
      rcases Nat.lt_or_ge left r with h | h
      · right; exact hmonoT _ _ (by omega)
      · left; exact hmonoT _ _ (by omega))
    (fun a b ha1 ha2 hb1 hb2 hle i hi1 hi2 hlt => by
      obtain ⟨r, hr, he⟩ := node_index rho _ (hmem a b (by omega) (by omega))
      -- an index r' ≤ left carrying the same value
      have : ∃ r' : Nat, r' ≤ left ∧ (extKnots rho) (r' : Int) = getK knots a + getK ck b := by
        rcases Nat.lt_or_ge left r with h | h
        · refine ⟨left, le_refl _, ?_⟩
          have h1 : (extKnots rho) (left : Int) ≤ (extKnots rho) (r : Int) := hmonoT _ _ (by omega)
          rw [he] at h1
          exact le_antisymm h1 hle
        · exact ⟨r, h, he⟩
      obtain ⟨r', hr', he'⟩ := this
      have h1 : i < (r' : Int) := by
        by_contra hcon
        have := hmonoT (r' : Int) i (by omega)
        rw [he'] at this
        exact absurd hlt (not_lt.mpr this)
      refine ⟨((r' : Int) - i - 1).toNat, by omega, ?_⟩
      have : i + 1 + ((((r' : Int) - i - 1).toNat : Nat) : Int) = (r' : Int) := by omega
      rw [this, he'])
  have e : ∀ k : Nat, extCoef knots ck rho p q j ((left : Int) - n + k) =
      dd2 (getK knots) (getK ck) (fun a b => blossomG ((extKnots rho) ((left : Int) - n + k)) (fun m => (extKnots rho) ((left : Int) - n + k + 1 + m)) n
        (getK knots a + getK ck b)) (p+2) j (q+1) 0 := fun k => rfl
  simp only [e]
  rw [key, hTl1]
  ring

end PsV
