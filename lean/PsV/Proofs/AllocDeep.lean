import PsV.Proofs.Alloc
/-!
# C19 — exact peak, arenas that use more than was requested, the destructor, monotonicity (core Lean only)
-/
namespace PsV.C19
open PsV.Generated.C19

theorem liveAfter_le_peakFrom (l : Nat) (es : List Event) : liveAfter l es ≤ peakFrom l es := by
  induction es generalizing l with
  | nil => exact Nat.le_refl _
  | cons e es ih =>
    have := ih (step l e)
    simp only [liveAfter, peakFrom]; omega

/-! ## `costEvents` -/

theorem costEvents_append (c : Nat → Nat) (a b : List Event) :
    costEvents c (a ++ b) = costEvents c a ++ costEvents c b := by
  simp [costEvents]

theorem costEvents_cons (c : Nat → Nat) (e : Event) (es : List Event) :
    costEvents c (e :: es) = costEvents c [e] ++ costEvents c es := by
  simp [costEvents]

theorem costEvents_flatMap {α : Type} (c : Nat → Nat) (l : List α) (f : α → List Event) :
    costEvents c (l.flatMap f) = l.flatMap (fun a => costEvents c (f a)) := by
  induction l with
  | nil => rfl
  | cons a l ih => simp only [List.flatMap_cons, costEvents_append, ih]

theorem costEvents_id (es : List Event) : costEvents (fun n => n) es = es := by
  induction es with
  | nil => rfl
  | cons e es ih =>
    cases e <;> simp_all [costEvents]

/-! ## footprints as an arena with cost function `c` sees them -/

def auxBytesC (c : Nat → Nat) (as : List AuxEntry) : Nat := (as.map fun a => c 16 + (c a.keylen + c a.storedlen)).sum

def knotBytesC (c : Nat → Nat) (ds : List Dim) : Nat := (ds.map fun d => c ((d.nknots + 2 * d.order) * 8)).sum

/-- the eight per-dimension arrays: order, periods, knots, nknots, extents, extents[0], naxes, strides -/
def fixedBytesC (c : Nat → Nat) (nd : Nat) : Nat :=
  c (nd * 4) + c (nd * 8) + c (nd * 8) + c (nd * 8) + c (nd * 8) + c (2 * nd * 8) + c (nd * 8) + c (nd * 8)

/-- what a table of shape `ds` with the auxiliary entries of `p` occupies -/
def footprintC (c : Nat → Nat) (p : Params) (ds : List Dim) : Nat :=
  c (p.aux.length * 8) + auxBytesC c p.aux + fixedBytesC c ds.length + c (prodNaxes ds * 4) + knotBytesC c ds

theorem footprintC_id_read (p : Params) : footprintC (fun n => n) p p.dims = readBytes p := by
  simp only [footprintC, auxBytesC, knotBytesC, fixedBytesC, readBytes, auxBytes, knotBytes]; omega

theorem footprintC_id_conv (p : Params) : footprintC (fun n => n) p (convDims p) = convolvedBytes p := by
  simp only [footprintC, auxBytesC, knotBytesC, fixedBytesC, convolvedBytes, auxBytes, knotBytes, convDims, length_adjustAt]
  omega

/-! ## the reader, under a cost function -/

theorem cost_auxSeg_run (c : Nat → Nat) (a : AuxEntry) (l : Nat) :
    liveAfter l (costEvents c (auxSeg a)) = l + (c 16 + (c a.keylen + c a.storedlen)) ∧
    peakFrom l (costEvents c (auxSeg a)) ≤ l + (c 16 + (c a.keylen + c a.storedlen)) + c a.vallen ∧
    balanced l (costEvents c (auxSeg a)) = true := by
  by_cases h : a.storedlen = a.vallen
  · simp [auxSeg, costEvents, h, liveAfter, peakFrom, balanced, step]; omega
  · simp [auxSeg, costEvents, h, liveAfter, peakFrom, balanced, step]; omega

theorem cost_readTail_allocOnly (c : Nat → Nat) (p : Params) : allocOnly (costEvents c (readTail p)) = true := by
  simp only [readTail, costEvents_append, costEvents_flatMap, allocOnly_append]
  refine Bool.and_eq_true_iff.mpr ⟨rfl, ?_⟩
  exact allocOnly_flatMap _ _ (fun _ => rfl)

theorem cost_readTail_bytes (c : Nat → Nat) (p : Params) :
    allocBytes (costEvents c (readTail p)) =
      fixedBytesC c p.dims.length + c (prodNaxes p.dims * 4) + knotBytesC c p.dims := by
  simp only [readTail, costEvents_append, costEvents_flatMap, allocBytes_append, allocBytes_flatMap']
  simp [costEvents, allocBytes, fixedBytesC, knotBytesC]
  omega

theorem cost_read_run (c : Nat → Nat) (p : Params) (C : Nat) (hC : ∀ a ∈ p.aux, c a.vallen ≤ C) :
    liveAfter 0 (costEvents c (readEvents p)) = footprintC c p p.dims ∧
    peakFrom 0 (costEvents c (readEvents p)) ≤
      max (c (p.aux.length * 8) + auxBytesC c p.aux + C) (footprintC c p p.dims) ∧
    balanced 0 (costEvents c (readEvents p)) = true := by
  obtain ⟨s1, s2, s3⟩ := segments_run p.aux (fun a => costEvents c (auxSeg a))
    (fun a => c 16 + (c a.keylen + c a.storedlen)) C
    (fun a ha l => by
      obtain ⟨h1, h2, h3⟩ := cost_auxSeg_run c a l
      have := hC a ha
      exact ⟨h1, by omega, h3⟩) (c (p.aux.length * 8))
  obtain ⟨t1, t2, t3⟩ := allocOnly_run _ (cost_readTail_allocOnly c p) (c (p.aux.length * 8) + auxBytesC c p.aux)
  rw [cost_readTail_bytes] at t1 t2
  have e : (p.aux.map fun a => c 16 + (c a.keylen + c a.storedlen)).sum = auxBytesC c p.aux := rfl
  rw [e] at s1 s2
  have hev : costEvents c (readEvents p) =
      .alloc (c (p.aux.length * 8)) ::
        (p.aux.flatMap (fun a => costEvents c (auxSeg a)) ++ costEvents c (readTail p)) := by
    rw [readEvents_eq, costEvents_cons, costEvents_append, costEvents_flatMap]; rfl
  rw [hev]
  refine ⟨?_, ?_, ?_⟩
  · show liveAfter (0 + c (p.aux.length * 8)) _ = _
    rw [Nat.zero_add, liveAfter_append, s1, t2]; unfold footprintC; omega
  · show max 0 (peakFrom (0 + c (p.aux.length * 8)) _) ≤ _
    rw [Nat.zero_add, peakFrom_append, s1, t1]; unfold footprintC; omega
  · show balanced (0 + c (p.aux.length * 8)) _ = true
    rw [Nat.zero_add, balanced_append, s3, s1, t3]; rfl

/-! ## `convolve`, under a cost function -/

theorem cost_convFrees_freeOnly (c : Nat → Nat) (p : Params) : freeOnly (costEvents c (convFrees p)) = true := by
  rw [convFrees, costEvents_cons, costEvents_flatMap, freeOnly_append]
  refine Bool.and_eq_true_iff.mpr ⟨rfl, ?_⟩
  exact freeOnly_flatMap _ _ (fun _ => rfl)

theorem cost_convFrees_bytes (c : Nat → Nat) (p : Params) :
    freeBytes (costEvents c (convFrees p)) = c (prodNaxes p.dims * 4) + knotBytesC c p.dims := by
  rw [convFrees, costEvents_cons, costEvents_flatMap, freeBytes_append, freeBytes_flatMap']
  simp [costEvents, freeBytes, knotBytesC]

theorem cost_convAllocs_allocOnly (c : Nat → Nat) (p : Params) : allocOnly (costEvents c (convAllocs p)) = true := by
  rw [convAllocs, costEvents_cons, costEvents_flatMap, allocOnly_append]
  refine Bool.and_eq_true_iff.mpr ⟨rfl, ?_⟩
  exact allocOnly_flatMap _ _ (fun _ => rfl)

theorem cost_convAllocs_bytes (c : Nat → Nat) (p : Params) :
    allocBytes (costEvents c (convAllocs p)) = c (prodNaxes (convDims p) * 4) + knotBytesC c (convDims p) := by
  rw [convAllocs, costEvents_cons, costEvents_flatMap, allocBytes_append, allocBytes_flatMap']
  simp [costEvents, allocBytes, knotBytesC]

theorem convDims_length (p : Params) : (convDims p).length = p.dims.length := length_adjustAt _ _ _

/-- Load-then-convolve as an arena with cost function `c` sees it.  No assumption on `c` is needed: what is released
    is released with the size it was requested with. -/
theorem cost_read_convolve_run (c : Nat → Nat) (p : Params) (C : Nat) (hC : ∀ a ∈ p.aux, c a.vallen ≤ C) :
    balanced 0 (costEvents c (readEvents p ++ convolveEvents p)) = true ∧
    peak (costEvents c (readEvents p ++ convolveEvents p)) ≤
      max (c (p.aux.length * 8) + auxBytesC c p.aux + C) (max (footprintC c p p.dims) (footprintC c p (convDims p))) ∧
    liveAfter 0 (costEvents c (readEvents p ++ convolveEvents p)) = footprintC c p (convDims p) := by
  obtain ⟨r1, r2, r3⟩ := cost_read_run c p C hC
  have hle : freeBytes (costEvents c (convFrees p)) ≤ footprintC c p p.dims := by
    rw [cost_convFrees_bytes]; unfold footprintC; omega
  obtain ⟨f1, f2, f3⟩ := freeOnly_run _ (cost_convFrees_freeOnly c p) (footprintC c p p.dims) hle
  obtain ⟨a1, a2, a3⟩ := allocOnly_run _ (cost_convAllocs_allocOnly c p)
    (footprintC c p p.dims - freeBytes (costEvents c (convFrees p)))
  have hfin : footprintC c p p.dims - freeBytes (costEvents c (convFrees p)) + allocBytes (costEvents c (convAllocs p))
      = footprintC c p (convDims p) := by
    rw [cost_convFrees_bytes, cost_convAllocs_bytes]; unfold footprintC; rw [convDims_length]; omega
  rw [convolveEvents_eq, costEvents_append, costEvents_append]
  refine ⟨?_, ?_, ?_⟩
  · rw [balanced_append, balanced_append, r3, r1, f3, f2, a3]; rfl
  · unfold peak
    rw [peakFrom_append, peakFrom_append, r1, f1, f2, a1, hfin]; omega
  · rw [liveAfter_append, liveAfter_append, r1, f2, a2, hfin]

/-! ## exact peak (plain byte counting) -/

/-- Loading alone: when no raw card value is longer than what is requested after the cards (the per-dimension arrays,
    the coefficients, the knot vectors), the highest level is the footprint of the loaded table. -/
theorem read_peak_exact (p : Params)
    (hC : ∀ a ∈ p.aux, a.vallen ≤ 68 * p.dims.length + 4 * prodNaxes p.dims + knotBytes p.dims) :
    peakFrom 0 (readEvents p) = readBytes p := by
  obtain ⟨r1, r2, _⟩ := read_run p _ hC
  have := liveAfter_le_peakFrom 0 (readEvents p)
  rw [r1] at this
  unfold readBytes at *; omega

theorem read_convolve_peak_exact (p : Params)
    (hC : ∀ a ∈ p.aux, a.vallen ≤ 68 * p.dims.length + 4 * prodNaxes p.dims + knotBytes p.dims) :
    peak (readEvents p ++ convolveEvents p) = max (readBytes p) (convolvedBytes p) := by
  obtain ⟨r1, _, _⟩ := read_run p _ hC
  have hle : freeBytes (convFrees p) ≤ readBytes p := by
    rw [convFrees_bytes]; unfold readBytes; omega
  obtain ⟨f1, f2, _⟩ := freeOnly_run _ (convFrees_freeOnly p) (readBytes p) hle
  obtain ⟨a1, _, _⟩ := allocOnly_run _ (convAllocs_allocOnly p) (readBytes p - freeBytes (convFrees p))
  have hfin : readBytes p - freeBytes (convFrees p) + allocBytes (convAllocs p) = convolvedBytes p := by
    rw [convFrees_bytes, convAllocs_bytes]; unfold readBytes convolvedBytes; omega
  unfold peak
  rw [convolveEvents_eq, peakFrom_append, peakFrom_append, read_peak_exact p hC, r1, f1, f2, a1, hfin]; omega

/-- what the reader's validation implies for the shape (same statement as `C19_loadable_consistent`) -/
theorem loadable_dim (p : Params) (hl : loadable p = true) (d : Dim) (hd : d ∈ p.dims) :
    d.naxes + d.order + 1 = d.nknots ∧ 2 * d.order + 2 ≤ d.nknots := by
  have := List.all_eq_true.mp hl d hd
  simp [readerRejects] at this
  omega

/-- a loadable table with at least one dimension requests at least 84 bytes after its cards -/
theorem tail_ge (p : Params) (hl : loadable p = true) (hnd : 0 < p.dims.length) :
    84 ≤ 68 * p.dims.length + 4 * prodNaxes p.dims + knotBytes p.dims := by
  cases hds : p.dims with
  | nil => rw [hds] at hnd; simp at hnd
  | cons d ds =>
    have := (loadable_dim p hl d (by rw [hds]; exact List.mem_cons_self ..)).2
    simp only [knotBytes, List.map_cons, List.sum_cons, List.length_cons]; omega

theorem readBytes_le_convolvedBytes (p : Params) (hn : 1 ≤ p.n)
    (hcons : ∀ d, p.dims[p.cdim]? = some d → d.naxes + d.order + 1 = d.nknots) :
    readBytes p ≤ convolvedBytes p := by
  have hk : knotBytes p.dims ≤ knotBytes (convDims p) :=
    knotBytes_adjustAt_ge _ (convDim_knots_ge p.n hn) _ _
  have hc : prodNaxes p.dims ≤ prodNaxes (convDims p) :=
    prodNaxes_adjustAt_ge _ _ _ (fun d hd => convDim_naxes_ge p.n hn d (hcons d hd))
  unfold readBytes convolvedBytes; omega

/-! ## order of the auxiliary cards -/

theorem auxBytes_perm (as bs : List AuxEntry) (h : as.Perm bs) : auxBytes as = auxBytes bs :=
  (h.map _).sum_nat

/-! ## the destructor -/

/-- what `~splinetable` releases for a table of shape `cur` -/
def destroyFrees (p : Params) (cur : List Dim) : List Event :=
  cur.flatMap (fun d => [.free ((d.nknots + 2 * d.order) * 8)]) ++
  [.free (cur.length * 8), .free (cur.length * 8), .free (cur.length * 4), .free (2 * cur.length * 8),
   .free (cur.length * 8), .free (cur.length * 8), .free (prodNaxes cur * 4), .free (cur.length * 8),
   .free (cur.length * 8)] ++
  p.aux.flatMap (fun a => [.free a.keylen, .free a.storedlen, .free 16]) ++ [.free (p.aux.length * 8)]

/-- The generated call sites of the destructor, evaluated. -/
theorem destroyEvents_eq (p : Params) (cur : List Dim) : destroyEvents p cur = destroyFrees p cur := by
  simp [destroyEvents, destroyBlocks, interp, evalSites, evalSite, topEnv, destroyFrees]

theorem cost_destroyFrees_freeOnly (c : Nat → Nat) (p : Params) (cur : List Dim) :
    freeOnly (costEvents c (destroyFrees p cur)) = true := by
  simp only [destroyFrees, costEvents_append, costEvents_flatMap, freeOnly_append, Bool.and_eq_true]
  exact ⟨⟨⟨freeOnly_flatMap _ _ (fun _ => rfl), rfl⟩, freeOnly_flatMap _ _ (fun _ => rfl)⟩, rfl⟩

theorem cost_destroyFrees_bytes (c : Nat → Nat) (p : Params) (cur : List Dim) :
    freeBytes (costEvents c (destroyFrees p cur)) = footprintC c p cur := by
  simp only [destroyFrees, costEvents_append, costEvents_flatMap, freeBytes_append, freeBytes_flatMap']
  have e : (fun a : AuxEntry => c a.keylen + (c a.storedlen + c 16)) = fun a => c 16 + (c a.keylen + c a.storedlen) := by
    funext a; omega
  simp [costEvents, freeBytes, footprintC, fixedBytesC, knotBytesC, auxBytesC, e]
  omega

/-- Destroying a table of shape `cur` when exactly its footprint is live: nothing is over-released, the level only
    falls, and nothing remains. -/
theorem cost_destroy_run (c : Nat → Nat) (p : Params) (cur : List Dim) :
    peakFrom (footprintC c p cur) (costEvents c (destroyEvents p cur)) = footprintC c p cur ∧
    liveAfter (footprintC c p cur) (costEvents c (destroyEvents p cur)) = 0 ∧
    balanced (footprintC c p cur) (costEvents c (destroyEvents p cur)) = true := by
  rw [destroyEvents_eq]
  obtain ⟨h1, h2, h3⟩ := freeOnly_run _ (cost_destroyFrees_freeOnly c p cur) (footprintC c p cur)
    (by rw [cost_destroyFrees_bytes]; exact Nat.le_refl _)
  rw [cost_destroyFrees_bytes] at h2
  exact ⟨h1, by omega, h3⟩

/-! ## bounding what an arena uses -/

/-- How much more than requested an arena with cost function `c` may use for a block: `e16` for the 16-byte pointer
    pair of an auxiliary entry, `e1` for an arbitrary block, `e4` / `e8` for a block whose size is a multiple of 4 / 8. -/
structure PadBound (c : Nat → Nat) (e16 e1 e4 e8 : Nat) : Prop where
  p16 : c 16 ≤ 16 + e16
  any : ∀ n, c n ≤ n + e1
  m4 : ∀ k, c (k * 4) ≤ k * 4 + e4
  m8 : ∀ k, c (k * 8) ≤ k * 8 + e8

theorem auxBytesC_le {c : Nat → Nat} {e16 e1 e4 e8 : Nat} (hb : PadBound c e16 e1 e4 e8) (he : e16 + 2 * e1 ≤ 40)
    (as : List AuxEntry) (h : ∀ a ∈ as, a.keylen + a.vallen ≤ 82) (hs : ∀ a ∈ as, a.storedlen ≤ a.vallen) :
    auxBytesC c as ≤ 138 * as.length :=
  sum_map_le as _ 138 (fun a ha => by
    have := h a ha; have := hs a ha; have := hb.p16; have := hb.any a.keylen; have := hb.any a.storedlen; omega)

theorem knotBytesC_le {c : Nat → Nat} {e16 e1 e4 e8 : Nat} (hb : PadBound c e16 e1 e4 e8) (ds : List Dim) :
    knotBytesC c ds ≤ knotBytes ds + e8 * ds.length := by
  induction ds with
  | nil => simp [knotBytesC, knotBytes]
  | cons d ds ih =>
    have := hb.m8 (d.nknots + 2 * d.order)
    simp only [knotBytesC, knotBytes, List.map_cons, List.sum_cons, List.length_cons, Nat.mul_succ] at *
    omega

theorem fixedBytesC_le {c : Nat → Nat} {e16 e1 e4 e8 : Nat} (hb : PadBound c e16 e1 e4 e8) (nd : Nat) :
    fixedBytesC c nd ≤ 68 * nd + e4 + 7 * e8 := by
  have := hb.m4 nd; have := hb.m8 nd; have := hb.m8 (2 * nd)
  unfold fixedBytesC; omega

theorem footprintC_le {c : Nat → Nat} {e16 e1 e4 e8 : Nat} (hb : PadBound c e16 e1 e4 e8) (he : e16 + 2 * e1 ≤ 40)
    (p : Params) (h : ∀ a ∈ p.aux, a.keylen + a.vallen ≤ 82) (hs : ∀ a ∈ p.aux, a.storedlen ≤ a.vallen) (ds : List Dim) :
    footprintC c p ds ≤
      146 * p.aux.length + 68 * ds.length + 4 * prodNaxes ds + knotBytes ds + (8 * e8 + e8 * ds.length + 2 * e4) := by
  have := auxBytesC_le hb he p.aux h hs
  have := knotBytesC_le hb ds
  have := fixedBytesC_le hb ds.length
  have := hb.m8 p.aux.length
  have := hb.m4 (prodNaxes ds)
  unfold footprintC; omega

/-- **Arena version of the main inequality.**  If the arena uses at most `e16`/`e1`/`e4`/`e8` bytes more than requested
    per block (see `PadBound`) and these fit into what `estimateMemory` leaves over - 40 of the 146 bytes per card, and
    1025 bytes in total for the nine fixed blocks and one knot vector per dimension - the arena never uses more than the
    estimate. -/
theorem cost_peak_le_estimate {c : Nat → Nat} {e16 e1 e4 e8 : Nat} (hb : PadBound c e16 e1 e4 e8) (p : Params)
    (hn : 1 ≤ p.n) (card : ∀ a ∈ p.aux, a.keylen + a.vallen ≤ 82) (stored_le : ∀ a ∈ p.aux, a.storedlen ≤ a.vallen)
    (hcons : ∀ d, p.dims[p.cdim]? = some d → d.naxes + d.order + 1 = d.nknots)
    (h1 : e16 + 2 * e1 ≤ 40) (h3 : 8 * e8 + e8 * p.dims.length + 2 * e4 ≤ 1025) :
    balanced 0 (costEvents c (readEvents p ++ convolveEvents p)) = true ∧
    p.objsize + peak (costEvents c (readEvents p ++ convolveEvents p)) ≤ estimate p := by
  obtain ⟨hbal, hp, _⟩ := cost_read_convolve_run c p (82 + e1)
    (fun a ha => by have := card a ha; have := hb.any a.vallen; omega)
  refine ⟨hbal, ?_⟩
  have hest := estimateWith_ge (nauxCounted p.aux.length p.nauxKnotsHdu) p
  rw [estDims_eq_convDims p hn] at hest
  have hk : knotBytes p.dims ≤ knotBytes (convDims p) :=
    knotBytes_adjustAt_ge _ (convDim_knots_ge p.n hn) _ _
  have hc : prodNaxes p.dims ≤ prodNaxes (convDims p) :=
    prodNaxes_adjustAt_ge _ _ _ (fun d hd => convDim_naxes_ge p.n hn d (hcons d hd))
  have f1 := footprintC_le hb h1 p card stored_le p.dims
  have f2 := footprintC_le hb h1 p card stored_le (convDims p)
  rw [convDims_length] at f2
  have := auxBytesC_le hb h1 p.aux card stored_le
  have := hb.m8 p.aux.length
  simp only [estimate, nauxCounted] at *
  omega

/-! ## alignment -/

theorem dvd16_cases (A : Nat) (h : A ∣ 16) : A = 1 ∨ A = 2 ∨ A = 4 ∨ A = 8 ∨ A = 16 := by
  have hle : A ≤ 16 := Nat.le_of_dvd (by decide) h
  have key : ∀ A, A ≤ 16 → A ∣ 16 → (A = 1 ∨ A = 2 ∨ A = 4 ∨ A = 8 ∨ A = 16) := by decide
  exact key A hle h

theorem dvd8_cases (A : Nat) (h : A ∣ 8) : A = 1 ∨ A = 2 ∨ A = 4 ∨ A = 8 := by
  have hle : A ≤ 8 := Nat.le_of_dvd (by decide) h
  have key : ∀ A, A ≤ 8 → A ∣ 8 → (A = 1 ∨ A = 2 ∨ A = 4 ∨ A = 8) := by decide
  exact key A hle h

/-- blocks aligned to 1, 2, 4 or 8 bytes: only the `uint32_t`/`float` arrays and the strings are padded -/
theorem padBound_align8 (A : Nat) (h : A ∣ 8) : PadBound (alignUp A) 0 7 4 0 := by
  rcases dvd8_cases A h with rfl | rfl | rfl | rfl <;>
    exact ⟨by simp only [alignUp]; omega, fun n => by simp only [alignUp]; omega,
           fun k => by simp only [alignUp]; omega, fun k => by simp only [alignUp]; omega⟩

theorem padBound_align16 : PadBound (alignUp 16) 0 15 12 8 :=
  ⟨by simp only [alignUp]; omega, fun n => by simp only [alignUp]; omega,
   fun k => by simp only [alignUp]; omega, fun k => by simp only [alignUp]; omega⟩

/-- a header of `H` bytes before every block, blocks aligned to 1, 2, 4 or 8 bytes -/
theorem padBound_arena8 (A H : Nat) (h : A ∣ 8) : PadBound (fun n => alignUp A n + H) H (7 + H) (4 + H) H := by
  rcases dvd8_cases A h with rfl | rfl | rfl | rfl <;>
    exact ⟨by simp only [alignUp]; omega, fun n => by simp only [alignUp]; omega,
           fun k => by simp only [alignUp]; omega, fun k => by simp only [alignUp]; omega⟩

/-! ## monotonicity of the estimate -/

/-- pointwise order on the three numbers of a dimension -/
def Dim.le (d e : Dim) : Prop := d.order ≤ e.order ∧ d.nknots ≤ e.nknots ∧ d.naxes ≤ e.naxes

/-- same number of dimensions, pointwise `Dim.le` -/
def DimsLe : List Dim → List Dim → Prop
  | [], [] => True
  | d :: ds, e :: es => Dim.le d e ∧ DimsLe ds es
  | _, _ => False

theorem DimsLe.length_eq : ∀ {ds es : List Dim}, DimsLe ds es → ds.length = es.length
  | [], [], _ => rfl
  | _ :: ds, _ :: es, h => by simp only [List.length_cons]; rw [DimsLe.length_eq (ds := ds) (es := es) h.2]
  | [], _ :: _, h => h.elim
  | _ :: _, [], h => h.elim

theorem knotBytes_mono : ∀ {ds es : List Dim}, DimsLe ds es → knotBytes ds ≤ knotBytes es
  | [], [], _ => Nat.le_refl _
  | d :: ds, e :: es, h => by
    have := knotBytes_mono (ds := ds) (es := es) h.2
    obtain ⟨h1, h2, _⟩ := h.1
    simp only [knotBytes, List.map_cons, List.sum_cons] at *; omega
  | [], _ :: _, h => h.elim
  | _ :: _, [], h => h.elim

theorem prodNaxes_mono : ∀ {ds es : List Dim}, DimsLe ds es → prodNaxes ds ≤ prodNaxes es
  | [], [], _ => Nat.le_refl _
  | _ :: ds, _ :: es, h => Nat.mul_le_mul h.1.2.2 (prodNaxes_mono (ds := ds) (es := es) h.2)
  | [], _ :: _, h => h.elim
  | _ :: _, [], h => h.elim

/-- the coefficient count `estimateMemory` derives for the convolved dimension is monotone as long as
    `nknots − order` does not drop -/
theorem naxesAdj_mono (k o n k' o' n' : Nat) (hk : k ≤ k') (hn : n ≤ n') (hko : k + o' ≤ k' + o) :
    naxesAdj (nknotsAdj k n) (orderAdj o n) ≤ naxesAdj (nknotsAdj k' n') (orderAdj o' n') := by
  simp only [naxesAdj, nknotsAdj, orderAdj]
  rcases Nat.eq_zero_or_pos n with rfl | hn0
  · simp
  rcases Nat.eq_zero_or_pos k with rfl | hk0
  · simp
  obtain ⟨a, rfl⟩ := Nat.exists_eq_add_of_le hk
  obtain ⟨c, rfl⟩ := Nat.exists_eq_add_of_le hn
  have e : (k + a) * (n + c) = k * n + k * c + (a * n + a * c) := by
    rw [Nat.add_mul, Nat.mul_add, Nat.mul_add]
  have h1 : c ≤ k * c := Nat.le_mul_of_pos_left c hk0
  have h2 : a ≤ a * n := Nat.le_mul_of_pos_right a hn0
  rw [e]; omega

theorem estDim_le (n m : Nat) (hnm : n ≤ m) (d e : Dim) (h : Dim.le d e)
    (hko : d.nknots + e.order ≤ e.nknots + d.order) : Dim.le (estDim n d) (estDim m e) := by
  obtain ⟨h1, h2, _⟩ := h
  refine ⟨?_, ?_, ?_⟩
  · simp only [estDim, orderAdj]; omega
  · simp only [estDim, nknotsAdj]; exact Nat.mul_le_mul h2 hnm
  · exact naxesAdj_mono _ _ _ _ _ _ h2 hnm hko

theorem estDims_le (n m : Nat) (hnm : n ≤ m) :
    ∀ (c : Nat) (ds es : List Dim), DimsLe ds es →
      (∀ d e, ds[c]? = some d → es[c]? = some e → d.nknots + e.order ≤ e.nknots + d.order) →
      DimsLe (adjustAt (estDim n) c ds) (adjustAt (estDim m) c es)
  | c, [], [], _, _ => by cases c <;> exact True.intro
  | 0, d :: ds, e :: es, h, hc => ⟨estDim_le n m hnm d e h.1 (hc d e (by simp) (by simp)), h.2⟩
  | c + 1, _ :: ds, _ :: es, h, hc =>
    ⟨h.1, estDims_le n m hnm c ds es h.2 (fun d' e' hd he => hc d' e' (by simpa using hd) (by simpa using he))⟩
  | _, [], _ :: _, h, _ => h.elim
  | _, _ :: _, [], h, _ => h.elim

/-- **Order on file descriptions** under which `estimateMemory` is monotone: object size, number of auxiliary cards,
    kernel knots, and the three numbers of every dimension grow (same number of dimensions, same convolved
    dimension), and in the convolved dimension `nknots − order` (one more than the coefficient count the knot vector
    implies) does not drop.  For two files the reader accepts the last condition follows from the others
    (`paramsLe_of_loadable`). -/
structure ParamsLe (p q : Params) : Prop where
  objsize : p.objsize ≤ q.objsize
  naux : p.aux.length ≤ q.aux.length
  n : p.n ≤ q.n
  cdim : p.cdim = q.cdim
  dims : DimsLe p.dims q.dims
  conv : ∀ d e, p.dims[p.cdim]? = some d → q.dims[p.cdim]? = some e → d.nknots + e.order ≤ e.nknots + d.order

theorem rawSizeWith_closed (naux : Nat) (p : Params) :
    rawSizeWith naux p =
      p.objsize + knotBytes (estDims p) + 68 * p.dims.length + 4 * prodNaxes (estDims p) + 146 * naux := by
  simp only [rawSizeWith, sizeInit, fixedTerms, sumKnotTerms_eq, List.sum_cons, List.sum_nil]
  omega

theorem estimateWith_mono_raw (naux naux' : Nat) (p q : Params) (h : rawSizeWith naux p ≤ rawSizeWith naux' q) :
    estimateWith naux p ≤ estimateWith naux' q := by
  simp only [estimateWith, roundingTerm]; omega

theorem estimate_mono (p q : Params) (h : ParamsLe p q) : estimate p ≤ estimate q := by
  have hd : DimsLe (estDims p) (estDims q) := by
    unfold estDims; rw [← h.cdim]
    exact estDims_le p.n q.n h.n p.cdim p.dims q.dims h.dims h.conv
  have hk := knotBytes_mono hd
  have hp := prodNaxes_mono hd
  have hl := h.dims.length_eq
  have := h.objsize; have := h.naux
  apply estimateWith_mono_raw
  rw [rawSizeWith_closed, rawSizeWith_closed]
  simp only [nauxCounted]; omega

theorem getElem?_dimsLe : ∀ {ds es : List Dim} (c : Nat) {d e : Dim}, DimsLe ds es → ds[c]? = some d → es[c]? = some e → Dim.le d e
  | d' :: ds, e' :: es, 0, d, e, h, hd, he => by
    simp at hd he; subst hd; subst he; exact h.1
  | _ :: ds, _ :: es, c + 1, d, e, h, hd, he =>
    getElem?_dimsLe (ds := ds) (es := es) c h.2 (by simpa using hd) (by simpa using he)
  | [], [], c, _, _, _, hd, _ => by simp at hd
  | [], _ :: _, _, _, _, h, _, _ => h.elim
  | _ :: _, [], _, _, _, h, _, _ => h.elim

/-- for two files the reader accepts, the pointwise order is all that is needed -/
theorem paramsLe_of_loadable (p q : Params) (hp : loadable p = true) (hq : loadable q = true)
    (h1 : p.objsize ≤ q.objsize) (h2 : p.aux.length ≤ q.aux.length) (h3 : p.n ≤ q.n) (h4 : p.cdim = q.cdim)
    (h5 : DimsLe p.dims q.dims) : ParamsLe p q :=
  ⟨h1, h2, h3, h4, h5, fun d e hd he => by
    have hle := getElem?_dimsLe p.cdim h5 hd he
    have a := (loadable_dim p hp d (List.mem_of_getElem? hd)).1
    have b := (loadable_dim q hq e (List.mem_of_getElem? he)).1
    obtain ⟨_, _, h⟩ := hle
    omega⟩

/-! ## tightness -/

theorem estimateWith_le (naux : Nat) (p : Params) :
    estimateWith naux p ≤
      p.objsize + knotBytes (estDims p) + 68 * p.dims.length + 4 * prodNaxes (estDims p) + 146 * naux + 2048 := by
  have := rawSizeWith_closed naux p
  simp only [estimateWith, roundingTerm]; omega

/-- The estimate exceeds what is really live at the end of load-then-convolve (hence the peak) by at most the 2 KB of
    rounding plus, per auxiliary card, the difference between the 146 bytes assumed and the bytes the card occupies. -/
theorem estimate_le_peak_plus (p : Params) (hn : 1 ≤ p.n) :
    estimate p + (8 * p.aux.length + auxBytes p.aux) ≤
      p.objsize + peak (readEvents p ++ convolveEvents p) + 2048 + 146 * p.aux.length := by
  have h1 := estimateWith_le (nauxCounted p.aux.length p.nauxKnotsHdu) p
  rw [estDims_eq_convDims p hn] at h1
  have h2 := liveAfter_le_peakFrom 0 (readEvents p ++ convolveEvents p)
  rw [live_after_read_convolve] at h2
  simp only [estimate, nauxCounted, peak, convolvedBytes] at *
  omega

end PsV.C19
