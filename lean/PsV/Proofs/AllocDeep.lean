import PsV.Proofs.Alloc
/-!
# C19 — exact peak, arenas that use more than was requested, the destructor, monotonicity (core Lean only)
-/
namespace PsV.C19
open PsV.Generated.C19

theorem liveAfter_le_peakFrom (l : Nat) (es : List Event) : liveAfter l es ≤ peakFrom l es := by
  induction es generalizing l with
  | nil => exact Nat.le_refl _
  | cons e es ih =>
    have := ih (step l e)
    simp only [liveAfter, peakFrom]; omega

/-! ## `costEvents` -/

theorem costEvents_append (c : Nat → Nat) (a b : List Event) :
    costEvents c (a ++ b) = costEvents c a ++ costEvents c b := by
  simp [costEvents]

theorem costEvents_cons (c : Nat → Nat) (e : Event) (es : List Event) :
    costEvents c (e :: es) = costEvents c [e] ++ costEvents c es := by
  simp [costEvents]

theorem costEvents_flatMap {α : Type} (c : Nat → Nat) (l : List α) (f : α → List Event) :
    costEvents c (l.flatMap f) = l.flatMap (fun a => costEvents c (f a)) := by
  induction l with
  | nil => rfl
  | cons a l ih => simp only [List.flatMap_cons, costEvents_append, ih]

theorem costEvents_id (es : List Event) : costEvents (fun n => n) es = es := by
  induction es with
  | nil => rfl
  | cons e es ih =>
    cases e <;> simp_all [costEvents]

/-! ## footprints as an arena with cost function `c` sees them -/

def auxBytesC (c : Nat → Nat) (as : List AuxEntry) : Nat := (as.map fun a => c 16 + (c a.keylen + c a.storedlen)).sum

def knotBytesC (c : Nat → Nat) (ds : List Dim) : Nat := (ds.map fun d => c ((d.nknots + 2 * d.order) * 8)).sum

/-- the eight per-dimension arrays: order, periods, knots, nknots, extents, extents[0], naxes, strides -/
def fixedBytesC (c : Nat → Nat) (nd : Nat) : Nat :=
  c (nd * 4) + c (nd * 8) + c (nd * 8) + c (nd * 8) + c (nd * 8) + c (2 * nd * 8) + c (nd * 8) + c (nd * 8)

/-- what a table of shape `ds` with the auxiliary entries of `p` occupies -/
def footprintC (c : Nat → Nat) (p : Params) (ds : List Dim) : Nat :=
  c (p.aux.length * 8) + auxBytesC c p.aux + fixedBytesC c ds.length + c (prodNaxes ds * 4) + knotBytesC c ds

theorem footprintC_id_read (p : Params) : footprintC (fun n => n) p p.dims = readBytes p := by
  simp only [footprintC, auxBytesC, knotBytesC, fixedBytesC, readBytes, auxBytes, knotBytes]; omega

theorem footprintC_id_conv (p : Params) : footprintC (fun n => n) p (convDims p) = convolvedBytes p := by
  simp only [footprintC, auxBytesC, knotBytesC, fixedBytesC, convolvedBytes, auxBytes, knotBytes, convDims, length_adjustAt]
  omega

/-! ## the reader, under a cost function -/

theorem cost_auxSeg_run (c : Nat → Nat) (a : AuxEntry) (l : Nat) :
    liveAfter l (costEvents c (auxSeg a)) = l + (c 16 + (c a.keylen + c a.storedlen)) ∧
    peakFrom l (costEvents c (auxSeg a)) ≤ l + (c 16 + (c a.keylen + c a.storedlen)) + c a.vallen ∧
    balanced l (costEvents c (auxSeg a)) = true := by
  by_cases h : a.storedlen = a.vallen
  · simp [auxSeg, costEvents, h, liveAfter, peakFrom, balanced, step]; omega
  · simp [auxSeg, costEvents, h, liveAfter, peakFrom, balanced, step]; omega

theorem cost_readTail_allocOnly (c : Nat → Nat) (p : Params) : allocOnly (costEvents c (readTail p)) = true := by
  simp only [readTail, costEvents_append, costEvents_flatMap, allocOnly_append]
  refine Bool.and_eq_true_iff.mpr ⟨rfl, ?_⟩
  exact allocOnly_flatMap _ _ (fun _ => rfl)

theorem cost_readTail_bytes (c : Nat → Nat) (p : Params) :
    allocBytes (costEvents c (readTail p)) =
      fixedBytesC c p.dims.length + c (prodNaxes p.dims * 4) + knotBytesC c p.dims := by
  simp only [readTail, costEvents_append, costEvents_flatMap, allocBytes_append, allocBytes_flatMap']
  simp [costEvents, allocBytes, fixedBytesC, knotBytesC]
  omega

theorem cost_read_run (c : Nat → Nat) (p : Params) (C : Nat) (hC : ∀ a ∈ p.aux, c a.vallen ≤ C) :
    liveAfter 0 (costEvents c (readEvents p)) = footprintC c p p.dims ∧
    peakFrom 0 (costEvents c (readEvents p)) ≤
      max (c (p.aux.length * 8) + auxBytesC c p.aux + C) (footprintC c p p.dims) ∧
    balanced 0 (costEvents c (readEvents p)) = true := by
  obtain ⟨s1, s2, s3⟩ := segments_run p.aux (fun a => costEvents c (auxSeg a))
    (fun a => c 16 + (c a.keylen + c a.storedlen)) C
    (fun a ha l => by
      obtain ⟨h1, h2, h3⟩ := cost_auxSeg_run c a l
      have := hC a ha
      exact ⟨h1, by omega, h3⟩) (c (p.aux.length * 8))
  obtain ⟨t1, t2, t3⟩ := allocOnly_run _ (cost_readTail_allocOnly c p) (c (p.aux.length * 8) + auxBytesC c p.aux)
  rw [cost_readTail_bytes] at t1 t2
  have e : (p.aux.map fun a => c 16 + (c a.keylen + c a.storedlen)).sum = auxBytesC c p.aux := rfl
  rw [e] at s1 s2
  have hev : costEvents c (readEvents p) =
      .alloc (c (p.aux.length * 8)) ::
        (p.aux.flatMap (fun a => costEvents c (auxSeg a)) ++ costEvents c (readTail p)) := by
    rw [readEvents_eq, costEvents_cons, costEvents_append, costEvents_flatMap]; rfl
  rw [hev]
  refine ⟨?_, ?_, ?_⟩
  · show liveAfter (0 + c (p.aux.length * 8)) _ = _
    rw [Nat.zero_add, liveAfter_append, s1, t2]; unfold footprintC; omega
  · show max 0 (peakFrom (0 + c (p.aux.length * 8)) _) ≤ _
    rw [Nat.zero_add, peakFrom_append, s1, t1]; unfold footprintC; omega
  · show balanced (0 + c (p.aux.length * 8)) _ = true
    rw [Nat.zero_add, balanced_append, s3, s1, t3]; rfl

/-! ## `convolve`, under a cost function -/

theorem cost_convFrees_freeOnly (c : Nat → Nat) (p : Params) : freeOnly (costEvents c (convFrees p)) = true := by
  rw [convFrees, costEvents_cons, costEvents_flatMap, freeOnly_append]
  refine Bool.and_eq_true_iff.mpr ⟨rfl, ?_⟩
  exact freeOnly_flatMap _ _ (fun _ => rfl)

theorem cost_convFrees_bytes (c : Nat → Nat) (p : Params) :
    freeBytes (costEvents c (convFrees p)) = c (prodNaxes p.dims * 4) + knotBytesC c p.dims := by
  rw [convFrees, costEvents_cons, costEvents_flatMap, freeBytes_append, freeBytes_flatMap']
  simp [costEvents, freeBytes, knotBytesC]

theorem cost_convAllocs_allocOnly (c : Nat → Nat) (p : Params) : allocOnly (costEvents c (convAllocs p)) = true := by
  rw [convAllocs, costEvents_cons, costEvents_flatMap, allocOnly_append]
  refine Bool.and_eq_true_iff.mpr ⟨rfl, ?_⟩
  exact allocOnly_flatMap _ _ (fun _ => rfl)

theorem cost_convAllocs_bytes (c : Nat → Nat) (p : Params) :
    allocBytes (costEvents c (convAllocs p)) = c (prodNaxes (convDims p) * 4) + knotBytesC c (convDims p) := by
  rw [convAllocs, costEvents_cons, costEvents_flatMap, allocBytes_append, allocBytes_flatMap']
  simp [costEvents, allocBytes, knotBytesC]

theorem convDims_length (p : Params) : (convDims p).length = p.dims.length := length_adjustAt _ _ _

/-- Load-then-convolve as an arena with cost function `c` sees it.  No assumption on `c` is needed: what is released
    is released with the size it was requested with. -/
theorem cost_read_convolve_run (c : Nat → Nat) (p : Params) (C : Nat) (hC : ∀ a ∈ p.aux, c a.vallen ≤ C) :
    balanced 0 (costEvents c (readEvents p ++ convolveEvents p)) = true ∧
    peak (costEvents c (readEvents p ++ convolveEvents p)) ≤
      max (c (p.aux.length * 8) + auxBytesC c p.aux + C) (max (footprintC c p p.dims) (footprintC c p (convDims p))) ∧
    liveAfter 0 (costEvents c (readEvents p ++ convolveEvents p)) = footprintC c p (convDims p) := by
  obtain ⟨r1, r2, r3⟩ := cost_read_run c p C hC
  have hle : freeBytes (costEvents c (convFrees p)) ≤ footprintC c p p.dims := by
    rw [cost_convFrees_bytes]; unfold footprintC; omega
  obtain ⟨f1, f2, f3⟩ := freeOnly_run _ (cost_convFrees_freeOnly c p) (footprintC c p p.dims) hle
  obtain ⟨a1, a2, a3⟩ := allocOnly_run _ (cost_convAllocs_allocOnly c p)
    (footprintC c p p.dims - freeBytes (costEvents c (convFrees p)))
  have hfin : footprintC c p p.dims - freeBytes (costEvents c (convFrees p)) + allocBytes (costEvents c (convAllocs p))
      = footprintC c p (convDims p) := by
    rw [cost_convFrees_bytes, cost_convAllocs_bytes]; unfold footprintC; rw [convDims_length]; omega
  rw [convolveEvents_eq, costEvents_append, costEvents_append]
  refine ⟨?_, ?_, ?_⟩
  · rw [balanced_append, balanced_append, r3, r1, f3, f2, a3]; rfl
  · unfold peak
    rw [peakFrom_append, peakFrom_append, r1, f1, f2, a1, hfin]; omega
  · rw [liveAfter_append, liveAfter_append, r1, f2, a2, hfin]

/-! ## exact peak (plain byte counting) -/

/-- Loading alone: when no raw card value is longer than what is requested after the cards (the per-dimension arrays,
    the coefficients, the knot vectors), the highest level is the footprint of the loaded table. -/
theorem read_peak_exact (p : Params)
    (hC : ∀ a ∈ p.aux, a.vallen ≤ 68 * p.dims.length + 4 * prodNaxes p.dims + knotBytes p.dims) :
    peakFrom 0 (readEvents p) = readBytes p := by
  obtain ⟨r1, r2, _⟩ := read_run p _ hC
  have := liveAfter_le_peakFrom 0 (readEvents p)
  rw [r1] at this
  unfold readBytes at *; omega

theorem read_convolve_peak_exact (p : Params)
    (hC : ∀ a ∈ p.aux, a.vallen ≤ 68 * p.dims.length + 4 * prodNaxes p.dims + knotBytes p.dims) :
    peak (readEvents p ++ convolveEvents p) = max (readBytes p) (convolvedBytes p) := by
  obtain ⟨r1, _, _⟩ := read_run p _ hC
  have hle : freeBytes (convFrees p) ≤ readBytes p := by
    rw [convFrees_bytes]; unfold readBytes; omega
  obtain ⟨f1, f2, _⟩ := freeOnly_run _ (convFrees_freeOnly p) (readBytes p) hle
  obtain ⟨a1, _, _⟩ := allocOnly_run _ (convAllocs_allocOnly p) (readBytes p - freeBytes (convFrees p))
  have hfin : readBytes p - freeBytes (convFrees p) + allocBytes (convAllocs p) = convolvedBytes p := by
    rw [convFrees_bytes, convAllocs_bytes]; unfold readBytes convolvedBytes; omega
  unfold peak
  rw [convolveEvents_eq, peakFrom_append, peakFrom_append, read_peak_exact p hC, r1, f1, f2, a1, hfin]; omega

/-- what the reader's validation implies for the shape (same statement as `C19_loadable_consistent`) -/
theorem loadable_dim (p : Params) (hl : loadable p = true) (d : Dim) (hd : d ∈ p.dims) :
    d.naxes + d.order + 1 = d.nknots ∧ 2 * d.order + 2 ≤ d.nknots := by
  have := List.all_eq_true.mp hl d hd
  simp [readerRejects] at this
  omega

/-- a loadable table with at least one dimension requests at least 84 bytes after its cards -/
theorem tail_ge (p : Params) (hl : loadable p = true) (hnd : 0 < p.dims.length) :
    84 ≤ 68 * p.dims.length + 4 * prodNaxes p.dims + knotBytes p.dims := by
  cases hds : p.dims with
  | nil => rw [hds] at hnd; simp at hnd
  | cons d ds =>
    have := (loadable_dim p hl d (by rw [hds]; exact List.mem_cons_self ..)).2
    simp only [knotBytes, List.map_cons, List.sum_cons, List.length_cons]; omega

theorem readBytes_le_convolvedBytes (p : Params) (hn : 1 ≤ p.n)
    (hcons : ∀ d, p.dims[p.cdim]? = some d → d.naxes + d.order + 1 = d.nknots) :
    readBytes p ≤ convolvedBytes p := by
  have hk : knotBytes p.dims ≤ knotBytes (convDims p) :=
    knotBytes_adjustAt_ge _ (convDim_knots_ge p.n hn) _ _
  have hc : prodNaxes p.dims ≤ prodNaxes (convDims p) :=
    prodNaxes_adjustAt_ge _ _ _ (fun d hd => convDim_naxes_ge p.n hn d (hcons d hd))
  unfold readBytes convolvedBytes; omega

/-! ## order of the auxiliary cards -/

theorem auxBytes_perm (as bs : List AuxEntry) (h : as.Perm bs) : auxBytes as = auxBytes bs :=
  (h.map _).sum_nat

/-! ## the destructor -/

/-- what `~splinetable` releases for a table of shape `cur` -/
def destroyFrees (p : Params) (cur : List Dim) : List Event :=
  cur.flatMap (fun d => [.free ((d.nknots + 2 * d.order) * 8)]) ++
  [.free (cur.length * 8), .free (cur.length * 8), .free (cur.length * 4), .free (2 * cur.length * 8),
   .free (cur.length * 8), .free (cur.length * 8), .free (prodNaxes cur * 4), .free (cur.length * 8),
   .free (cur.length * 8)] ++
  p.aux.flatMap (fun a => [.free a.keylen, .free a.storedlen, .free 16]) ++ [.free (p.aux.length * 8)]

/-- The generated call sites of the destructor, evaluated. -/
theorem destroyEvents_eq (p : Params) (cur : List Dim) : destroyEvents p cur = destroyFrees p cur := by
  simp [destroyEvents, destroyBlocks, interp, evalSites, evalSite, topEnv, destroyFrees]

theorem cost_destroyFrees_freeOnly (c : Nat → Nat) (p : Params) (cur : List Dim) :
    freeOnly (costEvents c (destroyFrees p cur)) = true := by
  simp only [destroyFrees, costEvents_append, costEvents_flatMap, freeOnly_append, Bool.and_eq_true]
  exact ⟨⟨⟨freeOnly_flatMap _ _ (fun _ => rfl), rfl⟩, freeOnly_flatMap _ _ (fun _ => rfl)⟩, rfl⟩

theorem cost_destroyFrees_bytes (c : Nat → Nat) (p : Params) (cur : List Dim) :
    freeBytes (costEvents c (destroyFrees p cur)) = footprintC c p cur := by
  simp only [destroyFrees, costEvents_append, costEvents_flatMap, freeBytes_append, freeBytes_flatMap']
  have e : (fun a : AuxEntry => c a.keylen + (c a.storedlen + c 16)) = fun a => c 16 + (c a.keylen + c a.storedlen) := by
    funext a; omega
  simp [costEvents, freeBytes, footprintC, fixedBytesC, knotBytesC, auxBytesC, e]
  omega

/-- Destroying a table of shape `cur` when exactly its footprint is live: nothing is over-released, the level only
    falls, and nothing remains. -/
theorem cost_destroy_run (c : Nat → Nat) (p : Params) (cur : List Dim) :
    peakFrom (footprintC c p cur) (costEvents c (destroyEvents p cur)) = footprintC c p cur ∧
    liveAfter (footprintC c p cur) (costEvents c (destroyEvents p cur)) = 0 ∧
    balanced (footprintC c p cur) (costEvents c (destroyEvents p cur)) = true := by
  rw [destroyEvents_eq]
  obtain ⟨h1, h2, h3⟩ := freeOnly_run _ (cost_destroyFrees_freeOnly c p cur) (footprintC c p cur)
    (by rw [cost_destroyFrees_bytes]; exact Nat.le_refl _)
  rw [cost_destroyFrees_bytes] at h2
  exact ⟨h1, by omega, h3⟩

end PsV.C19
