import PsV.Proofs.ConvSpec
import Mathlib.Algebra.Polynomial.Derivative
import Mathlib.Algebra.Polynomial.Roots
import Mathlib.Algebra.CharZero.Infinite
/-!
# The specification's integral is *the* integral

`pintegral p lo hi` (difference of the coefficient-list antiderivative) equals `Q(hi) − Q(lo)` for **every**
polynomial `Q` (Mathlib `Polynomial ℚ`) whose derivative evaluates like `p`; hence it depends only on the function
`peval p`, and it can be computed through any antiderivative one can write down.
-/
namespace PsV.ConvSpec
open Polynomial

/-- the coefficient list as a Mathlib polynomial -/
noncomputable def toPoly : Poly → ℚ[X]
  | [] => 0
  | a :: p => C a + X * toPoly p

theorem eval_toPoly : ∀ (p : Poly) (x : ℚ), (toPoly p).eval x = peval p x
  | [], x => by simp [toPoly, peval_nil]
  | a :: p, x => by simp [toPoly, peval_cons, eval_toPoly p x]

theorem deriv_antiFrom : ∀ (p : Poly) (i : Nat),
    derivative (X^(i+1) * toPoly (antiFrom i p)) = X^i * toPoly p
  | [], i => by simp [antiFrom, toPoly]
  | c :: p, i => by
    have ih := deriv_antiFrom p (i+1)
    have h : ((i : ℚ) + 1) ≠ 0 := by positivity
    have e : X^(i+1) * toPoly (antiFrom i (c :: p)) =
        C (c / ((i:ℚ)+1)) * X^(i+1) + X^(i+1+1) * toPoly (antiFrom (i+1) p) := by
      simp only [antiFrom, toPoly]; ring
    rw [e, derivative_add, ih, derivative_C_mul, derivative_X_pow]
    simp only [toPoly]
    have : C (c / ((i:ℚ)+1)) * (C ((i + 1 : ℕ) : ℚ) * X ^ (i + 1 - 1)) = C c * X^i := by
      rw [← mul_assoc, ← C_mul]
      congr 2
      push_cast
      field_simp
    rw [this]; ring

theorem deriv_pantideriv (p : Poly) : derivative (toPoly (pantideriv p)) = toPoly p := by
  have := deriv_antiFrom p 0
  simp only [zero_add, pow_one, pow_zero, one_mul] at this
  unfold pantideriv
  simp only [toPoly, map_zero, zero_add]
  exact this

/-- **fundamental theorem** for the specification's integral: any antiderivative will do -/
theorem pintegral_eq_of_deriv (p : Poly) (Q : ℚ[X]) (h : ∀ t, (derivative Q).eval t = peval p t) (lo hi : ℚ) :
    pintegral p lo hi = Q.eval hi - Q.eval lo := by
  have hd : derivative Q = toPoly p := by
    apply Polynomial.funext
    intro t
    rw [h t, eval_toPoly]
  have hz : derivative (Q - toPoly (pantideriv p)) = 0 := by
    rw [derivative_sub, hd, deriv_pantideriv, sub_self]
  have hc := Polynomial.derivative_eq_zero.mp hz
  obtain ⟨k, hk⟩ := (natDegree_eq_zero.mp hc)
  have e : ∀ t, Q.eval t - peval (pantideriv p) t = k := by
    intro t
    have := congrArg (eval t) hk
    simp only [eval_C, eval_sub, eval_toPoly] at this
    exact this.symm
  unfold pintegral
  have e1 := e hi
  have e2 := e lo
  linarith

/-- the integral depends only on the polynomial function -/
theorem pintegral_congr (p p' : Poly) (h : ∀ t, peval p t = peval p' t) (lo hi : ℚ) :
    pintegral p lo hi = pintegral p' lo hi := by
  rw [pintegral_eq_of_deriv p (toPoly (pantideriv p')) (fun t => by
    rw [deriv_pantideriv, eval_toPoly, h t]) lo hi]
  simp only [eval_toPoly]
  rfl

end PsV.ConvSpec
