import PsV.Proofs.ConvBeta1
import PsV.Proofs.ConvPoly
/-!
# Step 2 of the Beta identity: the antiderivatives of `(t - A)^p (B - t)^q'`

`betaPhi p q' A B` vanishes at `A`, `betaPsi p q' A B` vanishes at `B`; both have derivative `(t-A)^p (B-t)^q'`.
-/
namespace PsV
open Finset Polynomial

/-- antiderivative of `(X - A)^p (B - X)^q'` that vanishes at `A` (integration by parts, recursively) -/
noncomputable def betaPhi : Nat → Nat → ℚ → ℚ → ℚ[X]
  | p, 0, A, _ => C (1 / ((p:ℚ) + 1)) * (X - C A)^(p+1)
  | p, q'+1, A, B => C (1 / ((p:ℚ) + 1)) *
      ((X - C A)^(p+1) * (C B - X)^(q'+1) + C ((q':ℚ) + 1) * betaPhi (p+1) q' A B)

/-- antiderivative of `(X - A)^p (B - X)^q'` that vanishes at `B` -/
noncomputable def betaPsi : Nat → Nat → ℚ → ℚ → ℚ[X]
  | 0, q', _, B => C (-1 / ((q':ℚ) + 1)) * (C B - X)^(q'+1)
  | p+1, q', A, B => C (1 / ((q':ℚ) + 1)) *
      (-((X - C A)^(p+1) * (C B - X)^(q'+1)) + C ((p:ℚ) + 1) * betaPsi p (q'+1) A B)

theorem betaPhi_zero (p : Nat) (A B : ℚ) :
    betaPhi p 0 A B = C (1 / ((p:ℚ) + 1)) * (X - C A)^(p+1) := by
  rw [betaPhi]

theorem betaPhi_succ (p q' : Nat) (A B : ℚ) :
    betaPhi p (q'+1) A B = C (1 / ((p:ℚ) + 1)) *
      ((X - C A)^(p+1) * (C B - X)^(q'+1) + C ((q':ℚ) + 1) * betaPhi (p+1) q' A B) := by
  rw [betaPhi]

theorem betaPsi_zero (q' : Nat) (A B : ℚ) :
    betaPsi 0 q' A B = C (-1 / ((q':ℚ) + 1)) * (C B - X)^(q'+1) := by
  rw [betaPsi]

theorem betaPsi_succ (p q' : Nat) (A B : ℚ) :
    betaPsi (p+1) q' A B = C (1 / ((q':ℚ) + 1)) *
      (-((X - C A)^(p+1) * (C B - X)^(q'+1)) + C ((p:ℚ) + 1) * betaPsi p (q'+1) A B) := by
  rw [betaPsi]

/-- values (no derivative) -/
theorem betaPhi_eval_zero (p : Nat) (A B t : ℚ) :
    (betaPhi p 0 A B).eval t = (1 / ((p:ℚ) + 1)) * (t - A)^(p+1) := by
  rw [betaPhi_zero]
  simp only [eval_mul, eval_C, eval_pow, eval_sub, eval_X]

theorem betaPhi_eval_succ (p q' : Nat) (A B t : ℚ) :
    (betaPhi p (q'+1) A B).eval t = (1 / ((p:ℚ) + 1)) *
      ((t - A)^(p+1) * (B - t)^(q'+1) + ((q':ℚ) + 1) * (betaPhi (p+1) q' A B).eval t) := by
  rw [betaPhi_succ]
  simp only [eval_mul, eval_C, eval_pow, eval_sub, eval_X, eval_add]

theorem betaPsi_eval_zero (q' : Nat) (A B t : ℚ) :
    (betaPsi 0 q' A B).eval t = (-1 / ((q':ℚ) + 1)) * (B - t)^(q'+1) := by
  rw [betaPsi_zero]
  simp only [eval_mul, eval_C, eval_pow, eval_sub, eval_X]

theorem betaPsi_eval_succ (p q' : Nat) (A B t : ℚ) :
    (betaPsi (p+1) q' A B).eval t = (1 / ((q':ℚ) + 1)) *
      (-((t - A)^(p+1) * (B - t)^(q'+1)) + ((p:ℚ) + 1) * (betaPsi p (q'+1) A B).eval t) := by
  rw [betaPsi_succ]
  simp only [eval_mul, eval_C, eval_pow, eval_sub, eval_X, eval_add, eval_neg]

theorem betaPhi_deriv (p q' : Nat) (A B t : ℚ) :
    (derivative (betaPhi p q' A B)).eval t = (t - A)^p * (B - t)^q' := by
  induction q' generalizing p with
  | zero =>
    have h : ((p:ℚ) + 1) ≠ 0 := by positivity
    rw [betaPhi_zero]
    simp only [derivative_mul, derivative_C, derivative_pow, derivative_sub, derivative_X,
      eval_mul, eval_C, eval_pow, eval_sub, eval_X, eval_add, eval_zero, eval_one,
      Nat.add_sub_cancel]
    push_cast
    field_simp
    ring
  | succ q' ih =>
    have h : ((p:ℚ) + 1) ≠ 0 := by positivity
    rw [betaPhi_succ]
    simp only [derivative_mul, derivative_C, derivative_pow, derivative_sub, derivative_X, derivative_add,
      eval_mul, eval_C, eval_pow, eval_sub, eval_X, eval_add, eval_zero, eval_one,
      Nat.add_sub_cancel, ih]
    push_cast
    field_simp
    ring

theorem betaPsi_deriv (p q' : Nat) (A B t : ℚ) :
    (derivative (betaPsi p q' A B)).eval t = (t - A)^p * (B - t)^q' := by
  induction p generalizing q' with
  | zero =>
    have h : ((q':ℚ) + 1) ≠ 0 := by positivity
    rw [betaPsi_zero]
    simp only [derivative_mul, derivative_C, derivative_pow, derivative_sub, derivative_X,
      eval_mul, eval_C, eval_pow, eval_sub, eval_X, eval_add, eval_zero, eval_one,
      Nat.add_sub_cancel]
    push_cast
    field_simp
    ring
  | succ p ih =>
    have h : ((q':ℚ) + 1) ≠ 0 := by positivity
    rw [betaPsi_succ]
    simp only [derivative_mul, derivative_C, derivative_pow, derivative_sub, derivative_X, derivative_add,
      derivative_neg, eval_neg,
      eval_mul, eval_C, eval_pow, eval_sub, eval_X, eval_add, eval_zero, eval_one,
      Nat.add_sub_cancel, ih]
    push_cast
    field_simp
    ring

/-- (2a) -/
theorem betaPhi_eval_left (p q' : Nat) (A B : ℚ) : (betaPhi p q' A B).eval A = 0 := by
  induction q' generalizing p with
  | zero => rw [betaPhi_eval_zero]; simp
  | succ q' ih => rw [betaPhi_eval_succ, ih]; simp

theorem betaPsi_eval_right (p q' : Nat) (A B : ℚ) : (betaPsi p q' A B).eval B = 0 := by
  induction p generalizing q' with
  | zero => rw [betaPsi_eval_zero]; simp
  | succ p ih => rw [betaPsi_eval_succ, ih]; simp

/-- (2b) the Beta constant -/
theorem betaPhi_eval_right (p q' : Nat) (A B : ℚ) :
    (betaPhi p q' A B).eval B =
      ((p.factorial : ℚ) * q'.factorial / (p + q' + 1).factorial) * (B - A)^(p + q' + 1) := by
  induction q' generalizing p with
  | zero =>
    have h : ((p:ℚ) + 1) ≠ 0 := by positivity
    have hf : (p.factorial : ℚ) ≠ 0 := by positivity
    rw [betaPhi_eval_zero]
    simp only [Nat.add_zero, Nat.factorial_zero, Nat.cast_one, mul_one, Nat.factorial_succ]
    push_cast
    field_simp
  | succ q' ih =>
    have h : ((p:ℚ) + 1) ≠ 0 := by positivity
    have hf : (p.factorial : ℚ) ≠ 0 := by positivity
    have hf2 : (((p + q' + 2).factorial : ℕ) : ℚ) ≠ 0 := by positivity
    rw [betaPhi_eval_succ, ih]
    have e1 : p + 1 + q' + 1 = p + q' + 2 := by omega
    have e2 : p + (q' + 1) + 1 = p + q' + 2 := by omega
    rw [e1, e2]
    simp only [sub_self, ne_eq, Nat.add_eq_zero_iff, one_ne_zero, and_false, not_false_eq_true, zero_pow,
      mul_zero, zero_add]
    rw [Nat.factorial_succ p, Nat.factorial_succ q']
    push_cast
    field_simp

/-- two antiderivatives differ by a constant -/
theorem eval_sub_eq_of_deriv (P Q : ℚ[X]) (h : ∀ t, (derivative P).eval t = (derivative Q).eval t) (a b : ℚ) :
    P.eval b - P.eval a = Q.eval b - Q.eval a := by
  have hz : derivative (P - Q) = 0 := by
    rw [derivative_sub]
    apply Polynomial.funext
    intro t
    rw [eval_sub, h t, sub_self, eval_zero]
  have hc := Polynomial.derivative_eq_zero.mp hz
  obtain ⟨k, hk⟩ := (natDegree_eq_zero.mp hc)
  have e : ∀ t, P.eval t - Q.eval t = k := by
    intro t
    have := congrArg (eval t) hk
    simp only [eval_C, eval_sub] at this
    exact this.symm
  have e1 := e a
  have e2 := e b
  linarith

theorem betaPhi_sub_eq_psi (p q' : Nat) (A B D : ℚ) :
    (betaPhi p q' A B).eval B - (betaPhi p q' A B).eval D = - (betaPsi p q' A B).eval D := by
  rw [eval_sub_eq_of_deriv (betaPhi p q' A B) (betaPsi p q' A B)
    (fun t => by rw [betaPhi_deriv, betaPsi_deriv]) D B, betaPsi_eval_right]
  ring

/-- (2c) as a function of `B = y r`, the value at a fixed point has low degree -/
theorem dd_betaPhi_right (y : Nat → ℚ) (A Cc : ℚ) : ∀ (q' p n o : Nat), q' + 2 ≤ n → DistinctOn y o n →
    divdiff y (fun r => (betaPhi p q' A (y r)).eval Cc) n o = 0
  | 0, p, n, o, hn, _ => by
    obtain ⟨k, rfl⟩ : ∃ k, n = k + 2 := ⟨n - 2, by omega⟩
    simp only [betaPhi_eval_zero]
    exact dd_const y _ k o
  | q'+1, p, n, o, hn, hd => by
    have e : (fun r => (betaPhi p (q'+1) A (y r)).eval Cc) =
        fun r => ((1 / ((p:ℚ) + 1)) * (Cc - A)^(p+1)) * linProd (fun _ => Cc) (q'+1) (y r)
          + ((1 / ((p:ℚ) + 1)) * ((q':ℚ) + 1)) * (betaPhi (p+1) q' A (y r)).eval Cc := by
      funext r
      rw [betaPhi_eval_succ]
      simp only [linProd, Finset.prod_const, Finset.card_range]
      ring
    rw [e, dd_add, dd_smul, dd_smul, dd_linProd_zero y _ (q'+1) n o hd (by omega),
      dd_betaPhi_right y A Cc q' (p+1) n o (by omega) hd]
    ring

/-- (2d) as a function of `A = x - τ m`, the value of `betaPsi` at `x - τ 0` has low degree -/
theorem dd_betaPsi_left (τ : Nat → ℚ) (x B : ℚ) : ∀ (p q' n o : Nat), p + 2 ≤ n → DistinctOn τ o n →
    divdiff τ (fun m => (betaPsi p q' (x - τ m) B).eval (x - τ 0)) n o = 0
  | 0, q', n, o, hn, _ => by
    obtain ⟨k, rfl⟩ : ∃ k, n = k + 2 := ⟨n - 2, by omega⟩
    simp only [betaPsi_eval_zero]
    exact dd_const τ _ k o
  | p+1, q', n, o, hn, hd => by
    have e : (fun m => (betaPsi (p+1) q' (x - τ m) B).eval (x - τ 0)) =
        fun m => (-(1 / ((q':ℚ) + 1)) * (B - (x - τ 0))^(q'+1)) * linProd (fun _ => τ 0) (p+1) (τ m)
          + ((1 / ((q':ℚ) + 1)) * ((p:ℚ) + 1)) * (betaPsi p (q'+1) (x - τ m) B).eval (x - τ 0) := by
      funext m
      rw [betaPsi_eval_succ]
      simp only [linProd, Finset.prod_const, Finset.card_range]
      ring
    rw [e, dd_add, dd_smul, dd_smul, dd_linProd_zero τ _ (p+1) n o hd (by omega),
      dd_betaPsi_left τ x B p (q'+1) n o (by omega) hd]
    ring

end PsV
