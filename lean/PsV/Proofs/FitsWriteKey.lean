import PsV.Proofs.AuxFits
import PsV.Proofs.FitsAccepted
/-!
# `WriteKeyOK` is what the model of `splinetable::write_key` accepts (link to C16)

`PsV.Aux.validate` (PsV/Model/AuxKeys.lean) is the statement-by-statement model of the tests of `write_key`; its
constants are regenerated from the source (`PsV.Gen.C16`) and it is run against the real `write_key` by the C16 check.
Every short key / value pair it accepts satisfies `WriteKeyOK`, the hypothesis on auxiliary entries of C06's
`Accepted`.  (If the source loses one of the tests the constants change and this file stops compiling.)
-/
namespace PsV.Fits.Codec
open PsV.Fits

theorem reserved_eq_aux (key : Str) : Fits.reserved key = Aux.reserved key := by
  have ht : Fits.reservedPrefixes.map String.toList = Gen.C16.reservedPrefixes.map (·.1) := by decide
  cases h : Aux.reserved key with
  | true =>
    obtain ⟨p, hp, hpre⟩ := (Aux.reserved_iff_prefix key).mp h
    have hm : p.1 ∈ Fits.reservedPrefixes.map String.toList := by rw [ht]; exact List.mem_map_of_mem hp
    obtain ⟨s, hs, hsp⟩ := List.mem_map.mp hm
    unfold Fits.reserved
    rw [List.any_eq_true]
    exact ⟨s, hs, by rw [hsp]; exact List.isPrefixOf_iff_prefix.mpr hpre⟩
  | false =>
    cases h' : Fits.reserved key with
    | false => rfl
    | true =>
      unfold Fits.reserved at h'
      rw [List.any_eq_true] at h'
      obtain ⟨s, hs, hpre⟩ := h'
      have hm : s.toList ∈ Gen.C16.reservedPrefixes.map (·.1) := by rw [← ht]; exact List.mem_map_of_mem hs
      obtain ⟨p, hp, hps⟩ := List.mem_map.mp hm
      have : Aux.reserved key = true :=
        (Aux.reserved_iff_prefix key).mpr ⟨p, hp, by rw [hps]; exact List.isPrefixOf_iff_prefix.mp hpre⟩
      rw [h] at this; cases this

theorem not_writeReserved_exact {key : Str} (h : Aux.writeReserved key = false) (lit : Str)
    (hl : lit ∈ Gen.C16.writeReservedExact) : key ≠ lit := by
  intro e
  subst e
  unfold Aux.writeReserved at h
  rw [Bool.or_eq_false_iff] at h
  have := h.2
  rw [List.any_eq_false] at this
  exact this key hl (by simp)

/-- what the model of `write_key` accepts for a standard keyword satisfies `WriteKeyOK` -/
theorem writeKeyOK_of_validate (key val : Str) (hv : Aux.validate key val = none) (h8 : key.length ≤ 8) :
    WriteKeyOK key val := by
  unfold Aux.validate at hv
  split at hv
  · cases hv
  · rename_i hres
    split at hv
    · cases hv
    · rename_i hedge
      split at hv
      · cases hv
      · rename_i hwr
        have hshort : key.length + 1 ≤ Gen.C16.shortKeylenMax := by
          show key.length + 1 ≤ 9; omega
        simp only [hshort, if_true] at hv
        have hres' : Fits.reserved key = false := by
          rw [reserved_eq_aux]; exact Bool.eq_false_iff.mpr hres
        have hedge' : Aux.edgeBlank key = false := by
          have : Gen.C16.edgeBlankCheck = true := rfl
          rw [this, Bool.true_and] at hedge
          exact Bool.eq_false_iff.mpr hedge
        have hne : key ≠ [] := by
          intro e; subst e; revert hedge'; decide
        have hwr' : Aux.writeReserved key = false := Bool.eq_false_iff.mpr hwr
        by_cases hbad : key.any Aux.badShortChar = true
        · simp only [hbad, if_true] at hv; cases hv
        · have hbad' : key.any Aux.badShortChar = false := Bool.eq_false_iff.mpr hbad
          simp only [hbad', Bool.false_eq_true, if_false] at hv
          have hmax : Gen.C16.shortMaxData = 68 := rfl
          have hrange : Gen.C16.valueCharRange = some (32, 126) := rfl
          rw [hmax, hrange] at hv
          split at hv
          · cases hv
          · rename_i hprint
            split at hv
            · cases hv
            · rename_i hlen
              refine ⟨hne, h8, ?_, hres', not_writeReserved_exact hwr' _ (by decide),
                not_writeReserved_exact hwr' _ (by decide), not_writeReserved_exact hwr' _ (by decide), ?_, ?_⟩
              · intro c hc
                have hb : Aux.badShortChar c = false := by
                  have := Bool.eq_false_iff.mpr hbad
                  rw [List.any_eq_false] at this
                  exact Bool.eq_false_iff.mpr (this c hc)
                unfold Aux.badShortChar at hb
                simp only [Bool.or_eq_false_iff, Bool.not_eq_false'] at hb
                exact hb.1.1
              · intro c hc
                have := Bool.eq_false_iff.mpr hprint
                rw [List.any_eq_false] at this
                have hc' := this c hc
                simp only [Aux.outOfRange, Bool.or_eq_true, decide_eq_true_eq, not_or] at hc'
                omega
              · show val.length + val.count '\'' ≤ 68
                have : Aux.countQuotes val = val.count '\'' := rfl
                rw [this] at hlen
                omega

/-- satisfiable, with apostrophes -/
example : Aux.validate "REMARK".toList "it's ''".toList = none ∧ "REMARK".toList.length ≤ 8 := by decide

end PsV.Fits.Codec
