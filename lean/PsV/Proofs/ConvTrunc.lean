import PsV.Proofs.ConvDivDiff
import PsV.Proofs.ConvSpec
/-!
# The Cox–de Boor pieces are divided differences of truncated powers

`bpiece τ a n j` (the polynomial that `B_{j,n}(· | τ)` is on the knot interval `[τ_a, τ_{a+1})`, built by the
specification through the Cox–de Boor recursion on coefficient lists) evaluates to
`(τ_{j+n+1} − τ_j) · [τ_j, …, τ_{j+n+1}] (· − s)_+^n`, the truncated power taken piecewise:
on interval `a` the node `τ_m` contributes `(τ_m − s)^n` exactly when `m > a`.
-/
namespace PsV
open ConvSpec

/-- the piece on knot interval `a` of `m ↦ (τ_m − s)_+^n` -/
def truncPiece (τ : Nat → Rat) (a : Nat) (s : Rat) (n : Nat) (m : Nat) : Rat :=
  if a < m then (τ m - s)^n else 0

theorem truncPiece_succ (τ : Nat → Rat) (a : Nat) (s : Rat) (n m : Nat) :
    truncPiece τ a s (n+1) m = (τ m - s) * truncPiece τ a s n m := by
  unfold truncPiece
  split <;> ring

theorem bpiece_eq_dd (τ : Nat → Rat) (a : Nat) (s : Rat) : ∀ (n j : Nat), DistinctOn τ j (n+2) →
    peval (bpiece τ a n j) s = (τ (j+n+1) - τ j) * divdiff τ (truncPiece τ a s n) (n+2) j
  | 0, j, hd => by
    have hne : τ (j+1) - τ j ≠ 0 := sub_ne_zero.mpr (Ne.symm (hd j (j+1) (le_refl _) (by omega) (by omega)))
    rw [dd_succ, dd_one, dd_one]
    simp only [bpiece, truncPiece, pow_zero, Nat.add_zero]
    rw [mul_div_cancel₀ _ hne]
    by_cases h1 : j = a
    · subst h1; simp [peval_cons, peval_nil]
    · by_cases h2 : a < j
      · have h3 : a < j + 1 := by omega
        simp [h1, h2, h3, peval_nil]
      · have h3 : ¬ a < j + 1 := by omega
        simp [h1, h2, h3, peval_nil]
  | n+1, j, hd => by
    have ih0 := bpiece_eq_dd τ a s n j (hd.mono (le_refl _) (by omega))
    have ih1 := bpiece_eq_dd τ a s n (j+1) (hd.mono (by omega) (by omega))
    have hne : τ (j+n+2) - τ j ≠ 0 := sub_ne_zero.mpr (Ne.symm (hd j (j+n+2) (le_refl _) (by omega) (by omega)))
    have hl : τ (j+n+1) - τ j ≠ 0 := sub_ne_zero.mpr (Ne.symm (hd j (j+n+1) (le_refl _) (by omega) (by omega)))
    have hr : τ (j+n+2) - τ (j+1) ≠ 0 := sub_ne_zero.mpr (Ne.symm (hd (j+1) (j+n+2) (by omega) (by omega) (by omega)))
    have e1 : j + 1 + n + 1 = j + n + 2 := by omega
    rw [e1] at ih1
    unfold bpiece
    simp only [peval_padd, peval_pmulLin, ih0, ih1]
    rw [show truncPiece τ a s (n+1) = fun m => (τ m - s) * truncPiece τ a s n m from
      funext fun m => truncPiece_succ τ a s n m]
    have e2 : j + (n + 1) + 1 = j + n + 2 := by omega
    rw [e2, dd_leibniz_lin τ _ s (n+2) j hd, dd_succ τ _ (n+1) j]
    have e3 : j + (n + 2) = j + n + 2 := by omega
    have e4 : j + (n + 1) + 1 = j + n + 2 := by omega
    rw [e3, e4]
    field_simp
    ring

end PsV
