import PsV.Proofs.Glam1d
import PsV.Proofs.GlamNdDefs
/-!
# C09, n dimensions: the reshape of `F` / `R` into the normal matrix and the right-hand side

* `glamRowMajor` is a bijection between the valid index tuples of `ns` and `[0, natProd ns)`; with C-ordered strides
  it is the coefficient position `posL`, and `comps` is its inverse,
* `flatten_ndarray_to_sparse(R, N, 1)` puts the tensor value at `idx` into row `glamRowMajor ns idx`,
* "double the dimensionality", "even axes first", `flatten_ndarray_to_sparse(F, N, N)` puts the value of the boxed
  tensor at `[ia_d·n_d + ib_d]` into entry `(glamRowMajor ns ia, glamRowMajor ns ib)`.
-/
set_option linter.unusedSectionVars false
set_option linter.unusedSimpArgs false
set_option linter.unusedVariables false
namespace PsV
open Arith Finset

section
variable {α : Type} [Field α] [LinearOrder α] [IsStrictOrderedRing α] [A : Arith α] [L : LawfulArith α]

/-! ## row-major numbers -/

theorem ndFlat_natProd_append (ns ms : List Nat) : natProd (ns ++ ms) = natProd ns * natProd ms := by
  induction ns with
  | nil => simp [natProd]
  | cons n ns ih => simp [natProd, ih, Nat.mul_assoc]

theorem ndFlat_mul_add_inj {P i i' r r' : Nat} (hr : r < P) (hr' : r' < P)
    (h : i * P + r = i' * P + r') : i = i' ∧ r = r' := by
  have hP : 0 < P := by omega
  have h1 : (i * P + r) / P = i := by
    rw [Nat.mul_comm, Nat.mul_add_div hP, Nat.div_eq_of_lt hr, Nat.add_zero]
  have h2 : (i' * P + r') / P = i' := by
    rw [Nat.mul_comm, Nat.mul_add_div hP, Nat.div_eq_of_lt hr', Nat.add_zero]
  have hi : i = i' := by rw [← h1, ← h2, h]
  subst hi
  exact ⟨rfl, Nat.add_left_cancel h⟩

theorem glamRowMajor_lt (ns idx : List Nat) (h : IdxIn idx ns) : glamRowMajor ns idx < natProd ns := by
  induction ns generalizing idx with
  | nil =>
    rw [idxIn_nil_right] at h
    subst h
    simp [glamRowMajor, natProd]
  | cons n ns ih =>
    cases idx with
    | nil => exact absurd h.1 (by simp)
    | cons i is =>
      rw [idxIn_cons] at h
      simp only [glamRowMajor, natProd]
      exact tab2_index_lt h.1 (ih is h.2)

theorem glamRowMajor_inj (ns idx idx' : List Nat) (h : IdxIn idx ns) (h' : IdxIn idx' ns)
    (he : glamRowMajor ns idx = glamRowMajor ns idx') : idx = idx' := by
  induction ns generalizing idx idx' with
  | nil =>
    rw [idxIn_nil_right] at h h'
    rw [h, h']
  | cons n ns ih =>
    cases idx with
    | nil => exact absurd h.1 (by simp)
    | cons i is =>
      cases idx' with
      | nil => exact absurd h'.1 (by simp)
      | cons i' is' =>
        rw [idxIn_cons] at h h'
        simp only [glamRowMajor] at he
        obtain ⟨e1, e2⟩ := ndFlat_mul_add_inj (glamRowMajor_lt ns is h.2) (glamRowMajor_lt ns is' h'.2) he
        rw [e1, ih is is' h.2 h'.2 e2]

theorem glamRowMajor_append (ns ms as bs : List Nat) (h : as.length = ns.length) :
    glamRowMajor (ns ++ ms) (as ++ bs) = glamRowMajor ns as * natProd ms + glamRowMajor ms bs := by
  induction ns generalizing as with
  | nil =>
    have : as = [] := List.length_eq_zero_iff.mp (by simpa using h)
    subst this
    simp [glamRowMajor]
  | cons n ns ih =>
    cases as with
    | nil => simp at h
    | cons a as =>
      simp only [List.cons_append, glamRowMajor, ndFlat_natProd_append, ih as (by simpa using h)]
      ring

/-! ## C-ordered strides -/

theorem ndFlat_stride_eq_natProd (d : Dim α) (ds : List (Dim α)) (hs : StridesRowMajor (d :: ds)) :
    d.stride = natProd (ds.map (·.naxes)) := by
  induction ds generalizing d with
  | nil => exact hs
  | cons d' ds ih =>
    obtain ⟨h1, h2⟩ := hs
    rw [h1, ih d' h2]
    simp [natProd, Nat.mul_comm]

theorem ndFlat_strides_tail (d : Dim α) (ds : List (Dim α)) (hs : StridesRowMajor (d :: ds)) :
    StridesRowMajor ds := by
  cases ds with
  | nil => trivial
  | cons d' ds' => exact hs.2

/-- with C-ordered strides the coefficient position is the row-major number of the index tuple -/
theorem posL_eq_glamRowMajor (dims : List (Dim α)) (hs : StridesRowMajor dims) (idx : List Nat)
    (hlen : idx.length = dims.length) : posL dims idx = glamRowMajor (dims.map (·.naxes)) idx := by
  induction dims generalizing idx with
  | nil => cases idx <;> simp [posL, glamRowMajor]
  | cons d ds ih =>
    cases idx with
    | nil => simp [posL, glamRowMajor]
    | cons j js =>
      have hst := ndFlat_stride_eq_natProd d ds hs
      have hs' := ndFlat_strides_tail d ds hs
      simp only [posL, List.map_cons, glamRowMajor, hst]
      rw [ih hs' js (by simpa using hlen)]

theorem ndFlat_tableSize_eq_natProd (dims : List (Dim α)) (hs : StridesRowMajor dims) (hne : dims ≠ []) :
    tableSize dims = natProd (dims.map (·.naxes)) := by
  cases dims with
  | nil => exact absurd rfl hne
  | cons d ds => simp only [tableSize, List.map_cons, natProd, ndFlat_stride_eq_natProd d ds hs]

theorem ndFlat_comps_cons (d : Dim α) (ds : List (Dim α)) (i : Nat) :
    comps (d :: ds) i = (i / d.stride) % d.naxes :: comps ds i := rfl

theorem ndFlat_comps_eq_decode (dims : List (Dim α)) (hs : StridesRowMajor dims) (hne : dims ≠ []) (i : Nat) :
    comps dims i = decodeStrides (dims.map (·.stride)) (i % tableSize dims) := by
  induction dims with
  | nil => exact absurd rfl hne
  | cons d ds ih =>
    cases ds with
    | nil =>
      have hs1 : d.stride = 1 := hs
      simp [comps, decodeStrides, tableSize, hs1]
    | cons d' ds' =>
      obtain ⟨hs1, hs2⟩ := hs
      have ih' := ih hs2 (by simp)
      have hts : tableSize (d' :: ds') = d.stride := by
        simp only [tableSize]; rw [hs1, Nat.mul_comm]
      rw [hts] at ih'
      generalize d' :: ds' = dd at ih' ⊢
      rw [ndFlat_comps_cons, ih']
      simp only [List.map_cons, decodeStrides, tableSize]
      rw [Nat.mul_comm d.naxes d.stride, Nat.mod_mul_right_div_self, Nat.mod_mul_right_mod]

/-- the index tuple of position `i` is valid and has row-major number `i` -/
theorem comps_spec (dims : List (Dim α)) (hs : StridesRowMajor dims) (hne : dims ≠ []) (i : Nat)
    (hi : i < natProd (dims.map (·.naxes))) :
    IdxIn (comps dims i) (dims.map (·.naxes)) ∧ glamRowMajor (dims.map (·.naxes)) (comps dims i) = i := by
  have hts := ndFlat_tableSize_eq_natProd dims hs hne
  have hi' : i < tableSize dims := by rw [hts]; exact hi
  have hc := ndFlat_comps_eq_decode dims hs hne i
  rw [Nat.mod_eq_of_lt hi'] at hc
  obtain ⟨h1, h2⟩ := pos_decode dims hs hne i hi'
  rw [hc]
  refine ⟨h1, ?_⟩
  rw [← posL_eq_glamRowMajor dims hs _ (by rw [h1.1]; simp), h2]

/-! ## the right-hand side -/

/-- `flatten_ndarray_to_sparse(R, N, 1)`: row (row-major number of idx) holds the tensor value at idx -/
theorem flattenNd_R_get (R : NdSparse α) (ns : List Nat) (hr : R.ranges = ns) (hwf : R.WF)
    (idx : List Nat) (hidx : IdxIn idx ns) :
    (flattenNd R (natProd ns) 1).get (glamRowMajor ns idx) 0 = R.get idx := by
  have hi := glamRowMajor_lt ns idx hidx
  unfold flattenNd
  rw [tab2_get_mk _ _ _ _ _ hi (by omega), get_eq_entSum]
  have key := accumulate_pos_get R.entries
    (fun q => (glamRowMajor R.ranges q / 1) * 1 + glamRowMajor R.ranges q % 1) (natProd ns * 1)
    (glamRowMajor ns idx * 1 + 0) (by omega) idx (by
      intro e he
      have hv := hwf e he
      rw [hr] at hv
      rw [hr]
      simp only [Nat.div_one, Nat.mul_one, Nat.mod_one, Nat.add_zero]
      constructor
      · intro h; exact glamRowMajor_inj ns e.1 idx hv hidx h
      · intro h; rw [h])
  exact key

/-! ## even axes first -/

theorem ndFlat_zipIdx_even {β γ : Type} (f g : γ → β) (l : List γ) (m : Nat) :
    (((l.flatMap fun x => [f x, g x]).zipIdx (2 * m)).filter fun p => p.2 % 2 == 0).map (·.1) = l.map f := by
  induction l generalizing m with
  | nil => simp
  | cons x xs ih =>
    have h0 : (2 * m) % 2 = 0 := by omega
    have h1 : (2 * m + 1) % 2 = 1 := by omega
    have h2 : 2 * m + 1 + 1 = 2 * (m + 1) := by omega
    simp only [List.flatMap_cons, List.cons_append, List.nil_append, List.zipIdx_cons, List.filter_cons,
      h0, h1, h2, beq_self_eq_true, if_true, List.map_cons]
    simp [ih (m + 1)]

theorem ndFlat_zipIdx_odd {β γ : Type} (f g : γ → β) (l : List γ) (m : Nat) :
    (((l.flatMap fun x => [f x, g x]).zipIdx (2 * m)).filter fun p => p.2 % 2 == 1).map (·.1) = l.map g := by
  induction l generalizing m with
  | nil => simp
  | cons x xs ih =>
    have h0 : (2 * m) % 2 = 0 := by omega
    have h1 : (2 * m + 1) % 2 = 1 := by omega
    have h2 : 2 * m + 1 + 1 = 2 * (m + 1) := by omega
    simp only [List.flatMap_cons, List.cons_append, List.nil_append, List.zipIdx_cons, List.filter_cons,
      h0, h1, h2, beq_self_eq_true, if_true, List.map_cons]
    simp [ih (m + 1)]

/-- moving the even positions first un-interleaves a list of pairs -/
theorem evensFirst_flatMap_pair {β γ : Type} (f g : γ → β) (l : List γ) :
    evensFirst (l.flatMap fun x => [f x, g x]) = l.map f ++ l.map g := by
  unfold evensFirst
  have h0 := ndFlat_zipIdx_even f g l 0
  have h1 := ndFlat_zipIdx_odd f g l 0
  simp only [Nat.mul_zero] at h0 h1
  simp only [h0, h1]

theorem evensFirst_dup (ns : List Nat) : evensFirst (ns.flatMap fun n => [n, n]) = ns ++ ns := by
  have := evensFirst_flatMap_pair (fun n : Nat => n) (fun n : Nat => n) ns
  simpa using this

theorem evensFirst_doubleDims (ns q : List Nat) :
    evensFirst (doubleDims ns q)
      = ((q.zip ns).map fun qn => qn.1 / qn.2) ++ ((q.zip ns).map fun qn => qn.1 % qn.2) := by
  unfold doubleDims
  exact evensFirst_flatMap_pair (fun qn : Nat × Nat => qn.1 / qn.2) (fun qn : Nat × Nat => qn.1 % qn.2) (q.zip ns)

/-! ## quotient / remainder tuples of a boxed index -/

theorem ndFlat_divs_mods (ns q : List Nat) (h : IdxIn q (ns.map fun n => n * n)) :
    IdxIn ((q.zip ns).map fun qn => qn.1 / qn.2) ns ∧ IdxIn ((q.zip ns).map fun qn => qn.1 % qn.2) ns ∧
      pairIdx ns ((q.zip ns).map fun qn => qn.1 / qn.2) ((q.zip ns).map fun qn => qn.1 % qn.2) = q := by
  induction ns generalizing q with
  | nil =>
    rw [List.map_nil, idxIn_nil_right] at h
    subst h
    simp [pairIdx, idxIn_nil_right]
  | cons n ns ih =>
    cases q with
    | nil => exact absurd h.1 (by simp)
    | cons a q =>
      rw [List.map_cons, idxIn_cons] at h
      obtain ⟨h1, h2, h3⟩ := ih q h.2
      have hn : 0 < n := by
        rcases Nat.eq_zero_or_pos n with h0 | h0
        · have := h.1; rw [h0] at this; simp at this
        · exact h0
      simp only [List.zip_cons_cons, List.map_cons, idxIn_cons, pairIdx]
      refine ⟨⟨(Nat.div_lt_iff_lt_mul hn).mpr h.1, h1⟩, ⟨Nat.mod_lt _ hn, h2⟩, ?_⟩
      rw [h3, Nat.div_add_mod']

theorem ndFlat_pairIdx_divs_mods (ns ia ib : List Nat) (ha : IdxIn ia ns) (hb : IdxIn ib ns) :
    ((pairIdx ns ia ib).zip ns).map (fun qn => qn.1 / qn.2) = ia ∧
      ((pairIdx ns ia ib).zip ns).map (fun qn => qn.1 % qn.2) = ib := by
  induction ns generalizing ia ib with
  | nil =>
    rw [idxIn_nil_right] at ha hb
    subst ha; subst hb
    simp [pairIdx]
  | cons n ns ih =>
    cases ia with
    | nil => exact absurd ha.1 (by simp)
    | cons a ia =>
      cases ib with
      | nil => exact absurd hb.1 (by simp)
      | cons b ib =>
        rw [idxIn_cons] at ha hb
        obtain ⟨h1, h2⟩ := ih ia ib ha.2 hb.2
        have hn : 0 < n := by omega
        have hdiv : (a * n + b) / n = a := by
          rw [Nat.mul_comm, Nat.mul_add_div hn, Nat.div_eq_of_lt hb.1, Nat.add_zero]
        have hmod : (a * n + b) % n = b := by
          rw [Nat.mul_comm, Nat.mul_add_mod, Nat.mod_eq_of_lt hb.1]
        simp only [pairIdx, List.zip_cons_cons, List.map_cons, hdiv, hmod, h1, h2, and_self]

/-! ## the normal matrix -/

/-- doubling the dimensions of F, moving the even axes first and flattening to N×N: entry
(row-major number of ia, row-major number of ib) holds the value of the boxed tensor at [ia_d·n_d + ib_d] -/
theorem flattenNd_F_get_nd (F : NdSparse α) (ns : List Nat) (hr : F.ranges = ns.map (fun n => n * n)) (hwf : F.WF)
    (ia ib : List Nat) (ha : IdxIn ia ns) (hb : IdxIn ib ns) :
    (flattenNd ⟨evensFirst (ns.flatMap fun n => [n, n]),
        F.entries.map fun e => (evensFirst (doubleDims ns e.1), e.2)⟩ (natProd ns) (natProd ns)).get
        (glamRowMajor ns ia) (glamRowMajor ns ib)
      = F.get (pairIdx ns ia ib) := by
  have hA := glamRowMajor_lt ns ia ha
  have hB := glamRowMajor_lt ns ib hb
  unfold flattenNd
  rw [tab2_get_mk _ _ _ _ _ hA hB, get_eq_entSum]
  simp only [List.map_map]
  have key := accumulate_pos_get F.entries
    (fun idx => (glamRowMajor (evensFirst (ns.flatMap fun n => [n, n])) (evensFirst (doubleDims ns idx)) / natProd ns)
        * natProd ns
      + glamRowMajor (evensFirst (ns.flatMap fun n => [n, n])) (evensFirst (doubleDims ns idx)) % natProd ns)
    (natProd ns * natProd ns) (glamRowMajor ns ia * natProd ns + glamRowMajor ns ib) (tab2_index_lt hA hB)
    (pairIdx ns ia ib) (by
      intro e he
      have hv := hwf e he
      rw [hr] at hv
      obtain ⟨h1, h2, h3⟩ := ndFlat_divs_mods ns e.1 hv
      obtain ⟨p1, p2⟩ := ndFlat_pairIdx_divs_mods ns ia ib ha hb
      rw [Nat.div_add_mod', evensFirst_dup, evensFirst_doubleDims,
        glamRowMajor_append ns ns _ _ h1.1]
      constructor
      · intro h
        obtain ⟨e1, e2⟩ := ndFlat_mul_add_inj (glamRowMajor_lt ns _ h2) hB h
        have q1 := glamRowMajor_inj ns _ ia h1 ha e1
        have q2 := glamRowMajor_inj ns _ ib h2 hb e2
        rw [← h3, q1, q2]
      · intro h
        rw [h, p1, p2])
  exact key

end
end PsV
