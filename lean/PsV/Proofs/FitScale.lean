import PsV.Proofs.FitQuad
/-!
# C09: scaling all weights and all smoothing strengths by a common factor

`scaleProblem s P` multiplies every weight and every smoothing strength by `s`.  The objective, the normal matrix and
the right-hand side are then multiplied by `s`; for `s > 0` the minimisers, the solutions of the normal equations and
positive definiteness are unchanged.
-/
namespace PsV
open Arith NormalEq Finset
set_option linter.unusedSectionVars false
section
variable {α : Type} [Field α] [LinearOrder α] [IsStrictOrderedRing α] [A : Arith α] [L : LawfulArith α]

/-- the problem with weights `s·w_r` and smoothing strengths `s·λ_d` -/
def scaleProblem (s : α) (P : FitProblem α) : FitProblem α :=
  { P with rows := P.rows.map (fun r => ⟨r.idx, r.z, s * r.w⟩), smooth := P.smooth.map (fun l => s * l) }

theorem penaltySum_scale (s : α) (ds : List (Dim α)) (ls : List α) (ps : List Nat) (N : Nat) (c : Nat → α) :
    penaltySum ds (ls.map fun l => s * l) ps N c = s * penaltySum ds ls ps N c := by
  induction ds generalizing ls ps with
  | nil => cases ls <;> cases ps <;> simp [penaltySum, L.zero_eq]
  | cons d ds ih =>
    cases ps with
    | nil => cases ls <;> simp [penaltySum, L.zero_eq]
    | cons p ps =>
      cases ls with
      | nil => simp [penaltySum, L.zero_eq]
      | cons l ls =>
        simp only [List.map_cons, penaltySum]
        rw [L.add_eq, L.add_eq, L.mul_eq, L.mul_eq, ih ls ps]
        ring

theorem penaltyGram_scale (s : α) (ds : List (Dim α)) (ls : List α) (ps : List Nat) (N i j : Nat) :
    penaltyGram ds (ls.map fun l => s * l) ps N i j = s * penaltyGram ds ls ps N i j := by
  induction ds generalizing ls ps with
  | nil => cases ls <;> cases ps <;> simp [penaltyGram]
  | cons d ds ih =>
    cases ps with
    | nil => cases ls <;> simp [penaltyGram]
    | cons p ps =>
      cases ls with
      | nil => simp [penaltyGram]
      | cons l ls =>
        simp only [List.map_cons, penaltyGram]
        rw [ih ls ps]
        ring

theorem list_sum_map_mul_left {β : Type} (l : List β) (s : α) (g : β → α) :
    (l.map fun x => s * g x).sum = s * (l.map g).sum := by
  induction l with
  | nil => simp
  | cons x l ih => simp [ih, mul_add]

theorem objective_scale (s : α) (P : FitProblem α) (c : Nat → α) :
    objective (scaleProblem s P) c = s * objective P c := by
  rw [objective_list, objective_list]
  show (((P.rows.map (fun r => (⟨r.idx, r.z, s * r.w⟩ : FitRow α))).toList.map fun row =>
        row.w * (row.z - ∑ i ∈ range P.ncoef, rowB P.dims P.coords row i * c i) ^ 2).sum
      + penaltySum P.dims (P.smooth.map fun l => s * l) P.porder P.ncoef c) = _
  rw [penaltySum_scale, Array.toList_map, List.map_map, mul_add, ← list_sum_map_mul_left]
  congr 2
  refine List.map_congr_left (fun row _ => ?_)
  simp only [Function.comp, rowB]
  ring

theorem Mf_scale (s : α) (P : FitProblem α) (i j : Nat) (hi : i < P.ncoef) (hj : j < P.ncoef) :
    Mf (scaleProblem s P) i j = s * Mf P i j := by
  rw [Mf_list (scaleProblem s P) i j hi hj, Mf_list P i j hi hj]
  show (((P.rows.map (fun r => (⟨r.idx, r.z, s * r.w⟩ : FitRow α))).toList.map fun row =>
        row.w * rowB P.dims P.coords row i * rowB P.dims P.coords row j).sum
      + penaltyGram P.dims (P.smooth.map fun l => s * l) P.porder P.ncoef i j) = _
  rw [penaltyGram_scale, Array.toList_map, List.map_map, mul_add, ← list_sum_map_mul_left]
  congr 2
  refine List.map_congr_left (fun row _ => ?_)
  simp only [Function.comp, rowB]
  ring

theorem rf_scale (s : α) (P : FitProblem α) (i : Nat) (hi : i < P.ncoef) :
    rf (scaleProblem s P) i = s * rf P i := by
  rw [rf_list (scaleProblem s P) i hi, rf_list P i hi]
  show ((P.rows.map (fun r => (⟨r.idx, r.z, s * r.w⟩ : FitRow α))).toList.map fun row =>
        row.w * row.z * rowB P.dims P.coords row i).sum = _
  rw [Array.toList_map, List.map_map, ← list_sum_map_mul_left]
  congr 1
  refine List.map_congr_left (fun row _ => ?_)
  simp only [Function.comp, rowB]
  ring

theorem mulVec_Mf_scale (s : α) (P : FitProblem α) (c : Nat → α) (i : Nat) (hi : i < P.ncoef) :
    mulVec P.ncoef (Mf (scaleProblem s P)) c i = s * mulVec P.ncoef (Mf P) c i := by
  unfold mulVec
  rw [mul_sum]
  refine sum_congr rfl (fun j hj => ?_)
  rw [Mf_scale s P i j hi (mem_range.1 hj)]
  ring

theorem quad_Mf_scale (s : α) (P : FitProblem α) (v : Nat → α) :
    quad P.ncoef (Mf (scaleProblem s P)) v = s * quad P.ncoef (Mf P) v := by
  rw [quad_congr_mat P.ncoef v (fun i hi j hj => Mf_scale s P i j hi hj), quad_smul]

end
end PsV
