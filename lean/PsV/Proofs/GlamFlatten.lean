import PsV.Model.GlamFlatten
import PsV.Proofs.GlamIdx
import PsV.Proofs.GlamNdFlat
/-!
# C09: the `long` / `unsigned` / `size_t` index arithmetic of `flatten_ndarray_to_sparse`

Below `Π ranges < 2⁶³` (and every range an `unsigned int`, every index inside its range) no conversion of
`flattenC` (Model/GlamFlatten.lean, `long moduli[]`) changes a value: the flattened position is the
mixed-radix number `glamRowMajor ranges idx` of the natural-number model, and row / column are its quotient and
remainder by `ncol`.
-/
namespace PsV

theorem toI64_of_lt (n : Nat) (h : n < 9223372036854775808) : toI64 (n : Int) = n := by
  unfold toI64
  apply Int.bmod_eq_of_le <;> omega

theorem toU64_of_lt (n : Nat) (h : n < 18446744073709551616) : toU64 (n : Int) = n := by
  unfold toU64; omega

theorem natProd_pos_of_idxIn (rs is : List Nat) (h : IdxIn is rs) : 0 < natProd rs :=
  Nat.lt_of_le_of_lt (Nat.zero_le _) (glamRowMajor_lt rs is h)

/-- `moduli[i]` is the exact product of the following ranges -/
theorem sufProdT_long (rs : List Nat) (hpos : ∀ r ∈ rs, 0 < r) (h32 : ∀ r ∈ rs, r < 4294967296)
    (hb : natProd rs < 9223372036854775808) : sufProdT .long rs = (natProd rs : Int) := by
  induction rs with
  | nil => rfl
  | cons r rs ih =>
    have hr := hpos r (by simp)
    have hle : natProd rs ≤ r * natProd rs := Nat.le_mul_of_pos_left _ hr
    simp only [natProd] at hb
    simp only [sufProdT, modStep, natProd]
    rw [ih (fun a ha => hpos a (by simp [ha])) (fun a ha => h32 a (by simp [ha])) (by omega),
      toU32_nat r (h32 r (by simp)), ← Int.natCast_mul, toI64_of_lt _ (by rw [Nat.mul_comm]; exact hb),
      Nat.mul_comm]

theorem idxIn_pos (is rs : List Nat) (h : IdxIn is rs) : ∀ r ∈ rs, 0 < r := by
  induction rs generalizing is with
  | nil => intro r hr; simp at hr
  | cons a rs ih =>
    cases is with
    | nil => exact absurd h.1 (by simp)
    | cons i is =>
      rw [idxIn_cons] at h
      intro r hr
      rcases List.mem_cons.1 hr with rfl | hr
      · omega
      · exact ih is h.2 r hr

/-- loop invariant of `k += i[j]*moduli[j]` -/
theorem accKT_long (rs : List Nat) : ∀ (is : List Nat) (k : Nat), IdxIn is rs →
    (∀ r ∈ rs, r < 4294967296) → k + natProd rs < 9223372036854775808 →
    accKT .long is (moduliT .long rs) (k : Int) = ((k + glamRowMajor rs is : Nat) : Int) := by
  induction rs with
  | nil =>
    intro is k h _ _
    rw [idxIn_nil_right] at h
    subst h
    simp [accKT, glamRowMajor]
  | cons r rs ih =>
    intro is k h h32 hb
    cases is with
    | nil => exact absurd h.1 (by simp)
    | cons i is =>
      rw [idxIn_cons] at h
      obtain ⟨hi, his⟩ := h
      have hP := natProd_pos_of_idxIn rs is his
      simp only [natProd] at hb
      have h1 : i * natProd rs + natProd rs ≤ r * natProd rs := by
        rw [← Nat.succ_mul]; exact Nat.mul_le_mul_right _ hi
      have hr32 := h32 r (by simp)
      simp only [moduliT, accKT, termT, glamRowMajor]
      rw [sufProdT_long rs (idxIn_pos is rs his) (fun a ha => h32 a (by simp [ha])) (by omega),
        toU32_nat i (by omega), ← Int.natCast_mul, toI64_of_lt _ (by omega), ← Int.natCast_add,
        toI64_of_lt _ (by omega),
        ih is (k + i * natProd rs) his (fun a ha => h32 a (by simp [ha])) (by omega), Nat.add_assoc]

/-- the flattened position computed in the C types is the mixed-radix number -/
theorem flattenKT_long (ranges idx : List Nat) (hv : IdxIn idx ranges) (h32 : ∀ r ∈ ranges, r < 4294967296)
    (hb : natProd ranges < 9223372036854775808) :
    flattenKT .long ranges idx = (glamRowMajor ranges idx : Int) := by
  have := accKT_long ranges idx 0 hv h32 (by omega)
  simpa [flattenKT] using this

theorem flattenC_eq_nat (ranges idx : List Nat) (ncol : Nat) (hv : IdxIn idx ranges)
    (h32 : ∀ r ∈ ranges, r < 4294967296) (hb : natProd ranges < 9223372036854775808)
    (hn0 : 0 < ncol) (hn : ncol < 18446744073709551616) :
    flattenC ranges idx ncol
      = .ok (((glamRowMajor ranges idx / ncol : Nat) : Int), ((glamRowMajor ranges idx % ncol : Nat) : Int)) := by
  have hk := glamRowMajor_lt ranges idx hv
  have hd : glamRowMajor ranges idx / ncol ≤ glamRowMajor ranges idx := Nat.div_le_self _ _
  have hm : glamRowMajor ranges idx % ncol ≤ glamRowMajor ranges idx := Nat.mod_le _ _
  unfold flattenC flattenCT
  simp only [flattenKT_long ranges idx hv h32 hb]
  rw [toU64_of_lt (glamRowMajor ranges idx) (by omega), toU64_of_lt ncol hn]
  have hne : ¬ ((ncol : Int) = 0) := by omega
  rw [if_neg hne, ← Int.natCast_ediv, ← Int.natCast_emod, toI64_of_lt _ (by omega), toI64_of_lt _ (by omega)]

theorem idxIn_append (as bs A B : List Nat) (ha : IdxIn as A) (hb : IdxIn bs B) : IdxIn (as ++ bs) (A ++ B) := by
  induction A generalizing as with
  | nil =>
    rw [idxIn_nil_right] at ha
    subst ha
    simpa using hb
  | cons a A ih =>
    cases as with
    | nil => exact absurd ha.1 (by simp)
    | cons i as =>
      rw [idxIn_cons] at ha
      rw [List.cons_append, List.cons_append, idxIn_cons]
      exact ⟨ha.1, ih as ha.2⟩

theorem flatPositionsC_eq {α : Type} (ranges : List Nat) (ncol : Nat) (es : List (List Nat × α))
    (hv : ∀ e ∈ es, IdxIn e.1 ranges) (h32 : ∀ r ∈ ranges, r < 4294967296)
    (hb : natProd ranges < 9223372036854775808) (hn0 : 0 < ncol) (hn : ncol < 18446744073709551616) :
    flatPositionsC ranges ncol es
      = .ok (es.map fun e => ((glamRowMajor ranges e.1 / ncol) * ncol + glamRowMajor ranges e.1 % ncol, e.2)) := by
  induction es with
  | nil => rfl
  | cons e es ih =>
    simp only [flatPositionsC, List.map_cons]
    rw [flattenC_eq_nat ranges e.1 ncol (hv e (by simp)) h32 hb hn0 hn, ih (fun x hx => hv x (by simp [hx]))]
    simp only [Int.toNat_natCast]

theorem CRes.ok_inj {β : Type} {a b : β} (h : (CRes.ok a : CRes β) = CRes.ok b) : a = b := by
  cases h; rfl

end PsV
