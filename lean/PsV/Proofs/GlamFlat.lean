import PsV.Proofs.Glam
import PsV.Proofs.SpecFlat
/-!
# C17: the grid value as one flat sum over all stored coefficients

`gridSpec` is the nested sum `specSum`; with row-major strides it is the flat sum
`Σ_q coef[q] · Π_d B_d(digit_d q, x_d)` over every stored coefficient (the n-dimensional tensor-product
evaluation sum, in the form C15 uses for `specEval`).  The bridge `LawfulArith.eq_ofField` identifies a
lawful `Arith` bundle with the field instance `Arith.ofField` the C01/C15 lemmas are stated for.
-/
namespace PsV
open Arith PsV.Permute

/-- a lawful `Arith` bundle *is* the field instance -/
theorem LawfulArith.eq_ofField {α : Type} [Field α] [LinearOrder α] [A : Arith α] [L : LawfulArith α] :
    A = Arith.ofField α := by
  obtain ⟨add, sub, mul, div, neg, lt, le, zero, one, ofNat, rnd⟩ := A
  have h1 : add = (· + ·) := by funext a b; exact L.add_eq a b
  have h2 : sub = (· - ·) := by funext a b; exact L.sub_eq a b
  have h3 : mul = (· * ·) := by funext a b; exact L.mul_eq a b
  have h4 : div = (· / ·) := by funext a b; exact L.div_eq a b
  have h5 : neg = fun a => -a := by funext a; exact L.neg_eq a
  have h6 : lt = fun a b => decide (a < b) := by
    funext a b; rw [Bool.eq_iff_iff, decide_eq_true_iff]; exact L.lt_iff a b
  have h7 : le = fun a b => decide (a ≤ b) := by
    funext a b; rw [Bool.eq_iff_iff, decide_eq_true_iff]; exact L.le_iff a b
  have h8 : zero = 0 := L.zero_eq
  have h9 : one = 1 := L.one_eq
  have h10 : ofNat = fun n : Nat => (n : α) := by funext n; exact L.ofNat_eq n
  have h11 : rnd = id := by funext a; exact L.rnd_eq a
  subst h1 h2 h3 h4 h5 h6 h7 h8 h9 h10 h11
  rfl

theorem gridPoint_length_grid {α : Type} (coords : List (List α)) (g : List Nat) (xs : List α)
    (h : gridPoint coords g = some xs) : xs.length = coords.length := by
  induction coords generalizing g xs with
  | nil => cases g <;> simp_all [gridPoint]
  | cons c cs ih =>
    cases g with
    | nil => simp [gridPoint] at h
    | cons g0 gs =>
      cases hc : c[g0]? with
      | none => simp [gridPoint, hc] at h
      | some x =>
        cases hr : gridPoint cs gs with
        | none => simp [gridPoint, hc, hr] at h
        | some xs' =>
          simp only [gridPoint, hc, hr, Option.some.injEq] at h
          subst h
          simp [ih gs xs' hr]

section
variable {α : Type} [Field α] [LinearOrder α] [A : Arith α] [L : LawfulArith α]

/-- `Π_d B_d(idx_d, x_d)` with the right-continuous basis of `grideval` -/
def gridBasisProd : List (Dim α) → List α → List Nat → α
  | d :: ds, x :: xs, i :: is => Bind (indR d.knots x) d.knots x d.order i * gridBasisProd ds xs is
  | _, _, _ => 1

theorem gridRows_fst (dims : List (Dim α)) (xs : List α) (h : xs.length = dims.length) :
    (gridRows dims xs).map Prod.fst = dims.map (·.stride) := by
  induction dims generalizing xs with
  | nil => cases xs <;> simp [gridRows]
  | cons d ds ih =>
    cases xs with
    | nil => simp at h
    | cons x xs => simp [gridRows, ih xs (by simpa using h)]

theorem gridRows_len (dims : List (Dim α)) (xs : List α) (h : xs.length = dims.length) :
    (gridRows dims xs).map (fun r => r.2.length) = dims.map (·.naxes) := by
  induction dims generalizing xs with
  | nil => cases xs <;> simp [gridRows]
  | cons d ds ih =>
    cases xs with
    | nil => simp at h
    | cons x xs => simp [gridRows, ih xs (by simpa using h)]

theorem stridesRowMajor_iff (dims : List (Dim α)) (hne : dims ≠ []) (hs : StridesRowMajor dims) :
    dims.map (·.stride) = rowMajor (dims.map (·.naxes)) := by
  induction dims with
  | nil => exact absurd rfl hne
  | cons d ds ih =>
    cases ds with
    | nil => simp only [StridesRowMajor] at hs; simp [rowMajor, prodL, hs]
    | cons d' ds' =>
      obtain ⟨h1, h2⟩ := hs
      have ih' := ih (by simp) h2
      simp only [List.map_cons, rowMajor, List.cons.injEq] at ih' ⊢
      refine ⟨?_, ih'.1, ih'.2⟩
      rw [h1, ih'.1, prodL, Nat.mul_comm]

theorem rowProd_gridRows (dims : List (Dim α)) (xs : List α) (idx : List Nat)
    (h : IdxIn idx (dims.map (·.naxes))) :
    rowProd (gridRows dims xs) idx = gridBasisProd dims xs idx := by
  induction dims generalizing xs idx with
  | nil => cases xs <;> cases idx <;> simp [gridRows, rowProd, gridBasisProd]
  | cons d ds ih =>
    cases xs with
    | nil => cases idx <;> simp [gridRows, rowProd, gridBasisProd]
    | cons x xs =>
      cases idx with
      | nil => simp [IdxIn] at h
      | cons i is =>
        rw [List.map_cons, idxIn_cons] at h
        simp only [gridRows, rowProd, gridBasisProd, ih xs is h.2]
        congr 1
        simp [List.getD_eq_getElem?_getD, h.1]

theorem digits_idxIn (ns : List Nat) (q : Nat) (h : ∀ n ∈ ns, 0 < n) : IdxIn (digits ns q) ns := by
  induction ns with
  | nil => simp [digits, IdxIn]
  | cons n ns ih =>
    simp only [digits]
    rw [idxIn_cons]
    exact ⟨Nat.mod_lt _ (h n (by simp)), ih (fun m hm => h m (by simp [hm]))⟩

theorem prodL_pos_of_lt {ns : List Nat} {q : Nat} (h : q < prodL ns) : ∀ n ∈ ns, 0 < n := by
  induction ns generalizing q with
  | nil => simp
  | cons n ns ih =>
    intro m hm
    simp only [prodL] at h
    have hn : 0 < n := Nat.pos_of_ne_zero (fun h0 => by simp [h0] at h)
    have hp : 0 < prodL ns := Nat.pos_of_ne_zero (fun h0 => by simp [h0] at h)
    rcases List.mem_cons.mp hm with rfl | hm'
    · exact hn
    · exact ih (q := 0) hp m hm'

end

section
variable {α : Type} [Field α] [LinearOrder α]
attribute [local instance] Arith.ofField

/-- the field instance is lawful -/
instance lawfulOfField : LawfulArith α where
  add_eq _ _ := rfl
  sub_eq _ _ := rfl
  mul_eq _ _ := rfl
  div_eq _ _ := rfl
  neg_eq _ := rfl
  lt_iff a b := by simp [Arith.lt]
  le_iff a b := by simp [Arith.le]
  zero_eq := rfl
  one_eq := rfl
  ofNat_eq _ := rfl
  rnd_eq _ := rfl

theorem gridSpec_flat_ofField [L : LawfulArith α] (dims : List (Dim α)) (coef : Int → α) (xs : List α)
    (hne : dims ≠ []) (hs : StridesRowMajor dims) (hx : xs.length = dims.length) :
    gridSpec dims coef xs
      = ∑ q ∈ Finset.range (prodL (dims.map (·.naxes))),
          coef (q : Int) * gridBasisProd dims xs (digits (dims.map (·.naxes)) q) := by
  unfold gridSpec
  have hstr : (gridRows dims xs).map Prod.fst = rowMajor ((gridRows dims xs).map fun r => r.2.length) := by
    rw [gridRows_fst dims xs hx, gridRows_len dims xs hx]; exact stridesRowMajor_iff dims hne hs
  rw [specSum_flat coef (gridRows dims xs) hstr, gridRows_len dims xs hx]
  simp only [of_one, one_mul, zero_add]
  apply Finset.sum_congr rfl
  intro q hq
  rw [rowProd_gridRows dims xs _ (digits_idxIn _ q (prodL_pos_of_lt (Finset.mem_range.mp hq))), mul_comm]

end

section
variable {α : Type} [Field α] [LinearOrder α] [A : Arith α] [L : LawfulArith α]

/-- **the grid sum, flat**: for row-major strides `gridSpec` is the sum over every stored coefficient of
coefficient × product of the basis functions selected by the digits of its position -/
theorem gridSpec_flat (dims : List (Dim α)) (coef : Int → α) (xs : List α)
    (hne : dims ≠ []) (hs : StridesRowMajor dims) (hx : xs.length = dims.length) :
    gridSpec dims coef xs
      = ∑ q ∈ Finset.range (prodL (dims.map (·.naxes))),
          coef (q : Int) * gridBasisProd dims xs (digits (dims.map (·.naxes)) q) := by
  have hA := LawfulArith.eq_ofField (α := α) (A := A)
  subst hA
  exact gridSpec_flat_ofField dims coef xs hne hs hx

end
end PsV
