import PsV.Model.Search
import Mathlib.Order.Defs.LinearOrder
import Mathlib.Data.Int.Order.Basic
/-! Helper lemmas for C04/C05: the binary search invariant and the `Option` (NaN) extension. -/
namespace PsV

/-- The comparison bundle of a linear order (what IEEE comparison is on non-NaN doubles). -/
@[reducible] def cmpLO (α : Type) [LinearOrder α] : Cmp α :=
  ⟨fun a b => decide (a < b), fun a b => decide (a ≤ b)⟩

theorem instCmpInt_eq : (inferInstance : Cmp Int) = cmpLO Int := by
  show (⟨_, _⟩ : Cmp Int) = ⟨_, _⟩
  congr 1

section LO
variable {α : Type} [LinearOrder α]
attribute [local instance] cmpLO

theorem bsearch_spec (k : Nat → α) (x : α) :
    ∀ (fuel min max : Nat), min ≤ max → max - min < fuel → k min ≤ x → x < k (max+1) →
      ∃ c, bsearch k x fuel min max = some c ∧ min ≤ c ∧ c ≤ max ∧ k c ≤ x ∧ x < k (c+1) := by
  intro fuel
  induction fuel with
  | zero => intro min max _ h; omega
  | succ fuel ih =>
    intro min max hle hf hlo hhi
    unfold bsearch
    simp only [Cmp.lt, Cmp.le, Bool.or_eq_true, decide_eq_true_eq]
    by_cases h1 : x < k ((max+min)/2)
    · simp only [h1, true_or, if_true]
      have hc : min < (max+min)/2 := by
        rcases Nat.lt_or_ge min ((max+min)/2) with h | h
        · exact h
        · exfalso
          have : (max+min)/2 = min := by omega
          rw [this] at h1
          exact absurd hlo (not_le.mpr h1)
      have := ih min ((max+min)/2 - 1) (by omega) (by omega) hlo (by
        have : (max+min)/2 - 1 + 1 = (max+min)/2 := by omega
        rw [this]; exact h1)
      obtain ⟨c, hc1, hc2, hc3, hc4, hc5⟩ := this
      exact ⟨c, hc1, hc2, by omega, hc4, hc5⟩
    · simp only [h1, false_or, if_false]
      by_cases h2 : k ((max+min)/2 + 1) ≤ x
      · simp only [h2, if_true]
        have hc : (max+min)/2 < max := by
          rcases Nat.lt_or_ge ((max+min)/2) max with h | h
          · exact h
          · exfalso
            have : (max+min)/2 = max := by omega
            rw [this] at h2
            exact absurd hhi (not_lt.mpr h2)
        have := ih ((max+min)/2 + 1) max (by omega) (by omega) h2 hhi
        obtain ⟨c, hc1, hc2, hc3, hc4, hc5⟩ := this
        exact ⟨c, hc1, by omega, hc3, hc4, hc5⟩
      · simp only [h2, if_false]
        exact ⟨(max+min)/2, rfl, by omega, by omega, not_lt.mp h1, not_le.mp h2⟩

end LO

/-! ### The NaN extension agrees with the base comparison on non-NaN data -/
section Opt
variable {α : Type} [Cmp α]

theorem bsearch_some (k : Nat → α) (x : α) :
    ∀ fuel min max, bsearch (fun i => some (k i)) (some x) fuel min max = bsearch k x fuel min max := by
  intro fuel
  induction fuel with
  | zero => intros; rfl
  | succ fuel ih =>
    intro min max
    simp only [bsearch, Cmp.lt, Cmp.le]
    split <;> simp_all

theorem searchAxis_some (order nknots : Nat) (k : Nat → α) (x : α) :
    searchAxis order nknots (fun i => some (k i)) (some x) = searchAxis order nknots k x := by
  simp only [searchAxis, bsearch_some]
  rfl

/-- A NaN coordinate is rejected by the range test (all comparisons are false). -/
theorem searchAxis_nan (order nknots : Nat) (k : Nat → Option α) :
    searchAxis order nknots k none = .reject := by
  simp [searchAxis, Cmp.lt, Cmp.le]

end Opt
end PsV
