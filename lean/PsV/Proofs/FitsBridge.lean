import PsV.Proofs.Fits
import PsV.Proofs.FitsCodec
/-!
# What `write_fits_core` writes is inside the byte codec's round-trip domain

`PsV/Proofs/FitsBytes.lean` proves `decodeFits (encodeFits f) = some f` for every store `f` whose HDUs satisfy
`HduOK`.  This file shows that the stores the writer model produces (`writeGen E single t`, in particular
`writeCore E t = writeGen E false t`) satisfy `HduOK` under the hypotheses `Encodable E t`, hence

  `decodeFits (encodeFits (writeCore E t)) = some (writeCore E t)`.

No definition of the model is changed; nothing of the existing proof files is modified.
-/
namespace PsV.Fits.Codec

/-! ## 1. vocabulary, with decision procedures (for concrete witnesses) -/

/-- Text of a `TDOUBLE` keyword value that survives the 80-column card form: a non-empty token of at most 70
    single-byte characters without blank or slash that does not start with an apostrophe. -/
structure NumText (s : Str) : Prop where
  ne : s ≠ []
  len : s.length ≤ 70
  chars : ∀ c ∈ s, c ≠ ' ' ∧ c ≠ '/' ∧ c.toNat < 256
  noQuote : s.head? ≠ some '\''

theorem numText_iff (s : Str) :
    NumText s ↔ (s ≠ [] ∧ s.length ≤ 70 ∧ (∀ c ∈ s, c ≠ ' ' ∧ c ≠ '/' ∧ c.toNat < 256) ∧ s.head? ≠ some '\'') :=
  ⟨fun h => ⟨h.ne, h.len, h.chars, h.noQuote⟩, fun ⟨a, b, c, d⟩ => ⟨a, b, c, d⟩⟩

instance (s : Str) : Decidable (NumText s) := decidable_of_iff _ (numText_iff s).symm

theorem keyOK_iff (key : Str) :
    KeyOK key ↔ (key.length ≤ 8 ∧ (∀ c ∈ key, c ≠ ' ') ∧ isCommentary key = false ∧ key ≠ "HIERARCH".toList
      ∧ key ≠ "CONTINUE".toList) :=
  ⟨fun h => ⟨h.len, h.noBlank, h.notCommentary, h.notHier, h.notCont⟩, fun ⟨a, b, c, d, e⟩ => ⟨a, b, c, d, e⟩⟩

instance (key : Str) : Decidable (KeyOK key) := decidable_of_iff _ (keyOK_iff key).symm

instance (s : Str) : Decidable (Lat s) := inferInstanceAs (Decidable (∀ c ∈ s, c.toNat < 256))

/-- Conditions under which the 80-column text form of what `write_fits_core` writes for `t` is faithful.
    (Nothing is required of the orders — `fits_write_key(TINT)` of any 32-bit pattern is a short integer — nor of
    the number of knot vectors: a missing one is written as an empty image.) -/
structure Encodable (E : Ext) (t : Table) : Prop where
  ndim_pos : 1 ≤ t.ndim
  /-- FITS: `NAXIS ≤ 999` (`NAXISnnn`, `ORDERnnn` stay 8-character keywords) -/
  ndim_le : t.ndim ≤ 999
  naxes_len : t.naxes.length = t.ndim
  /-- the coefficient buffer holds the `Π naxes` values that are written -/
  coef_len : prod t.naxes ≤ t.coef.length
  /-- axis lengths fit the 20-column value field -/
  naxes_lt : ∀ a ∈ t.naxes, a < 10 ^ 20
  knots_lt : ∀ k ∈ t.knots, k.length < 10 ^ 20
  /-- the extents buffer holds the `2·ndim` values that are written -/
  extents_len : ∀ e, t.extents = some e → 2 * t.ndim ≤ e.length
  /-- with periods, `PERIODnn` must stay an 8-character keyword -/
  periods_dim : t.periods ≠ none → t.ndim ≤ 100
  periods_len : ∀ p, t.periods = some p → t.ndim ≤ p.length
  /-- what cfitsio prints for a period is one plain token -/
  periods_text : ∀ p, t.periods = some p → ∀ x ∈ p, NumText (E.fmtD x)
  /-- aux keys are standard keywords, aux values single-byte text whose stored form (apostrophes doubled) fits the
      card: what `write_key` accepts for a standard keyword -/
  aux_ok : ∀ kv ∈ t.aux, KeyOK kv.1 ∧ kv.1 ≠ "END".toList ∧ Lat kv.1 ∧ Lat kv.2 ∧ storedLen kv.2 ≤ 68

/-! ## 2. keywords with a running number -/

theorem keyN_order_ok (i : Nat) (hi : i < 1000) :
    KeyOK (keyN "ORDER" i) ∧ keyN "ORDER" i ≠ "END".toList ∧ Lat (keyN "ORDER" i) := by
  have hl := natStr_length i 3 (by omega) (by omega)
  unfold keyN
  refine ⟨⟨?_, ?_, ?_, ?_, ?_⟩, ?_, ?_⟩
  · simp; omega
  · intro c hc
    rcases List.mem_append.mp hc with h | h
    · have : ∀ c ∈ "ORDER".toList, c ≠ ' ' := by decide
      exact this c h
    · exact (digits_props c (natStr_digits i c h)).1
  · simp [isCommentary]
  · simp
  · simp
  · simp
  · exact Lat.append (by simp only [Lat]; decide) (Lat.of_digits (natStr_digits i))

theorem keyN_period_ok (i : Nat) (hi : i < 100) :
    KeyOK (keyN "PERIOD" i) ∧ keyN "PERIOD" i ≠ "END".toList ∧ Lat (keyN "PERIOD" i) := by
  have hl := natStr_length i 2 (by omega) (by omega)
  unfold keyN
  refine ⟨⟨?_, ?_, ?_, ?_, ?_⟩, ?_, ?_⟩
  · simp; omega
  · intro c hc
    rcases List.mem_append.mp hc with h | h
    · have : ∀ c ∈ "PERIOD".toList, c ≠ ' ' := by decide
      exact this c h
    · exact (digits_props c (natStr_digits i c h)).1
  · simp [isCommentary]
  · simp
  · simp
  · simp
  · exact Lat.append (by simp only [Lat]; decide) (Lat.of_digits (natStr_digits i))

/-- `KNOTSn` as an `EXTNAME` value: short single-byte text without apostrophe -/
theorem keyN_knots_text (i : Nat) (hi : i < 1000) :
    Lat (keyN "KNOTS" i) ∧ '\'' ∉ keyN "KNOTS" i ∧ (keyN "KNOTS" i).length ≤ 68 := by
  have hl := natStr_length i 3 (by omega) (by omega)
  unfold keyN
  refine ⟨Lat.append (by simp only [Lat]; decide) (Lat.of_digits (natStr_digits i)), ?_, ?_⟩
  · intro hc
    rcases List.mem_append.mp hc with h | h
    · revert h; decide
    · exact (digits_props _ (natStr_digits i _ h)).2.2.1 rfl
  · have : "KNOTS".toList.length = 5 := rfl
    rw [List.length_append]; omega

/-! ## 3. the card classes of `write_fits_core` -/

theorem quotesDoubled_dbl_append (v w : Str) : quotesDoubled (dbl v ++ w) = quotesDoubled w := by
  induction v with
  | nil => rfl
  | cons c r ih =>
    by_cases hc : c = '\''
    · subst hc
      simp only [dbl, if_true, List.cons_append]
      rw [quotesDoubled, ih]
    · simp only [dbl, if_neg hc, List.cons_append]
      rw [← ih]
      generalize dbl r ++ w = x
      conv => lhs; unfold quotesDoubled
      split
      · rename_i heq; cases heq
      · rename_i heq; injection heq with a b; exact absurd a hc
      · rename_i heq; injection heq with a b; exact absurd a hc
      · rename_i heq; injection heq with a b; subst b; rfl

theorem Lat.dbl {v : Str} (hv : Lat v) : Lat (dbl v) := by
  induction v with
  | nil => exact hv
  | cons c r ih =>
    have hc : c.toNat < 256 := hv c (by simp)
    have hr : Lat r := fun d hd => hv d (by simp [hd])
    intro d hd
    by_cases h : c = '\''
    · subst h
      simp only [Fits.dbl, if_true, List.mem_cons] at hd
      rcases hd with rfl | rfl | hd
      · decide
      · decide
      · exact ih hr d hd
    · simp only [Fits.dbl, if_neg h, List.mem_cons] at hd
      rcases hd with rfl | hd
      · exact hc
      · exact ih hr d hd

/-- `fits_write_key(TSTRING)` of any value whose stored form fits the card (apostrophes included), no comment -/
theorem cardRT_cardStr (key v : Str) (hk : KeyOK key) (hend : key ≠ "END".toList) (hkl : Lat key)
    (hv : Lat v) (hl : storedLen v ≤ 68) : CardRT (cardStr key v []) := by
  have hval : s2c v = '\'' :: (dbl v ++ List.replicate (8 - storedLen v) ' ' ++ ['\'']) := s2c_dbl v hl
  have hnq : ∀ c ∈ List.replicate (8 - storedLen v) ' ', c ≠ '\'' := by
    intro c hc
    rw [List.eq_of_mem_replicate hc]; decide
  have hlen : (dbl v ++ List.replicate (8 - storedLen v) ' ').length ≤ 68 := by
    simp only [List.length_append, List.length_replicate, dbl_length]; omega
  have hlatp : Lat (dbl v ++ List.replicate (8 - storedLen v) ' ') := Lat.append (Lat.dbl hv) (Lat.blanks _)
  have hlatq : Lat ['\''] := by simp only [Lat]; decide
  refine cardRT_string (cardStr key v []) (dbl v ++ List.replicate (8 - storedLen v) ' ')
    ⟨hk, hval, by rw [quotesDoubled_dbl_append]; exact quotesDoubled_of_noQuote _ hnq, rfl, ?_⟩
    hend hkl ?_ (show Lat ([] : Str) from fun _ h => nomatch h)
  · show (if ([] : Str) = [] then 10 + (s2c v).length ≤ 80 else _)
    rw [if_pos rfl, hval]
    simp only [List.length_cons, List.length_append, List.length_nil] at hlen ⊢; omega
  · show Lat (s2c v)
    rw [hval]
    exact Lat.append hlatq (Lat.append hlatp hlatq)

/-- `fits_write_key(TINT)` of any `uint32_t` pattern with the comment `B-Spline Order` -/
theorem cardRT_cardInt (key : Str) (v : Nat) (hk : KeyOK key) (hend : key ≠ "END".toList) (hkl : Lat key) :
    CardRT (cardInt key v "B-Spline Order".toList) := by
  unfold cardInt
  refine cardRT_int key _ _ hk hend hkl ?_ (by decide) (by decide) (by simp only [Lat]; decide)
  have h19 : (10 : Nat) ^ 19 = 10000000000000000000 := by decide
  rw [h19]
  split <;> omega

/-- `fits_write_key(TDOUBLE)` when the number text is one plain token -/
theorem cardRT_cardDbl (E : Ext) (key : Str) (x : UInt64) (hk : KeyOK key) (hend : key ≠ "END".toList)
    (hkl : Lat key) (hx : NumText (E.fmtD x)) : CardRT (cardDbl E key x) := by
  refine cardRT_plain (cardDbl E key x) ⟨hk, hx.ne, fun ch hc => ⟨(hx.chars ch hc).1, (hx.chars ch hc).2.1⟩,
    hx.noQuote, rfl, ?_⟩ hend hkl (fun c hc => (hx.chars c hc).2.2) (show Lat ([] : Str) from fun _ h => nomatch h)
  show 10 + max 20 (E.fmtD x).length + (if ([] : Str) = [] then 0 else _) ≤ 80
  have := hx.len
  rw [if_pos rfl]; omega

theorem cardRT_primaryBoiler : ∀ c ∈ primaryBoiler, CardRT c := by
  have : ∀ c ∈ primaryBoiler,
      parseCard (fmtCard c) = some c ∧ c.key ≠ "END".toList ∧ ∀ ch ∈ fmtCard c, ch.toNat < 256 := by decide
  exact fun c hc => ⟨(this c hc).1, (this c hc).2.1, (this c hc).2.2⟩

theorem cardRT_typeCard : CardRT typeCard :=
  CardRT.of_decide _ (by decide) (by decide) (by decide)

theorem cardRT_ordCards (s : Bool) (t : Table) (hnd : t.ndim ≤ 1000) : ∀ c ∈ ordCards s t, CardRT c := by
  intro c hc
  cases s
  · simp only [ordCards, Bool.false_eq_true, if_false, orderCards, List.mem_map, List.mem_range] at hc
    obtain ⟨i, hi, rfl⟩ := hc
    obtain ⟨h1, h2, h3⟩ := keyN_order_ok i (by omega)
    exact cardRT_cardInt _ _ h1 h2 h3
  · simp only [ordCards, if_true, List.mem_singleton] at hc
    subst hc
    exact cardRT_cardInt _ _ (by decide) (by decide) (by decide)

theorem cardRT_periodCards (E : Ext) (t : Table) (h : Encodable E t) : ∀ c ∈ periodCards E t, CardRT c := by
  intro c hc
  unfold periodCards at hc
  cases hp : t.periods with
  | none => rw [hp] at hc; simp at hc
  | some p =>
    rw [hp] at hc
    simp only [List.mem_map, List.mem_range] at hc
    obtain ⟨i, hi, rfl⟩ := hc
    have hnd : t.ndim ≤ 100 := h.periods_dim (by rw [hp]; exact fun e => nomatch e)
    have hpl := h.periods_len p hp
    have hip : i < p.length := by omega
    obtain ⟨h1, h2, h3⟩ := keyN_period_ok i (by omega)
    refine cardRT_cardDbl E _ _ h1 h2 h3 (h.periods_text p hp _ ?_)
    simp only [List.getD_eq_getElem?_getD, List.getElem?_eq_getElem hip, Option.getD_some]
    exact List.getElem_mem hip

theorem cardRT_auxCards (E : Ext) (t : Table) (h : Encodable E t) : ∀ c ∈ auxCards t, CardRT c := by
  intro c hc
  simp only [auxCards, List.mem_map] at hc
  obtain ⟨kv, hkv, rfl⟩ := hc
  obtain ⟨h1, h2, h3, h4, h5⟩ := h.aux_ok kv hkv
  exact cardRT_cardStr _ _ h1 h2 h3 h4 h5

/-! ## 4. the HDUs -/

/-- an image extension with `n` doubles and an `EXTNAME` -/
theorem hduOK_extHdu (n : Nat) (d : List UInt64) (nm : Str) (hd : d.length = n) (hn : n < 10 ^ 20)
    (hnm : Lat nm) (hq : '\'' ∉ nm) (hl : nm.length ≤ 68) : HduOK (extHdu [n] (.f64 d) nm) := by
  subst hd
  refine ⟨?_, ?_, ?_, ?_⟩
  · show d.length = npix [d.length]
    simp [npix, prod]
  · show [d.length].length ≤ 999
    simp
  · intro a ha
    change a ∈ [d.length] at ha
    rw [List.mem_singleton] at ha; subst ha; exact hn
  · intro c hc
    change c ∈ [cardStr "EXTNAME".toList nm []] at hc
    rw [List.mem_singleton] at hc; subst hc
    exact cardRT_cardStr _ _ (by decide) (by decide) (by decide) hnm (by rw [storedLen_plain nm hq]; exact hl)

theorem hduOK_knotHdu (E : Ext) (t : Table) (h : Encodable E t) (i : Nat) (hi : i < t.ndim) :
    HduOK (knotHdu t i) := by
  rw [knotHdu_eq]
  obtain ⟨h1, h2, h3⟩ := keyN_knots_text i (by have := h.ndim_le; omega)
  refine hduOK_extHdu _ _ _ rfl ?_ h1 h2 h3
  rw [List.getD_eq_getElem?_getD]
  cases hk : t.knots[i]? with
  | none => simp
  | some k => exact h.knots_lt k (List.mem_of_getElem? hk)

theorem hduOK_extentsHdus (E : Ext) (t : Table) (h : Encodable E t) : ∀ hdu ∈ extentsHdus t, HduOK hdu := by
  intro hdu hm
  unfold extentsHdus at hm
  cases he : t.extents with
  | none => rw [he] at hm; simp at hm
  | some e =>
    rw [he] at hm
    simp only [List.mem_singleton] at hm
    subst hm
    rw [updateKey_createImg]
    have hlen := h.extents_len e he
    have hnd := h.ndim_le
    refine hduOK_extHdu _ _ _ ?_ ?_ (by decide) (by decide) (by decide)
    · rw [List.length_take]; omega
    · have h20 : (10 : Nat) ^ 20 = 100000000000000000000 := by decide
      rw [h20]; omega

theorem hduOK_primHdu (E : Ext) (s : Bool) (t : Table) (h : Encodable E t) : HduOK (primHdu E s t) := by
  have hax : wAxes t = t.naxes.reverse := wAxes_eq t h.naxes_len
  have hpos := h.ndim_pos
  have hne : t.naxes.reverse ≠ [] := by
    intro e
    have hl := congrArg List.length e
    rw [List.length_reverse, h.naxes_len, List.length_nil] at hl
    omega
  refine ⟨?_, ?_, ?_, ?_⟩
  · show (t.coef.take (prod (wAxes t))).length = npix (wAxes t)
    have hc := h.coef_len
    rw [hax, npix, if_neg hne, prod_reverse, List.length_take]
    omega
  · show (wAxes t).length ≤ 999
    rw [hax, List.length_reverse, h.naxes_len]; exact h.ndim_le
  · intro a ha
    change a ∈ wAxes t at ha
    rw [hax] at ha
    exact h.naxes_lt a (List.mem_reverse.mp ha)
  · intro c hc
    change c ∈ primaryBoiler ++ [typeCard] ++ ordCards s t ++ periodCards E t ++ auxCards t at hc
    simp only [List.mem_append, List.mem_singleton] at hc
    rcases hc with (((hc | hc) | hc) | hc) | hc
    · exact cardRT_primaryBoiler c hc
    · subst hc; exact cardRT_typeCard
    · exact cardRT_ordCards s t (by have := h.ndim_le; omega) c hc
    · exact cardRT_periodCards E t h c hc
    · exact cardRT_auxCards E t h c hc

/-! ## 5. the file -/

/-- Every HDU `write_fits_core` writes (either `ORDER` layout) is in the round-trip domain of the byte codec. -/
theorem writeGen_hduOK (E : Ext) (single : Bool) (t : Table) (h : Encodable E t) :
    ∀ hdu ∈ writeGen E single t, HduOK hdu := by
  intro hdu hm
  rw [writeGen_eq, List.mem_cons, restHdus, List.mem_append, List.mem_map] at hm
  rcases hm with rfl | ⟨i, hi, rfl⟩ | hm
  · exact hduOK_primHdu E single t h
  · exact hduOK_knotHdu E t h i (List.mem_range.mp hi)
  · exact hduOK_extentsHdus E t h hdu hm

theorem writeGen_decode_encode (E : Ext) (single : Bool) (t : Table) (h : Encodable E t) :
    decodeFits (encodeFits (writeGen E single t)) = some (writeGen E single t) :=
  decode_encode _ (by rw [writeGen_eq]; exact List.cons_ne_nil _ _) (writeGen_hduOK E single t h)

theorem writeCore_hduOK (E : Ext) (t : Table) (h : Encodable E t) : ∀ hdu ∈ writeCore E t, HduOK hdu :=
  writeGen_hduOK E false t h

/-- **The bytes written for an encodable table decode to exactly the store `write_fits_core` built.** -/
theorem writeCore_decode_encode (E : Ext) (t : Table) (h : Encodable E t) :
    decodeFits (encodeFits (writeCore E t)) = some (writeCore E t) :=
  writeGen_decode_encode E false t h

/-! ## 6. the hypotheses are satisfiable -/

/-- a number formatter that prints `0.` for everything -/
def exExt0 : Ext := ⟨fun _ => ['0', '.'], fun _ => some 0, fun _ => 0, fun _ => 0⟩

/-- 2 × 3 coefficients, orders 2 and 3, extents, periods, two aux keys (a blank inside; a single apostrophe and a run of two) -/
def exT : Table :=
  { order := [2, 3]
    knots := [[0, 1, 2, 3, 4], [10, 11, 12, 13, 14, 15, 16]]
    naxes := [2, 3]
    strides := [3, 1]
    coef := [1, 2, 3, 4, 5, 6]
    extents := some [2, 2, 13, 13]
    periods := some [0, 7]
    aux := [("AUTHOR".toList, "J. Doe".toList), ("REMARK".toList, "it's ''".toList)] }

theorem exT_encodable : Encodable exExt0 exT := by
  constructor <;> decide

example : decodeFits (encodeFits (writeCore exExt0 exT)) = some (writeCore exExt0 exT) :=
  writeCore_decode_encode _ _ exT_encodable

/-- the same table without periods and extents, for any number formatter -/
example (E : Ext) : Encodable E { exT with periods := none, extents := none } := by
  constructor <;> first | decide | (intro p hp; cases hp)

end PsV.Fits.Codec
