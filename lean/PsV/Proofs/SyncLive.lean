import PsV.Proofs.Sync
/-! Liveness lemmas for C12: the rank under spurious wake-ups, step bounds for arbitrary schedules, infinite
executions, the teardown invariant (all workers joined), and the futile cycle that defeats weak fairness. -/
namespace PsV.Sync

/-! ## spurious wake-ups raise the rank by at most 2 -/
theorem rank_spur (c : Cfg) (s s' : State) (t : Nat) (hs : spur? c s t = some s') : rank c s' ≤ rank c s + 2 := by
  cases t with
  | zero =>
    simp only [spur?] at hs
    split at hs
    · rename_i hp
      injection hs with hs; subst hs
      simp only [rank, hp, rankC]; omega
    · cases hs
  | succ w =>
    simp only [spur?] at hs
    split at hs
    · rename_i hp
      injection hs with hs; subst hs
      have := sumTo_upd_incr c.n (fun k => lw c.n (s.wpc k) (s.st k))
        (fun k => lw c.n (upd s.wpc w .woken k) (s.st k)) w 2
        (fun k _ hne => by simp [upd, hne])
        (by simp only [upd, if_true, hp.2]; cases s.st w <;> simp [lw] <;> omega)
      simp only [rank]; omega
    · cases hs

/-- number of spurious wake-ups in a schedule -/
def nspur : List (Nat × Bool) → Nat
  | [] => 0
  | (_, sp) :: rest => (if sp then 1 else 0) + nspur rest

/-- Step bound for arbitrary schedules (spurious wake-ups included): every schedule that the protocol can execute
    from a reachable state `s0` has at most `rank s0 + 3·(number of spurious wake-ups)` entries. -/
theorem run_bound (c : Cfg) (hn : 0 < c.n) : ∀ (sched : List (Nat × Bool)) (s0 s : State), Reach c s0 →
    runSched c s0 sched = some s → sched.length + rank c s ≤ rank c s0 + 3 * nspur sched := by
  intro sched
  induction sched with
  | nil => intro s0 s _ h; simp [runSched] at h; subst h; simp [nspur]
  | cons a rest ih =>
    intro s0 s h0 h
    obtain ⟨t, sp⟩ := a
    simp only [runSched] at h
    cases sp with
    | true =>
      simp only [if_true] at h
      cases h1 : spur? c s0 t with
      | none => simp [h1] at h
      | some s1 =>
        simp only [h1] at h
        have := ih s1 s (Reach.spur t h0 h1) h
        have := rank_spur c s0 s1 t h1
        simp only [List.length_cons, nspur, if_true]; omega
    | false =>
      simp only [Bool.false_eq_true, if_false] at h
      cases h1 : step? c s0 t with
      | none => simp [h1] at h
      | some s1 =>
        simp only [h1] at h
        have := ih s1 s (Reach.step t h0 h1) h
        have := rank_step c s0 s1 t (reach_inv c hn h0) h1
        simp only [List.length_cons, nspur, Bool.false_eq_true, if_false]; omega

/-! ## infinite executions -/
/-- the transition with label `(t, sp)`: `sp = false` the next pthread call of thread `t`, `sp = true` a spurious
    wake-up of `t` -/
def stepL (c : Cfg) (s : State) (lab : Nat × Bool) : Option State :=
  if lab.2 then spur? c s lab.1 else step? c s lab.1

/-- an infinite execution of the protocol from the initial state -/
structure Exec (c : Cfg) where
  st : Nat → State
  lab : Nat → Nat × Bool
  start : st 0 = init c
  next : ∀ i, stepL c (st i) (lab i) = some (st (i+1))

theorem Exec.reach {c : Cfg} (e : Exec c) : ∀ i, Reach c (e.st i) := by
  intro i
  induction i with
  | zero => rw [e.start]; exact Reach.init
  | succ i ih =>
    have h := e.next i
    unfold stepL at h
    split at h
    · exact Reach.spur _ ih h
    · exact Reach.step _ ih h

/-- along a stretch without spurious wake-ups the rank drops by one per step -/
theorem Exec.rank_drop {c : Cfg} (hn : 0 < c.n) (e : Exec c) (N : Nat)
    (hns : ∀ i, N ≤ i → (e.lab i).2 = false) : ∀ k, rank c (e.st (N + k)) + k ≤ rank c (e.st N) := by
  intro k
  induction k with
  | zero => simp
  | succ k ih =>
    have h := e.next (N + k)
    have hsp := hns (N + k) (Nat.le_add_right _ _)
    unfold stepL at h
    rw [hsp] at h
    simp only [Bool.false_eq_true, if_false] at h
    have := rank_step c _ _ _ (reach_inv c hn (e.reach (N + k))) h
    show rank c (e.st (N + k + 1)) + (k + 1) ≤ rank c (e.st N)
    omega

/-- Every infinite execution contains infinitely many spurious wake-ups: the protocol itself (both variants) cannot
    run forever. -/
theorem Exec.inf_spurious {c : Cfg} (hn : 0 < c.n) (e : Exec c) (N : Nat) : ∃ i, N ≤ i ∧ (e.lab i).2 = true := by
  apply Classical.byContradiction
  intro hno
  have hns : ∀ i, N ≤ i → (e.lab i).2 = false := by
    intro i hi
    cases h : (e.lab i).2 with
    | false => rfl
    | true => exact absurd ⟨i, hi, h⟩ hno
  have := e.rank_drop hn N hns (rank c (e.st N) + 1)
  omega

/-! ## teardown: when `walk_descents` destroys the mutex and the condition variable and frees the trial records,
every worker has exited and been joined -/
structure JoinInv (c : Cfg) (s : State) : Prop where
  joined : ∀ k, s.cpc = .join k → ∀ w, w < k → s.wpc w = .done
  finalAll : s.cpc = .final → ∀ w, w < c.n → s.wpc w = .done

@[simp] theorem wakeC_final (p : CPc) : wakeC p = .final ↔ p = .final := by cases p <;> simp [wakeC]

theorem joinInv_init (c : Cfg) : JoinInv c (init c) := by
  constructor <;> simp [init]

theorem joinInv_stepC (c : Cfg) (s s' : State) (h : JoinInv c s) (hs : stepC c s = some s') : JoinInv c s' := by
  have h1 := h.joined
  have h2 := h.finalAll
  unfold stepC at hs
  constructor
  · split at hs <;> (try split at hs) <;> simp at hs <;> subst hs <;> simp only [loopHead] <;> (repeat' split) <;>
      simp_all [wakeAll] <;> grind
  · split at hs <;> (try split at hs) <;> simp at hs <;> subst hs <;> simp only [loopHead] <;> (repeat' split) <;>
      simp_all [wakeAll] <;> grind

theorem joinInv_stepW (c : Cfg) (s s' : State) (w : Nat) (h : JoinInv c s) (hs : stepW s w = some s') :
    JoinInv c s' := by
  have h1 := h.joined
  have h2 := h.finalAll
  unfold stepW at hs
  constructor
  · split at hs <;> (try split at hs) <;> simp at hs <;> subst hs <;> simp_all [upd, wakeAll] <;> grind
  · split at hs <;> (try split at hs) <;> simp at hs <;> subst hs <;> simp_all [upd, wakeAll] <;> grind

theorem joinInv_spur (c : Cfg) (s s' : State) (t : Nat) (h : JoinInv c s) (hs : spur? c s t = some s') :
    JoinInv c s' := by
  have h1 := h.joined
  have h2 := h.finalAll
  unfold spur? at hs
  constructor
  · split at hs <;> split at hs <;> simp at hs <;> subst hs <;> simp_all [upd] <;> grind
  · split at hs <;> split at hs <;> simp at hs <;> subst hs <;> simp_all [upd] <;> grind

theorem reach_joinInv (c : Cfg) {s : State} (h : Reach c s) : JoinInv c s := by
  induction h with
  | init => exact joinInv_init c
  | step t _ hs ih =>
    cases t with
    | zero => exact joinInv_stepC c _ _ ih hs
    | succ w =>
      simp only [step?] at hs
      split at hs
      · exact joinInv_stepW c _ _ w ih hs
      · cases hs
  | spur t _ hs ih => exact joinInv_spur c _ _ t ih hs

theorem stepC_blk (c : Cfg) (s s' : State) (hs : stepC c s = some s') (hp : s.cpc ≠ .unlockB) : s'.blk = s.blk := by
  unfold stepC at hs
  split at hs <;> (try split at hs) <;> simp at hs <;> (try subst hs) <;> simp_all

/-! ## which blocks are started: exactly those up to the block that contains the chosen index -/
structure BlkInv (c : Cfg) (s : State) : Prop where
  done : (s.cpc = .lockT ∨ termPhase s.cpc = true) →
    s.blk ≤ c.blocks ∧
    (0 < s.blk → (flat c.less c.m ((s.blk - 1) * c.n)).2 = none ∧ (s.blk - 1) * c.n < c.m) ∧
    (s.blk < c.blocks → (flat c.less c.m (s.blk * c.n)).2.isSome = true)

theorem termPhase_loopHead (c : Cfg) (i : Nat) (b : Bool) : termPhase (loopHead c i b) = false := by
  simp only [loopHead]; split <;> rfl

theorem blkInv_init (c : Cfg) : BlkInv c (init c) := by
  constructor; intro h; rcases h with h | h <;> simp [init, termPhase] at h

theorem blkInv_stepC (c : Cfg) (hn : 0 < c.n) (s s' : State) (hi : Inv c s) (h : BlkInv c s)
    (hs : stepC c s = some s') : BlkInv c s' := by
  have hd := h.done
  cases hp : s.cpc with
  | final => simp [stepC, hp] at hs
  | waiting => simp [stepC, hp] at hs
  | create k =>
    simp only [stepC, hp] at hs; injection hs with hs; subst hs
    have hb : s.blk = 0 := (hi.accCreate (by simp [hp, isCreate])).2.2
    constructor
    intro hx
    dsimp only at hx ⊢
    split at hx
    · rcases hx with hx | hx <;> simp [termPhase] at hx
    · have hl : loopHead c 0 false = .lockT := by
        rcases hx with hx | hx
        · exact hx
        · rw [termPhase_loopHead] at hx; cases hx
      have hb0 : ¬ 0 < c.blocks := by
        intro h0; simp [loopHead, h0] at hl
      rw [hb]
      exact ⟨Nat.zero_le _, fun h0 => absurd h0 (Nat.lt_irrefl 0), fun h0 => absurd h0 hb0⟩
  | unlockB =>
    have hall := hi.unlockBAll hp
    have hacc := hi.accLoop (Or.inr (by simp [hp, inBlock]))
    have hvals : ∀ j, j < c.active s.blk → s.val j = some (s.blk * c.n + j) := fun j hj => by
      have h1 := (hi.blockVals (by simp [hp, inBlock]) j hj).2
      rcases h1 with h1 | h1
      · rw [hall j hj] at h1; cases h1
      · exact h1
    have hscan : scan c s.val s.blk (s.base, s.chosen) = flat c.less c.m (s.blk * c.n + c.active s.blk) := by
      rw [hacc.1]; exact scan_flat c s.val s.blk hvals
    simp only [stepC, hp] at hs; injection hs with hs; subst hs
    constructor
    intro hx
    dsimp only at hx ⊢
    have hl : loopHead c (s.blk + 1) (scan c s.val s.blk (s.base, s.chosen)).2.isSome = .lockT := by
      rcases hx with hx | hx
      · exact hx
      · rw [termPhase_loopHead] at hx; cases hx
    have hlt : s.blk < c.blocks := (lt_blocks_iff c hn s.blk).mpr hacc.2.2
    refine ⟨hlt, fun _ => ?_, fun hlt2 => ?_⟩
    · simp only [Nat.add_sub_cancel]
      have := hacc.1
      exact ⟨by rw [← this]; exact hacc.2.1, hacc.2.2⟩
    · -- another block exists, so the loop was left because `success` was set
      have hsome : (scan c s.val s.blk (s.base, s.chosen)).2.isSome = true := by
        cases hq : (scan c s.val s.blk (s.base, s.chosen)).2.isSome with
        | true => rfl
        | false => simp [loopHead, hq, hlt2] at hl
      have hfull : c.active s.blk = c.n := by
        have := (lt_blocks_iff c hn (s.blk + 1)).mp hlt2
        simp only [Cfg.active, Nat.succ_mul] at this ⊢
        omega
      rw [hscan, hfull] at hsome
      rw [Nat.succ_mul]; exact hsome
  | _ =>
    have hfr := stepC_blk c s s' hs (by rw [hp]; simp)
    constructor
    intro hx
    have hx0 : s.cpc = .lockT ∨ termPhase s.cpc = true := by
      simp only [stepC, hp] at hs
      (try split at hs) <;> (try cases hs) <;> simp_all [termPhase, loopHead]
      all_goals (split at hx <;> simp at hx)
    rw [hfr]; exact hd hx0

theorem stepW_blkframe (s s' : State) (w : Nat) (hs : stepW s w = some s') :
    s'.blk = s.blk ∧ (s'.cpc = s.cpc ∨ s'.cpc = wakeC s.cpc) := by
  unfold stepW at hs
  split at hs <;> (try split at hs) <;> simp at hs <;> (try subst hs) <;> simp_all

theorem blkInv_stepW (c : Cfg) (s s' : State) (w : Nat) (h : BlkInv c s) (hs : stepW s w = some s') : BlkInv c s' := by
  obtain ⟨h1, h2⟩ := stepW_blkframe s s' w hs
  constructor
  intro hx
  rw [h1]
  apply h.done
  rcases h2 with h2 | h2 <;> rw [h2] at hx
  · exact hx
  · simpa using hx

theorem blkInv_spur (c : Cfg) (s s' : State) (t : Nat) (h : BlkInv c s) (hs : spur? c s t = some s') : BlkInv c s' := by
  constructor
  intro hx
  unfold spur? at hs
  split at hs <;> split at hs <;> simp at hs <;> subst hs
  · rcases hx with hx | hx <;> simp [termPhase] at hx
  · exact h.done hx

theorem reach_blkInv (c : Cfg) (hn : 0 < c.n) {s : State} (h : Reach c s) : BlkInv c s := by
  induction h with
  | init => exact blkInv_init c
  | step t hr hs ih =>
    cases t with
    | zero => exact blkInv_stepC c hn _ _ (reach_inv c hn hr) ih hs
    | succ w =>
      simp only [step?] at hs
      split at hs
      · exact blkInv_stepW c _ _ w ih hs
      · cases hs
  | spur t _ hs ih => exact blkInv_spur c _ _ t ih hs

theorem chosen_ge_of_flat_none (less : Nat → Nat → Bool) (m K k : Nat) (hnone : (flat less m K).2 = none)
    (hk1 : 1 ≤ k) (hk : less k 0 = true ∨ k = m - 1) : K ≤ k := by
  apply Classical.byContradiction
  intro hlt
  have hlt : k < K := by omega
  rcases flat_selInv less m K (by omega) with ⟨_, hall⟩ | ⟨k', _, _, hacc, _⟩
  · have := hall k hk1 hlt
    rcases hk with hk | hk
    · rw [this.1] at hk; cases hk
    · exact this.2 hk
  · rw [hacc] at hnone; cases hnone

theorem chosen_lt_of_flat_some (less : Nat → Nat → Bool) (m K k : Nat) (f : Bool) (hK : K ≤ m)
    (hsome : (flat less m K).2.isSome = true) (hsel : selectSeq less m = (some 0, some (some k, f))) : k < K := by
  have hK1 : 1 ≤ K := by
    rcases Nat.eq_zero_or_pos K with h0 | h0
    · subst h0; simp [flat_zero] at hsome
    · exact h0
  have hst := flat_stable less m K hsome (m - K)
  have e : K + (m - K) = m := by omega
  rw [e] at hst
  rcases flat_selInv less m K hK1 with ⟨hacc, _⟩ | ⟨k', _, hk', hacc, _⟩
  · rw [hacc] at hsome; cases hsome
  · have : selectSeq less m = flat less m K := hst
    rw [this, hacc] at hsel
    have : k' = k := by
      have := congrArg (fun a => a.2) hsel
      simp at this
      exact this.1
    omega

/-! ## the futile cycle: a waiting worker whose state is WAIT is woken spuriously, re-acquires the mutex, sees WAIT
and waits again -/
def futileCycle (w : Nat) : List (Nat × Bool) := [(w+1, true), (w+1, false), (w+1, false)]

theorem upd_upd_self {α : Type} (f : Nat → α) (w : Nat) (a b : α) : upd (upd f w a) w b = upd f w b := by
  funext k; simp only [upd]; split <;> rfl
theorem upd_same {α : Type} (f : Nat → α) (w : Nat) : upd f w (f w) = f := by
  funext k; simp only [upd]; split
  · rename_i h; rw [h]
  · rfl

theorem futileCycle_runs (c : Cfg) (s : State) (w : Nat) (hw : w < c.n) (hp : s.wpc w = .waiting)
    (hst : s.st w = .wait) (ho : s.owner = none) :
    ∃ s1 s2, spur? c s (w+1) = some s1 ∧ step? c s1 (w+1) = some s2 ∧ step? c s2 (w+1) = some s ∧
      s2.owner = some (w+1) ∧ s1.cpc = s.cpc ∧ s2.cpc = s.cpc := by
  refine ⟨{ s with wpc := upd s.wpc w .woken }, { s with owner := some (w+1), wpc := upd s.wpc w .hold }, ?_, ?_, ?_, rfl,
    rfl, rfl⟩
  · simp [spur?, hw, hp]
  · simp [step?, hw, stepW, upd, ho, upd_upd_self]
  · simp only [step?, hw, if_true, stepW, upd, hst]
    simp only [upd_upd_self]
    rw [← hp, upd_same, ← ho]

/-! ## weak fairness of an infinite execution; the lasso built from a prefix of three steps and the futile cycle -/
/-- `e` is weakly fair for thread `t`: it is not the case that from some point on `t` is always enabled and never
    takes a step (◇□enabled → □◇taken) -/
def Exec.WeakFair {c : Cfg} (e : Exec c) (t : Nat) : Prop :=
  ∀ N, (∃ i, N ≤ i ∧ e.lab i = (t, false)) ∨ (∃ i, N ≤ i ∧ step? c (e.st i) t = none)

/-- `e` is strongly fair for thread `t`: if `t` is enabled infinitely often it takes infinitely many steps -/
def Exec.StrongFair {c : Cfg} (e : Exec c) (t : Nat) : Prop :=
  (∀ N, ∃ i, N ≤ i ∧ (step? c (e.st i) t).isSome = true) → ∀ N, ∃ i, N ≤ i ∧ e.lab i = (t, false)

/-- phase of the lasso: 0,1,2 (prefix) then 3,4,5,3,4,5,… -/
def lassoPh : Nat → Nat
  | 0 => 0
  | i+1 => if lassoPh i = 5 then 3 else lassoPh i + 1

theorem lassoPh_le (i : Nat) : lassoPh i ≤ 5 := by
  induction i with
  | zero => simp [lassoPh]
  | succ i ih => simp only [lassoPh]; split <;> omega

theorem lassoPh_hits5 (N : Nat) : ∃ i, N ≤ i ∧ lassoPh i = 5 := by
  have h := lassoPh_le N
  have e1 : ∀ i, lassoPh (i+1) = if lassoPh i = 5 then 3 else lassoPh i + 1 := fun _ => rfl
  have hc : lassoPh N = 0 ∨ lassoPh N = 1 ∨ lassoPh N = 2 ∨ lassoPh N = 3 ∨ lassoPh N = 4 ∨ lassoPh N = 5 := by omega
  rcases hc with h0 | h0 | h0 | h0 | h0 | h0
  · exact ⟨N+5, by omega, by simp [e1, h0]⟩
  · exact ⟨N+4, by omega, by simp [e1, h0]⟩
  · exact ⟨N+3, by omega, by simp [e1, h0]⟩
  · exact ⟨N+2, by omega, by simp [e1, h0]⟩
  · exact ⟨N+1, by omega, by simp [e1, h0]⟩
  · exact ⟨N, Nat.le_refl N, h0⟩

/-- An infinite execution from six states and six labels: `S 0 → S 1 → S 2 → S 3 → S 4 → S 5 → S 3 → …` -/
def lassoExec (c : Cfg) (S : Nat → State) (L : Nat → Nat × Bool) (h0 : S 0 = init c)
    (hstep : ∀ k, k < 5 → stepL c (S k) (L k) = some (S (k+1))) (hback : stepL c (S 5) (L 5) = some (S 3)) : Exec c where
  st i := S (lassoPh i)
  lab i := L (lassoPh i)
  start := h0
  next i := by
    show stepL c (S (lassoPh i)) (L (lassoPh i)) = some (S (if lassoPh i = 5 then 3 else lassoPh i + 1))
    have := lassoPh_le i
    by_cases h5 : lassoPh i = 5
    · rw [if_pos h5, h5]; exact hback
    · rw [if_neg h5]; exact hstep _ (by omega)

end PsV.Sync
