import PsV.Proofs.Convolve
import PsV.Spec.Convolve
import Mathlib.Algebra.Order.Field.Rat
import Mathlib.Tactic.FieldSimp
/-! Helper lemmas for C14: the coefficient loops cell by cell, the shape of `convolve`'s result. -/
namespace PsV
open Arith

section loops
variable {α : Type} [A : Arith α]

/-- what one cell of the new array goes through: `for l < nOld: acc = rnd(acc + trafo[j][l]*old[i][l][k])` -/
def cellFold (trafo old : Nat → α) (stride2 nOld i j k : Nat) (v : α) : α :=
  loopN nOld (fun l v => cellStep trafo old stride2 nOld i j l k v) v

theorem view_kLoop (trafo old : Nat → α) (s2 nNew nOld i j l : Nat) (c : Array α) :
    view (kLoop trafo old s2 nNew nOld i j l c) =
      winO (i*s2*nNew + j*s2) s2 (fun k => cellStep trafo old s2 nOld i j l k) (view c) := by
  unfold kLoop
  exact loopN_cells _ (i*s2*nNew + j*s2) (fun k => cellStep trafo old s2 nOld i j l k)
    (fun b a => view_modify a _ _) s2 c

theorem view_lLoop (trafo old : Nat → α) (s2 nNew nOld i j : Nat) (c : Array α) :
    view (lLoop trafo old s2 nNew nOld i j c) =
      winO (i*s2*nNew + j*s2) s2 (fun k => cellFold trafo old s2 nOld i j k) (view c) := by
  unfold lLoop
  exact loopN_repeat _ (i*s2*nNew + j*s2) s2 (fun l k => cellStep trafo old s2 nOld i j l k)
    (fun l a => view_kLoop trafo old s2 nNew nOld i j l a) nOld c

theorem view_jLoop (trafo old : Nat → α) (s2 nNew nOld i : Nat) (c : Array α) :
    view (jLoop trafo old s2 nNew nOld i c) =
      winO (i*s2*nNew) (nNew*s2) (fun r => cellFold trafo old s2 nOld i (r / s2) (r % s2)) (view c) := by
  unfold jLoop
  exact loopN_tiles _ (i*s2*nNew) s2 (fun j => i*s2*nNew + j*s2) (fun j k => cellFold trafo old s2 nOld i j k)
    (fun _ => rfl) (fun j a => view_lLoop trafo old s2 nNew nOld i j a) nNew c

theorem view_coefLoops (trafo old : Nat → α) (s1 s2 nNew nOld : Nat) (c : Array α) :
    view (coefLoops trafo old s1 s2 nNew nOld c) =
      winO 0 (s1*(nNew*s2))
        (fun R => cellFold trafo old s2 nOld (R / (nNew*s2)) ((R % (nNew*s2)) / s2) ((R % (nNew*s2)) % s2)) (view c) := by
  unfold coefLoops
  exact loopN_tiles _ 0 (nNew*s2) (fun i => i*s2*nNew)
    (fun i r => cellFold trafo old s2 nOld i (r / s2) (r % s2))
    (fun i => by ring) (fun i a => view_jLoop trafo old s2 nNew nOld i a) s1 c

theorem coefLoops_cell (trafo old : Nat → α) (s1 s2 nNew nOld : Nat) (init : Array α)
    (i j k : Nat) (hi : i < s1) (hj : j < nNew) (hk : k < s2) :
    (coefLoops trafo old s1 s2 nNew nOld init)[i*s2*nNew + j*s2 + k]? =
      (init[i*s2*nNew + j*s2 + k]?).map (cellFold trafo old s2 nOld i j k) := by
  have hv := congrFun (view_coefLoops trafo old s1 s2 nNew nOld init) (i*s2*nNew + j*s2 + k)
  simp only [view, winO] at hv
  rw [hv]
  have hjk : j*s2 + k < nNew*s2 := by
    calc j*s2 + k < j*s2 + s2 := by omega
      _ = (j+1)*s2 := by ring
      _ ≤ nNew*s2 := Nat.mul_le_mul_right s2 hj
  have hp : i*s2*nNew + j*s2 + k = (j*s2 + k) + i*(nNew*s2) := by ring
  have hin : 0 ≤ i*s2*nNew + j*s2 + k ∧ i*s2*nNew + j*s2 + k < 0 + s1*(nNew*s2) := by
    refine ⟨Nat.zero_le _, ?_⟩
    calc i*s2*nNew + j*s2 + k = (j*s2 + k) + i*(nNew*s2) := hp
      _ < nNew*s2 + i*(nNew*s2) := by omega
      _ = (i+1)*(nNew*s2) := by ring
      _ ≤ s1*(nNew*s2) := Nat.mul_le_mul_right _ hi
      _ = 0 + s1*(nNew*s2) := by omega
  rw [if_pos hin]
  have hW : 0 < nNew*s2 := by omega
  have hs2 : 0 < s2 := by omega
  have e1 : (i*s2*nNew + j*s2 + k - 0) / (nNew*s2) = i := by
    rw [Nat.sub_zero, hp, Nat.add_mul_div_right _ _ hW, Nat.div_eq_of_lt hjk]; omega
  have e2 : (i*s2*nNew + j*s2 + k - 0) % (nNew*s2) = j*s2 + k := by
    rw [Nat.sub_zero, hp, Nat.add_mul_mod_self_right, Nat.mod_eq_of_lt hjk]
  have e3 : (j*s2 + k) / s2 = j := by
    rw [Nat.add_comm, Nat.add_mul_div_right _ _ hs2, Nat.div_eq_of_lt hk]; omega
  have e4 : (j*s2 + k) % s2 = k := by
    rw [Nat.add_comm, Nat.add_mul_mod_self_right, Nat.mod_eq_of_lt hk]
  rw [e1, e2, e3, e4]

theorem size_loopN (F : Nat → Array α → Array α) (hF : ∀ b a, (F b a).size = a.size) :
    ∀ n a, (loopN n F a).size = a.size
  | 0, _ => rfl
  | n+1, a => by rw [loopN, hF, size_loopN F hF n a]

theorem coefLoops_size (trafo old : Nat → α) (s1 s2 nNew nOld : Nat) (c : Array α) :
    (coefLoops trafo old s1 s2 nNew nOld c).size = c.size := by
  unfold coefLoops
  apply size_loopN; intro i a
  unfold jLoop; apply size_loopN; intro j a
  unfold lLoop; apply size_loopN; intro l a
  unfold kLoop; apply size_loopN; intro k a
  exact Array.size_modify

end loops

theorem cellFold_rat (trafo old : Nat → Rat) (s2 nOld i j k : Nat) :
    cellFold trafo old s2 nOld i j k (Arith.rnd Arith.zero) =
      ∑ l ∈ Finset.range nOld, trafo (j*nOld + l) * old (i*s2*nOld + l*s2 + k) := by
  unfold cellFold
  generalize hm : nOld = m
  have : ∀ n, loopN n (fun l v => cellStep trafo old s2 m i j l k v) (Arith.rnd Arith.zero) =
      ∑ l ∈ Finset.range n, trafo (j*m + l) * old (i*s2*m + l*s2 + k) := by
    intro n
    induction n with
    | zero => rfl
    | succ n ih =>
      rw [loopN, ih, Finset.sum_range_succ]
      rfl
  exact this m

/-! ## strides -/

theorem rowMajor_split (naxes : List Nat) (dim nNew : Nat) (h : dim < naxes.length) :
    (rowMajor (setAt naxes dim nNew)).2 =
      prodL ((setAt naxes dim nNew).take dim) * nNew * prodL ((setAt naxes dim nNew).drop (dim+1)) := by
  rw [rowMajor_total, prodL_eq, prodL_eq]
  unfold setAt
  have hl : dim < (naxes.set dim nNew).length := by simpa using h
  conv_lhs => rw [← List.take_append_drop dim (naxes.set dim nNew)]
  rw [List.prod_append, List.drop_eq_getElem_cons hl, List.prod_cons, List.getElem_set_self]
  ring

/-! ## shape -/

section shape
variable {α : Type}

theorem pairSums_length [A : Arith α] (ks cks : List α) : (pairSums ks cks).length = ks.length * cks.length := by
  unfold pairSums
  induction ks with
  | nil => simp
  | cons a t ih => simp only [List.flatMap_cons, List.length_append, List.length_map, ih, List.length_cons]; ring

theorem restride_getElem? (l : List (CDim α)) (strides : List Nat) (j : Nat) :
    (restride l strides)[j]? = (l[j]?).map fun e => { e with stride := strides.getD j 0 } := by
  unfold restride
  rw [List.getElem?_map, List.getElem?_zipIdx]
  cases l[j]? <;> simp

theorem restride_length (l : List (CDim α)) (strides : List Nat) : (restride l strides).length = l.length := by
  unfold restride; simp

theorem restride_naxes (l : List (CDim α)) (strides : List Nat) :
    (restride l strides).map (·.naxes) = l.map (·.naxes) := by
  apply List.ext_getElem?
  intro j
  rw [List.getElem?_map, restride_getElem?, List.getElem?_map]
  cases l[j]? <;> simp

end shape

theorem setAt_self {β : Type} (l : List β) (i : Nat) (v : β) (h : i < l.length) : (setAt l i v)[i]? = some v := by
  unfold setAt; exact List.getElem?_set_self h

theorem setAt_ne {β : Type} (l : List β) (i j : Nat) (v : β) (h : j ≠ i) : (setAt l i v)[j]? = l[j]? := by
  unfold setAt; exact List.getElem?_set_ne (Ne.symm h)

theorem setAt_map_naxes {α : Type} (l : List (CDim α)) (i : Nat) (v : CDim α) :
    (setAt l i v).map (·.naxes) = setAt (l.map (·.naxes)) i v.naxes := by
  simp [setAt, List.map_set]

theorem sortKnots_perm (l : List Rat) : (sortKnots l).Perm l := List.mergeSort_perm _ _

theorem sortKnots_sorted (l : List Rat) : (sortKnots l).Pairwise (· ≤ ·) := by
  unfold sortKnots
  have h := List.pairwise_mergeSort (le := fun a b : Rat => Arith.le a b)
    (by intro a b c hab hbc
        have h1 : a ≤ b := of_decide_eq_true hab
        have h2 : b ≤ c := of_decide_eq_true hbc
        exact decide_eq_true (le_trans h1 h2))
    (by intro a b
        rcases le_total a b with h | h
        · have : Arith.le a b = true := decide_eq_true h
          simp [this]
        · have : Arith.le b a = true := decide_eq_true h
          simp [this]) l
  exact h.imp (fun hab => of_decide_eq_true hab)

theorem convolve_shape (T : CTable Rat) (dim : Nat) (ck : List Rat) (d : CDim Rat)
    (hd : T.dims[dim]? = some d) (hk : d.knots.length = d.nknots) :
    ∃ R, convolve T dim ck = some R ∧ R.dims.length = T.dims.length ∧
      (∃ d', R.dims[dim]? = some d' ∧
         d'.order = d.order + ck.length - 1 ∧
         d'.nknots = d.nknots * ck.length ∧ d'.knots.length = d'.nknots ∧
         d'.knots.Perm (pairSums d.knots ck) ∧ d'.knots.Pairwise (· ≤ ·) ∧
         d'.naxes = d'.nknots - d'.order - 1) ∧
      (∀ j e, j ≠ dim → T.dims[j]? = some e → ∃ e', R.dims[j]? = some e' ∧ e'.order = e.order ∧
         e'.nknots = e.nknots ∧ e'.naxes = e.naxes ∧ e'.knots = e.knots ∧ e'.extLo = e.extLo ∧ e'.extHi = e.extHi) ∧
      (∀ j e', R.dims[j]? = some e' → e'.stride = ((R.dims.map (·.naxes)).drop (j+1)).prod) ∧
      R.coef.size = (R.dims.map (·.naxes)).prod := by
  have hdim : dim < T.dims.length := by
    rcases Nat.lt_or_ge dim T.dims.length with h | h
    · exact h
    · rw [List.getElem?_eq_none h] at hd; cases hd
  have htake : d.knots.take d.nknots = d.knots := List.take_of_length_le (by omega)
  unfold convolve
  simp only [hd, htake]
  refine ⟨_, rfl, ?_, ?_, ?_, ?_, ?_⟩
  · simp [restride_length, setAt]
  · refine ⟨{ order := d.order + ck.length - 1, nknots := (sortKnots (pairSums d.knots ck)).length,
               naxes := (sortKnots (pairSums d.knots ck)).length - (d.order + ck.length - 1) - 1,
               stride := (rowMajor (setAt (T.dims.map (·.naxes)) dim
                  ((sortKnots (pairSums d.knots ck)).length - (d.order + ck.length - 1) - 1))).1.getD dim 0,
               knots := sortKnots (pairSums d.knots ck),
               extLo := if Arith.lt d.extLo (getK d.knots d.order) then getK (sortKnots (pairSums d.knots ck)) 0
                        else getK (sortKnots (pairSums d.knots ck)) (d.order + ck.length - 1),
               extHi := Arith.add d.extHi (getK ck 0) }, ?_, rfl, ?_, rfl, ?_, ?_, rfl⟩
    · rw [restride_getElem?, setAt_self _ _ _ hdim]
      rfl
    · show (sortKnots (pairSums d.knots ck)).length = _
      rw [(sortKnots_perm _).length_eq, pairSums_length, hk]
    · exact sortKnots_perm _
    · exact sortKnots_sorted _
  · intro j e hj he
    refine ⟨{ e with stride := (rowMajor (setAt (T.dims.map (·.naxes)) dim
                  ((sortKnots (pairSums d.knots ck)).length - (d.order + ck.length - 1) - 1))).1.getD j 0 },
              ?_, rfl, rfl, rfl, rfl, rfl, rfl⟩
    rw [restride_getElem?, setAt_ne _ _ _ _ hj, he]
    rfl
  · intro j e' he'
    rw [restride_getElem?] at he'
    obtain ⟨e, hq, he⟩ := Option.map_eq_some_iff.mp he'
    have hj : j < T.dims.length := by
      obtain ⟨h, _⟩ := List.getElem?_eq_some_iff.mp hq
      simpa [setAt] using h
    rw [restride_naxes, setAt_map_naxes, ← he]
    exact rowMajor_stride _ j (by simpa [setAt] using hj)
  · show (coefLoops _ _ _ _ _ _ _).size = _
    rw [coefLoops_size, Array.size_replicate, rowMajor_total, restride_naxes, setAt_map_naxes]

/-! ## specification calculus -/
namespace ConvSpec

theorem derivFrom_antiFrom : ∀ (i : Nat) (p : Poly), derivFrom i (antiFrom i p) = p
  | _, [] => rfl
  | i, c :: p => by
    have h : ((i : Rat) + 1) ≠ 0 := by positivity
    simp only [antiFrom, derivFrom, derivFrom_antiFrom (i+1) p]
    congr 1
    field_simp

theorem kernelArea_box (y : Nat → Rat) (h : y 0 ≠ y 1) : kernelArea y 1 = 1 := by
  have h' : y 1 - y 0 ≠ 0 := sub_ne_zero.mpr (Ne.symm h)
  simp [kernelArea, kpiece, bpiece, pscale, pintegral, pantideriv, antiFrom, peval]
  field_simp

end ConvSpec
end PsV
