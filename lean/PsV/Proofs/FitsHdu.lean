import PsV.Proofs.FitsBytes
/-! Helper lemmas for C08: what the encoder writes HDU by HDU is what the block reader reads back. -/
namespace PsV.C08

theorem endCard_length : endCard.length = 80 := by decide
theorem isEnd_endCard : isEnd endCard = true := by decide

/-! ### rows of 80 bytes -/

theorem flatten_length_uniform : ∀ (l : List Bytes), (∀ c ∈ l, c.length = 80) → l.flatten.length = 80 * l.length
  | [], _ => rfl
  | c :: l, h => by
    rw [List.flatten_cons, List.length_append,
      flatten_length_uniform l (fun c hc => h c (List.mem_cons_of_mem _ hc)), h c List.mem_cons_self,
      List.length_cons]
    omega

theorem chunks_flatten : ∀ (l : List Bytes) (tail : Bytes), (∀ c ∈ l, c.length = 80) →
    (List.range l.length).map (fun i => ((l.flatten ++ tail).drop (80 * i)).take 80) = l
  | [], _, _ => rfl
  | c :: l, tail, h => by
    have hc : c.length = 80 := h c List.mem_cons_self
    rw [List.length_cons, List.range_succ_eq_map, List.map_cons, List.map_map]
    congr 1
    · rw [Nat.mul_zero, List.drop_zero, List.flatten_cons, List.append_assoc]
      exact List.take_left' hc
    · conv => rhs; rw [← chunks_flatten l tail (fun c hc => h c (List.mem_cons_of_mem _ hc))]
      apply List.map_congr_left
      intro i _
      simp only [Function.comp, List.flatten_cons, List.append_assoc]
      have e : 80 * (i + 1) = c.length + 80 * i := by omega
      rw [e, ← List.drop_drop, List.drop_left]

theorem cardsOf_flatten (l : List Bytes) (hl : l.length = 36) (h : ∀ c ∈ l, c.length = 80) :
    cardsOf l.flatten = l := by
  have := chunks_flatten l [] h
  rw [List.append_nil, hl] at this
  exact this

/-! ### blocks -/

theorem padBlock_length (fill : Nat) (b : Bytes) :
    (padBlock fill b).length = b.length + (2880 - b.length % 2880) % 2880 := by
  unfold padBlock
  rw [List.length_append, List.length_replicate]

theorem padBlock_append (fill : Nat) (p q : Bytes) (hp : p.length % 2880 = 0) :
    padBlock fill (p ++ q) = p ++ padBlock fill q := by
  unfold padBlock
  have e : (p ++ q).length % 2880 = q.length % 2880 := by
    rw [List.length_append]; omega
  rw [e, List.append_assoc]

theorem takeBlock_append (b r : Bytes) (hb : b.length = 2880) : takeBlock (b ++ r) = some (b, r) := by
  unfold takeBlock
  rw [List.take_left' hb, List.drop_left' hb, if_pos hb]

theorem splitAtEnd_none : ∀ (l : List Bytes), (∀ c ∈ l, isEnd c = false) → splitAtEnd l = none
  | [], _ => rfl
  | c :: l, h => by
    unfold splitAtEnd
    rw [h c List.mem_cons_self, splitAtEnd_none l (fun c hc => h c (List.mem_cons_of_mem _ hc))]
    rfl

theorem splitAtEnd_end : ∀ (l more : List Bytes), (∀ c ∈ l, isEnd c = false) →
    splitAtEnd (l ++ endCard :: more) = some l
  | [], more, _ => by
    rw [List.nil_append]; unfold splitAtEnd; rw [isEnd_endCard]; rfl
  | c :: l, more, h => by
    rw [List.cons_append]
    unfold splitAtEnd
    rw [h c List.mem_cons_self, splitAtEnd_end l more (fun c hc => h c (List.mem_cons_of_mem _ hc))]
    rfl

/-- the last header block: the remaining cards, `END`, blank cards -/
theorem short_block (cards : List Bytes) (hlen : ∀ c ∈ cards, c.length = 80) (hn : cards.length < 36) :
    padBlock 32 (cards ++ [endCard]).flatten
      = (cards ++ endCard :: List.replicate (35 - cards.length) (List.replicate 80 32)).flatten := by
  have hl : (cards ++ [endCard]).flatten.length = 80 * (cards.length + 1) := by
    rw [flatten_length_uniform, List.length_append]; rfl
    intro c hc
    rcases List.mem_append.1 hc with h | h
    · exact hlen c h
    · rw [List.mem_singleton.1 h]; exact endCard_length
  have e : cards ++ endCard :: List.replicate (35 - cards.length) (List.replicate 80 32)
      = (cards ++ [endCard]) ++ List.replicate (35 - cards.length) (List.replicate 80 32) := by
    rw [List.append_assoc]; rfl
  unfold padBlock
  rw [e, List.flatten_append (L₁ := cards ++ [endCard]), List.flatten_replicate_replicate, hl]
  congr 2
  omega

theorem readHeader_short (cards : List Bytes) (rest : Bytes) (F : Nat)
    (hlen : ∀ c ∈ cards, c.length = 80) (hend : ∀ c ∈ cards, isEnd c = false) (hn : cards.length < 36) :
    readHeader (F + 1) (padBlock 32 (cards ++ [endCard]).flatten ++ rest) = some (cards, rest) := by
  have hL80 : ∀ c ∈ cards ++ endCard :: List.replicate (35 - cards.length) (List.replicate 80 32),
      c.length = 80 := by
    intro c hc
    rcases List.mem_append.1 hc with h | h
    · exact hlen c h
    · rcases List.mem_cons.1 h with h | h
      · rw [h]; exact endCard_length
      · rw [(List.mem_replicate.1 h).2, List.length_replicate]
  have hL36 : (cards ++ endCard :: List.replicate (35 - cards.length) (List.replicate 80 32)).length = 36 := by
    rw [List.length_append, List.length_cons, List.length_replicate]; omega
  have hB : (cards ++ endCard :: List.replicate (35 - cards.length) (List.replicate 80 32)).flatten.length
      = 2880 := by
    rw [flatten_length_uniform _ hL80, hL36]
  unfold readHeader
  rw [short_block cards hlen hn, takeBlock_append _ _ hB]
  simp only
  rw [cardsOf_flatten _ hL36 hL80, splitAtEnd_end _ _ hend]

/-- header bytes written by the encoder are read back: all cards, then the rest of the file untouched -/
theorem readHeader_enc (cards : List Bytes) (rest : Bytes) (F : Nat)
    (hlen : ∀ c ∈ cards, c.length = 80) (hend : ∀ c ∈ cards, isEnd c = false) (hF : cards.length / 36 < F) :
    readHeader F (padBlock 32 (cards ++ [endCard]).flatten ++ rest) = some (cards, rest) := by
  induction F generalizing cards with
  | zero => omega
  | succ F ih =>
    by_cases hn : cards.length < 36
    · exact readHeader_short cards rest F hlen hend hn
    · have hA80 : ∀ c ∈ cards.take 36, c.length = 80 := fun c hc => hlen c (List.mem_of_mem_take hc)
      have hB80 : ∀ c ∈ cards.drop 36, c.length = 80 := fun c hc => hlen c (List.mem_of_mem_drop hc)
      have hAe : ∀ c ∈ cards.take 36, isEnd c = false := fun c hc => hend c (List.mem_of_mem_take hc)
      have hBe : ∀ c ∈ cards.drop 36, isEnd c = false := fun c hc => hend c (List.mem_of_mem_drop hc)
      have hA36 : (cards.take 36).length = 36 := by rw [List.length_take]; omega
      have hAl : (cards.take 36).flatten.length = 2880 := by rw [flatten_length_uniform _ hA80, hA36]
      have hBF : (cards.drop 36).length / 36 < F := by rw [List.length_drop]; omega
      have e : padBlock 32 (cards ++ [endCard]).flatten
          = (cards.take 36).flatten ++ padBlock 32 (cards.drop 36 ++ [endCard]).flatten := by
        rw [← padBlock_append 32 _ _ (by rw [hAl]), ← List.flatten_append, ← List.append_assoc,
          List.take_append_drop]
      unfold readHeader
      rw [e, List.append_assoc, takeBlock_append _ _ hAl]
      simp only
      rw [cardsOf_flatten _ hA36 hA80, splitAtEnd_none _ hAe]
      simp only
      rw [ih (cards.drop 36) hB80 hBe hBF]
      simp only [List.take_append_drop]

theorem roundUp_eq_padBlock (fill : Nat) (data : Bytes) : roundUp data.length = (padBlock fill data).length := by
  rw [padBlock_length]; unfold roundUp; omega

theorem readHdu_encHdu (cards : List Bytes) (data rest : Bytes) (F : Nat)
    (hlen : ∀ c ∈ cards, c.length = 80) (hend : ∀ c ∈ cards, isEnd c = false) (hF : cards.length / 36 < F)
    (hd : dataLen cards = some data.length) :
    readHdu F (encHdu cards data ++ rest) = some (⟨cards, some data⟩, rest) := by
  unfold readHdu encHdu
  rw [List.append_assoc, readHeader_enc cards _ F hlen hend hF]
  simp only
  rw [hd]
  simp only
  have hr : roundUp data.length = (padBlock 0 data).length := roundUp_eq_padBlock 0 data
  have h1 : (padBlock 0 data ++ rest).take (roundUp data.length) = padBlock 0 data := List.take_left' hr.symm
  have h2 : (padBlock 0 data ++ rest).drop (roundUp data.length) = rest := List.drop_left' hr.symm
  have h3 : (padBlock 0 data ++ rest).take data.length = data := by
    unfold padBlock
    rw [List.append_assoc]
    exact List.take_left' rfl
  rw [h1, h2, h3, if_pos hr.symm]

theorem encHdu_length_ge (cards : List Bytes) (data : Bytes) (hlen : ∀ c ∈ cards, c.length = 80) :
    2880 ≤ (encHdu cards data).length ∧ 80 * cards.length < (encHdu cards data).length := by
  have hl : (cards ++ [endCard]).flatten.length = 80 * (cards.length + 1) := by
    rw [flatten_length_uniform, List.length_append]; rfl
    intro c hc
    rcases List.mem_append.1 hc with h | h
    · exact hlen c h
    · rw [List.mem_singleton.1 h]; exact endCard_length
  unfold encHdu
  rw [List.length_append, padBlock_length, padBlock_length, hl]
  omega

/-! ### sequences of HDUs -/

theorem readHdus_encHdus (F : Nat) : ∀ (hs : List (List Bytes × Bytes)) (f : Nat), hs.length < f →
    (∀ p ∈ hs, p.1.length / 36 < F) →
    (∀ p ∈ hs, (∀ c ∈ p.1, c.length = 80) ∧ (∀ c ∈ p.1, isEnd c = false) ∧ dataLen p.1 = some p.2.length) →
    readHdus F f ((hs.map fun p => encHdu p.1 p.2).flatten) = hs.map fun p => (⟨p.1, some p.2⟩ : Hdu)
  | [], f, _, _, _ => readHdus_nil F f
  | p :: hs, 0, hf, _, _ => absurd hf (by omega)
  | p :: hs, f+1, hf, hF, hok => by
    obtain ⟨h1, h2, h3⟩ := hok p List.mem_cons_self
    rw [List.map_cons, List.flatten_cons, List.map_cons]
    unfold readHdus
    rw [readHdu_encHdu p.1 p.2 _ F h1 h2 (hF p List.mem_cons_self) h3]
    simp only
    rw [readHdus_encHdus F hs f (by rw [List.length_cons] at hf; omega)
      (fun q hq => hF q (List.mem_cons_of_mem _ hq)) (fun q hq => hok q (List.mem_cons_of_mem _ hq))]

theorem encHdus_length : ∀ (hs : List (List Bytes × Bytes)), (∀ p ∈ hs, ∀ c ∈ p.1, c.length = 80) →
    hs.length ≤ ((hs.map fun p => encHdu p.1 p.2).flatten).length ∧
    ∀ p ∈ hs, 80 * p.1.length < ((hs.map fun p => encHdu p.1 p.2).flatten).length
  | [], _ => ⟨Nat.le_refl _, fun _ hp => absurd hp (by simp)⟩
  | q :: hs, h => by
    obtain ⟨ih1, ih2⟩ := encHdus_length hs (fun p hp => h p (List.mem_cons_of_mem _ hp))
    obtain ⟨g1, g2⟩ := encHdu_length_ge q.1 q.2 (h q List.mem_cons_self)
    rw [List.map_cons, List.flatten_cons, List.length_append, List.length_cons]
    refine ⟨by omega, ?_⟩
    intro p hp
    rcases List.mem_cons.1 hp with rfl | hp
    · omega
    · have := ih2 p hp; omega

/-- the HDU list of a concatenation of encoded HDUs -/
theorem hdusOf_encHdus (hs : List (List Bytes × Bytes))
    (hok : ∀ p ∈ hs, (∀ c ∈ p.1, c.length = 80) ∧ (∀ c ∈ p.1, isEnd c = false) ∧ dataLen p.1 = some p.2.length) :
    hdusOf ((hs.map fun p => encHdu p.1 p.2).flatten) = hs.map fun p => (⟨p.1, some p.2⟩ : Hdu) := by
  obtain ⟨g1, g2⟩ := encHdus_length hs (fun p hp => (hok p hp).1)
  unfold hdusOf
  apply readHdus_encHdus _ hs _ (by omega) _ hok
  intro p hp
  have := g2 p hp
  omega

end PsV.C08
