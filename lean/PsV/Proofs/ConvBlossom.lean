import PsV.Proofs.ConvDivDiff
import PsV.Proofs.ConvMarsden
/-!
# `convoluted_blossom` in closed form, and its sum against the new basis

* `convolutedBlossom_eq`: at `Rat`, including the two early exits, the model's `convolutedBlossom` is
  `(x_{nx-1} − x_0) · [x_0..]_a [y_0..]_b g(x_a + y_b)` with `g(s) = (s − z)_+^0 · Π_m (s − bags_m)`.
* `blossom_sum`: summed against the polynomial pieces `Bp` of the new basis on a non-empty knot interval `left`,
  the blossoms give the double divided difference of the truncated power `(x_a + y_b − u)_+^n`
  (Marsden's identity, truncated at the knot values `x_a + y_b`).
-/
namespace PsV
open Finset

/-- `(s − z)_+^0 · Π_{m<nbags} (s − bags m)` -/
def blossomG (z : Rat) (bags : Nat → Rat) (nbags : Nat) (s : Rat) : Rat :=
  if z < s then linProd bags nbags s else 0

theorem detLoop_eq (s : Rat) (bags : Nat → Rat) : ∀ nbags, detLoop s bags nbags = linProd bags nbags s
  | 0 => by simp [detLoop, loopN, linProd]
  | n+1 => by
    have ih := detLoop_eq s bags n
    unfold detLoop at ih ⊢
    rw [loopN, ih, linProd_succ]
    show linProd bags n s * (s - bags n) = _
    ring

theorem blossomEntry_eq (xi : Rat) (y : Nat → Rat) (z : Rat) (bags : Nat → Rat) (nbags j : Nat) :
    blossomEntry xi y z bags nbags j = blossomG z bags nbags (xi + y j) := by
  unfold blossomEntry blossomG
  simp only [detLoop_eq]
  show (if decide ((0:Rat) < xi + y j - z) = true then _ else (0:Rat)) = _
  by_cases h : z < xi + y j
  · have : (0:Rat) < xi + y j - z := by linarith
    simp [h, this]
  · have : ¬ (0:Rat) < xi + y j - z := by linarith
    simp [h, this]

theorem rd_tab (n : Nat) (f : Nat → Rat) (i : Nat) (h : i < n) : rd (tab n f) i = f i := by
  unfold rd tab
  simp [Array.getD, h]

/-- the raw double difference that `convolutedBlossom` computes when it does not exit early -/
theorem convolutedBlossom_raw (x : Nat → Rat) (nx : Nat) (y : Nat → Rat) (ny : Nat) (z : Rat) (bags : Nat → Rat) (nbags : Nat) :
    convolutedBlossom x nx y ny z bags nbags =
      if blossomDisjoint x nx y ny z bags nbags then 0
      else (x (nx-1) - x 0) * dd2 x y (fun a b => blossomG z bags nbags (x a + y b)) nx 0 ny 0 := by
  unfold convolutedBlossom
  split
  · rfl
  · show (x (nx-1) - x 0) * _ = _
    congr 1
    unfold dd2
    apply dd_congr
    intro a _ ha
    rw [rd_tab _ _ a (by omega)]
    apply dd_congr
    intro b _ hb
    rw [rd_tab _ _ b (by omega)]
    exact blossomEntry_eq _ _ _ _ _ _

theorem blossomDisjoint_iff (x : Nat → Rat) (nx : Nat) (y : Nat → Rat) (ny : Nat) (z : Rat) (bags : Nat → Rat) (nbags : Nat) :
    blossomDisjoint x nx y ny z bags nbags = true ↔ (z < x 0 + y 0 ∨ x (nx-1) + y (ny-1) < bags (nbags-1)) := by
  unfold blossomDisjoint
  show (decide (z < x 0 + y 0) || decide (x (nx-1) + y (ny-1) < bags (nbags-1))) = true ↔ _
  simp

/-- **closed form of `convoluted_blossom`** (both early exits agree with the full formula) -/
theorem convolutedBlossom_eq (x : Nat → Rat) (nx : Nat) (y : Nat → Rat) (ny : Nat) (z : Rat) (bags : Nat → Rat) (nbags : Nat)
    (hnx : 1 ≤ nx) (hny : 1 ≤ ny) (hdeg : nbags + 3 ≤ nx + ny)
    (hx : ∀ a b, a < b → b < nx → x a < x b) (hy : ∀ a b, a < b → b < ny → y a < y b)
    (hmem : ∀ a b, a < nx → b < ny → z < x a + y b → x a + y b < bags (nbags-1) → ∃ m, m < nbags ∧ x a + y b = bags m) :
    convolutedBlossom x nx y ny z bags nbags =
      (x (nx-1) - x 0) * dd2 x y (fun a b => blossomG z bags nbags (x a + y b)) nx 0 ny 0 := by
  rw [convolutedBlossom_raw]
  split
  · rename_i hdis
    rw [blossomDisjoint_iff] at hdis
    have hxle : ∀ a, a < nx → x 0 ≤ x a ∧ x a ≤ x (nx-1) := by
      intro a ha
      constructor
      · rcases Nat.eq_zero_or_pos a with h | h
        · subst h; exact le_refl _
        · exact le_of_lt (hx 0 a h ha)
      · rcases Nat.lt_or_ge a (nx-1) with h | h
        · exact le_of_lt (hx a (nx-1) h (by omega))
        · have : a = nx - 1 := by omega
          subst this; exact le_refl _
    have hyle : ∀ b, b < ny → y 0 ≤ y b ∧ y b ≤ y (ny-1) := by
      intro b hb
      constructor
      · rcases Nat.eq_zero_or_pos b with h | h
        · subst h; exact le_refl _
        · exact le_of_lt (hy 0 b h hb)
      · rcases Nat.lt_or_ge b (ny-1) with h | h
        · exact le_of_lt (hy b (ny-1) h (by omega))
        · have : b = ny - 1 := by omega
          subst this; exact le_refl _
    rcases hdis with h1 | h2
    · -- every node lies above z: a polynomial of too low a degree
      have : dd2 x y (fun a b => blossomG z bags nbags (x a + y b)) nx 0 ny 0 =
          dd2 x y (fun a b => linProd bags nbags (x a + y b)) nx 0 ny 0 := by
        apply dd2_congr
        intro a b _ ha _ hb
        unfold blossomG
        have : z < x a + y b := by
          have := (hxle a (by omega)).1; have := (hyle b (by omega)).1; linarith
        simp [this]
      rw [this, dd2_linProd_zero x y bags 0 0 nbags nx ny
        (distinctOn_of_strictMono (fun a b _ hab hb => hx a b hab (by omega)))
        (distinctOn_of_strictMono (fun a b _ hab hb => hy a b hab (by omega))) hnx hny hdeg]
      ring
    · -- every node above z is one of the bags
      have : dd2 x y (fun a b => blossomG z bags nbags (x a + y b)) nx 0 ny 0 =
          dd2 x y (fun _ _ => 0) nx 0 ny 0 := by
        apply dd2_congr
        intro a b _ ha _ hb
        unfold blossomG
        split
        · rename_i hz
          have hlt : x a + y b < bags (nbags-1) := by
            have := (hxle a (by omega)).2; have := (hyle b (by omega)).2; linarith
          obtain ⟨m, hm, he⟩ := hmem a b (by omega) (by omega) hz hlt
          unfold linProd
          apply Finset.prod_eq_zero (mem_range.mpr hm)
          rw [he]; ring
        · rfl
      rw [this, dd2_zero_fun]; ring
  · rfl

/-- `dualPoly` of Marsden's identity is the product that `detLoop` builds -/
theorem dualPoly_eq_linProd (t : Int → Rat) (n : Nat) (i : Int) (c : Rat) :
    dualPoly t n i c = linProd (fun m => t (i + 1 + m)) n c := rfl

/-- **the blossoms against the new basis**: on the non-empty interval `left` of the knots `t` (sorted on the
window), if every node `x_a + y_b` is a knot value (`hside`, `hknot`), then
`Σ_i scale·[x][y] g_i(x_a+y_b) · B_{i,n}(u) = scale·[x][y] (x_a + y_b − u)_+^n`, the truncated power cut at the
interval. -/
theorem blossom_sum (x y : Nat → Rat) (nx ox ny oy : Nat) (t : Int → Rat) (u : Rat) (left : Int) (n : Nat)
    (hne : t left < t (left + 1))
    (hmono : ∀ a b : Int, left - n ≤ a → a ≤ b → b ≤ left + n + 1 → t a ≤ t b)
    (hside : ∀ a b, ox ≤ a → a < ox + nx → oy ≤ b → b < oy + ny → (x a + y b ≤ t left ∨ t (left+1) ≤ x a + y b))
    (hknot : ∀ a b, ox ≤ a → a < ox + nx → oy ≤ b → b < oy + ny → x a + y b ≤ t left →
      ∀ i : Int, left - n ≤ i → i ≤ left → t i < x a + y b → ∃ m : Nat, m < n ∧ x a + y b = t (i + 1 + m)) :
    ∑ k ∈ range (n+1),
        dd2 x y (fun a b => blossomG (t (left - n + k)) (fun m => t (left - n + k + 1 + m)) n (x a + y b)) nx ox ny oy
          * Bp t u left n (left - n + k)
      = dd2 x y (fun a b => if t (left+1) ≤ x a + y b then (x a + y b - u)^n else 0) nx ox ny oy := by
  have h1 : ∀ k, dd2 x y (fun a b => blossomG (t (left - n + k)) (fun m => t (left - n + k + 1 + m)) n (x a + y b)) nx ox ny oy
          * Bp t u left n (left - n + k) =
      dd2 x y (fun a b => Bp t u left n (left - n + k) *
        blossomG (t (left - n + k)) (fun m => t (left - n + k + 1 + m)) n (x a + y b)) nx ox ny oy := by
    intro k
    rw [dd2_smul]; ring
  simp only [h1]
  rw [← dd2_sum]
  apply dd2_congr
  intro a b ha1 ha2 hb1 hb2
  have := Bp_marsden_trunc t u (x a + y b) left hne n hmono (hside a b ha1 ha2 hb1 hb2)
    (hknot a b ha1 ha2 hb1 hb2)
  rw [← this]
  apply Finset.sum_congr rfl
  intro k _
  unfold blossomG
  rw [dualPoly_eq_linProd]
  ring

end PsV
