import PsV.Proofs.NormalEq
import Mathlib.LinearAlgebra.Matrix.NonsingularInverse
/-!
# C09: a positive-definite system of normal equations has a solution

`PosDef n M` makes `v ↦ M v` injective on `Fin n → α`, hence (finite dimension) surjective.
-/
namespace PsV.NormalEq
open Finset
set_option linter.unusedSectionVars false

section
variable {α : Type} [Field α] [LinearOrder α] [IsStrictOrderedRing α]

/-- extension of a vector on `Fin n` by zero -/
def ext0 {n : Nat} (v : Fin n → α) : Nat → α := fun k => if h : k < n then v ⟨k, h⟩ else 0

theorem ext0_apply {n : Nat} (v : Fin n → α) (i : Fin n) : ext0 v i.val = v i := by
  simp [ext0, i.isLt]

theorem mulVec_ext0 {n : Nat} (M : Nat → Nat → α) (v : Fin n → α) (i : Fin n) :
    mulVec n M (ext0 v) i.val = Matrix.mulVec (Matrix.of fun (a b : Fin n) => M a.val b.val) v i := by
  unfold mulVec Matrix.mulVec dotProduct
  rw [← Fin.sum_univ_eq_sum_range (fun j => M i.val j * ext0 v j) n]
  refine sum_congr rfl (fun j _ => ?_)
  rw [ext0_apply]
  rfl

theorem posDef_injective {n : Nat} {M : Nat → Nat → α} (hP : PosDef n M) :
    Function.Injective (Matrix.mulVec (Matrix.of fun (a b : Fin n) => M a.val b.val)) := by
  intro u v huv
  have hz : Matrix.mulVec (Matrix.of fun (a b : Fin n) => M a.val b.val) (u - v) = 0 := by
    rw [Matrix.mulVec_sub, huv, sub_self]
  have hq : quad n M (ext0 (u - v)) = 0 := by
    unfold quad
    rw [← Fin.sum_univ_eq_sum_range (fun i => ext0 (u - v) i * mulVec n M (ext0 (u - v)) i) n]
    refine sum_eq_zero (fun i _ => ?_)
    rw [mulVec_ext0, hz]
    simp
  funext i
  by_contra hne
  have hpos := hP (ext0 (u - v)) ⟨i.val, i.isLt, by
    rw [ext0_apply]; simpa [sub_eq_zero] using hne⟩
  rw [hq] at hpos
  exact lt_irrefl _ hpos

/-- a positive-definite system has a solution -/
theorem posDef_solvable {n : Nat} {M : Nat → Nat → α} (hP : PosDef n M) (r : Nat → α) :
    ∃ c : Nat → α, ∀ i < n, mulVec n M c i = r i := by
  have hinj := posDef_injective hP
  have hunit := Matrix.mulVec_injective_iff_isUnit.1 hinj
  have hsurj := Matrix.mulVec_surjective_iff_isUnit.2 hunit
  obtain ⟨v, hv⟩ := hsurj (fun i : Fin n => r i.val)
  refine ⟨ext0 v, fun i hi => ?_⟩
  have := mulVec_ext0 M v ⟨i, hi⟩
  rw [hv] at this
  exact this

end
end PsV.NormalEq
