import PsV.Proofs.ConvTrunc
import PsV.Proofs.ConvPoly
/-!
# The specification's kernel has unit area

`kernelArea y q = Σ_b ∫_{y_b}^{y_{b+1}} (kpiece y q b)` is `1` for every `q ≥ 1` and strictly increasing kernel
knots `y_0 < … < y_q`: piece `b` of the kernel is `q · [y_0..y_q] (· − t)_+^{q−1}` (taken piecewise), its
antiderivative in `t` is `−[y_0..y_q] (· − t)_+^q`, the pieces telescope over the knot intervals, and what is left
is `[y_0..y_q] (· − y_0)^q = 1`.
-/
namespace PsV
open ConvSpec Finset Polynomial

theorem foldl_add_range (f : Nat → Rat) : ∀ n : Nat,
    (List.range n).foldl (fun acc b => acc + f b) 0 = ∑ b ∈ range n, f b
  | 0 => by simp
  | n+1 => by
    rw [List.range_succ, List.foldl_append, foldl_add_range f n, Finset.sum_range_succ]
    rfl

theorem kernelArea_eq_sum (y : Nat → Rat) (q : Nat) :
    kernelArea y q = ∑ b ∈ range q, pintegral (kpiece y q b) (y b) (y (b+1)) := by
  unfold kernelArea
  exact foldl_add_range (fun b => pintegral (kpiece y q b) (y b) (y (b+1))) q

/-- the kernel piece is `q` times the divided difference of the truncated power -/
theorem kpiece_eval (y : Nat → Rat) (q' b : Nat) (t : Rat) (hd : DistinctOn y 0 (q'+2)) :
    peval (kpiece y (q'+1) b) t = ((q' : Rat) + 1) * divdiff y (truncPiece y b t q') (q'+2) 0 := by
  have hne : y (q'+1) - y 0 ≠ 0 :=
    sub_ne_zero.mpr (Ne.symm (hd 0 (q'+1) (le_refl _) (by omega) (by omega)))
  have h := bpiece_eq_dd y b t q' 0 hd
  have e : 0 + q' + 1 = q' + 1 := by omega
  rw [e] at h
  unfold kpiece
  rw [peval_pscale, show q' + 1 - 1 = q' from rfl, h]
  push_cast
  field_simp

/-- `[y_0 .. y_{q'+1}] (· − t)_+^{q'+1}`, piece `b` -/
def areaG (y : Nat → Rat) (q' b : Nat) (t : Rat) : Rat :=
  divdiff y (truncPiece y b t (q'+1)) (q'+2) 0

/-- `−areaG` as a polynomial in `t` -/
noncomputable def areaQ (y : Nat → Rat) (q' b : Nat) : ℚ[X] :=
  - ∑ r ∈ range (q'+2), C (ddW y (q'+2) 0 r) * (if b < r then (C (y r) - X)^(q'+1) else 0)

theorem areaQ_eval (y : Nat → Rat) (q' b : Nat) (t : Rat) :
    (areaQ y q' b).eval t = - areaG y q' b t := by
  unfold areaQ areaG
  rw [dd_eq_sum y _ (q'+2) 0 (q'+2) (by omega)]
  simp only [eval_neg, eval_finsetSum, eval_mul, eval_C, neg_inj]
  apply Finset.sum_congr rfl
  intro r _
  unfold truncPiece
  split <;> simp

theorem areaQ_deriv (y : Nat → Rat) (q' b : Nat) (t : Rat) (hd : DistinctOn y 0 (q'+2)) :
    (derivative (areaQ y q' b)).eval t = peval (kpiece y (q'+1) b) t := by
  rw [kpiece_eval y q' b t hd, dd_eq_sum y _ (q'+2) 0 (q'+2) (by omega), Finset.mul_sum]
  unfold areaQ
  simp only [derivative_neg, derivative_sum, eval_neg, eval_finsetSum, derivative_C_mul, eval_mul, eval_C]
  rw [← Finset.sum_neg_distrib]
  apply Finset.sum_congr rfl
  intro r _
  unfold truncPiece
  split
  · simp only [derivative_pow, derivative_sub, derivative_C, derivative_X, eval_mul, eval_C, eval_pow,
      eval_sub, eval_X, Nat.add_sub_cancel, eval_zero, eval_one]
    push_cast
    ring
  · simp

theorem pintegral_kpiece (y : Nat → Rat) (q' b : Nat) (lo hi : Rat) (hd : DistinctOn y 0 (q'+2)) :
    pintegral (kpiece y (q'+1) b) lo hi = areaG y q' b lo - areaG y q' b hi := by
  rw [pintegral_eq_of_deriv _ (areaQ y q' b) (fun t => areaQ_deriv y q' b t hd) lo hi,
    areaQ_eval, areaQ_eval]
  ring

/-- the pieces agree at the breakpoints -/
theorem areaG_step (y : Nat → Rat) (q' b : Nat) :
    areaG y q' b (y (b+1)) = areaG y q' (b+1) (y (b+1)) := by
  unfold areaG
  apply dd_congr
  intro r _ _
  unfold truncPiece
  by_cases h : r = b + 1
  · subst h; simp
  · by_cases h1 : b < r
    · have h2 : b + 1 < r := by omega
      simp [h1, h2]
    · have h2 : ¬ b + 1 < r := by omega
      simp [h1, h2]

theorem areaG_last (y : Nat → Rat) (q' : Nat) (t : Rat) : areaG y q' (q'+1) t = 0 := by
  unfold areaG
  rw [dd_congr y _ (fun _ => 0) (q'+2) 0, dd_zero_fun]
  intro r _ h
  unfold truncPiece
  have : ¬ q' + 1 < r := by omega
  simp [this]

theorem linProd_const (c : Rat) (d : Nat) (s : Rat) : linProd (fun _ => c) d s = (s - c)^d := by
  simp [linProd, Finset.prod_const]

theorem areaG_first (y : Nat → Rat) (q' : Nat) (hd : DistinctOn y 0 (q'+2)) :
    areaG y q' 0 (y 0) = 1 := by
  unfold areaG
  rw [dd_congr y _ (fun r => linProd (fun _ => y 0) (q'+1) (y r)) (q'+2) 0]
  · exact dd_linProd_one y (fun _ => y 0) (q'+1) 0 hd
  · intro r _ _
    rw [linProd_const]
    unfold truncPiece
    by_cases h : 0 < r
    · simp [h]
    · have : r = 0 := by omega
      subst this; simp

theorem kernelArea_succ (y : Nat → Rat) (q' : Nat) (hd : DistinctOn y 0 (q'+2)) :
    kernelArea y (q'+1) = 1 := by
  rw [kernelArea_eq_sum]
  have h : ∀ b ∈ range (q'+1), pintegral (kpiece y (q'+1) b) (y b) (y (b+1)) =
      areaG y q' b (y b) - areaG y q' (b+1) (y (b+1)) := by
    intro b _
    rw [pintegral_kpiece y q' b _ _ hd, areaG_step]
  rw [Finset.sum_congr rfl h, Finset.sum_range_sub' (fun b => areaG y q' b (y b)) (q'+1),
    areaG_first y q' hd, areaG_last]
  ring

/-- **unit area**: the normalised kernel `q/(y_q − y_0) · B_{0,q−1}(· | y)` built by the specification
integrates to `1` -/
theorem kernelArea_one (y : Nat → Rat) (q : Nat) (hq : 1 ≤ q)
    (hy : ∀ a b, a < b → b ≤ q → y a < y b) : ConvSpec.kernelArea y q = 1 := by
  obtain ⟨q', rfl⟩ : ∃ q', q = q' + 1 := ⟨q - 1, by omega⟩
  exact kernelArea_succ y q' (distinctOn_of_strictMono (fun a b _ hab hb => hy a b hab (by omega)))

/-- the normalised kernel is the Cox–de Boor M-spline: piece `b` of the specification's kernel evaluates to
`q/(y_q − y_0)` times the shared Cox–de Boor recursion `PsV.Bind` with the indicator of interval `b` -/
theorem kpiece_eval_Bind (t : Int → Rat) (q b : Nat) (x : Rat) :
    peval (kpiece (fun n => t (n : Nat)) q b) x =
      (q : Rat) / (t (q : Nat) - t (0 : Nat)) * Bind (fun k => decide (k = (b : Int))) t x (q-1) ((0 : Nat) : Int) := by
  unfold kpiece
  rw [peval_pscale, bpiece_eval t b x (q-1) 0]

end PsV
