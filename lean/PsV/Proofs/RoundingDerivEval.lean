import PsV.Proofs.RoundingDeriv
/-!
Assembly: forward error of `ndsplineeval` with an arbitrary derivative bitmask at a point of the fully
supported range, against the majorant `ndsplineevalAbs` of the table of coefficient magnitudes.
-/
namespace PsV
variable {F : Type} [Field F] [LinearOrder F] [IsStrictOrderedRing F]
variable {ε : F} {fl st : F → F}

theorem maskModes_length (n mask : Nat) : (maskModes n mask).length = n := by simp [maskModes]

theorem maskModes_mem (n mask : Nat) : ∀ m ∈ maskModes n mask, m = BasisMode.value ∨ m = BasisMode.deriv1 := by
  intro m hm
  simp only [maskModes, List.mem_map] at hm
  obtain ⟨j, _, rfl⟩ := hm
  split
  · exact Or.inr rfl
  · exact Or.inl rfl

theorem derivModes_mem (ks : List Nat) (h : ∀ k ∈ ks, k ≤ 1) :
    ∀ m ∈ derivModes ks, m = BasisMode.value ∨ m = BasisMode.deriv1 := by
  intro m hm
  simp only [derivModes, List.mem_map] at hm
  obtain ⟨k, hk, rfl⟩ := hm
  have := h k hk
  by_cases h0 : k = 0
  · simp [h0]
  · have h1 : k = 1 := by omega
    simp [h1]

/-- with no derivative selected the majorant is the plain evaluation (any arithmetic) -/
theorem rowsAbs_value {α : Type} [A : Arith α] : ∀ (ds : List (Dim α)) (xs : List α) (cs : List Nat) (ms : List BasisMode),
    (∀ m ∈ ms, m = BasisMode.value) → rowsAbs ds xs cs ms = rows ds xs cs ms := by
  intro ds
  induction ds with
  | nil => intro xs cs ms _; simp [rows, rowsAbs]
  | cons d ds ih =>
    intro xs cs ms h
    match xs, cs, ms, h with
    | [], _, _, _ => simp [rows, rowsAbs]
    | _ :: _, [], _, _ => simp [rows, rowsAbs]
    | _ :: _, _ :: _, [], _ => simp [rows, rowsAbs]
    | x :: xs, c :: cs, m :: ms, h =>
      have hm : m = BasisMode.value := h m (by simp)
      subst hm
      simp only [rows, rowsAbs, localRowAbs]
      rw [ih xs cs ms (fun m' hm' => h m' (by simp [hm']))]

section
variable (hε : 0 ≤ ε) (hfl : ∀ a, RelErr ε 1 a (fl a)) (hst : ∀ a, RelErr ε 1 a (st a))
include hε hfl hst

theorem rows3_rel (n : Nat) : ∀ (ds : List (Dim F)) (xs : List F) (cs : List Nat) (ms : List BasisMode),
    AllInterior ds xs cs → (∀ d ∈ ds, d.order ≤ n) → ms.length = ds.length →
    (∀ m ∈ ms, m = BasisMode.value ∨ m = BasisMode.deriv1) →
    Rows3 ε (1 + 7 * n)
      (@rowsAbs F (Arith.ofField F) ds xs cs ms)
      (@rows F (Arith.ofField F) ds xs cs ms)
      (@rows F (Arith.rounded fl st) ds xs cs ms) ∧
    nterms (@rows F (Arith.ofField F) ds xs cs ms) ≤ blockSize ds ∧
    (@rows F (Arith.ofField F) ds xs cs ms).length = ds.length := by
  intro ds
  induction ds with
  | nil =>
    intro xs cs ms _ _ _ _
    cases xs <;> cases cs <;> cases ms <;> simp [rows, rowsAbs, Rows3, nterms, blockSize]
  | cons d ds ih =>
    intro xs cs ms h hn hl hms
    match xs, cs, h, ms, hl with
    | x :: xs, c :: cs, ⟨hd, hrest⟩, m :: ms, hl =>
      obtain ⟨i1, i2, i3⟩ := ih xs cs ms hrest (fun e he => hn e (by simp [he])) (by simpa using hl)
        (fun m' hm' => hms m' (by simp [hm']))
      have hdn : d.order ≤ n := hn d (by simp)
      have hrow : Row3 ε (1 + 7 * n) (@localRowAbs F (Arith.ofField F) d x c m) (@localRow F (Arith.ofField F) d x c m)
          (@localRow F (Arith.rounded fl st) d x c m) ∧ (@localRow F (Arith.ofField F) d x c m).length = d.order + 1 := by
        rcases hms m (by simp) with rfl | rfl
        · have hr := bsplvbSimple_relerr hε hfl hst d.knots d.nknots x c d.order hd.lo hd.hi hd.left hd.right hd.mono
          exact ⟨(Row3.of_forall2 hε hr.1 hr.2).mono hε (by omega), bsplvbSimple_length_interior d x c hd⟩
        · have hr := bsplineDerivNonzero_row3 hε hfl hst d x c hd
          exact ⟨hr.1.mono hε (by omega), hr.2⟩
      obtain ⟨hrow, hlen⟩ := hrow
      simp only [rows, rowsAbs]
      refine ⟨⟨rfl, rfl, hrow, i1⟩, ?_, by simp [i3]⟩
      cases hr : @rows F (Arith.ofField F) ds xs cs ms with
      | nil =>
        simp only [nterms, blockSize, hlen]
        exact Nat.le_mul_of_pos_right _ (blockSize_pos ds)
      | cons r rest =>
        simp only [nterms, blockSize, hlen]
        rw [hr] at i2
        exact Nat.mul_le_mul_left _ i2

/-- **Forward error of evaluation with any per-dimension choice of value / single-derivative rows**, as an `Acc`
statement: both the error bound against the majorant and `|exact| ≤ majorant`. -/
theorem evalModes_rounding (T : Table F) (xs : List F) (cs : List Nat) (n : Nat) (ms : List BasisMode)
    (hint : AllInterior T.dims xs cs) (hn : ∀ d ∈ T.dims, d.order ≤ n) (hl : ms.length = T.dims.length)
    (hms : ∀ m ∈ ms, m = BasisMode.value ∨ m = BasisMode.deriv1) :
    Acc ε (3 + T.dims.length * (7 * n + 3) + 2 * blockSize T.dims)
      (@evalModesAbs F (Arith.ofField F) ⟨T.dims, fun i => |T.coef i|⟩ xs cs ms)
      (@evalModes F (Arith.ofField F) T xs cs ms)
      (@evalModes F (Arith.rounded fl st) T xs cs ms) := by
  unfold evalModes evalModesAbs
  simp only [of_rnd, of_one, of_zero, rd_rnd, rd_one, rd_zero]
  obtain ⟨hrel, hnt, hlen⟩ := rows3_rel hε hfl hst n T.dims xs cs ms hint hn hl hms
  have hst0 : st 0 = 0 := (hst 0).zero_left hε
  rw [hst0]
  have hone : Acc ε 1 (1 : F) 1 (st 1) := Acc.of_relerr_nonneg hε (hst 1) zero_le_one
  have kt_ok : 1 + (@rows F (Arith.ofField F) T.dims xs cs ms).length * (1 + 7 * n + 2) + 2
      ≤ 3 + T.dims.length * (7 * n + 3) := by rw [hlen]; ring_nf; omega
  have h := walk_err3 hε hfl hst T.coef (3 + T.dims.length * (7 * n + 3)) (1 + 7 * n) _ _ _ hrel 1 1 1 (st 1) hone
    kt_ok (startPos T.dims cs) 0 0 0 0 (by simp [Acc])
  exact h.mono hε (by omega)

/-- bitmask form -/
theorem ndsplineeval_mask_rounding (T : Table F) (xs : List F) (cs : List Nat) (n mask : Nat)
    (hint : AllInterior T.dims xs cs) (hn : ∀ d ∈ T.dims, d.order ≤ n) :
    Acc ε (3 + T.dims.length * (7 * n + 3) + 2 * blockSize T.dims)
      (@ndsplineevalAbs F (Arith.ofField F) ⟨T.dims, fun i => |T.coef i|⟩ xs cs mask)
      (@ndsplineeval F (Arith.ofField F) T xs cs mask)
      (@ndsplineeval F (Arith.rounded fl st) T xs cs mask) :=
  evalModes_rounding hε hfl hst T xs cs n (maskModes T.dims.length mask) hint hn (maskModes_length _ _) (maskModes_mem _ _)

end
end PsV
