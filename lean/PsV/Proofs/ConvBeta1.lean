import PsV.Proofs.ConvTile
import Mathlib.Algebra.Order.Field.Rat
import Mathlib.Algebra.Order.BigOperators.Group.Finset
import Mathlib.Tactic.Ring
import Mathlib.Tactic.Linarith
/-!
# Step 1 of the Beta identity: the sum of the tile integrals through one antiderivative `F`

For `σ` antitone on `[0,m]`, `y` monotone on `[0,r]`:
`tileSum F σ y m r = tileInt F (σ m) (σ 0) (y 0) (y r)`, and with `A = σ m ≤ D = σ 0`, `C = y 0 ≤ B = y r`, `C ≤ D`
this is `intPlus F A B - intPlus F A C - intPlus F D B`.
-/
namespace PsV
open Finset

/-- `∫_a^b F'` if `a < b`, else `0` -/
def intPlus (F : ℚ → ℚ) (a b : ℚ) : ℚ := if a < b then F b - F a else 0

/-- (1a) a tile integral is the difference of `F` at the clamped ends of the second interval -/
theorem tileInt_clamp (F : ℚ → ℚ) (lo0 hi0 ylo yhi : ℚ) (h0 : lo0 ≤ hi0) (hy : ylo ≤ yhi) :
    tileInt F lo0 hi0 ylo yhi = F (max lo0 (min hi0 yhi)) - F (max lo0 (min hi0 ylo)) := by
  unfold tileInt
  simp only
  by_cases h : (if lo0 < ylo then ylo else lo0) < (if yhi < hi0 then yhi else hi0)
  · rw [if_pos h]
    have e1 : max lo0 (min hi0 yhi) = (if yhi < hi0 then yhi else hi0) := by
      revert h; simp only [max_def, min_def]; split_ifs <;> intro h <;> linarith
    have e2 : max lo0 (min hi0 ylo) = (if lo0 < ylo then ylo else lo0) := by
      revert h; simp only [max_def, min_def]; split_ifs <;> intro h <;> linarith
    rw [e1, e2]
  · rw [if_neg h]
    have e : max lo0 (min hi0 yhi) = max lo0 (min hi0 ylo) := by
      revert h; simp only [max_def, min_def]; split_ifs <;> intro h <;> linarith
    rw [e, sub_self]

theorem tileInt_symm (F : ℚ → ℚ) (lo0 hi0 ylo yhi : ℚ) :
    tileInt F lo0 hi0 ylo yhi = tileInt F ylo yhi lo0 hi0 := by
  unfold tileInt
  simp only
  have e1 : (if lo0 < ylo then ylo else lo0) = (if ylo < lo0 then lo0 else ylo) := by
    split_ifs <;> linarith
  have e2 : (if yhi < hi0 then yhi else hi0) = (if hi0 < yhi then hi0 else yhi) := by
    split_ifs <;> linarith
  rw [e1, e2]

/-- (1b) the tiles of one row telescope -/
theorem tileInt_row (F : ℚ → ℚ) (lo0 hi0 : ℚ) (y : Nat → ℚ) (h0 : lo0 ≤ hi0) : ∀ (r : Nat),
    (∀ b, b < r → y b ≤ y (b+1)) →
    ∑ b ∈ range r, tileInt F lo0 hi0 (y b) (y (b+1)) = tileInt F lo0 hi0 (y 0) (y r)
  | 0, _ => by
    rw [Finset.sum_range_zero, tileInt_clamp F lo0 hi0 (y 0) (y 0) h0 (le_refl _), sub_self]
  | r+1, h => by
    have hm : y 0 ≤ y r := by
      have : ∀ k, k ≤ r → y 0 ≤ y k := by
        intro k
        induction k with
        | zero => intro _; exact le_refl _
        | succ k ih => intro hk; exact le_trans (ih (by omega)) (h k (by omega))
      exact this r (le_refl _)
    rw [Finset.sum_range_succ, tileInt_row F lo0 hi0 y h0 r (fun b hb => h b (by omega)),
      tileInt_clamp F lo0 hi0 (y 0) (y r) h0 hm,
      tileInt_clamp F lo0 hi0 (y r) (y (r+1)) h0 (h r (by omega)),
      tileInt_clamp F lo0 hi0 (y 0) (y (r+1)) h0 (le_trans hm (h r (by omega)))]
    ring

theorem mono_of_step (y : Nat → ℚ) (r : Nat) (h : ∀ b, b < r → y b ≤ y (b+1)) : y 0 ≤ y r := by
  have : ∀ k, k ≤ r → y 0 ≤ y k := by
    intro k
    induction k with
    | zero => intro _; exact le_refl _
    | succ k ih => intro hk; exact le_trans (ih (by omega)) (h k (by omega))
  exact this r (le_refl _)

/-- (1c) the columns telescope as well (`σ` decreasing) -/
theorem tileInt_col (F : ℚ → ℚ) (ylo yhi : ℚ) (σ : Nat → ℚ) (hy : ylo ≤ yhi) : ∀ (m : Nat),
    (∀ a, a < m → σ (a+1) ≤ σ a) →
    ∑ a ∈ range m, tileInt F (σ (a+1)) (σ a) ylo yhi = tileInt F (σ m) (σ 0) ylo yhi
  | 0, _ => by
    rw [Finset.sum_range_zero, tileInt_symm, tileInt_clamp F ylo yhi (σ 0) (σ 0) hy (le_refl _), sub_self]
  | m+1, h => by
    have hm : σ m ≤ σ 0 := by
      have := mono_of_step (fun a => - σ a) m (fun b hb => by simpa using h b (by omega))
      simpa using this
    rw [Finset.sum_range_succ, tileInt_col F ylo yhi σ hy m (fun b hb => h b (by omega)),
      tileInt_symm F (σ m), tileInt_symm F (σ (m+1)) (σ m), tileInt_symm F (σ (m+1)) (σ 0),
      tileInt_clamp F ylo yhi (σ m) (σ 0) hy hm,
      tileInt_clamp F ylo yhi (σ (m+1)) (σ m) hy (h m (by omega)),
      tileInt_clamp F ylo yhi (σ (m+1)) (σ 0) hy (le_trans (h m (by omega)) hm)]
    ring

/-- (1b)+(1c) -/
theorem tileSum_eq_tileInt (F : ℚ → ℚ) (σ y : Nat → ℚ) (m r : Nat)
    (hσ : ∀ a, a < m → σ (a+1) ≤ σ a) (hy : ∀ b, b < r → y b ≤ y (b+1)) :
    tileSum F σ y m r = tileInt F (σ m) (σ 0) (y 0) (y r) := by
  unfold tileSum
  rw [← tileInt_col F (y 0) (y r) σ (mono_of_step y r hy) m hσ]
  apply Finset.sum_congr rfl
  intro a ha
  exact tileInt_row F (σ (a+1)) (σ a) y (hσ a (Finset.mem_range.mp ha)) r hy

theorem intPlus_eq_max (F : ℚ → ℚ) (a b : ℚ) : intPlus F a b = F (max a b) - F a := by
  unfold intPlus
  split_ifs with h
  · rw [max_eq_right (le_of_lt h)]
  · rw [max_eq_left (not_lt.mp h), sub_self]

theorem tileInt_eq_max (F : ℚ → ℚ) (A D C B : ℚ) :
    tileInt F A D C B = F (max (max A C) (min D B)) - F (max A C) := by
  have e1 : (if A < C then C else A) = max A C := by
    rw [max_def]; split_ifs <;> linarith
  have e2 : (if B < D then B else D) = min D B := by
    rw [min_def]; split_ifs <;> linarith
  have := intPlus_eq_max F (max A C) (min D B)
  unfold intPlus at this
  unfold tileInt
  simp only
  rw [e1, e2]
  exact this

/-- (1d) inclusion–exclusion for the clipped interval -/
theorem tileInt_split (F : ℚ → ℚ) (A D C B : ℚ) (hCB : C ≤ B) (hAD : A ≤ D) (hCD : C ≤ D) :
    tileInt F A D C B = intPlus F A B - intPlus F A C - intPlus F D B := by
  rw [tileInt_eq_max, intPlus_eq_max, intPlus_eq_max, intPlus_eq_max]
  by_cases h : D < B
  · rw [max_eq_right (le_of_lt h), min_eq_left (le_of_lt h), max_eq_right (max_le hAD hCD),
      max_eq_right (le_trans hAD (le_of_lt h))]
    ring
  · have h' : B ≤ D := not_lt.mp h
    rw [max_eq_left h', min_eq_right h']
    have e : max (max A C) B = max A B := by
      rw [max_assoc, max_eq_right hCB]
    rw [e]
    ring

/-- Step 1 -/
theorem tileSum_split (F : ℚ → ℚ) (σ y : Nat → ℚ) (m r : Nat)
    (hσ : ∀ a, a < m → σ (a+1) ≤ σ a) (hy : ∀ b, b < r → y b ≤ y (b+1)) (h0 : y 0 ≤ σ 0) :
    tileSum F σ y m r = intPlus F (σ m) (y r) - intPlus F (σ m) (y 0) - intPlus F (σ 0) (y r) := by
  rw [tileSum_eq_tileInt F σ y m r hσ hy]
  have hm : σ m ≤ σ 0 := by
    have := mono_of_step (fun a => - σ a) m (fun b hb => by simpa using hσ b hb)
    simpa using this
  exact tileInt_split F (σ m) (σ 0) (y 0) (y r) (mono_of_step y r hy) hm h0

end PsV
