import Mathlib.Algebra.Order.Field.Basic
import Mathlib.Algebra.BigOperators.Ring.Finset
import Mathlib.Algebra.Order.BigOperators.Ring.Finset
import Mathlib.Algebra.Order.Ring.Rat
import Mathlib.Algebra.Field.Rat
import Mathlib.Tactic.Ring
import Mathlib.Tactic.Linarith
import Mathlib.Tactic.FieldSimp
import Mathlib.Tactic.Positivity
/-! C09: the normal equations `M c = r` characterise the unique minimiser of the quadratic
objective `½ cᵀMc − rᵀc` (equivalently `cᵀMc − 2rᵀc + const`) for symmetric positive-definite `M`.
Vectors are `Nat → α`, matrices `Nat → Nat → α`, both restricted to indices `< n`. -/
namespace PsV.NormalEq
open Finset

section Defs
variable {α : Type} [Field α]

def mulVec (n : Nat) (M : Nat → Nat → α) (c : Nat → α) (i : Nat) : α :=
  ∑ j ∈ range n, M i j * c j
def quad (n : Nat) (M : Nat → Nat → α) (c : Nat → α) : α :=
  ∑ i ∈ range n, c i * mulVec n M c i
def dot (n : Nat) (u v : Nat → α) : α := ∑ i ∈ range n, u i * v i
/-- ½ cᵀMc − rᵀc -/
def halfObj (n : Nat) (M : Nat → Nat → α) (r c : Nat → α) : α := quad n M c / 2 - dot n r c
/-- cᵀMc − 2rᵀc + k -/
def fullObj (n : Nat) (M : Nat → Nat → α) (r : Nat → α) (k : α) (c : Nat → α) : α :=
  quad n M c - 2 * dot n r c + k
def Symm (n : Nat) (M : Nat → Nat → α) : Prop := ∀ i < n, ∀ j < n, M i j = M j i

end Defs

section Order
variable {α : Type} [Field α] [LinearOrder α]
def PosDef (n : Nat) (M : Nat → Nat → α) : Prop :=
  ∀ v : Nat → α, (∃ i < n, v i ≠ 0) → 0 < quad n M v
end Order

/-! ### Pure algebra (no order needed) -/
section Algebra
variable {α : Type} [Field α]

theorem quad_eq_dot (n : Nat) (M : Nat → Nat → α) (c : Nat → α) :
    quad n M c = dot n c (mulVec n M c) := rfl

theorem mulVec_add (n : Nat) (M : Nat → Nat → α) (c d : Nat → α) (i : Nat) :
    mulVec n M (fun j => c j + d j) i = mulVec n M c i + mulVec n M d i := by
  unfold mulVec
  rw [← sum_add_distrib]
  exact sum_congr rfl (fun j _ => mul_add _ _ _)

theorem mulVec_smul (n : Nat) (M : Nat → Nat → α) (t : α) (c : Nat → α) (i : Nat) :
    mulVec n M (fun j => t * c j) i = t * mulVec n M c i := by
  unfold mulVec
  rw [mul_sum]
  exact sum_congr rfl (fun j _ => by ring)

theorem dot_comm (n : Nat) (u v : Nat → α) : dot n u v = dot n v u :=
  sum_congr rfl (fun _ _ => mul_comm _ _)

theorem dot_add_left (n : Nat) (u u' v : Nat → α) :
    dot n (fun i => u i + u' i) v = dot n u v + dot n u' v := by
  unfold dot
  rw [← sum_add_distrib]
  exact sum_congr rfl (fun i _ => add_mul _ _ _)

theorem dot_add_right (n : Nat) (u v v' : Nat → α) :
    dot n u (fun i => v i + v' i) = dot n u v + dot n u v' := by
  unfold dot
  rw [← sum_add_distrib]
  exact sum_congr rfl (fun i _ => mul_add _ _ _)

theorem dot_sub_right (n : Nat) (u v v' : Nat → α) :
    dot n u (fun i => v i - v' i) = dot n u v - dot n u v' := by
  unfold dot
  rw [← sum_sub_distrib]
  exact sum_congr rfl (fun i _ => mul_sub _ _ _)

theorem dot_smul_left (n : Nat) (t : α) (u v : Nat → α) :
    dot n (fun i => t * u i) v = t * dot n u v := by
  unfold dot
  rw [mul_sum]
  exact sum_congr rfl (fun i _ => mul_assoc _ _ _)

theorem dot_congr_right (n : Nat) (u : Nat → α) {v v' : Nat → α} (h : ∀ i < n, v i = v' i) :
    dot n u v = dot n u v' :=
  sum_congr rfl (fun i hi => by rw [h i (mem_range.1 hi)])

/-- The unit vector `e_i` picks out the `i`-th component. -/
theorem dot_single (n : Nat) (i : Nat) (hi : i < n) (w : Nat → α) :
    dot n (fun j => if j = i then (1 : α) else 0) w = w i := by
  unfold dot
  rw [sum_eq_single i]
  · simp
  · intro j _ hji; simp [hji]
  · intro h; exact absurd (mem_range.2 hi) h

/-- For symmetric `M`, the bilinear form `uᵀMv` is symmetric. -/
theorem dot_mulVec_symm {n : Nat} {M : Nat → Nat → α} (hS : Symm n M) (u v : Nat → α) :
    dot n u (mulVec n M v) = dot n v (mulVec n M u) := by
  unfold dot mulVec
  simp only [mul_sum]
  rw [sum_comm]
  refine sum_congr rfl (fun i hi => sum_congr rfl (fun j hj => ?_))
  rw [hS j (mem_range.1 hj) i (mem_range.1 hi)]
  ring

theorem quad_add_vec {n : Nat} {M : Nat → Nat → α} (hS : Symm n M) (c d : Nat → α) :
    quad n M (fun i => c i + d i)
      = quad n M c + (dot n d (mulVec n M c) + dot n d (mulVec n M c)) + quad n M d := by
  have hmv : ∀ i < n, mulVec n M (fun j => c j + d j) i
      = (fun i => mulVec n M c i + mulVec n M d i) i := fun i _ => mulVec_add n M c d i
  rw [quad_eq_dot, dot_congr_right n _ hmv, dot_add_left, dot_add_right, dot_add_right,
    dot_mulVec_symm hS c d, ← quad_eq_dot, ← quad_eq_dot]
  ring

theorem quad_smul_vec (n : Nat) (M : Nat → Nat → α) (t : α) (v : Nat → α) :
    quad n M (fun j => t * v j) = t ^ 2 * quad n M v := by
  unfold quad
  rw [mul_sum]
  refine sum_congr rfl (fun i _ => ?_)
  rw [mulVec_smul]
  ring

theorem quad_congr (n : Nat) (M : Nat → Nat → α) {v v' : Nat → α} (h : ∀ i < n, v i = v' i) :
    quad n M v = quad n M v' := by
  unfold quad mulVec
  refine sum_congr rfl (fun i hi => ?_)
  rw [h i (mem_range.1 hi)]
  congr 1
  exact sum_congr rfl (fun j hj => by rw [h j (mem_range.1 hj)])

theorem quad_eq_zero_of_vanish (n : Nat) (M : Nat → Nat → α) {v : Nat → α}
    (h : ∀ i < n, v i = 0) : quad n M v = 0 :=
  sum_eq_zero (fun i hi => by rw [h i (mem_range.1 hi), zero_mul])

theorem quad_add (n : Nat) (M N : Nat → Nat → α) (v : Nat → α) :
    quad n (fun i j => M i j + N i j) v = quad n M v + quad n N v := by
  unfold quad
  rw [← sum_add_distrib]
  refine sum_congr rfl (fun i _ => ?_)
  unfold mulVec
  rw [← mul_add, ← sum_add_distrib]
  congr 1
  exact sum_congr rfl (fun j _ => add_mul _ _ _)

theorem quad_smul (n : Nat) (a : α) (M : Nat → Nat → α) (v : Nat → α) :
    quad n (fun i j => a * M i j) v = a * quad n M v := by
  unfold quad
  rw [mul_sum]
  refine sum_congr rfl (fun i _ => ?_)
  have hmv : mulVec n (fun i j => a * M i j) v i = a * mulVec n M v i := by
    unfold mulVec
    rw [mul_sum]
    exact sum_congr rfl (fun j _ => by show a * M i j * v j = a * (M i j * v j); ring)
  rw [hmv]
  ring

/-- A Gram matrix `M = KᵀK` has `vᵀMv = ‖Kv‖²`. -/
theorem posDef_of_sq_sum (n m : Nat) (M : Nat → Nat → α) (K : Nat → Nat → α)
    (hM : ∀ i < n, ∀ j < n, M i j = ∑ q ∈ range m, K q i * K q j) (v : Nat → α) :
    quad n M v = ∑ q ∈ range m, (∑ i ∈ range n, K q i * v i) ^ 2 := by
  have h1 : quad n M v
      = ∑ i ∈ range n, ∑ q ∈ range m, ∑ j ∈ range n, (K q i * v i) * (K q j * v j) := by
    unfold quad mulVec
    refine sum_congr rfl (fun i hi => ?_)
    rw [mul_sum, sum_comm]
    refine sum_congr rfl (fun j hj => ?_)
    rw [hM i (mem_range.1 hi) j (mem_range.1 hj), sum_mul, mul_sum]
    exact sum_congr rfl (fun q _ => by ring)
  rw [h1, sum_comm]
  refine sum_congr rfl (fun q _ => ?_)
  rw [sq, sum_mul_sum]

/-- ½ cᵀMc − rᵀc expanded around `c` in direction `d`. -/
theorem halfObj_add [NeZero (2 : α)] {n : Nat} {M : Nat → Nat → α} (hS : Symm n M)
    (r c d : Nat → α) :
    halfObj n M r (fun i => c i + d i)
      = halfObj n M r c + dot n d (fun i => mulVec n M c i - r i) + quad n M d / 2 := by
  unfold halfObj
  rw [quad_add_vec hS, dot_add_right, dot_sub_right, dot_comm n d r]
  have h2 : (2 : α) ≠ 0 := two_ne_zero
  field_simp
  ring

theorem fullObj_eq (n : Nat) (M : Nat → Nat → α) (r : Nat → α) (k : α) (c : Nat → α)
    [NeZero (2 : α)] : fullObj n M r k c = 2 * halfObj n M r c + k := by
  unfold fullObj halfObj
  have h2 : (2 : α) ≠ 0 := two_ne_zero
  field_simp

end Algebra

/-! ### Ordered part -/
section Ordered
variable {α : Type} [Field α] [LinearOrder α] [IsStrictOrderedRing α]

omit [IsStrictOrderedRing α] in
theorem quad_nonneg {n : Nat} {M : Nat → Nat → α} (hP : PosDef n M) (v : Nat → α) :
    0 ≤ quad n M v := by
  by_cases h : ∃ i < n, v i ≠ 0
  · exact le_of_lt (hP v h)
  · have h0 : ∀ i < n, v i = 0 := by
      intro i hi
      by_contra hne
      exact h ⟨i, hi, hne⟩
    rw [quad_eq_zero_of_vanish n M h0]

theorem quad_sq_sum_nonneg (n m : Nat) (M : Nat → Nat → α) (K : Nat → Nat → α)
    (hM : ∀ i < n, ∀ j < n, M i j = ∑ q ∈ range m, K q i * K q j) (v : Nat → α) :
    0 ≤ quad n M v := by
  rw [posDef_of_sq_sum n m M K hM v]
  exact sum_nonneg (fun q _ => sq_nonneg _)

/-- Expansion of the objective around a solution of the normal equations. -/
theorem halfObj_at_solution {n : Nat} {M : Nat → Nat → α} {r c : Nat → α} (hS : Symm n M)
    (hN : ∀ i < n, mulVec n M c i = r i) (c' : Nat → α) :
    halfObj n M r c' = halfObj n M r c + quad n M (fun i => c' i - c i) / 2 := by
  have hc' : c' = fun i => c i + (c' i - c i) := by
    funext i; ring
  have hdot : dot n (fun i => c' i - c i) (fun i => mulVec n M c i - r i) = 0 :=
    sum_eq_zero (fun i hi => by
      show (c' i - c i) * (mulVec n M c i - r i) = 0
      rw [hN i (mem_range.1 hi), sub_self, mul_zero])
  have h := halfObj_add hS r c (fun i => c' i - c i)
  rw [← hc', hdot, add_zero] at h
  exact h

theorem normal_eq_minimises {n : Nat} {M : Nat → Nat → α} {r c : Nat → α}
    (hS : Symm n M) (hP : PosDef n M) :
    (∀ i < n, mulVec n M c i = r i) ↔ (∀ c' : Nat → α, halfObj n M r c ≤ halfObj n M r c') := by
  constructor
  · intro hN c'
    rw [halfObj_at_solution hS hN c']
    have hq := quad_nonneg hP (fun i => c' i - c i)
    have : 0 ≤ quad n M (fun i => c' i - c i) / 2 := div_nonneg hq (by norm_num)
    linarith
  · intro hmin i hi
    -- unit vector and its (positive) diagonal entry
    let e : Nat → α := fun j => if j = i then 1 else 0
    have hQ : 0 < quad n M e := hP e ⟨i, hi, by simp [e]⟩
    have hg : ∀ t : α, 0 ≤ t * (mulVec n M c i - r i) + t ^ 2 * quad n M e / 2 := by
      intro t
      have h1 := hmin (fun j => c j + t * e j)
      rw [halfObj_add hS r c (fun j => t * e j), dot_smul_left, quad_smul_vec,
        dot_single n i hi (fun i => mulVec n M c i - r i)] at h1
      linarith
    suffices hz : mulVec n M c i - r i = 0 from sub_eq_zero.1 hz
    generalize mulVec n M c i - r i = g at hg ⊢
    generalize quad n M e = Q at hQ hg
    by_contra hne
    have h := hg (-g / Q)
    have hpos : 0 < g ^ 2 / (2 * Q) := by positivity
    have heq : (-g / Q) * g + (-g / Q) ^ 2 * Q / 2 = -(g ^ 2 / (2 * Q)) := by
      have hQ' : Q ≠ 0 := ne_of_gt hQ
      field_simp
      ring
    linarith

theorem minimiser_unique {n : Nat} {M : Nat → Nat → α} {r c c' : Nat → α}
    (hS : Symm n M) (hP : PosDef n M) (hN : ∀ i < n, mulVec n M c i = r i)
    (hle : halfObj n M r c' ≤ halfObj n M r c) : ∀ i < n, c' i = c i := by
  intro i hi
  by_contra hne
  have hq : 0 < quad n M (fun i => c' i - c i) := hP _ ⟨i, hi, sub_ne_zero.2 hne⟩
  have h := halfObj_at_solution hS hN c'
  have : 0 < quad n M (fun i => c' i - c i) / 2 := div_pos hq (by norm_num)
  linarith

/-- Minimising `cᵀMc − 2rᵀc + k` is the same as minimising `½cᵀMc − rᵀc`. -/
theorem objective_shift (n : Nat) (M : Nat → Nat → α) (r : Nat → α) (k : α) (c c' : Nat → α) :
    fullObj n M r k c ≤ fullObj n M r k c' ↔ halfObj n M r c ≤ halfObj n M r c' := by
  rw [fullObj_eq, fullObj_eq]
  constructor <;> intro h <;> linarith

/-- Existence-free packaging: a solution of the normal equations is the unique minimiser of the
full objective. -/
theorem normal_eq_minimises_full {n : Nat} {M : Nat → Nat → α} {r c : Nat → α} (k : α)
    (hS : Symm n M) (hP : PosDef n M) :
    (∀ i < n, mulVec n M c i = r i) ↔ (∀ c' : Nat → α, fullObj n M r k c ≤ fullObj n M r k c') := by
  rw [normal_eq_minimises hS hP]
  exact forall_congr' (fun c' => (objective_shift n M r k c c').symm)

end Ordered

/-! ### A concrete 2×2 SPD matrix over `Rat` -/
section Example

/-- `[[2,1],[1,2]]` -/
def M2 : Nat → Nat → Rat := fun i j => if i = j then 2 else 1

example : Symm 2 M2 := by
  intro i _ j _
  unfold M2
  by_cases h : i = j
  · rw [h]
  · rw [if_neg h, if_neg (fun h' => h h'.symm)]

theorem quad_M2 (v : Nat → Rat) : quad 2 M2 v = v 0 ^ 2 + v 1 ^ 2 + (v 0 + v 1) ^ 2 := by
  simp [quad, mulVec, M2, sum_range_succ]
  ring

example : PosDef 2 M2 := by
  rintro v ⟨i, hi, hv⟩
  rw [quad_M2]
  have h0 := sq_nonneg (v 0)
  have h1 := sq_nonneg (v 1)
  have h2 := sq_nonneg (v 0 + v 1)
  have hi' : i = 0 ∨ i = 1 := by omega
  rcases hi' with rfl | rfl
  · have : 0 < v 0 ^ 2 := by positivity
    linarith
  · have : 0 < v 1 ^ 2 := by positivity
    linarith

/-- The normal equations for `M2`, `r = (3, 3)` are solved by `c = (1, 1)`, which is therefore the
minimiser. -/
example : ∀ c' : Nat → Rat,
    halfObj 2 M2 (fun _ => 3) (fun _ => 1) ≤ halfObj 2 M2 (fun _ => 3) c' := by
  have hS : Symm 2 M2 := by
    intro i _ j _
    unfold M2
    by_cases h : i = j
    · rw [h]
    · rw [if_neg h, if_neg (fun h' => h h'.symm)]
  have hP : PosDef 2 M2 := by
    rintro v ⟨i, hi, hv⟩
    rw [quad_M2]
    have h0 := sq_nonneg (v 0)
    have h1 := sq_nonneg (v 1)
    have h2 := sq_nonneg (v 0 + v 1)
    have hi' : i = 0 ∨ i = 1 := by omega
    rcases hi' with rfl | rfl
    · have : 0 < v 0 ^ 2 := by positivity
      linarith
    · have : 0 < v 1 ^ 2 := by positivity
      linarith
  refine (normal_eq_minimises hS hP).1 ?_
  intro i hi
  have hi' : i = 0 ∨ i = 1 := by omega
  rcases hi' with rfl | rfl <;> simp [mulVec, M2, sum_range_succ] <;> norm_num

end Example

end PsV.NormalEq
