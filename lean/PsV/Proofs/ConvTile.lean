import PsV.Proofs.ConvDivDiff
/-!
Shared definitions for the integral side of C14: the integral over one tile
`[x − τ_{a+1}, x − τ_a] ∩ [y_b, y_{b+1}]` through an antiderivative `F`, exactly as `ConvSpec.conv1` clips it,
the sum over the tiles below `(m, r)`, and the truncated power.
-/
namespace PsV
open Finset

/-- `∫ F'` over `[lo0, hi0] ∩ [ylo, yhi]`, with the clipping of `ConvSpec.conv1` -/
def tileInt (F : Rat → Rat) (lo0 hi0 ylo yhi : Rat) : Rat :=
  let lo := if lo0 < ylo then ylo else lo0
  let hi := if yhi < hi0 then yhi else hi0
  if lo < hi then F hi - F lo else 0

/-- the tiles `a < m`, `b < r`; `σ a = x − τ_a` -/
def tileSum (F : Rat → Rat) (σ y : Nat → Rat) (m r : Nat) : Rat :=
  ∑ a ∈ range m, ∑ b ∈ range r, tileInt F (σ (a+1)) (σ a) (y b) (y (b+1))

/-- `c_+^e` -/
def pospow (c : Rat) (e : Nat) : Rat := if 0 < c then c^e else 0

end PsV
