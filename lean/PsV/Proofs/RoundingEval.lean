import PsV.Proofs.Rounding
/-!
Assembly: forward error of `ndsplineeval` (value evaluation) at a point of the fully supported range.
-/
namespace PsV
variable {F : Type} [Field F] [LinearOrder F] [IsStrictOrderedRing F]
variable {ε : F} {fl st : F → F}

/-- the point lies in the knot interval `[knots[c], knots[c+1]]`, which is not empty, `c` is a fully
supported centre, and the knots the recurrences touch are non-decreasing -/
structure Interior (d : Dim F) (x : F) (c : Nat) : Prop where
  lo : d.order ≤ c
  hi : c + d.order + 2 ≤ d.nknots
  left : d.knots c ≤ x
  right : x ≤ d.knots ((c : Int) + 1)
  nonempty : d.knots c < d.knots ((c : Int) + 1)
  mono : ∀ a b : Int, (c : Int) - d.order ≤ a → a ≤ b → b ≤ (c : Int) + d.order + 1 → d.knots a ≤ d.knots b

def AllInterior : List (Dim F) → List F → List Nat → Prop
  | [], [], [] => True
  | d :: ds, x :: xs, c :: cs => Interior d x c ∧ AllInterior ds xs cs
  | _, _, _ => False

/-- number of coefficients in the local block: `Π (order_d + 1)` -/
def blockSize : List (Dim F) → Nat
  | [] => 1
  | d :: ds => (d.order + 1) * blockSize ds

theorem blockSize_pos : ∀ ds : List (Dim F), 0 < blockSize ds
  | [] => by simp [blockSize]
  | d :: ds => by simp only [blockSize]; exact Nat.mul_pos (by omega) (blockSize_pos ds)

theorem bsplvbSimple_length_interior (d : Dim F) (x : F) (c : Nat) (h : Interior d x c) :
    (@bsplvbSimple F (Arith.ofField F) d.knots d.nknots x c d.order).length = d.order + 1 := by
  unfold bsplvbSimple
  simp only
  rw [marginShift_interior (A := Arith.ofField F) d.knots d.nknots x c d.order (by simpa using h.left) (by simpa using h.right),
    rearrange_interior (A := Arith.ofField F) d.nknots c d.order _ (by exact_mod_cast h.lo) (by exact_mod_cast h.hi)]
  have : ∀ (count j : Nat) (row : List F), row.length = j + 1 →
      (@vbLevels F (Arith.ofField F) d.knots x c count j row).length = j + count + 1 := by
    intro count
    induction count with
    | zero => intro j row h; simpa [vbLevels] using h
    | succ k ih =>
      intro j row h
      simp only [vbLevels]
      have hl : ∀ (bs : List F) (i : Nat) (sv : F), (@vbStep F (Arith.ofField F) d.knots x c j i sv bs).length = bs.length + 1 := by
        intro bs; induction bs with
        | nil => intros; simp [vbStep]
        | cons b bs ihb => intros; simp [vbStep, ihb]
      rw [ih (j + 1) _ (by rw [hl, h])]; omega
  unfold bsplvb
  rw [this _ 0 _ (by simp)]
  omega

theorem maskModes_zero' (n : Nat) : maskModes n 0 = List.replicate n .value := by
  simp only [maskModes, Nat.zero_testBit, Bool.false_eq_true, if_false]
  induction n with
  | zero => rfl
  | succ n ih => rw [List.range_succ, List.map_append, ih, List.replicate_succ']; rfl

section
variable (hε : 0 ≤ ε) (hfl : ∀ a, RelErr ε 1 a (fl a)) (hst : ∀ a, RelErr ε 1 a (st a))
include hε hfl hst

theorem rows_rel (n : Nat) : ∀ (ds : List (Dim F)) (xs : List F) (cs : List Nat),
    AllInterior ds xs cs → (∀ d ∈ ds, d.order ≤ n) →
    RowsRel ε (1 + 7 * n)
      (@rows F (Arith.ofField F) ds xs cs (List.replicate ds.length .value))
      (@rows F (Arith.rounded fl st) ds xs cs (List.replicate ds.length .value)) ∧
    nterms (@rows F (Arith.ofField F) ds xs cs (List.replicate ds.length .value)) ≤ blockSize ds ∧
    (@rows F (Arith.ofField F) ds xs cs (List.replicate ds.length .value)).length = ds.length := by
  intro ds
  induction ds with
  | nil => intro xs cs _ _; simp [rows, RowsRel, nterms, blockSize]
  | cons d ds ih =>
    intro xs cs h hn
    match xs, cs, h with
    | x :: xs, c :: cs, ⟨hd, hrest⟩ =>
      obtain ⟨i1, i2, i3⟩ := ih xs cs hrest (fun e he => hn e (by simp [he]))
      have hrow := bsplvbSimple_relerr hε hfl hst d.knots d.nknots x c d.order hd.lo hd.hi hd.left hd.right hd.mono
      have hlen := bsplvbSimple_length_interior d x c hd
      simp only [List.length_cons, List.replicate_succ, rows, localRow]
      refine ⟨List.Forall₂.cons ⟨rfl, ?_, hrow.2⟩ i1, ?_, by simp [i3]⟩
      · exact List.Forall₂.imp (fun a b hab => hab.mono hε (by have := hn d (by simp); omega)) hrow.1
      · cases hr : @rows F (Arith.ofField F) ds xs cs (List.replicate ds.length .value) with
        | nil =>
          simp only [nterms, blockSize, hlen]
          exact Nat.le_mul_of_pos_right _ (blockSize_pos ds)
        | cons r rest =>
          simp only [nterms, blockSize, hlen]
          rw [hr] at i2
          exact Nat.mul_le_mul_left _ i2

/-- **Forward error of value evaluation.**  With every operation rounded (`fl`, relative error `ε`) and every
store rounded (`st`), the evaluated value differs from the exact one by at most
`((1+ε)^K − 1) · Σ |coefficient| · Π B`, where the sum is the exact evaluation of the table with the
coefficient magnitudes and `K = 3 + ndim·(7·maxorder + 3) + 2·Π(order_d+1)`. -/
theorem ndsplineeval_rounding (T : Table F) (xs : List F) (cs : List Nat) (n : Nat)
    (hint : AllInterior T.dims xs cs) (hn : ∀ d ∈ T.dims, d.order ≤ n) :
    |@ndsplineeval F (Arith.rounded fl st) T xs cs 0 - @ndsplineeval F (Arith.ofField F) T xs cs 0| ≤
      gfac ε (3 + T.dims.length * (7 * n + 3) + 2 * blockSize T.dims) *
        @ndsplineeval F (Arith.ofField F) ⟨T.dims, fun i => |T.coef i|⟩ xs cs 0 := by
  unfold ndsplineeval
  simp only [maskModes_zero']
  unfold evalModes
  simp only [of_rnd, of_one, of_zero, rd_rnd, rd_one, rd_zero]
  obtain ⟨hrel, hnt, hlen⟩ := rows_rel hε hfl hst n T.dims xs cs hint hn
  have hst0 : st 0 = 0 := (hst 0).zero_left hε
  rw [hst0]
  have hone : RelErr ε 1 (1 : F) (st 1) := hst 1
  have kt_ok : 1 + (@rows F (Arith.ofField F) T.dims xs cs (List.replicate T.dims.length .value)).length * (1 + 7 * n + 2) + 2
      ≤ 3 + T.dims.length * (7 * n + 3) := by rw [hlen]; ring_nf; omega
  have h := walk_err hε hfl hst T.coef (3 + T.dims.length * (7 * n + 3)) (1 + 7 * n) _ _ hrel 1 1 (st 1) hone
    zero_le_one kt_ok (startPos T.dims cs) 0 0 0 0 (by simp [Acc])
  have h' := h.mono hε (K' := 3 + T.dims.length * (7 * n + 3) + 2 * blockSize T.dims) (by omega)
  exact h'.1

end
end PsV
