import PsV.Proofs.EvalSpec
import PsV.Props.C04
/-! Bridge from the lookup theorem (C04) to the hypotheses of the evaluation theorems. -/
namespace PsV
variable {α : Type} [Field α] [LinearOrder α]
attribute [local instance] Arith.ofField

/-- Well-formed table, as far as evaluation is concerned. -/
structure Table.WF (T : Table α) : Prop where
  dims : ∀ d ∈ T.dims, d.WF
  stride : lastStrideOne T.dims

def AllNonDegenerate : List (Dim α) → List α → Prop
  | d :: ds, x :: xs => NonDegenerate d x ∧ AllNonDegenerate ds xs
  | _, _ => True

theorem Dim.axis_WF (d : Dim α) (h : d.WF) : (Dim.axis d).WF := by
  refine ⟨h.len, ?_⟩
  intro i j hij hj
  exact h.mono i j (by omega) (by exact_mod_cast hij) (by exact_mod_cast hj)

theorem centerOK_of_spec (d : Dim α) (h : d.WF) (x : α) (c : Nat)
    (hr : InRange (Dim.axis d) x) (hc : CenterSpec (Dim.axis d) x c) :
    CenterOK d.knots d.nknots d.order x c := by
  obtain ⟨h1, h2, h3, h4, h5⟩ := hc
  obtain ⟨r1, r2⟩ := hr
  have hlen := h.len
  simp only [Dim.axis] at h1 h2 h3 h4 h5 r1 r2
  have e1 : ((d.nknots - 1 : Nat) : Int) = (d.nknots : Int) - 1 := by omega
  have e2 : ((d.nknots - d.order - 1 : Nat) : Int) = (d.nknots : Int) - d.order - 1 := by omega
  have e3 : ((c + 1 : Nat) : Int) = (c : Int) + 1 := by omega
  rw [e1] at r2
  rw [e2] at h4 h5
  rw [e3] at h5
  exact ⟨hlen, h1, by omega, by simpa using r1, r2, h3, fun hx => by have := h4 hx; omega, h5, h.mono⟩

theorem allOK_of_search : ∀ (ds : List (Dim α)) (xs : List α) (cs : List Nat),
    (∀ d ∈ ds, d.WF) → ds.length = xs.length → AllNonDegenerate ds xs →
    @searchCenters α (cmpLO α) (ds.map Dim.axis) xs = .ok cs → AllOK ds xs cs := by
  intro ds
  induction ds with
  | nil =>
    intro xs cs _ hl _ hs
    cases xs with
    | nil => simp [searchCenters] at hs; subst hs; trivial
    | cons x xs => simp at hl
  | cons d ds ih =>
    intro xs cs hwf hl hnd hs
    cases xs with
    | nil => simp at hl
    | cons x xs =>
      have hd : d.WF := hwf d (by simp)
      have hax := C04_searchAxis (Dim.axis d) x (Dim.axis_WF d hd)
      simp only [List.map_cons, searchCenters] at hs
      by_cases hr : InRange (Dim.axis d) x
      · obtain ⟨c, hc1, hc2⟩ := hax.2 hr
        rw [hc1] at hs
        simp only at hs
        cases hrest : @searchCenters α (cmpLO α) (List.map Dim.axis ds) xs with
        | reject => rw [hrest] at hs; simp at hs
        | nonterm => rw [hrest] at hs; simp at hs
        | ok cs' =>
          rw [hrest] at hs
          simp only [Res.ok.injEq] at hs
          subst hs
          exact ⟨⟨hd, centerOK_of_spec d hd x c hr hc2, hnd.1⟩,
            ih xs cs' (fun e he => hwf e (by simp [he])) (by simpa using hl) hnd.2 hrest⟩
      · rw [hax.1 hr] at hs; simp at hs

end PsV
