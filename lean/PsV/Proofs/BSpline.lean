import PsV.Model.BSpline
import PsV.Proofs.Field
/-!
de Boor's BSPLVB recurrence computes the Cox–de Boor values of the polynomial piece `left`
(`Bp`), for every knot function (sorted or not, garbage padding included) over every field.
-/
namespace PsV
variable {α : Type} [Field α] [LinearOrder α]
attribute [local instance] Arith.ofField

/-- Cox–de Boor recurrence for the polynomial piece selected by `left`
(order-0 indicator `i = left`), `a/0 = 0`. -/
def Bp (t : Int → α) (x : α) (left : Int) : Nat → Int → α
  | 0, i => if i = left then 1 else 0
  | n+1, i => (x - t i) / (t (i+n+1) - t i) * Bp t x left n i
            + (t (i+n+2) - x) / (t (i+n+2) - t (i+1)) * Bp t x left n (i+1)

theorem Bp_zero_of_not_mem (t : Int → α) (x : α) (left : Int) :
    ∀ (n : Nat) (i : Int), (left < i ∨ i + n < left) → Bp t x left n i = 0 := by
  intro n
  induction n with
  | zero => intro i h; simp only [Bp]; have : i ≠ left := by omega
            simp [this]
  | succ n ih =>
    intro i h
    simp only [Bp]
    rcases h with h | h
    · rw [ih i (Or.inl h), ih (i+1) (Or.inl (by omega))]; simp
    · rw [ih i (Or.inr (by push_cast at h; omega)), ih (i+1) (Or.inr (by push_cast at h; omega))]; simp

theorem vbStep_length (t : Int → α) (x : α) (left : Int) (j : Nat) :
    ∀ (bs : List α) (i : Nat) (saved : α), (vbStep t x left j i saved bs).length = bs.length + 1 := by
  intro bs
  induction bs with
  | nil => intros; simp [vbStep]
  | cons b bs ih => intros; simp [vbStep, ih]

/-- generalised invariant for the inner loop -/
theorem vbStep_spec (t : Int → α) (x : α) (left : Int) (j : Nat) :
    ∀ (bs : List α) (i : Nat) (saved : α), i + bs.length = j + 1 →
      (∀ m (hm : m < bs.length), bs[m] = Bp t x left j (left - j + i + m)) →
      saved = (x - t (left - j - 1 + i)) / (t (left + i) - t (left - j - 1 + i)) * Bp t x left j (left - j - 1 + i) →
      ∀ m (hm : m < (vbStep t x left j i saved bs).length),
        (vbStep t x left j i saved bs)[m] = Bp t x left (j+1) (left - j - 1 + i + m) := by
  intro bs
  induction bs with
  | nil =>
    intro i saved hlen _ hsaved m hm
    simp only [vbStep, List.length_singleton, of_rnd] at hm ⊢
    have hm0 : m = 0 := by omega
    subst hm0
    simp only [List.getElem_cons_zero, Bp]
    have hi : (i:Int) = j + 1 := by simp at hlen; omega
    have e1 : left - (j:Int) - 1 + i + (0:Nat) = left := by rw [hi]; push_cast; ring
    have e2 : left - (j:Int) - 1 + i = left := by rw [hi]; ring
    rw [e1, Bp_zero_of_not_mem t x left j (left+1) (Or.inl (by omega))]
    rw [hsaved, e2]
    have e3 : left + (i:Int) = left + j + 1 := by rw [hi]; ring
    rw [e3]; ring
  | cons b bs ih =>
    intro i saved hlen hold hsaved m hm
    simp only [vbStep, of_rnd, of_add, of_sub, of_mul, of_div] at hm ⊢
    have hij : i ≤ j := by simp at hlen; omega
    have hb : b = Bp t x left j (left - j + i) := by
      have := hold 0 (by simp); simpa using this
    cases m with
    | zero =>
      simp only [List.getElem_cons_zero, Bp]
      rw [hsaved, hb]
      have e0 : left - (j:Int) - 1 + i + (0:Nat) = left - j - 1 + i := by simp
      rw [e0]
      have e1 : left - (j:Int) - 1 + i + j + 1 = left + i := by ring
      have e2 : left - (j:Int) - 1 + i + j + 2 = left + i + 1 := by ring
      have e3 : left - (j:Int) - 1 + i + 1 = left - j + i := by ring
      have e4 : left - ((j - i : Nat) : Int) = left - j + i := by
        rw [Nat.cast_sub hij]; ring
      rw [e1, e2, e3, e4]
      have e5 : t (left + i + 1) - x + (x - t (left - j + i)) = t (left + i + 1) - t (left - j + i) := by ring
      rw [e5]; ring
    | succ m =>
      simp only [List.getElem_cons_succ]
      have e4 : left - ((j - i : Nat) : Int) = left - j + i := by rw [Nat.cast_sub hij]; ring
      have key := ih (i+1)
        ((x - t (left - ((j - i : Nat) : Int))) * (b / (t (left + i + 1) - x + (x - t (left - ((j - i : Nat) : Int))))))
        (by simp at hlen ⊢; omega)
        (by intro m' hm'
            have := hold (m'+1) (by simp; omega)
            simp only [List.getElem_cons_succ] at this
            rw [this]; congr 1; push_cast; ring)
        (by rw [e4, hb]
            have e5 : t (left + i + 1) - x + (x - t (left - j + i)) = t (left + i + 1) - t (left - j + i) := by ring
            rw [e5]
            have e6 : left - (j:Int) - 1 + ((i+1:Nat):Int) = left - j + i := by push_cast; ring
            have e7 : left + ((i+1:Nat):Int) = left + i + 1 := by push_cast; ring
            rw [e6, e7]; ring)
        m (by simpa [vbStep] using hm)
      rw [key]; congr 1; push_cast; ring

/-- A row is "level `j`" when it holds the `j+1` values `Bp … j (left-j+m)`. -/
def IsLevel (t : Int → α) (x : α) (left : Int) (j : Nat) (row : List α) : Prop :=
  row.length = j + 1 ∧ ∀ m (hm : m < row.length), row[m] = Bp t x left j (left - j + m)

theorem vbStep_level (t : Int → α) (x : α) (left : Int) (j : Nat) (row : List α)
    (h : IsLevel t x left j row) : IsLevel t x left (j+1) (vbStep t x left j 0 0 row) := by
  obtain ⟨hl, hv⟩ := h
  refine ⟨by rw [vbStep_length, hl], ?_⟩
  intro m hm
  have := vbStep_spec t x left j row 0 0 (by simp [hl])
    (by intro m hm; rw [hv m hm]; congr 1; push_cast; ring)
    (by
      have : Bp t x left j (left - j - 1 + (0:Nat)) = 0 :=
        Bp_zero_of_not_mem t x left j _ (Or.inr (by push_cast; omega))
      rw [this]; ring) m hm
  rw [this]; congr 1; push_cast; ring

theorem vbLevels_level (t : Int → α) (x : α) (left : Int) :
    ∀ (count j : Nat) (row : List α), IsLevel t x left j row →
      IsLevel t x left (j + count) (vbLevels t x left count j row) := by
  intro count
  induction count with
  | zero => intro j row h; simpa [vbLevels] using h
  | succ n ih =>
    intro j row h
    simp only [vbLevels]
    have := ih (j+1) _ (vbStep_level t x left j row h)
    have e : j + 1 + n = j + (n + 1) := by omega
    rw [e] at this
    exact this

/-- `bsplvb(…, jhigh = n+1)` returns the `n+1` values `Bp … n (left-n+m)`, for *every* knot function. -/
theorem bsplvb_level (t : Int → α) (x : α) (left : Int) (n : Nat) :
    IsLevel t x left n (bsplvb t x left (n+1)) := by
  unfold bsplvb
  have h0 : IsLevel t x left 0 [Arith.rnd (Arith.one : α)] := by
    refine ⟨rfl, ?_⟩
    intro m hm
    have : m = 0 := by simpa using hm
    subst this
    simp [Bp]
  have := vbLevels_level t x left n 0 _ h0
  simpa using this

end PsV

namespace PsV
variable {α : Type} [Field α] [LinearOrder α]
attribute [local instance] Arith.ofField

/-! ### The margin loops -/

theorem shiftDown_spec (t : Int → α) (x : α) (h0 : ¬ x < t 0) :
    ∀ (fuel : Nat) (left : Int), 0 ≤ left → left < fuel →
      0 ≤ shiftDown t x fuel left ∧ shiftDown t x fuel left ≤ left ∧
      ¬ x < t (shiftDown t x fuel left) ∧
      ∀ m, shiftDown t x fuel left < m → m ≤ left → x < t m := by
  intro fuel
  induction fuel with
  | zero => intro left h1 h2; simp at h2; omega
  | succ f ih =>
    intro left h1 h2
    unfold shiftDown
    by_cases hx : x < t left
    · have hl : left ≠ 0 := by rintro rfl; exact h0 hx
      have hcond : (decide (left ≥ 0) && Arith.lt x (t left)) = true := by simp [h1, hx]
      rw [if_pos hcond]
      obtain ⟨a, b, c, d⟩ := ih (left - 1) (by omega) (by push_cast at h2 ⊢; omega)
      refine ⟨a, by omega, c, ?_⟩
      intro m hm1 hm2
      by_cases hml : m = left
      · rw [hml]; exact hx
      · exact d m hm1 (by omega)
    · have hcond : ¬ ((decide (left ≥ 0) && Arith.lt x (t left)) = true) := by simp [hx]
      rw [if_neg hcond]
      exact ⟨h1, le_refl _, hx, fun m a b => by omega⟩

theorem shiftUp_spec (t : Int → α) (nknots : Nat) (x : α) (hlast : ¬ t ((nknots:Int) - 1) < x) :
    ∀ (fuel : Nat) (left : Int), left ≤ (nknots:Int) - 2 → (nknots:Int) - 2 - left < fuel →
      left ≤ shiftUp t nknots x fuel left ∧ shiftUp t nknots x fuel left ≤ (nknots:Int) - 2 ∧
      ¬ t (shiftUp t nknots x fuel left + 1) < x ∧
      ∀ m, left ≤ m → m < shiftUp t nknots x fuel left → t (m + 1) < x := by
  intro fuel
  induction fuel with
  | zero => intro left h1 h2; simp at h2; omega
  | succ f ih =>
    intro left h1 h2
    unfold shiftUp
    by_cases hx : t (left + 1) < x
    · have hl : left ≠ (nknots:Int) - 2 := by
        rintro rfl
        have : (nknots:Int) - 2 + 1 = (nknots:Int) - 1 := by ring
        rw [this] at hx; exact hlast hx
      have hcond : (decide (left < (nknots:Int) - 1) && Arith.lt (t (left + 1)) x) = true := by
        simp [hx]; omega
      rw [if_pos hcond]
      obtain ⟨a, b, c, d⟩ := ih (left + 1) (by omega) (by push_cast at h2 ⊢; omega)
      refine ⟨by omega, b, c, ?_⟩
      intro m hm1 hm2
      by_cases hml : m = left
      · rw [hml]; exact hx
      · exact d m (by omega) hm2
    · have hcond : ¬ ((decide (left < (nknots:Int) - 1) && Arith.lt (t (left + 1)) x) = true) := by simp [hx]
      rw [if_neg hcond]
      exact ⟨le_refl _, h1, hx, fun m a b => by omega⟩

/-- What the lookup guarantees about a centre (C04), in the `Int`-indexed form used here. -/
structure CenterOK (t : Int → α) (nknots n : Nat) (x : α) (c : Nat) : Prop where
  len : 2 * n + 2 ≤ nknots
  lo : n ≤ c
  hi : c + n + 2 ≤ nknots
  first : t 0 < x
  last : x ≤ t ((nknots:Int) - 1)
  below : x < t n → c = n
  above : t ((nknots:Int) - n - 1) ≤ x → c + n + 2 = nknots
  inside : t n ≤ x → x < t ((nknots:Int) - n - 1) → t c ≤ x ∧ x < t ((c:Int) + 1)
  mono : ∀ i j : Int, 0 ≤ i → i ≤ j → j < nknots → t i ≤ t j

/-- The interval the margin loops settle on. -/
structure ShiftOK (t : Int → α) (nknots n : Nat) (x : α) (c : Nat) (l : Int) : Prop where
  nonneg : 0 ≤ l
  le : l ≤ (nknots:Int) - 2
  bracket : (x < t ((nknots:Int) - n - 1) ∧ t l ≤ x ∧ x < t (l + 1)) ∨
            (t ((nknots:Int) - n - 1) ≤ x ∧ t l < x ∧ x ≤ t (l + 1))
  down : l < c → (c:Int) = n
  up : (c:Int) < l → (c:Int) + n + 2 = nknots

theorem marginShift_spec (t : Int → α) (nknots n : Nat) (x : α) (c : Nat)
    (h : CenterOK t nknots n x c)
    (hnd : t ((nknots:Int) - n - 2) < t ((nknots:Int) - n - 1) ∨ x ≠ t ((nknots:Int) - n - 1)) :
    ShiftOK t nknots n x c (marginShift t nknots x c n) := by
  obtain ⟨hlen, hlo, hhi, hfirst, hlast, hbelow, habove, hinside, hmono⟩ := h
  have h0 : ¬ x < t 0 := not_lt.mpr (le_of_lt hfirst)
  have hlast' : ¬ t ((nknots:Int) - 1) < x := not_lt.mpr hlast
  unfold marginShift
  -- first loop
  set l1 : Int := if (c:Int) = n then shiftDown t x (nknots + 1) c else c with hl1
  have hc0 : (0:Int) ≤ c := by omega
  have hcle : (c:Int) ≤ (nknots:Int) - 2 := by omega
  have tc_le : x < t ((nknots:Int) - n - 1) → t n ≤ x → t c ≤ x := fun a b => (hinside b a).1
  have L1 : 0 ≤ l1 ∧ l1 ≤ c ∧ ¬ x < t l1 ∧ (l1 < c → (c:Int) = n) ∧ (l1 < c → x < t (l1 + 1)) := by
    by_cases hcn : (c:Int) = n
    · have := shiftDown_spec t x h0 (nknots + 1) c hc0 (by push_cast; omega)
      simp only [hl1, hcn, if_true] at *
      obtain ⟨a, b, c', d⟩ := this
      exact ⟨a, b, c', fun _ => trivial, fun hlt => d _ (by omega) (by omega)⟩
    · simp only [hl1, hcn, if_false]
      refine ⟨hc0, le_refl _, ?_, fun h => absurd h (lt_irrefl _), fun h => absurd h (lt_irrefl _)⟩
      have hxn : ¬ x < t n := fun hx => hcn (by exact_mod_cast hbelow hx)
      by_cases hup : t ((nknots:Int) - n - 1) ≤ x
      · have : t c ≤ t ((nknots:Int) - n - 1) := hmono _ _ hc0 (by omega) (by omega)
        exact not_lt.mpr (le_trans this hup)
      · exact not_lt.mpr (tc_le (not_le.mp hup) (not_lt.mp hxn))
  obtain ⟨l1_nonneg, l1_le, l1_x, l1_down, l1_next⟩ := L1
  by_cases hup : t ((nknots:Int) - n - 1) ≤ x
  · -- upper margin (or its left end): c is the last fully supported interval, first loop does not move
    have hc : (c:Int) + n + 2 = nknots := by exact_mod_cast habove hup
    have hl1c : l1 = c := by
      by_contra hne
      have hlt : l1 < c := lt_of_le_of_ne l1_le hne
      have h1 := l1_next hlt
      have : t (l1 + 1) ≤ t ((nknots:Int) - n - 1) := hmono _ _ (by omega) (by omega) (by omega)
      exact absurd (lt_of_lt_of_le h1 (le_trans this hup)) (lt_irrefl _)
    have hcond : l1 = (nknots:Int) - n - 2 := by omega
    rw [if_pos hcond]
    obtain ⟨a, b, c', d⟩ := shiftUp_spec t nknots x hlast' (nknots + 1) l1 (by omega) (by push_cast; omega)
    refine ⟨by omega, b, Or.inr ⟨hup, ?_, not_lt.mp c'⟩, fun h => by omega, fun _ => hc⟩
    by_cases hmv : l1 = shiftUp t nknots x (nknots + 1) l1
    · rw [← hmv, hcond]
      rcases hnd with hnd | hnd
      · exact lt_of_lt_of_le hnd hup
      · have hlt : t ((nknots:Int) - n - 1) < x := lt_of_le_of_ne hup (Ne.symm hnd)
        have : t ((nknots:Int) - n - 2) ≤ t ((nknots:Int) - n - 1) := hmono _ _ (by omega) (by omega) (by omega)
        exact lt_of_le_of_lt this hlt
    · have := d (shiftUp t nknots x (nknots + 1) l1 - 1) (by omega) (by omega)
      simpa using this
  · -- below the upper end: right-continuous bracket, second loop does not move
    have hx : x < t ((nknots:Int) - n - 1) := not_le.mp hup
    have hnext : x < t (l1 + 1) := by
      by_cases hlt : l1 < c
      · exact l1_next hlt
      · have hl1c : l1 = c := by omega
        have hxn : ¬ x < t n := by
          intro hxn
          have hcn : (c:Int) = n := by exact_mod_cast hbelow hxn
          rw [hl1c, hcn] at l1_x
          exact l1_x hxn
        rw [hl1c]; exact (hinside (not_lt.mp hxn) hx).2
    have hl : (if l1 = (nknots:Int) - n - 2 then shiftUp t nknots x (nknots + 1) l1 else l1) = l1 := by
      split
      · unfold shiftUp
        have : ¬ ((decide (l1 < (nknots:Int) - 1) && Arith.lt (t (l1 + 1)) x) = true) := by
          simp [not_lt.mpr (le_of_lt hnext)]
        rw [if_neg this]
      · rfl
    rw [hl]
    exact ⟨l1_nonneg, by omega, Or.inl ⟨hx, not_lt.mp l1_x, hnext⟩, l1_down, fun h => by omega⟩

end PsV
