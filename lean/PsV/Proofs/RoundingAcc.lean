import PsV.Proofs.Rounding
/-!
# Absolute-error calculus with a magnitude majorant

`Acc ε K S a b` (`|b − a| ≤ ((1+ε)^K − 1)·S`, `|a| ≤ S`) is closed under products, sums, **differences**
(the majorants add) and further roundings.  It extends the relative-error calculus `RelErr` (which
cannot survive a subtraction) and carries the forward-error analysis of the derivative path (C02),
where basis values are differences of terms.

The coefficient-block walk is re-analysed for rows whose entries are related by `Acc` to a majorant row
(`walk_err3`); the value-evaluation analysis `walk_err` is the special case majorant row = exact row.
-/
namespace PsV
variable {F : Type} [Field F] [LinearOrder F] [IsStrictOrderedRing F]
variable {ε : F} {fl st : F → F}

theorem Acc.S_nonneg {K : Nat} {S a b : F} (h : Acc ε K S a b) : 0 ≤ S := le_trans (abs_nonneg _) h.2

theorem Acc.refl (_hε : 0 ≤ ε) (a : F) : Acc ε 0 |a| a a := by
  refine ⟨?_, le_refl _⟩
  simp [gfac]

theorem Acc.zero (_hε : 0 ≤ ε) (K : Nat) : Acc ε K (0 : F) 0 0 := by
  refine ⟨by simp, by simp⟩

theorem Acc.of_relerr (hε : 0 ≤ ε) {k : Nat} {a b : F} (h : RelErr ε k a b) : Acc ε k |a| a b :=
  ⟨RelErr.abs_sub hε h, le_refl _⟩

theorem Acc.of_relerr_nonneg (hε : 0 ≤ ε) {k : Nat} {a b : F} (h : RelErr ε k a b) (ha : 0 ≤ a) : Acc ε k a a b := by
  have := Acc.of_relerr hε h
  rwa [abs_of_nonneg ha] at this

theorem Acc.mono_S (hε : 0 ≤ ε) {K : Nat} {S S' a b : F} (h : Acc ε K S a b) (hS : S ≤ S') : Acc ε K S' a b :=
  ⟨le_trans h.1 (mul_le_mul_of_nonneg_left hS (gfac_nonneg hε K)), le_trans h.2 hS⟩

/-- the rounded value is at most `(1+ε)^K` times the majorant -/
theorem Acc.abs_right (hε : 0 ≤ ε) {K : Nat} {S a b : F} (h : Acc ε K S a b) : |b| ≤ (1 + ε) ^ K * S := by
  have h1 : |b| ≤ |b - a| + |a| := by
    have := abs_add_le (b - a) a
    simpa using this
  have h2 := h.1
  have h3 := h.2
  unfold gfac at h2
  linarith

theorem Acc.neg {K : Nat} {S a b : F} (h : Acc ε K S a b) : Acc ε K S (-a) (-b) := by
  refine ⟨?_, by rw [abs_neg]; exact h.2⟩
  have e : -b - -a = -(b - a) := by ring
  rw [e, abs_neg]
  exact h.1

/-- sums: the majorants add -/
theorem Acc.add {K : Nat} {S S' a b a' b' : F} (h : Acc ε K S a b) (h' : Acc ε K S' a' b') :
    Acc ε K (S + S') (a + a') (b + b') := by
  refine ⟨?_, le_trans (abs_add_le _ _) (add_le_add h.2 h'.2)⟩
  have e : b + b' - (a + a') = (b - a) + (b' - a') := by ring
  rw [e]
  calc |(b - a) + (b' - a')| ≤ |b - a| + |b' - a'| := abs_add_le _ _
    _ ≤ gfac ε K * S + gfac ε K * S' := add_le_add h.1 h'.1
    _ = gfac ε K * (S + S') := by ring

/-- **differences: the majorants add** (this is where cancellation is paid for) -/
theorem Acc.sub {K : Nat} {S S' a b a' b' : F} (h : Acc ε K S a b) (h' : Acc ε K S' a' b') :
    Acc ε K (S + S') (a - a') (b - b') := by
  have := Acc.add h (Acc.neg h')
  simpa [sub_eq_add_neg] using this

/-- products -/
theorem Acc.mul (hε : 0 ≤ ε) {K K' : Nat} {S S' a b a' b' : F} (h : Acc ε K S a b) (h' : Acc ε K' S' a' b') :
    Acc ε (K + K') (S * S') (a * a') (b * b') := by
  have hS := h.S_nonneg
  have hb' := Acc.abs_right hε h'
  have key : b * b' - a * a' = (b - a) * b' + a * (b' - a') := by ring
  have hg : gfac ε K * (1 + ε) ^ K' + gfac ε K' = gfac ε (K + K') := by unfold gfac; rw [pow_add]; ring
  constructor
  · rw [key]
    have t1 : |(b - a) * b'| ≤ (gfac ε K * S) * ((1 + ε) ^ K' * S') := by
      rw [abs_mul]
      exact mul_le_mul h.1 hb' (abs_nonneg _) (mul_nonneg (gfac_nonneg hε K) hS)
    have t2 : |a * (b' - a')| ≤ S * (gfac ε K' * S') := by
      rw [abs_mul]
      exact mul_le_mul h.2 h'.1 (abs_nonneg _) hS
    calc |(b - a) * b' + a * (b' - a')| ≤ |(b - a) * b'| + |a * (b' - a')| := abs_add_le _ _
      _ ≤ (gfac ε K * S) * ((1 + ε) ^ K' * S') + S * (gfac ε K' * S') := add_le_add t1 t2
      _ = gfac ε (K + K') * (S * S') := by rw [← hg]; ring
  · rw [abs_mul]
    exact mul_le_mul h.2 h'.2 (abs_nonneg _) hS

/-- further roundings of the computed value -/
theorem Acc.relerr_right (hε : 0 ≤ ε) {K j : Nat} {S a b c : F} (h : Acc ε K S a b) (hc : RelErr ε j b c) :
    Acc ε (K + j) S a c := by
  obtain ⟨r, rfl, r1, r2⟩ := hc
  have hr0 : 0 < r := RelErr.factor_pos hε r1
  have hr : |r - 1| ≤ gfac ε j := RelErr.abs_factor hε r1 r2
  have hS := h.S_nonneg
  have key : b * r - a = (b - a) * r + a * (r - 1) := by ring
  have hg : gfac ε K * (1 + ε) ^ j + gfac ε j = gfac ε (K + j) := by unfold gfac; rw [pow_add]; ring
  refine ⟨?_, h.2⟩
  rw [key]
  have t1 : |(b - a) * r| ≤ gfac ε K * S * (1 + ε) ^ j := by
    rw [abs_mul, abs_of_pos hr0]
    exact mul_le_mul h.1 r2 (le_of_lt hr0) (mul_nonneg (gfac_nonneg hε K) hS)
  have t2 : |a * (r - 1)| ≤ S * gfac ε j := by
    rw [abs_mul]; exact mul_le_mul h.2 hr (abs_nonneg _) hS
  calc |(b - a) * r + a * (r - 1)| ≤ |(b - a) * r| + |a * (r - 1)| := abs_add_le _ _
    _ ≤ gfac ε K * S * (1 + ε) ^ j + S * gfac ε j := add_le_add t1 t2
    _ = gfac ε (K + j) * S := by rw [← hg]; ring

/-- a store of a freshly rounded operation: two roundings -/
theorem relerr_stfl (hε : 0 ≤ ε) (hfl : ∀ a, RelErr ε 1 a (fl a)) (hst : ∀ a, RelErr ε 1 a (st a)) (a : F) :
    RelErr ε 2 a (st (fl a)) := by
  simpa using RelErr.round hε hst (RelErr.round hε hfl (RelErr.refl hε a))

theorem RelErr.neg {k : Nat} {a b : F} (h : RelErr ε k a b) : RelErr ε k (-a) (-b) := by
  obtain ⟨r, rfl, h1, h2⟩ := h
  exact ⟨r, by ring, h1, h2⟩

/-- one accumulation `acc = st(fl(acc + term))` with a term known up to `Acc` -/
theorem Acc.step3 (hε : 0 ≤ ε) {K kt : Nat} {S St a b tE tR c : F} (h : Acc ε K S a b) (ht : Acc ε kt St tE tR)
    (hk : kt ≤ K) (hc : RelErr ε 2 (b + tR) c) : Acc ε (K + 2) (S + St) (a + tE) c :=
  Acc.relerr_right hε (Acc.add h (ht.mono hε hk)) hc

/-! ## rows related to a majorant row -/

/-- entrywise: majorant, exact, rounded -/
def Row3 (ε : F) (kr : Nat) : List F → List F → List F → Prop
  | [], [], [] => True
  | m :: ms, e :: es, r :: rs => Acc ε kr m e r ∧ Row3 ε kr ms es rs
  | _, _, _ => False

def Rows3 (ε : F) (kr : Nat) : List (Nat × List F) → List (Nat × List F) → List (Nat × List F) → Prop
  | [], [], [] => True
  | m :: ms, e :: es, r :: rs => m.1 = e.1 ∧ r.1 = e.1 ∧ Row3 ε kr m.2 e.2 r.2 ∧ Rows3 ε kr ms es rs
  | _, _, _ => False

theorem Row3.mono (hε : 0 ≤ ε) {k k' : Nat} (hk : k ≤ k') : ∀ {ms es rs : List F}, Row3 ε k ms es rs → Row3 ε k' ms es rs
  | [], [], [], _ => trivial
  | _ :: _, _ :: _, _ :: _, ⟨h1, h2⟩ => ⟨h1.mono hε hk, Row3.mono hε hk h2⟩

theorem Row3.length_eq : ∀ {k : Nat} {ms es rs : List F}, Row3 ε k ms es rs → ms.length = es.length ∧ rs.length = es.length
  | _, [], [], [], _ => ⟨rfl, rfl⟩
  | _, _ :: _, _ :: _, _ :: _, ⟨_, h2⟩ => by
    obtain ⟨a, b⟩ := Row3.length_eq h2
    simp [a, b]

/-- a row of non-negative entries known up to relative error is its own majorant -/
theorem Row3.of_forall2 (hε : 0 ≤ ε) {k : Nat} : ∀ {es rs : List F}, List.Forall₂ (RelErr ε k) es rs → (∀ b ∈ es, 0 ≤ b) →
    Row3 ε k es es rs
  | [], [], _, _ => trivial
  | e :: es, r :: rs, h, hnn => by
    cases h with
    | cons h1 h2 =>
      exact ⟨Acc.of_relerr_nonneg hε h1 (hnn e (by simp)), Row3.of_forall2 hε h2 (fun b hb => hnn b (by simp [hb]))⟩

section walk
variable (hε : 0 ≤ ε) (hfl : ∀ a, RelErr ε 1 a (fl a)) (hst : ∀ a, RelErr ε 1 a (st a)) (coef : Int → F)
include hε hfl hst

theorem walkLast_err3 (kt kr kb : Nat) (btM btE btR : F) (hbt : Acc ε kb btM btE btR) (hk : kb + kr + 4 ≤ kt) :
    ∀ (rowM rowE rowR : List F) (pos : Int) (accE accR S : F) (m : Nat),
      Row3 ε kr rowM rowE rowR → Acc ε (kt + 2 * m) S accE accR →
      Acc ε (kt + 2 * (m + rowE.length))
        (@walkLast F (Arith.ofField F) (fun i => |coef i|) btM rowM pos S)
        (@walkLast F (Arith.ofField F) coef btE rowE pos accE)
        (@walkLast F (Arith.rounded fl st) coef btR rowR pos accR) := by
  intro rowM
  induction rowM with
  | nil =>
    intro rowE rowR pos accE accR S m h hacc
    match rowE, rowR, h with
    | [], [], _ => simpa [walkLast] using hacc
  | cons bM bsM ih =>
    intro rowE rowR pos accE accR S m h hacc
    match rowE, rowR, h with
    | b :: bs, bR :: bsR, ⟨hb, hbs⟩ =>
      simp only [walkLast, of_sadd, of_smul, rd_sadd, rd_smul]
      have h1 : Acc ε (kb + kr + 2) (btM * bM) (btE * b) (st (fl (btR * bR))) :=
        Acc.relerr_right hε (Acc.mul hε hbt hb) (relerr_stfl hε hfl hst _)
      have h2 : Acc ε (kb + kr + 2 + 0 + 2) (btM * bM * |coef pos|) (btE * b * coef pos)
          (st (fl (st (fl (btR * bR)) * coef pos))) :=
        Acc.relerr_right hε (Acc.mul hε h1 (Acc.refl hε (coef pos))) (relerr_stfl hε hfl hst _)
      have hstep := Acc.step3 hε hacc (h2.mono hε (K' := kt) (by omega)) (by omega) (relerr_stfl hε hfl hst _)
      have := ih bs bsR (pos + 1) _ _ _ (m + 1) hbs
        (by have e : kt + 2 * (m + 1) = kt + 2 * m + 2 := by ring
            rw [e]; exact hstep)
      have e2 : m + 1 + bs.length = m + (b :: bs).length := by simp only [List.length_cons]; omega
      rw [e2] at this
      exact this

theorem walkRow_err3 (kt kr kb : Nat) (s : Nat) (restM restE restR : List (Nat × List F))
    (ih : ∀ (btM btE btR : F), Acc ε (kb + kr + 2) btM btE btR →
      ∀ (pos : Int) (accE accR S : F) (m : Nat), Acc ε (kt + 2 * m) S accE accR →
        Acc ε (kt + 2 * (m + nterms restE))
          (@walk F (Arith.ofField F) (fun i => |coef i|) restM btM pos S)
          (@walk F (Arith.ofField F) coef restE btE pos accE)
          (@walk F (Arith.rounded fl st) coef restR btR pos accR))
    (btM btE btR : F) (hbt : Acc ε kb btM btE btR) :
    ∀ (rowM rowE rowR : List F) (pos : Int) (accE accR S : F) (m : Nat),
      Row3 ε kr rowM rowE rowR → Acc ε (kt + 2 * m) S accE accR →
      Acc ε (kt + 2 * (m + rowE.length * nterms restE))
        (@walkRow F (Arith.ofField F) (fun i => |coef i|) s restM btM rowM pos S)
        (@walkRow F (Arith.ofField F) coef s restE btE rowE pos accE)
        (@walkRow F (Arith.rounded fl st) coef s restR btR rowR pos accR) := by
  intro rowM
  induction rowM with
  | nil =>
    intro rowE rowR pos accE accR S m h hacc
    match rowE, rowR, h with
    | [], [], _ => simpa [walkRow] using hacc
  | cons bM bsM ihr =>
    intro rowE rowR pos accE accR S m h hacc
    match rowE, rowR, h with
    | b :: bs, bR :: bsR, ⟨hb, hbs⟩ =>
      simp only [walkRow, of_smul, rd_smul]
      have hbt' : Acc ε (kb + kr + 2) (btM * bM) (btE * b) (st (fl (btR * bR))) :=
        Acc.relerr_right hε (Acc.mul hε hbt hb) (relerr_stfl hε hfl hst _)
      have h1 := ih _ _ _ hbt' pos accE accR S m hacc
      have := ihr bs bsR (pos + s) _ _ _ (m + nterms restE) hbs h1
      have e : m + nterms restE + bs.length * nterms restE = m + (b :: bs).length * nterms restE := by
        simp only [List.length_cons]; ring
      rw [e] at this
      exact this

theorem walk_err3 (kt kr : Nat) :
    ∀ (rowsM rowsE rowsR : List (Nat × List F)), Rows3 ε kr rowsM rowsE rowsR →
      ∀ (kb : Nat) (btM btE btR : F), Acc ε kb btM btE btR → kb + rowsE.length * (kr + 2) + 2 ≤ kt →
      ∀ (pos : Int) (accE accR S : F) (m : Nat), Acc ε (kt + 2 * m) S accE accR →
        Acc ε (kt + 2 * (m + nterms rowsE))
          (@walk F (Arith.ofField F) (fun i => |coef i|) rowsM btM pos S)
          (@walk F (Arith.ofField F) coef rowsE btE pos accE)
          (@walk F (Arith.rounded fl st) coef rowsR btR pos accR) := by
  intro rowsM
  induction rowsM with
  | nil =>
    intro rowsE rowsR h kb btM btE btR _ _ pos accE accR S m hacc
    match rowsE, rowsR, h with
    | [], [], _ => simpa [walk, nterms] using hacc
  | cons rM restM ih =>
    intro rowsE rowsR h kb btM btE btR hbt hk pos accE accR S m hacc
    match rowsE, rowsR, h with
    | (sE, rowE) :: restE, (sR, rowR) :: restR, ⟨hs1, hs2, hrow, hrest⟩ =>
      obtain ⟨sM, rowM⟩ := rM
      simp only at hs1 hs2 hrow
      subst hs1; subst hs2
      match restM, restE, restR, hrest, ih with
      | [], [], [], _, _ =>
        simp only [walk, nterms]
        exact walkLast_err3 hε hfl hst coef kt kr kb btM btE btR hbt
          (by simp only [List.length_cons, List.length_nil] at hk; omega) rowM rowE rowR pos accE accR S m hrow hacc
      | r2M :: rest2M, r2 :: rest2, r2R :: rest2R, hrest2, ih =>
        simp only [walk, nterms]
        exact walkRow_err3 hε hfl hst coef kt kr kb _ (r2M :: rest2M) (r2 :: rest2) (r2R :: rest2R)
          (fun bM bE bR hb pos' aE aR S' m' ha =>
            ih (r2 :: rest2) (r2R :: rest2R) hrest2 (kb + kr + 2) bM bE bR hb
              (by simp only [List.length_cons] at hk ⊢; nlinarith) pos' aE aR S' m' ha)
          btM btE btR hbt rowM rowE rowR pos accE accR S m hrow hacc

end walk

end PsV

namespace PsV
variable {F : Type} [Field F] [LinearOrder F] [IsStrictOrderedRing F] {ε : F}

/-- entrywise reading of `Row3` -/
theorem Row3.get {k : Nat} : ∀ {ms es rs : List F}, Row3 ε k ms es rs →
    ∀ (i : Nat) (m e r : F), ms[i]? = some m → es[i]? = some e → rs[i]? = some r → Acc ε k m e r
  | [], [], [], _ => by intro i m e r h; simp at h
  | m0 :: ms, e0 :: es, r0 :: rs, ⟨h1, h2⟩ => by
    intro i m e r hm he hr
    cases i with
    | zero =>
      simp only [List.getElem?_cons_zero, Option.some.injEq] at hm he hr
      subst hm; subst he; subst hr
      exact h1
    | succ i =>
      simp only [List.getElem?_cons_succ] at hm he hr
      exact Row3.get h2 i m e r hm he hr

end PsV
