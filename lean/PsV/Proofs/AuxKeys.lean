import PsV.Model.AuxKeys
/-! Helper lemmas for C16 (store as an insertion-ordered association list; decimal codec; quote codec). -/
namespace PsV.Aux

def keys (st : Store) : List Str := st.map (·.1)
def NoDupKeys (st : Store) : Prop := (keys st).Nodup

/-- the specification: an insertion-ordered map as an association list -/
def Spec.get (m : Store) (k : Str) : Option Str := (m.find? fun e => e.1 == k).map (·.2)
def Spec.put (m : Store) (k v : Str) : Store :=
  if k ∈ keys m then m.map (fun e => if (e.1 == k) = true then (e.1, v) else e) else m ++ [(k, v)]
def Spec.del (m : Store) (k : Str) : Store := m.filter fun e => !(e.1 == k)

theorem Spec.get_cons (a b : Str) (r : Store) (k : Str) :
    Spec.get ((a, b) :: r) k = if (a == k) = true then some b else Spec.get r k := by
  unfold Spec.get
  rw [List.find?_cons]
  cases h : (a == k) <;> simp

theorem Spec.del_cons (a b : Str) (r : Store) (k : Str) :
    Spec.del ((a, b) :: r) k = if (a == k) = true then Spec.del r k else (a, b) :: Spec.del r k := by
  unfold Spec.del
  rw [List.filter_cons]
  cases h : (a == k) <;> simp

theorem Spec.get_append_single (m : Store) (k v k' : Str) :
    Spec.get (m ++ [(k, v)]) k' = match Spec.get m k' with
      | some x => some x
      | none => if (k == k') = true then some v else none := by
  induction m with
  | nil => rw [List.nil_append, Spec.get_cons]; rfl
  | cons e r ih =>
    obtain ⟨a, b⟩ := e
    rw [List.cons_append, Spec.get_cons, Spec.get_cons]
    cases h : (a == k') <;> simp [ih]

/-- the in-place update used by `Spec.put` -/
def upd (k v : Str) (e : Str × Str) : Str × Str := if (e.1 == k) = true then (e.1, v) else e

theorem Spec.get_map_upd_same (m : Store) (k v : Str) (h : k ∈ keys m) : Spec.get (m.map (upd k v)) k = some v := by
  induction m with
  | nil => simp [keys] at h
  | cons e r ih =>
    obtain ⟨a, b⟩ := e
    rw [List.map_cons]
    cases hb : (a == k)
    · have hne : ¬ a = k := by simpa using hb
      have hk : k ∈ keys r := by
        simp only [keys, List.map_cons, List.mem_cons] at h
        rcases h with h | h
        · exact absurd h.symm hne
        · exact h
      have : upd k v (a, b) = (a, b) := by simp [upd, hb]
      rw [this, Spec.get_cons, hb]; simpa using ih hk
    · have : upd k v (a, b) = (a, v) := by simp [upd, hb]
      rw [this, Spec.get_cons, hb]; rfl

theorem Spec.get_map_upd_other (m : Store) (k v k' : Str) (h : k' ≠ k) :
    Spec.get (m.map (upd k v)) k' = Spec.get m k' := by
  induction m with
  | nil => rfl
  | cons e r ih =>
    obtain ⟨a, b⟩ := e
    rw [List.map_cons]
    cases hb : (a == k)
    · have : upd k v (a, b) = (a, b) := by simp [upd, hb]
      rw [this, Spec.get_cons, Spec.get_cons, ih]
    · have hak : a = k := by simpa using hb
      have : upd k v (a, b) = (a, v) := by simp [upd, hb]
      have hk' : (a == k') = false := by rw [hak]; simpa using fun x => h x.symm
      rw [this, Spec.get_cons, Spec.get_cons, hk', ih]; rfl

theorem Spec.get_del_same (m : Store) (k : Str) : Spec.get (Spec.del m k) k = none := by
  induction m with
  | nil => rfl
  | cons e r ih =>
    obtain ⟨a, b⟩ := e
    rw [Spec.del_cons]
    cases hb : (a == k)
    · simp only [Bool.false_eq_true, if_false]; rw [Spec.get_cons, hb]; simpa using ih
    · simpa using ih

theorem Spec.get_del_other (m : Store) (k k' : Str) (h : k' ≠ k) : Spec.get (Spec.del m k) k' = Spec.get m k' := by
  induction m with
  | nil => rfl
  | cons e r ih =>
    obtain ⟨a, b⟩ := e
    rw [Spec.del_cons]
    cases hb : (a == k)
    · simp only [Bool.false_eq_true, if_false]; rw [Spec.get_cons, Spec.get_cons, ih]
    · have hak : a = k := by simpa using hb
      have hk' : (a == k') = false := by rw [hak]; simpa using fun x => h x.symm
      simp only [if_true]; rw [Spec.get_cons, hk', ih]; rfl

theorem hasKey_iff (st : Store) (k : Str) : hasKey st k = true ↔ k ∈ keys st := by
  simp only [hasKey, keys, List.any_eq_true, List.mem_map, beq_iff_eq]

theorem getAux_eq_spec (st : Store) (k : Str) : getAux st k = Spec.get st k := by
  induction st with
  | nil => rfl
  | cons e r ih =>
    obtain ⟨a, b⟩ := e
    simp only [getAux, Spec.get, List.find?_cons]
    by_cases h : (a == k) = true
    · simp [h]
    · simp only [h, Bool.false_eq_true, if_false]; simpa [Spec.get] using ih

theorem getAux_none_iff (st : Store) (k : Str) : getAux st k = none ↔ k ∉ keys st := by
  induction st with
  | nil => simp [getAux, keys]
  | cons e r ih =>
    obtain ⟨a, b⟩ := e
    by_cases h : a = k
    · subst h; simp [getAux, keys]
    · have h' : ¬ k = a := fun x => h x.symm
      simp [getAux, h, h', keys] at ih ⊢; exact ih

theorem setFirst_eq_spec (st : Store) (k v : Str) (hn : NoDupKeys st) :
    setFirst st k v = st.map (fun e => if e.1 == k then (e.1, v) else e) := by
  induction st with
  | nil => rfl
  | cons e r ih =>
    obtain ⟨a, b⟩ := e
    have hn' : a ∉ keys r ∧ NoDupKeys r := by simpa [NoDupKeys, keys] using hn
    by_cases h : a = k
    · subst h
      simp only [setFirst, beq_self_eq_true, if_true, List.map_cons]
      congr 1
      symm
      rw [List.map_congr_left (g := id)]
      · simp
      · intro e he
        have : e.1 ≠ a := fun x => hn'.1 (by simp only [keys, List.mem_map]; exact ⟨e, he, x⟩)
        simp [this]
    · have hb : (a == k) = false := by simpa using h
      simp only [setFirst, List.map_cons, hb, Bool.false_eq_true, if_false]
      rw [ih hn'.2]

theorem eraseFirst_eq_spec (st : Store) (k : Str) (hn : NoDupKeys st) : eraseFirst st k = Spec.del st k := by
  induction st with
  | nil => rfl
  | cons e r ih =>
    obtain ⟨a, b⟩ := e
    have hn' : a ∉ keys r ∧ NoDupKeys r := by simpa [NoDupKeys, keys] using hn
    by_cases h : a = k
    · subst h
      simp only [eraseFirst, Spec.del, beq_self_eq_true, if_true, List.filter_cons, Bool.not_true, Bool.false_eq_true, if_false]
      symm
      rw [List.filter_eq_self]
      intro e he
      have : e.1 ≠ a := fun x => hn'.1 (by simp only [keys, List.mem_map]; exact ⟨e, he, x⟩)
      simp [this]
    · have hb : (a == k) = false := by simpa using h
      simp only [eraseFirst, Spec.del, List.filter_cons, hb, Bool.false_eq_true, if_false, Bool.not_false, if_true]
      rw [ih hn'.2]; rfl

theorem keys_put (m : Store) (k v : Str) :
    keys (Spec.put m k v) = if k ∈ keys m then keys m else keys m ++ [k] := by
  unfold Spec.put
  by_cases h : k ∈ keys m
  · rw [if_pos h, if_pos h]
    simp only [keys, List.map_map]
    apply List.map_congr_left
    intro e _
    by_cases he : e.1 = k <;> simp [he]
  · rw [if_neg h, if_neg h]; simp [keys]

theorem keys_del (m : Store) (k : Str) : keys (Spec.del m k) = (keys m).filter (fun a => !(a == k)) := by
  simp [keys, Spec.del, List.filter_map, Function.comp_def]

theorem nodup_put (m : Store) (k v : Str) (h : NoDupKeys m) : NoDupKeys (Spec.put m k v) := by
  unfold NoDupKeys at *
  rw [keys_put]
  by_cases hk : k ∈ keys m
  · simpa [hk] using h
  · simp only [hk, if_false]
    rw [List.nodup_append]
    refine ⟨h, by simp, ?_⟩
    intro a ha b hb
    simp only [List.mem_singleton] at hb
    subst hb; intro hab; subst hab; exact hk ha

theorem nodup_del (m : Store) (k : Str) (h : NoDupKeys m) : NoDupKeys (Spec.del m k) := by
  unfold NoDupKeys at *
  rw [keys_del]
  exact h.filter _

end PsV.Aux

namespace PsV.Aux

/-! ### decimal codec -/

theorem digit_facts : ∀ d : Fin 10, digitVal (digitChar d.val) = d.val ∧ (digitChar d.val).isDigit = true := by decide

theorem natDigits_allDigits (f n : Nat) (acc : List Char) (h : ∀ c ∈ acc, c.isDigit = true) :
    ∀ c ∈ natDigits f n acc, c.isDigit = true := by
  induction f generalizing n acc with
  | zero => simpa [natDigits] using h
  | succ f ih =>
    have hd : (digitChar (n % 10)).isDigit = true := (digit_facts ⟨n % 10, Nat.mod_lt _ (by decide)⟩).2
    have h' : ∀ c ∈ digitChar (n % 10) :: acc, c.isDigit = true := by
      intro c hc; rcases List.mem_cons.mp hc with rfl | hc
      · exact hd
      · exact h c hc
    simp only [natDigits]
    split
    · exact h'
    · exact ih _ _ h'

theorem natDigits_ne_nil (f n : Nat) (acc : List Char) (h : acc ≠ []) : natDigits f n acc ≠ [] := by
  induction f generalizing n acc with
  | zero => simpa [natDigits] using h
  | succ f ih =>
    simp only [natDigits]
    split
    · simp
    · exact ih _ _ (by simp)

theorem showNat_ne_nil (n : Nat) : showNat n ≠ [] := by
  unfold showNat; simp only [natDigits]
  split
  · simp
  · exact natDigits_ne_nil _ _ _ (by simp)

theorem natDigits_val (f n : Nat) (acc : List Char) (h : n < f) :
    (natDigits f n acc).foldl (fun a c => a * 10 + digitVal c) 0 = acc.foldl (fun a c => a * 10 + digitVal c) n := by
  induction f generalizing n acc with
  | zero => omega
  | succ f ih =>
    have hv : digitVal (digitChar (n % 10)) = n % 10 := (digit_facts ⟨n % 10, Nat.mod_lt _ (by decide)⟩).1
    simp only [natDigits]
    split
    · rename_i h0
      simp only [List.foldl_cons, hv]
      congr 1; omega
    · rename_i h0
      rw [ih (n / 10) _ (by omega)]
      simp only [List.foldl_cons, hv]
      congr 1; omega

theorem digitsVal_showNat (n : Nat) : digitsVal (showNat n) = n := by
  unfold digitsVal showNat
  rw [natDigits_val _ _ _ (by omega)]; rfl

theorem showNat_allDigits (n : Nat) : ∀ c ∈ showNat n, c.isDigit = true :=
  natDigits_allDigits _ _ _ (by simp)

theorem not_space_of_digit (c : Char) (h : c.isDigit = true) : isCSpace c = false := by
  unfold isCSpace
  simp only [Bool.or_eq_false_iff, beq_eq_false_iff_ne, ne_eq]
  refine ⟨⟨⟨⟨⟨?_, ?_⟩, ?_⟩, ?_⟩, ?_⟩, ?_⟩ <;> (rintro rfl; revert h; decide)

theorem splitSign_digit (c : Char) (r : Str) (h : c.isDigit = true) : splitSign (c :: r) = (false, c :: r) := by
  unfold splitSign
  split
  · rename_i heq; injection heq with h1 _; subst h1; exact absurd h (by decide)
  · rename_i heq; injection heq with h1 _; subst h1; exact absurd h (by decide)
  · rfl

theorem takeWhile_all {α} (p : α → Bool) (l : List α) (h : ∀ c ∈ l, p c = true) : l.takeWhile p = l := by
  induction l with
  | nil => rfl
  | cons a r ih =>
    rw [List.takeWhile_cons_of_pos (h a (by simp)), ih (fun c hc => h c (by simp [hc]))]

theorem parseBody_digits (neg : Bool) (ds : Str) (hne : ds ≠ []) (hd : ∀ c ∈ ds, c.isDigit = true) :
    parseBody neg ds =
      (let v : Int := if neg then -(digitsVal ds : Int) else (digitsVal ds : Int)
       if v > intMax then (false, some intMax) else if v < intMin then (false, some intMin) else (true, some v)) := by
  unfold parseBody
  have : ds.takeWhile Char.isDigit = ds := takeWhile_all _ _ hd
  simp only [this]
  have : ds.isEmpty = false := by cases ds <;> simp_all
  simp [this]

theorem parseInt_showInt (n : Int) (hlo : intMin ≤ n) (hhi : n ≤ intMax) : parseInt (showInt n) = (true, some n) := by
  unfold showInt
  by_cases hn : n < 0
  · simp only [hn, if_true]
    unfold parseInt
    have h1 : ('-' :: showNat n.natAbs).dropWhile isCSpace = '-' :: showNat n.natAbs := by
      rw [List.dropWhile_cons_of_neg]; decide
    simp only [h1, List.isEmpty_cons, Bool.false_eq_true, if_false]
    have h2 : splitSign ('-' :: showNat n.natAbs) = (true, showNat n.natAbs) := rfl
    rw [h2, parseBody_digits _ _ (showNat_ne_nil _) (showNat_allDigits _), digitsVal_showNat]
    simp only [if_true]
    unfold intMax intMin at *
    have : (-(n.natAbs : Int)) = n := by omega
    rw [this]
    simp only [show ¬ n > 2147483647 by omega, show ¬ n < -2147483648 by omega, if_false]
  · simp only [hn, if_false]
    unfold parseInt
    obtain ⟨c, r, hcr⟩ : ∃ c r, showNat n.toNat = c :: r := by
      cases h : showNat n.toNat with
      | nil => exact absurd h (showNat_ne_nil _)
      | cons c r => exact ⟨c, r, rfl⟩
    have hc : c.isDigit = true := showNat_allDigits n.toNat c (by rw [hcr]; simp)
    have h1 : (showNat n.toNat).dropWhile isCSpace = showNat n.toNat := by
      rw [hcr, List.dropWhile_cons_of_neg]; simp [not_space_of_digit c hc]
    simp only [h1]
    have h3 : (showNat n.toNat).isEmpty = false := by rw [hcr]; rfl
    simp only [h3, Bool.false_eq_true, if_false]
    have h2 : splitSign (showNat n.toNat) = (false, showNat n.toNat) := by rw [hcr]; exact splitSign_digit c r hc
    rw [h2, parseBody_digits _ _ (showNat_ne_nil _) (showNat_allDigits _), digitsVal_showNat]
    simp only [Bool.false_eq_true, if_false]
    unfold intMax intMin at *
    have : ((n.toNat : Nat) : Int) = n := by omega
    rw [this]
    simp only [show ¬ n > 2147483647 by omega, show ¬ n < -2147483648 by omega, if_false]

end PsV.Aux

namespace PsV.Aux

/-! ### quote codec: `ffs2c` doubles, `ffpsvc` copies, the repaired reader un-doubles -/

/-- a string with every quote doubled -/
def dbl : List Char → List Char
  | [] => []
  | c :: r => if c == '\'' then c :: c :: dbl r else c :: dbl r

theorem length_dbl (v : Str) : (dbl v).length = v.length + countQuotes v := by
  induction v with
  | nil => rfl
  | cons c r ih =>
    unfold countQuotes at *
    by_cases h : c = '\''
    · subst h; simp [dbl, ih]; omega
    · have hb : (c == '\'') = false := by simpa using h
      simp [dbl, hb, ih, List.count_cons, h]; omega

theorem s2cBody_eq (v : Str) (jj : Nat) (h : jj + (dbl v).length ≤ 69) : s2cBody v jj = dbl v := by
  induction v generalizing jj with
  | nil => rfl
  | cons c r ih =>
    by_cases hc : (c == '\'') = true
    · simp only [dbl, hc, if_true, List.length_cons] at h ⊢
      simp only [s2cBody, hc, if_true, show ¬ jj ≥ 69 by omega, if_false]
      rw [ih (jj + 2) (by omega)]
    · simp only [dbl, hc, Bool.false_eq_true, if_false, List.length_cons] at h ⊢
      simp only [s2cBody, hc, Bool.false_eq_true, if_false, show ¬ jj ≥ 69 by omega]
      rw [ih (jj + 1) (by omega)]

theorem ffs2c_eq (v : Str) (h : v.length + countQuotes v ≤ 68) :
    ffs2c v = '\'' :: (dbl v ++ blanks (8 - (dbl v).length)) ++ ['\''] := by
  have hl := length_dbl v
  have hv : v.take 68 = v := List.take_of_length_le (by omega)
  unfold ffs2c
  simp only [hv, s2cBody_eq v 1 (by omega)]
  have : ¬ (max (1 + (dbl v).length) 9 == 70) = true := by simp; omega
  have h9 : 9 - (1 + (dbl v).length) = 8 - (dbl v).length := by omega
  rw [if_neg this, h9]

theorem psvcQ_dbl (v : Str) (f jj : Nat) (t : List Char) (h : jj + (dbl v).length ≤ 69)
    (hfl : PsV.Gen.C16.flenValue = 71) :
    psvcQ (f + v.length) (dbl v ++ t) jj = dbl v ++ psvcQ f t (jj + (dbl v).length) := by
  induction v generalizing jj with
  | nil => simp [dbl]
  | cons c r ih =>
    by_cases hc : (c == '\'') = true
    · simp only [dbl, hc, if_true, List.length_cons] at h ⊢
      have : f + (r.length + 1) = (f + r.length) + 1 := by omega
      rw [this]
      simp only [List.cons_append, psvcQ, hfl, hc, if_true, show ¬ jj ≥ 71 - 1 by omega, if_false,
        show jj + 1 < 71 - 1 by omega]
      have hq : c = '\'' := by simpa using hc
      subst hq
      simp only [List.cons.injEq, true_and]
      rw [ih (jj + 2) (by omega)]
      congr 2; omega
    · simp only [dbl, hc, Bool.false_eq_true, if_false, List.length_cons] at h ⊢
      have : f + (r.length + 1) = (f + r.length) + 1 := by omega
      rw [this]
      simp only [List.cons_append, psvcQ, hfl, hc, Bool.false_eq_true, if_false, show ¬ jj ≥ 71 - 1 by omega]
      rw [ih (jj + 1) (by omega), show jj + 1 + (dbl r).length = jj + ((dbl r).length + 1) by omega]

theorem dbl_blanks (m : Nat) : dbl (blanks m) = blanks m := by
  induction m with
  | zero => rfl
  | succ m ih =>
    show dbl (' ' :: blanks m) = ' ' :: blanks m
    simp only [dbl, show (' ' == '\'') = false by decide, Bool.false_eq_true, if_false, ih]

theorem dbl_append (a b : List Char) : dbl (a ++ b) = dbl a ++ dbl b := by
  induction a with
  | nil => rfl
  | cons c r ih => by_cases hc : (c == '\'') = true <;> simp [dbl, hc, ih]

theorem undouble_dbl_blanks (v : Str) (m : Nat) : undouble (dbl v ++ blanks m) = v ++ blanks m := by
  induction v with
  | nil =>
    simp only [dbl, List.nil_append]
    induction m with
    | zero => rfl
    | succ m ih =>
      show undouble (' ' :: blanks m) = ' ' :: blanks m
      rw [undouble]
      · rw [ih]
      · intro r h; exact absurd h (by decide)
  | cons c r ih =>
    by_cases hc : c = '\''
    · subst hc
      simp only [dbl, beq_self_eq_true, if_true, List.cons_append, undouble, ih]
    · have hb : (c == '\'') = false := by simpa using hc
      simp only [dbl, hb, Bool.false_eq_true, if_false, List.cons_append]
      rw [undouble]
      · rw [ih]
      · intro r h; exact absurd h hc

end PsV.Aux

namespace PsV.Aux
open PsV.Gen

theorem longKeyScan_none (k : Str) (h : longKeyScan k = none) : '=' ∉ k := by
  induction k with
  | nil => simp
  | cons c r ih =>
    unfold longKeyScan at h
    by_cases h0 : outOfRange C16.keyCharRange c = true
    · simp [h0] at h
    simp only [h0, Bool.false_eq_true, if_false] at h
    by_cases h1 : (c == '=') = true
    · simp [h1] at h
    · simp only [h1, Bool.false_eq_true, if_false] at h
      by_cases h2 : c.isLower = true
      · simp [h2] at h
      · simp only [h2, Bool.false_eq_true, if_false] at h
        have hc : c ≠ '=' := by simpa using h1
        simp only [List.mem_cons, not_or]
        exact ⟨fun x => hc x.symm, ih h⟩

theorem psvcQ_close (f jj : Nat) (h : jj < 70) : psvcQ (f + 1) ['\''] jj = ['\''] := by
  simp only [psvcQ, C16.flenValue, show ¬ jj ≥ 71 - 1 by omega, if_false, beq_self_eq_true, if_true]

end PsV.Aux
