import PsV.Proofs.FitQuad
import Mathlib.Algebra.BigOperators.Intervals
/-!
# C09: a successful exact elimination certifies positive definiteness

`solveSPD` / `spdPivots` (PsV/Spec/Fit.lean) run Gaussian elimination without pivoting and give up as
soon as a pivot is not positive.  For a symmetric matrix, success therefore proves that the matrix is
positive definite (`NormalEq.PosDef`).

* `schur`, `PosDefFrom`, `posDefFrom_of_schur`: pure linear algebra (completing the square).
* `ent_elimStep`: one `elimStep` of the array code is one Schur step on the entry function.
* `elimLoop_posDefFrom`: induction along the loop.
* `solveSPD_posDef`, `spdPivots_posDef`, `specFit_posDef`.
-/
set_option linter.unusedSectionVars false
set_option linter.unusedSimpArgs false
set_option linter.unusedVariables false
namespace PsV
open Arith Finset NormalEq

/-! ## linear algebra: one Schur step -/
section Algebra
variable {α : Type} [Field α]

/-- one step of elimination on the entry function: `M_ij − M_ik / M_kk · M_kj` -/
def schur (M : Nat → Nat → α) (k i j : Nat) : α := M i j - M i k / M k k * M k j

/-- the quadratic form of `M` on the index window `[k, n)` -/
def quadFrom (k n : Nat) (M : Nat → Nat → α) (v : Nat → α) : α :=
  ∑ i ∈ Ico k n, ∑ j ∈ Ico k n, v i * M i j * v j

theorem quadFrom_congr {k n : Nat} {M M' : Nat → Nat → α} (v : Nat → α)
    (h : ∀ i, k ≤ i → i < n → ∀ j, k ≤ j → j < n → M i j = M' i j) :
    quadFrom k n M v = quadFrom k n M' v := by
  unfold quadFrom
  refine sum_congr rfl (fun i hi => sum_congr rfl (fun j hj => ?_))
  rw [mem_Ico] at hi hj
  rw [h i hi.1 hi.2 j hj.1 hj.2]

theorem quadFrom_zero_eq_quad (n : Nat) (M : Nat → Nat → α) (v : Nat → α) :
    quadFrom 0 n M v = quad n M v := by
  unfold quadFrom quad mulVec
  rw [← range_eq_Ico]
  refine sum_congr rfl (fun i _ => ?_)
  rw [mul_sum]
  exact sum_congr rfl (fun j _ => by ring)

/-- splitting off the first index of the window -/
theorem quadFrom_split {k n : Nat} (hk : k < n) (M : Nat → Nat → α) (v : Nat → α) :
    quadFrom k n M v
      = M k k * v k ^ 2 + v k * (∑ j ∈ Ico (k+1) n, M k j * v j)
        + (∑ i ∈ Ico (k+1) n, v i * M i k) * v k + quadFrom (k+1) n M v := by
  unfold quadFrom
  rw [sum_eq_sum_Ico_succ_bot hk, sum_eq_sum_Ico_succ_bot hk]
  have h1 : ∀ i ∈ Ico (k+1) n, ∑ j ∈ Ico k n, v i * M i j * v j
      = v i * M i k * v k + ∑ j ∈ Ico (k+1) n, v i * M i j * v j :=
    fun i _ => sum_eq_sum_Ico_succ_bot hk _
  rw [sum_congr rfl h1, sum_add_distrib, mul_sum, sum_mul]
  have h2 : ∀ j ∈ Ico (k+1) n, v k * M k j * v j = v k * (M k j * v j) := fun j _ => by ring
  rw [sum_congr rfl h2]
  ring

/-- the quadratic form of the Schur complement -/
theorem quadFrom_schur (k n : Nat) (M : Nat → Nat → α) (v : Nat → α) :
    quadFrom (k+1) n (schur M k) v
      = quadFrom (k+1) n M v
        - (∑ i ∈ Ico (k+1) n, v i * M i k) * (∑ j ∈ Ico (k+1) n, M k j * v j) * (M k k)⁻¹ := by
  unfold quadFrom schur
  rw [sum_mul_sum, sum_mul, ← sum_sub_distrib]
  refine sum_congr rfl (fun i _ => ?_)
  rw [sum_mul, ← sum_sub_distrib]
  exact sum_congr rfl (fun j _ => by ring)

/-- completing the square -/
theorem quadFrom_complete_square {k n : Nat} (hk : k < n) (M : Nat → Nat → α) (v : Nat → α)
    (hS : ∀ i, k < i → i < n → M i k = M k i) (hd : M k k ≠ 0) :
    quadFrom k n M v
      = M k k * (v k + (∑ j ∈ Ico (k+1) n, M k j * v j) / M k k) ^ 2
        + quadFrom (k+1) n (schur M k) v := by
  have hu : ∑ i ∈ Ico (k+1) n, v i * M i k = ∑ j ∈ Ico (k+1) n, M k j * v j := by
    refine sum_congr rfl (fun i hi => ?_)
    rw [mem_Ico] at hi
    rw [hS i (by omega) hi.2, mul_comm]
  rw [quadFrom_split hk, quadFrom_schur, hu]
  field_simp
  ring

end Algebra

section Order
variable {α : Type} [Field α] [LinearOrder α] [IsStrictOrderedRing α]

/-- positive definiteness of the window `[k, n)` of `M` -/
def PosDefFrom (k n : Nat) (M : Nat → Nat → α) : Prop :=
  ∀ v : Nat → α, (∃ i, k ≤ i ∧ i < n ∧ v i ≠ 0) → 0 < quadFrom k n M v

theorem posDefFrom_self (n : Nat) (M : Nat → Nat → α) : PosDefFrom n n M := by
  rintro v ⟨i, h1, h2, _⟩
  omega

theorem posDefFrom_of_le {k n : Nat} (h : n ≤ k) (M : Nat → Nat → α) : PosDefFrom k n M := by
  rintro v ⟨i, h1, h2, _⟩
  omega

theorem posDefFrom_congr {k n : Nat} {M M' : Nat → Nat → α}
    (h : ∀ i, k ≤ i → i < n → ∀ j, k ≤ j → j < n → M i j = M' i j) (hP : PosDefFrom k n M) :
    PosDefFrom k n M' := by
  intro v hv
  rw [← quadFrom_congr v h]
  exact hP v hv

theorem posDefFrom_zero_iff (n : Nat) (M : Nat → Nat → α) : PosDefFrom 0 n M ↔ PosDef n M := by
  constructor
  · rintro h v ⟨i, hi, hvi⟩
    rw [← quadFrom_zero_eq_quad]
    exact h v ⟨i, Nat.zero_le _, hi, hvi⟩
  · rintro h v ⟨i, _, hi, hvi⟩
    rw [quadFrom_zero_eq_quad]
    exact h v ⟨i, hi, hvi⟩

/-- **one elimination step, read backwards**: a positive pivot and a positive definite Schur
complement make the window positive definite -/
theorem posDefFrom_of_schur {k n : Nat} (M : Nat → Nat → α)
    (hS : ∀ i, k < i → i < n → M i k = M k i) (hd : 0 < M k k)
    (hP : PosDefFrom (k+1) n (schur M k)) : PosDefFrom k n M := by
  rintro v ⟨i, hki, hin, hvi⟩
  have hk : k < n := by omega
  rw [quadFrom_complete_square hk M v hS (ne_of_gt hd)]
  by_cases hex : ∃ i, k + 1 ≤ i ∧ i < n ∧ v i ≠ 0
  · have h2 := hP v hex
    have h1 : 0 ≤ M k k * (v k + (∑ j ∈ Ico (k+1) n, M k j * v j) / M k k) ^ 2 :=
      mul_nonneg (le_of_lt hd) (sq_nonneg _)
    linarith
  · have hz : ∀ j, k + 1 ≤ j → j < n → v j = 0 := by
      intro j h1 h2
      by_contra hne
      exact hex ⟨j, h1, h2, hne⟩
    have hik : i = k := by
      by_contra hne
      exact hvi (hz i (by omega) hin)
    subst hik
    have hu : ∑ j ∈ Ico (i+1) n, M i j * v j = 0 := by
      refine sum_eq_zero (fun j hj => ?_)
      rw [mem_Ico] at hj
      rw [hz j hj.1 hj.2, mul_zero]
    have hq : quadFrom (i+1) n (schur M i) v = 0 := by
      unfold quadFrom
      refine sum_eq_zero (fun a ha => sum_eq_zero (fun b hb => ?_))
      rw [mem_Ico] at hb
      rw [hz b hb.1 hb.2, mul_zero]
    rw [hu, hq, zero_div, add_zero, add_zero]
    exact mul_pos hd (lt_of_le_of_ne (sq_nonneg _) (Ne.symm (pow_ne_zero 2 hvi)))

theorem schur_symm {k n : Nat} (M : Nat → Nat → α)
    (hS : ∀ i, k ≤ i → i < n → ∀ j, k ≤ j → j < n → M i j = M j i)
    (i j : Nat) (hi : k ≤ i) (hin : i < n) (hj : k ≤ j) (hjn : j < n) :
    schur M k i j = schur M k j i := by
  have hk : k < n := by omega
  unfold schur
  rw [hS i hi hin j hj hjn, hS i hi hin k (le_refl _) hk, hS k (le_refl _) hk j hj hjn]
  ring

end Order

/-! ## the array code -/
section Arrays
variable {α : Type} [Field α] [LinearOrder α] [IsStrictOrderedRing α] [A : Arith α] [L : LawfulArith α]

/-- entry `(i, j)` of the working rows of the elimination -/
def ent (rows : Array (Array α)) (i j : Nat) : α := (rows.getD i #[]).getD j A.zero

theorem getD_mapIdx_lt {β γ : Type} (f : Nat → β → γ) (xs : Array β) (i : Nat) (d : γ) (d' : β)
    (h : i < xs.size) : (xs.mapIdx f).getD i d = f i (xs.getD i d') := by
  rw [Array.getD_eq_getD_getElem?, Array.getD_eq_getD_getElem?, Array.getElem?_mapIdx,
    Array.getElem?_eq_getElem h]
  rfl

theorem getD_mapIdx_ge {β γ : Type} (f : Nat → β → γ) (xs : Array β) (i : Nat) (d : γ)
    (h : xs.size ≤ i) : (xs.mapIdx f).getD i d = d := by
  rw [Array.getD_eq_getD_getElem?, Array.getElem?_mapIdx, Array.getElem?_eq_none h]
  rfl

theorem size_elimStep (k : Nat) (prow : Array α) (piv : α) (rows : Array (Array α)) :
    (elimStep k prow piv rows).size = rows.size := by
  unfold elimStep
  exact Array.size_mapIdx

theorem rowSize_elimStep (k : Nat) (prow : Array α) (piv : α) (rows : Array (Array α)) (i : Nat) :
    ((elimStep k prow piv rows).getD i #[]).size = (rows.getD i #[]).size := by
  unfold elimStep
  by_cases h : i < rows.size
  · rw [getD_mapIdx_lt _ _ _ _ #[] h]
    by_cases h1 : i ≤ k
    · rw [if_pos h1]
    · rw [if_neg h1]
      generalize rows.getD i #[] = row
      dsimp only
      split
      · rfl
      · exact Array.size_mapIdx
  · rw [getD_mapIdx_ge _ _ _ _ (by omega)]
    rw [Array.getD_eq_getD_getElem?, Array.getElem?_eq_none (by omega)]
    rfl

/-- one `elimStep` is one Schur step on the entries below and right of the pivot -/
theorem ent_elimStep (k : Nat) (rows : Array (Array α)) (i j : Nat)
    (hki : k < i) (hi : i < rows.size) (hkj : k ≤ j) (hj : j < (rows.getD i #[]).size) :
    ent (elimStep k (rows.getD k #[]) ((rows.getD k #[]).getD k A.zero) rows) i j
      = schur (ent rows) k i j := by
  unfold ent schur elimStep
  beta_reduce
  rw [getD_mapIdx_lt _ _ _ _ #[] hi, if_neg (by omega)]
  generalize rows.getD i #[] = row at hj ⊢
  generalize rows.getD k #[] = prow
  dsimp only
  rw [L.div_eq]
  by_cases hz : isZero (row.getD k A.zero / prow.getD k A.zero) = true
  · rw [if_pos hz]
    rw [isZero_iff] at hz
    rw [hz, zero_mul, sub_zero]
  · rw [if_neg hz, getD_mapIdx_lt _ _ _ _ A.zero hj, if_neg (by omega), L.sub_eq, L.mul_eq]

/-- **the loop**: if the elimination from column `k` on succeeds on rows whose window `[k, n)` is
symmetric, that window is positive definite -/
theorem elimLoop_posDefFrom (n : Nat) : ∀ (fuel k : Nat) (rows rows' : Array (Array α)),
    n ≤ k + fuel → rows.size = n → (∀ i, i < n → n ≤ (rows.getD i #[]).size) →
    (∀ i, k ≤ i → i < n → ∀ j, k ≤ j → j < n → ent rows i j = ent rows j i) →
    elimLoop n fuel k rows = some rows' → PosDefFrom k n (ent rows) := by
  intro fuel
  induction fuel with
  | zero =>
    intro k rows rows' hf _ _ _ _
    exact posDefFrom_of_le (by omega) _
  | succ f ih =>
    intro k rows rows' hf hsz hrs hS h
    by_cases hk : k ≥ n
    · exact posDefFrom_of_le hk _
    · unfold elimLoop at h
      rw [if_neg hk] at h
      dsimp only at h
      cases hlt : A.lt A.zero ((rows.getD k #[]).getD k A.zero) with
      | false => rw [hlt] at h; simp at h
      | true =>
        rw [hlt] at h
        simp only [Bool.not_true, Bool.false_eq_true, if_false] at h
        have hpiv : 0 < ent rows k k := by
          have := (L.lt_iff _ _).1 hlt
          unfold ent
          rw [L.zero_eq] at this ⊢
          exact this
        have hent : ∀ i, k + 1 ≤ i → i < n → ∀ j, k + 1 ≤ j → j < n →
            ent (elimStep k (rows.getD k #[]) ((rows.getD k #[]).getD k A.zero) rows) i j
              = schur (ent rows) k i j := by
          intro i hi hin j hj hjn
          exact ent_elimStep k rows i j (by omega) (by omega) (by omega)
            (lt_of_lt_of_le hjn (hrs i hin))
        have hP := ih (k+1) _ rows' (by omega) (by rw [size_elimStep]; exact hsz)
          (fun i hi => by rw [rowSize_elimStep]; exact hrs i hi)
          (fun i hi hin j hj hjn => by
            rw [hent i hi hin j hj hjn, hent j hj hjn i hi hin]
            exact schur_symm (n := n) (ent rows) hS i j (by omega) hin (by omega) hjn)
          h
        refine posDefFrom_of_schur (ent rows) (fun i hi hin => hS i (by omega) hin k (le_refl _) (by omega))
          hpiv (posDefFrom_congr hent hP)

theorem getD_ofFn {β : Type} (n : Nat) (f : Fin n → β) (i : Nat) (d : β) (hi : i < n) :
    (Array.ofFn f).getD i d = f ⟨i, hi⟩ := by
  rw [Array.getD_eq_getD_getElem?, Array.getElem?_ofFn, dif_pos hi]
  rfl

/-- entries of the initial working rows -/
theorem ent_ofFn (n w : Nat) (g : Nat → Nat → α) (i j : Nat) (hi : i < n) (hj : j < w) :
    ent (Array.ofFn (n := n) fun i => Array.ofFn (n := w) fun j => g i.val j.val) i j = g i j := by
  unfold ent
  rw [getD_ofFn n _ i #[] hi, getD_ofFn w _ j A.zero hj]

theorem rowSize_ofFn (n w : Nat) (g : Nat → Nat → α) (i : Nat) (hi : i < n) :
    ((Array.ofFn (n := n) fun i => Array.ofFn (n := w) fun j => g i.val j.val).getD i #[]).size = w := by
  rw [getD_ofFn n _ i #[] hi]
  exact Array.size_ofFn

/-- success of the loop on an initial table of width `w ≥ n` whose left `n × n` block is the
symmetric matrix `M` -/
theorem elimLoop_ofFn_posDef (n w : Nat) (hw : n ≤ w) (g : Nat → Nat → α) (rows' : Array (Array α))
    (hS : ∀ i < n, ∀ j < n, g i j = g j i)
    (h : elimLoop n n 0 (Array.ofFn (n := n) fun i => Array.ofFn (n := w) fun j => g i.val j.val)
      = some rows') : PosDef n g := by
  have hP := elimLoop_posDefFrom n n 0 _ rows' (by omega) Array.size_ofFn
    (fun i hi => by rw [rowSize_ofFn n w g i hi]; exact hw)
    (fun i _ hi j _ hj => by
      rw [ent_ofFn n w g i j hi (by omega), ent_ofFn n w g j i hj (by omega)]
      exact hS i hi j hj)
    h
  rw [← posDefFrom_zero_iff]
  exact posDefFrom_congr (fun i _ hi j _ hj => ent_ofFn n w g i j hi (by omega)) hP

/-- if the exact elimination of the driver succeeds on a symmetric matrix, the matrix is positive
definite -/
theorem solveSPD_posDef (M : Tab2 α) (r c : Array α)
    (hS : ∀ i < M.n, ∀ j < M.n, M.get i j = M.get j i)
    (h : solveSPD M r = some c) : PosDef M.n (fun i j => M.get i j) := by
  unfold solveSPD at h
  dsimp only at h
  split at h
  · exact absurd h (by simp)
  · rename_i rows' hrows
    have hP := elimLoop_ofFn_posDef M.n (M.n + 1) (by omega)
      (fun i j => if j < M.n then M.get i j else r.getD i A.zero) rows'
      (fun i hi j hj => by simp only [hi, hj, if_true]; exact hS i hi j hj) hrows
    intro v hv
    have := hP v hv
    rw [quad_congr_mat (M' := fun i j => M.get i j) _ v (fun i hi j hj => by simp only [hj, if_true])]
      at this
    exact this

theorem spdPivots_posDef (M : Tab2 α) (ps : List α)
    (hS : ∀ i < M.n, ∀ j < M.n, M.get i j = M.get j i)
    (h : spdPivots M = some ps) : PosDef M.n (fun i j => M.get i j) := by
  unfold spdPivots at h
  dsimp only at h
  split at h
  · exact absurd h (by simp)
  · rename_i rows' hrows
    exact elimLoop_ofFn_posDef M.n M.n (le_refl _) (fun i j => M.get i j) rows' hS hrows

/-- the verdict `spd` of `psvdriver C09` certifies positive definiteness of the normal matrix -/
theorem specFit_posDef (P : FitProblem α) (c : Array α) (h : specFit P = some c) :
    PosDef P.ncoef (Mf P) :=
  solveSPD_posDef (specM P) (specR P) c (specM_symm P) h

end Arrays
end PsV
