import PsV.Proofs.Glam
import PsV.Proofs.EvalSpec
/-!
# C17: where the right-continuous basis of `grideval` and the pointwise convention coincide

`grideval` builds its basis matrices with the right-continuous order-0 indicator in every dimension
(`indR`), the pointwise evaluation switches to the left-continuous one (`indL`) for `x ≥ knots[naxes]`
(`selInd`).  The two Cox–de Boor recursions give the same value of `B_{i,n}` at `x` exactly when `x`
occurs at most `n` times among the knots `t_i … t_{i+n+1}` of that function (the function is continuous
there); at an `(n+1)`-fold knot the function jumps between `0` and `1`.  Everything here is for a
knot vector that is non-decreasing on the window in question; the carrier is any ordered field with a
lawful `Arith`.
-/
namespace PsV
open Arith
section
variable {α : Type} [Field α] [LinearOrder α] [A : Arith α] [L : LawfulArith α]

/-- `t` is non-decreasing on the index window `[lo, hi]` -/
def MonoOn (t : Int → α) (lo hi : Int) : Prop := ∀ a b : Int, lo ≤ a → a ≤ b → b ≤ hi → t a ≤ t b

theorem MonoOn.sub {t : Int → α} {lo hi lo' hi' : Int} (h : MonoOn t lo hi) (h1 : lo ≤ lo') (h2 : hi' ≤ hi) :
    MonoOn t lo' hi' := fun a b ha hab hb => h a b (by omega) hab (by omega)

theorem Bind_zero' (ind : Int → Bool) (t : Int → α) (x : α) (i : Int) :
    Bind ind t x 0 i = if ind i then 1 else 0 := by
  simp only [Bind, L.one_eq, L.zero_eq]

theorem Bind_succ' (ind : Int → Bool) (t : Int → α) (x : α) (n : Nat) (i : Int) :
    Bind ind t x (n+1) i
      = (x - t i) / (t (i + n + 1) - t i) * Bind ind t x n i
        + (t (i + n + 2) - x) / (t (i + n + 2) - t (i + 1)) * Bind ind t x n (i+1) := by
  simp only [Bind, L.add_eq, L.sub_eq, L.mul_eq, L.div_eq]

theorem indR_iff_lawful (t : Int → α) (x : α) (i : Int) : indR t x i = true ↔ t i ≤ x ∧ x < t (i+1) := by
  simp only [indR, Bool.and_eq_true, L.le_iff, L.lt_iff]

theorem indL_iff_lawful (t : Int → α) (x : α) (i : Int) : indL t x i = true ↔ t i < x ∧ x ≤ t (i+1) := by
  simp only [indL, Bool.and_eq_true, L.le_iff, L.lt_iff]

/-- a knot of full multiplicity at the left end of the support: `t_i = … = t_{i+n} = x < t_{i+n+1}`.
The right-continuous function is `1` there, the left-continuous one `0`. -/
theorem Bind_full_left (t : Int → α) (x : α) (n : Nat) : ∀ (i : Int), MonoOn t i (i + n + 1) →
    t i = x → t (i + n) = x → x < t (i + n + 1) →
    Bind (indR t x) t x n i = 1 ∧ Bind (indL t x) t x n i = 0 := by
  induction n with
  | zero =>
    intro i _ h1 _ h3
    simp only [Nat.cast_zero, add_zero] at h3
    have hR : indR t x i = true := (indR_iff_lawful t x i).mpr ⟨le_of_eq h1, h3⟩
    have hL : indL t x i = false := by
      rw [Bool.eq_false_iff]; intro h
      exact absurd h1 (ne_of_lt ((indL_iff_lawful t x i).mp h).1)
    simp [Bind_zero', hR, hL]
  | succ n ih =>
    intro i hm h1 h2 h3
    have e1 : i + ((n + 1 : Nat) : Int) = i + n + 1 := by push_cast; ring
    have e2 : i + ((n + 1 : Nat) : Int) + 1 = i + n + 2 := by push_cast; ring
    rw [e1] at h2
    rw [e2] at h3 hm
    have hi1 : t (i + 1) = x := by
      apply le_antisymm
      · rw [← h2]; exact hm _ _ (by omega) (by omega) (by omega)
      · rw [← h1]; exact hm _ _ (by omega) (by omega) (by omega)
    have e3 : i + 1 + (n : Int) = i + n + 1 := by ring
    have e4 : i + 1 + (n : Int) + 1 = i + n + 2 := by ring
    obtain ⟨r, l⟩ := ih (i + 1) (by rw [e4]; exact hm.sub (by omega) (by omega)) hi1 (by rw [e3]; exact h2)
      (by rw [e4]; exact h3)
    have hne : t (i + n + 2) - x ≠ 0 := sub_ne_zero.mpr (ne_of_gt h3)
    rw [Bind_succ', Bind_succ', r, l, h1, hi1, sub_self, zero_div, div_self hne]
    simp

/-- a knot of full multiplicity at the right end of the support: `t_i < x = t_{i+1} = … = t_{i+n+1}`.
The right-continuous function is `0` there, the left-continuous one `1`. -/
theorem Bind_full_right (t : Int → α) (x : α) (n : Nat) : ∀ (i : Int), MonoOn t i (i + n + 1) →
    t i < x → t (i + 1) = x → t (i + n + 1) = x →
    Bind (indR t x) t x n i = 0 ∧ Bind (indL t x) t x n i = 1 := by
  induction n with
  | zero =>
    intro i _ h1 h2 _
    have hR : indR t x i = false := by
      rw [Bool.eq_false_iff]; intro h
      exact absurd h2 (ne_of_gt ((indR_iff_lawful t x i).mp h).2)
    have hL : indL t x i = true := (indL_iff_lawful t x i).mpr ⟨h1, le_of_eq h2.symm⟩
    simp [Bind_zero', hR, hL]
  | succ n ih =>
    intro i hm h1 h2 h3
    have e2 : i + ((n + 1 : Nat) : Int) + 1 = i + n + 2 := by push_cast; ring
    rw [e2] at h3 hm
    have hin : t (i + n + 1) = x := by
      apply le_antisymm
      · rw [← h3]; exact hm _ _ (by omega) (by omega) (by omega)
      · rw [← h2]; exact hm _ _ (by omega) (by omega) (by omega)
    obtain ⟨r, l⟩ := ih i (hm.sub (by omega) (by omega)) h1 h2 hin
    have hne : x - t i ≠ 0 := sub_ne_zero.mpr (ne_of_gt h1)
    rw [Bind_succ', Bind_succ', r, l, h3, hin, sub_self, zero_div, div_self hne]
    simp

/-- **Continuity of a B-spline at a knot of multiplicity at most its order.**  On a non-decreasing
window, if neither `t_i = … = t_{i+n} = x` nor `t_{i+1} = … = t_{i+n+1} = x` (i.e. `x` occurs at most `n`
times among the `n+2` knots of `B_{i,n}`), the right- and the left-continuous Cox–de Boor recursions
(with `a/0 = 0`) give the same value at `x`. -/
theorem Bind_indR_eq_indL (t : Int → α) (x : α) (n : Nat) : ∀ (i : Int), MonoOn t i (i + n + 1) →
    ¬ (t i = x ∧ t (i + n) = x) → ¬ (t (i + 1) = x ∧ t (i + n + 1) = x) →
    Bind (indR t x) t x n i = Bind (indL t x) t x n i := by
  induction n with
  | zero =>
    intro i _ hA hB
    simp only [Nat.cast_zero, add_zero, and_self] at hA hB
    have : indR t x i = indL t x i := by
      rw [Bool.eq_iff_iff, indR_iff_lawful, indL_iff_lawful]
      constructor
      · rintro ⟨a, b⟩; exact ⟨lt_of_le_of_ne a hA, le_of_lt b⟩
      · rintro ⟨a, b⟩; exact ⟨le_of_lt a, lt_of_le_of_ne b (Ne.symm hB)⟩
    rw [Bind_zero', Bind_zero', this]
  | succ n ih =>
    intro i hm hA hB
    have e1 : i + ((n + 1 : Nat) : Int) = i + n + 1 := by push_cast; ring
    have e2 : i + ((n + 1 : Nat) : Int) + 1 = i + n + 2 := by push_cast; ring
    rw [e1] at hA
    rw [e2] at hB hm
    have e3 : i + 1 + (n : Int) = i + n + 1 := by ring
    have e4 : i + 1 + (n : Int) + 1 = i + n + 2 := by ring
    have e5 : i + 1 + 1 = i + 2 := by ring
    rw [Bind_succ', Bind_succ']
    by_cases X : t (i + 1) = x ∧ t (i + n + 1) = x
    · -- the inner n+1 knots all equal x: both recursions give 1 (from different terms)
      obtain ⟨X1, X2⟩ := X
      have hi : t i < x := by
        refine lt_of_le_of_ne ?_ (fun h => hA ⟨h, X2⟩)
        rw [← X1]; exact hm _ _ (by omega) (by omega) (by omega)
      have hl : x < t (i + n + 2) := by
        refine lt_of_le_of_ne ?_ (fun h => hB ⟨X1, h.symm⟩)
        rw [← X2]; exact hm _ _ (by omega) (by omega) (by omega)
      obtain ⟨r1, l1⟩ := Bind_full_right t x n i (hm.sub (by omega) (by omega)) hi X1 X2
      obtain ⟨r2, l2⟩ := Bind_full_left t x n (i + 1) (by rw [e4]; exact hm.sub (by omega) (by omega)) X1
        (by rw [e3]; exact X2) (by rw [e4]; exact hl)
      have hne1 : x - t i ≠ 0 := sub_ne_zero.mpr (ne_of_gt hi)
      have hne2 : t (i + n + 2) - x ≠ 0 := sub_ne_zero.mpr (ne_of_gt hl)
      rw [r1, l1, r2, l2, X1, X2, div_self hne1, div_self hne2]
      simp
    · congr 1
      · by_cases Y : t i = x ∧ t (i + n) = x
        · rw [Y.1, sub_self, zero_div, zero_mul, zero_mul]
        · rw [ih i (hm.sub (by omega) (by omega)) Y X]
      · by_cases Z : t (i + 2) = x ∧ t (i + n + 2) = x
        · rw [Z.2, sub_self, zero_div, zero_mul, zero_mul]
        · rw [ih (i + 1) (by rw [e4]; exact hm.sub (by omega) (by omega)) (by rw [e3]; exact X)
            (by rw [e4, e5]; exact Z)]

/-! ## dimension level -/

/-- the knots of the dimension are non-decreasing (the `mono` field of C01's `Dim.WF`) -/
def Dim.KnotsMono (d : Dim α) : Prop :=
  ∀ i j : Int, 0 ≤ i → i ≤ j → j < d.nknots → d.knots i ≤ d.knots j

/-- `x` occurs at most `order` times among the knots of the dimension -/
def MultLeOrder (d : Dim α) (x : α) : Prop :=
  ∀ a : Int, 0 ≤ a → a + d.order < d.nknots → ¬ (d.knots a = x ∧ d.knots (a + d.order) = x)

/-- **the precise side condition**: below `knots[naxes]` both conventions are the right-continuous one;
from `knots[naxes]` upwards the coordinate must not be a knot of multiplicity above the order -/
def AgreeAt (d : Dim α) (x : α) : Prop := x < d.knots d.naxes ∨ MultLeOrder d x

theorem RightContAt.agreeAt {d : Dim α} {x : α} (h : RightContAt d x) : AgreeAt d x := by
  rcases h with h | h
  · exact Or.inl h
  · exact Or.inr fun a _ _ hh => h a hh.1.symm

/-- every basis function of the dimension has the same value under both conventions -/
theorem Bsel_eq_indR (d : Dim α) (x : α) (hm : d.KnotsMono) (hn : d.naxes = d.nknots - d.order - 1)
    (h : AgreeAt d x) (i : Nat) (hi : i < d.naxes) :
    Bind (selInd d x) d.knots x d.order i = Bind (indR d.knots x) d.knots x d.order i := by
  unfold selInd
  by_cases hlt : A.lt x (d.knots d.naxes) = true
  · rw [if_pos hlt]
  · rw [if_neg hlt]
    rcases h with h | h
    · exact absurd ((L.lt_iff _ _).mpr h) hlt
    · symm
      have hw : (i : Int) + d.order + 1 < d.nknots := by omega
      apply Bind_indR_eq_indL
      · intro a b ha hab hb; exact hm a b (by omega) hab (by omega)
      · exact h i (by omega) (by omega)
      · have := h (i + 1) (by omega) (by omega)
        rwa [show (i : Int) + 1 + d.order = i + d.order + 1 by ring] at this

theorem gridRows_eq_specRows_of_agree (dims : List (Dim α)) (xs : List α)
    (hk : ∀ d ∈ dims, d.KnotsMono ∧ d.naxes = d.nknots - d.order - 1)
    (h : List.Forall₂ AgreeAt dims xs) :
    gridRows dims xs = specRows dims xs (List.replicate dims.length BasisMode.value) := by
  induction h with
  | nil => simp [gridRows, specRows]
  | @cons d x ds xs hd _ ih =>
    have hk' := hk d (by simp)
    simp only [gridRows, List.length_cons, List.replicate_succ, specRows,
      ih (fun d' hd' => hk d' (by simp [hd']))]
    congr 2
    apply List.map_congr_left
    intro i hi
    simp only [List.mem_range] at hi
    simp only [Bsel, derivOrder, Dind]
    exact (Bsel_eq_indR d x hk'.1 hk'.2 hd i hi).symm

/-- Below the last knot the side condition fails only in the configuration of C01's known finding
`degenerate-upper-end` (`x = knots[naxes]` and `knots[naxes-1] = knots[naxes]`, C01's `NonDegenerate`). -/
theorem agreeAt_of_nonDegenerate (d : Dim α) (x : α) (hm : d.KnotsMono)
    (hn : d.naxes = d.nknots - d.order - 1) (hlast : x < d.knots ((d.nknots : Int) - 1))
    (hnd : NonDegenerate d x) : AgreeAt d x := by
  by_cases hlt : x < d.knots d.naxes
  · exact Or.inl hlt
  · right
    intro a ha0 han ⟨h1, h2⟩
    have hge : d.knots d.naxes ≤ x := not_lt.mp hlt
    -- the run a … a+order cannot reach the last knot
    have h3 : a + d.order < (d.nknots : Int) - 1 := by
      by_contra hc
      have : a + d.order = (d.nknots : Int) - 1 := by omega
      rw [this] at h2
      exact absurd h2 (ne_of_gt hlast)
    have hax : ((d.naxes : Nat) : Int) = (d.nknots : Int) - d.order - 1 := by omega
    have hle : a ≤ (d.naxes : Int) - 1 := by omega
    -- knots[naxes-1] and knots[naxes] are squeezed between knots[a] = x and x
    have hup : ∀ j : Int, a ≤ j → j ≤ d.naxes → d.knots j = x := by
      intro j hj1 hj2
      apply le_antisymm
      · exact le_trans (hm j d.naxes (by omega) hj2 (by omega)) hge
      · rw [← h1]; exact hm a j ha0 hj1 (by omega)
    have e1 := hup ((d.naxes : Int) - 1) hle (by omega)
    have e2 := hup (d.naxes : Int) (by omega) (le_refl _)
    rcases hnd with hnd | hnd
    · rw [show (d.nknots : Int) - d.order - 2 = (d.naxes : Int) - 1 by omega,
        show (d.nknots : Int) - d.order - 1 = (d.naxes : Int) by omega, e1, e2] at hnd
      exact lt_irrefl _ hnd
    · rw [show (d.nknots : Int) - d.order - 1 = (d.naxes : Int) by omega, e2] at hnd
      exact hnd rfl

/-! ## necessity: an `(order+1)`-fold knot at or above `knots[naxes]` separates the two conventions -/

/-- If `x ≥ knots[naxes]` is a knot of multiplicity `order+1` (`knots[a] = … = knots[a+order] = x`) with
a larger knot after it, basis function `a` is `1` for `grideval` and `0` for the pointwise convention. -/
theorem basis_differs_at_full_knot (d : Dim α) (x : α) (hm : d.KnotsMono) (a : Nat)
    (ha : a + d.order + 1 < d.nknots) (h1 : d.knots a = x) (h2 : d.knots ((a : Int) + d.order) = x)
    (h3 : x < d.knots ((a : Int) + d.order + 1)) (hge : d.knots d.naxes ≤ x) :
    Bind (indR d.knots x) d.knots x d.order a = 1 ∧ Bsel d x 0 a = 0 := by
  obtain ⟨r, l⟩ := Bind_full_left d.knots x d.order a
    (fun i j hi hij hj => hm i j (by omega) hij (by omega)) h1 h2 h3
  refine ⟨r, ?_⟩
  have hlt : ¬ (A.lt x (d.knots d.naxes) = true) := by
    rw [L.lt_iff]; exact not_lt.mpr hge
  simp only [Bsel, Dind, selInd, if_neg hlt]
  exact l

/-- one-dimensional sum against a unit coefficient vector picks one entry of the row -/
theorem specSum_1d_unit (s : Nat) (fs : List α) (a : Nat) (ha : a < fs.length) (hs : 0 < s) :
    specSum (fun p : Int => if p = (a : Int) * s then (A.one : α) else A.zero) [(s, fs)] A.one 0
      = fs.getD a 0 := by
  simp only [specSum, specSumRow_eq_rangeSum, L.mul_eq, L.one_eq, L.zero_eq, one_mul, zero_add]
  rw [Finset.sum_eq_single a]
  · simp
  · intro b _ hb
    have : ¬ ((b : Int) * s = (a : Int) * s) := by
      intro h
      have hs' : ((s : Nat) : Int) ≠ 0 := by omega
      exact hb (by exact_mod_cast mul_right_cancel₀ hs' h)
    simp [this]
  · intro h; exact absurd (Finset.mem_range.mpr ha) h

end
end PsV
