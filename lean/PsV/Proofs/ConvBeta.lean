import PsV.Proofs.ConvTile
import PsV.Proofs.ConvPoly
import PsV.Proofs.ConvBeta1
import PsV.Proofs.ConvBeta2
/-!
# The Beta identity for the tile integrals

The sum over the tiles `[x-τ_{a+1}, x-τ_a] ∩ [y_b, y_{b+1}]` (`a < m`, `b < r`) of the integrals of
`(t - (x-τ_m))^p (y_r - t)^q'`, differenced over `m` (`p+2` nodes) and `r` (`q'+2` nodes), is
`p! q'! / (p+q'+1)!` times the double divided difference of the truncated power `(τ_m + y_r - x)_+^{p+q'+1}`.

Step 1 (clamping / telescoping, any antiderivative) is in `ConvBeta1`, Step 2 (`betaPhi`, `betaPsi`) in `ConvBeta2`.
-/
namespace PsV
open Finset Polynomial

/-- main term: the integral from `A` to `B` is the Beta constant times the truncated power -/
theorem intPlus_betaPhi_main (p q' : Nat) (A B : ℚ) :
    intPlus (fun t => (betaPhi p q' A B).eval t) A B =
      ((p.factorial : ℚ) * q'.factorial / (p + q' + 1).factorial) * pospow (B - A) (p + q' + 1) := by
  unfold pospow
  simp only [intPlus]
  by_cases h : A < B
  · rw [if_pos h, if_pos (sub_pos.mpr h), betaPhi_eval_left, betaPhi_eval_right, sub_zero]
  · rw [if_neg h, if_neg (by rwa [sub_pos]), mul_zero]

/-- first error term (`∫_A^C`, `C = y 0`) -/
theorem intPlus_betaPhi_E1 (p q' : Nat) (A B Cc : ℚ) :
    intPlus (fun t => (betaPhi p q' A B).eval t) A Cc =
      (if A < Cc then 1 else 0) * (betaPhi p q' A B).eval Cc := by
  simp only [intPlus]
  split_ifs
  · rw [betaPhi_eval_left, sub_zero, one_mul]
  · rw [zero_mul]

/-- second error term (`∫_D^B`, `D = x - τ 0`) -/
theorem intPlus_betaPhi_E2 (p q' : Nat) (A B D : ℚ) :
    intPlus (fun t => (betaPhi p q' A B).eval t) D B =
      (if D < B then -1 else 0) * (betaPsi p q' A B).eval D := by
  simp only [intPlus]
  split_ifs
  · rw [betaPhi_sub_eq_psi]; ring
  · rw [zero_mul]

theorem dd2_E1_zero (τ y : Nat → ℚ) (p q' j : Nat) (x : ℚ) (hy : DistinctOn y 0 (q'+2)) :
    dd2 τ y (fun m r => (if x - τ m < y 0 then 1 else 0) * (betaPhi p q' (x - τ m) (y r)).eval (y 0))
      (p+2) j (q'+2) 0 = 0 := by
  unfold dd2
  rw [show (fun m => divdiff y (fun r => (if x - τ m < y 0 then 1 else 0) *
        (betaPhi p q' (x - τ m) (y r)).eval (y 0)) (q'+2) 0) = fun _ => (0:ℚ) from
    funext fun m => by
      rw [dd_smul, dd_betaPhi_right y (x - τ m) (y 0) q' p (q'+2) 0 (le_refl _) hy, mul_zero]]
  exact dd_zero_fun τ _ _

theorem dd2_E2_zero (τ y : Nat → ℚ) (p q' j : Nat) (x : ℚ) (hτ : DistinctOn τ j (p+2)) :
    dd2 τ y (fun m r => (if x - τ 0 < y r then -1 else 0) * (betaPsi p q' (x - τ m) (y r)).eval (x - τ 0))
      (p+2) j (q'+2) 0 = 0 := by
  rw [dd2_swap]
  unfold dd2
  rw [show (fun r => divdiff τ (fun m => (if x - τ 0 < y r then -1 else 0) *
        (betaPsi p q' (x - τ m) (y r)).eval (x - τ 0)) (p+2) j) = fun _ => (0:ℚ) from
    funext fun r => by
      rw [dd_smul, dd_betaPsi_left τ x (y r) p q' (p+2) j (le_refl _) hτ, mul_zero]]
  exact dd_zero_fun y _ _

/-- the tile sum through `betaPhi`, pointwise on the window -/
theorem tileSum_betaPhi (τ y : Nat → ℚ) (p q' m r : Nat) (x : ℚ)
    (hτ : ∀ a, a < m → τ a ≤ τ (a+1)) (hy : ∀ b, b < r → y b ≤ y (b+1)) (hx : τ 0 + y 0 ≤ x) :
    tileSum (fun t => (betaPhi p q' (x - τ m) (y r)).eval t) (fun a => x - τ a) y m r =
      ((p.factorial : ℚ) * q'.factorial / (p + q' + 1).factorial) * pospow (τ m + y r - x) (p + q' + 1)
      - (if x - τ m < y 0 then 1 else 0) * (betaPhi p q' (x - τ m) (y r)).eval (y 0)
      - (if x - τ 0 < y r then -1 else 0) * (betaPsi p q' (x - τ m) (y r)).eval (x - τ 0) := by
  rw [tileSum_split _ (fun a => x - τ a) y m r (fun a ha => by have := hτ a ha; linarith) hy (by linarith),
    intPlus_betaPhi_main, intPlus_betaPhi_E1, intPlus_betaPhi_E2,
    show y r - (x - τ m) = τ m + y r - x by ring]

theorem tileSum_dd2 (τ y : Nat → ℚ) (p q' j : Nat) (x : ℚ)
    (hτ : ∀ a b, a < b → b ≤ j + p + 1 → τ a < τ b)
    (hy : ∀ a b, a < b → b ≤ q' + 1 → y a < y b)
    (hx : τ 0 + y 0 ≤ x) :
    dd2 τ y (fun m r => tileSum (fun t => (betaPhi p q' (x - τ m) (y r)).eval t) (fun a => x - τ a) y m r)
        (p+2) j (q'+2) 0
      = ((p.factorial : ℚ) * q'.factorial / (p + q' + 1).factorial) *
        dd2 τ y (fun m r => pospow (τ m + y r - x) (p + q' + 1)) (p+2) j (q'+2) 0 := by
  have hdτ : DistinctOn τ j (p+2) :=
    distinctOn_of_strictMono (fun a b _ hab hb => hτ a b hab (by omega))
  have hdy : DistinctOn y 0 (q'+2) :=
    distinctOn_of_strictMono (fun a b _ hab hb => hy a b hab (by omega))
  rw [dd2_congr τ y _
    (fun m r => ((p.factorial : ℚ) * q'.factorial / (p + q' + 1).factorial) * pospow (τ m + y r - x) (p + q' + 1)
      - (if x - τ m < y 0 then 1 else 0) * (betaPhi p q' (x - τ m) (y r)).eval (y 0)
      - (if x - τ 0 < y r then -1 else 0) * (betaPsi p q' (x - τ m) (y r)).eval (x - τ 0))
    (p+2) j (q'+2) 0
    (fun m r _ hm _ hr => tileSum_betaPhi τ y p q' m r x
      (fun a ha => le_of_lt (hτ a (a+1) (by omega) (by omega)))
      (fun b hb => le_of_lt (hy b (b+1) (by omega) (by omega))) hx)]
  rw [dd2_sub τ y
      (fun m r => ((p.factorial : ℚ) * q'.factorial / (p + q' + 1).factorial) * pospow (τ m + y r - x) (p + q' + 1)
        - (if x - τ m < y 0 then 1 else 0) * (betaPhi p q' (x - τ m) (y r)).eval (y 0))
      (fun m r => (if x - τ 0 < y r then -1 else 0) * (betaPsi p q' (x - τ m) (y r)).eval (x - τ 0)),
    dd2_sub τ y
      (fun m r => ((p.factorial : ℚ) * q'.factorial / (p + q' + 1).factorial) * pospow (τ m + y r - x) (p + q' + 1))
      (fun m r => (if x - τ m < y 0 then 1 else 0) * (betaPhi p q' (x - τ m) (y r)).eval (y 0)),
    dd2_smul τ y (fun m r => pospow (τ m + y r - x) (p + q' + 1)),
    dd2_E1_zero τ y p q' j x hdy, dd2_E2_zero τ y p q' j x hdτ, sub_zero, sub_zero]

end PsV
