import PsV.Proofs.Glam
import PsV.Proofs.FitQuad
import PsV.Proofs.FitDiffs
/-!
# C09: coefficient vectors of tensor-product form

`compProd dims hs i = Π_d h_d((i / stride_d) % naxes_d)`: the coefficient vector of a product of
one-dimensional splines.  With C-ordered strides
* the sum over all coefficients factorises, `Σ_i Π_d h_d(i_d) = Π_d Σ_k h_d(k)` (`sum_compProd`),
* the derivative coefficients of every line along dimension `d` are those of `h_d` times a factor that is
  constant along the line, so they vanish when those of `h_d` do (`derivVanishes_compProd`).
-/
namespace PsV
open Arith Finset
set_option linter.unusedSectionVars false
set_option linter.unusedVariables false

section
variable {α : Type} [Field α] [LinearOrder α] [IsStrictOrderedRing α] [A : Arith α] [L : LawfulArith α]

/-- `Π_d h_d((i / stride_d) % naxes_d)` (0 when the lists differ in length) -/
def compProd : List (Dim α) → List (Nat → α) → Nat → α
  | d :: ds, h :: hs, i => h ((i / d.stride) % d.naxes) * compProd ds hs i
  | [], [], _ => 1
  | _, _, _ => 0

/-- `Π_d Σ_{k < naxes_d} h_d(k)` -/
def dimSums : List (Dim α) → List (Nat → α) → α
  | d :: ds, h :: hs => (∑ k ∈ range d.naxes, h k) * dimSums ds hs
  | [], [] => 1
  | _, _ => 0

/-! ## index arithmetic -/

theorem rowMajor_stride_head (d : Dim α) (ds : List (Dim α)) (hs : StridesRowMajor (d :: ds)) :
    d.stride = natProd (ds.map (·.naxes)) := by
  induction ds generalizing d with
  | nil => exact hs
  | cons d' ds ih =>
    obtain ⟨h1, h2⟩ := hs
    rw [h1, ih d' h2]
    simp [natProd, Nat.mul_comm]

theorem rowMajor_tail (d : Dim α) (ds : List (Dim α)) (hs : StridesRowMajor (d :: ds)) :
    StridesRowMajor ds := by
  cases ds with
  | nil => trivial
  | cons d' ds' => exact hs.2

/-- adding a multiple of `S` does not change the component of a dimension whose block `s'·n'` divides `S` -/
theorem comp_shift (s' n' q S x b : Nat) (hS : S = s' * n' * q) (hb : b < S) :
    ((x * S + b) / s') % n' = (b / s') % n' := by
  have hs' : 0 < s' := by
    rcases Nat.eq_zero_or_pos s' with h | h
    · subst h; simp at hS; omega
    · exact h
  have e : x * S + b = b + s' * (x * q * n') := by rw [hS]; ring
  rw [e, Nat.add_mul_div_left _ _ hs', Nat.add_mul_mod_self_right]

/-- the blocks of the later dimensions divide the stride of an earlier one -/
theorem later_blocks_divide (d : Dim α) (ds : List (Dim α)) (hs : StridesRowMajor (d :: ds)) :
    ∀ d' ∈ ds, ∃ q, d.stride = d'.stride * d'.naxes * q := by
  induction ds generalizing d with
  | nil => intro d' h; simp at h
  | cons d1 rest ih =>
    obtain ⟨h1, h2⟩ := hs
    intro d' hd'
    rcases List.mem_cons.1 hd' with rfl | hmem
    · exact ⟨1, by rw [h1]; ring⟩
    · obtain ⟨q, hq⟩ := ih d1 h2 d' hmem
      exact ⟨q * d1.naxes, by rw [h1, hq]; ring⟩

theorem compProd_shift (ds : List (Dim α)) (hs : List (Nat → α)) (S x b : Nat)
    (hdiv : ∀ d' ∈ ds, ∃ q, S = d'.stride * d'.naxes * q) (hb : b < S) :
    compProd ds hs (x * S + b) = compProd ds hs b := by
  induction ds generalizing hs with
  | nil => cases hs <;> rfl
  | cons d ds ih =>
    cases hs with
    | nil => rfl
    | cons h hs =>
      obtain ⟨q, hq⟩ := hdiv d (by simp)
      simp only [compProd]
      rw [comp_shift d.stride d.naxes q S x b hq hb, ih hs (fun d' hd' => hdiv d' (by simp [hd']))]

/-- component `m` of the line point `a·n·s + m·s + b` -/
theorem line_comp (a n s m b : Nat) (hm : m < n) (hb : b < s) : ((a * n * s + m * s + b) / s) % n = m := by
  have hs : 0 < s := by omega
  have e : a * n * s + m * s + b = b + s * (m + n * a) := by ring
  rw [e, Nat.add_mul_div_left _ _ hs, Nat.div_eq_of_lt hb, Nat.zero_add, Nat.add_mul_mod_self_left,
    Nat.mod_eq_of_lt hm]

/-- `f` does not depend on the component of dimension `d` -/
def IndepOf {β : Type} (d : Dim α) (f : Nat → β) : Prop :=
  ∀ a m b, m < d.naxes → b < d.stride →
    f (a * d.naxes * d.stride + m * d.stride + b) = f (a * d.naxes * d.stride + b)

theorem compProd_indep (d : Dim α) (ds : List (Dim α)) (hs : List (Nat → α))
    (hdiv : ∀ d' ∈ ds, ∃ q, d.stride = d'.stride * d'.naxes * q) : IndepOf d (compProd ds hs) := by
  intro a m b hm hb
  have e1 : a * d.naxes * d.stride + m * d.stride + b = (a * d.naxes + m) * d.stride + b := by ring
  rw [e1, compProd_shift ds hs d.stride _ b hdiv hb, compProd_shift ds hs d.stride _ b hdiv hb]

/-- the component of an earlier dimension does not depend on the component of a later one -/
theorem earlier_comp_indep (d d' : Dim α) (q : Nat) (hq : d.stride = d'.stride * d'.naxes * q) :
    IndepOf d' (fun i => (i / d.stride) % d.naxes) := by
  intro a m b hm hb
  have hw : 0 < d'.naxes * d'.stride := Nat.mul_pos (by omega) (by omega)
  have key : ∀ r, r < d'.naxes * d'.stride →
      (a * d'.naxes * d'.stride + r) / d.stride = a / q := by
    intro r hr
    have e : a * d'.naxes * d'.stride + r = r + (d'.naxes * d'.stride) * a := by ring
    rw [hq, show d'.stride * d'.naxes * q = d'.naxes * d'.stride * q by ring,
      ← Nat.div_div_eq_div_mul, e, Nat.add_mul_div_left _ _ hw, Nat.div_eq_of_lt hr, Nat.zero_add]
  have hr1 : m * d'.stride + b < d'.naxes * d'.stride := by
    calc m * d'.stride + b < m * d'.stride + d'.stride := by omega
      _ = (m + 1) * d'.stride := by ring
      _ ≤ d'.naxes * d'.stride := Nat.mul_le_mul_right _ hm
  have hr2 : b < d'.naxes * d'.stride := by
    calc b < d'.stride := hb
      _ = 1 * d'.stride := by ring
      _ ≤ d'.naxes * d'.stride := Nat.mul_le_mul_right _ (by omega)
  show (a * d'.naxes * d'.stride + m * d'.stride + b) / d.stride % d.naxes
      = (a * d'.naxes * d'.stride + b) / d.stride % d.naxes
  rw [Nat.add_assoc, key _ hr1, key _ hr2]

/-! ## the sum over all coefficients factorises -/

theorem sum_compProd (ds : List (Dim α)) (hs : List (Nat → α)) (hst : StridesRowMajor ds) :
    ∑ i ∈ range (natProd (ds.map (·.naxes))), compProd ds hs i = dimSums ds hs := by
  induction ds generalizing hs with
  | nil => cases hs <;> simp [natProd, compProd, dimSums]
  | cons d ds ih =>
    cases hs with
    | nil => simp [compProd, dimSums]
    | cons h hs =>
      have hstr := rowMajor_stride_head d ds hst
      have hdiv := later_blocks_divide d ds hst
      simp only [List.map_cons, natProd, dimSums]
      rw [sum_range_mul', ← ih hs (rowMajor_tail d ds hst), sum_mul]
      refine sum_congr rfl (fun k hk => ?_)
      rw [mul_sum]
      refine sum_congr rfl (fun i' hi' => ?_)
      have hk' := mem_range.1 hk
      have hi'' : i' < d.stride := by rw [hstr]; exact mem_range.1 hi'
      simp only [compProd]
      rw [← hstr, compProd_shift ds hs d.stride k i' hdiv hi'']
      congr 2
      have := line_comp 0 d.naxes d.stride k i' hk' hi''
      simpa using this

/-! ## derivative coefficients along the lines -/

/-- per dimension: the `p_d`-th derivative coefficients of `h_d` (as a coefficient vector on the knots of `d`) vanish -/
def DimDerivVanish : List (Dim α) → List (Nat → α) → List Nat → Prop
  | d :: ds, h :: hs, p :: ps =>
    (∀ k < d.naxes - p, derivCoef d.knots d.order p h k = 0) ∧ DimDerivVanish ds hs ps
  | _, _, _ => True

theorem derivCoef_scale (t : Int → α) (order p : Nat) (a : α) (c : Nat → α) (j : Nat) :
    derivCoef t order p (fun i => a * c i) j = a * derivCoef t order p c j := by
  have := derivCoef_linear t order p a 0 c (fun _ => 0) j
  simpa using this

theorem derivVanishes_compProd_aux (ds : List (Dim α)) (hs : List (Nat → α)) (ps : List Nat) (N : Nat)
    (hst : StridesRowMajor ds) (E : Nat → α) (hE : ∀ d ∈ ds, IndepOf d E)
    (hv : DimDerivVanish ds hs ps) :
    DerivVanishes ds ps N (fun i => E i * compProd ds hs i) := by
  induction ds generalizing hs ps E with
  | nil => cases ps <;> trivial
  | cons d ds ih =>
    cases ps with
    | nil => trivial
    | cons p ps =>
      cases hs with
      | nil =>
        refine ⟨?_, ?_⟩
        · intro a _ k _ b _
          have : (fun m => E (a * d.naxes * d.stride + m * d.stride + b)
              * compProd (d :: ds) ([] : List (Nat → α)) (a * d.naxes * d.stride + m * d.stride + b))
              = fun m => (0 : α) * (fun _ => (0 : α)) m := by
            funext m; simp [compProd]
          rw [this, derivCoef_scale]; ring
        · have hz : (fun i => E i * compProd (d :: ds) ([] : List (Nat → α)) i)
              = fun i => (fun _ => (0 : α)) i * compProd ds ([] : List (Nat → α)) i := by
            funext i; simp [compProd]
          rw [hz]
          refine ih [] ps (rowMajor_tail d ds hst) (fun _ => 0) (fun d' _ => fun _ _ _ _ _ => rfl) ?_
          cases ds <;> trivial
      | cons h hs =>
        obtain ⟨hv1, hv2⟩ := hv
        have hdiv := later_blocks_divide d ds hst
        have hEd := hE d (by simp)
        have hCd := compProd_indep d ds hs hdiv
        refine ⟨?_, ?_⟩
        · intro a _ k hk b hb
          have hcongr := derivCoef_congr' d.knots d.order p
            (fun m => E (a * d.naxes * d.stride + m * d.stride + b)
              * compProd (d :: ds) (h :: hs) (a * d.naxes * d.stride + m * d.stride + b))
            (fun m => (E (a * d.naxes * d.stride + b) * compProd ds hs (a * d.naxes * d.stride + b)) * h m) k
            (fun m _ h2 => by
              have hm : m < d.naxes := by omega
              simp only [compProd]
              rw [hEd a m b hm hb, hCd a m b hm hb, line_comp a d.naxes d.stride m b hm hb]
              ring)
          rw [hcongr, derivCoef_scale, hv1 k hk, mul_zero]
        · have hz : (fun i => E i * compProd (d :: ds) (h :: hs) i)
              = fun i => (E i * h ((i / d.stride) % d.naxes)) * compProd ds hs i := by
            funext i; simp only [compProd]; ring
          rw [hz]
          refine ih hs ps (rowMajor_tail d ds hst) _ (fun d' hd' => ?_) hv2
          obtain ⟨q, hq⟩ := hdiv d' hd'
          have h1 := hE d' (by simp [hd'])
          have h2 := earlier_comp_indep d d' q hq
          intro a m b hm hb
          have h2' : (a * d'.naxes * d'.stride + m * d'.stride + b) / d.stride % d.naxes
              = (a * d'.naxes * d'.stride + b) / d.stride % d.naxes := h2 a m b hm hb
          show E _ * h _ = E _ * h _
          rw [h1 a m b hm hb, h2']

/-- if the `p_d`-th derivative coefficients of every factor vanish, every line of the tensor-product
coefficient vector has vanishing `p_d`-th derivative coefficients -/
theorem derivVanishes_compProd (ds : List (Dim α)) (hs : List (Nat → α)) (ps : List Nat) (N : Nat)
    (hst : StridesRowMajor ds) (hv : DimDerivVanish ds hs ps) :
    DerivVanishes ds ps N (compProd ds hs) := by
  have := derivVanishes_compProd_aux ds hs ps N hst (fun _ => 1) (fun _ _ => fun _ _ _ _ _ => rfl) hv
  simpa using this

/-! ## linearity of `DerivVanishes` -/

theorem derivVanishes_add (ds : List (Dim α)) (ps : List Nat) (N : Nat) (c c' : Nat → α)
    (h : DerivVanishes ds ps N c) (h' : DerivVanishes ds ps N c') :
    DerivVanishes ds ps N (fun i => c i + c' i) := by
  induction ds generalizing ps with
  | nil => cases ps <;> trivial
  | cons d ds ih =>
    cases ps with
    | nil => trivial
    | cons p ps =>
      obtain ⟨h1, h2⟩ := h
      obtain ⟨h1', h2'⟩ := h'
      refine ⟨?_, ih ps h2 h2'⟩
      intro a ha k hk b hb
      have := derivCoef_linear d.knots d.order p 1 1
        (fun m => c (a * d.naxes * d.stride + m * d.stride + b))
        (fun m => c' (a * d.naxes * d.stride + m * d.stride + b)) k
      simp only [one_mul] at this
      rw [this, h1 a ha k hk b hb, h1' a ha k hk b hb, add_zero]

theorem derivVanishes_zero (ds : List (Dim α)) (ps : List Nat) (N : Nat) :
    DerivVanishes ds ps N (fun _ => (0 : α)) := by
  induction ds generalizing ps with
  | nil => cases ps <;> trivial
  | cons d ds ih =>
    cases ps with
    | nil => trivial
    | cons p ps =>
      refine ⟨?_, ih ps⟩
      intro a _ k _ b _
      have := derivCoef_scale d.knots d.order p 0 (fun _ => (0 : α)) k
      simpa using this

end
end PsV
