import PsV.Proofs.DerivFormula
import Mathlib.Algebra.Polynomial.Derivative
/-!
`Pp` is the polynomial piece as an element of `Polynomial α`; its evaluation is `Bp` and the
evaluation of its (Mathlib) derivative is `dBp`.  Hence the knot-difference formula `DBp` is the
derivative of the polynomial piece in the sense of `Polynomial.derivative`.
-/
namespace PsV
open Polynomial
variable {α : Type} [Field α] [LinearOrder α]

noncomputable def Pp (t : Int → α) (left : Int) : Nat → Int → Polynomial α
  | 0, i => if i = left then 1 else 0
  | n+1, i => C (1 / (t (i+n+1) - t i)) * (X - C (t i)) * Pp t left n i
            + C (1 / (t (i+n+2) - t (i+1))) * (C (t (i+n+2)) - X) * Pp t left n (i+1)

theorem eval_Pp (t : Int → α) (x : α) (left : Int) : ∀ (n : Nat) (i : Int), (Pp t left n i).eval x = Bp t x left n i := by
  intro n
  induction n with
  | zero => intro i; simp only [Pp, Bp]; split <;> simp
  | succ n ih =>
    intro i
    simp only [Pp, Bp, eval_add, eval_mul, eval_sub, eval_C, eval_X, ih]
    ring

theorem eval_derivative_Pp (t : Int → α) (x : α) (left : Int) :
    ∀ (n : Nat) (i : Int), (derivative (Pp t left n i)).eval x = dBp t x left n i := by
  intro n
  induction n with
  | zero => intro i; simp only [Pp, dBp]; split <;> simp
  | succ n ih =>
    intro i
    simp only [Pp, dBp, derivative_add, derivative_mul, derivative_sub, derivative_C, derivative_X,
      eval_add, eval_mul, eval_sub, eval_C, eval_X, eval_zero, eval_one, ih, eval_Pp]
    ring

end PsV
