import PsV.Proofs.ConvTransfer
import PsV.Proofs.ConvBeta
import PsV.Proofs.ConvSpecSum
/-!
# Strøm's identity: the blossom transfer matrix computes the true convolution

`conv1_closed`: the specification's integral in closed form (double divided differences of truncated powers).
`strom_core`: for every old coefficient vector `c`, the new coefficients `Σ_j trafo[i,j]·c_j` against the new basis
(polynomial piece `left` of the knot list `rho`) equal the specification's convolution integral, at every `x` of the
closed interval `[rho_left, rho_{left+1}]`.
-/
namespace PsV
open Finset Polynomial

/-- **the specification's convolution integral in closed form** -/
theorem conv1_closed (τ : Nat → ℚ) (nknots p naxes : Nat) (c : Nat → ℚ) (y : Nat → ℚ) (q' : Nat) (x : ℚ)
    (hn : naxes + p + 1 = nknots)
    (hτ : ∀ a b, a < b → b < nknots → τ a < τ b)
    (hy : ∀ a b, a < b → b ≤ q' + 1 → y a < y b)
    (hx : τ 0 + y 0 ≤ x) :
    ConvSpec.conv1 τ nknots p naxes c y (q'+1) x =
      ∑ j ∈ range naxes, c j * ((τ (j+p+1) - τ j) * (((q':ℚ) + 1) * ((p.factorial : ℚ) * q'.factorial / (p + q' + 1).factorial)) *
        dd2 τ y (fun m r => pospow (τ m + y r - x) (p + q' + 1)) (p+2) j (q'+2) 0) := by
  rw [conv1_as_dd2 τ nknots p naxes c y q' x hn hτ hy (fun m r => betaPhi p q' (x - τ m) (y r))
    (fun m r t => betaPhi_deriv p q' (x - τ m) (y r) t)]
  apply Finset.sum_congr rfl
  intro j hj
  rw [mem_range] at hj
  rw [tileSum_dd2 τ y p q' j x (fun a b hab hb => hτ a b hab (by omega)) hy hx]
  ring

/-- the specification's integral is a fixed linear form in the coefficients `c 0 … c (naxes-1)` -/
theorem conv1_linear_form (τ : Nat → ℚ) (nknots p naxes : Nat) (y : Nat → ℚ) (q' : Nat) (x : ℚ)
    (hn : naxes + p + 1 = nknots)
    (hτ : ∀ a b, a < b → b < nknots → τ a < τ b)
    (hy : ∀ a b, a < b → b ≤ q' + 1 → y a < y b) :
    ∃ K : Nat → ℚ, ∀ c : Nat → ℚ, ConvSpec.conv1 τ nknots p naxes c y (q'+1) x = ∑ j ∈ range naxes, c j * K j :=
  ⟨_, fun c => conv1_as_dd2 τ nknots p naxes c y q' x hn hτ hy (fun m r => betaPhi p q' (x - τ m) (y r))
    (fun m r t => betaPhi_deriv p q' (x - τ m) (y r) t)⟩

/-- on the closed interval `[ρ_left, ρ_{left+1}]` the truncated power cut at the interval is the truncated power -/
theorem cut_eq_pospow (s x lo hi : ℚ) (n : Nat) (hn : 1 ≤ n) (hlt : lo < hi) (h1 : lo ≤ x) (h2 : x ≤ hi)
    (hs : s ≤ lo ∨ hi ≤ s) :
    (if hi ≤ s then (s - x)^n else 0) = pospow (s - x) n := by
  unfold pospow
  rcases hs with h | h
  · have a1 : ¬ hi ≤ s := by intro h'; linarith
    have a2 : ¬ (0 < s - x) := by linarith
    simp [a1, a2]
  · by_cases hx : 0 < s - x
    · simp [h, hx]
    · have : s - x = 0 := by linarith
      obtain ⟨m, rfl⟩ : ∃ m, n = m + 1 := ⟨n - 1, by omega⟩
      simp [h, this]

/-- **Strøm's identity, one dimension** (any order `p`, any kernel with `q'+2 ≥ 2` knots, knots strictly increasing,
`rho` any sorted list containing every pairwise sum and bounded below by `τ_0 + y_0`). -/
theorem strom_core (knots ck rho : List ℚ) (p q' naxes : Nat) (c : Nat → ℚ) (left : Nat) (t : Int → ℚ) (x norm : ℚ)
    (hck : ck.length = q' + 2) (hn : naxes + p + 1 = knots.length)
    (hτ : ∀ a b, a < b → b < knots.length → getK knots a < getK knots b)
    (hy : ∀ a b, a < b → b < ck.length → getK ck a < getK ck b)
    (hsorted : rho.Pairwise (· ≤ ·))
    (hmem : ∀ a b, a < knots.length → b < ck.length → getK knots a + getK ck b ∈ rho)
    (hlow : getK knots 0 + getK ck 0 ≤ getK rho 0)
    (hleft : left + 1 < rho.length) (hne : getK rho left < getK rho (left+1))
    (hx1 : getK rho left ≤ x) (hx2 : x ≤ getK rho (left+1))
    (ht : ∀ i : Nat, i < rho.length → t (i : Int) = getK rho i)
    (hnorm : norm = (((q'+1).factorial * p.factorial : Nat) : ℚ) / (((p + 1 + (q'+1) - 1).factorial : Nat) : ℚ)) :
    ∑ i ∈ range (rho.length - (p + (q'+1)) - 1),
        (∑ j ∈ range naxes, trafoEntry knots ck rho (p+1) (q'+1) norm i j * c j) * Bp t x (left : Int) (p + (q'+1)) (i : Int)
      = ConvSpec.conv1 (getK knots) knots.length p naxes c (getK ck) (q'+1) x := by
  have hx0 : getK knots 0 + getK ck 0 ≤ x :=
    le_trans hlow (le_trans (getK_mono rho hsorted 0 left (by omega) (by omega)) hx1)
  rw [conv1_closed (getK knots) knots.length p naxes c (getK ck) q' x hn hτ
    (fun a b hab hb => hy a b hab (by omega)) hx0]
  -- exchange the sums
  have : ∀ i ∈ range (rho.length - (p + (q'+1)) - 1),
      (∑ j ∈ range naxes, trafoEntry knots ck rho (p+1) (q'+1) norm i j * c j) * Bp t x (left : Int) (p + (q'+1)) (i : Int) =
      ∑ j ∈ range naxes, c j * (trafoEntry knots ck rho (p+1) (q'+1) norm i j * Bp t x (left : Int) (p + (q'+1)) (i : Int)) := by
    intro i _
    rw [Finset.sum_mul]
    apply Finset.sum_congr rfl
    intro j _; ring
  rw [Finset.sum_congr rfl this, Finset.sum_comm]
  apply Finset.sum_congr rfl
  intro j hj
  rw [mem_range] at hj
  rw [← Finset.mul_sum,
    trafo_sum_closed knots ck rho p (q'+1) norm j left t x hck (by omega) hτ hy hsorted hmem hleft hne ht]
  congr 1
  have hcut : dd2 (getK knots) (getK ck)
      (fun a b => if getK rho (left+1) ≤ getK knots a + getK ck b then (getK knots a + getK ck b - x)^(p + (q'+1)) else 0)
      (p+2) j (q'+1+1) 0 =
    dd2 (getK knots) (getK ck) (fun m r => pospow (getK knots m + getK ck r - x) (p + q' + 1)) (p+2) j (q'+2) 0 := by
    apply dd2_congr
    intro a b ha1 ha2 hb1 hb2
    have hpos : 0 < rho.length := by omega
    obtain ⟨r, hr, he⟩ := node_index rho _ (hmem a b (by omega) (by omega))
    rw [extKnots_nat rho r hr] at he
    have hs : getK knots a + getK ck b ≤ getK rho left ∨ getK rho (left+1) ≤ getK knots a + getK ck b := by
      rw [← he]
      rcases Nat.lt_or_ge left r with h | h
      · right; exact getK_mono rho hsorted _ _ (by omega) hr
      · left; exact getK_mono rho hsorted _ _ h (by omega)
    have e : p + (q'+1) = p + q' + 1 := by omega
    rw [e]
    exact cut_eq_pospow _ x _ _ (p+q'+1) (by omega) hne hx1 hx2 hs
  rw [hcut, hnorm]
  have e1 : p + 1 + (q'+1) - 1 = p + q' + 1 := by omega
  rw [e1]
  have hf : ((p + q' + 1).factorial : ℚ) ≠ 0 := by positivity
  push_cast [Nat.factorial_succ]
  field_simp

end PsV
