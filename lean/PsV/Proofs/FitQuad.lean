import PsV.Spec.Fit
import PsV.Proofs.Lawful
import PsV.Proofs.NormalEq
/-!
# C09 helpers: the objective of `PsV/Spec/Fit.lean` is the quadratic `cᵀMc − 2rᵀc + k`

`Mf P`, `rf P` are the entry functions of `specM P`, `specR P`.  `penaltyGram` is the matrix
`Σ_d λ_d K_dᵀK_d` written with `Finset.sum`; `rowB` is one row of the design matrix as a function of
the datum (so that sums over the data rows become `List` sums over `P.rows.toList`).
-/
namespace PsV
open Arith Finset NormalEq
set_option linter.unusedSectionVars false

section
variable {α : Type} [Field α] [LinearOrder α] [IsStrictOrderedRing α] [A : Arith α] [L : LawfulArith α]

/-- entry function of the normal matrix -/
def Mf (P : FitProblem α) : Nat → Nat → α := fun i j => (specM P).get i j
/-- entry function of the right-hand side -/
def rf (P : FitProblem α) : Nat → α := fun i => (specR P).getD i 0

/-! ## tables -/

theorem Tab2.get_ofFn' (n m : Nat) (f : Nat → Nat → α) (i j : Nat) (hi : i < n) (hj : j < m) :
    (Tab2.ofFn n m f).get i j = f i j := by
  have hlt : i * m + j < n * m := by
    calc i * m + j < i * m + m := by omega
      _ = (i + 1) * m := by ring
      _ ≤ n * m := Nat.mul_le_mul_right m hi
  have hm : 0 < m := by omega
  have h1 : (i * m + j) / m = i := by
    rw [Nat.add_comm, Nat.add_mul_div_right _ _ hm, Nat.div_eq_of_lt hj, Nat.zero_add]
  have h2 : (i * m + j) % m = j := by
    rw [Nat.add_comm, Nat.add_mul_mod_self_right, Nat.mod_eq_of_lt hj]
  unfold Tab2.get Tab2.ofFn
  simp only [hi, hj, and_self, if_true]
  rw [Array.getElem?_ofFn]
  simp only [hlt, dif_pos, h1, h2]

theorem designTab_get (P : FitProblem α) (r i : Nat) (hr : r < P.rows.size) (hi : i < P.ncoef) :
    (designTab P).get r i = designEntry P r i := Tab2.get_ofFn' _ _ _ r i hr hi

/-! ## the penalty matrix `Σ_d λ_d K_dᵀK_d` -/

/-- number of rows of `K_d`: `outer · (n − p) · s` -/
def penaltyNK (d : Dim α) (p N : Nat) : Nat := (N / (d.naxes * d.stride)) * (d.naxes - p) * d.stride

/-- `Σ_d λ_d Σ_q K_d[q,i] K_d[q,j]` over the parallel lists dims / smooth / porder -/
def penaltyGram : List (Dim α) → List α → List Nat → Nat → Nat → Nat → α
  | d :: ds, l :: ls, p :: ps, N, i, j =>
    l * (∑ q ∈ range (penaltyNK d p N),
          penaltyRow d.knots d.order p d.naxes d.stride q i * penaltyRow d.knots d.order p d.naxes d.stride q j)
      + penaltyGram ds ls ps N i j
  | _, _, _, _, _, _ => 0

theorem penaltyEntry_eq (ds : List (Dim α)) (ls : List α) (ps : List Nat) (N i j : Nat)
    (hi : i < N) (hj : j < N) :
    penaltyEntry (penaltyTabs ds ps N) ls i j = penaltyGram ds ls ps N i j := by
  induction ds generalizing ls ps with
  | nil => cases ls <;> cases ps <;> simp [penaltyTabs, penaltyEntry, penaltyGram, L.zero_eq]
  | cons d ds ih =>
    cases ps with
    | nil => cases ls <;> simp [penaltyTabs, penaltyEntry, penaltyGram, L.zero_eq]
    | cons p ps =>
      cases ls with
      | nil => simp [penaltyTabs, penaltyEntry, penaltyGram, L.zero_eq]
      | cons l ls =>
        simp only [penaltyTabs, penaltyEntry, penaltyGram]
        rw [L.add_eq, L.mul_eq, sumTo_eq_sum, ih ls ps]
        congr 2
        refine sum_congr rfl (fun q hq => ?_)
        have hq' : q < penaltyNK d p N := mem_range.1 hq
        rw [L.mul_eq, Tab2.get_ofFn' _ _ _ q i hq' hi, Tab2.get_ofFn' _ _ _ q j hq' hj]

theorem penaltyGram_symm (ds : List (Dim α)) (ls : List α) (ps : List Nat) (N i j : Nat) :
    penaltyGram ds ls ps N i j = penaltyGram ds ls ps N j i := by
  induction ds generalizing ls ps with
  | nil => cases ls <;> cases ps <;> simp [penaltyGram]
  | cons d ds ih =>
    cases ps with
    | nil => cases ls <;> simp [penaltyGram]
    | cons p ps =>
      cases ls with
      | nil => simp [penaltyGram]
      | cons l ls =>
        simp only [penaltyGram]
        rw [ih ls ps]
        congr 2
        exact sum_congr rfl (fun q _ => mul_comm _ _)

/-! ## entries of `specM`, `specR` -/

theorem specM_get (P : FitProblem α) (i j : Nat) (hi : i < P.ncoef) (hj : j < P.ncoef) :
    (specM P).get i j
      = ∑ r ∈ range P.rows.size, rowW P r * designEntry P r i * designEntry P r j
        + penaltyGram P.dims P.smooth P.porder P.ncoef i j := by
  unfold specM
  rw [Tab2.get_ofFn' _ _ _ i j hi hj, L.add_eq, sumTo_eq_sum, penaltyEntry_eq _ _ _ _ _ _ hi hj]
  congr 1
  refine sum_congr rfl (fun r hr => ?_)
  have hr' := mem_range.1 hr
  rw [L.mul_eq, L.mul_eq, designTab_get P r i hr' hi, designTab_get P r j hr' hj]

theorem specR_get (P : FitProblem α) (i : Nat) (hi : i < P.ncoef) :
    (specR P).getD i 0 = ∑ r ∈ range P.rows.size, rowW P r * rowZ P r * designEntry P r i := by
  unfold specR
  have hs : i < (Array.ofFn (n := P.ncoef) fun (i : Fin P.ncoef) =>
      sumTo P.rows.size fun r => A.mul (A.mul (rowW P r) (rowZ P r)) ((designTab P).get r i.val)).size := by
    simpa using hi
  rw [Array.getD_eq_getD_getElem?, Array.getElem?_eq_getElem hs]
  simp only [Array.getElem_ofFn, Option.getD_some]
  rw [sumTo_eq_sum]
  refine sum_congr rfl (fun r hr => ?_)
  rw [L.mul_eq, L.mul_eq, designTab_get P r i (mem_range.1 hr) hi]

theorem Mf_eq (P : FitProblem α) (i j : Nat) (hi : i < P.ncoef) (hj : j < P.ncoef) :
    Mf P i j = ∑ r ∈ range P.rows.size, rowW P r * designEntry P r i * designEntry P r j
        + penaltyGram P.dims P.smooth P.porder P.ncoef i j := specM_get P i j hi hj

theorem rf_eq (P : FitProblem α) (i : Nat) (hi : i < P.ncoef) :
    rf P i = ∑ r ∈ range P.rows.size, rowW P r * rowZ P r * designEntry P r i := specR_get P i hi

theorem specM_symm (P : FitProblem α) : Symm P.ncoef (Mf P) := by
  intro i hi j hj
  rw [Mf_eq P i j hi hj, Mf_eq P j i hj hi, penaltyGram_symm]
  congr 1
  exact sum_congr rfl (fun r _ => by ring)

end
end PsV
