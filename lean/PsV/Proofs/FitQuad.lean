import PsV.Spec.Fit
import PsV.Proofs.Lawful
import PsV.Proofs.NormalEq
/-!
# C09 helpers: the objective of `PsV/Spec/Fit.lean` is the quadratic `cᵀMc − 2rᵀc + k`

`Mf P`, `rf P` are the entry functions of `specM P`, `specR P`.  `penaltyGram` is the matrix
`Σ_d λ_d K_dᵀK_d` written with `Finset.sum`; `rowB` is one row of the design matrix as a function of
the datum (so that sums over the data rows become `List` sums over `P.rows.toList`).
-/
namespace PsV
open Arith Finset NormalEq
set_option linter.unusedSectionVars false

section
variable {α : Type} [Field α] [LinearOrder α] [IsStrictOrderedRing α] [A : Arith α] [L : LawfulArith α]

/-- entry function of the normal matrix -/
def Mf (P : FitProblem α) : Nat → Nat → α := fun i j => (specM P).get i j
/-- entry function of the right-hand side -/
def rf (P : FitProblem α) : Nat → α := fun i => (specR P).getD i 0

/-! ## tables -/

theorem Tab2.get_ofFn' (n m : Nat) (f : Nat → Nat → α) (i j : Nat) (hi : i < n) (hj : j < m) :
    (Tab2.ofFn n m f).get i j = f i j := by
  have hlt : i * m + j < n * m := by
    calc i * m + j < i * m + m := by omega
      _ = (i + 1) * m := by ring
      _ ≤ n * m := Nat.mul_le_mul_right m hi
  have hm : 0 < m := by omega
  have h1 : (i * m + j) / m = i := by
    rw [Nat.add_comm, Nat.add_mul_div_right _ _ hm, Nat.div_eq_of_lt hj, Nat.zero_add]
  have h2 : (i * m + j) % m = j := by
    rw [Nat.add_comm, Nat.add_mul_mod_self_right, Nat.mod_eq_of_lt hj]
  unfold Tab2.get Tab2.ofFn
  simp only [hi, hj, and_self, if_true]
  rw [Array.getElem?_ofFn]
  simp only [hlt, dif_pos, h1, h2]

theorem designTab_get (P : FitProblem α) (r i : Nat) (hr : r < P.rows.size) (hi : i < P.ncoef) :
    (designTab P).get r i = designEntry P r i := Tab2.get_ofFn' _ _ _ r i hr hi

/-! ## the penalty matrix `Σ_d λ_d K_dᵀK_d` -/

/-- number of rows of `K_d`: `outer · (n − p) · s` -/
def penaltyNK (d : Dim α) (p N : Nat) : Nat := (N / (d.naxes * d.stride)) * (d.naxes - p) * d.stride

/-- `Σ_d λ_d Σ_q K_d[q,i] K_d[q,j]` over the parallel lists dims / smooth / porder -/
def penaltyGram : List (Dim α) → List α → List Nat → Nat → Nat → Nat → α
  | d :: ds, l :: ls, p :: ps, N, i, j =>
    l * (∑ q ∈ range (penaltyNK d p N),
          penaltyRow d.knots d.order p d.naxes d.stride q i * penaltyRow d.knots d.order p d.naxes d.stride q j)
      + penaltyGram ds ls ps N i j
  | _, _, _, _, _, _ => 0

theorem penaltyEntry_eq (ds : List (Dim α)) (ls : List α) (ps : List Nat) (N i j : Nat)
    (hi : i < N) (hj : j < N) :
    penaltyEntry (penaltyTabs ds ps N) ls i j = penaltyGram ds ls ps N i j := by
  induction ds generalizing ls ps with
  | nil => cases ls <;> cases ps <;> simp [penaltyTabs, penaltyEntry, penaltyGram, L.zero_eq]
  | cons d ds ih =>
    cases ps with
    | nil => cases ls <;> simp [penaltyTabs, penaltyEntry, penaltyGram, L.zero_eq]
    | cons p ps =>
      cases ls with
      | nil => simp [penaltyTabs, penaltyEntry, penaltyGram, L.zero_eq]
      | cons l ls =>
        simp only [penaltyTabs, penaltyEntry, penaltyGram]
        rw [L.add_eq, L.mul_eq, sumTo_eq_sum, ih ls ps]
        congr 2
        refine sum_congr rfl (fun q hq => ?_)
        have hq' : q < (N / (d.naxes * d.stride)) * (d.naxes - p) * d.stride := mem_range.1 hq
        rw [L.mul_eq, Tab2.get_ofFn' _ _ _ q i hq' hi, Tab2.get_ofFn' _ _ _ q j hq' hj]

theorem penaltyGram_symm (ds : List (Dim α)) (ls : List α) (ps : List Nat) (N i j : Nat) :
    penaltyGram ds ls ps N i j = penaltyGram ds ls ps N j i := by
  induction ds generalizing ls ps with
  | nil => cases ls <;> cases ps <;> simp [penaltyGram]
  | cons d ds ih =>
    cases ps with
    | nil => cases ls <;> simp [penaltyGram]
    | cons p ps =>
      cases ls with
      | nil => simp [penaltyGram]
      | cons l ls =>
        simp only [penaltyGram]
        rw [ih ls ps]
        congr 2
        exact sum_congr rfl (fun q _ => mul_comm _ _)

/-! ## entries of `specM`, `specR` -/

theorem specM_get (P : FitProblem α) (i j : Nat) (hi : i < P.ncoef) (hj : j < P.ncoef) :
    (specM P).get i j
      = ∑ r ∈ range P.rows.size, rowW P r * designEntry P r i * designEntry P r j
        + penaltyGram P.dims P.smooth P.porder P.ncoef i j := by
  unfold specM
  rw [Tab2.get_ofFn' _ _ _ i j hi hj, L.add_eq, sumTo_eq_sum, penaltyEntry_eq _ _ _ _ _ _ hi hj]
  congr 1
  refine sum_congr rfl (fun r hr => ?_)
  have hr' := mem_range.1 hr
  rw [L.mul_eq, L.mul_eq, designTab_get P r i hr' hi, designTab_get P r j hr' hj]

theorem specR_get (P : FitProblem α) (i : Nat) (hi : i < P.ncoef) :
    (specR P).getD i 0 = ∑ r ∈ range P.rows.size, rowW P r * rowZ P r * designEntry P r i := by
  unfold specR
  have hs : i < (Array.ofFn (n := P.ncoef) fun (i : Fin P.ncoef) =>
      sumTo P.rows.size fun r => A.mul (A.mul (rowW P r) (rowZ P r)) ((designTab P).get r i.val)).size := by
    simpa using hi
  rw [Array.getD_eq_getD_getElem?, Array.getElem?_eq_getElem hs]
  simp only [Array.getElem_ofFn, Option.getD_some]
  rw [sumTo_eq_sum]
  refine sum_congr rfl (fun r hr => ?_)
  rw [L.mul_eq, L.mul_eq, designTab_get P r i (mem_range.1 hr) hi]

theorem Mf_eq (P : FitProblem α) (i j : Nat) (hi : i < P.ncoef) (hj : j < P.ncoef) :
    Mf P i j = ∑ r ∈ range P.rows.size, rowW P r * designEntry P r i * designEntry P r j
        + penaltyGram P.dims P.smooth P.porder P.ncoef i j := specM_get P i j hi hj

theorem rf_eq (P : FitProblem α) (i : Nat) (hi : i < P.ncoef) :
    rf P i = ∑ r ∈ range P.rows.size, rowW P r * rowZ P r * designEntry P r i := specR_get P i hi

theorem specM_symm (P : FitProblem α) : Symm P.ncoef (Mf P) := by
  intro i hi j hj
  rw [Mf_eq P i j hi hj, Mf_eq P j i hj hi, penaltyGram_symm]
  congr 1
  exact sum_congr rfl (fun r _ => by ring)

/-! ## quadratic forms of weighted Gram matrices -/

theorem mulVec_congr_mat (n : Nat) {M M' : Nat → Nat → α} (v : Nat → α) (i : Nat) (hi : i < n)
    (h : ∀ i < n, ∀ j < n, M i j = M' i j) : mulVec n M v i = mulVec n M' v i :=
  sum_congr rfl (fun j hj => by rw [h i hi j (mem_range.1 hj)])

theorem quad_congr_mat (n : Nat) {M M' : Nat → Nat → α} (v : Nat → α)
    (h : ∀ i < n, ∀ j < n, M i j = M' i j) : quad n M v = quad n M' v :=
  sum_congr rfl (fun i hi => by rw [mulVec_congr_mat n v i (mem_range.1 hi) h])

theorem quad_zero_mat (n : Nat) (v : Nat → α) : quad n (fun _ _ => (0 : α)) v = 0 := by
  simp [quad, mulVec]

/-- `vᵀ(KᵀWK)v = Σ_r w_r (K v)_r²` -/
theorem quad_weighted_gram (n m : Nat) (w : Nat → α) (K : Nat → Nat → α) (v : Nat → α) :
    quad n (fun i j => ∑ r ∈ range m, w r * K r i * K r j) v
      = ∑ r ∈ range m, w r * (∑ i ∈ range n, K r i * v i) ^ 2 := by
  have h1 : quad n (fun i j => ∑ r ∈ range m, w r * K r i * K r j) v
      = ∑ i ∈ range n, ∑ r ∈ range m, ∑ j ∈ range n, w r * ((K r i * v i) * (K r j * v j)) := by
    unfold quad mulVec
    refine sum_congr rfl (fun i _ => ?_)
    rw [mul_sum, sum_comm]
    refine sum_congr rfl (fun j _ => ?_)
    rw [sum_mul, mul_sum]
    exact sum_congr rfl (fun r _ => by ring)
  rw [h1, sum_comm]
  refine sum_congr rfl (fun r _ => ?_)
  rw [sq, sum_mul_sum, mul_sum]
  refine sum_congr rfl (fun i _ => ?_)
  rw [mul_sum]

/-- `(KᵀWz)ᵀv = Σ_r w_r z_r (K v)_r` -/
theorem dot_weighted (n m : Nat) (w z : Nat → α) (K : Nat → Nat → α) (v : Nat → α) :
    dot n (fun i => ∑ r ∈ range m, w r * z r * K r i) v
      = ∑ r ∈ range m, w r * z r * (∑ i ∈ range n, K r i * v i) := by
  unfold dot
  simp only [sum_mul, mul_sum]
  rw [sum_comm]
  exact sum_congr rfl (fun r _ => sum_congr rfl (fun i _ => by ring))

/-! ## `derivCoef` is linear and local -/

theorem derivCoef_congr' (t : Int → α) (order p : Nat) (c c' : Nat → α) (k : Nat)
    (h : ∀ m, k ≤ m → m ≤ k + p → c m = c' m) :
    derivCoef t order p c k = derivCoef t order p c' k := by
  induction p generalizing k with
  | zero => exact h k le_rfl le_rfl
  | succ p ih =>
    simp only [derivCoef]
    rw [ih (k+1) (fun m h1 h2 => h m (by omega) (by omega)), ih k (fun m h1 h2 => h m h1 (by omega))]

theorem derivCoef_lin' (t : Int → α) (order p : Nat) {ι : Type} (S : Finset ι) (x : ι → α)
    (g : ι → Nat → α) (k : Nat) :
    derivCoef t order p (fun m => ∑ i ∈ S, g i m * x i) k
      = ∑ i ∈ S, derivCoef t order p (g i) k * x i := by
  induction p generalizing k with
  | zero => rfl
  | succ p ih =>
    simp only [derivCoef, L.div_eq, L.mul_eq, L.sub_eq]
    rw [ih, ih, ← sum_sub_distrib, mul_sum, div_eq_mul_inv, sum_mul]
    refine sum_congr rfl (fun i _ => ?_)
    ring

/-- the derivative coefficient of the line `m ↦ c (φ m)` as a linear form in `c` -/
theorem derivCoef_line (t : Int → α) (order p N : Nat) (c : Nat → α) (φ : Nat → Nat) (k : Nat)
    (hφ : ∀ m, k ≤ m → m ≤ k + p → φ m < N) :
    ∑ i ∈ range N, derivCoef t order p (fun m => if φ m = i then A.one else A.zero) k * c i
      = derivCoef t order p (fun m => c (φ m)) k := by
  rw [← derivCoef_lin']
  apply derivCoef_congr'
  intro m h1 h2
  simp only [L.one_eq, L.zero_eq, ite_mul, one_mul, zero_mul]
  rw [sum_ite_eq]
  simp [hφ m h1 h2]

/-! ## mixed-radix re-indexing -/

theorem sum_range_mul' (a b : Nat) (f : Nat → α) :
    ∑ q ∈ range (a * b), f q = ∑ x ∈ range a, ∑ y ∈ range b, f (x * b + y) := by
  induction a with
  | zero => simp
  | succ a ih => rw [Nat.succ_mul, sum_range_add, ih, sum_range_succ]

theorem decode3 (a k b s m : Nat) (hb : b < s) (hk : k < m) :
    ((a * m + k) * s + b) % s = b ∧ (((a * m + k) * s + b) / s) % m = k
      ∧ ((a * m + k) * s + b) / (s * m) = a := by
  have hs : 0 < s := by omega
  have h1 : ((a * m + k) * s + b) / s = a * m + k := by
    rw [Nat.add_comm, Nat.add_mul_div_right _ _ hs, Nat.div_eq_of_lt hb, Nat.zero_add]
  refine ⟨?_, ?_, ?_⟩
  · rw [Nat.add_comm, Nat.add_mul_mod_self_right, Nat.mod_eq_of_lt hb]
  · rw [h1, Nat.add_comm, Nat.add_mul_mod_self_right, Nat.mod_eq_of_lt hk]
  · rw [← Nat.div_div_eq_div_mul, h1, Nat.add_comm, Nat.add_mul_div_right _ _ (by omega),
      Nat.div_eq_of_lt hk, Nat.zero_add]

theorem line_lt (a n s m b outer N : Nat) (ha : a < outer) (hm : m < n) (hb : b < s)
    (hN : outer * n * s ≤ N) : a * n * s + m * s + b < N := by
  have h1 : a * n * s + m * s + b < a * n * s + (m + 1) * s := by
    rw [Nat.succ_mul]; omega
  have h2 : (m + 1) * s ≤ n * s := Nat.mul_le_mul_right s hm
  have h3 : a * n * s + n * s = (a + 1) * n * s := by ring
  have h4 : (a + 1) * n * s ≤ outer * n * s :=
    Nat.mul_le_mul_right s (Nat.mul_le_mul_right n ha)
  omega

/-- the penalty row `q = (a(n−p)+k)s+b` applied to `c` is derivative coefficient `k` of line `(a,·,b)` -/
theorem penaltyRow_apply (t : Int → α) (order p n s outer N : Nat) (c : Nat → α) (a k b : Nat)
    (ha : a < outer) (hk : k < n - p) (hb : b < s) (hN : outer * n * s ≤ N) :
    ∑ i ∈ range N, penaltyRow t order p n s ((a * (n - p) + k) * s + b) i * c i
      = derivCoef t order p (fun m => c (a * n * s + m * s + b)) k := by
  obtain ⟨e1, e2, e3⟩ := decode3 a k b s (n - p) hb hk
  unfold penaltyRow
  simp only [e1, e2, e3]
  exact derivCoef_line t order p N c (fun m => a * n * s + m * s + b) k
    (fun m _ h2 => line_lt a n s m b outer N ha (by omega) hb hN)

theorem penaltyTerm_eq (t : Int → α) (order p n s outer N : Nat) (c : Nat → α)
    (hN : outer * n * s ≤ N) :
    penaltyTerm t order p n s outer c
      = ∑ q ∈ range (outer * (n - p) * s), (∑ i ∈ range N, penaltyRow t order p n s q i * c i) ^ 2 := by
  unfold penaltyTerm
  simp only [sumTo_eq_sum, L.mul_eq]
  rw [sum_range_mul', sum_range_mul']
  refine sum_congr rfl (fun a ha => sum_congr rfl (fun k hk => sum_congr rfl (fun b hb => ?_)))
  rw [penaltyRow_apply t order p n s outer N c a k b (mem_range.1 ha) (mem_range.1 hk)
    (mem_range.1 hb) hN, sq]

theorem penaltySum_eq_quad (ds : List (Dim α)) (ls : List α) (ps : List Nat) (N : Nat) (c : Nat → α) :
    penaltySum ds ls ps N c = quad N (penaltyGram ds ls ps N) c := by
  induction ds generalizing ls ps with
  | nil => cases ls <;> cases ps <;> simp [penaltySum, penaltyGram, L.zero_eq, quad_zero_mat]
  | cons d ds ih =>
    cases ps with
    | nil => cases ls <;> simp [penaltySum, penaltyGram, L.zero_eq, quad_zero_mat]
    | cons p ps =>
      cases ls with
      | nil => simp [penaltySum, penaltyGram, L.zero_eq, quad_zero_mat]
      | cons l ls =>
        have hN : N / (d.naxes * d.stride) * d.naxes * d.stride ≤ N := by
          rw [Nat.mul_assoc]; exact Nat.div_mul_le_self _ _
        have hq : quad N (penaltyGram (d :: ds) (l :: ls) (p :: ps) N) c
            = quad N (fun i j => l * (∑ q ∈ range (penaltyNK d p N),
                penaltyRow d.knots d.order p d.naxes d.stride q i
                  * penaltyRow d.knots d.order p d.naxes d.stride q j)
                + penaltyGram ds ls ps N i j) c := rfl
        rw [hq, quad_add, quad_smul, ← ih ls ps,
          posDef_of_sq_sum N (penaltyNK d p N) _
            (penaltyRow d.knots d.order p d.naxes d.stride) (fun i _ j _ => rfl) c]
        simp only [penaltySum]
        rw [L.add_eq, L.mul_eq, penaltyTerm_eq _ _ _ _ _ _ N c hN]
        rfl

/-! ## the objective as a quadratic -/

/-- the constant `Σ_r w_r z_r²` -/
def objConst (P : FitProblem α) : α := ∑ r ∈ range P.rows.size, rowW P r * rowZ P r ^ 2

theorem objective_eq_fullObj (P : FitProblem α) (c : Nat → α) :
    objective P c = fullObj P.ncoef (Mf P) (rf P) (objConst P) c := by
  unfold fullObj objConst
  have hM : quad P.ncoef (Mf P) c
      = quad P.ncoef (fun i j => (∑ r ∈ range P.rows.size, rowW P r * designEntry P r i * designEntry P r j)
          + penaltyGram P.dims P.smooth P.porder P.ncoef i j) c :=
    quad_congr_mat _ c (fun i hi j hj => Mf_eq P i j hi hj)
  have hr : dot P.ncoef (rf P) c
      = dot P.ncoef (fun i => ∑ r ∈ range P.rows.size, rowW P r * rowZ P r * designEntry P r i) c :=
    sum_congr rfl (fun i hi => by rw [rf_eq P i (mem_range.1 hi)])
  rw [hM, hr, quad_add, quad_weighted_gram, dot_weighted, ← penaltySum_eq_quad]
  unfold objective
  rw [L.add_eq, sumTo_eq_sum]
  simp only [sumTo_eq_sum, L.mul_eq, L.sub_eq]
  have hd : ∑ r ∈ range P.rows.size,
        rowW P r * ((rowZ P r - ∑ i ∈ range P.ncoef, designEntry P r i * c i)
          * (rowZ P r - ∑ i ∈ range P.ncoef, designEntry P r i * c i))
      = ∑ r ∈ range P.rows.size, rowW P r * (∑ i ∈ range P.ncoef, designEntry P r i * c i) ^ 2
        - 2 * ∑ r ∈ range P.rows.size, rowW P r * rowZ P r * (∑ i ∈ range P.ncoef, designEntry P r i * c i)
        + ∑ r ∈ range P.rows.size, rowW P r * rowZ P r ^ 2 := by
    rw [mul_sum, ← sum_sub_distrib, ← sum_add_distrib]
    exact sum_congr rfl (fun r _ => by ring)
  rw [hd]
  ring

/-- `vᵀMv = Σ_r w_r (Bv)_r² + penalty(v)`: the quadratic form of the normal matrix is the homogeneous
part of the objective -/
theorem quad_Mf (P : FitProblem α) (v : Nat → α) :
    quad P.ncoef (Mf P) v
      = ∑ r ∈ range P.rows.size, rowW P r * (∑ i ∈ range P.ncoef, designEntry P r i * v i) ^ 2
        + penaltySum P.dims P.smooth P.porder P.ncoef v := by
  rw [quad_congr_mat _ v (fun i hi j hj => Mf_eq P i j hi hj), quad_add, quad_weighted_gram,
    ← penaltySum_eq_quad]

/-! ## normal equations at a coefficient vector that generates the data -/

/-- for every dimension: `λ_d = 0`, or every row of `K_d` vanishes on `c` -/
def PenaltyVanishes : List (Dim α) → List α → List Nat → Nat → (Nat → α) → Prop
  | d :: ds, l :: ls, p :: ps, N, c =>
    (l = 0 ∨ ∀ q < penaltyNK d p N,
        ∑ i ∈ range N, penaltyRow d.knots d.order p d.naxes d.stride q i * c i = 0)
      ∧ PenaltyVanishes ds ls ps N c
  | _, _, _, _, _ => True

/-- for every dimension: the `p_d`-th derivative coefficients of every line of `c` along `d` vanish -/
def DerivVanishes : List (Dim α) → List Nat → Nat → (Nat → α) → Prop
  | d :: ds, p :: ps, N, c =>
    (∀ a < N / (d.naxes * d.stride), ∀ k < d.naxes - p, ∀ b < d.stride,
        derivCoef d.knots d.order p (fun m => c (a * d.naxes * d.stride + m * d.stride + b)) k = 0)
      ∧ DerivVanishes ds ps N c
  | _, _, _, _ => True

theorem encode3 (q outer m s : Nat) (hq : q < outer * m * s) :
    ∃ a < outer, ∃ k < m, ∃ b < s, q = (a * m + k) * s + b := by
  have hs : 0 < s := by
    rcases Nat.eq_zero_or_pos s with h | h
    · subst h; simp at hq
    · exact h
  have hx : q / s < outer * m := Nat.div_lt_of_lt_mul (by rw [Nat.mul_comm]; exact hq)
  have hm : 0 < m := by
    rcases Nat.eq_zero_or_pos m with h | h
    · subst h; simp at hx
    · exact h
  refine ⟨q / s / m, Nat.div_lt_of_lt_mul (by rw [Nat.mul_comm]; exact hx), (q / s) % m,
    Nat.mod_lt _ hm, q % s, Nat.mod_lt _ hs, ?_⟩
  rw [Nat.div_add_mod', Nat.div_add_mod']

theorem penaltyVanishes_of_all_zero (ds : List (Dim α)) (ls : List α) (ps : List Nat) (N : Nat)
    (c : Nat → α) (h : ∀ l ∈ ls, l = 0) : PenaltyVanishes ds ls ps N c := by
  induction ds generalizing ls ps with
  | nil => cases ls <;> cases ps <;> simp [PenaltyVanishes]
  | cons d ds ih =>
    cases ps with
    | nil => cases ls <;> simp [PenaltyVanishes]
    | cons p ps =>
      cases ls with
      | nil => simp [PenaltyVanishes]
      | cons l ls =>
        exact ⟨Or.inl (h l (by simp)), ih ls ps (fun x hx => h x (by simp [hx]))⟩

theorem penaltyVanishes_of_deriv (ds : List (Dim α)) (ls : List α) (ps : List Nat) (N : Nat)
    (c : Nat → α) (h : DerivVanishes ds ps N c) : PenaltyVanishes ds ls ps N c := by
  induction ds generalizing ls ps with
  | nil => cases ls <;> cases ps <;> simp [PenaltyVanishes]
  | cons d ds ih =>
    cases ps with
    | nil => cases ls <;> simp [PenaltyVanishes]
    | cons p ps =>
      cases ls with
      | nil => simp [PenaltyVanishes]
      | cons l ls =>
        obtain ⟨h1, h2⟩ := h
        refine ⟨Or.inr ?_, ih ls ps h2⟩
        intro q hq
        obtain ⟨a, ha, k, hk, b, hb, rfl⟩ := encode3 q _ _ _ hq
        have hN : N / (d.naxes * d.stride) * d.naxes * d.stride ≤ N := by
          rw [Nat.mul_assoc]; exact Nat.div_mul_le_self _ _
        rw [penaltyRow_apply _ _ _ _ _ _ N c a k b ha hk hb hN]
        exact h1 a ha k hk b hb

/-- `(KᵀWK v)_i = Σ_r w_r K_ri (K v)_r` -/
theorem mulVec_weighted_gram (n m : Nat) (w : Nat → α) (K : Nat → Nat → α) (v : Nat → α) (i : Nat) :
    mulVec n (fun i j => ∑ r ∈ range m, w r * K r i * K r j) v i
      = ∑ r ∈ range m, w r * K r i * (∑ j ∈ range n, K r j * v j) := by
  unfold mulVec
  simp only [sum_mul, mul_sum]
  rw [sum_comm]
  exact sum_congr rfl (fun r _ => sum_congr rfl (fun j _ => by ring))

theorem mulVec_penaltyGram_zero (ds : List (Dim α)) (ls : List α) (ps : List Nat) (N : Nat)
    (c : Nat → α) (i : Nat) (h : PenaltyVanishes ds ls ps N c) :
    mulVec N (penaltyGram ds ls ps N) c i = 0 := by
  induction ds generalizing ls ps with
  | nil => cases ls <;> cases ps <;> simp [penaltyGram, mulVec]
  | cons d ds ih =>
    cases ps with
    | nil => cases ls <;> simp [penaltyGram, mulVec]
    | cons p ps =>
      cases ls with
      | nil => simp [penaltyGram, mulVec]
      | cons l ls =>
        obtain ⟨h1, h2⟩ := h
        have hsplit : mulVec N (penaltyGram (d :: ds) (l :: ls) (p :: ps) N) c i
            = l * mulVec N (fun i j => ∑ q ∈ range (penaltyNK d p N),
                (1 : α) * penaltyRow d.knots d.order p d.naxes d.stride q i
                  * penaltyRow d.knots d.order p d.naxes d.stride q j) c i
              + mulVec N (penaltyGram ds ls ps N) c i := by
          unfold mulVec
          simp only [penaltyGram, one_mul]
          rw [mul_sum, ← sum_add_distrib]
          exact sum_congr rfl (fun j _ => by ring)
        rw [hsplit, ih ls ps h2, add_zero, mulVec_weighted_gram]
        rcases h1 with h0 | hv
        · rw [h0, zero_mul]
        · rw [sum_eq_zero (fun q hq => by rw [hv q (mem_range.1 hq), mul_zero]), mul_zero]

/-- data generated by `c0` and the penalty blind to `c0` ⇒ `c0` solves the normal equations -/
theorem normal_eq_of_generated (P : FitProblem α) (c0 : Nat → α)
    (hz : ∀ r < P.rows.size, rowW P r ≠ 0 →
      rowZ P r = ∑ i ∈ range P.ncoef, designEntry P r i * c0 i)
    (hpen : PenaltyVanishes P.dims P.smooth P.porder P.ncoef c0) :
    ∀ i < P.ncoef, mulVec P.ncoef (Mf P) c0 i = rf P i := by
  intro i hi
  have h1 : mulVec P.ncoef (Mf P) c0 i
      = mulVec P.ncoef (fun i j => ∑ r ∈ range P.rows.size, rowW P r * designEntry P r i * designEntry P r j) c0 i
        + mulVec P.ncoef (penaltyGram P.dims P.smooth P.porder P.ncoef) c0 i := by
    unfold mulVec
    rw [← sum_add_distrib]
    exact sum_congr rfl (fun j hj => by rw [Mf_eq P i j hi (mem_range.1 hj), add_mul])
  rw [h1, mulVec_penaltyGram_zero _ _ _ _ _ _ hpen, add_zero, mulVec_weighted_gram, rf_eq P i hi]
  refine sum_congr rfl (fun r hr => ?_)
  by_cases hw : rowW P r = 0
  · rw [hw, zero_mul, zero_mul, zero_mul, zero_mul]
  · rw [hz r (mem_range.1 hr) hw]
    ring

/-! ## sums over the data rows as `List` sums -/

/-- row of the design matrix belonging to a datum -/
def rowB (dims : List (Dim α)) (coords : List (List α)) (row : FitRow α) (i : Nat) : α :=
  match gridPoint coords row.idx with
  | none => 0
  | some xs => basisProd dims xs i

theorem sum_range_eq_list_sum {β : Type} (l : List β) (g : β → α) (F : Nat → α)
    (h : ∀ r x, l[r]? = some x → F r = g x) : ∑ r ∈ range l.length, F r = (l.map g).sum := by
  induction l generalizing F with
  | nil => simp
  | cons x l ih =>
    rw [List.length_cons, sum_range_succ', List.map_cons, List.sum_cons,
      ih (fun r => F (r + 1)) (fun r y hy => h (r + 1) y (by simpa using hy)),
      h 0 x (by simp), add_comm]

theorem sum_rows_eq {β : Type} (rows : Array β) (g : β → α) (F : Nat → α)
    (h : ∀ r x, rows[r]? = some x → F r = g x) :
    ∑ r ∈ range rows.size, F r = (rows.toList.map g).sum := by
  rw [← Array.length_toList]
  exact sum_range_eq_list_sum rows.toList g F (fun r x hx => h r x (by simpa using hx))

theorem rowW_of (P : FitProblem α) (r : Nat) (row : FitRow α) (h : P.rows[r]? = some row) :
    rowW P r = row.w := by unfold rowW; rw [h]
theorem rowZ_of (P : FitProblem α) (r : Nat) (row : FitRow α) (h : P.rows[r]? = some row) :
    rowZ P r = row.z := by unfold rowZ; rw [h]
theorem designEntry_of (P : FitProblem α) (r i : Nat) (row : FitRow α) (h : P.rows[r]? = some row) :
    designEntry P r i = rowB P.dims P.coords row i := by
  unfold designEntry rowB
  rw [h]
  cases hg : gridPoint P.coords row.idx <;> simp [hg, L.zero_eq]

theorem Mf_list (P : FitProblem α) (i j : Nat) (hi : i < P.ncoef) (hj : j < P.ncoef) :
    Mf P i j = (P.rows.toList.map fun row =>
        row.w * rowB P.dims P.coords row i * rowB P.dims P.coords row j).sum
      + penaltyGram P.dims P.smooth P.porder P.ncoef i j := by
  rw [Mf_eq P i j hi hj]
  congr 1
  exact sum_rows_eq P.rows _ _ (fun r x hx => by
    rw [rowW_of P r x hx, designEntry_of P r i x hx, designEntry_of P r j x hx])

theorem rf_list (P : FitProblem α) (i : Nat) (hi : i < P.ncoef) :
    rf P i = (P.rows.toList.map fun row => row.w * row.z * rowB P.dims P.coords row i).sum := by
  rw [rf_eq P i hi]
  exact sum_rows_eq P.rows _ _ (fun r x hx => by
    rw [rowW_of P r x hx, rowZ_of P r x hx, designEntry_of P r i x hx])

theorem objective_list (P : FitProblem α) (c : Nat → α) :
    objective P c = (P.rows.toList.map fun row =>
        row.w * (row.z - ∑ i ∈ range P.ncoef, rowB P.dims P.coords row i * c i) ^ 2).sum
      + penaltySum P.dims P.smooth P.porder P.ncoef c := by
  unfold objective
  rw [L.add_eq, sumTo_eq_sum]
  congr 1
  refine sum_rows_eq P.rows _ _ (fun r x hx => ?_)
  simp only [sumTo_eq_sum, L.mul_eq, L.sub_eq]
  rw [rowW_of P r x hx, rowZ_of P r x hx, sq]
  congr 3 <;> exact sum_congr rfl (fun i _ => by rw [designEntry_of P r i x hx])

/-- `P'` has the same spline space and penalty as `P`, and its data rows give the same sum for every
summand that vanishes with the weight -/
def RowsEquiv (P P' : FitProblem α) : Prop :=
  P'.dims = P.dims ∧ P'.coords = P.coords ∧ P'.smooth = P.smooth ∧ P'.porder = P.porder ∧
    ∀ g : FitRow α → α, (∀ row, row.w = 0 → g row = 0) →
      (P'.rows.toList.map g).sum = (P.rows.toList.map g).sum

theorem rowsEquiv_same (P P' : FitProblem α) (h : RowsEquiv P P') :
    P'.ncoef = P.ncoef ∧ (∀ i < P.ncoef, ∀ j < P.ncoef, Mf P' i j = Mf P i j)
      ∧ (∀ i < P.ncoef, rf P' i = rf P i) ∧ ∀ c, objective P' c = objective P c := by
  obtain ⟨hd, hc, hs, hp, hg⟩ := h
  have hn : P'.ncoef = P.ncoef := by unfold FitProblem.ncoef; rw [hd]
  refine ⟨hn, ?_, ?_, ?_⟩
  · intro i hi j hj
    rw [Mf_list P i j hi hj, Mf_list P' i j (hn ▸ hi) (hn ▸ hj), hd, hc, hs, hp, hn,
      hg _ (fun row h0 => by rw [h0, zero_mul, zero_mul])]
  · intro i hi
    rw [rf_list P i hi, rf_list P' i (hn ▸ hi), hd, hc,
      hg _ (fun row h0 => by rw [h0, zero_mul, zero_mul])]
  · intro c
    rw [objective_list P c, objective_list P' c, hd, hc, hs, hp, hn,
      hg _ (fun row h0 => by rw [h0, zero_mul])]

theorem filter_map_sum {β : Type} (l : List β) (g : β → α) (pr : β → Bool)
    (h : ∀ x, pr x = false → g x = 0) : ((l.filter pr).map g).sum = (l.map g).sum := by
  induction l with
  | nil => rfl
  | cons x l ih =>
    cases hx : pr x
    · rw [List.filter_cons_of_neg (by simp [hx]), ih, List.map_cons, List.sum_cons, h x hx, zero_add]
    · rw [List.filter_cons_of_pos hx, List.map_cons, List.sum_cons, ih, List.map_cons, List.sum_cons]

theorem rowsEquiv_filter (P : FitProblem α) :
    RowsEquiv P { P with rows := P.rows.filter (fun row => !isZero row.w) } := by
  refine ⟨rfl, rfl, rfl, rfl, ?_⟩
  intro g hg
  show ((P.rows.filter (fun row => !isZero row.w)).toList.map g).sum = _
  rw [Array.toList_filter]
  refine filter_map_sum _ g _ (fun x hx => hg x ?_)
  have : isZero x.w = true := by simpa using hx
  exact (isZero_iff x.w).1 this

theorem rowsEquiv_perm (P P' : FitProblem α) (hd : P'.dims = P.dims) (hc : P'.coords = P.coords)
    (hs : P'.smooth = P.smooth) (hp : P'.porder = P.porder)
    (hperm : P'.rows.toList.Perm P.rows.toList) : RowsEquiv P P' :=
  ⟨hd, hc, hs, hp, fun g _ => (hperm.map g).sum_eq⟩


end

/-! ## a concrete problem over `Rat`

One dimension, order 1 (hat functions) on the knots `0,1,2,3`, two coefficients; data `z = 1` at
`x = 1` and `x = 2` with weight 1, one datum `z = 5` at `x = 3/2` with weight 0; `λ = 1`, penalty
order 1.  `B = [[1,0],[0,1],[½,½]]`, `K = [[−1,1]]`, `M = [[2,−1],[−1,2]]`, `r = (1,1)`, minimiser `(1,1)`. -/
section Example

def exDim : Dim Rat := ⟨1, 4, 2, 1, fun i => (i : Rat)⟩
def exP : FitProblem Rat :=
  { dims := [exDim], coords := [[1, 3/2, 2]],
    rows := #[⟨[0], 1, 1⟩, ⟨[2], 1, 1⟩, ⟨[1], 5, 0⟩],
    smooth := [1], porder := [1] }
/-- the same problem with the data rows in another order -/
def exPperm : FitProblem Rat := { exP with rows := #[⟨[2], 1, 1⟩, ⟨[0], 1, 1⟩, ⟨[1], 5, 0⟩] }
/-- the same problem without smoothing -/
def exP0 : FitProblem Rat := { exP with smooth := [0] }

theorem exP_ncoef : exP.ncoef = 2 := by decide
theorem exP_M00 : Mf exP 0 0 = 2 := by decide +kernel
theorem exP_M01 : Mf exP 0 1 = -1 := by decide +kernel
theorem exP_M10 : Mf exP 1 0 = -1 := by decide +kernel
theorem exP_M11 : Mf exP 1 1 = 2 := by decide +kernel
theorem exP_r0 : rf exP 0 = 1 := by decide +kernel
theorem exP_r1 : rf exP 1 = 1 := by decide +kernel

theorem exP_quad (v : Nat → Rat) : quad exP.ncoef (Mf exP) v = v 0 ^ 2 + v 1 ^ 2 + (v 1 - v 0) ^ 2 := by
  rw [exP_ncoef]
  simp only [quad, mulVec, sum_range_succ, sum_range_zero, exP_M00, exP_M01, exP_M10, exP_M11]
  ring

theorem exP_posDef : PosDef exP.ncoef (Mf exP) := by
  rintro v ⟨i, hi, hv⟩
  rw [exP_quad]
  rw [exP_ncoef] at hi
  have h0 := sq_nonneg (v 0)
  have h1 := sq_nonneg (v 1)
  have h2 := sq_nonneg (v 1 - v 0)
  have hi' : i = 0 ∨ i = 1 := by omega
  rcases hi' with rfl | rfl
  · have : 0 < v 0 ^ 2 := by positivity
    linarith
  · have : 0 < v 1 ^ 2 := by positivity
    linarith

theorem exP_normal : ∀ i < exP.ncoef, mulVec exP.ncoef (Mf exP) (fun _ => 1) i = rf exP i := by
  rw [exP_ncoef]
  intro i hi
  have hi' : i = 0 ∨ i = 1 := by omega
  rcases hi' with rfl | rfl <;>
    simp only [mulVec, sum_range_succ, sum_range_zero, exP_M00, exP_M01, exP_M10, exP_M11,
      exP_r0, exP_r1] <;> norm_num

end Example
end PsV
