import PsV.Proofs.ReadsEval
/-!
C05 for the value-plus-gradient evaluation (`ndsplineeval_gradient`, bspline_multi.h): every lane's
result depends only on knots in `[-order, nknots+order)` and coefficients in `[0, ncoef)` — for every
arithmetic (NaN, ±inf, denormals: arbitrary comparison outcomes).
-/
namespace PsV
variable {α : Type} [A : Arith α]

/-- rows that have one entry per dimension with that dimension's stride and `order+1` weights -/
def Shaped : List (Dim α) → List (Nat × List α) → Prop
  | [], [] => True
  | d :: ds, r :: rs => (r.1 = d.stride ∧ r.2.length = d.order + 1) ∧ Shaped ds rs
  | _, _ => False

theorem shaped_nonempty : ∀ (ds : List (Dim α)) (rs : List (Nat × List α)), Shaped ds rs →
    ∀ r ∈ rs, r.2.length ≥ 1 := by
  intro ds
  induction ds with
  | nil => intro rs h r hr; cases rs with
    | nil => simp at hr
    | cons _ _ => simp [Shaped] at h
  | cons d ds ih =>
    intro rs h r hr
    cases rs with
    | nil => simp at hr
    | cons r0 rs =>
      obtain ⟨⟨_, hl⟩, hrest⟩ := h
      simp only [List.mem_cons] at hr
      rcases hr with rfl | hr
      · omega
      · exact ih rs hrest r hr

theorem extent_shaped : ∀ (ds : List (Dim α)) (rs : List (Nat × List α)), RowMajor ds → Shaped ds rs →
    extent rs = ds.foldr (fun d acc => (d.order : Int) * d.stride + acc) 0 := by
  intro ds
  induction ds with
  | nil => intro rs _ h; cases rs with
    | nil => simp [extent]
    | cons _ _ => simp [Shaped] at h
  | cons d ds ih =>
    intro rs hrm h
    cases rs with
    | nil => simp [Shaped] at h
    | cons r0 rs =>
      obtain ⟨s, row⟩ := r0
      obtain ⟨⟨hs, hl⟩, hrest⟩ := h
      simp only at hs hl
      have e1 : ((row.length : Int) - 1) = (d.order : Int) := by rw [hl]; push_cast; omega
      cases ds with
      | nil =>
        cases rs with
        | nil =>
          have h1 : d.stride = 1 := hrm
          simp only [extent, List.foldr, e1, h1]; push_cast; omega
        | cons _ _ => simp [Shaped] at hrest
      | cons e rest =>
        cases rs with
        | nil => simp [Shaped] at hrest
        | cons r1 rs =>
          have := ih (r1 :: rs) hrm.2 hrest
          simp only [extent, List.foldr, e1, hs] at this ⊢
          rw [this]

/-- both rows produced by `bspline_nonzero` have `order+1` entries -/
theorem bsplineNonzero_length (t : Int → α) (nknots : Nat) (x : α) (c n : Nat)
    (hc1 : n ≤ c) (hc2 : c + n + 2 ≤ nknots) :
    (bsplineNonzero t nknots x c n).1.length = n + 1 ∧ (bsplineNonzero t nknots x c n).2.length = n + 1 := by
  unfold bsplineNonzero
  by_cases hn : n = 0
  · simp [hn]
  · obtain ⟨m, rfl⟩ : ∃ m, n = m + 1 := ⟨n - 1, by omega⟩
    simp only [Nat.add_one_ne_zero, if_false, Nat.add_sub_cancel]
    have agree : AgreeOn t t (-((m + 1 : Nat) : Int)) ((nknots : Int) + (m + 1 : Nat) - 1) := fun _ _ _ => rfl
    obtain ⟨_, b1, b2⟩ := marginShift_congr t t nknots x c (m+1) (agree.mono (by omega) (by omega)) (by omega) (by omega)
    generalize marginShift t nknots x c (m+1) = l at b1 b2 ⊢
    have len := (bsplvb_congr t t x l (m+1) (by omega) (fun _ _ _ => rfl)).2
    constructor
    · exact rearrange_length _ _ _ _ (by rw [vbStep_len, len]; omega) b1 b2
    · exact rearrange_length _ _ _ _ (by rw [derivCombine_length _ _ _ _ (by rw [len]; omega), len]; omega) b1 b2

theorem gradRows_shaped : ∀ (ds : List (Dim α)) (xs : List α) (cs : List Nat) (lane n : Nat),
    CentersInRange ds cs → ds.length = xs.length → Shaped ds (gradRows ds xs cs lane n) := by
  intro ds
  induction ds with
  | nil => intro xs cs lane n hc _; cases cs with
    | nil => simp [gradRows, Shaped]
    | cons _ _ => simp [CentersInRange] at hc
  | cons d ds ih =>
    intro xs cs lane n hc hx
    cases cs with
    | nil => simp [CentersInRange] at hc
    | cons c cs =>
      obtain ⟨⟨c1, c2, _⟩, hcrest⟩ := hc
      cases xs with
      | nil => simp at hx
      | cons x xs =>
        have hl := bsplineNonzero_length d.knots d.nknots x c d.order c1 c2
        simp only [gradRows, Shaped]
        refine ⟨⟨trivial, ?_⟩, ih xs cs lane (n+1) hcrest (by simpa using hx)⟩
        split
        · exact hl.2
        · exact hl.1

theorem gradRows_congr : ∀ (ds es : List (Dim α)) (xs : List α) (cs : List Nat) (lane n : Nat),
    SameShape ds es → CentersInRange ds cs → gradRows ds xs cs lane n = gradRows es xs cs lane n := by
  intro ds
  induction ds with
  | nil =>
    intro es xs cs lane n h _
    cases es with
    | nil => rfl
    | cons _ _ => simp [SameShape] at h
  | cons d ds ih =>
    intro es xs cs lane n h hc
    cases es with
    | nil => simp [SameShape] at h
    | cons e es =>
      obtain ⟨⟨h1, h2, h3, h4, h5⟩, hrest⟩ := h
      cases cs with
      | nil => simp [CentersInRange] at hc
      | cons c cs =>
        obtain ⟨⟨c1, c2, _⟩, hcrest⟩ := hc
        cases xs with
        | nil => simp [gradRows]
        | cons x xs =>
          simp only [gradRows]
          rw [ih es xs cs lane (n+1) hrest hcrest, h4, h1, h2,
            bsplineNonzero_congr d.knots e.knots d.nknots x c d.order c1 c2 h5]

/-- **`ndsplineeval_gradient` depends only on owned memory**: knots in `[-order, nknots+order)` and
coefficients in `[0, ncoef)`, for every lane, coordinate vector and arithmetic. -/
theorem ndsplineevalGradient_congr (maxDim : Nat) (T T' : Table α) (xs : List α) (cs : List Nat)
    (hne : T.dims ≠ []) (hshape : SameShape T.dims T'.dims) (hrm : RowMajor T.dims)
    (hc : CentersInRange T.dims cs) (hx : T.dims.length = xs.length) (hlen : T'.dims.length = T.dims.length)
    (hcoef : AgreeOn T.coef T'.coef 0 ((ncoef T.dims : Int) - 1)) :
    ndsplineevalGradient maxDim T xs cs = ndsplineevalGradient maxDim T' xs cs := by
  unfold ndsplineevalGradient
  rw [hlen]
  split
  · rfl
  · congr 1
    apply List.map_congr_left
    intro lane _
    rw [← gradRows_congr T.dims T'.dims xs cs lane 0 hshape hc, ← startPos_congr T.dims T'.dims cs hshape]
    have hsh := gradRows_shaped T.dims xs cs lane 0 hc hx
    apply walk_congr _ _ _ (shaped_nonempty _ _ hsh)
    rw [extent_shaped _ _ hrm hsh]
    obtain ⟨S, h1, h2, h3⟩ := sum_centres_lt T.dims cs hne hrm hc
    exact hcoef.mono h3 (by omega)

theorem sameShape_length : ∀ (ds es : List (Dim α)), SameShape ds es → es.length = ds.length := by
  intro ds
  induction ds with
  | nil => intro es h; cases es with
    | nil => rfl
    | cons _ _ => simp [SameShape] at h
  | cons d ds ih => intro es h; cases es with
    | nil => simp [SameShape] at h
    | cons e es => simp [ih es h.2]

end PsV
