import PsV.Model.Fit
/-! Helper lemmas for C13: sequencing combinators, checked reads, the index arithmetic of
    `bspline` / `bsplinebasis` / `divided_diffs` / `calc_penalty`. -/
namespace PsV.Fit

/-! ### combinators -/

@[simp] theorem andThen_ok_iff {x y : Out} : x.andThen y = .ok ↔ x = .ok ∧ y = .ok := by
  cases x <;> simp [Out.andThen]

@[simp] theorem seqAll_nil : seqAll [] = .ok := rfl

@[simp] theorem seqAll_cons_ok {x : Out} {xs : List Out} :
    seqAll (x :: xs) = .ok ↔ x = .ok ∧ seqAll xs = .ok := by
  simp [seqAll]

theorem forN_ok_iff {n : Nat} {f : Nat → Out} : forN n f = .ok ↔ ∀ i, i < n → f i = .ok := by
  induction n with
  | zero => simp [forN]
  | succ n ih =>
    simp only [forN, andThen_ok_iff, ih]
    constructor
    · intro ⟨h1, h2⟩ i hi
      rcases Nat.lt_succ_iff_lt_or_eq.mp hi with h | h
      · exact h1 i h
      · exact h ▸ h2
    · intro h
      exact ⟨fun i hi => h i (Nat.lt_succ_of_lt hi), h n (Nat.lt_succ_self n)⟩

@[simp] theorem rd_ok_iff {s : Site} {len i : Nat} : rd s len i = .ok ↔ i < len := by
  unfold rd; split <;> simp [*]

@[simp] theorem vla_ok_iff {s : Site} {n : Nat} : vla s n = .ok ↔ 0 < n := by
  unfold vla; split <;> simp [*]

@[simp] theorem throwIf_ok_iff {c : Bool} {e : Err} : throwIf c e = .ok ↔ c = false := by
  unfold throwIf; cases c <;> simp

@[simp] theorem when_ok_iff {c : Bool} {x : Out} : Out.when c x = .ok ↔ (c = true → x = .ok) := by
  unfold Out.when; cases c <;> simp

/-! ### no-fault reasoning (sequential: a later statement is reached only if the earlier ones fell through) -/

theorem andThen_noFault {x y : Out} (hx : x.isFault = false) (hy : x = .ok → y.isFault = false) :
    (x.andThen y).isFault = false := by
  cases x with
  | ok => simpa [Out.andThen] using hy rfl
  | reject e => simp [Out.andThen, Out.isFault]
  | fault f => simp [Out.isFault] at hx

theorem seqAll_cons_noFault {x : Out} {xs : List Out} (hx : x.isFault = false)
    (hy : x = .ok → (seqAll xs).isFault = false) : (seqAll (x :: xs)).isFault = false :=
  andThen_noFault hx hy

theorem seqAll_nil_noFault : (seqAll []).isFault = false := rfl

theorem throwIf_noFault (c : Bool) (e : Err) : (throwIf c e).isFault = false := by
  unfold throwIf; cases c <;> rfl

theorem when_noFault {c : Bool} {x : Out} (h : c = true → x.isFault = false) : (Out.when c x).isFault = false := by
  unfold Out.when; cases c
  · rfl
  · simpa using h rfl

theorem rd_noFault {s : Site} {len i : Nat} (h : i < len) : (rd s len i).isFault = false := by
  simp [rd, h, Out.isFault]

theorem ok_noFault {x : Out} (h : x = .ok) : x.isFault = false := by subst h; rfl

/-- a loop does not fault if no iteration that is reached faults -/
theorem forN_noFault {n : Nat} {f : Nat → Out}
    (h : ∀ i, i < n → (∀ j, j < i → f j = .ok) → (f i).isFault = false) : (forN n f).isFault = false := by
  induction n with
  | zero => rfl
  | succ n ih =>
    simp only [forN]
    apply andThen_noFault
    · exact ih fun i hi hp => h i (Nat.lt_succ_of_lt hi) hp
    · intro hok
      exact h n (Nat.lt_succ_self n) (forN_ok_iff.mp hok)

/-! ### arithmetic -/

theorem wsub_of_le {a b : Nat} (h : b ≤ a) : wsub a b = a - b := by simp [wsub, wsubM, h]

theorem nsplinesOf_eq {nk o : Nat} (h : o + 1 ≤ nk) : nsplinesOf nk o = nk - o - 1 := by
  unfold nsplinesOf
  rw [wsub_of_le (by omega : o ≤ nk), wsub_of_le (by omega)]

theorem wsub32_of_le {a b : Nat} (h : b ≤ a) : wsub32 a b = a - b := by simp [wsub32, wsubM, h]

theorem cell_lt {col row npts ns : Nat} (hc : col < ns) (hr : row < npts) : col * npts + row < npts * ns := by
  have h1 : col * npts + npts ≤ ns * npts := by
    have : (col + 1) * npts ≤ ns * npts := Nat.mul_le_mul_right npts hc
    rwa [Nat.succ_mul] at this
  rw [Nat.mul_comm npts ns]; omega

theorem mem_le_maxIdx_aux (l : List Nat) : ∀ (acc : Nat), acc ≤ l.foldl max acc ∧ ∀ v ∈ l, v ≤ l.foldl max acc := by
  induction l with
  | nil => intro acc; simp
  | cons x xs ih =>
    intro acc
    have h := ih (max acc x)
    simp only [List.foldl_cons, List.mem_cons]
    refine ⟨Nat.le_trans (Nat.le_max_left acc x) h.1, ?_⟩
    intro v hv
    rcases hv with rfl | hv
    · exact Nat.le_trans (Nat.le_max_right acc v) h.1
    · exact h.2 v hv

theorem mem_le_maxIdx {l : List Nat} {v : Nat} (h : v ∈ l) : v ≤ maxIdx l :=
  (mem_le_maxIdx_aux l 0).2 v h

/-! ### the routines -/

/-- `bspline(knots, x, i, n)` reads `knots[i .. i+n+1]` -/
theorem bsplineReads_ok {nk : Nat} : ∀ (n i : Nat), i + n + 1 < nk → bsplineReads nk n i = .ok := by
  intro n
  induction n with
  | zero => intro i h; simp [bsplineReads]; omega
  | succ n ih =>
    intro i h
    simp only [bsplineReads, seqAll_cons_ok, seqAll_nil, rd_ok_iff, and_true]
    refine ⟨by omega, ih i (by omega), by omega, by omega, by omega, ih (i+1) (by omega), by omega, by omega⟩

theorem bsplineBasis_ok {nk npts xlen order : Nat} (hk : order + 2 ≤ nk) (hx : npts ≤ xlen) :
    bsplineBasis nk npts xlen order = .ok := by
  unfold bsplineBasis
  have hns : nsplinesOf nk order = nk - order - 1 := nsplinesOf_eq (by omega)
  simp only [forN_ok_iff, seqAll_cons_ok, seqAll_nil, rd_ok_iff, and_true]
  intro col hc row hr
  refine ⟨by omega, bsplineReads_ok order col (by omega), cell_lt hc hr⟩

/-- `divided_diffs` stays inside `a`, `b`, `out` and the knot vector when the recursion depth `P` fits the stack arrays -/
theorem dividedDiffs_ok {vlaLen nk order : Nat} (hv : 0 < vlaLen) :
    ∀ (P j outLen : Nat), P ≤ vlaLen → P < outLen → P ≤ order + 1 → (P ≠ 0 → j + P + order < nk) →
      dividedDiffs vlaLen nk order P j outLen = .ok := by
  intro P
  induction P with
  | zero => intro j outLen _ h2 _ _; simp [dividedDiffs, hv, h2]
  | succ p ih =>
    intro j outLen h1 h2 h3 h4
    have h4' := h4 (Nat.succ_ne_zero p)
    simp only [dividedDiffs, seqAll_cons_ok, seqAll_nil, rd_ok_iff, vla_ok_iff, forN_ok_iff, and_true]
    refine ⟨hv, hv, ih (j+1) vlaLen (by omega) (by omega) (by omega) (fun _ => by omega),
      ih j vlaLen (by omega) (by omega) (by omega) (fun _ => by omega),
      by omega, by omega, by omega, by omega, by omega, by omega, ?_⟩
    intro i hi
    refine ⟨by omega, by omega, by omega⟩

theorem trip_lt {row k nrows p1 : Nat} (hr : row < nrows) (hk : k < p1) : row * p1 + k < nrows * p1 := by
  have : (row + 1) * p1 ≤ nrows * p1 := Nat.mul_le_mul_right p1 hr
  rw [Nat.succ_mul] at this
  omega

theorem calcPenalty_ok {vlaExtra ndim : Nat} {nspl : List Nat} {dim nk order porder : Nat}
    (hlen : nspl.length = ndim) (hdim : dim < ndim) (hns : nspl.getD dim 0 = nk - order - 1)
    (hk : 2 * order + 2 ≤ nk) (hp : porder ≤ order) (hx : 1 ≤ vlaExtra) (hnk : nk < U32) :
    calcPenalty vlaExtra ndim nspl dim nk order porder = .ok := by
  unfold calcPenalty
  have hw : wsub (nspl.getD dim 0) porder = nk - order - 1 - porder := by
    rw [hns]; exact wsub_of_le (by omega)
  simp only [hw, seqAll_cons_ok, seqAll_nil, rd_ok_iff, vla_ok_iff, forN_ok_iff, and_true]
  refine ⟨?_, by omega, ?_, fun i hi => by omega⟩
  · -- divd[porder+1]: the uint32 sum does not wrap because porder ≤ order < nknots < 2^32
    have h : porder + 1 < U32 := by omega
    rw [Nat.mod_eq_of_lt h]; omega
  · intro row hrow
    refine ⟨dividedDiffs_ok (by omega) porder row (porder+1) (by omega) (by omega) (by omega) (fun _ => by omega), ?_⟩
    intro k hk'
    exact ⟨trip_lt hrow hk', hk'⟩

theorem foldl_mul (l : List Nat) : ∀ a, l.foldl (· * ·) a = a * prodL l := by
  induction l with
  | nil => intro a; simp [prodL]
  | cons x xs ih =>
    intro a
    simp only [prodL, List.foldl_cons]
    rw [ih (a * x), ih (1 * x), Nat.one_mul, Nat.mul_assoc]

theorem prodL_append (l1 l2 : List Nat) : prodL (l1 ++ l2) = prodL l1 * prodL l2 := by
  unfold prodL; rw [List.foldl_append, foldl_mul l2]; rfl

theorem prodL_cons (x : Nat) (l : List Nat) : prodL (x :: l) = x * prodL l := by
  unfold prodL; rw [List.foldl_cons, foldl_mul l, Nat.one_mul]; rfl

theorem prodL_split (l : List Nat) (m : Nat) (h : m < l.length) :
    prodL l = prodL (l.take m) * (l.getD m 0 * prodL (l.drop (m+1))) := by
  have h1 : l = l.take m ++ l[m] :: l.drop (m+1) := by
    rw [← List.drop_eq_getElem_cons h, List.take_append_drop]
  have h2 : l.getD m 0 = l[m] := by
    simp only [List.getD_eq_getElem?_getD, List.getElem?_eq_getElem h, Option.getD_some]
  rw [h2]
  conv => lhs; rw [h1]
  rw [prodL_append, prodL_cons]

theorem monoTail_ok (naxes : List Nat) (m : Nat) (h : m < naxes.length) : monoTail naxes m = .ok := by
  unfold monoTail
  simp only [seqAll_cons_ok, seqAll_nil, forN_ok_iff, rd_ok_iff, and_true]
  refine ⟨h, ?_⟩
  intro i hi j hj k hk
  rw [prodL_split naxes m h]
  generalize prodL (naxes.take m) = s1 at *
  generalize prodL (naxes.drop (m+1)) = s2 at *
  generalize naxes.getD m 0 = nm at *
  have e1 : i * s2 * nm = i * (nm * s2) := by rw [Nat.mul_assoc, Nat.mul_comm s2 nm]
  have hA : (j + 1) * s2 + k < nm * s2 := trip_lt (by omega) hk
  have hB : j * s2 + k < nm * s2 := trip_lt (by omega) hk
  have hC : ∀ r, r < nm * s2 → i * (nm * s2) + r < s1 * (nm * s2) := fun r hr => trip_lt hi hr
  rw [e1]
  exact ⟨by have := hC _ hA; omega, by have := hC _ hB; omega⟩

/-! ### the check block as a proposition -/

/-- What "every check of the repaired block falls through" says, spelled out. -/
def ChecksPass (a : Args) : Prop :=
  a.data.rows = a.nweights ∧ ¬a.data.ndim = 0 ∧ ¬a.data.rows = 0 ∧
  (∀ i, i < a.data.ndim →
    i < a.data.idx.length ∧ 0 < (a.idxCol i).length ∧ i < a.data.ranges.length ∧ maxIdx (a.idxCol i) < a.rangeOf i) ∧
  a.coordLens.length = a.data.ndim ∧
  (∀ i, i < a.data.ndim → i < a.coordLens.length ∧ a.rangeOf i ≤ a.coordLen i) ∧
  a.orders.length = a.data.ndim ∧ a.knots.length = a.data.ndim ∧
  (∀ i, i < a.data.ndim →
    i < a.knots.length ∧ sortedB (a.knotsAt i) = true ∧ i < a.orders.length ∧ 2 * a.ordAt i + 2 ≤ a.nkAt i) ∧
  (a.smoothNZ.length = a.data.ndim ∨ a.smoothNZ.length = 1) ∧
  (a.penalty.length = a.data.ndim ∨ a.penalty.length = 1) ∧
  (∀ i, i < a.data.ndim → a.penIdx i < a.penalty.length ∧ i < a.orders.length ∧ a.penAt i ≤ a.ordAt i) ∧
  (a.monodim = noMonodim ∨ a.monodim < a.data.ndim)

theorem fitChecks_ok_iff (a : Args) : fitChecks repaired a = .ok ↔ ChecksPass a := by
  simp only [fitChecks, repaired, seqAll_cons_ok, seqAll_nil, forN_ok_iff, rd_ok_iff, throwIf_ok_iff, when_ok_iff,
    and_true, true_implies, bne_eq_false_iff_eq, beq_eq_false_iff_ne, decide_eq_false_iff_not,
    Bool.and_eq_false_iff, Bool.not_eq_false', ne_eq, Nat.not_le, Nat.not_lt, ChecksPass]

theorem getD_mem {α} (l : List α) (i : Nat) (d : α) (h : i < l.length) : l.getD i d ∈ l := by
  simp only [List.getD_eq_getElem?_getD, List.getElem?_eq_getElem h, Option.getD_some]; exact List.getElem_mem h

theorem idxCol_len {a : Args} (hwf : a.data.WF) {i : Nat} (hi : i < a.data.ndim) :
    (a.idxCol i).length = a.data.rows :=
  hwf.col_len _ (getD_mem _ _ _ (by rw [hwf.idx_len]; exact hi))

theorem range_map_getD (f : Nat → Nat) {n i : Nat} (h : i < n) : ((List.range n).map f).getD i 0 = f i := by
  simp [List.getD_eq_getElem?_getD, List.getElem?_map, List.getElem?_range h]

theorem penIdx_lt {a : Args} (h : a.penalty.length = a.data.ndim ∨ a.penalty.length = 1) {i : Nat}
    (hi : i < a.data.ndim) : a.penIdx i < a.penalty.length := by
  unfold Args.penIdx; split <;> omega

theorem smoothIdx_lt {a : Args} (h : a.smoothNZ.length = a.data.ndim ∨ a.smoothNZ.length = 1) {i : Nat}
    (hi : i < a.data.ndim) : a.smoothIdx i < a.smoothNZ.length := by
  unfold Args.smoothIdx; split <;> omega

end PsV.Fit
