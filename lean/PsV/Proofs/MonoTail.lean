import PsV.Proofs.Monotone
import Mathlib.Algebra.BigOperators.Intervals
import Mathlib.Tactic.FieldSimp
/-!
Helper lemmas for C10, second part: from non-decreasing coefficients to a non-decreasing *surface*
(values, not derivatives), without calculus.

`tailS ind t x n N j = Σ_{j ≤ l < N} B_{l,n}(x)` (tail sums of the Cox–de Boor functions of `Spec/BSpline.lean`).
* `tailS_succ`  : `S_{j,n+1} = w_{j,n} B_{j,n} + S_{j+1,n}`, `w_{j,n}(x) = (x − t_j)/(t_{j+n+1} − t_j)`
                  (telescoping of the recurrence, `a/0 = 0` convention included);
* `tailS_mono`  : `x ≤ y  ⇒  S_{j,n}(x) ≤ S_{j,n}(y)` for every `j`, `n` (induction over the order: `S_{j,n+1}` is the
                  convex combination `w S_{j,n} + (1 − w) S_{j+1,n}` of two non-decreasing functions with a
                  non-decreasing weight and `S_{j,n} ≥ S_{j+1,n}`);
* `tailS_zero_eq_one` : partition of unity on the fully supported region;
* `spline1d_mono` : Abel summation `Σ c_j B_j = c_0 S_0 + Σ (c_{j+1} − c_j) S_{j+1}` ⇒ the 1-d spline with non-decreasing
                  coefficients is non-decreasing;
* `selInd_brk`, `selInd_brk_le` : inside the supported region the indicator of the specification fires at exactly one
                  non-degenerate knot interval, and that interval moves to the right with `x`;
* `specSum_dims_le` : the n-d induction over the dimensions of the tensor-product sum.
-/
namespace PsV
open Finset

/-- `ind` fires exactly at the non-degenerate knot interval `m`, which brackets `x` and lies below coefficient `N` -/
structure Brk (ind : Int → Bool) (t : Int → Rat) (x : Rat) (N m : Nat) : Prop where
  iff : ∀ l : Int, ind l = true ↔ l = (m : Int)
  lo : t m ≤ x
  hi : x ≤ t ((m : Int) + 1)
  ne : t m < t ((m : Int) + 1)
  up : m + 1 ≤ N

/-- `w_{j,n}(x)` -/
def wgt (t : Int → Rat) (x : Rat) (n : Nat) (j : Int) : Rat := (x - t j) / (t (j + n + 1) - t j)

/-- `Σ_{j ≤ l < N} B_{l,n}(x)` -/
def tailS (ind : Int → Bool) (t : Int → Rat) (x : Rat) (n N j : Nat) : Rat :=
  ∑ l ∈ Ico j N, Bind ind t x n (l : Int)

theorem tailS_split (ind : Int → Bool) (t : Int → Rat) (x : Rat) (n N j : Nat) (hj : j < N) :
    tailS ind t x n N j = Bind ind t x n j + tailS ind t x n N (j+1) := by
  unfold tailS
  rw [Finset.sum_eq_sum_Ico_succ_bot hj]

theorem tailS_ge (ind : Int → Bool) (t : Int → Rat) (x : Rat) (n N j : Nat) (hj : N ≤ j) :
    tailS ind t x n N j = 0 := by
  unfold tailS
  rw [Finset.Ico_eq_empty (by omega), Finset.sum_empty]

section One
variable {ind : Int → Bool} {t : Int → Rat} {x : Rat} {N m : Nat}

theorem Brk.hind (h : Brk ind t x N m) : ∀ l, ind l = true → t l ≤ x ∧ x ≤ t (l+1) := by
  intro l hl
  have := (h.iff l).mp hl
  subst this
  exact ⟨h.lo, h.hi⟩

theorem Brk.support (h : Brk ind t x N m) (n : Nat) (i : Int) (hne : Bind ind t x n i ≠ 0) :
    i ≤ m ∧ (m : Int) ≤ i + n := by
  obtain ⟨l, hl, h1, h2⟩ := Bind_support_aux ind t x n i hne
  have := (h.iff l).mp hl
  subst this
  exact ⟨h1, h2⟩

theorem Brk.zero_of (h : Brk ind t x N m) (n : Nat) (i : Int) (hi : (m : Int) < i ∨ i + n < m) :
    Bind ind t x n i = 0 := by
  by_contra hne
  have := h.support n i hne
  omega

variable (hmono : ∀ a b : Int, a ≤ b → t a ≤ t b)
include hmono

theorem Brk.nonneg (h : Brk ind t x N m) (n : Nat) (i : Int) : 0 ≤ Bind ind t x n i :=
  Bind_nonneg_aux ind t x hmono h.hind n i

/-- `0 ≤ w B` -/
theorem Brk.wB_nonneg (h : Brk ind t x N m) (n : Nat) (i : Int) : 0 ≤ wgt t x n i * Bind ind t x n i := by
  by_cases hB : Bind ind t x n i = 0
  · rw [hB, mul_zero]
  · have hs := h.support n i hB
    apply mul_nonneg _ (h.nonneg hmono n i)
    unfold wgt
    apply div_nonneg
    · have := hmono i m hs.1
      have := h.lo
      linarith
    · have := hmono i (i + n + 1) (by omega)
      linarith

/-- `0 ≤ (1 − w) B` -/
theorem Brk.oneSubW_nonneg (h : Brk ind t x N m) (n : Nat) (i : Int) :
    0 ≤ (1 - wgt t x n i) * Bind ind t x n i := by
  by_cases hB : Bind ind t x n i = 0
  · rw [hB, mul_zero]
  · have hs := h.support n i hB
    apply mul_nonneg _ (h.nonneg hmono n i)
    unfold wgt
    have h1 : t i ≤ t m := hmono i m hs.1
    have h2 : t ((m : Int) + 1) ≤ t (i + n + 1) := hmono _ _ (by omega)
    have h3 := h.ne
    have hD : 0 < t (i + n + 1) - t i := by linarith
    rw [sub_nonneg, div_le_one hD]
    have := h.hi
    linarith

/-- the second coefficient of the recurrence is `1 − w_{i+1}` wherever it matters -/
theorem Brk.second_term (h : Brk ind t x N m) (n : Nat) (i : Int) :
    (t (i + n + 2) - x) / (t (i + n + 2) - t (i + 1)) * Bind ind t x n (i+1)
      = (1 - wgt t x n (i+1)) * Bind ind t x n (i+1) := by
  by_cases hB : Bind ind t x n (i+1) = 0
  · rw [hB, mul_zero, mul_zero]
  · have hs := h.support n (i+1) hB
    have h1 : t (i+1) ≤ t m := hmono (i+1) m hs.1
    have h2 : t ((m : Int) + 1) ≤ t (i + n + 2) := hmono _ _ (by omega)
    have h3 := h.ne
    have hD : t (i + n + 2) - t (i + 1) ≠ 0 := by
      have : 0 < t (i + n + 2) - t (i + 1) := by linarith
      exact ne_of_gt this
    congr 1
    unfold wgt
    have e : i + 1 + (n : Int) + 1 = i + n + 2 := by ring
    rw [e]
    field_simp
    ring

/-- one level of the recurrence in telescoping form -/
theorem Brk.Bind_succ_tele (h : Brk ind t x N m) (n : Nat) (i : Int) :
    Bind ind t x (n+1) i
      = wgt t x n i * Bind ind t x n i + Bind ind t x n (i+1) - wgt t x n (i+1) * Bind ind t x n (i+1) := by
  rw [Bind_succ_rat, h.second_term hmono n i]
  unfold wgt
  ring

theorem Brk.tail_tele (h : Brk ind t x N m) (n j : Nat) : ∀ M : Nat, j ≤ M →
    ∑ l ∈ Ico j M, Bind ind t x (n+1) (l : Int)
      = wgt t x n j * Bind ind t x n j - wgt t x n M * Bind ind t x n M
        + ∑ l ∈ Ico (j+1) (M+1), Bind ind t x n (l : Int) := by
  intro M
  induction M with
  | zero =>
    intro hj
    have : j = 0 := by omega
    subst this
    simp
  | succ M ih =>
    intro hj
    rcases Nat.lt_or_ge M j with hlt | hge
    · have : j = M + 1 := by omega
      subst this
      simp
    · rw [Finset.sum_Ico_succ_top hge, ih hge, Finset.sum_Ico_succ_top (by omega : j + 1 ≤ M + 1),
        h.Bind_succ_tele hmono n (M : Int)]
      have e : ((M + 1 : Nat) : Int) = (M : Int) + 1 := by push_cast; rfl
      rw [e]
      ring

/-- `S_{j,n+1} = w_{j,n} B_{j,n} + S_{j+1,n}` -/
theorem Brk.tailS_succ (h : Brk ind t x N m) (n j : Nat) (hj : j < N) :
    tailS ind t x (n+1) N j = wgt t x n j * Bind ind t x n j + tailS ind t x n N (j+1) := by
  unfold tailS
  rw [h.tail_tele hmono n j N (by omega), Finset.sum_Ico_succ_top (by omega : j + 1 ≤ N),
    h.zero_of n (N : Int) (Or.inl (by have := h.up; omega))]
  ring

omit hmono in
theorem Brk.tailS_zero (h : Brk ind t x N m) (j : Nat) :
    tailS ind t x 0 N j = if j ≤ m then 1 else 0 := by
  unfold tailS
  have e : ∀ l ∈ Ico j N, Bind ind t x 0 (l : Int) = if l = m then 1 else 0 := by
    intro l _
    rw [Bind_zero_rat]
    by_cases hl : l = m
    · subst hl
      rw [if_pos ((h.iff _).mpr rfl), if_pos rfl]
    · rw [if_neg hl, if_neg]
      intro hc
      exact hl (by have := (h.iff _).mp hc; omega)
  rw [Finset.sum_congr rfl e, Finset.sum_ite_eq']
  have := h.up
  by_cases hjm : j ≤ m
  · rw [if_pos hjm, if_pos (Finset.mem_Ico.mpr ⟨hjm, by omega⟩)]
  · rw [if_neg hjm, if_neg (fun hc => hjm (Finset.mem_Ico.mp hc).1)]

/-- partition of unity: `Σ_{l < N} B_{l,n}(x) = 1` when the firing interval is at least `n` -/
theorem Brk.tailS_zero_eq_one (h : Brk ind t x N m) : ∀ n : Nat, n ≤ m → tailS ind t x n N 0 = 1 := by
  intro n
  induction n with
  | zero => intro _; rw [h.tailS_zero 0, if_pos (Nat.zero_le _)]
  | succ n ih =>
    intro hn
    have hN : 0 < N := by have := h.up; omega
    have hz : Bind ind t x n ((0 : Nat) : Int) = 0 := h.zero_of n _ (Or.inr (by push_cast; omega))
    rw [h.tailS_succ hmono n 0 hN, hz, mul_zero, zero_add]
    have := tailS_split ind t x n N 0 hN
    rw [hz, zero_add] at this
    rw [← this]
    exact ih (by omega)

end One

/-! ## the tail sums are non-decreasing in `x` -/

theorem tailS_mono {indx indy : Int → Bool} {t : Int → Rat} {x y : Rat} {N mx my : Nat}
    (hmono : ∀ a b : Int, a ≤ b → t a ≤ t b)
    (hx : Brk indx t x N mx) (hy : Brk indy t y N my) (hxy : x ≤ y) (hm : mx ≤ my) :
    ∀ n j : Nat, tailS indx t x n N j ≤ tailS indy t y n N j := by
  intro n
  induction n with
  | zero =>
    intro j
    rw [hx.tailS_zero j, hy.tailS_zero j]
    by_cases h1 : j ≤ mx
    · rw [if_pos h1, if_pos (by omega)]
    · rw [if_neg h1]
      split <;> norm_num
  | succ n ih =>
    intro j
    rcases Nat.lt_or_ge j N with hj | hj
    swap
    · rw [tailS_ge _ _ _ _ _ _ hj, tailS_ge _ _ _ _ _ _ hj]
    rw [hx.tailS_succ hmono n j hj, hy.tailS_succ hmono n j hj]
    have sx := tailS_split indx t x n N j hj
    have sy := tailS_split indy t y n N j hj
    have i0 := ih j
    have i1 := ih (j+1)
    have bx := hx.nonneg hmono n (j : Int)
    have by' := hy.nonneg hmono n (j : Int)
    have f1x := hx.wB_nonneg hmono n (j : Int)
    have f2x := hx.oneSubW_nonneg hmono n (j : Int)
    have f1y := hy.wB_nonneg hmono n (j : Int)
    have f2y := hy.oneSubW_nonneg hmono n (j : Int)
    -- abbreviations
    generalize tailS indx t x n N j = Sx0 at *
    generalize tailS indx t x n N (j+1) = Sx1 at *
    generalize tailS indy t y n N j = Sy0 at *
    generalize tailS indy t y n N (j+1) = Sy1 at *
    generalize Bind indx t x n (j : Int) = Bx at *
    generalize Bind indy t y n (j : Int) = By at *
    rcases lt_or_ge (wgt t x n j) 0 with hwx | hwx
    · -- x left of the support of B_j: w B = 0 at x
      have : wgt t x n j * Bx ≤ 0 := mul_nonpos_of_nonpos_of_nonneg (le_of_lt hwx) bx
      linarith
    rcases lt_or_ge 1 (wgt t y n j) with hwy | hwy
    · -- y right of the support of B_j: (1-w) B = 0 at y
      have : (1 - wgt t y n j) * By ≤ 0 := mul_nonpos_of_nonpos_of_nonneg (by linarith) by'
      have e : (1 - wgt t y n j) * By = By - wgt t y n j * By := by ring
      have e2 : (1 - wgt t x n j) * Bx = Bx - wgt t x n j * Bx := by ring
      linarith
    -- 0 ≤ w(x), w(y) ≤ 1, and w(x) ≤ w(y)
    have hww : wgt t x n j ≤ wgt t y n j := by
      unfold wgt
      have hD : 0 ≤ t ((j : Int) + n + 1) - t j := by
        have := hmono (j : Int) ((j : Int) + n + 1) (by omega)
        linarith
      exact div_le_div_of_nonneg_right (by linarith) hD
    have key : (wgt t y n j * By + Sy1) - (wgt t x n j * Bx + Sx1)
        = (1 - wgt t y n j) * (Sy1 - Sx1) + wgt t y n j * (Sy0 - Sx0) + (wgt t y n j - wgt t x n j) * Bx := by
      rw [sx, sy]; ring
    have p1 : 0 ≤ (1 - wgt t y n j) * (Sy1 - Sx1) := mul_nonneg (by linarith) (by linarith)
    have p2 : 0 ≤ wgt t y n j * (Sy0 - Sx0) := mul_nonneg (by linarith) (by linarith)
    have p3 : 0 ≤ (wgt t y n j - wgt t x n j) * Bx := mul_nonneg (by linarith) bx
    linarith

/-! ## Abel summation and the 1-d statement -/

theorem abel_tail (ind : Int → Bool) (t : Int → Rat) (x : Rat) (n N : Nat) (hN : 0 < N) (c : Nat → Rat) :
    ∑ j ∈ range N, c j * Bind ind t x n (j : Int)
      = c 0 * tailS ind t x n N 0 + ∑ j ∈ range (N-1), (c (j+1) - c j) * tailS ind t x n N (j+1) := by
  obtain ⟨M, rfl⟩ : ∃ M, N = M + 1 := ⟨N - 1, by omega⟩
  have e : ∀ j ∈ range (M+1), c j * Bind ind t x n (j : Int)
      = c j * (tailS ind t x n (M+1) j - tailS ind t x n (M+1) (j+1)) := by
    intro j hj
    rw [tailS_split ind t x n (M+1) j (mem_range.mp hj)]
    ring
  rw [Finset.sum_congr rfl e, mono_sum_by_parts c (fun j => tailS ind t x n (M+1) j) M,
    tailS_ge ind t x n (M+1) (M+1) (le_refl _), Nat.add_sub_cancel]
  ring

/-- **1-d**: a spline with non-decreasing coefficients is non-decreasing on the fully supported region -/
theorem spline1d_mono {indx indy : Int → Bool} {t : Int → Rat} {x y : Rat} {N mx my : Nat}
    (hmono : ∀ a b : Int, a ≤ b → t a ≤ t b)
    (hx : Brk indx t x N mx) (hy : Brk indy t y N my) (hxy : x ≤ y) (hm : mx ≤ my)
    (n : Nat) (hn : n ≤ mx) (c : Nat → Rat) (hc : ∀ j, j + 1 < N → c j ≤ c (j+1)) :
    ∑ j ∈ range N, c j * Bind indx t x n (j : Int) ≤ ∑ j ∈ range N, c j * Bind indy t y n (j : Int) := by
  have hN : 0 < N := by have := hx.up; omega
  rw [abel_tail indx t x n N hN c, abel_tail indy t y n N hN c,
    hx.tailS_zero_eq_one hmono n hn, hy.tailS_zero_eq_one hmono n (by omega)]
  apply add_le_add (le_refl _)
  apply Finset.sum_le_sum
  intro j hj
  have hj' : j + 1 < N := by have := mem_range.mp hj; omega
  apply mul_le_mul_of_nonneg_left (tailS_mono hmono hx hy hxy hm n (j+1))
  have := hc j hj'
  linarith

/-! ## the indicator of the specification fires exactly once inside the supported region -/

theorem exists_bracketR (f : Int → Rat) (x : Rat) : ∀ (k a : Nat), f a ≤ x → x < f ((a : Int) + k) →
    ∃ m : Nat, a ≤ m ∧ m < a + k ∧ f m ≤ x ∧ x < f ((m : Int) + 1) := by
  intro k
  induction k with
  | zero =>
    intro a h1 h2
    simp only [Nat.cast_zero, add_zero] at h2
    exact absurd (lt_of_le_of_lt h1 h2) (lt_irrefl _)
  | succ k ih =>
    intro a h1 h2
    by_cases h : x < f ((a : Int) + 1)
    · exact ⟨a, le_refl _, by omega, h1, h⟩
    · have e1 : (((a + 1 : Nat) : Int)) = (a : Int) + 1 := by push_cast; rfl
      obtain ⟨m, hm1, hm2, hm3, hm4⟩ := ih (a+1) (by rw [e1]; exact not_lt.mp h)
        (by rw [e1]; have e : (a : Int) + 1 + k = (a : Int) + ((k + 1 : Nat) : Int) := by push_cast; ring
            rw [e]; exact h2)
      exact ⟨m, by omega, by omega, hm3, hm4⟩

theorem exists_bracketL (f : Int → Rat) (x : Rat) : ∀ (k a : Nat), f a < x → x ≤ f ((a : Int) + k) →
    ∃ m : Nat, a ≤ m ∧ m < a + k ∧ f m < x ∧ x ≤ f ((m : Int) + 1) := by
  intro k
  induction k with
  | zero =>
    intro a h1 h2
    simp only [Nat.cast_zero, add_zero] at h2
    exact absurd (lt_of_lt_of_le h1 h2) (lt_irrefl _)
  | succ k ih =>
    intro a h1 h2
    by_cases h : x ≤ f ((a : Int) + 1)
    · exact ⟨a, le_refl _, by omega, h1, h⟩
    · have e1 : (((a + 1 : Nat) : Int)) = (a : Int) + 1 := by push_cast; rfl
      obtain ⟨m, hm1, hm2, hm3, hm4⟩ := ih (a+1) (by rw [e1]; exact not_le.mp h)
        (by rw [e1]; have e : (a : Int) + 1 + k = (a : Int) + ((k + 1 : Nat) : Int) := by push_cast; ring
            rw [e]; exact h2)
      exact ⟨m, by omega, by omega, hm3, hm4⟩

theorem indR_iff_of_bracket (t : Int → Rat) (x : Rat) (hmono : ∀ a b : Int, a ≤ b → t a ≤ t b) (m : Int)
    (h1 : t m ≤ x) (h2 : x < t (m+1)) (l : Int) : indR t x l = true ↔ l = m := by
  have e : indR t x l = (decide (t l ≤ x) && decide (x < t (l+1))) := rfl
  rw [e]
  simp only [Bool.and_eq_true, decide_eq_true_eq]
  constructor
  · rintro ⟨a1, a2⟩
    by_contra hne
    rcases lt_or_gt_of_ne hne with h | h
    · have := hmono (l+1) m (by omega); linarith
    · have := hmono (m+1) l (by omega); linarith
  · rintro rfl; exact ⟨h1, h2⟩

theorem indL_iff_of_bracket (t : Int → Rat) (x : Rat) (hmono : ∀ a b : Int, a ≤ b → t a ≤ t b) (m : Int)
    (h1 : t m < x) (h2 : x ≤ t (m+1)) (l : Int) : indL t x l = true ↔ l = m := by
  have e : indL t x l = (decide (t l < x) && decide (x ≤ t (l+1))) := rfl
  rw [e]
  simp only [Bool.and_eq_true, decide_eq_true_eq]
  constructor
  · rintro ⟨a1, a2⟩
    by_contra hne
    rcases lt_or_gt_of_ne hne with h | h
    · have := hmono (l+1) m (by omega); linarith
    · have := hmono (m+1) l (by omega); linarith
  · rintro rfl; exact ⟨h1, h2⟩

/-- inside `[knots[order], knots[naxes]]` (non-degenerate) `selInd` fires at exactly one non-degenerate interval
`m` with `order ≤ m < naxes` -/
theorem selInd_brk (d : Dim Rat) (x : Rat) (hmono : ∀ a b : Int, a ≤ b → d.knots a ≤ d.knots b)
    (hlo : d.knots d.order ≤ x) (hhi : x ≤ d.knots d.naxes) (hlt : d.knots d.order < d.knots d.naxes) :
    ∃ m : Nat, Brk (selInd d x) d.knots x d.naxes m ∧ d.order ≤ m := by
  have hon : d.order < d.naxes := by
    by_contra h
    have := hmono d.naxes d.order (by omega)
    linarith
  have ek : (d.order : Int) + ((d.naxes - d.order : Nat) : Int) = d.naxes := by
    rw [Nat.cast_sub (le_of_lt hon)]; ring
  by_cases hx : x < d.knots d.naxes
  · obtain ⟨m, hm1, hm2, hm3, hm4⟩ := exists_bracketR d.knots x (d.naxes - d.order) d.order hlo (by rw [ek]; exact hx)
    refine ⟨m, ⟨fun l => ?_, hm3, le_of_lt hm4, lt_of_le_of_lt hm3 hm4, by omega⟩, hm1⟩
    have hsel : selInd d x = indR d.knots x := by
      unfold selInd
      rw [if_pos (show Arith.lt x (d.knots d.naxes) = true from decide_eq_true hx)]
    rw [hsel]
    exact indR_iff_of_bracket d.knots x hmono m hm3 hm4 l
  · have hxe : x = d.knots d.naxes := le_antisymm hhi (not_lt.mp hx)
    obtain ⟨m, hm1, hm2, hm3, hm4⟩ := exists_bracketL d.knots x (d.naxes - d.order) d.order (by rw [hxe]; exact hlt)
      (by rw [ek]; exact hhi)
    refine ⟨m, ⟨fun l => ?_, le_of_lt hm3, hm4, lt_of_lt_of_le hm3 hm4, by omega⟩, hm1⟩
    have hsel : selInd d x = indL d.knots x := by
      unfold selInd
      rw [if_neg (fun e : Arith.lt x (d.knots d.naxes) = true => hx (of_decide_eq_true e))]
    rw [hsel]
    exact indL_iff_of_bracket d.knots x hmono m hm3 hm4 l

/-- the firing interval moves to the right with `x` -/
theorem selInd_brk_le (d : Dim Rat) (x y : Rat) (hmono : ∀ a b : Int, a ≤ b → d.knots a ≤ d.knots b)
    {N mx my : Nat} (hx : Brk (selInd d x) d.knots x N mx) (hy : Brk (selInd d y) d.knots y N my)
    (hxy : x ≤ y) : mx ≤ my := by
  rcases eq_or_lt_of_le hxy with h | h
  · subst h
    have := (hy.iff mx).mp ((hx.iff mx).mpr rfl)
    omega
  · by_contra hc
    have h1 := hmono ((my : Int) + 1) mx (by omega)
    have := hx.lo
    have := hy.hi
    linarith

/-! ## n-d: the tensor-product sum is monotone in the coordinate of the monotonic dimension -/

theorem specSum_base_le (coef : Int → Rat) (s2 : Nat) (fx fy : List Rat) (hlen : fy.length = fx.length)
    (rpost : List (Nat × List Rat))
    (hnn : RowsNonneg rpost) (hrm : RowMajor rpost) (hs2 : s2 = rsize rpost)
    (hcore : ∀ c : Nat → Rat, (∀ j, j + 1 < fx.length → c j ≤ c (j+1)) →
      ∑ j ∈ range fx.length, c j * fx.getD j 0 ≤ ∑ j ∈ range fx.length, c j * fy.getD j 0)
    (p : Rat) (hp : 0 ≤ p) (pos : Int)
    (hco : ∀ j, j + 1 < fx.length → ∀ k : Nat, k < s2 →
      coef (pos + (j : Int) * s2 + k) ≤ coef (pos + (j : Int) * s2 + k + s2)) :
    specSum coef ((s2, fx) :: rpost) p pos ≤ specSum coef ((s2, fy) :: rpost) p pos := by
  rw [specSum_cons, specSum_cons, hlen]
  have h1 : ∀ (f : List Rat), ∀ a ∈ range fx.length, specSum coef rpost (p * f.getD a 0) (pos + (a : Int) * s2)
      = p * (specSum coef rpost 1 (pos + (a : Int) * s2) * f.getD a 0) := by
    intro f a _
    rw [specSum_lin]; ring
  rw [Finset.sum_congr rfl (h1 fx), Finset.sum_congr rfl (h1 fy), ← Finset.mul_sum, ← Finset.mul_sum]
  apply mul_le_mul_of_nonneg_left _ hp
  apply hcore (fun j => specSum coef rpost 1 (pos + (j : Int) * s2))
  intro j hj
  show specSum coef rpost 1 (pos + (j : Int) * s2) ≤ specSum coef rpost 1 (pos + ((j+1 : Nat) : Int) * s2)
  have e : pos + ((j+1 : Nat) : Int) * s2 = pos + (j : Int) * s2 + s2 := by push_cast; ring
  rw [e, specSum_shift coef s2 rpost 1 (pos + (j : Int) * s2)]
  apply specSum_mono _ _ rpost hnn hrm 1 (by norm_num)
  intro off hoff
  exact hco j hj off (by rw [hs2]; exact hoff)

theorem specSum_dims_le (coef : Int → Rat) (dm : Dim Rat) (xm ym : Rat)
    (hcore : ∀ c : Nat → Rat, (∀ j, j + 1 < dm.naxes → c j ≤ c (j+1)) →
      ∑ j ∈ range dm.naxes, c j * Bsel dm xm 0 j ≤ ∑ j ∈ range dm.naxes, c j * Bsel dm ym 0 j) :
    ∀ (m : Nat) (ds : List (Dim Rat)) (xs : List Rat) (ms : List BasisMode),
      xs.length = ds.length → ms.length = ds.length → ds[m]? = some dm → xs[m]? = some xm →
      (∀ mo ∈ ms, mo = BasisMode.value) →
      (∀ d ∈ ds, KnotsMono d) → DimsRM ds →
      ∀ (p : Rat), 0 ≤ p → ∀ pos : Int,
      (∀ i, i < stride1 (ds.map Dim.naxes) m → ∀ j, j + 1 < dm.naxes →
        ∀ k, k < stride2 (ds.map Dim.naxes) m →
          coef (pos + (idx3 dm.naxes (stride2 (ds.map Dim.naxes) m) i j k : Nat))
            ≤ coef (pos + (idx3 dm.naxes (stride2 (ds.map Dim.naxes) m) i (j+1) k : Nat))) →
      specSum coef (specRows ds xs ms) p pos ≤ specSum coef (specRows ds (xs.set m ym) ms) p pos := by
  intro m
  induction m with
  | zero =>
    intro ds xs ms hx hm hdm hxm hmode hk hrm p hp pos hco
    rcases ds with _ | ⟨d, post⟩
    · simp at hdm
    rcases xs with _ | ⟨x, xpost⟩
    · simp at hxm
    rcases ms with _ | ⟨mo, mpost⟩
    · simp at hm
    simp only [List.getElem?_cons_zero, Option.some.injEq] at hdm hxm
    subst hdm; subst hxm
    have hmo : mo = BasisMode.value := hmode mo (by simp)
    subst hmo
    obtain ⟨hnn, hrmr, hsz⟩ := valueRows post xpost mpost (by simpa using hx) (by simpa using hm)
      (fun mo h => hmode mo (List.mem_cons_of_mem _ h))
      (fun d' h => hk d' (List.mem_cons_of_mem _ h)) hrm.2
    have hS1 : stride1 ((d :: post).map Dim.naxes) 0 = 1 := by simp [stride1]
    have hS2 : stride2 ((d :: post).map Dim.naxes) 0 = d.stride := by
      simp only [stride2, List.map_cons, Nat.zero_add, List.drop_succ_cons, List.drop_zero]
      exact hrm.1.symm
    rw [hS1, hS2] at hco
    rw [List.set_cons_zero, specRows_cons, specRows_cons]
    apply specSum_base_le coef _ _ _ (by simp) _ hnn hrmr (by rw [hsz]; exact hrm.1) _ p hp pos
    · intro j hj k hk'
      rw [List.length_map, List.length_range] at hj
      have := hco 0 (by omega) j hj k hk'
      have e1 : pos + ((idx3 d.naxes d.stride 0 j k : Nat) : Int) = pos + (j : Int) * d.stride + k := by
        unfold idx3; push_cast; ring
      have e2 : pos + ((idx3 d.naxes d.stride 0 (j+1) k : Nat) : Int)
          = pos + (j : Int) * d.stride + k + d.stride := by
        unfold idx3; push_cast; ring
      rw [e1, e2] at this
      exact this
    · intro c hc
      rw [List.length_map, List.length_range] at hc ⊢
      have := hcore c hc
      have e : ∀ z : Rat, ∀ j ∈ range d.naxes,
          c j * ((List.range d.naxes).map (Bsel d z (derivOrder BasisMode.value))).getD j 0
            = c j * Bsel d z 0 j := by
        intro z j hj
        rw [getD_map_range _ _ _ (mem_range.mp hj)]; rfl
      rw [Finset.sum_congr rfl (e x), Finset.sum_congr rfl (e ym)]
      exact this
  | succ m ih =>
    intro ds xs ms hx hm hdm hxm hmode hk hrm p hp pos hco
    rcases ds with _ | ⟨d, ds⟩
    · simp at hdm
    rcases xs with _ | ⟨x, xs⟩
    · simp at hxm
    rcases ms with _ | ⟨mo, ms⟩
    · simp at hm
    simp only [List.getElem?_cons_succ] at hdm hxm
    have hmo : mo = BasisMode.value := hmode mo (by simp)
    subst hmo
    have F1 : stride1 ((d :: ds).map Dim.naxes) (m+1) = d.naxes * stride1 (ds.map Dim.naxes) m := by
      simp only [stride1, List.map_cons, List.take_succ_cons]
      exact foldl_mul_cons _ _
    have F2 : stride2 ((d :: ds).map Dim.naxes) (m+1) = stride2 (ds.map Dim.naxes) m := by
      simp only [stride2, List.map_cons, List.drop_succ_cons]
    have F3 : d.stride = stride1 (ds.map Dim.naxes) m * dm.naxes * stride2 (ds.map Dim.naxes) m := by
      rw [strides_total_dims ds m dm hdm]; exact hrm.1
    rw [F1, F2] at hco
    rw [List.set_cons_succ, specRows_cons, specRows_cons, specSum_cons, specSum_cons]
    apply Finset.sum_le_sum
    intro a ha
    rw [List.length_map, List.length_range] at ha
    have ha' : a < d.naxes := mem_range.mp ha
    apply ih ds xs ms (by simpa using hx) (by simpa using hm) hdm hxm
      (fun mo h => hmode mo (List.mem_cons_of_mem _ h))
      (fun d' h => hk d' (List.mem_cons_of_mem _ h)) hrm.2
    · apply mul_nonneg hp
      apply getD_nonneg
      intro f hf
      simp only [List.mem_map, List.mem_range] at hf
      obtain ⟨i, _, rfl⟩ := hf
      exact Bsel_value_nonneg d (hk d (by simp)) x i
    · intro i hi j hj k hk'
      have := hco (a * stride1 (ds.map Dim.naxes) m + i) (mul_add_lt ha' hi) j hj k hk'
      rw [idx3_block, idx3_block, ← F3] at this
      have e : ∀ q : Nat, pos + ((a * d.stride + q : Nat) : Int) = pos + (a : Int) * d.stride + q := by
        intro q; push_cast; ring
      rw [e, e] at this
      exact this

end PsV
