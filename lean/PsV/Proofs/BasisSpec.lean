import PsV.Proofs.BSpline
import PsV.Spec.BSpline
/-!
The local basis row produced by `bsplvb_simple` holds, in slot `j`, the Cox–de Boor basis function
`centre - order + j` of the specification (`Bind` with the convention selected by `selInd`).
-/
namespace PsV
variable {α : Type} [Field α] [LinearOrder α]
attribute [local instance] Arith.ofField

/-- With an indicator that singles out interval `l` among the valid intervals, the specification's
recursion agrees with the polynomial piece `l` on every basis function whose knots are all valid. -/
theorem Bind_eq_Bp (t : Int → α) (x : α) (nknots : Nat) (l : Int) (ind : Int → Bool)
    (hind : ∀ i : Int, 0 ≤ i → i ≤ (nknots:Int) - 2 → (ind i = true ↔ i = l)) :
    ∀ (n : Nat) (i : Int), 0 ≤ i → i + n + 1 ≤ (nknots:Int) - 1 → Bind ind t x n i = Bp t x l n i := by
  intro n
  induction n with
  | zero =>
    intro i h0 h1
    simp only [Bind, Bp, of_one, of_zero]
    have := hind i h0 (by push_cast at h1; omega)
    by_cases hi : i = l
    · have hb : ind i = true := this.mpr hi
      rw [if_pos hb, if_pos hi]
    · have : ind i = false := by
        cases hb : ind i with
        | false => rfl
        | true => exact absurd (this.mp hb) hi
      simp [hi, this]
  | succ n ih =>
    intro i h0 h1
    simp only [Bind, Bp, of_add, of_mul, of_div, of_sub]
    rw [ih i h0 (by push_cast at h1 ⊢; omega), ih (i+1) (by omega) (by push_cast at h1 ⊢; omega)]

theorem indR_iff (t : Int → α) (x : α) (nknots : Nat) (l : Int)
    (hmono : ∀ i j : Int, 0 ≤ i → i ≤ j → j < nknots → t i ≤ t j)
    (hl0 : 0 ≤ l) (hl1 : l ≤ (nknots:Int) - 2) (h1 : t l ≤ x) (h2 : x < t (l+1)) :
    ∀ i : Int, 0 ≤ i → i ≤ (nknots:Int) - 2 → (indR t x i = true ↔ i = l) := by
  intro i hi0 hi1
  simp only [indR, of_le, of_lt, Bool.and_eq_true, decide_eq_true_eq]
  constructor
  · rintro ⟨a, b⟩
    by_contra hne
    rcases lt_or_gt_of_ne hne with h | h
    · have : t (i+1) ≤ t l := hmono _ _ (by omega) (by omega) (by omega)
      exact absurd (lt_of_lt_of_le b (le_trans this h1)) (lt_irrefl _)
    · have : t (l+1) ≤ t i := hmono _ _ (by omega) (by omega) (by omega)
      exact absurd (lt_of_lt_of_le h2 (le_trans this a)) (lt_irrefl _)
  · rintro rfl; exact ⟨h1, h2⟩

theorem indL_iff (t : Int → α) (x : α) (nknots : Nat) (l : Int)
    (hmono : ∀ i j : Int, 0 ≤ i → i ≤ j → j < nknots → t i ≤ t j)
    (hl0 : 0 ≤ l) (hl1 : l ≤ (nknots:Int) - 2) (h1 : t l < x) (h2 : x ≤ t (l+1)) :
    ∀ i : Int, 0 ≤ i → i ≤ (nknots:Int) - 2 → (indL t x i = true ↔ i = l) := by
  intro i hi0 hi1
  simp only [indL, of_le, of_lt, Bool.and_eq_true, decide_eq_true_eq]
  constructor
  · rintro ⟨a, b⟩
    by_contra hne
    rcases lt_or_gt_of_ne hne with h | h
    · have : t (i+1) ≤ t l := hmono _ _ (by omega) (by omega) (by omega)
      exact absurd (lt_of_le_of_lt (le_trans b this) h1) (lt_irrefl _)
    · have : t (l+1) ≤ t i := hmono _ _ (by omega) (by omega) (by omega)
      exact absurd (lt_of_le_of_lt (le_trans h2 this) a) (lt_irrefl _)
  · rintro rfl; exact ⟨h1, h2⟩

/-- Re-indexing, for any quantity `F i` indexed by basis function that vanishes outside `[l-n, l]`:
whatever interval the margin loops chose, slot `j` of the rearranged row is `F (c - n + j)`. -/
theorem rearrange_spec_gen (t : Int → α) (nknots n : Nat) (x : α) (c : Nat) (l : Int) (row : List α)
    (F : Int → α) (hzero : ∀ i : Int, (l < i ∨ i + n < l) → F i = 0)
    (hlo : n ≤ c) (hhi : c + n + 2 ≤ nknots) (hs : ShiftOK t nknots n x c l)
    (hlen : row.length = n + 1) (hval : ∀ m (hm : m < row.length), row[m] = F (l - n + m)) :
    ∀ j, j ≤ n → (rearrange nknots l n row)[j]? = some (F ((c:Int) - n + j)) := by
  obtain ⟨hl0, hl1, _, hdown, hup⟩ := hs
  intro j hj
  unfold rearrange
  by_cases h1 : (n:Int) - l > 0
  · -- lower margin: c = n, shift = n - l
    have hcn : (c:Int) = n := hdown (by omega)
    simp only [h1, if_true]
    obtain ⟨s, hs⟩ : ∃ s : Nat, (n:Int) - l = s := ⟨((n:Int) - l).toNat, by omega⟩
    have hsn : s ≤ n := by omega
    rw [hs, Int.toNat_natCast, Nat.min_eq_left (by omega)]
    by_cases hjl : (j:Int) ≤ l
    · rw [List.getElem?_append_left (by simp [hlen]; omega), List.getElem?_drop,
        List.getElem?_eq_getElem (by rw [hlen]; omega), hval _ (by rw [hlen]; omega)]
      congr 2; push_cast; omega
    · rw [List.getElem?_append_right (by simp [hlen]; omega), List.getElem?_replicate]
      have : j - (List.drop s row).length < s := by simp [hlen]; omega
      rw [if_pos this, of_zero, hzero _ (Or.inl (by omega))]
  · simp only [h1, if_false]
    by_cases h2 : l + (n:Int) + 2 - (nknots:Int) > 0
    · -- upper margin: c = nknots - n - 2, shift = l - c
      have hc : (c:Int) + n + 2 = nknots := hup (by omega)
      simp only [h2, if_true]
      obtain ⟨s, hs⟩ : ∃ s : Nat, l + (n:Int) + 2 - (nknots:Int) = s := ⟨(l + (n:Int) + 2 - (nknots:Int)).toNat, by omega⟩
      have hsn : s ≤ n := by omega
      rw [hs, Int.toNat_natCast, Nat.min_eq_left (by omega)]
      by_cases hjs : j < s
      · rw [List.getElem?_append_left (by simpa using hjs), List.getElem?_replicate, if_pos hjs, of_zero,
          hzero _ (Or.inr (by omega))]
      · rw [List.getElem?_append_right (by simp; omega), List.length_replicate, List.getElem?_take,
          if_pos (by omega), List.getElem?_eq_getElem (by rw [hlen]; omega), hval _ (by rw [hlen]; omega)]
        congr 2; push_cast; omega
    · -- fully supported: l = c
      have hlc : l = c := by
        by_contra hne
        rcases lt_or_gt_of_ne hne with h | h
        · have := hdown h; omega
        · have := hup h; omega
      simp only [h2, if_false]
      rw [List.getElem?_eq_getElem (by rw [hlen]; omega), hval _ (by rw [hlen]; omega), hlc]

theorem rearrange_spec (t : Int → α) (nknots n : Nat) (x : α) (c : Nat) (l : Int) (row : List α)
    (hlo : n ≤ c) (hhi : c + n + 2 ≤ nknots) (hs : ShiftOK t nknots n x c l)
    (hrow : IsLevel t x l n row) :
    ∀ j, j ≤ n → (rearrange nknots l n row)[j]? = some (Bp t x l n ((c:Int) - n + j)) :=
  rearrange_spec_gen t nknots n x c l row (Bp t x l n) (fun i h => Bp_zero_of_not_mem t x l n i h)
    hlo hhi hs hrow.1 hrow.2

/-- **Local basis = specification basis.**  Slot `j` of `bsplvb_simple`'s output is the Cox–de Boor
basis function `c - n + j` with the convention of C01 (right-continuous below `knots[naxes]`,
left-continuous from there upwards); the padding knots do not matter. -/
theorem bsplvbSimple_spec (t : Int → α) (nknots n : Nat) (x : α) (c : Nat)
    (h : CenterOK t nknots n x c)
    (hnd : t ((nknots:Int) - n - 2) < t ((nknots:Int) - n - 1) ∨ x ≠ t ((nknots:Int) - n - 1)) :
    ∀ j, j ≤ n → (bsplvbSimple t nknots x c n)[j]? =
      some (Bind (if x < t ((nknots:Int) - n - 1) then indR t x else indL t x) t x n ((c:Int) - n + j)) := by
  intro j hj
  have hs := marginShift_spec t nknots n x c h hnd
  unfold bsplvbSimple
  simp only
  rw [rearrange_spec t nknots n x c _ _ h.lo h.hi hs (bsplvb_level t x _ n) j hj]
  congr 1
  symm
  obtain ⟨hl0, hl1, hb, _, _⟩ := hs
  have hidx0 : (0:Int) ≤ (c:Int) - n + j := by have := h.lo; omega
  have hidx1 : (c:Int) - n + j + n + 1 ≤ (nknots:Int) - 1 := by have := h.hi; omega
  rcases hb with ⟨hx, b1, b2⟩ | ⟨hx, b1, b2⟩
  · rw [if_pos hx]
    exact Bind_eq_Bp t x nknots _ _ (indR_iff t x nknots _ h.mono hl0 hl1 b1 b2) n _ hidx0 hidx1
  · rw [if_neg (not_lt.mpr hx)]
    exact Bind_eq_Bp t x nknots _ _ (indL_iff t x nknots _ h.mono hl0 hl1 b1 b2) n _ hidx0 hidx1

theorem bsplvbSimple_length (t : Int → α) (nknots n : Nat) (x : α) (c : Nat)
    (h : CenterOK t nknots n x c)
    (hnd : t ((nknots:Int) - n - 2) < t ((nknots:Int) - n - 1) ∨ x ≠ t ((nknots:Int) - n - 1)) :
    (bsplvbSimple t nknots x c n).length = n + 1 := by
  have hs := marginShift_spec t nknots n x c h hnd
  obtain ⟨hl0, hl1, _, hdown, hup⟩ := hs
  have hlen := (bsplvb_level t x (marginShift t nknots x c n) n).1
  unfold bsplvbSimple rearrange
  simp only
  have := h.lo; have := h.hi
  split
  · rw [List.length_append, List.length_drop, List.length_replicate, hlen]; omega
  · split
    · rw [List.length_append, List.length_take, List.length_replicate, hlen]; omega
    · exact hlen

end PsV
