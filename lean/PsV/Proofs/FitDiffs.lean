import Mathlib.Data.List.GetD
import Mathlib.Algebra.BigOperators.Field
import Mathlib.Algebra.BigOperators.Intervals
import PsV.Proofs.Lawful
import PsV.Model.FitGlam
/-!
# C09: `divided_diffs` / the finite-difference matrix of `calc_penalty` compute the derivative coefficients of the
specification (`derivCoef`), and `derivCoef` really is "the coefficients of the derivative" (summation by parts
against `Dind`).  Also the table lemmas (`Tab2.get` of `Tab2.ofFn`) and the meaning of `accumulate`.
-/
set_option linter.unusedSectionVars false
namespace PsV
open Arith

/-! ## `Tab2` -/
section Tab
variable {α : Type} [A : Arith α]

@[simp] theorem tab2_ofFn_n (n m : Nat) (f : Nat → Nat → α) : (Tab2.ofFn n m f).n = n := rfl
@[simp] theorem tab2_ofFn_m (n m : Nat) (f : Nat → Nat → α) : (Tab2.ofFn n m f).m = m := rfl

theorem tab2_index_lt {n m i j : Nat} (hi : i < n) (hj : j < m) : i * m + j < n * m := by
  calc i * m + j < i * m + m := by omega
    _ = (i + 1) * m := by rw [Nat.add_mul, Nat.one_mul]
    _ ≤ n * m := Nat.mul_le_mul_right _ hi

theorem tab2_get_ofFn {n m i j : Nat} (f : Nat → Nat → α) (hi : i < n) (hj : j < m) :
    (Tab2.ofFn n m f).get i j = f i j := by
  have hlt : i * m + j < n * m := tab2_index_lt hi hj
  have hm : 0 < m := by omega
  have hdiv : (i * m + j) / m = i := by
    rw [Nat.mul_comm, Nat.mul_add_div hm, Nat.div_eq_of_lt hj, Nat.add_zero]
  have hmod : (i * m + j) % m = j := by
    rw [Nat.mul_comm, Nat.mul_add_mod, Nat.mod_eq_of_lt hj]
  unfold Tab2.get Tab2.ofFn
  simp only [hi, hj, and_self, if_true]
  rw [Array.getElem?_ofFn]
  simp only [hlt, dite_true, hdiv, hmod]

theorem tab2_get_out (T : Tab2 α) {i j : Nat} (h : ¬(i < T.n ∧ j < T.m)) : T.get i j = A.zero := by
  unfold Tab2.get
  rw [if_neg h]

end Tab

/-! ## `dividedDiffs` -/
section Len
variable {α : Type} [A : Arith α]

theorem dividedDiffs_length (t : Int → α) (order p j : Nat) : (dividedDiffs t order p j).length = p + 1 := by
  cases p with
  | zero => simp [dividedDiffs]
  | succ p => simp [dividedDiffs]

end Len

variable {α : Type} [Field α] [LinearOrder α] [IsStrictOrderedRing α] [A : Arith α] [L : LawfulArith α]

/-- entry `i` of `divided_diffs(porder = p+1, j)` in terms of `a = divided_diffs(p, j+1)`, `b = divided_diffs(p, j)` -/
theorem dividedDiffs_succ_getD (t : Int → α) (order p j i : Nat) (hi : i ≤ p + 1) :
    (dividedDiffs t order (p+1) j).getD i 0
      = ((if i = 0 then 0 else (dividedDiffs t order p (j+1)).getD (i-1) 0) - (dividedDiffs t order p j).getD i 0)
        / ((t ((j : Int) + order + 1) - t ((j : Int) + p + 1)) / ((order - p : Nat) : α)) := by
  have hb : (dividedDiffs t order p j).length = p + 1 := dividedDiffs_length t order p j
  rw [dividedDiffs]
  simp only [L.sub_eq, L.div_eq, L.neg_eq, L.zero_eq, L.ofNat_eq]
  cases i with
  | zero => simp
  | succ k =>
    simp only [Nat.add_one_ne_zero, if_false, Nat.add_sub_cancel]
    rcases Nat.lt_or_ge k p with hk | hk
    · rw [List.getD_append _ _ _ _ (by simpa using hk)]
      simp [List.getD_eq_getElem?_getD, List.getElem?_map, List.getElem?_range hk]
    · have hkp : k = p := by omega
      subst hkp
      rw [List.getD_append_right _ _ _ _ (by simp)]
      have : (dividedDiffs t order k j).getD (k+1) 0 = 0 := by
        rw [List.getD_eq_default]; omega
      rw [List.getD_eq_getElem?_getD] at this
      simp [this]

/-- `divided_diffs(order, p, j)` are the weights of the derivative coefficient `derivCoef … p c j` on `c j … c (j+p)` -/
theorem dividedDiffs_eq_derivCoeffs (t : Int → α) (order p j : Nat) (c : Nat → α) :
    ∑ i ∈ Finset.range (p+1), (dividedDiffs t order p j).getD i 0 * c (j + i) = derivCoef t order p c j := by
  induction p generalizing j with
  | zero => simp [dividedDiffs, derivCoef, L.one_eq]
  | succ p ih =>
    rw [derivCoef]
    simp only [L.sub_eq, L.div_eq, L.mul_eq, L.ofNat_eq]
    rw [← ih (j+1), ← ih j]
    have hb : (dividedDiffs t order p j).getD (p+1) 0 = 0 := by
      rw [List.getD_eq_default]; rw [dividedDiffs_length]
    rw [Finset.sum_congr rfl (fun i hi => by
      rw [dividedDiffs_succ_getD t order p j i (by have := Finset.mem_range.mp hi; omega)])]
    simp only [div_mul_eq_mul_div, sub_mul]
    rw [← Finset.sum_div, Finset.sum_sub_distrib, div_div_eq_mul_div]
    congr 1
    rw [mul_comm]
    congr 1
    congr 1
    · rw [Finset.sum_range_succ' _ (p+1)]
      simp only [Nat.add_one_ne_zero, if_false, Nat.add_sub_cancel, if_true, zero_mul, add_zero]
      apply Finset.sum_congr rfl
      intro i _
      congr 2
      omega
    · rw [Finset.sum_range_succ _ (p+1), hb, zero_mul, add_zero]

/-- row `r` of the finite-difference matrix applied to `c` is derivative coefficient `r` -/
theorem finiteDiff_row (t : Int → α) (order p n r : Nat) (c : Nat → α) (hr : r < n - p) :
    ∑ c' ∈ Finset.range n, (finiteDiff t order p n).get r c' * c c' = derivCoef t order p c r := by
  have hrp : r + p < n := by omega
  rw [← dividedDiffs_eq_derivCoeffs]
  have hsub : Finset.Ico r (r + p + 1) ⊆ Finset.range n := by
    intro x hx
    rw [Finset.mem_Ico] at hx
    exact Finset.mem_range.mpr (by omega)
  rw [← Finset.sum_subset hsub]
  · rw [Finset.sum_Ico_eq_sum_range]
    have : r + p + 1 - r = p + 1 := by omega
    rw [this]
    apply Finset.sum_congr rfl
    intro i hi
    have hi' := Finset.mem_range.mp hi
    unfold finiteDiff
    rw [tab2_get_ofFn _ hr (by omega)]
    rw [if_pos (by omega)]
    rw [L.zero_eq]
    congr 3
    omega
  · intro x hx hnx
    have hx' := Finset.mem_range.mp hx
    rw [Finset.mem_Ico] at hnx
    unfold finiteDiff
    rw [tab2_get_ofFn _ hr hx', if_neg (by omega), L.zero_eq, zero_mul]

/-- entry `(r, i)` of the finite-difference matrix is derivative coefficient `r` of the unit vector `e_i` -/
theorem finiteDiff_get_eq_derivCoef (t : Int → α) (order p n r i : Nat) (hr : r < n - p) (hi : i < n) :
    (finiteDiff t order p n).get r i = derivCoef t order p (fun m => if m = i then 1 else 0) r := by
  rw [← finiteDiff_row t order p n r _ hr]
  simp only [mul_ite, mul_one, mul_zero]
  rw [Finset.sum_ite_eq' (Finset.range n) i, if_pos (Finset.mem_range.mpr hi)]

/-! ## `derivCoef` is linear and local -/

theorem derivCoef_linear (t : Int → α) (order p : Nat) (a b : α) (c d : Nat → α) (j : Nat) :
    derivCoef t order p (fun i => a * c i + b * d i) j
      = a * derivCoef t order p c j + b * derivCoef t order p d j := by
  induction p generalizing j with
  | zero => simp [derivCoef]
  | succ p ih =>
    simp only [derivCoef, L.sub_eq, L.div_eq, L.mul_eq, L.ofNat_eq]
    rw [ih, ih]
    ring

theorem derivCoef_sum (t : Int → α) (order p N : Nat) (v : Nat → α) (e : Nat → Nat → α) (j : Nat) :
    derivCoef t order p (fun m => ∑ i ∈ Finset.range N, v i * e i m) j
      = ∑ i ∈ Finset.range N, v i * derivCoef t order p (e i) j := by
  induction p generalizing j with
  | zero => simp [derivCoef]
  | succ p ih =>
    simp only [derivCoef, L.sub_eq, L.div_eq, L.mul_eq, L.ofNat_eq]
    rw [ih, ih, ← Finset.sum_sub_distrib, Finset.mul_sum, Finset.sum_div]
    apply Finset.sum_congr rfl
    intro i _
    ring

theorem derivCoef_congr (t : Int → α) (order p : Nat) (c d : Nat → α) (j : Nat)
    (h : ∀ i, i ≤ p → c (j + i) = d (j + i)) :
    derivCoef t order p c j = derivCoef t order p d j := by
  induction p generalizing j with
  | zero => simpa [derivCoef] using h 0 (Nat.le_refl 0)
  | succ p ih =>
    simp only [derivCoef]
    rw [ih (j+1) (fun i hi => by have := h (i+1) (by omega); rwa [Nat.add_assoc, Nat.add_comm 1 i]),
        ih j (fun i hi => h i (by omega))]

/-! ## `derivCoef` gives the coefficients of the derivative (summation by parts) -/

/-- Abel summation: `Σ_{i ≤ M} c_i · k (B_i/W_i − B_{i+1}/W_{i+1})` -/
theorem sum_by_parts {K : Type} [Field K] (B W : Int → K) (c : Nat → K) (k : K) (M : Nat) :
    ∑ i ∈ Finset.range (M+1), c i * (k * (B (i : Int) / W (i : Int) - B ((i : Int) + 1) / W ((i : Int) + 1)))
      = ∑ j ∈ Finset.range M, (k * (c (j+1) - c j) / W ((j : Int) + 1)) * B ((j : Int) + 1)
        + c 0 * k * B 0 / W 0
        - c M * k * B ((M : Int) + 1) / W ((M : Int) + 1) := by
  induction M with
  | zero => simp; ring
  | succ M ih =>
    rw [Finset.sum_range_succ, ih, Finset.sum_range_succ _ M]
    push_cast
    ring

theorem Dind_one_succ (ind : Int → Bool) (t : Int → α) (x : α) (n : Nat) (i : Int) :
    Dind ind t x 1 (n+1) i
      = ((n+1 : Nat) : α) * (Bind ind t x n i / (t (i + n + 1) - t i)
          - Bind ind t x n (i+1) / (t ((i + 1) + n + 1) - t (i+1))) := by
  have h : i + 1 + (n : Int) + 1 = i + n + 2 := by ring
  rw [h]
  simp only [Dind, L.sub_eq, L.div_eq, L.mul_eq, L.ofNat_eq]

theorem derivCoef_one (t : Int → α) (n : Nat) (c : Nat → α) (j : Nat) :
    derivCoef t (n+1) 1 c j
      = ((n+1 : Nat) : α) * (c (j+1) - c j) / (t (((j : Int) + 1) + n + 1) - t ((j : Int) + 1)) := by
  have h1 : (j : Int) + ((n + 1 : Nat) : Int) + 1 = (j : Int) + 1 + n + 1 := by push_cast; ring
  have h2 : (j : Int) + ((0 : Nat) : Int) + 1 = (j : Int) + 1 := by simp
  simp only [derivCoef, L.sub_eq, L.div_eq, L.mul_eq, L.ofNat_eq, Nat.sub_zero, h1, h2]

/-- The derivative of `Σ_{i<N} c_i B_{i,n+1}` (knot-difference formula `Dind … 1`) is
`Σ_{j<N-1} c'_j B_{j+1,n}` with `c' = derivCoef … 1 c`, plus two boundary terms that only involve `B_{0,n}` and
`B_{N,n}` (both vanish on the fully supported range of the `N` basis functions). -/
theorem derivCoef_one_is_derivative (ind : Int → Bool) (t : Int → α) (x : α) (n : Nat) (c : Nat → α)
    (N : Nat) (hN : 1 ≤ N) :
    ∑ i ∈ Finset.range N, c i * Dind ind t x 1 (n+1) (i : Int)
      = ∑ j ∈ Finset.range (N-1), derivCoef t (n+1) 1 c j * Bind ind t x n ((j : Int) + 1)
        + c 0 * ((n+1 : Nat) : α) * Bind ind t x n 0 / (t ((n : Int) + 1) - t 0)
        - c (N-1) * ((n+1 : Nat) : α) * Bind ind t x n (N : Int) / (t ((N : Int) + n + 1) - t (N : Int)) := by
  obtain ⟨M, rfl⟩ : ∃ M, N = M + 1 := ⟨N - 1, by omega⟩
  have key := sum_by_parts (fun i => Bind ind t x n i) (fun i => t (i + n + 1) - t i) c ((n+1 : Nat) : α) M
  simp only [Nat.add_sub_cancel]
  have e0 : (0 : Int) + (n : Int) + 1 = (n : Int) + 1 := by ring
  have eM : ((M + 1 : Nat) : Int) = (M : Int) + 1 := by push_cast; ring
  rw [eM]
  simp only [e0] at key
  have hl : ∑ i ∈ Finset.range (M+1), c i * Dind ind t x 1 (n+1) (i : Int)
      = ∑ i ∈ Finset.range (M+1), c i * (((n+1 : Nat) : α) * (Bind ind t x n (i : Int) / (t ((i : Int) + n + 1) - t (i : Int))
          - Bind ind t x n ((i : Int) + 1) / (t (((i : Int) + 1) + n + 1) - t ((i : Int) + 1)))) :=
    Finset.sum_congr rfl (fun i _ => by rw [Dind_one_succ ind t x n (i : Int)])
  have hr : ∑ j ∈ Finset.range M, derivCoef t (n+1) 1 c j * Bind ind t x n ((j : Int) + 1)
      = ∑ j ∈ Finset.range M, (((n+1 : Nat) : α) * (c (j+1) - c j) / (t (((j : Int) + 1) + n + 1) - t ((j : Int) + 1)))
          * Bind ind t x n ((j : Int) + 1) :=
    Finset.sum_congr rfl (fun j _ => by rw [derivCoef_one t n c j])
  rw [hl, hr]
  exact key

/-! ## `accumulate` -/

theorem accumulate_foldl_size (es : List (Nat × α)) (arr : Array α) :
    (es.foldl (fun arr e => if h : e.1 < arr.size then arr.set e.1 (A.add arr[e.1] e.2) else arr) arr).size
      = arr.size := by
  induction es generalizing arr with
  | nil => rfl
  | cons e es ih =>
    rw [List.foldl_cons, ih]
    split <;> simp

theorem accumulate_size (size : Nat) (es : List (Nat × α)) : (accumulate size es).size = size := by
  unfold accumulate
  rw [accumulate_foldl_size, Array.size_replicate]

theorem accumulate_foldl_get (es : List (Nat × α)) (arr : Array α) (k : Nat) (hk : k < arr.size) :
    (es.foldl (fun arr e => if h : e.1 < arr.size then arr.set e.1 (A.add arr[e.1] e.2) else arr) arr)[k]?.getD 0
      = arr[k]?.getD 0 + ((es.filter (fun e => e.1 = k)).map (·.2)).sum := by
  induction es generalizing arr with
  | nil => simp
  | cons e es ih =>
    rw [List.foldl_cons, ih]
    · by_cases hek : e.1 = k
      · have he : e.1 < arr.size := by omega
        simp only [List.filter_cons, hek, decide_true, if_true, List.map_cons, List.sum_cons]
        subst hek
        simp [L.add_eq, hk, add_assoc]
      · simp only [List.filter_cons, hek, decide_false, Bool.false_eq_true, if_false]
        congr 2
        split
        · rw [Array.getElem?_set]
          simp [hek]
        · rfl
    · split <;> simpa using hk

/-- `accumulate`: position `k` holds the sum of the values listed for `k` -/
theorem accumulate_get (size : Nat) (es : List (Nat × α)) (k : Nat) (hk : k < size) :
    (accumulate size es)[k]?.getD 0 = ((es.filter (fun e => e.1 = k)).map (·.2)).sum := by
  unfold accumulate
  rw [accumulate_foldl_get _ _ _ (by simpa using hk)]
  simp [hk, L.zero_eq]

/-! ## concrete instances -/

example : dividedDiffs (fun i => (i : Rat)) 3 0 5 = [1] := by rfl
example : dividedDiffs (fun i => (i : Rat)) 3 1 0 = [-1, 1] := by
  simp [dividedDiffs, Arith.div, Arith.sub, Arith.neg, Arith.one, Arith.zero, Arith.ofNat]
  norm_num
example : dividedDiffs (fun i => (i : Rat)) 3 2 0 = [1, -2, 1] := by
  simp [dividedDiffs, Arith.div, Arith.sub, Arith.neg, Arith.one, Arith.zero, Arith.ofNat]
  norm_num

end PsV
