import PsV.Proofs.AuxKeys
/-!
Helper lemmas for C16, FITS part: the card `write_fits_core` produces for an accepted entry
(`cardOf` = `ffs2c`, `ffmkky`, `ffprec`) in closed form, and what `read_fits_core` makes of it
(`entryOfCard` = `ffgrec`, `ffgknm`, `ffpsvc`, quote stripping), for standard and HIERARCH keys.
-/
namespace PsV.Aux
open PsV.Gen

/-! ### generic list lemmas -/

theorem takeWhile_append_stop {α} (p : α → Bool) (a : List α) (b : α) (r : List α)
    (ha : ∀ c ∈ a, p c = true) (hb : p b = false) : (a ++ b :: r).takeWhile p = a := by
  induction a with
  | nil => simp [hb]
  | cons x xs ih =>
    rw [List.cons_append, List.takeWhile_cons_of_pos (ha x (by simp)), ih (fun c hc => ha c (by simp [hc]))]

theorem dropWhile_blanks_append (n : Nat) (l : List Char) (h : l.head? ≠ some ' ') :
    (blanks n ++ l).dropWhile (· == ' ') = l := by
  induction n with
  | zero =>
    cases l with
    | nil => rfl
    | cons c r =>
      have : c ≠ ' ' := by simpa using h
      simp [blanks, this]
  | succ n ih =>
    show ((' ' :: blanks n) ++ l).dropWhile (· == ' ') = l
    rw [List.cons_append, List.dropWhile_cons_of_pos (by decide)]; exact ih

theorem lstrip_of_head (l : List Char) (h : l.head? ≠ some ' ') : lstrip l = l := by
  have := dropWhile_blanks_append 0 l h
  simpa [blanks, lstrip] using this

theorem reverse_blanks (n : Nat) : (blanks n).reverse = blanks n := by simp [blanks]

theorem rstrip_append_blanks (l : List Char) (n : Nat) (h : l.getLast? ≠ some ' ') : rstrip (l ++ blanks n) = l := by
  unfold rstrip
  rw [List.reverse_append, reverse_blanks, dropWhile_blanks_append n l.reverse (by simpa using h), List.reverse_reverse]

theorem rstrip_of_getLast (l : List Char) (h : l.getLast? ≠ some ' ') : rstrip l = l := by
  have := rstrip_append_blanks l 0 h
  simpa [blanks] using this

/-- printable ASCII: the characters `ffprec` leaves alone -/
def printable (c : Char) : Bool := decide (32 ≤ c.toNat) && decide (c.toNat ≤ 126)

theorem sanitize_printable (c : Char) (h : printable c = true) : sanitize c = c := by
  unfold printable at h
  simp only [Bool.and_eq_true, decide_eq_true_eq] at h
  unfold sanitize
  rw [if_neg]
  simp only [Bool.or_eq_true, decide_eq_true_eq]
  omega

theorem map_sanitize (l : List Char) (h : ∀ c ∈ l, printable c = true) : l.map sanitize = l := by
  induction l with
  | nil => rfl
  | cons a r ih =>
    rw [List.map_cons, sanitize_printable a (h a (by simp)), ih (fun c hc => h c (by simp [hc]))]

theorem printable_blanks (n : Nat) : ∀ c ∈ blanks n, printable c = true := by
  intro c hc
  have : c = ' ' := by simpa [blanks] using (List.eq_of_mem_replicate hc)
  subst this; decide

theorem printable_dbl (v : Str) (h : ∀ c ∈ v, printable c = true) : ∀ c ∈ dbl v, printable c = true := by
  induction v with
  | nil => intro c hc; simp [dbl] at hc
  | cons a r ih =>
    intro c hc
    have ha := h a (by simp)
    have ih' := ih (fun c hc => h c (by simp [hc]))
    by_cases hq : (a == '\'') = true
    · simp only [dbl, hq, if_true, List.mem_cons] at hc
      rcases hc with rfl | rfl | hc
      · exact ha
      · exact ha
      · exact ih' c hc
    · simp only [dbl, hq, Bool.false_eq_true, if_false, List.mem_cons] at hc
      rcases hc with rfl | hc
      · exact ha
      · exact ih' c hc

/-! ### reading a quoted value back -/

theorem undouble_dbl (w : Str) : undouble (dbl w) = w := by
  have := undouble_dbl_blanks w 0
  simpa [blanks] using this

/-- the part of `ffpsvc` after the value position has been found -/
def valTail (l : List Char) : List Char :=
  match lstrip l with
  | [] => []
  | '\'' :: rest => '\'' :: psvcQ (rest.length + 1) rest 1
  | '/' :: _ => []
  | other => other.takeWhile fun c => c != ' ' && c != '/'

/-- `ffpsvc` copies a quoted string (quotes still doubled, closing quote included) and the repaired reader
    strips the enclosing quotes and un-doubles: a string `w` whose doubled form fits comes back exactly. -/
theorem valTail_quoted (n : Nat) (w : Str) (h : (dbl w).length ≤ 68) :
    stripValue (valTail (blanks n ++ '\'' :: (dbl w ++ ['\'']))) = w := by
  have hwl : w.length ≤ (dbl w).length := by rw [length_dbl w]; omega
  unfold valTail
  simp only [lstrip]
  rw [dropWhile_blanks_append n _ (by simp)]
  simp only
  have hfuel : (dbl w ++ ['\'']).length + 1 = ((dbl w).length + 2 - w.length) + w.length := by
    rw [List.length_append]; simp only [List.length_singleton]; omega
  rw [hfuel, psvcQ_dbl _ _ _ _ (by omega) rfl]
  obtain ⟨f, hf⟩ : ∃ f, (dbl w).length + 2 - w.length = f + 1 := ⟨(dbl w).length + 1 - w.length, by omega⟩
  rw [hf, psvcQ_close f (1 + (dbl w).length) (by omega)]
  unfold stripValue
  simp only [List.length_cons, List.length_append, List.length_singleton]
  have hlast : ('\'' :: (dbl w ++ ['\''])).getLast? = some '\'' := by
    rw [← List.cons_append, List.getLast?_append]; simp
  simp only [hlast, show (dbl w).length + 1 + 1 ≥ 2 by omega, decide_true, Bool.and_self, beq_self_eq_true, if_true, List.dropLast_concat]
  first
    | exact undouble_dbl w
    | (rw [if_pos (by simp)]; exact undouble_dbl w)

/-! ### the card text in closed form -/

/-- the last step of `ffmkky`: append the value, cut at column 80, force a closing quote when it was cut -/
def cardTail (h : List Char) (namelen : Nat) (qv : List Char) : List Char :=
  if namelen + qv.length ≥ 80 then (h ++ qv.take (80 - namelen)).take 79 ++ ['\''] else h ++ qv.take (80 - namelen)

theorem take_blanks (m n : Nat) : (blanks n).take m = blanks (min m n) := by
  simp [blanks, List.take_replicate]

theorem length_blanks (n : Nat) : (blanks n).length = n := by simp [blanks]

/-- For a head of `h.length` columns and a value whose doubled form leaves room for the two quotes, the card is
    head, quote, doubled value, padding blanks, quote; the padding to 8 characters is cut short (never the value)
    when the card is full. -/
theorem cardTail_eq (h : List Char) (v : Str) (hd : (dbl v).length ≤ 68) (hfit : h.length + (dbl v).length ≤ 78) :
    cardTail h h.length (ffs2c v) =
      h ++ '\'' :: (dbl v ++ blanks (min (8 - (dbl v).length) (78 - h.length - (dbl v).length))) ++ ['\''] := by
  have hl := length_dbl v
  rw [ffs2c_eq v (by omega)]
  obtain ⟨d, hdd⟩ : ∃ d, d = (dbl v).length := ⟨_, rfl⟩
  rw [← hdd] at hd hfit ⊢
  have hqlen : ('\'' :: (dbl v ++ blanks (8 - d)) ++ ['\'']).length = max d 8 + 2 := by
    simp only [List.length_cons, List.length_append, length_blanks, List.length_nil, ← hdd]; omega
  unfold cardTail
  rw [hqlen]
  by_cases hc : h.length + (max d 8 + 2) ≥ 80
  · rw [if_pos hc]
    have hm : min (8 - d) (78 - h.length - d) = 78 - h.length - d := by omega
    rw [hm, List.take_append, List.take_of_length_le (show h.length ≤ 79 by omega), List.take_take,
      show min (79 - h.length) (80 - h.length) = (78 - h.length) + 1 by omega]
    rw [List.cons_append, List.take_succ_cons, List.take_append_of_le_length (by rw [List.length_append, length_blanks, ← hdd]; omega),
      List.take_append, List.take_of_length_le (show (dbl v).length ≤ 78 - h.length by omega), take_blanks, ← hdd,
      show min (78 - h.length - d) (8 - d) = 78 - h.length - d by omega]
  · rw [if_neg hc]
    have hm : min (8 - d) (78 - h.length - d) = 8 - d := by omega
    rw [hm, List.take_of_length_le (by rw [hqlen]; omega)]
    simp

theorem alnum_facts (c : Char) (h : (c.isUpper || c.isDigit) = true) :
    printable c = true ∧ c ≠ ' ' ∧ c ≠ '=' ∧ stdKeyChar c = true := by
  refine ⟨?_, ?_, ?_, ?_⟩
  · simp only [Char.isUpper, Char.isDigit, Bool.or_eq_true, Bool.and_eq_true, decide_eq_true_eq] at h
    simp only [printable, Char.toNat, Bool.and_eq_true, decide_eq_true_eq]
    rcases h with ⟨h1, h2⟩ | ⟨h1, h2⟩
    · have a := UInt32.le_iff_toNat_le.mp h1; have b := UInt32.le_iff_toNat_le.mp h2
      have e1 : 'A'.val.toNat = 65 := by decide
      have e2 : 'Z'.val.toNat = 90 := by decide
      omega
    · have a := UInt32.le_iff_toNat_le.mp h1; have b := UInt32.le_iff_toNat_le.mp h2
      have e1 : '0'.val.toNat = 48 := by decide
      have e2 : '9'.val.toNat = 57 := by decide
      omega
  · rintro rfl; revert h; decide
  · rintro rfl; revert h; decide
  · simp only [stdKeyChar, Bool.or_eq_true] at h ⊢; exact Or.inl (Or.inl h)

theorem contains_eq_false {l : List Char} {a : Char} (h : a ∉ l) : l.contains a = false := by
  simpa using h

/-- keys made of upper-case letters and digits only -/
def Alnum (k : Str) : Prop := ∀ c ∈ k, (c.isUpper || c.isDigit) = true

theorem alnum_head (k : Str) (h : Alnum k) : k.head? ≠ some ' ' := by
  cases k with
  | nil => simp
  | cons c r => simpa using (alnum_facts c (h c (by simp))).2.1

theorem alnum_last (k : Str) (h : Alnum k) : k.getLast? ≠ some ' ' := by
  intro hl
  have := List.mem_of_getLast? hl
  exact (alnum_facts _ (h _ this)).2.1 rfl

theorem mkCard_short (k v : Str) (hk : k.length ≤ 8) (ha : Alnum k) (hv : (dbl v).length ≤ 68) :
    mkCard k (ffs2c v) =
      some ((k ++ blanks (8 - k.length) ++ ['=', ' ']) ++ '\'' :: (dbl v ++ blanks (8 - (dbl v).length)) ++ ['\'']) := by
  have hname : rstrip ((lstrip k).take (C16.flenKeyword - 1)) = k := by
    rw [lstrip_of_head k (alnum_head k ha), List.take_of_length_le (by simp [C16.flenKeyword]; omega),
      rstrip_of_getLast k (alnum_last k ha)]
  have hne : k.contains '=' = false := contains_eq_false fun hm => (alnum_facts _ (ha _ hm)).2.2.1 rfl
  have hall : k.all stdKeyChar = true := by
    rw [List.all_eq_true]; exact fun c hc => (alnum_facts c (ha c hc)).2.2.2
  have hlen : (k ++ blanks (8 - k.length) ++ ['=', ' ']).length = 10 := by
    simp only [List.length_append, length_blanks, List.length_cons, List.length_nil]; omega
  have ht := cardTail_eq (k ++ blanks (8 - k.length) ++ ['=', ' ']) v hv (by rw [hlen]; omega)
  rw [hlen] at ht
  rw [show min (8 - (dbl v).length) (78 - 10 - (dbl v).length) = 8 - (dbl v).length by omega] at ht
  rw [← ht]
  unfold mkCard
  simp only [hname, hne, Bool.false_eq_true, if_false, hk, decide_true, hall, Bool.and_self, if_true, cardTail,
    show ¬ 10 > 77 by omega]

/-- separator `ffmkky` puts between a HIERARCH name and the value: `" = "`, or `"= "` when the card would overflow -/
def hierSep (n d : Nat) : List Char := if 14 + n + max d 8 > 80 then ['=', ' '] else [' ', '=', ' ']

theorem mkCard_long (k v : Str) (hk : 9 ≤ k.length) (hk66 : k.length ≤ 66) (hfit : k.length + (dbl v).length ≤ 67)
    (hhead : k.head? ≠ some ' ') (hlast : k.getLast? ≠ some ' ') (heq : '=' ∉ k)
    (hh : hierPrefix.isPrefixOf k = false) :
    mkCard k (ffs2c v) =
      some ((hierPrefix ++ k ++ hierSep k.length (dbl v).length) ++
        '\'' :: (dbl v ++ blanks (min (8 - (dbl v).length) (67 - k.length - (dbl v).length))) ++ ['\'']) := by
  have hname : rstrip ((lstrip k).take (C16.flenKeyword - 1)) = k := by
    rw [lstrip_of_head k hhead, List.take_of_length_le (by simp [C16.flenKeyword]; omega), rstrip_of_getLast k hlast]
  have hne : k.contains '=' = false := contains_eq_false heq
  have hl := length_dbl v
  have hq : (ffs2c v).length = max (dbl v).length 8 + 2 := by
    rw [ffs2c_eq v (by omega)]
    simp only [List.length_cons, List.length_append, length_blanks, List.length_nil]; omega
  have hhl : (hierPrefix ++ k).length = 9 + k.length := by simp [hierPrefix]; omega
  obtain ⟨d, hdd⟩ : ∃ d, d = (dbl v).length := ⟨_, rfl⟩
  rw [← hdd] at hq hfit ⊢
  unfold mkCard
  simp only [hname, hne, Bool.false_eq_true, if_false, show ¬ k.length ≤ 8 by omega, decide_false, Bool.false_and, hh,
    C16.flenCard, show ¬ k.length + 11 > 81 - 1 by omega, Option.map_some, hq, hhl]
  by_cases hc : 14 + k.length + max d 8 > 80
  · have hc' : 9 + k.length + 3 + (max d 8 + 2) > 80 := by omega
    have hlen : (hierPrefix ++ k ++ ['=', ' ']).length = 9 + k.length + 2 := by simp [hierPrefix]; omega
    have ht := cardTail_eq (hierPrefix ++ k ++ ['=', ' ']) v (by omega) (by rw [hlen]; omega)
    rw [hlen, ← hdd, show min (8 - d) (78 - (9 + k.length + 2) - d) = min (8 - d) (67 - k.length - d) by omega] at ht
    simp only [hierSep, hc, hc', if_true, show ¬ 9 + k.length + 2 > 77 by omega, if_false]
    rw [← ht]
    simp only [cardTail, hq]
  · have hc' : ¬ 9 + k.length + 3 + (max d 8 + 2) > 80 := by omega
    have hlen : (hierPrefix ++ k ++ [' ', '=', ' ']).length = 9 + k.length + 3 := by simp [hierPrefix]; omega
    have ht := cardTail_eq (hierPrefix ++ k ++ [' ', '=', ' ']) v (by omega) (by rw [hlen]; omega)
    rw [hlen, ← hdd, show min (8 - d) (78 - (9 + k.length + 3) - d) = min (8 - d) (67 - k.length - d) by omega] at ht
    simp only [hierSep, hc, hc', if_false, show ¬ 9 + k.length + 3 > 77 by omega]
    rw [← ht]
    simp only [cardTail, hq]

/-! ### reading the card back -/

theorem ffpsvc_std (c : List Char) (h1 : hierPrefix.isPrefixOf c = false)
    (h2 : commentaryHeads.any (·.isPrefixOf c) = false) (hlen : 9 ≤ c.length) (h8 : (c.drop 8).take 2 = ['=', ' ']) :
    ffpsvc c = valTail (c.drop 10) := by
  unfold ffpsvc
  simp only [h1, Bool.false_eq_true, if_false, h2, Bool.or_false, decide_eq_true_eq, show ¬ c.length < 9 by omega, h8,
    beq_self_eq_true, if_true]
  rfl

theorem ffpsvc_hier (c : List Char) (h1 : hierPrefix.isPrefixOf c = true) (h2 : c.contains '=' = true) :
    ffpsvc c = valTail (c.drop ((c.takeWhile (· != '=')).length + 1)) := by
  unfold ffpsvc
  simp only [h1, h2, if_true]
  rfl

def endKey : Str := ['E', 'N', 'D']
def historyKey : Str := ['H', 'I', 'S', 'T', 'O', 'R', 'Y']
def continueKey : Str := ['C', 'O', 'N', 'T', 'I', 'N', 'U', 'E']
def commentKey : Str := ['C', 'O', 'M', 'M', 'E', 'N', 'T']

theorem prefix_take {h c : List Char} (hp : h.isPrefixOf c = true) : c.take h.length = h := by
  rw [List.isPrefixOf_iff_prefix, List.prefix_iff_eq_take] at hp
  exact hp.symm

theorem commentaryHeads_facts : ∀ h ∈ commentaryHeads, h.length = 8 ∧
    (rstrip h = commentKey ∨ rstrip h = historyKey ∨ rstrip h = endKey ∨ rstrip h = continueKey ∨ rstrip h = []) := by
  decide

/-- the first eight columns of a standard card determine its keyword -/
theorem std_head_key (k rest h : List Char) (hk : k.length ≤ 8) (hlast : k.getLast? ≠ some ' ') (hh : h.length = 8)
    (hp : h.isPrefixOf (k ++ blanks (8 - k.length) ++ rest) = true) : k = rstrip h := by
  have := prefix_take hp
  rw [hh, List.take_append_of_le_length (by rw [List.length_append, length_blanks]; omega),
    List.take_of_length_le (by rw [List.length_append, length_blanks]; omega)] at this
  rw [← this, rstrip_append_blanks k _ hlast]

end PsV.Aux
