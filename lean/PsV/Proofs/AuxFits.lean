import PsV.Proofs.AuxKeys
/-!
Helper lemmas for C16, FITS part: the card `write_fits_core` produces for an accepted entry
(`cardOf` = `ffs2c`, `ffmkky`, `ffprec`) in closed form, and what `read_fits_core` makes of it
(`entryOfCard` = `ffgrec`, `ffgknm`, `ffpsvc`, quote stripping), for standard and HIERARCH keys.
-/
namespace PsV.Aux
open PsV.Gen

/-! ### generic list lemmas -/

theorem takeWhile_append_stop {α} (p : α → Bool) (a : List α) (b : α) (r : List α)
    (ha : ∀ c ∈ a, p c = true) (hb : p b = false) : (a ++ b :: r).takeWhile p = a := by
  induction a with
  | nil => simp [hb]
  | cons x xs ih =>
    rw [List.cons_append, List.takeWhile_cons_of_pos (ha x (by simp)), ih (fun c hc => ha c (by simp [hc]))]

theorem dropWhile_blanks_append (n : Nat) (l : List Char) (h : l.head? ≠ some ' ') :
    (blanks n ++ l).dropWhile (· == ' ') = l := by
  induction n with
  | zero =>
    cases l with
    | nil => rfl
    | cons c r =>
      have : c ≠ ' ' := by simpa using h
      simp [blanks, this]
  | succ n ih =>
    show ((' ' :: blanks n) ++ l).dropWhile (· == ' ') = l
    rw [List.cons_append, List.dropWhile_cons_of_pos (by decide)]; exact ih

theorem lstrip_of_head (l : List Char) (h : l.head? ≠ some ' ') : lstrip l = l := by
  have := dropWhile_blanks_append 0 l h
  simpa [blanks, lstrip] using this

theorem reverse_blanks (n : Nat) : (blanks n).reverse = blanks n := by simp [blanks]

theorem rstrip_append_blanks (l : List Char) (n : Nat) (h : l.getLast? ≠ some ' ') : rstrip (l ++ blanks n) = l := by
  unfold rstrip
  rw [List.reverse_append, reverse_blanks, dropWhile_blanks_append n l.reverse (by simpa using h), List.reverse_reverse]

theorem rstrip_of_getLast (l : List Char) (h : l.getLast? ≠ some ' ') : rstrip l = l := by
  have := rstrip_append_blanks l 0 h
  simpa [blanks] using this

/-- printable ASCII: the characters `ffprec` leaves alone -/
def printable (c : Char) : Bool := decide (32 ≤ c.toNat) && decide (c.toNat ≤ 126)

theorem sanitize_printable (c : Char) (h : printable c = true) : sanitize c = c := by
  unfold printable at h
  simp only [Bool.and_eq_true, decide_eq_true_eq] at h
  unfold sanitize
  rw [if_neg]
  simp only [Bool.or_eq_true, decide_eq_true_eq]
  omega

theorem map_sanitize (l : List Char) (h : ∀ c ∈ l, printable c = true) : l.map sanitize = l := by
  induction l with
  | nil => rfl
  | cons a r ih =>
    rw [List.map_cons, sanitize_printable a (h a (by simp)), ih (fun c hc => h c (by simp [hc]))]

theorem printable_blanks (n : Nat) : ∀ c ∈ blanks n, printable c = true := by
  intro c hc
  have : c = ' ' := by simpa [blanks] using (List.eq_of_mem_replicate hc)
  subst this; decide

theorem printable_dbl (v : Str) (h : ∀ c ∈ v, printable c = true) : ∀ c ∈ dbl v, printable c = true := by
  induction v with
  | nil => intro c hc; simp [dbl] at hc
  | cons a r ih =>
    intro c hc
    have ha := h a (by simp)
    have ih' := ih (fun c hc => h c (by simp [hc]))
    by_cases hq : (a == '\'') = true
    · simp only [dbl, hq, if_true, List.mem_cons] at hc
      rcases hc with rfl | rfl | hc
      · exact ha
      · exact ha
      · exact ih' c hc
    · simp only [dbl, hq, Bool.false_eq_true, if_false, List.mem_cons] at hc
      rcases hc with rfl | hc
      · exact ha
      · exact ih' c hc

/-! ### reading a quoted value back -/

theorem undouble_dbl (w : Str) : undouble (dbl w) = w := by
  have := undouble_dbl_blanks w 0
  simpa [blanks] using this

/-- the part of `ffpsvc` after the value position has been found -/
def valTail (l : List Char) : List Char :=
  match lstrip l with
  | [] => []
  | '\'' :: rest => '\'' :: psvcQ (rest.length + 1) rest 1
  | '/' :: _ => []
  | other => other.takeWhile fun c => c != ' ' && c != '/'

/-- `ffpsvc` copies a quoted string (quotes still doubled, closing quote included) and the repaired reader
    strips the enclosing quotes and un-doubles: a string `w` whose doubled form fits comes back exactly. -/
theorem valTail_quoted (n : Nat) (w : Str) (h : (dbl w).length ≤ 68) :
    stripValue (valTail (blanks n ++ '\'' :: (dbl w ++ ['\'']))) = w := by
  have hwl : w.length ≤ (dbl w).length := by rw [length_dbl w]; omega
  unfold valTail
  simp only [lstrip]
  rw [dropWhile_blanks_append n _ (by simp)]
  simp only
  have hfuel : (dbl w ++ ['\'']).length + 1 = ((dbl w).length + 2 - w.length) + w.length := by
    rw [List.length_append]; simp only [List.length_singleton]; omega
  rw [hfuel, psvcQ_dbl _ _ _ _ (by omega) rfl]
  obtain ⟨f, hf⟩ : ∃ f, (dbl w).length + 2 - w.length = f + 1 := ⟨(dbl w).length + 1 - w.length, by omega⟩
  rw [hf, psvcQ_close f (1 + (dbl w).length) (by omega)]
  unfold stripValue
  simp only [List.length_cons, List.length_append, List.length_singleton]
  have hlast : ('\'' :: (dbl w ++ ['\''])).getLast? = some '\'' := by
    rw [← List.cons_append, List.getLast?_append]; simp
  simp only [hlast, show (dbl w).length + 1 + 1 ≥ 2 by omega, decide_true, Bool.and_self, beq_self_eq_true, if_true, List.dropLast_concat]
  first
    | exact undouble_dbl w
    | (rw [if_pos (by simp)]; exact undouble_dbl w)

/-! ### the card text in closed form -/

/-- the last step of `ffmkky`: append the value, cut at column 80, force a closing quote when it was cut -/
def cardTail (h : List Char) (namelen : Nat) (qv : List Char) : List Char :=
  if namelen + qv.length ≥ 80 then (h ++ qv.take (80 - namelen)).take 79 ++ ['\''] else h ++ qv.take (80 - namelen)

theorem take_blanks (m n : Nat) : (blanks n).take m = blanks (min m n) := by
  simp [blanks, List.take_replicate]

theorem length_blanks (n : Nat) : (blanks n).length = n := by simp [blanks]

/-- For a head of `h.length` columns and a value whose doubled form leaves room for the two quotes, the card is
    head, quote, doubled value, padding blanks, quote; the padding to 8 characters is cut short (never the value)
    when the card is full. -/
theorem cardTail_eq (h : List Char) (v : Str) (hd : (dbl v).length ≤ 68) (hfit : h.length + (dbl v).length ≤ 78) :
    cardTail h h.length (ffs2c v) =
      h ++ '\'' :: (dbl v ++ blanks (min (8 - (dbl v).length) (78 - h.length - (dbl v).length))) ++ ['\''] := by
  have hl := length_dbl v
  rw [ffs2c_eq v (by omega)]
  obtain ⟨d, hdd⟩ : ∃ d, d = (dbl v).length := ⟨_, rfl⟩
  rw [← hdd] at hd hfit ⊢
  have hqlen : ('\'' :: (dbl v ++ blanks (8 - d)) ++ ['\'']).length = max d 8 + 2 := by
    simp only [List.length_cons, List.length_append, length_blanks, List.length_nil, ← hdd]; omega
  unfold cardTail
  rw [hqlen]
  by_cases hc : h.length + (max d 8 + 2) ≥ 80
  · rw [if_pos hc]
    have hm : min (8 - d) (78 - h.length - d) = 78 - h.length - d := by omega
    rw [hm, List.take_append, List.take_of_length_le (show h.length ≤ 79 by omega), List.take_take,
      show min (79 - h.length) (80 - h.length) = (78 - h.length) + 1 by omega]
    rw [List.cons_append, List.take_succ_cons, List.take_append_of_le_length (by rw [List.length_append, length_blanks, ← hdd]; omega),
      List.take_append, List.take_of_length_le (show (dbl v).length ≤ 78 - h.length by omega), take_blanks, ← hdd,
      show min (78 - h.length - d) (8 - d) = 78 - h.length - d by omega]
  · rw [if_neg hc]
    have hm : min (8 - d) (78 - h.length - d) = 8 - d := by omega
    rw [hm, List.take_of_length_le (by rw [hqlen]; omega)]
    simp

theorem alnum_facts (c : Char) (h : (c.isUpper || c.isDigit) = true) :
    printable c = true ∧ c ≠ ' ' ∧ c ≠ '=' ∧ stdKeyChar c = true := by
  refine ⟨?_, ?_, ?_, ?_⟩
  · simp only [Char.isUpper, Char.isDigit, Bool.or_eq_true, Bool.and_eq_true, decide_eq_true_eq] at h
    simp only [printable, Char.toNat, Bool.and_eq_true, decide_eq_true_eq]
    rcases h with ⟨h1, h2⟩ | ⟨h1, h2⟩
    · have a := UInt32.le_iff_toNat_le.mp h1; have b := UInt32.le_iff_toNat_le.mp h2
      have e1 : 'A'.val.toNat = 65 := by decide
      have e2 : 'Z'.val.toNat = 90 := by decide
      omega
    · have a := UInt32.le_iff_toNat_le.mp h1; have b := UInt32.le_iff_toNat_le.mp h2
      have e1 : '0'.val.toNat = 48 := by decide
      have e2 : '9'.val.toNat = 57 := by decide
      omega
  · rintro rfl; revert h; decide
  · rintro rfl; revert h; decide
  · simp only [stdKeyChar, Bool.or_eq_true] at h ⊢; exact Or.inl (Or.inl h)

theorem contains_eq_false {l : List Char} {a : Char} (h : a ∉ l) : l.contains a = false := by
  simpa using h

/-- keys made of upper-case letters and digits only -/
def Alnum (k : Str) : Prop := ∀ c ∈ k, (c.isUpper || c.isDigit) = true

theorem alnum_head (k : Str) (h : Alnum k) : k.head? ≠ some ' ' := by
  cases k with
  | nil => simp
  | cons c r => simpa using (alnum_facts c (h c (by simp))).2.1

theorem alnum_last (k : Str) (h : Alnum k) : k.getLast? ≠ some ' ' := by
  intro hl
  have := List.mem_of_getLast? hl
  exact (alnum_facts _ (h _ this)).2.1 rfl

theorem mkCard_short (k v : Str) (hk : k.length ≤ 8) (ha : Alnum k) (hv : (dbl v).length ≤ 68) :
    mkCard k (ffs2c v) =
      some ((k ++ blanks (8 - k.length) ++ ['=', ' ']) ++ '\'' :: (dbl v ++ blanks (8 - (dbl v).length)) ++ ['\'']) := by
  have hname : rstrip ((lstrip k).take (C16.flenKeyword - 1)) = k := by
    rw [lstrip_of_head k (alnum_head k ha), List.take_of_length_le (by simp [C16.flenKeyword]; omega),
      rstrip_of_getLast k (alnum_last k ha)]
  have hne : k.contains '=' = false := contains_eq_false fun hm => (alnum_facts _ (ha _ hm)).2.2.1 rfl
  have hall : k.all stdKeyChar = true := by
    rw [List.all_eq_true]; exact fun c hc => (alnum_facts c (ha c hc)).2.2.2
  have hlen : (k ++ blanks (8 - k.length) ++ ['=', ' ']).length = 10 := by
    simp only [List.length_append, length_blanks, List.length_cons, List.length_nil]; omega
  have ht := cardTail_eq (k ++ blanks (8 - k.length) ++ ['=', ' ']) v hv (by rw [hlen]; omega)
  rw [hlen] at ht
  rw [show min (8 - (dbl v).length) (78 - 10 - (dbl v).length) = 8 - (dbl v).length by omega] at ht
  rw [← ht]
  unfold mkCard
  simp only [hname, hne, Bool.false_eq_true, if_false, hk, decide_true, hall, Bool.and_self, if_true, cardTail,
    show ¬ 10 > 77 by omega]

/-- separator `ffmkky` puts between a HIERARCH name and the value: `" = "`, or `"= "` when the card would overflow -/
def hierSep (n d : Nat) : List Char := if 14 + n + max d 8 > 80 then ['=', ' '] else [' ', '=', ' ']

theorem mkCard_long (k v : Str) (hk : 9 ≤ k.length) (hk66 : k.length ≤ 66) (hfit : k.length + (dbl v).length ≤ 67)
    (hhead : k.head? ≠ some ' ') (hlast : k.getLast? ≠ some ' ') (heq : '=' ∉ k)
    (hh : hierPrefix.isPrefixOf k = false) :
    mkCard k (ffs2c v) =
      some ((hierPrefix ++ k ++ hierSep k.length (dbl v).length) ++
        '\'' :: (dbl v ++ blanks (min (8 - (dbl v).length) (67 - k.length - (dbl v).length))) ++ ['\'']) := by
  have hname : rstrip ((lstrip k).take (C16.flenKeyword - 1)) = k := by
    rw [lstrip_of_head k hhead, List.take_of_length_le (by simp [C16.flenKeyword]; omega), rstrip_of_getLast k hlast]
  have hne : k.contains '=' = false := contains_eq_false heq
  have hl := length_dbl v
  have hq : (ffs2c v).length = max (dbl v).length 8 + 2 := by
    rw [ffs2c_eq v (by omega)]
    simp only [List.length_cons, List.length_append, length_blanks, List.length_nil]; omega
  have hhl : (hierPrefix ++ k).length = 9 + k.length := by simp [hierPrefix]; omega
  obtain ⟨d, hdd⟩ : ∃ d, d = (dbl v).length := ⟨_, rfl⟩
  rw [← hdd] at hq hfit ⊢
  unfold mkCard
  simp only [hname, hne, Bool.false_eq_true, if_false, show ¬ k.length ≤ 8 by omega, decide_false, Bool.false_and, hh,
    C16.flenCard, show ¬ k.length + 11 > 81 - 1 by omega, Option.map_some, hq, hhl]
  by_cases hc : 14 + k.length + max d 8 > 80
  · have hc' : 9 + k.length + 3 + (max d 8 + 2) > 80 := by omega
    have hlen : (hierPrefix ++ k ++ ['=', ' ']).length = 9 + k.length + 2 := by simp [hierPrefix]; omega
    have ht := cardTail_eq (hierPrefix ++ k ++ ['=', ' ']) v (by omega) (by rw [hlen]; omega)
    rw [hlen, ← hdd, show min (8 - d) (78 - (9 + k.length + 2) - d) = min (8 - d) (67 - k.length - d) by omega] at ht
    simp only [hierSep, hc, hc', if_true, show ¬ 9 + k.length + 2 > 77 by omega, if_false]
    rw [← ht]
    simp only [cardTail, hq]
  · have hc' : ¬ 9 + k.length + 3 + (max d 8 + 2) > 80 := by omega
    have hlen : (hierPrefix ++ k ++ [' ', '=', ' ']).length = 9 + k.length + 3 := by simp [hierPrefix]; omega
    have ht := cardTail_eq (hierPrefix ++ k ++ [' ', '=', ' ']) v (by omega) (by rw [hlen]; omega)
    rw [hlen, ← hdd, show min (8 - d) (78 - (9 + k.length + 3) - d) = min (8 - d) (67 - k.length - d) by omega] at ht
    simp only [hierSep, hc, hc', if_false, show ¬ 9 + k.length + 3 > 77 by omega]
    rw [← ht]
    simp only [cardTail, hq]

/-! ### reading the card back -/

theorem ffpsvc_std (c : List Char) (h1 : hierPrefix.isPrefixOf c = false)
    (h2 : commentaryHeads.any (·.isPrefixOf c) = false) (hlen : 9 ≤ c.length) (h8 : (c.drop 8).take 2 = ['=', ' ']) :
    ffpsvc c = valTail (c.drop 10) := by
  unfold ffpsvc
  simp only [h1, Bool.false_eq_true, if_false, h2, Bool.or_false, decide_eq_true_eq, show ¬ c.length < 9 by omega, h8,
    beq_self_eq_true, if_true]
  rfl

theorem ffpsvc_hier (c : List Char) (h1 : hierPrefix.isPrefixOf c = true) (h2 : c.contains '=' = true) :
    ffpsvc c = valTail (c.drop ((c.takeWhile (· != '=')).length + 1)) := by
  unfold ffpsvc
  simp only [h1, h2, if_true]
  rfl

def endKey : Str := ['E', 'N', 'D']
def historyKey : Str := ['H', 'I', 'S', 'T', 'O', 'R', 'Y']
def continueKey : Str := ['C', 'O', 'N', 'T', 'I', 'N', 'U', 'E']
def extnameKey : Str := ['E', 'X', 'T', 'N', 'A', 'M', 'E']
def hdunameKey : Str := ['H', 'D', 'U', 'N', 'A', 'M', 'E']
def pcountKey : Str := ['P', 'C', 'O', 'U', 'N', 'T']
def gcountKey : Str := ['G', 'C', 'O', 'U', 'N', 'T']
def commentKey : Str := ['C', 'O', 'M', 'M', 'E', 'N', 'T']

theorem prefix_take {h c : List Char} (hp : h.isPrefixOf c = true) : c.take h.length = h := by
  rw [List.isPrefixOf_iff_prefix, List.prefix_iff_eq_take] at hp
  exact hp.symm

theorem commentaryHeads_facts : ∀ h ∈ commentaryHeads, h.length = 8 ∧
    (rstrip h = commentKey ∨ rstrip h = historyKey ∨ rstrip h = endKey ∨ rstrip h = continueKey ∨ rstrip h = []) := by
  decide

/-- the first eight columns of a standard card determine its keyword -/
theorem std_head_key (k rest h : List Char) (hk : k.length ≤ 8) (hlast : k.getLast? ≠ some ' ') (hh : h.length = 8)
    (hp : h.isPrefixOf (k ++ blanks (8 - k.length) ++ rest) = true) : k = rstrip h := by
  have := prefix_take hp
  rw [hh, List.take_append_of_le_length (by rw [List.length_append, length_blanks]; omega),
    List.take_of_length_le (by rw [List.length_append, length_blanks]; omega)] at this
  rw [← this, rstrip_append_blanks k _ hlast]

/-- a quoted FITS string: opening quote, the string with every quote doubled, closing quote -/
def quoted (w : Str) : List Char := '\'' :: (dbl w ++ ['\''])

theorem quoted_last (l : List Char) (w : Str) : (l ++ quoted w).getLast? ≠ some ' ' := by
  have : l ++ quoted w = (l ++ '\'' :: dbl w) ++ ['\''] := by simp [quoted]
  rw [this, List.getLast?_concat]; decide

theorem rstrip_card (h : List Char) (w : Str) (m : Nat) : rstrip (h ++ quoted w ++ blanks m) = h ++ quoted w :=
  rstrip_append_blanks _ m (quoted_last h w)

theorem std_take8 (k rest : List Char) (hk : k.length ≤ 8) :
    (k ++ blanks (8 - k.length) ++ rest).take 8 = k ++ blanks (8 - k.length) := by
  rw [List.take_append_of_le_length (by rw [List.length_append, length_blanks]; omega),
    List.take_of_length_le (by rw [List.length_append, length_blanks]; omega)]

theorem blanks_eq_stop (j : Nat) (r : List Char) :
    ∃ b r', blanks j ++ '=' :: r = b :: r' ∧ (b != ' ' && b != '=') = false := by
  cases j with
  | zero => exact ⟨'=', r, rfl, by decide⟩
  | succ j => exact ⟨' ', blanks j ++ '=' :: r, rfl, by decide⟩

theorem read_std (k w : Str) (hk : k.length ≤ 8) (hne : k ≠ []) (ha : Alnum k) (hres : reserved k = false)
    (hE : k ≠ endKey) (hH : k ≠ historyKey) (hC : k ≠ continueKey) (hw : (dbl w).length ≤ 68) :
    ffgknm (k ++ blanks (8 - k.length) ++ '=' :: ' ' :: quoted w) = k ∧
    stripValue (ffpsvc (k ++ blanks (8 - k.length) ++ '=' :: ' ' :: quoted w)) = w ∧
    isEndCard (k ++ blanks (8 - k.length) ++ '=' :: ' ' :: quoted w) = false := by
  have hlast := alnum_last k ha
  have hk8 : (k ++ blanks (8 - k.length)).length = 8 := by rw [List.length_append, length_blanks]; omega
  obtain ⟨c, hc⟩ : ∃ c, c = k ++ blanks (8 - k.length) ++ '=' :: ' ' :: quoted w := ⟨_, rfl⟩
  have hhier : hierPrefix.isPrefixOf c = false := by
    cases hb : hierPrefix.isPrefixOf c with
    | false => rfl
    | true =>
      exfalso
      have := prefix_take hb
      rw [hc, show hierPrefix.length = 8 + 1 by decide, List.take_append, hk8, List.take_of_length_le (by omega)] at this
      simp only [Nat.add_sub_cancel_left, List.take_succ_cons, List.take_zero] at this
      have h2 := congrArg List.getLast? this
      rw [List.getLast?_concat] at h2
      revert h2; decide
  have hcomm : commentaryHeads.any (·.isPrefixOf c) = false := by
    rw [List.any_eq_false]
    intro h hm hp
    obtain ⟨hl, hr⟩ := commentaryHeads_facts h hm
    rw [hc] at hp
    have hkk := std_head_key k _ h hk hlast hl hp
    rcases hr with hr | hr | hr | hr | hr
    · rw [hr] at hkk; rw [hkk] at hres; revert hres; decide
    · exact hH (hkk.trans hr)
    · exact hE (hkk.trans hr)
    · exact hC (hkk.trans hr)
    · exact hne (hkk.trans hr)
  refine ⟨?_, ?_, ?_⟩
  · rw [← hc]
    unfold ffgknm
    simp only [hhier, Bool.false_eq_true, if_false]
    obtain ⟨b, r', hbr, hb⟩ := blanks_eq_stop (8 - k.length) (' ' :: quoted w)
    rw [hc, List.append_assoc, hbr, takeWhile_append_stop _ k b r' _ hb, List.take_of_length_le (by simp [C16.flenKeyword]; omega)]
    intro x hx
    have := alnum_facts x (ha x hx)
    simp [this.2.1, this.2.2.1]
  · rw [← hc, ffpsvc_std c hhier hcomm (by rw [hc, List.length_append, hk8]; simp only [List.length_cons]; omega)]
    · have : c.drop 10 = quoted w := by
        rw [hc, List.drop_append, hk8, List.drop_of_length_le (by omega)]; rfl
      rw [this]
      exact valTail_quoted 0 w hw
    · rw [hc, List.drop_append, hk8, List.drop_of_length_le (by omega)]; rfl
  · unfold isEndCard
    rw [std_take8 k _ hk]
    cases hb : (k ++ blanks (8 - k.length) == endHead) with
    | false => rfl
    | true =>
      exfalso
      have := eq_of_beq hb
      have h2 := congrArg rstrip this
      rw [rstrip_append_blanks k _ hlast] at h2
      exact hE (h2.trans (by decide))

theorem ne_eq_blanks (j : Nat) : ∀ x ∈ blanks j, (x != '=') = true := by
  intro x hx
  have : x = ' ' := by simpa [blanks] using (List.eq_of_mem_replicate hx)
  subst this; decide

theorem read_hier (k w : Str) (j : Nat) (hne : k ≠ []) (hhead : k.head? ≠ some ' ') (hlast : k.getLast? ≠ some ' ')
    (heq : '=' ∉ k) (hw : (dbl w).length ≤ 68) :
    ffgknm (hierPrefix ++ (k ++ blanks j) ++ '=' :: ' ' :: quoted w) = k ∧
    stripValue (ffpsvc (hierPrefix ++ (k ++ blanks j) ++ '=' :: ' ' :: quoted w)) = w ∧
    isEndCard (hierPrefix ++ (k ++ blanks j) ++ '=' :: ' ' :: quoted w) = false := by
  obtain ⟨c, hc⟩ : ∃ c, c = hierPrefix ++ (k ++ blanks j) ++ '=' :: ' ' :: quoted w := ⟨_, rfl⟩
  have hpre : hierPrefix.isPrefixOf c = true := by
    rw [List.isPrefixOf_iff_prefix, hc, List.append_assoc]; exact List.prefix_append _ _
  have hcont : c.contains '=' = true := by
    rw [hc]; simp
  have hkne : ∀ x ∈ k, (x != '=') = true := by
    intro x hx; simp only [bne_iff_ne, ne_eq]; rintro rfl; exact heq hx
  have hall : ∀ x ∈ hierPrefix ++ (k ++ blanks j), (x != '=') = true := by
    intro x hx
    rcases List.mem_append.mp hx with h | h
    · exact (show ∀ y ∈ hierPrefix, (y != '=') = true by decide) x h
    · rcases List.mem_append.mp h with h | h
      · exact hkne x h
      · exact ne_eq_blanks j x h
  rw [← hc]
  refine ⟨?_, ?_, ?_⟩
  · unfold ffgknm
    simp only [hpre, hcont, if_true]
    have hd : c.drop 9 = (k ++ blanks j) ++ '=' :: ' ' :: quoted w := by
      rw [hc, List.append_assoc, List.drop_left' (by decide)]
    rw [hd, takeWhile_append_stop _ (k ++ blanks j) '=' _ (fun x hx => hall x (List.mem_append_right _ hx)) (by decide)]
    have hh : (k ++ blanks j).head? ≠ some ' ' := by
      cases k with
      | nil => exact absurd rfl hne
      | cons a r => simpa using hhead
    rw [lstrip_of_head _ hh, rstrip_append_blanks k j hlast]
  · rw [ffpsvc_hier c hpre hcont]
    have ht : c.takeWhile (· != '=') = hierPrefix ++ (k ++ blanks j) := by
      rw [hc]; exact takeWhile_append_stop _ _ '=' _ hall (by decide)
    rw [ht]
    have hd : c.drop ((hierPrefix ++ (k ++ blanks j)).length + 1) = blanks 1 ++ quoted w := by
      rw [hc, show hierPrefix ++ (k ++ blanks j) ++ '=' :: ' ' :: quoted w
        = (hierPrefix ++ (k ++ blanks j) ++ ['=']) ++ (blanks 1 ++ quoted w) by simp [blanks]]
      rw [List.drop_left' (by simp; omega)]
    rw [hd]
    exact valTail_quoted 1 w hw
  · rw [hc]; simp [isEndCard, hierPrefix, endHead]

/-! ### what `write_key` accepts, in plain terms -/

/-- keys which cfitsio stores verbatim (the complement is what fixes/C16-5.diff makes `write_key` refuse: empty or blank key,
    leading/trailing blank, explicit `HIERARCH ` prefix, END / HISTORY / CONTINUE, non-printable characters) -/
structure PlainKey (k : Str) : Prop where
  ne : k ≠ []
  head : k.head? ≠ some ' '
  last : k.getLast? ≠ some ' '
  noHier : hierPrefix.isPrefixOf k = false
  notEnd : k ≠ endKey
  notHistory : k ≠ historyKey
  notContinue : k ≠ continueKey
  print : ∀ c ∈ k, printable c = true

/-- values which `ffprec` does not alter -/
def PlainVal (v : Str) : Prop := ∀ c ∈ v, printable c = true

instance (v : Str) : Decidable (PlainVal v) := by unfold PlainVal; infer_instance

theorem outOfRange_key (c : Char) : outOfRange C16.keyCharRange c = !printable c := by
  simp only [outOfRange, C16.keyCharRange, printable]
  by_cases h1 : c.toNat < 32 <;> by_cases h2 : c.toNat > 126 <;> simp [h1, h2] <;> omega

theorem outOfRange_value (c : Char) : outOfRange C16.valueCharRange c = !printable c := by
  simp only [outOfRange, C16.valueCharRange, printable]
  by_cases h1 : c.toNat < 32 <;> by_cases h2 : c.toNat > 126 <;> simp [h1, h2] <;> omega

theorem longKeyScan_none_iff (k : Str) :
    longKeyScan k = none ↔ (∀ c ∈ k, printable c = true) ∧ '=' ∉ k ∧ ∀ c ∈ k, c.isLower = false := by
  induction k with
  | nil => simp [longKeyScan]
  | cons c r ih =>
    unfold longKeyScan
    rw [outOfRange_key]
    by_cases h0 : printable c = true
    · simp only [h0, Bool.not_true, Bool.false_eq_true, if_false]
      by_cases h1 : c = '='
      · subst h1; simp
      · have h1' : (c == '=') = false := by simpa using h1
        have h1'' : ¬ '=' = c := fun x => h1 x.symm
        by_cases h2 : c.isLower = true
        · simp [h1', h2]
        · have h2' : c.isLower = false := by simpa using h2
          simp only [h1', Bool.false_eq_true, if_false, h2', ih, List.mem_cons, not_or, h1'', not_false_eq_true, true_and,
            forall_eq_or_imp, h0]
    · have h0' : printable c = false := by simpa using h0
      simp [h0']

theorem any_outOfRange_value (v : Str) : v.any (outOfRange C16.valueCharRange) = false ↔ PlainVal v := by
  rw [List.any_eq_false]
  unfold PlainVal
  constructor
  · intro h c hc; have := h c hc; rw [outOfRange_value] at this; simpa using this
  · intro h c hc; rw [outOfRange_value, h c hc]; simp

theorem edgeBlank_false_iff (k : Str) :
    edgeBlank k = false ↔ k ≠ [] ∧ k.head? ≠ some ' ' ∧ k.getLast? ≠ some ' ' := by
  unfold edgeBlank
  cases k with
  | nil => simp
  | cons a r => simp

theorem strncmpEq_prefix (lit key : List Char) (hl : '\x00' ∉ lit) :
    strncmpEq lit.length (cstr lit) (cstr key) = lit.isPrefixOf key := by
  induction lit generalizing key with
  | nil => simp [strncmpEq]
  | cons a r ih =>
    have ha : a ≠ '\x00' := fun x => hl (by simp [x])
    have hr : '\x00' ∉ r := fun x => hl (by simp [x])
    cases key with
    | nil =>
      simp only [cstr, List.cons_append, List.nil_append, List.length_cons, strncmpEq, ne_eq, ha, not_false_eq_true, if_true,
        List.isPrefixOf]
    | cons b s =>
      simp only [cstr, List.cons_append, List.length_cons, strncmpEq, List.isPrefixOf]
      by_cases hab : a = b
      · subst hab
        simp only [ne_eq, not_true_eq_false, if_false, ha, beq_self_eq_true, Bool.true_and]
        exact ih s hr
      · simp [hab]

theorem writeReserved_table : C16.writeReservedPrefixes = [(hierPrefix, 9)] ∧
    C16.writeReservedExact = [endKey, historyKey, continueKey, extnameKey, hdunameKey, pcountKey, gcountKey] := by decide

theorem writeReserved_false_iff (k : Str) :
    writeReserved k = false ↔ hierPrefix.isPrefixOf k = false ∧ k ≠ endKey ∧ k ≠ historyKey ∧ k ≠ continueKey ∧
      k ≠ extnameKey ∧ k ≠ hdunameKey ∧ k ≠ pcountKey ∧ k ≠ gcountKey := by
  unfold writeReserved
  rw [writeReserved_table.1, writeReserved_table.2]
  have h9 : strncmpEq 9 (cstr hierPrefix) (cstr k) = hierPrefix.isPrefixOf k :=
    strncmpEq_prefix hierPrefix k (by decide)
  simp only [List.any_cons, List.any_nil, Bool.or_false, h9, Bool.or_eq_false_iff, beq_eq_false_iff_ne, ne_eq]
  constructor
  · rintro ⟨h1, h2, h3, h4, h5, h6, h7, h8⟩
    exact ⟨h1, fun x => h2 x.symm, fun x => h3 x.symm, fun x => h4 x.symm, fun x => h5 x.symm, fun x => h6 x.symm,
      fun x => h7 x.symm, fun x => h8 x.symm⟩
  · rintro ⟨h1, h2, h3, h4, h5, h6, h7, h8⟩
    exact ⟨h1, fun x => h2 x.symm, fun x => h3 x.symm, fun x => h4 x.symm, fun x => h5 x.symm, fun x => h6 x.symm,
      fun x => h7 x.symm, fun x => h8 x.symm⟩

theorem badShortChar_false_iff (c : Char) : badShortChar c = false ↔ (c.isUpper || c.isDigit) = true := by
  unfold badShortChar
  constructor
  · intro h
    simp only [Bool.or_eq_false_iff, Bool.not_eq_false'] at h
    exact h.1.1
  · intro h
    have hd : c ≠ '-' := by rintro rfl; revert h; decide
    have hu : c ≠ '_' := by rintro rfl; revert h; decide
    simp [h, hd, hu]

theorem any_badShortChar_false_iff (k : Str) : k.any badShortChar = false ↔ Alnum k := by
  rw [List.any_eq_false]
  unfold Alnum
  constructor
  · intro h c hc; exact (badShortChar_false_iff c).mp (by simpa using h c hc)
  · intro h c hc; simpa using (badShortChar_false_iff c).mpr (h c hc)

/-- the syntax and length tests of `write_key` on the key alone: an exception, or `maxdatalen` -/
def keyCheck (key : Str) : Sum WErr Nat :=
  if key.length + 1 ≤ C16.shortKeylenMax then
    if key.any badShortChar then .inl .shortChar else .inr C16.shortMaxData
  else
    match longKeyScan key with
    | some e => .inl e
    | none =>
      match C16.longKeyGuard with
      | some (b, a) => if b + (key.length + 1) - 1 ≥ a then .inl .keyTooLong else .inr (longMaxData (key.length + 1))
      | none => .inr (longMaxData (key.length + 1))

theorem validate_eq (key val : Str) :
    validate key val =
      if reserved key then some .reserved else
      if C16.edgeBlankCheck && edgeBlank key then some .edgeBlank else
      if writeReserved key then some .reserved else
      match keyCheck key with
      | .inl e => some e
      | .inr maxdatalen =>
        if val.any (outOfRange C16.valueCharRange) then some .valueNonPrintable else
        if val.length + countQuotes val > maxdatalen then some .valueTooLong else none := rfl

theorem keyCheck_short (key : Str) (h : key.length ≤ 8) :
    keyCheck key = if key.any badShortChar then .inl .shortChar else .inr 68 := by
  unfold keyCheck
  simp only [C16.shortKeylenMax, C16.shortMaxData, show key.length + 1 ≤ 9 by omega, if_true]

theorem keyCheck_long (key : Str) (h : 9 ≤ key.length) :
    keyCheck key = match longKeyScan key with
      | some e => .inl e
      | none => if 67 ≤ key.length then .inl .keyTooLong else .inr (67 - key.length) := by
  unfold keyCheck
  simp only [C16.shortKeylenMax, C16.longKeyGuard, longMaxData, C16.cardLen, C16.hierOverhead, sizeMod,
    show ¬ key.length + 1 ≤ 9 by omega, if_false]
  cases longKeyScan key with
  | some e => rfl
  | none =>
    simp only
    by_cases hg : 67 ≤ key.length
    · rw [if_pos hg, if_pos (by omega)]
    · rw [if_neg hg, if_neg (by omega)]
      congr 1; omega

/-- **what `write_key` accepts** (repaired code, constants and tables of the source): the key is not reserved,
    not empty, has no blank at either end, does not start with `HIERARCH ` and is not END / HISTORY / CONTINUE; a
    key of at most 8 characters consists of upper-case letters and digits and the value, every quote counted
    twice, has at most 68 characters; a longer key is printable ASCII without `=` and lower-case letters, has at
    most 66 characters, and key and value (quotes counted twice) together have at most 67 characters; the value
    is printable ASCII. -/
theorem validate_none_iff (key val : Str) :
    validate key val = none ↔
      reserved key = false ∧ edgeBlank key = false ∧ writeReserved key = false ∧
      (key.length ≤ 8 → Alnum key ∧ val.length + countQuotes val ≤ 68) ∧
      (9 ≤ key.length → ((∀ c ∈ key, printable c = true) ∧ '=' ∉ key ∧ ∀ c ∈ key, c.isLower = false) ∧
        key.length ≤ 66 ∧ key.length + (val.length + countQuotes val) ≤ 67) ∧
      PlainVal val := by
  rw [validate_eq]
  by_cases hr : reserved key = true
  · simp [hr]
  have hr' : reserved key = false := by simpa using hr
  by_cases he : edgeBlank key = true
  · simp [hr', he, C16.edgeBlankCheck]
  have he' : edgeBlank key = false := by simpa using he
  by_cases hw : writeReserved key = true
  · simp [hr', he', hw]
  have hw' : writeReserved key = false := by simpa using hw
  simp only [hr', he', hw', Bool.false_eq_true, if_false, Bool.and_false, true_and]
  rw [← any_outOfRange_value]
  by_cases hlen : key.length ≤ 8
  · have hn9 : ¬ 9 ≤ key.length := by omega
    rw [keyCheck_short key hlen, ← any_badShortChar_false_iff]
    simp only [hlen, hn9, false_implies, true_and, true_implies]
    by_cases hb : key.any badShortChar = true
    · simp [hb]
    have hb' : key.any badShortChar = false := by simpa using hb
    simp only [hb', Bool.false_eq_true, if_false, true_and]
    by_cases hp : val.any (outOfRange C16.valueCharRange) = true
    · simp [hp]
    have hp' : val.any (outOfRange C16.valueCharRange) = false := by simpa using hp
    simp only [hp', Bool.false_eq_true, if_false, and_true]
    by_cases hv : val.length + countQuotes val > 68
    · simp only [hv, if_true]; constructor
      · intro h; cases h
      · intro h; omega
    · simp only [hv, if_false, true_iff]; omega
  · have hn9 : 9 ≤ key.length := by omega
    rw [keyCheck_long key hn9, ← longKeyScan_none_iff]
    simp only [hlen, hn9, false_implies, true_and, true_implies]
    cases hs : longKeyScan key with
    | some e => simp
    | none =>
      simp only [true_and]
      by_cases hg : 67 ≤ key.length
      · simp only [hg, if_true]; constructor
        · intro h; cases h
        · intro h; omega
      simp only [hg, if_false]
      by_cases hp : val.any (outOfRange C16.valueCharRange) = true
      · simp [hp]
      have hp' : val.any (outOfRange C16.valueCharRange) = false := by simpa using hp
      simp only [hp', Bool.false_eq_true, if_false, and_true]
      by_cases hv : val.length + countQuotes val > 67 - key.length
      · simp only [hv, if_true]; constructor
        · intro h; cases h
        · intro h; omega
      · simp only [hv, if_false, true_iff]; omega

/-- an accepted key is one cfitsio stores verbatim, an accepted value one `ffprec` does not alter -/
theorem validate_plain (key val : Str) (h : validate key val = none) : PlainKey key ∧ PlainVal val := by
  obtain ⟨_, he, hw, hshort, hlong, hv⟩ := (validate_none_iff key val).mp h
  obtain ⟨h1, h2, h3⟩ := (edgeBlank_false_iff key).mp he
  obtain ⟨h4, h5, h6, h7, _, _, _, _⟩ := (writeReserved_false_iff key).mp hw
  refine ⟨⟨h1, h2, h3, h4, h5, h6, h7, ?_⟩, hv⟩
  by_cases hlen : key.length ≤ 8
  · exact fun c hc => (alnum_facts c ((hshort hlen).1 c hc)).1
  · exact (hlong (by omega)).1.1

/-! ### one accepted entry through `write_fits_core` / `read_fits_core` -/

/-- number of blanks a FITS round trip appends to the value `v` stored under key `k` -/
def padOf (k v : Str) : Nat :=
  if k.length ≤ 8 then 8 - (v.length + countQuotes v)
  else min (8 - (v.length + countQuotes v)) (67 - k.length - (v.length + countQuotes v))

theorem padOf_le (k v : Str) : padOf k v ≤ 8 := by unfold padOf; split <;> omega

theorem printable_quoted (h : List Char) (w : Str) (m : Nat) (hh : ∀ c ∈ h, printable c = true)
    (hw : ∀ c ∈ w, printable c = true) : ∀ c ∈ h ++ quoted w ++ blanks m, printable c = true := by
  intro c hc
  rcases List.mem_append.mp hc with hc | hc
  · rcases List.mem_append.mp hc with hc | hc
    · exact hh c hc
    · unfold quoted at hc
      rcases List.mem_cons.mp hc with rfl | hc
      · decide
      · rcases List.mem_append.mp hc with hc | hc
        · exact printable_dbl w hw c hc
        · have : c = '\'' := by simpa using hc
          subst this; decide
  · exact printable_blanks m c hc

theorem length_dbl_pad (v : Str) (p : Nat) : (dbl (v ++ blanks p)).length = (dbl v).length + p := by
  rw [dbl_append, dbl_blanks, List.length_append, length_blanks]

/-- the card of an entry, given the (unpadded) text `ffmkky` produced, and what the reader makes of it -/
theorem entry_of_text (k v w : Str) (h : List Char) (hmk : mkCard k (ffs2c v) = some (h ++ quoted w))
    (hh : ∀ c ∈ h, printable c = true) (hw : ∀ c ∈ w, printable c = true) (hres : reserved k = false)
    (hread : ffgknm (h ++ quoted w) = k ∧ stripValue (ffpsvc (h ++ quoted w)) = w ∧ isEndCard (h ++ quoted w) = false)
    (hl : 8 ≤ h.length) (hfit : h.length + (dbl w).length ≤ 78) :
    ∃ card, cardOf (k, v) = some card ∧ card.length = 80 ∧ isEndCard card = false ∧ entryOfCard card = some (k, w) := by
  refine ⟨h ++ quoted w ++ blanks (80 - (h ++ quoted w).length), ?_, ?_, ?_, ?_⟩
  · unfold cardOf
    simp only [hmk, Option.map_some]
    rw [map_sanitize _ (printable_quoted h w _ hh hw)]
  · simp only [List.length_append, length_blanks, quoted, List.length_cons, List.length_nil]; omega
  · have := hread.2.2
    unfold isEndCard at this ⊢
    rw [List.append_assoc, List.take_append_of_le_length hl]
    rw [List.take_append_of_le_length hl] at this
    exact this
  · unfold entryOfCard
    simp only [rstrip_card, hread.1, hres, Bool.false_eq_true, if_false, hread.2.1]

theorem entry_survives (k v : Str) (hval : validate k v = none) :
    ∃ card, cardOf (k, v) = some card ∧ card.length = 80 ∧ isEndCard card = false ∧
      entryOfCard card = some (k, v ++ blanks (padOf k v)) := by
  obtain ⟨hk, hv⟩ := validate_plain k v hval
  obtain ⟨hres, _, _, hshort, hlong, _⟩ := (validate_none_iff k v).mp hval
  have hl := length_dbl v
  have hwp : ∀ p, ∀ c ∈ v ++ blanks p, printable c = true := by
    intro p c hc
    rcases List.mem_append.mp hc with hc | hc
    · exact hv c hc
    · exact printable_blanks p c hc
  by_cases hlen : k.length ≤ 8
  · obtain ⟨ha, hd⟩ := hshort hlen
    have hp : padOf k v = 8 - (dbl v).length := by unfold padOf; rw [if_pos hlen, hl]
    rw [hp]
    have hwl : (dbl (v ++ blanks (8 - (dbl v).length))).length ≤ 68 := by rw [length_dbl_pad]; omega
    refine entry_of_text k v _ (k ++ blanks (8 - k.length) ++ ['=', ' ']) ?_ ?_ (hwp _) hres ?_ ?_ ?_
    · rw [mkCard_short k v hlen ha (by omega)]
      simp [quoted, dbl_append, dbl_blanks]
    · intro c hc
      rcases List.mem_append.mp hc with hc | hc
      · rcases List.mem_append.mp hc with hc | hc
        · exact hk.print c hc
        · exact printable_blanks _ c hc
      · exact (show ∀ y ∈ ['=', ' '], printable y = true by decide) c hc
    · have := read_std k (v ++ blanks (8 - (dbl v).length)) hlen hk.ne ha hres hk.notEnd hk.notHistory hk.notContinue hwl
      simpa [List.append_assoc] using this
    · simp only [List.length_append, length_blanks, List.length_cons, List.length_nil]; omega
    · rw [length_dbl_pad]
      simp only [List.length_append, length_blanks, List.length_cons, List.length_nil]; omega
  · have h9 : 9 ≤ k.length := by omega
    obtain ⟨⟨_, heq, _⟩, h66, hfit⟩ := hlong h9
    have hp : padOf k v = min (8 - (dbl v).length) (67 - k.length - (dbl v).length) := by
      unfold padOf; rw [if_neg hlen, hl]
    rw [hp]
    obtain ⟨p, hpp⟩ : ∃ p, p = min (8 - (dbl v).length) (67 - k.length - (dbl v).length) := ⟨_, rfl⟩
    rw [← hpp]
    have hwl : (dbl (v ++ blanks p)).length ≤ 68 := by rw [length_dbl_pad]; omega
    obtain ⟨j, hj, hjle⟩ : ∃ j, hierSep k.length (dbl v).length = blanks j ++ ['=', ' '] ∧
        (j = 0 ∨ (j = 1 ∧ 14 + k.length + max (dbl v).length 8 ≤ 80)) := by
      unfold hierSep; split
      · exact ⟨0, rfl, Or.inl rfl⟩
      · exact ⟨1, rfl, Or.inr ⟨rfl, by omega⟩⟩
    refine entry_of_text k v _ (hierPrefix ++ (k ++ blanks j) ++ ['=', ' ']) ?_ ?_ (hwp _) hres ?_ ?_ ?_
    · rw [mkCard_long k v h9 h66 (by omega) hk.head hk.last heq hk.noHier, hj, ← hpp]
      simp [quoted, dbl_append, dbl_blanks]
    · intro c hc
      rcases List.mem_append.mp hc with hc | hc
      · rcases List.mem_append.mp hc with hc | hc
        · exact (show ∀ y ∈ hierPrefix, printable y = true by decide) c hc
        · rcases List.mem_append.mp hc with hc | hc
          · exact hk.print c hc
          · exact printable_blanks _ c hc
      · exact (show ∀ y ∈ ['=', ' '], printable y = true by decide) c hc
    · have := read_hier k (v ++ blanks p) j hk.ne hk.head hk.last heq hwl
      simpa [List.append_assoc] using this
    · simp only [List.length_append, length_blanks, List.length_cons, List.length_nil, hierPrefix]; omega
    · rw [length_dbl_pad]
      simp only [List.length_append, length_blanks, List.length_cons, List.length_nil, hierPrefix]; omega

/-! ### whole stores -/

/-- every entry was accepted by `write_key` -/
def Accepted (st : Store) : Prop := ∀ e ∈ st, validate e.1 e.2 = none

/-- the store with every value padded as a FITS round trip pads it -/
def padStore (st : Store) : Store := st.map fun e => (e.1, e.2 ++ blanks (padOf e.1 e.2))

theorem untilEnd_id (cards : List (List Char)) (h : ∀ c ∈ cards, isEndCard c = false) : untilEnd cards = cards := by
  induction cards with
  | nil => rfl
  | cons c r ih =>
    simp only [untilEnd, h c (by simp), Bool.false_eq_true, if_false]
    rw [ih (fun x hx => h x (by simp [hx]))]

theorem cards_of_accepted (st : Store) (h : Accepted st) :
    ∃ cards, st.mapM cardOf = some cards ∧ (∀ c ∈ cards, isEndCard c = false) ∧
      cards.filterMap entryOfCard = padStore st := by
  induction st with
  | nil => exact ⟨[], rfl, by simp, rfl⟩
  | cons e r ih =>
    obtain ⟨cards, h1, h2, h3⟩ := ih (fun x hx => h x (by simp [hx]))
    obtain ⟨card, c1, _, c2, c3⟩ := entry_survives e.1 e.2 (h e (by simp))
    refine ⟨card :: cards, ?_, ?_, ?_⟩
    · rw [List.mapM_cons, show cardOf e = some card from c1, h1]; rfl
    · intro c hc
      rcases List.mem_cons.mp hc with rfl | hc
      · exact c2
      · exact h2 c hc
    · rw [List.filterMap_cons, c3, h3]; rfl

/-- **whole stores**: writing every entry of an accepted store and reading the cards back gives the same entries,
    in the same order, each value followed by its padding blanks. -/
theorem fitsTrip_accepted (st : Store) (h : Accepted st) : fitsTrip st = some (padStore st) := by
  obtain ⟨cards, h1, h2, h3⟩ := cards_of_accepted st h
  unfold fitsTrip
  rw [h1, Option.map_some, untilEnd_id cards h2, h3]

theorem keys_padStore (st : Store) : keys (padStore st) = keys st := by
  simp [keys, padStore, List.map_map, Function.comp_def]

theorem getAux_padStore (st : Store) (k : Str) :
    getAux (padStore st) k = (getAux st k).map fun v => v ++ blanks (padOf k v) := by
  induction st with
  | nil => rfl
  | cons e r ih =>
    obtain ⟨a, b⟩ := e
    show getAux ((a, b ++ blanks (padOf a b)) :: padStore r) k = _
    simp only [getAux]
    by_cases hk : (a == k) = true
    · have : a = k := by simpa using hk
      subst this; simp
    · simp only [hk, Bool.false_eq_true, if_false]; exact ih

theorem countQuotes_pad (v : Str) (p : Nat) :
    (v ++ blanks p).length + countQuotes (v ++ blanks p) = v.length + countQuotes v + p := by
  rw [← length_dbl, ← length_dbl, length_dbl_pad]

theorem padOf_pad (k v : Str) : padOf k (v ++ blanks (padOf k v)) = 0 := by
  have h := countQuotes_pad v (padOf k v)
  unfold padOf at h ⊢
  split
  · rename_i hk; rw [if_pos hk] at h; omega
  · rename_i hk; rw [if_neg hk] at h; omega

theorem padStore_idem (st : Store) : padStore (padStore st) = padStore st := by
  unfold padStore
  rw [List.map_map]
  apply List.map_congr_left
  intro e _
  simp only [Function.comp_def, padOf_pad]
  simp [blanks]

theorem accepted_padStore (st : Store) (h : Accepted st) : Accepted (padStore st) := by
  intro e he
  obtain ⟨x, hx, rfl⟩ := List.mem_map.mp he
  have hv := h x hx
  have hc := countQuotes_pad x.2 (padOf x.1 x.2)
  obtain ⟨hres, hedge, hwr, hshort, hlong, hp⟩ := (validate_none_iff x.1 x.2).mp hv
  rw [validate_none_iff]
  refine ⟨hres, hedge, hwr, ?_, ?_, ?_⟩
  · intro hl
    have hl : x.1.length ≤ 8 := hl
    obtain ⟨ha, hd⟩ := hshort hl
    refine ⟨ha, ?_⟩
    show (x.2 ++ blanks (padOf x.1 x.2)).length + countQuotes (x.2 ++ blanks (padOf x.1 x.2)) ≤ 68
    rw [hc]; unfold padOf; rw [if_pos hl]; omega
  · intro hl
    have hl : 9 ≤ x.1.length := hl
    obtain ⟨hs, h66, hfit⟩ := hlong hl
    refine ⟨hs, h66, ?_⟩
    show x.1.length + ((x.2 ++ blanks (padOf x.1 x.2)).length + countQuotes (x.2 ++ blanks (padOf x.1 x.2))) ≤ 67
    rw [hc]; unfold padOf; rw [if_neg (by omega)]; omega
  · intro c hc
    rcases List.mem_append.mp hc with hc | hc
    · exact hp c hc
    · exact printable_blanks _ c hc

/-! ### the operations keep the store accepted -/

theorem mem_setFirst (st : Store) (k v : Str) (e : Str × Str) (h : e ∈ setFirst st k v) : e ∈ st ∨ e = (k, v) := by
  induction st with
  | nil => simp [setFirst] at h
  | cons x r ih =>
    obtain ⟨a, b⟩ := x
    unfold setFirst at h
    by_cases hk : (a == k) = true
    · have hak : a = k := by simpa using hk
      rw [if_pos hk] at h
      rcases List.mem_cons.mp h with h | h
      · right; rw [h, hak]
      · left; exact List.mem_cons_of_mem _ h
    · rw [if_neg hk] at h
      rcases List.mem_cons.mp h with h | h
      · left; rw [h]; exact List.mem_cons_self
      · rcases ih h with h | h
        · left; exact List.mem_cons_of_mem _ h
        · right; exact h

theorem mem_eraseFirst (st : Store) (k : Str) (e : Str × Str) (h : e ∈ eraseFirst st k) : e ∈ st := by
  induction st with
  | nil => simp [eraseFirst] at h
  | cons x r ih =>
    obtain ⟨a, b⟩ := x
    unfold eraseFirst at h
    by_cases hk : (a == k) = true
    · rw [if_pos hk] at h; exact List.mem_cons_of_mem _ h
    · rw [if_neg hk] at h
      rcases List.mem_cons.mp h with h | h
      · rw [h]; exact List.mem_cons_self
      · exact List.mem_cons_of_mem _ (ih h)

theorem accepted_writeKey (st : Store) (k v : Str) (h : Accepted st) :
    Accepted (writeKey st k v).2 := by
  unfold writeKey
  cases hval : validate k v with
  | some e => exact h
  | none =>
    by_cases hh : hasKey st k = true
    · simp only [hh, if_true]
      intro e he
      rcases mem_setFirst st k v e he with he | he
      · exact h e he
      · rw [he]; exact hval
    · simp only [hh, Bool.false_eq_true, if_false]
      intro e he
      rcases List.mem_append.mp he with he | he
      · exact h e he
      · have : e = (k, v) := by simpa using he
        rw [this]; exact hval

theorem accepted_removeKey (st : Store) (k : Str) (h : Accepted st) : Accepted (removeKey st k).2 := by
  unfold removeKey
  by_cases hh : hasKey st k = true
  · simp only [hh, if_true]; exact fun e he => h e (mem_eraseFirst st k e he)
  · simp only [hh, Bool.false_eq_true, if_false]; exact h

theorem plainVal_showInt (n : Int) : PlainVal (showInt n) := by
  have hd : ∀ m, ∀ c ∈ showNat m, printable c = true := by
    intro m c hc
    have := showNat_allDigits m c hc
    exact (alnum_facts c (by simp [this])).1
  unfold showInt
  split
  · intro c hc
    rcases List.mem_cons.mp hc with rfl | hc
    · decide
    · exact hd _ c hc
  · exact hd _

/-! ### `reservedFitsKeyword` is the prefix filter of its table -/

theorem reserved_table_facts : ∀ p ∈ C16.reservedPrefixes, p.2 = p.1.length ∧ '\x00' ∉ p.1 := by decide

/-- `reservedFitsKeyword(key)` holds exactly when one of the literals of its table is a prefix of `key` -/
theorem reserved_iff_prefix (key : Str) : reserved key = true ↔ ∃ p ∈ C16.reservedPrefixes, p.1 <+: key := by
  unfold reserved
  rw [List.any_eq_true]
  constructor
  · rintro ⟨p, hp, h⟩
    obtain ⟨h1, h2⟩ := reserved_table_facts p hp
    refine ⟨p, hp, ?_⟩
    have : strncmpEq p.2 (cstr p.1) (cstr key) = true := h
    rw [h1, strncmpEq_prefix p.1 key h2] at this
    exact List.isPrefixOf_iff_prefix.mp this
  · rintro ⟨p, hp, h⟩
    obtain ⟨h1, h2⟩ := reserved_table_facts p hp
    refine ⟨p, hp, ?_⟩
    show strncmpEq p.2 (cstr p.1) (cstr key) = true
    rw [h1, strncmpEq_prefix p.1 key h2]
    exact List.isPrefixOf_iff_prefix.mpr h

theorem dropWhile_blanks_append' (n : Nat) (l : List Char) :
    (blanks n ++ l).dropWhile (· == ' ') = l.dropWhile (· == ' ') := by
  induction n with
  | zero => rfl
  | succ n ih =>
    show ((' ' :: blanks n) ++ l).dropWhile (· == ' ') = _
    rw [List.cons_append, List.dropWhile_cons_of_pos (by decide)]; exact ih

/-- padding blanks are trailing blanks -/
theorem rstrip_pad (v : Str) (p : Nat) : rstrip (v ++ blanks p) = rstrip v := by
  unfold rstrip
  rw [List.reverse_append, reverse_blanks, dropWhile_blanks_append']

theorem rstrip_padStore (st : Store) :
    (padStore st).map (fun e => (e.1, rstrip e.2)) = st.map (fun e => (e.1, rstrip e.2)) := by
  unfold padStore
  rw [List.map_map]
  apply List.map_congr_left
  intro e _
  simp only [Function.comp_def, rstrip_pad]

/-- cards whose keyword is reserved (the structural cards of the primary header) do not become entries -/
theorem filterMap_reserved_cards (pre cards : List (List Char))
    (h : ∀ c ∈ pre, reserved (ffgknm (rstrip c)) = true) :
    (pre ++ cards).filterMap entryOfCard = cards.filterMap entryOfCard := by
  induction pre with
  | nil => rfl
  | cons c r ih =>
    have hc : entryOfCard c = none := by
      unfold entryOfCard; simp only [h c (by simp), if_true]
    rw [List.cons_append, List.filterMap_cons, hc]
    exact ih (fun x hx => h x (by simp [hx]))

/-! ### histories -/

/-- the store after a history of operations (what `psvdriver C16` folds over its input lines) -/
def runOps (st : Store) (ops : List Op) : Store := ops.foldl (fun s op => (step s op).2) st

/-! ### an `int` still reads back after the padding of a FITS round trip -/

theorem takeWhile_digits_blanks (ds : Str) (p : Nat) (hd : ∀ c ∈ ds, c.isDigit = true) :
    (ds ++ blanks p).takeWhile Char.isDigit = ds := by
  cases p with
  | zero => simpa [blanks] using takeWhile_all _ _ hd
  | succ p => exact takeWhile_append_stop _ ds ' ' (blanks p) hd (by decide)

theorem parseBody_digits_pad (neg : Bool) (ds : Str) (p : Nat) (hd : ∀ c ∈ ds, c.isDigit = true) :
    parseBody neg (ds ++ blanks p) = parseBody neg ds := by
  unfold parseBody
  rw [takeWhile_digits_blanks ds p hd, takeWhile_all _ _ hd]

theorem parseInt_showInt_pad (n : Int) (p : Nat) (hlo : intMin ≤ n) (hhi : n ≤ intMax) :
    parseInt (showInt n ++ blanks p) = (true, some n) := by
  rw [← parseInt_showInt n hlo hhi]
  unfold showInt
  by_cases hn : n < 0
  · simp only [hn, if_true]
    unfold parseInt
    have h1 : ∀ t, ('-' :: showNat n.natAbs ++ t).dropWhile isCSpace = '-' :: showNat n.natAbs ++ t := by
      intro t; rw [List.cons_append, List.dropWhile_cons_of_neg]; decide
    have h1' := h1 []
    rw [List.append_nil] at h1'
    simp only [h1', List.cons_append, List.isEmpty_cons, Bool.false_eq_true, if_false]
    show parseBody true (showNat n.natAbs ++ blanks p) = parseBody true (showNat n.natAbs)
    exact parseBody_digits_pad _ _ _ (showNat_allDigits _)
  · simp only [hn, if_false]
    unfold parseInt
    obtain ⟨c, r, hcr⟩ : ∃ c r, showNat n.toNat = c :: r := by
      cases h : showNat n.toNat with
      | nil => exact absurd h (showNat_ne_nil _)
      | cons c r => exact ⟨c, r, rfl⟩
    have hc : c.isDigit = true := showNat_allDigits n.toNat c (by rw [hcr]; simp)
    have h1 : ∀ t, (showNat n.toNat ++ t).dropWhile isCSpace = showNat n.toNat ++ t := by
      intro t; rw [hcr, List.cons_append, List.dropWhile_cons_of_neg]; simp [not_space_of_digit c hc]
    have h1' := h1 []
    rw [List.append_nil] at h1'
    simp only [h1, h1']
    have h3 : ∀ t, (showNat n.toNat ++ t).isEmpty = false := by intro t; rw [hcr]; rfl
    have h3' := h3 []
    rw [List.append_nil] at h3'
    simp only [h3, h3', Bool.false_eq_true, if_false]
    have h2 : ∀ t, splitSign (showNat n.toNat ++ t) = (false, showNat n.toNat ++ t) := by
      intro t; rw [hcr, List.cons_append]; exact splitSign_digit c _ hc
    have h2' := h2 []
    rw [List.append_nil] at h2'
    rw [h2, h2']
    exact parseBody_digits_pad _ _ _ (showNat_allDigits _)

/-- the specification of one operation on the insertion-ordered map: an accepted write is `Spec.put`, a removal
    `Spec.del`, a FITS round trip pads the values, everything else (rejected writes, lookups, typed reads) leaves
    the map alone -/
def Spec.apply (m : Store) : Op → Store
  | .writeStr k v | .writeText k v => if validate k v = none then Spec.put m k v else m
  | .writeInt k n => if validate k (showInt n) = none then Spec.put m k (showInt n) else m
  | .remove k => Spec.del m k
  | .fits => padStore m
  | _ => m

def isFits : Op → Bool
  | .fits => true
  | _ => false

end PsV.Aux
