import PsV.Proofs.AuxKeys
/-!
Helper lemmas for C16, FITS part: the card `write_fits_core` produces for an accepted entry
(`cardOf` = `ffs2c`, `ffmkky`, `ffprec`) in closed form, and what `read_fits_core` makes of it
(`entryOfCard` = `ffgrec`, `ffgknm`, `ffpsvc`, quote stripping), for standard and HIERARCH keys.
-/
namespace PsV.Aux
open PsV.Gen

/-! ### generic list lemmas -/

theorem takeWhile_append_stop {α} (p : α → Bool) (a : List α) (b : α) (r : List α)
    (ha : ∀ c ∈ a, p c = true) (hb : p b = false) : (a ++ b :: r).takeWhile p = a := by
  induction a with
  | nil => simp [hb]
  | cons x xs ih =>
    rw [List.cons_append, List.takeWhile_cons_of_pos (ha x (by simp)), ih (fun c hc => ha c (by simp [hc]))]

theorem dropWhile_blanks_append (n : Nat) (l : List Char) (h : l.head? ≠ some ' ') :
    (blanks n ++ l).dropWhile (· == ' ') = l := by
  induction n with
  | zero =>
    cases l with
    | nil => rfl
    | cons c r =>
      have : c ≠ ' ' := by simpa using h
      simp [blanks, this]
  | succ n ih =>
    show ((' ' :: blanks n) ++ l).dropWhile (· == ' ') = l
    rw [List.cons_append, List.dropWhile_cons_of_pos (by decide)]; exact ih

theorem lstrip_of_head (l : List Char) (h : l.head? ≠ some ' ') : lstrip l = l := by
  have := dropWhile_blanks_append 0 l h
  simpa [blanks, lstrip] using this

theorem reverse_blanks (n : Nat) : (blanks n).reverse = blanks n := by simp [blanks]

theorem rstrip_append_blanks (l : List Char) (n : Nat) (h : l.getLast? ≠ some ' ') : rstrip (l ++ blanks n) = l := by
  unfold rstrip
  rw [List.reverse_append, reverse_blanks, dropWhile_blanks_append n l.reverse (by simpa using h), List.reverse_reverse]

theorem rstrip_of_getLast (l : List Char) (h : l.getLast? ≠ some ' ') : rstrip l = l := by
  have := rstrip_append_blanks l 0 h
  simpa [blanks] using this

/-- printable ASCII: the characters `ffprec` leaves alone -/
def printable (c : Char) : Bool := decide (32 ≤ c.toNat) && decide (c.toNat ≤ 126)

theorem sanitize_printable (c : Char) (h : printable c = true) : sanitize c = c := by
  unfold printable at h
  simp only [Bool.and_eq_true, decide_eq_true_eq] at h
  unfold sanitize
  rw [if_neg]
  simp only [Bool.or_eq_true, decide_eq_true_eq]
  omega

theorem map_sanitize (l : List Char) (h : ∀ c ∈ l, printable c = true) : l.map sanitize = l := by
  induction l with
  | nil => rfl
  | cons a r ih =>
    rw [List.map_cons, sanitize_printable a (h a (by simp)), ih (fun c hc => h c (by simp [hc]))]

theorem printable_blanks (n : Nat) : ∀ c ∈ blanks n, printable c = true := by
  intro c hc
  have : c = ' ' := by simpa [blanks] using (List.eq_of_mem_replicate hc)
  subst this; decide

theorem printable_dbl (v : Str) (h : ∀ c ∈ v, printable c = true) : ∀ c ∈ dbl v, printable c = true := by
  induction v with
  | nil => intro c hc; simp [dbl] at hc
  | cons a r ih =>
    intro c hc
    have ha := h a (by simp)
    have ih' := ih (fun c hc => h c (by simp [hc]))
    by_cases hq : (a == '\'') = true
    · simp only [dbl, hq, if_true, List.mem_cons] at hc
      rcases hc with rfl | rfl | hc
      · exact ha
      · exact ha
      · exact ih' c hc
    · simp only [dbl, hq, Bool.false_eq_true, if_false, List.mem_cons] at hc
      rcases hc with rfl | hc
      · exact ha
      · exact ih' c hc

/-! ### reading a quoted value back -/

theorem undouble_dbl (w : Str) : undouble (dbl w) = w := by
  have := undouble_dbl_blanks w 0
  simpa [blanks] using this

/-- the part of `ffpsvc` after the value position has been found -/
def valTail (l : List Char) : List Char :=
  match lstrip l with
  | [] => []
  | '\'' :: rest => '\'' :: psvcQ (rest.length + 1) rest 1
  | '/' :: _ => []
  | other => other.takeWhile fun c => c != ' ' && c != '/'

/-- `ffpsvc` copies a quoted string (quotes still doubled, closing quote included) and the repaired reader
    strips the enclosing quotes and un-doubles: a string `w` whose doubled form fits comes back exactly. -/
theorem valTail_quoted (n : Nat) (w : Str) (h : (dbl w).length ≤ 68) :
    stripValue (valTail (blanks n ++ '\'' :: (dbl w ++ ['\'']))) = w := by
  have hwl : w.length ≤ (dbl w).length := by rw [length_dbl w]; omega
  unfold valTail
  simp only [lstrip]
  rw [dropWhile_blanks_append n _ (by simp)]
  simp only
  have hfuel : (dbl w ++ ['\'']).length + 1 = ((dbl w).length + 2 - w.length) + w.length := by
    rw [List.length_append]; simp only [List.length_singleton]; omega
  rw [hfuel, psvcQ_dbl _ _ _ _ (by omega) rfl]
  obtain ⟨f, hf⟩ : ∃ f, (dbl w).length + 2 - w.length = f + 1 := ⟨(dbl w).length + 1 - w.length, by omega⟩
  rw [hf, psvcQ_close f (1 + (dbl w).length) (by omega)]
  unfold stripValue
  simp only [List.length_cons, List.length_append, List.length_singleton]
  have hlast : ('\'' :: (dbl w ++ ['\''])).getLast? = some '\'' := by
    rw [← List.cons_append, List.getLast?_append]; simp
  simp only [hlast, show (dbl w).length + 1 + 1 ≥ 2 by omega, decide_true, Bool.and_self, beq_self_eq_true, if_true, List.dropLast_concat]
  first
    | exact undouble_dbl w
    | (rw [if_pos (by simp)]; exact undouble_dbl w)

/-! ### the card text in closed form -/

/-- the last step of `ffmkky`: append the value, cut at column 80, force a closing quote when it was cut -/
def cardTail (h : List Char) (namelen : Nat) (qv : List Char) : List Char :=
  if namelen + qv.length ≥ 80 then (h ++ qv.take (80 - namelen)).take 79 ++ ['\''] else h ++ qv.take (80 - namelen)

theorem take_blanks (m n : Nat) : (blanks n).take m = blanks (min m n) := by
  simp [blanks, List.take_replicate]

theorem length_blanks (n : Nat) : (blanks n).length = n := by simp [blanks]

/-- For a head of `h.length` columns and a value whose doubled form leaves room for the two quotes, the card is
    head, quote, doubled value, padding blanks, quote; the padding to 8 characters is cut short (never the value)
    when the card is full. -/
theorem cardTail_eq (h : List Char) (v : Str) (hd : (dbl v).length ≤ 68) (hfit : h.length + (dbl v).length ≤ 78) :
    cardTail h h.length (ffs2c v) =
      h ++ '\'' :: (dbl v ++ blanks (min (8 - (dbl v).length) (78 - h.length - (dbl v).length))) ++ ['\''] := by
  have hl := length_dbl v
  rw [ffs2c_eq v (by omega)]
  obtain ⟨d, hdd⟩ : ∃ d, d = (dbl v).length := ⟨_, rfl⟩
  rw [← hdd] at hd hfit ⊢
  have hqlen : ('\'' :: (dbl v ++ blanks (8 - d)) ++ ['\'']).length = max d 8 + 2 := by
    simp only [List.length_cons, List.length_append, length_blanks, List.length_nil, ← hdd]; omega
  unfold cardTail
  rw [hqlen]
  by_cases hc : h.length + (max d 8 + 2) ≥ 80
  · rw [if_pos hc]
    have hm : min (8 - d) (78 - h.length - d) = 78 - h.length - d := by omega
    rw [hm, List.take_append, List.take_of_length_le (show h.length ≤ 79 by omega), List.take_take,
      show min (79 - h.length) (80 - h.length) = (78 - h.length) + 1 by omega]
    rw [List.cons_append, List.take_succ_cons, List.take_append_of_le_length (by rw [List.length_append, length_blanks, ← hdd]; omega),
      List.take_append, List.take_of_length_le (show (dbl v).length ≤ 78 - h.length by omega), take_blanks, ← hdd,
      show min (78 - h.length - d) (8 - d) = 78 - h.length - d by omega]
  · rw [if_neg hc]
    have hm : min (8 - d) (78 - h.length - d) = 8 - d := by omega
    rw [hm, List.take_of_length_le (by rw [hqlen]; omega)]
    simp

theorem alnum_facts (c : Char) (h : (c.isUpper || c.isDigit) = true) :
    printable c = true ∧ c ≠ ' ' ∧ c ≠ '=' ∧ stdKeyChar c = true := by
  refine ⟨?_, ?_, ?_, ?_⟩
  · simp only [Char.isUpper, Char.isDigit, Bool.or_eq_true, Bool.and_eq_true, decide_eq_true_eq] at h
    simp only [printable, Char.toNat, Bool.and_eq_true, decide_eq_true_eq]
    rcases h with ⟨h1, h2⟩ | ⟨h1, h2⟩
    · have a := UInt32.le_iff_toNat_le.mp h1; have b := UInt32.le_iff_toNat_le.mp h2
      have e1 : 'A'.val.toNat = 65 := by decide
      have e2 : 'Z'.val.toNat = 90 := by decide
      omega
    · have a := UInt32.le_iff_toNat_le.mp h1; have b := UInt32.le_iff_toNat_le.mp h2
      have e1 : '0'.val.toNat = 48 := by decide
      have e2 : '9'.val.toNat = 57 := by decide
      omega
  · rintro rfl; revert h; decide
  · rintro rfl; revert h; decide
  · simp only [stdKeyChar, Bool.or_eq_true] at h ⊢; exact Or.inl (Or.inl h)

theorem contains_eq_false {l : List Char} {a : Char} (h : a ∉ l) : l.contains a = false := by
  simpa using h

/-- keys made of upper-case letters and digits only -/
def Alnum (k : Str) : Prop := ∀ c ∈ k, (c.isUpper || c.isDigit) = true

theorem alnum_head (k : Str) (h : Alnum k) : k.head? ≠ some ' ' := by
  cases k with
  | nil => simp
  | cons c r => simpa using (alnum_facts c (h c (by simp))).2.1

theorem alnum_last (k : Str) (h : Alnum k) : k.getLast? ≠ some ' ' := by
  intro hl
  have := List.mem_of_getLast? hl
  exact (alnum_facts _ (h _ this)).2.1 rfl

theorem mkCard_short (k v : Str) (hk : k.length ≤ 8) (ha : Alnum k) (hv : (dbl v).length ≤ 68) :
    mkCard k (ffs2c v) =
      some ((k ++ blanks (8 - k.length) ++ ['=', ' ']) ++ '\'' :: (dbl v ++ blanks (8 - (dbl v).length)) ++ ['\'']) := by
  have hname : rstrip ((lstrip k).take (C16.flenKeyword - 1)) = k := by
    rw [lstrip_of_head k (alnum_head k ha), List.take_of_length_le (by simp [C16.flenKeyword]; omega),
      rstrip_of_getLast k (alnum_last k ha)]
  have hne : k.contains '=' = false := contains_eq_false fun hm => (alnum_facts _ (ha _ hm)).2.2.1 rfl
  have hall : k.all stdKeyChar = true := by
    rw [List.all_eq_true]; exact fun c hc => (alnum_facts c (ha c hc)).2.2.2
  have hlen : (k ++ blanks (8 - k.length) ++ ['=', ' ']).length = 10 := by
    simp only [List.length_append, length_blanks, List.length_cons, List.length_nil]; omega
  have ht := cardTail_eq (k ++ blanks (8 - k.length) ++ ['=', ' ']) v hv (by rw [hlen]; omega)
  rw [hlen] at ht
  rw [show min (8 - (dbl v).length) (78 - 10 - (dbl v).length) = 8 - (dbl v).length by omega] at ht
  rw [← ht]
  unfold mkCard
  simp only [hname, hne, Bool.false_eq_true, if_false, hk, decide_true, hall, Bool.and_self, if_true, cardTail,
    show ¬ 10 > 77 by omega]

/-- separator `ffmkky` puts between a HIERARCH name and the value: `" = "`, or `"= "` when the card would overflow -/
def hierSep (n d : Nat) : List Char := if 14 + n + max d 8 > 80 then ['=', ' '] else [' ', '=', ' ']

theorem mkCard_long (k v : Str) (hk : 9 ≤ k.length) (hk66 : k.length ≤ 66) (hfit : k.length + (dbl v).length ≤ 67)
    (hhead : k.head? ≠ some ' ') (hlast : k.getLast? ≠ some ' ') (heq : '=' ∉ k)
    (hh : hierPrefix.isPrefixOf k = false) :
    mkCard k (ffs2c v) =
      some ((hierPrefix ++ k ++ hierSep k.length (dbl v).length) ++
        '\'' :: (dbl v ++ blanks (min (8 - (dbl v).length) (67 - k.length - (dbl v).length))) ++ ['\'']) := by
  have hname : rstrip ((lstrip k).take (C16.flenKeyword - 1)) = k := by
    rw [lstrip_of_head k hhead, List.take_of_length_le (by simp [C16.flenKeyword]; omega), rstrip_of_getLast k hlast]
  have hne : k.contains '=' = false := contains_eq_false heq
  have hl := length_dbl v
  have hq : (ffs2c v).length = max (dbl v).length 8 + 2 := by
    rw [ffs2c_eq v (by omega)]
    simp only [List.length_cons, List.length_append, length_blanks, List.length_nil]; omega
  have hhl : (hierPrefix ++ k).length = 9 + k.length := by simp [hierPrefix]; omega
  obtain ⟨d, hdd⟩ : ∃ d, d = (dbl v).length := ⟨_, rfl⟩
  rw [← hdd] at hq hfit ⊢
  unfold mkCard
  simp only [hname, hne, Bool.false_eq_true, if_false, show ¬ k.length ≤ 8 by omega, decide_false, Bool.false_and, hh,
    C16.flenCard, show ¬ k.length + 11 > 81 - 1 by omega, Option.map_some, hq, hhl]
  by_cases hc : 14 + k.length + max d 8 > 80
  · have hc' : 9 + k.length + 3 + (max d 8 + 2) > 80 := by omega
    have hlen : (hierPrefix ++ k ++ ['=', ' ']).length = 9 + k.length + 2 := by simp [hierPrefix]; omega
    have ht := cardTail_eq (hierPrefix ++ k ++ ['=', ' ']) v (by omega) (by rw [hlen]; omega)
    rw [hlen, ← hdd, show min (8 - d) (78 - (9 + k.length + 2) - d) = min (8 - d) (67 - k.length - d) by omega] at ht
    simp only [hierSep, hc, hc', if_true, show ¬ 9 + k.length + 2 > 77 by omega, if_false]
    rw [← ht]
    simp only [cardTail, hq]
  · have hc' : ¬ 9 + k.length + 3 + (max d 8 + 2) > 80 := by omega
    have hlen : (hierPrefix ++ k ++ [' ', '=', ' ']).length = 9 + k.length + 3 := by simp [hierPrefix]; omega
    have ht := cardTail_eq (hierPrefix ++ k ++ [' ', '=', ' ']) v (by omega) (by rw [hlen]; omega)
    rw [hlen, ← hdd, show min (8 - d) (78 - (9 + k.length + 3) - d) = min (8 - d) (67 - k.length - d) by omega] at ht
    simp only [hierSep, hc, hc', if_false, show ¬ 9 + k.length + 3 > 77 by omega]
    rw [← ht]
    simp only [cardTail, hq]

/-! ### reading the card back -/

theorem ffpsvc_std (c : List Char) (h1 : hierPrefix.isPrefixOf c = false)
    (h2 : commentaryHeads.any (·.isPrefixOf c) = false) (hlen : 9 ≤ c.length) (h8 : (c.drop 8).take 2 = ['=', ' ']) :
    ffpsvc c = valTail (c.drop 10) := by
  unfold ffpsvc
  simp only [h1, Bool.false_eq_true, if_false, h2, Bool.or_false, decide_eq_true_eq, show ¬ c.length < 9 by omega, h8,
    beq_self_eq_true, if_true]
  rfl

theorem ffpsvc_hier (c : List Char) (h1 : hierPrefix.isPrefixOf c = true) (h2 : c.contains '=' = true) :
    ffpsvc c = valTail (c.drop ((c.takeWhile (· != '=')).length + 1)) := by
  unfold ffpsvc
  simp only [h1, h2, if_true]
  rfl

def endKey : Str := ['E', 'N', 'D']
def historyKey : Str := ['H', 'I', 'S', 'T', 'O', 'R', 'Y']
def continueKey : Str := ['C', 'O', 'N', 'T', 'I', 'N', 'U', 'E']
def commentKey : Str := ['C', 'O', 'M', 'M', 'E', 'N', 'T']

theorem prefix_take {h c : List Char} (hp : h.isPrefixOf c = true) : c.take h.length = h := by
  rw [List.isPrefixOf_iff_prefix, List.prefix_iff_eq_take] at hp
  exact hp.symm

theorem commentaryHeads_facts : ∀ h ∈ commentaryHeads, h.length = 8 ∧
    (rstrip h = commentKey ∨ rstrip h = historyKey ∨ rstrip h = endKey ∨ rstrip h = continueKey ∨ rstrip h = []) := by
  decide

/-- the first eight columns of a standard card determine its keyword -/
theorem std_head_key (k rest h : List Char) (hk : k.length ≤ 8) (hlast : k.getLast? ≠ some ' ') (hh : h.length = 8)
    (hp : h.isPrefixOf (k ++ blanks (8 - k.length) ++ rest) = true) : k = rstrip h := by
  have := prefix_take hp
  rw [hh, List.take_append_of_le_length (by rw [List.length_append, length_blanks]; omega),
    List.take_of_length_le (by rw [List.length_append, length_blanks]; omega)] at this
  rw [← this, rstrip_append_blanks k _ hlast]

/-- a quoted FITS string: opening quote, the string with every quote doubled, closing quote -/
def quoted (w : Str) : List Char := '\'' :: (dbl w ++ ['\''])

theorem quoted_last (l : List Char) (w : Str) : (l ++ quoted w).getLast? ≠ some ' ' := by
  have : l ++ quoted w = (l ++ '\'' :: dbl w) ++ ['\''] := by simp [quoted]
  rw [this, List.getLast?_concat]; decide

theorem rstrip_card (h : List Char) (w : Str) (m : Nat) : rstrip (h ++ quoted w ++ blanks m) = h ++ quoted w :=
  rstrip_append_blanks _ m (quoted_last h w)

theorem std_take8 (k rest : List Char) (hk : k.length ≤ 8) :
    (k ++ blanks (8 - k.length) ++ rest).take 8 = k ++ blanks (8 - k.length) := by
  rw [List.take_append_of_le_length (by rw [List.length_append, length_blanks]; omega),
    List.take_of_length_le (by rw [List.length_append, length_blanks]; omega)]

theorem blanks_eq_stop (j : Nat) (r : List Char) :
    ∃ b r', blanks j ++ '=' :: r = b :: r' ∧ (b != ' ' && b != '=') = false := by
  cases j with
  | zero => exact ⟨'=', r, rfl, by decide⟩
  | succ j => exact ⟨' ', blanks j ++ '=' :: r, rfl, by decide⟩

theorem read_std (k w : Str) (hk : k.length ≤ 8) (hne : k ≠ []) (ha : Alnum k) (hres : reserved k = false)
    (hE : k ≠ endKey) (hH : k ≠ historyKey) (hC : k ≠ continueKey) (hw : (dbl w).length ≤ 68) :
    ffgknm (k ++ blanks (8 - k.length) ++ '=' :: ' ' :: quoted w) = k ∧
    stripValue (ffpsvc (k ++ blanks (8 - k.length) ++ '=' :: ' ' :: quoted w)) = w ∧
    isEndCard (k ++ blanks (8 - k.length) ++ '=' :: ' ' :: quoted w) = false := by
  have hlast := alnum_last k ha
  have hk8 : (k ++ blanks (8 - k.length)).length = 8 := by rw [List.length_append, length_blanks]; omega
  obtain ⟨c, hc⟩ : ∃ c, c = k ++ blanks (8 - k.length) ++ '=' :: ' ' :: quoted w := ⟨_, rfl⟩
  have hhier : hierPrefix.isPrefixOf c = false := by
    cases hb : hierPrefix.isPrefixOf c with
    | false => rfl
    | true =>
      exfalso
      have := prefix_take hb
      rw [hc, show hierPrefix.length = 8 + 1 by decide, List.take_append, hk8, List.take_of_length_le (by omega)] at this
      simp only [Nat.add_sub_cancel_left, List.take_succ_cons, List.take_zero] at this
      have h2 := congrArg List.getLast? this
      rw [List.getLast?_concat] at h2
      revert h2; decide
  have hcomm : commentaryHeads.any (·.isPrefixOf c) = false := by
    rw [List.any_eq_false]
    intro h hm hp
    obtain ⟨hl, hr⟩ := commentaryHeads_facts h hm
    rw [hc] at hp
    have hkk := std_head_key k _ h hk hlast hl hp
    rcases hr with hr | hr | hr | hr | hr
    · rw [hr] at hkk; rw [hkk] at hres; revert hres; decide
    · exact hH (hkk.trans hr)
    · exact hE (hkk.trans hr)
    · exact hC (hkk.trans hr)
    · exact hne (hkk.trans hr)
  refine ⟨?_, ?_, ?_⟩
  · rw [← hc]
    unfold ffgknm
    simp only [hhier, Bool.false_eq_true, if_false]
    obtain ⟨b, r', hbr, hb⟩ := blanks_eq_stop (8 - k.length) (' ' :: quoted w)
    rw [hc, List.append_assoc, hbr, takeWhile_append_stop _ k b r' _ hb, List.take_of_length_le (by simp [C16.flenKeyword]; omega)]
    intro x hx
    have := alnum_facts x (ha x hx)
    simp [this.2.1, this.2.2.1]
  · rw [← hc, ffpsvc_std c hhier hcomm (by rw [hc, List.length_append, hk8]; simp only [List.length_cons]; omega)]
    · have : c.drop 10 = quoted w := by
        rw [hc, List.drop_append, hk8, List.drop_of_length_le (by omega)]; rfl
      rw [this]
      exact valTail_quoted 0 w hw
    · rw [hc, List.drop_append, hk8, List.drop_of_length_le (by omega)]; rfl
  · unfold isEndCard
    rw [std_take8 k _ hk]
    cases hb : (k ++ blanks (8 - k.length) == endHead) with
    | false => rfl
    | true =>
      exfalso
      have := eq_of_beq hb
      have h2 := congrArg rstrip this
      rw [rstrip_append_blanks k _ hlast] at h2
      exact hE (h2.trans (by decide))

theorem ne_eq_blanks (j : Nat) : ∀ x ∈ blanks j, (x != '=') = true := by
  intro x hx
  have : x = ' ' := by simpa [blanks] using (List.eq_of_mem_replicate hx)
  subst this; decide

theorem read_hier (k w : Str) (j : Nat) (hne : k ≠ []) (hhead : k.head? ≠ some ' ') (hlast : k.getLast? ≠ some ' ')
    (heq : '=' ∉ k) (hw : (dbl w).length ≤ 68) :
    ffgknm (hierPrefix ++ (k ++ blanks j) ++ '=' :: ' ' :: quoted w) = k ∧
    stripValue (ffpsvc (hierPrefix ++ (k ++ blanks j) ++ '=' :: ' ' :: quoted w)) = w ∧
    isEndCard (hierPrefix ++ (k ++ blanks j) ++ '=' :: ' ' :: quoted w) = false := by
  obtain ⟨c, hc⟩ : ∃ c, c = hierPrefix ++ (k ++ blanks j) ++ '=' :: ' ' :: quoted w := ⟨_, rfl⟩
  have hpre : hierPrefix.isPrefixOf c = true := by
    rw [List.isPrefixOf_iff_prefix, hc, List.append_assoc]; exact List.prefix_append _ _
  have hcont : c.contains '=' = true := by
    rw [hc]; simp
  have hkne : ∀ x ∈ k, (x != '=') = true := by
    intro x hx; simp only [bne_iff_ne, ne_eq]; rintro rfl; exact heq hx
  have hall : ∀ x ∈ hierPrefix ++ (k ++ blanks j), (x != '=') = true := by
    intro x hx
    rcases List.mem_append.mp hx with h | h
    · exact (show ∀ y ∈ hierPrefix, (y != '=') = true by decide) x h
    · rcases List.mem_append.mp h with h | h
      · exact hkne x h
      · exact ne_eq_blanks j x h
  rw [← hc]
  refine ⟨?_, ?_, ?_⟩
  · unfold ffgknm
    simp only [hpre, hcont, if_true]
    have hd : c.drop 9 = (k ++ blanks j) ++ '=' :: ' ' :: quoted w := by
      rw [hc, List.append_assoc, List.drop_left' (by decide)]
    rw [hd, takeWhile_append_stop _ (k ++ blanks j) '=' _ (fun x hx => hall x (List.mem_append_right _ hx)) (by decide)]
    have hh : (k ++ blanks j).head? ≠ some ' ' := by
      cases k with
      | nil => exact absurd rfl hne
      | cons a r => simpa using hhead
    rw [lstrip_of_head _ hh, rstrip_append_blanks k j hlast]
  · rw [ffpsvc_hier c hpre hcont]
    have ht : c.takeWhile (· != '=') = hierPrefix ++ (k ++ blanks j) := by
      rw [hc]; exact takeWhile_append_stop _ _ '=' _ hall (by decide)
    rw [ht]
    have hd : c.drop ((hierPrefix ++ (k ++ blanks j)).length + 1) = blanks 1 ++ quoted w := by
      rw [hc, show hierPrefix ++ (k ++ blanks j) ++ '=' :: ' ' :: quoted w
        = (hierPrefix ++ (k ++ blanks j) ++ ['=']) ++ (blanks 1 ++ quoted w) by simp [blanks]]
      rw [List.drop_left' (by simp; omega)]
    rw [hd]
    exact valTail_quoted 1 w hw
  · rw [hc]; simp [isEndCard, hierPrefix, endHead]

/-! ### what `write_key` accepts, in plain terms -/

theorem longKeyScan_none_iff (k : Str) : longKeyScan k = none ↔ '=' ∉ k ∧ ∀ c ∈ k, c.isLower = false := by
  induction k with
  | nil => simp [longKeyScan]
  | cons c r ih =>
    unfold longKeyScan
    by_cases h1 : c = '='
    · subst h1; simp
    · have h1' : (c == '=') = false := by simpa using h1
      have h1'' : ¬ '=' = c := fun x => h1 x.symm
      by_cases h2 : c.isLower = true
      · simp [h1', h2]
      · have h2' : c.isLower = false := by simpa using h2
        simp only [h1', Bool.false_eq_true, if_false, h2', ih, List.mem_cons, not_or, h1'', not_false_eq_true, true_and,
          forall_eq_or_imp]

theorem badShortChar_false_iff (c : Char) : badShortChar c = false ↔ (c.isUpper || c.isDigit) = true := by
  unfold badShortChar
  constructor
  · intro h
    simp only [Bool.or_eq_false_iff, Bool.not_eq_false'] at h
    exact h.1.1
  · intro h
    have hd : c ≠ '-' := by rintro rfl; revert h; decide
    have hu : c ≠ '_' := by rintro rfl; revert h; decide
    simp [h, hd, hu]

theorem any_badShortChar_false_iff (k : Str) : k.any badShortChar = false ↔ Alnum k := by
  rw [List.any_eq_false]
  unfold Alnum
  constructor
  · intro h c hc; exact (badShortChar_false_iff c).mp (by simpa using h c hc)
  · intro h c hc; simpa using (badShortChar_false_iff c).mpr (h c hc)

/-- **what `write_key` accepts** (repaired code, constants of the source): the key is not reserved; a key of at most
    8 characters consists of upper-case letters and digits and the value, every quote counted twice, has at most 68
    characters; a longer key has no `=`, no lower-case letter, at most 66 characters, and key and value (quotes
    counted twice) together have at most 67 characters. -/
theorem validate_none_iff (key val : Str) :
    validate key val = none ↔
      reserved key = false ∧
      (key.length ≤ 8 → Alnum key ∧ val.length + countQuotes val ≤ 68) ∧
      (9 ≤ key.length → ('=' ∉ key ∧ ∀ c ∈ key, c.isLower = false) ∧ key.length ≤ 66 ∧
        key.length + (val.length + countQuotes val) ≤ 67) := by
  unfold validate
  simp only [C16.shortKeylenMax, C16.longKeyGuard, C16.shortMaxData, longMaxData, C16.cardLen, C16.hierOverhead, sizeMod]
  by_cases hr : reserved key = true
  · simp [hr]
  · have hr' : reserved key = false := by simpa using hr
    simp only [hr', Bool.false_eq_true, if_false, true_and]
    by_cases hlen : key.length ≤ 8
    · have h9 : key.length + 1 ≤ 9 := by omega
      have hn9 : ¬ 9 ≤ key.length := by omega
      simp only [h9, if_true, hlen, hn9, false_implies, and_true, true_implies]
      rw [← any_badShortChar_false_iff]
      by_cases hb : key.any badShortChar = true
      · simp [hb]
      · have hb' : key.any badShortChar = false := by simpa using hb
        simp only [hb', Bool.false_eq_true, if_false, true_and]
        by_cases hv : val.length + countQuotes val > 68
        · simp only [hv, if_true]; constructor
          · intro h; cases h
          · intro h; omega
        · simp only [hv, if_false, true_iff]; omega
    · have h9 : ¬ key.length + 1 ≤ 9 := by omega
      have hn9 : 9 ≤ key.length := by omega
      simp only [h9, if_false, hlen, hn9, false_implies, true_and, true_implies]
      rw [← longKeyScan_none_iff]
      cases hs : longKeyScan key with
      | some e => simp
      | none =>
        simp only [true_and]
        by_cases hg : 80 ≤ 13 + key.length
        · have hg' : 13 + (key.length + 1) - 1 ≥ 80 := by omega
          simp only [hg', if_true]; constructor
          · intro h; cases h
          · intro h; omega
        · have hg' : ¬ 13 + (key.length + 1) - 1 ≥ 80 := by omega
          simp only [hg', if_false]
          have e : (80 + 2 ^ 64 - (13 + (key.length + 1) - 1) % 2 ^ 64) % 2 ^ 64 = 67 - key.length := by omega
          rw [e]
          by_cases hv : val.length + countQuotes val > 67 - key.length
          · simp only [hv, if_true]; constructor
            · intro h; cases h
            · intro h; omega
          · simp only [hv, if_false, true_iff]; omega

end PsV.Aux
