import PsV.Model.FitsBytes
/-!
# Number formats of the FITS byte model (C08): helper lemmas

Fixed-format integer fields (`fmtNat20` / `parseField`), big-endian words (`beBytes` / `words`),
`decimal`, `str`, `prod`.  Core only.
-/
namespace PsV.C08

/-! ## `str`, `decimal` -/

theorem str_append (a b : String) : str (a ++ b) = str a ++ str b := by
  simp [str, String.toList_append]

theorem decimal_eq (n : Nat) : decimal n = (Nat.toDigits 10 n).map Char.toNat := by
  simp [decimal, str, Nat.toList_repr]

theorem map_toNat_inj : ∀ {l m : List Char}, l.map Char.toNat = m.map Char.toNat → l = m
  | [], [], _ => rfl
  | [], _ :: _, h => by simp at h
  | _ :: _, [], h => by simp at h
  | a :: l, b :: m, h => by
    simp only [List.map_cons, List.cons.injEq] at h
    rw [Char.toNat_inj.mp h.1, map_toNat_inj h.2]

theorem decimal_inj {i j : Nat} (h : decimal i = decimal j) : i = j := by
  rw [decimal_eq, decimal_eq] at h
  have h' := map_toNat_inj h
  have := congrArg (fun l => Nat.ofDigitChars 10 l 0) h'
  simpa using this

theorem decimal_length (n : Nat) : (decimal n).length = (Nat.toDigits 10 n).length := by
  rw [decimal_eq, List.length_map]

theorem decimal_length_pos (n : Nat) : 0 < (decimal n).length := by
  rw [decimal_length]; exact Nat.length_toDigits_pos

theorem decimal_length_le {n k : Nat} (hk : 0 < k) (h : n < 10 ^ k) : (decimal n).length ≤ k := by
  rw [decimal_length]; exact (Nat.length_toDigits_le_iff (by decide) hk).mpr h

theorem decimal_digits (n : Nat) : ∀ d ∈ decimal n, 48 ≤ d ∧ d ≤ 57 := by
  intro d hd
  rw [decimal_eq, List.mem_map] at hd
  obtain ⟨c, hc, rfl⟩ := hd
  have := Nat.isDigit_of_mem_toDigits (by decide) (by decide) hc
  exact Char.isDigit_iff_toNat.mp this

/-! ## `prod` -/

theorem foldl_mul (l : List Nat) (a : Nat) : l.foldl (· * ·) a = a * prod l := by
  induction l generalizing a with
  | nil => simp [prod]
  | cons x l ih =>
    simp only [prod, List.foldl_cons]
    rw [ih, ih (1 * x), Nat.one_mul, Nat.mul_assoc]

theorem prod_cons (x : Nat) (l : List Nat) : prod (x :: l) = x * prod l := by
  simp only [prod, List.foldl_cons]
  rw [foldl_mul, Nat.one_mul]; rfl

theorem prod_append_singleton (l : List Nat) (x : Nat) : prod (l ++ [x]) = prod l * x := by
  simp [prod, List.foldl_append]

theorem prod_reverse (l : List Nat) : prod l.reverse = prod l := by
  induction l with
  | nil => rfl
  | cons x l ih => rw [List.reverse_cons, prod_append_singleton, ih, prod_cons, Nat.mul_comm]

/-! ## Fixed-format integer fields -/

/-- the value fold of `parseField` -/
def fieldVal (a : Nat) (f : Bytes) : Nat := f.foldl (fun a c => 10 * a + (if c == 32 then 0 else c - 48)) a

theorem digitsFixed_length (k n : Nat) : (digitsFixed k n).length = k := by
  induction k generalizing n with
  | zero => rfl
  | succ k ih => simp [digitsFixed, ih]

theorem digitsFixed_digits (k n : Nat) : ∀ d ∈ digitsFixed k n, 48 ≤ d ∧ d ≤ 57 := by
  induction k generalizing n with
  | zero => intro d hd; simp [digitsFixed] at hd
  | succ k ih =>
    intro d hd
    simp only [digitsFixed, List.mem_append, List.mem_singleton] at hd
    rcases hd with hd | rfl
    · exact ih _ d hd
    · have := Nat.mod_lt n (by decide : 0 < 10); omega

theorem fieldVal_digitsFixed (k n a : Nat) : fieldVal a (digitsFixed k n) = a * 10 ^ k + n % 10 ^ k := by
  induction k generalizing n with
  | zero => simp [fieldVal, digitsFixed, Nat.mod_one]
  | succ k ih =>
    have ih' := ih (n / 10)
    unfold fieldVal at ih' ⊢
    simp only [digitsFixed, List.foldl_append, List.foldl_cons, List.foldl_nil]
    rw [ih']
    have h32 : (48 + n % 10 == 32) = false := by
      have := Nat.mod_lt n (by decide : 0 < 10)
      simp; omega
    rw [h32, Nat.pow_succ', Nat.mod_mul, Nat.mul_comm 10 (10 ^ k)]
    simp only [Bool.false_eq_true, if_false, Nat.add_sub_cancel_left]
    have : 10 * (a * 10 ^ k) = a * (10 ^ k * 10) := by
      rw [Nat.mul_comm (10 ^ k) 10, ← Nat.mul_assoc, ← Nat.mul_assoc, Nat.mul_comm 10 a]
    omega

theorem blankLeading_length (l : Bytes) : (blankLeading l).length = l.length := by
  fun_induction blankLeading l with
  | case1 => rfl
  | case2 => rfl
  | case3 rest hne ih => simp [ih]
  | case4 d rest hne hd => rfl

theorem fieldVal_blankLeading (l : Bytes) (a : Nat) (h : ∀ d ∈ l, 48 ≤ d ∧ d ≤ 57) :
    fieldVal a (blankLeading l) = fieldVal a l := by
  fun_induction blankLeading l generalizing a with
  | case1 => rfl
  | case2 => rfl
  | case3 rest hne ih =>
    have := ih (10 * a) (fun d hd => h d (List.mem_cons_of_mem _ hd))
    unfold fieldVal at this ⊢
    simpa using this
  | case4 d rest hne hd => rfl

theorem blankLeading_all (l : Bytes) (h : ∀ d ∈ l, 48 ≤ d ∧ d ≤ 57) :
    (blankLeading l).all (fun c => c == 32 || (48 ≤ c && c ≤ 57)) = true := by
  fun_induction blankLeading l with
  | case1 => rfl
  | case2 d =>
    have := h d (by simp)
    simp; omega
  | case3 rest hne ih =>
    have := ih (fun d hd => h d (List.mem_cons_of_mem _ hd))
    simp only [List.all_cons, this]; rfl
  | case4 d rest hne hd =>
    rw [List.all_eq_true]
    intro c hc
    have := h c hc
    simp; omega

theorem blankLeading_any (l : Bytes) (hne : l ≠ []) (h : ∀ d ∈ l, 48 ≤ d ∧ d ≤ 57) :
    (blankLeading l).any (fun c => 48 ≤ c && c ≤ 57) = true := by
  fun_induction blankLeading l with
  | case1 => exact absurd rfl hne
  | case2 d =>
    have := h d (by simp)
    simp; omega
  | case3 rest hne' ih =>
    have hr : rest ≠ [] := by
      intro hr; subst hr; exact hne' rfl
    have := ih hr (fun d hd => h d (List.mem_cons_of_mem _ hd))
    simp only [List.any_cons, this, Bool.or_true]
  | case4 d rest hne' hd =>
    have := h d (by simp)
    simp only [List.any_cons]
    simp; omega

theorem fmtNat20_length (n : Nat) : (fmtNat20 n).length = 20 := by
  rw [fmtNat20, blankLeading_length, digitsFixed_length]

theorem parseField_fmtNat20 (n : Nat) (h : n < 10 ^ 20) : parseField (fmtNat20 n) = some n := by
  have hd := digitsFixed_digits 20 n
  have hne : digitsFixed 20 n ≠ [] := by
    intro h0
    have := digitsFixed_length 20 n
    rw [h0] at this; simp at this
  have hall := blankLeading_all _ hd
  have hany := blankLeading_any _ hne hd
  have hval := fieldVal_blankLeading _ 0 hd
  rw [fieldVal_digitsFixed, Nat.zero_mul, Nat.zero_add, Nat.mod_eq_of_lt h] at hval
  unfold fieldVal at hval
  unfold parseField fmtNat20
  rw [hall, hany, hval]
  rfl

/-! ## Big-endian words -/

theorem beBytes_length (k w : Nat) : (beBytes k w).length = k := by
  simp [beBytes]

theorem flatMap_beBytes_length (k : Nat) (l : List Nat) : (l.flatMap (beBytes k)).length = k * l.length := by
  induction l with
  | nil => rfl
  | cons w l ih => rw [List.flatMap_cons, List.length_append, ih, beBytes_length, List.length_cons, Nat.mul_succ, Nat.add_comm]

theorem beBytes_succ (k w : Nat) : beBytes (k + 1) w = beBytes k (w / 256) ++ [w % 256] := by
  unfold beBytes
  rw [List.range_succ, List.map_append]
  congr 1
  · apply List.map_congr_left
    intro j hj
    have hj' : j < k := List.mem_range.mp hj
    have : k + 1 - 1 - j = (k - 1 - j) + 1 := by omega
    rw [this, Nat.pow_succ, Nat.mul_comm, Nat.div_div_eq_div_mul]
  · simp

theorem foldl_beBytes (k w a : Nat) :
    (beBytes k w).foldl (fun a b => 256 * a + b) a = a * 256 ^ k + w % 256 ^ k := by
  induction k generalizing w with
  | zero => simp [beBytes, Nat.mod_one]
  | succ k ih =>
    rw [beBytes_succ, List.foldl_append, ih]
    simp only [List.foldl_cons, List.foldl_nil]
    rw [Nat.pow_succ', Nat.mod_mul, Nat.mul_comm 256 (256 ^ k), Nat.mul_add]
    have : 256 * (a * 256 ^ k) = a * (256 ^ k * 256) := by
      rw [Nat.mul_comm (256 ^ k) 256, ← Nat.mul_assoc, ← Nat.mul_assoc, Nat.mul_comm 256 a]
    omega

theorem beWords_flatMap_beBytes (k : Nat) (hk : 0 < k) (l : List Nat) (h : ∀ w ∈ l, w < 256 ^ k)
    (f : Nat) (hf : l.length ≤ f) : beWords k f (l.flatMap (beBytes k)) = l := by
  induction l generalizing f with
  | nil =>
    cases f with
    | zero => rfl
    | succ f =>
      have : ¬ k = 0 := by omega
      simp [beWords, hk]
  | cons w l ih =>
    cases f with
    | zero => simp at hf
    | succ f =>
      have hlen : (beBytes k w).length = k := beBytes_length k w
      rw [List.flatMap_cons]
      unfold beWords
      rw [List.take_left' hlen, List.drop_left' hlen, hlen, foldl_beBytes, Nat.zero_mul, Nat.zero_add,
        Nat.mod_eq_of_lt (h w (by simp)),
        ih (fun w hw => h w (List.mem_cons_of_mem _ hw)) f (by simpa using hf)]
      have : ¬ (k < k ∨ k = 0) := by omega
      rw [if_neg this]

theorem words_flatMap_beBytes (k : Nat) (hk : 0 < k) (l : List Nat) (h : ∀ w ∈ l, w < 256 ^ k) :
    words k (l.flatMap (beBytes k)) = l := by
  unfold words
  apply beWords_flatMap_beBytes k hk l h
  rw [flatMap_beBytes_length]
  exact Nat.le_mul_of_pos_left _ hk

end PsV.C08
