import PsV.Proofs.DerivSpec
/-!
Arbitrary-order derivatives: the recursive routine `bspline_deriv` (model `bsplineDerivRec`) computes the
specification's iterated knot-difference formula `Dind` with the right-continuous indicator, for every
knot function (exact arithmetic: `a/0 = 0` on both sides).
-/
namespace PsV
variable {α : Type} [Field α] [LinearOrder α]
attribute [local instance] Arith.ofField

theorem bsplineRec_eq_Bind (t : Int → α) (x : α) :
    ∀ (n : Nat) (i : Int), bsplineRec t x n i = Bind (indR t x) t x n i := by
  intro n
  induction n with
  | zero => intro i; simp [bsplineRec, Bind, indR]
  | succ n ih =>
    intro i
    simp only [bsplineRec, Bind, of_add, of_mul, of_div, of_sub, ih]
    ring

/-- for derivative order `k ≥ 1` the recursive routine is `Dind (indR) … k` -/
theorem bsplineDerivRec_eq_Dind (t : Int → α) (x : α) :
    ∀ (n : Nat) (i : Int) (k : Nat), 1 ≤ k → bsplineDerivRec t x n i k = Dind (indR t x) t x k n i := by
  intro n
  induction n with
  | zero =>
    intro i k hk
    obtain ⟨k', rfl⟩ : ∃ k', k = k' + 1 := ⟨k - 1, by omega⟩
    simp [bsplineDerivRec, Dind]
  | succ n ih =>
    intro i k hk
    obtain ⟨k', rfl⟩ : ∃ k', k = k' + 1 := ⟨k - 1, by omega⟩
    by_cases h1 : k' + 1 ≤ 1
    · have hk0 : k' = 0 := by omega
      subst hk0
      simp only [bsplineDerivRec, Dind, Nat.le_refl, if_true, of_sub, of_div, of_mul, of_ofNat, bsplineRec_eq_Bind]
      ring
    · simp only [bsplineDerivRec, h1, if_false, Dind, of_sub, of_div, of_mul, of_ofNat, Nat.add_sub_cancel]
      rw [ih i k' (by omega), ih (i+1) k' (by omega)]
      ring


/-- iterated knot-difference formula on the polynomial piece `left` -/
def DkBp (t : Int → α) (x : α) (left : Int) : (k : Nat) → (n : Nat) → Int → α
  | 0, n, i => Bp t x left n i
  | _+1, 0, _ => 0
  | k+1, n+1, i =>
    ((n + 1 : Nat) : α) * (DkBp t x left k n i / (t (i + n + 1) - t i) - DkBp t x left k n (i+1) / (t (i + n + 2) - t (i + 1)))

theorem Dind_eq_DkBp (t : Int → α) (x : α) (nknots : Nat) (l : Int) (ind : Int → Bool)
    (hind : ∀ i : Int, 0 ≤ i → i ≤ (nknots:Int) - 2 → (ind i = true ↔ i = l)) :
    ∀ (k n : Nat) (i : Int), 0 ≤ i → i + n + 1 ≤ (nknots:Int) - 1 → Dind ind t x k n i = DkBp t x l k n i := by
  intro k
  induction k with
  | zero => intro n i h0 h1; simp only [Dind, DkBp]; exact Bind_eq_Bp t x nknots l ind hind n i h0 h1
  | succ k ih =>
    intro n i h0 h1
    cases n with
    | zero => simp [Dind, DkBp]
    | succ n =>
      simp only [Dind, DkBp, of_mul, of_sub, of_div, of_ofNat]
      rw [ih n i h0 (by push_cast at h1; omega), ih n (i+1) (by omega) (by push_cast at h1; omega)]

theorem DkBp_zero_of_not_mem (t : Int → α) (x : α) (left : Int) :
    ∀ (k n : Nat) (i : Int), (left < i ∨ i + n < left) → DkBp t x left k n i = 0 := by
  intro k
  induction k with
  | zero => intro n i h; exact Bp_zero_of_not_mem t x left n i h
  | succ k ih =>
    intro n i h
    cases n with
    | zero => simp [DkBp]
    | succ n =>
      simp only [DkBp]
      have a : DkBp t x left k n i = 0 := ih n i (by rcases h with h | h; exact Or.inl h; exact Or.inr (by push_cast at h; omega))
      have b : DkBp t x left k n (i+1) = 0 := ih n (i+1) (by rcases h with h | h; exact Or.inl (by omega); exact Or.inr (by push_cast at h; omega))
      rw [a, b]; simp

end PsV
