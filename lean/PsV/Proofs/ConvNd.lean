import PsV.Proofs.ConvNd2
/-!
# Strøm's identity for the whole table

`convolve_is_convolution`: the table returned by `convolve`, evaluated through the shared Cox–de Boor specification,
is the specification's convolution integral of the original table.
-/
namespace PsV
open Finset ConvSpec

/-- the basis values do not depend on the stride -/
theorem vsOf_congr (e e' : CDim Rat) (x : Rat) (h1 : e'.order = e.order) (h2 : e'.naxes = e.naxes)
    (h3 : e'.knots = e.knots) : vsOf (e', x) = vsOf (e, x) := by
  cases e; cases e'
  simp only at h1 h2 h3
  subst h1 h2 h3
  rfl

theorem vssAll_getElem?_congr (ds ds' : List (CDim Rat)) (xs : List Rat) (j : Nat) (hlen : ds'.length = ds.length)
    (h : ∀ e, ds[j]? = some e → ∃ e', ds'[j]? = some e' ∧ e'.order = e.order ∧ e'.naxes = e.naxes ∧ e'.knots = e.knots) :
    (vssAll ds' xs)[j]? = (vssAll ds xs)[j]? := by
  unfold vssAll
  rw [List.getElem?_map, List.getElem?_map]
  rcases hj : ds[j]? with _ | e
  · have hge : ds.length ≤ j := List.getElem?_eq_none_iff.mp hj
    rw [List.getElem?_eq_none (by rw [List.length_zip]; omega), List.getElem?_eq_none (by rw [List.length_zip]; omega)]
  · obtain ⟨e', he', h1, h2, h3⟩ := h e hj
    rcases hx : xs[j]? with _ | x
    · have hge : xs.length ≤ j := List.getElem?_eq_none_iff.mp hx
      rw [List.getElem?_eq_none (by rw [List.length_zip]; omega), List.getElem?_eq_none (by rw [List.length_zip]; omega)]
    · rw [(List.getElem?_zip_eq_some (z := (e', x))).mpr ⟨he', hx⟩, (List.getElem?_zip_eq_some (z := (e, x))).mpr ⟨hj, hx⟩]
      show some (vsOf (e', x)) = some (vsOf (e, x))
      rw [vsOf_congr e e' x h1 h2 h3]

theorem take_congr_index {β : Type} (l1 l2 : List β) (n : Nat) (h : ∀ j, j < n → l1[j]? = l2[j]?) :
    l1.take n = l2.take n := by
  apply List.ext_getElem?
  intro j
  rw [List.getElem?_take, List.getElem?_take]
  by_cases hj : j < n
  · rw [if_pos hj, if_pos hj]; exact h j hj
  · rw [if_neg hj, if_neg hj]

theorem drop_congr_index {β : Type} (l1 l2 : List β) (n : Nat) (h : ∀ j, n ≤ j → l1[j]? = l2[j]?) :
    l1.drop n = l2.drop n := by
  apply List.ext_getElem?
  intro j
  rw [List.getElem?_drop, List.getElem?_drop]
  exact h (n + j) (by omega)

/-- the finite-sum rearrangement behind the theorem: slices, linearity of the integral, contraction -/
theorem assemble_sums (cR cT W W' B Kf : Nat → Rat) (s1 s2 nNew nOld : Nat) (conv : (Nat → Rat) → Rat)
    (hconv : ∀ c, conv c = ∑ j ∈ range nOld, c j * Kf j)
    (hslice : ∀ I K, I < s1 → K < s2 →
      ∑ l ∈ range nNew, cR (I*s2*nNew + l*s2 + K) * B l = conv (fun j => cT (I*s2*nOld + j*s2 + K)))
    (ctil : Nat → Rat)
    (hctil : ∀ j, j < nOld → ctil j = ∑ I ∈ range s1, ∑ K ∈ range s2, W I * W' K * cT (I*s2*nOld + j*s2 + K)) :
    ∑ I ∈ range s1, ∑ K ∈ range s2, W I * W' K * ∑ m ∈ range nNew, cR (I*s2*nNew + m*s2 + K) * B m = conv ctil := by
  rw [hconv ctil]
  have e1 : ∑ j ∈ range nOld, ctil j * Kf j =
      ∑ j ∈ range nOld, ∑ I ∈ range s1, ∑ K ∈ range s2, W I * W' K * cT (I*s2*nOld + j*s2 + K) * Kf j := by
    apply Finset.sum_congr rfl
    intro j hj
    rw [hctil j (mem_range.mp hj), Finset.sum_mul]
    apply Finset.sum_congr rfl
    intro I _
    rw [Finset.sum_mul]
  rw [e1]
  conv_rhs => rw [Finset.sum_comm]
  apply Finset.sum_congr rfl
  intro I hI
  conv_rhs => rw [Finset.sum_comm]
  apply Finset.sum_congr rfl
  intro K hK
  rw [hslice I K (mem_range.mp hI) (mem_range.mp hK), hconv, Finset.mul_sum]
  apply Finset.sum_congr rfl
  intro j _
  ring

/-- **Strøm's identity for the table**: the table returned by `convolve`, evaluated at `xs` through the shared
Cox–de Boor specification (sum over ALL stored coefficients of coef · Π_d B_d(x_d)), is the specification's
convolution integral of the original table, for every point whose coordinate `dim` lies in the new knot range. -/
theorem convolve_is_convolution (T : CTable Rat) (dim : Nat) (ck : List Rat) (d : CDim Rat) (xs : List Rat)
    (hd : T.dims[dim]? = some d)
    (hstr : ∀ j e, T.dims[j]? = some e → e.stride = ((T.dims.map (·.naxes)).drop (j+1)).prod)
    (hxs : xs.length = T.dims.length)
    (hk : d.knots.length = d.nknots) (hnax : d.naxes + d.order + 1 = d.nknots) (hn1 : 1 ≤ d.naxes)
    (hτ : d.knots.Pairwise (· < ·)) (hy : ck.Pairwise (· < ·)) (hq : 2 ≤ ck.length)
    (h12 : d.order + ck.length - 1 ≤ 12) :
    ∃ R d', convolve T dim ck = some R ∧ R.dims[dim]? = some d' ∧
      (getK d'.knots 0 ≤ xs.getD dim 0 → xs.getD dim 0 ≤ getK d'.knots (d'.nknots - 1) →
        ConvSpec.evalTable R xs = ConvSpec.specConv T dim ck xs) := by
  obtain ⟨R, d', hR, hd', -, -, -, -, -, hslice⟩ :=
    convolve_slices_spec T dim ck d hd hk hnax hn1 hτ hy hq h12
  obtain ⟨R2, hR2, hRlen, -, hother, hstrR, -⟩ := convolve_shape T dim ck d hd hk
  have hRR : R2 = R := Option.some.inj (hR2.symm.trans hR)
  subst hRR
  refine ⟨R2, d', hR, hd', fun hx1 hx2 => ?_⟩
  -- the basis values of the dimensions other than `dim` are unchanged
  have hcongr : ∀ j, j ≠ dim → (vssAll R2.dims xs)[j]? = (vssAll T.dims xs)[j]? := by
    intro j hj
    apply vssAll_getElem?_congr T.dims R2.dims xs j hRlen
    intro e he
    obtain ⟨e', he', h1, -, h2, h3, -, -⟩ := hother j e hj he
    exact ⟨e', he', h1, h2, h3⟩
  have hpre : (vssAll R2.dims xs).take dim = (vssAll T.dims xs).take dim :=
    take_congr_index _ _ _ (fun j hj => hcongr j (by omega))
  have hpost : (vssAll R2.dims xs).drop (dim+1) = (vssAll T.dims xs).drop (dim+1) :=
    drop_congr_index _ _ _ (fun j hj => hcongr j (by omega))
  obtain ⟨hT1, -, hT3, hT4⟩ := rows_flat T.dims dim xs d hd hstr hxs
  obtain ⟨-, hR2', -, -⟩ := rows_flat R2.dims dim xs d' hd' hstrR (by omega)
  rw [hpre, hpost] at hR2'
  -- the linear form of the integral
  obtain ⟨q', hq'⟩ : ∃ q', ck.length - 1 = q' + 1 := ⟨ck.length - 2, by omega⟩
  obtain ⟨Kf, hKf⟩ := conv1_linear_form (getK d.knots) d.nknots d.order d.naxes (getK ck) q' (xs.getD dim 0) hnax
    (fun a b hab hb => getK_strict d.knots hτ a b hab (by omega))
    (fun a b hab hb => getK_strict ck hy a b hab (by omega))
  rw [← hq'] at hKf
  rw [evalTable_eq, hR2', contract_rows_some, vsOf_length]
  unfold specConv
  simp only [hd]
  rw [hT3, hT4]
  have hB : ∀ I K, ∑ m ∈ range d'.naxes,
        R2.coef.getD (I * prodL ((T.dims.map (·.naxes)).drop (dim+1)) * d'.naxes
          + m * prodL ((T.dims.map (·.naxes)).drop (dim+1)) + K) 0 * (vsOf (d', xs.getD dim 0)).getD m 0 =
      ∑ m ∈ range d'.naxes,
        R2.coef.getD (I * prodL ((T.dims.map (·.naxes)).drop (dim+1)) * d'.naxes
          + m * prodL ((T.dims.map (·.naxes)).drop (dim+1)) + K) 0 * Bsel (toDim d') (xs.getD dim 0) 0 m := by
    intro I K
    apply Finset.sum_congr rfl
    intro m hm
    rw [vsOf_getD (d', xs.getD dim 0) m (mem_range.mp hm)]
  simp only [hB]
  exact assemble_sums (fun p => R2.coef.getD p 0) (fun p => T.coef.getD p 0) _ _ _ Kf _ _ _ d.naxes
    (fun c => conv1 (getK d.knots) d.nknots d.order d.naxes c (getK ck) (ck.length - 1) (xs.getD dim 0))
    hKf
    (fun I K hI hK => hslice I K hI hK (xs.getD dim 0) hx1 hx2)
    _
    (fun j hj => by rw [rd_tab _ _ j hj, hT1, contract_rows_none, hT3, hT4])

end PsV
