import PsV.Model.FitsBytes
/-! Card-level lemmas for the C08 round trip: keys and value fields of the cards the encoder writes are found again by
    the reader's look-ups (`findCard`, `intKey`, `bytesPerPix`, `axes`, `extName`). -/
namespace PsV.C08

/-! ## padding -/

theorem padRight_eq_self {n fill : Nat} {b : Bytes} (h : n ≤ b.length) : padRight n fill b = b := by
  unfold padRight
  have : n - b.length = 0 := by omega
  rw [this]; simp

theorem padRight_length {n fill : Nat} {b : Bytes} (h : b.length ≤ n) : (padRight n fill b).length = n := by
  unfold padRight; simp; omega

theorem padLeft_length {n fill : Nat} {b : Bytes} (h : b.length ≤ n) : (padLeft n fill b).length = n := by
  unfold padLeft; simp; omega

/-! ## key and value field of a card -/

theorem card_key_padRight (key tail : Bytes) (hk : key.length = 8) :
    card_key (padRight 80 32 (key ++ tail)) = key := by
  unfold card_key padRight
  rw [List.append_assoc, List.take_append_of_le_length (by omega)]
  rw [← hk]; exact List.take_length

theorem card_key_cardOf (key field : Bytes) (comment : String) (hk : key.length = 8) :
    card_key (cardOf key field comment) = key := by
  unfold cardOf
  rw [padRight_eq_self (n := 8) (by omega), List.append_assoc, List.append_assoc]
  exact card_key_padRight key _ hk

theorem str_eq_space : str "= " = [61, 32] := by decide

theorem card_field_cardOf (key field : Bytes) (comment : String) (hk : key.length = 8) (hf : field.length = 20) :
    card_field (cardOf key field comment) = field := by
  unfold cardOf card_field
  rw [padRight_eq_self (n := 8) (by omega), str_eq_space]
  unfold padRight
  have e : ∀ (c p : Bytes), ((key ++ [61, 32] ++ field ++ c ++ p).drop 10).take 20 = field := by
    intro c p
    have h10 : (key ++ [61, 32]).length = 10 := by simp [hk]
    rw [List.append_assoc (key ++ [61, 32]), List.append_assoc (key ++ [61, 32]), ← h10, List.drop_left,
      List.append_assoc, ← hf, List.take_left]
  exact e _ _

theorem cardOf_length (key field : Bytes) (comment : String) (hk : key.length = 8) (hf : field.length = 20)
    (hc : (if comment = "" then [] else str (" / " ++ comment)).length ≤ 50) :
    (cardOf key field comment).length = 80 := by
  unfold cardOf
  apply padRight_length
  rw [padRight_eq_self (n := 8) (by omega), str_eq_space]
  simp only [List.length_append, hk, hf, List.length_cons, List.length_nil]
  omega

/-! ## look-ups -/

theorem findCard_cons_eq {c : Bytes} {cs : List Bytes} {key : Bytes} (h : card_key c = key) :
    findCard (c :: cs) key = some c := by
  unfold findCard; simp [List.find?, h]

theorem findCard_cons_ne {c : Bytes} {cs : List Bytes} {key : Bytes} (h : card_key c ≠ key) :
    findCard (c :: cs) key = findCard cs key := by
  unfold findCard
  have : (card_key c == key) = false := by simpa using h
  simp [List.find?, this]

theorem findCard_append_skip {l₁ l₂ : List Bytes} {key : Bytes} (h : ∀ c ∈ l₁, card_key c ≠ key) :
    findCard (l₁ ++ l₂) key = findCard l₂ key := by
  induction l₁ with
  | nil => rfl
  | cons c cs ih =>
    rw [List.cons_append, findCard_cons_ne (h c (List.mem_cons_self ..))]
    exact ih (fun c' hc' => h c' (List.mem_cons_of_mem _ hc'))

theorem findCard_none {l : List Bytes} {key : Bytes} (h : ∀ c ∈ l, card_key c ≠ key) : findCard l key = none := by
  have := findCard_append_skip (l₂ := []) h
  rw [List.append_nil] at this
  rw [this]; rfl

theorem findCard_map_range' (f : Nat → Bytes) (kf : Nat → Bytes) (i : Nat) (rest : List Bytes)
    (hne : ∀ j, j < i → kf j ≠ kf i) : ∀ (m s : Nat), s ≤ i → i < s + m →
    (∀ j, s ≤ j → j < s + m → card_key (f j) = kf j) →
    findCard ((List.range' s m).map f ++ rest) (kf i) = some (f i)
  | 0, s, h1, h2, _ => absurd h2 (by omega)
  | m+1, s, h1, h2, hk => by
    rw [List.range'_succ, List.map_cons, List.cons_append]
    by_cases hs : s = i
    · subst hs
      exact findCard_cons_eq (hk s (Nat.le_refl _) (by omega))
    · have hlt : s < i := by omega
      rw [findCard_cons_ne (by rw [hk s (Nat.le_refl _) (by omega)]; exact hne s hlt)]
      exact findCard_map_range' f kf i rest hne m (s+1) (by omega) (by omega)
        (fun j h3 h4 => hk j (by omega) (by omega))

/-- the `i`-th of a run of generated cards with pairwise different keys is found by its key -/
theorem findCard_map_range (f : Nat → Bytes) (kf : Nat → Bytes) (n i : Nat) (rest : List Bytes) (hi : i < n)
    (hk : ∀ j, j < n → card_key (f j) = kf j) (hne : ∀ j, j < i → kf j ≠ kf i) :
    findCard ((List.range n).map f ++ rest) (kf i) = some (f i) := by
  rw [List.range_eq_range']
  exact findCard_map_range' f kf i rest hne n 0 (Nat.zero_le _) (by omega) (fun j _ h => hk j (by omega))

end PsV.C08
