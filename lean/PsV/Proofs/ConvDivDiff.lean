import PsV.Model.Convolve
import Mathlib.Algebra.Order.Field.Rat
import Mathlib.Algebra.BigOperators.Group.Finset.Basic
import Mathlib.Algebra.BigOperators.Ring.Finset
import Mathlib.Tactic.Ring
import Mathlib.Tactic.FieldSimp
import Mathlib.Tactic.Linarith
import Mathlib.Tactic.LinearCombination
/-!
# Divided differences (the model's `PsV.divdiff` at `Rat`)

`divdiff x f n o` is the divided difference `[x_o, …, x_{o+n-1}] f` of the values `f o … f (o+n-1)`.
Proved here, for pairwise distinct nodes where needed:
* it only reads `f` on the window, it is linear (also over finite sums),
* Leibniz' rule for a linear factor: `[x_o..x_{o+n}] ((x-a)·f) = (x_{o+n}-a)·[x_o..x_{o+n}] f + [x_o..x_{o+n-1}] f`,
* it annihilates products of fewer than `n-1` linear factors, and is `1` on a product of exactly `n-1`,
* the two-variable version for products of linear factors in `x_a + y_b` (what `convoluted_blossom` differences).
-/
namespace PsV
open Finset

/-- nodes pairwise distinct on the window `[o, o+n)` (strictly increasing knots are) -/
def DistinctOn (x : Nat → Rat) (o n : Nat) : Prop := ∀ a b, o ≤ a → a < b → b < o + n → x a ≠ x b

theorem DistinctOn.mono {x : Nat → Rat} {o n o' n' : Nat} (h : DistinctOn x o n) (h1 : o ≤ o') (h2 : o' + n' ≤ o + n) :
    DistinctOn x o' n' := fun a b ha hab hb => h a b (by omega) hab (by omega)

theorem distinctOn_of_strictMono {x : Nat → Rat} {o n : Nat}
    (h : ∀ a b, o ≤ a → a < b → b < o + n → x a < x b) : DistinctOn x o n :=
  fun a b ha hab hb => ne_of_lt (h a b ha hab hb)

theorem dd_zero (x f : Nat → Rat) (o : Nat) : divdiff x f 0 o = 0 := rfl
theorem dd_one (x f : Nat → Rat) (o : Nat) : divdiff x f 1 o = f o := rfl
theorem dd_succ (x f : Nat → Rat) (n o : Nat) :
    divdiff x f (n+2) o = (divdiff x f (n+1) (o+1) - divdiff x f (n+1) o) / (x (o+n+1) - x o) := rfl

/-- only the values on the window matter -/
theorem dd_congr (x f g : Nat → Rat) : ∀ (n o : Nat), (∀ i, o ≤ i → i < o + n → f i = g i) →
    divdiff x f n o = divdiff x g n o
  | 0, _, _ => rfl
  | 1, o, h => h o (le_refl _) (by omega)
  | n+2, o, h => by
    rw [dd_succ, dd_succ, dd_congr x f g (n+1) (o+1) (fun i h1 h2 => h i (by omega) (by omega)),
      dd_congr x f g (n+1) o (fun i h1 h2 => h i h1 (by omega))]

/-- only the nodes on the window matter -/
theorem dd_congr_nodes (x x' f : Nat → Rat) : ∀ (n o : Nat), (∀ i, o ≤ i → i < o + n → x i = x' i) →
    divdiff x f n o = divdiff x' f n o
  | 0, _, _ => rfl
  | 1, _, _ => rfl
  | n+2, o, h => by
    rw [dd_succ, dd_succ, dd_congr_nodes x x' f (n+1) (o+1) (fun i h1 h2 => h i (by omega) (by omega)),
      dd_congr_nodes x x' f (n+1) o (fun i h1 h2 => h i h1 (by omega)),
      h (o+n+1) (by omega) (by omega), h o (le_refl _) (by omega)]

theorem dd_add (x f g : Nat → Rat) : ∀ (n o : Nat),
    divdiff x (fun i => f i + g i) n o = divdiff x f n o + divdiff x g n o
  | 0, _ => by simp [dd_zero]
  | 1, _ => rfl
  | n+2, o => by
    rw [dd_succ, dd_succ, dd_succ, dd_add x f g (n+1) (o+1), dd_add x f g (n+1) o]; ring

theorem dd_smul (x f : Nat → Rat) (c : Rat) : ∀ (n o : Nat),
    divdiff x (fun i => c * f i) n o = c * divdiff x f n o
  | 0, _ => by simp [dd_zero]
  | 1, _ => rfl
  | n+2, o => by
    rw [dd_succ, dd_succ, dd_smul x f c (n+1) (o+1), dd_smul x f c (n+1) o]; ring

theorem dd_zero_fun (x : Nat → Rat) (n o : Nat) : divdiff x (fun _ => 0) n o = 0 := by
  have := dd_smul x (fun _ => 0) 0 n o
  simpa using this

theorem dd_sub (x f g : Nat → Rat) (n o : Nat) :
    divdiff x (fun i => f i - g i) n o = divdiff x f n o - divdiff x g n o := by
  have h1 : (fun i => f i - g i) = (fun i => f i + (-1) * g i) := by funext i; ring
  rw [h1, dd_add, dd_smul]; ring

theorem dd_sum {ι : Type} (s : Finset ι) (x : Nat → Rat) (F : ι → Nat → Rat) (n o : Nat) :
    divdiff x (fun i => ∑ e ∈ s, F e i) n o = ∑ e ∈ s, divdiff x (F e) n o := by
  classical
  induction s using Finset.induction_on with
  | empty => simp [dd_zero_fun]
  | insert a s ha ih =>
    simp only [Finset.sum_insert ha]
    rw [dd_add, ih]

/-- constants are annihilated by two or more points -/
theorem dd_const (x : Nat → Rat) (c : Rat) : ∀ (n o : Nat), divdiff x (fun _ => c) (n+2) o = 0
  | 0, o => by rw [dd_succ, dd_one, dd_one]; simp
  | n+1, o => by rw [dd_succ, dd_const x c n (o+1), dd_const x c n o]; simp

/-- **Leibniz' rule for a linear factor** -/
theorem dd_leibniz_lin (x f : Nat → Rat) (a : Rat) : ∀ (n o : Nat), DistinctOn x o (n+1) →
    divdiff x (fun i => (x i - a) * f i) (n+1) o =
      (x (o+n) - a) * divdiff x f (n+1) o + divdiff x f n o
  | 0, o, _ => by simp [dd_one, dd_zero]
  | n+1, o, hd => by
    have h1 := dd_leibniz_lin x f a n (o+1) (hd.mono (by omega) (by omega))
    have h0 := dd_leibniz_lin x f a n o (hd.mono (by omega) (by omega))
    have hne : x (o+n+1) - x o ≠ 0 := sub_ne_zero.mpr (Ne.symm (hd o (o+n+1) (le_refl _) (by omega) (by omega)))
    rw [dd_succ, h1, h0, dd_succ]
    have e1 : o + 1 + n = o + n + 1 := by omega
    rw [e1]
    -- the lower-order identity: (x_{o+n} - x_o) * D_{n+1}^o f = D_n^{o+1} f - D_n^o f
    have key : (x (o+n) - x o) * divdiff x f (n+1) o = divdiff x f n (o+1) - divdiff x f n o := by
      cases n with
      | zero => simp [dd_one, dd_zero]
      | succ m =>
        have hne' : x (o+m+1) - x o ≠ 0 :=
          sub_ne_zero.mpr (Ne.symm (hd o (o+m+1) (le_refl _) (by omega) (by omega)))
        rw [dd_succ]
        have e2 : o + (m+1) = o + m + 1 := by omega
        rw [e2]
        field_simp
    have e3 : o + (n + 1) = o + n + 1 := by omega
    rw [e3]
    field_simp
    linear_combination (-1 : Rat) * key

/-- product of `d` linear factors `Π_{m<d} (s - c m)` -/
def linProd (c : Nat → Rat) (d : Nat) (s : Rat) : Rat := ∏ m ∈ range d, (s - c m)

theorem linProd_zero (c : Nat → Rat) (s : Rat) : linProd c 0 s = 1 := by simp [linProd]
theorem linProd_succ (c : Nat → Rat) (d : Nat) (s : Rat) : linProd c (d+1) s = (s - c d) * linProd c d s := by
  simp [linProd, prod_range_succ, mul_comm]

/-- a divided difference over `n` points annihilates products of fewer than `n-1` linear factors … -/
theorem dd_linProd_zero (x c : Nat → Rat) : ∀ (d n o : Nat), DistinctOn x o n → d + 2 ≤ n →
    divdiff x (fun i => linProd c d (x i)) n o = 0
  | 0, n, o, _, h => by
    obtain ⟨m, rfl⟩ : ∃ m, n = m + 2 := ⟨n - 2, by omega⟩
    simp only [linProd_zero]
    exact dd_const x 1 m o
  | d+1, n, o, hd, h => by
    obtain ⟨m, rfl⟩ : ∃ m, n = m + 1 := ⟨n - 1, by omega⟩
    simp only [linProd_succ]
    rw [dd_leibniz_lin x _ (c d) m o hd,
      dd_linProd_zero x c d (m+1) o hd (by omega),
      dd_linProd_zero x c d m o (hd.mono (le_refl _) (by omega)) (by omega)]
    ring

/-- … and is `1` on a product of exactly `n-1` (the leading coefficient) -/
theorem dd_linProd_one (x c : Nat → Rat) : ∀ (d o : Nat), DistinctOn x o (d+1) →
    divdiff x (fun i => linProd c d (x i)) (d+1) o = 1
  | 0, o, _ => by simp [dd_one, linProd_zero]
  | d+1, o, hd => by
    simp only [linProd_succ]
    rw [dd_leibniz_lin x _ (c d) (d+1) o hd,
      dd_linProd_zero x c d (d+2) o hd (by omega),
      dd_linProd_one x c d o (hd.mono (le_refl _) (by omega))]
    ring

/-! ## two variables -/

/-- `[x_ox .. ]_a [y_oy ..]_b g(a, b)` -/
def dd2 (x y : Nat → Rat) (g : Nat → Nat → Rat) (nx ox ny oy : Nat) : Rat :=
  divdiff x (fun a => divdiff y (fun b => g a b) ny oy) nx ox

theorem dd2_congr (x y : Nat → Rat) (g h : Nat → Nat → Rat) (nx ox ny oy : Nat)
    (e : ∀ a b, ox ≤ a → a < ox + nx → oy ≤ b → b < oy + ny → g a b = h a b) :
    dd2 x y g nx ox ny oy = dd2 x y h nx ox ny oy := by
  unfold dd2
  apply dd_congr
  intro a h1 h2
  apply dd_congr
  intro b h3 h4
  exact e a b h1 h2 h3 h4

theorem dd2_add (x y : Nat → Rat) (g h : Nat → Nat → Rat) (nx ox ny oy : Nat) :
    dd2 x y (fun a b => g a b + h a b) nx ox ny oy = dd2 x y g nx ox ny oy + dd2 x y h nx ox ny oy := by
  unfold dd2
  rw [← dd_add]
  apply dd_congr; intro a _ _
  exact dd_add y _ _ ny oy

theorem dd2_sub (x y : Nat → Rat) (g h : Nat → Nat → Rat) (nx ox ny oy : Nat) :
    dd2 x y (fun a b => g a b - h a b) nx ox ny oy = dd2 x y g nx ox ny oy - dd2 x y h nx ox ny oy := by
  unfold dd2
  rw [← dd_sub]
  apply dd_congr; intro a _ _
  exact dd_sub y _ _ ny oy

theorem dd2_smul (x y : Nat → Rat) (g : Nat → Nat → Rat) (c : Rat) (nx ox ny oy : Nat) :
    dd2 x y (fun a b => c * g a b) nx ox ny oy = c * dd2 x y g nx ox ny oy := by
  unfold dd2
  rw [← dd_smul]
  apply dd_congr; intro a _ _
  exact dd_smul y _ c ny oy

theorem dd2_sum {ι : Type} (s : Finset ι) (x y : Nat → Rat) (G : ι → Nat → Nat → Rat) (nx ox ny oy : Nat) :
    dd2 x y (fun a b => ∑ e ∈ s, G e a b) nx ox ny oy = ∑ e ∈ s, dd2 x y (G e) nx ox ny oy := by
  unfold dd2
  rw [← dd_sum]
  apply dd_congr; intro a _ _
  exact dd_sum s y (fun e b => G e a b) ny oy

theorem dd2_zero_fun (x y : Nat → Rat) (nx ox ny oy : Nat) : dd2 x y (fun _ _ => 0) nx ox ny oy = 0 := by
  unfold dd2
  rw [show (fun a => divdiff y (fun _ => (0:Rat)) ny oy) = fun _ => (0:Rat) from funext fun _ => dd_zero_fun y ny oy]
  exact dd_zero_fun x nx ox

/-- a function of `a` only is annihilated by two or more `y`-points, … -/
theorem dd2_of_left (x y : Nat → Rat) (f : Nat → Rat) (nx ox ny oy : Nat) :
    dd2 x y (fun a _ => f a) nx ox (ny+2) oy = 0 := by
  unfold dd2
  rw [show (fun a => divdiff y (fun _ => f a) (ny+2) oy) = fun _ => (0:Rat) from funext fun a => dd_const y (f a) ny oy]
  exact dd_zero_fun x nx ox

/-- the order of the two differences can be exchanged -/
theorem dd2_swap (x y : Nat → Rat) (g : Nat → Nat → Rat) : ∀ (nx ox ny oy : Nat),
    dd2 x y g nx ox ny oy = dd2 y x (fun b a => g a b) ny oy nx ox
  | 0, ox, ny, oy => by
    unfold dd2
    rw [dd_zero]
    rw [show (fun b => divdiff x (fun a => g a b) 0 ox) = fun _ => (0:Rat) from funext fun _ => rfl]
    exact (dd_zero_fun y ny oy).symm
  | 1, ox, ny, oy => by
    unfold dd2
    rw [dd_one]
    rfl
  | nx+2, ox, ny, oy => by
    have h1 := dd2_swap x y g (nx+1) (ox+1) ny oy
    have h0 := dd2_swap x y g (nx+1) ox ny oy
    unfold dd2 at h1 h0 ⊢
    rw [dd_succ, h1, h0]
    have : (fun b => divdiff x (fun a => g a b) (nx+2) ox) =
        fun b => (1 / (x (ox+nx+1) - x ox)) * (divdiff x (fun a => g a b) (nx+1) (ox+1) - divdiff x (fun a => g a b) (nx+1) ox) := by
      funext b; rw [dd_succ]; ring
    rw [this, dd_smul, dd_sub]
    ring

/-- … and a function of `b` only by two or more `x`-points -/
theorem dd2_of_right (x y : Nat → Rat) (f : Nat → Rat) (nx ox ny oy : Nat) :
    dd2 x y (fun _ b => f b) (nx+2) ox ny oy = 0 := by
  rw [dd2_swap]
  exact dd2_of_left y x f ny oy nx ox

/-- Leibniz for a factor linear in `x_a + y_b` -/
theorem dd2_leibniz_lin (x y : Nat → Rat) (g : Nat → Nat → Rat) (β : Rat) (nx ox ny oy : Nat)
    (hx : DistinctOn x ox (nx+1)) (hy : DistinctOn y oy (ny+1)) :
    dd2 x y (fun a b => (x a + y b - β) * g a b) (nx+1) ox (ny+1) oy =
      (x (ox+nx) + y (oy+ny) - β) * dd2 x y g (nx+1) ox (ny+1) oy
      + dd2 x y g nx ox (ny+1) oy + dd2 x y g (nx+1) ox ny oy := by
  unfold dd2
  -- inner: (y b - (β - x a)) * g a b
  have inner : ∀ a, divdiff y (fun b => (x a + y b - β) * g a b) (ny+1) oy =
      (x a - (β - y (oy+ny))) * divdiff y (fun b => g a b) (ny+1) oy + divdiff y (fun b => g a b) ny oy := by
    intro a
    have := dd_leibniz_lin y (fun b => g a b) (β - x a) ny oy hy
    rw [show (fun b => (x a + y b - β) * g a b) = fun b => (y b - (β - x a)) * g a b from by funext b; ring, this]
    ring
  rw [show (fun a => divdiff y (fun b => (x a + y b - β) * g a b) (ny+1) oy) =
      fun a => (x a - (β - y (oy+ny))) * divdiff y (fun b => g a b) (ny+1) oy + divdiff y (fun b => g a b) ny oy
    from funext inner]
  rw [dd_add, dd_leibniz_lin x _ (β - y (oy+ny)) nx ox hx]
  ring

/-- the double difference annihilates products of fewer than `(nx-1)+(ny-1)` linear factors in `x_a + y_b` -/
theorem dd2_linProd_zero (x y c : Nat → Rat) (ox oy : Nat) : ∀ (d nx ny : Nat),
    DistinctOn x ox nx → DistinctOn y oy ny → 1 ≤ nx → 1 ≤ ny → d + 3 ≤ nx + ny →
    dd2 x y (fun a b => linProd c d (x a + y b)) nx ox ny oy = 0
  | 0, nx, ny, _, _, h1, h2, h => by
    simp only [linProd_zero]
    by_cases hny : 2 ≤ ny
    · obtain ⟨m, rfl⟩ : ∃ m, ny = m + 2 := ⟨ny - 2, by omega⟩
      exact dd2_of_left x y (fun _ => 1) nx ox m oy
    · obtain ⟨m, rfl⟩ : ∃ m, nx = m + 2 := ⟨nx - 2, by omega⟩
      exact dd2_of_right x y (fun _ => 1) m ox ny oy
  | d+1, nx, ny, hx, hy, h1, h2, h => by
    obtain ⟨mx, rfl⟩ : ∃ m, nx = m + 1 := ⟨nx - 1, by omega⟩
    obtain ⟨my, rfl⟩ : ∃ m, ny = m + 1 := ⟨ny - 1, by omega⟩
    simp only [linProd_succ]
    rw [dd2_leibniz_lin x y _ (c d) mx ox my oy hx hy,
      dd2_linProd_zero x y c ox oy d (mx+1) (my+1) hx hy h1 h2 (by omega)]
    have z1 : dd2 x y (fun a b => linProd c d (x a + y b)) mx ox (my+1) oy = 0 := by
      by_cases hm : mx = 0
      · subst hm; unfold dd2; rfl
      · exact dd2_linProd_zero x y c ox oy d mx (my+1) (hx.mono (le_refl _) (by omega)) hy (by omega) h2 (by omega)
    have z2 : dd2 x y (fun a b => linProd c d (x a + y b)) (mx+1) ox my oy = 0 := by
      by_cases hm : my = 0
      · subst hm; unfold dd2
        rw [show (fun a => divdiff y (fun b => linProd c d (x a + y b)) 0 oy) = fun _ => (0:Rat) from funext fun _ => rfl]
        exact dd_zero_fun x _ _
      · exact dd2_linProd_zero x y c ox oy d (mx+1) my hx (hy.mono (le_refl _) (by omega)) h1 (by omega) (by omega)
    rw [z1, z2]; ring

end PsV

namespace PsV
open Finset

/-! ## explicit weights, shifting -/

/-- weight of `f i` in `divdiff x f n o` -/
def ddW (x : Nat → Rat) : Nat → Nat → Nat → Rat
  | 0, _, _ => 0
  | 1, o, i => if i = o then 1 else 0
  | n+2, o, i => (ddW x (n+1) (o+1) i - ddW x (n+1) o i) / (x (o+n+1) - x o)

/-- a divided difference is a fixed linear combination of the values -/
theorem dd_eq_sum (x f : Nat → Rat) : ∀ (n o N : Nat), o + n ≤ N →
    divdiff x f n o = ∑ i ∈ range N, ddW x n o i * f i
  | 0, o, N, _ => by simp [dd_zero, ddW]
  | 1, o, N, h => by
    simp only [dd_one, ddW, ite_mul, one_mul, zero_mul]
    rw [Finset.sum_ite_eq' (range N) o f]
    simp [show o < N by omega]
  | n+2, o, N, h => by
    rw [dd_succ, dd_eq_sum x f (n+1) (o+1) N (by omega), dd_eq_sum x f (n+1) o N (by omega)]
    simp only [ddW]
    rw [← Finset.sum_sub_distrib, div_eq_mul_inv, Finset.sum_mul]
    apply Finset.sum_congr rfl
    intro i _
    ring

theorem dd_shift (x f : Nat → Rat) (j : Nat) : ∀ (n o : Nat),
    divdiff (fun a => x (j + a)) (fun a => f (j + a)) n o = divdiff x f n (j + o)
  | 0, _ => rfl
  | 1, _ => rfl
  | n+2, o => by
    rw [dd_succ, dd_succ, dd_shift x f j (n+1) (o+1), dd_shift x f j (n+1) o]
    have e1 : j + (o + 1) = j + o + 1 := by omega
    have e2 : j + (o + n + 1) = j + o + n + 1 := by omega
    rw [e1, e2]

end PsV
