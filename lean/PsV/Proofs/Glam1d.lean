import PsV.Props.C17
import PsV.Props.C09
import PsV.Proofs.FitDiffs
/-!
# C09, one dimension: the system assembled by the model of glam.c is the normal-equation system of the specification
-/
set_option linter.unusedSectionVars false
set_option linter.unusedSimpArgs false
set_option linter.unusedVariables false
namespace PsV
open Arith Finset

section
variable {α : Type} [Field α] [LinearOrder α] [IsStrictOrderedRing α] [A : Arith α] [L : LawfulArith α]

/-! ## generic: `accumulate` of a positioned entry list, sums of `entSum` over a 1-d key -/

/-- if, among the listed entries, exactly those with index `idx0` are sent to position `k`, then position `k`
of the accumulated array holds the tensor value at `idx0` -/
theorem accumulate_pos_get (es : List (List Nat × α)) (pos : List Nat → Nat) (size k : Nat) (hk : k < size)
    (idx0 : List Nat) (h : ∀ e ∈ es, pos e.1 = k ↔ e.1 = idx0) :
    (accumulate size (es.map fun e => (pos e.1, e.2)))[k]?.getD 0 = entSum es idx0 := by
  rw [accumulate_get _ _ _ hk]
  unfold entSum
  induction es with
  | nil => simp
  | cons e es ih =>
    have he := h e (by simp)
    have ih' := ih (fun a ha => h a (by simp [ha]))
    by_cases hp : pos e.1 = k
    · have h0 := he.mp hp
      simp only [List.map_cons, List.filter_cons, hp, decide_true, if_true, List.sum_cons]
      rw [ih', if_pos h0]
    · have h0 : ¬ e.1 = idx0 := fun hh => hp (he.mpr hh)
      simp only [List.map_cons, List.filter_cons, hp, decide_false, Bool.false_eq_true, if_false,
        List.sum_cons]
      rw [ih', if_neg h0, zero_add]

/-- regrouping a sum over the listed entries by their (one-dimensional) index -/
theorem sum_entSum_1d (es : List (List Nat × α)) (n : Nat) (c : Nat → α)
    (h : ∀ e ∈ es, ∃ g < n, e.1 = [g]) :
    ∑ j ∈ range n, c j * entSum es [j] = (es.map fun e => c (e.1.getD 0 0) * e.2).sum := by
  induction es with
  | nil => simp [entSum]
  | cons e es ih =>
    obtain ⟨g, hg, heg⟩ := h e (by simp)
    simp only [entSum_cons, mul_add, sum_add_distrib, List.map_cons, List.sum_cons]
    rw [ih (fun a ha => h a (by simp [ha]))]
    congr 1
    rw [heg]
    simp only [List.cons.injEq, and_true, mul_ite, mul_zero, List.getD_cons_zero]
    rw [Finset.sum_ite_eq (range n) g, if_pos (mem_range.mpr hg)]

theorem idxIn_one (idx : List Nat) (m : Nat) : IdxIn idx [m] ↔ ∃ g < m, idx = [g] := by
  cases idx with
  | nil => simp [IdxIn]
  | cons g rest =>
    rw [idxIn_cons, idxIn_nil_right]
    constructor
    · rintro ⟨h1, rfl⟩; exact ⟨g, h1, rfl⟩
    · rintro ⟨g', h1, h2⟩
      simp only [List.cons.injEq] at h2
      obtain ⟨rfl, rfl⟩ := h2
      exact ⟨h1, rfl⟩

theorem tab2_get_mk (n m : Nat) (arr : Array α) (i j : Nat) (hi : i < n) (hj : j < m) :
    (Tab2.mk n m arr).get i j = arr[i * m + j]?.getD 0 := by
  unfold Tab2.get
  simp only [hi, hj, and_self, if_true]
  cases arr[i * m + j]? <;> simp [L.zero_eq]

/-! ## (a) the right-hand side -/

/-- `flatten_ndarray_to_sparse(R, m, 1)` of a one-dimensional tensor: row `i` holds the tensor value at `[i]` -/
theorem flattenNd_col_get (a : NdSparse α) (m i : Nat) (hr : a.ranges = [m]) (hwf : a.WF) (hi : i < m) :
    (flattenNd a m 1).get i 0 = a.get [i] := by
  unfold flattenNd
  rw [tab2_get_mk _ _ _ _ _ hi (by omega), get_eq_entSum]
  have key := accumulate_pos_get a.entries
    (fun idx => (glamRowMajor a.ranges idx / 1) * 1 + glamRowMajor a.ranges idx % 1) (m * 1) (i * 1 + 0)
    (by omega) [i] (by
      intro e he
      have hv := hwf e he
      rw [hr, idxIn_one] at hv
      obtain ⟨g, hg, heg⟩ := hv
      rw [heg, hr]
      simp [glamRowMajor, natProd, Nat.mod_one])
  exact key

/-- `slicemultiply` of a one-dimensional tensor, as a sum over the listed entries -/
theorem slice_1d (n : Nat) (es : List (List Nat × α)) (b : Mat α) (hb : b.nrow = n)
    (hes : ∀ e ∈ es, ∃ g < n, e.1 = [g]) :
    ∃ a', sliceMultiply ⟨[n], es⟩ b 0 = some a' ∧ a'.ranges = [b.ncol] ∧ a'.WF ∧
      ∀ q < b.ncol, a'.get [q] = (es.map fun e => b.val (e.1.getD 0 0) q * e.2).sum := by
  have hwf : (NdSparse.mk [n] es).WF := by
    intro e he
    exact (idxIn_one _ _).mpr (hes e he)
  obtain ⟨a', h1, h2, h3, h4⟩ := slice_is_mode_product (NdSparse.mk [n] es) b 0 hwf (by simp) (by simpa using hb)
  refine ⟨a', h1, by simpa using h2, h3, ?_⟩
  intro q hq
  have hidx : IdxIn [q] a'.ranges := by
    rw [h2]; exact (idxIn_one _ _).mpr ⟨q, hq, rfl⟩
  rw [h4 [q] hidx, hb]
  simp only [List.getD_cons_zero, List.set_cons_zero, get_eq_entSum]
  exact sum_entSum_1d es n (fun j => b.val j q) hes

theorem basis_val (t : Int → α) (nknots order : Nat) (xs : List α) (j i : Nat) :
    (bsplineBasis t nknots order xs).val j i
      = match xs[j]? with
        | some x => Bind (indR t x) t x order (i : Int)
        | none => 0 := by
  simp only [bsplineBasis, tabGet_tabOf]
  cases xs[j]? <;> simp [bsplineG_eq_Bind, L.zero_eq]

/-- one row of the design matrix of a one-dimensional problem is a row of `bsplinebasis` -/
theorem rowB_1d (d : Dim α) (xs : List α) (g i : Nat) (z w : α) (hg : g < xs.length) (hs : d.stride = 1)
    (hi : i < d.naxes) :
    rowB [d] [xs] ⟨[g], z, w⟩ i = (bsplineBasis d.knots d.nknots d.order (xs.take xs.length)).val g i := by
  rw [basis_val, List.take_length]
  unfold rowB
  simp only [gridPoint, List.getElem?_eq_getElem hg, basisProd, hs, Nat.div_one, Nat.mod_eq_of_lt hi,
    L.mul_eq, L.one_eq, mul_one]

/-- (a) the `R` side: `slicemultiply(R, bases[0], 0)` then `flatten_ndarray_to_sparse(R, n, 1)` gives
`Σ_rows w·z·B_i(x_row)` in row `i` -/
theorem glam_rhs_1d (d : Dim α) (xs : List α) (dw : List ((List Nat × α) × α))
    (hd : ∀ ew ∈ dw, ∃ g < xs.length, ew.1.1 = [g])
    (hax : d.naxes = d.nknots - d.order - 1) (hs : d.stride = 1) :
    ∃ R', sliceMultiply ⟨[xs.length], dw.map fun (e, w) => (e.1, A.mul w e.2)⟩
          (bsplineBasis d.knots d.nknots d.order (xs.take xs.length)) 0 = some R' ∧
      ∀ i < d.naxes, (flattenNd R' d.naxes 1).get i 0
        = (dw.map fun ew => ew.2 * ew.1.2 * rowB [d] [xs] ⟨ew.1.1, ew.1.2, ew.2⟩ i).sum := by
  have hrow : (bsplineBasis d.knots d.nknots d.order (xs.take xs.length)).nrow = xs.length := by
    simp [bsplineBasis]
  have hcol : (bsplineBasis d.knots d.nknots d.order (xs.take xs.length)).ncol = d.naxes := by
    simp [bsplineBasis, hax]
  obtain ⟨R', h1, h2, h3, h4⟩ := slice_1d xs.length (dw.map fun (e, w) => (e.1, A.mul w e.2))
    (bsplineBasis d.knots d.nknots d.order (xs.take xs.length)) hrow (by
      intro e he
      rw [List.mem_map] at he
      obtain ⟨ew, hew, rfl⟩ := he
      exact hd ew hew)
  refine ⟨R', h1, ?_⟩
  intro i hi
  rw [flattenNd_col_get R' d.naxes i (by rw [h2, hcol]) h3 hi, h4 i (by rw [hcol]; exact hi), List.map_map]
  congr 1
  apply List.map_congr_left
  intro ew hew
  obtain ⟨g, hg, heg⟩ := hd ew hew
  simp only [Function.comp, heg, List.getD_cons_zero, L.mul_eq]
  rw [rowB_1d d xs g i _ _ hg hs hi]
  ring

/-! ## (b) the `F` side -/

theorem evensFirst_pair {β : Type} (a b : β) : evensFirst [a, b] = [a, b] := rfl

theorem doubleDims_one (m q : Nat) : doubleDims [m] [q] = [q / m, q % m] := rfl

theorem rowMajor_pair (m a b : Nat) : glamRowMajor [m, m] [a, b] = a * m + b := by
  simp [glamRowMajor, natProd]

/-- the reshape of `F` (double the dimensions, even axes first) followed by
`flatten_ndarray_to_sparse(F, n, n)`: entry `(i, j)` holds the value of the boxed tensor at `[i·n + j]` -/
theorem flattenNd_F_get (F : NdSparse α) (m i j : Nat) (hr : F.ranges = [m * m]) (hwf : F.WF)
    (hi : i < m) (hj : j < m) :
    (flattenNd ⟨evensFirst ([m].flatMap fun n => [n, n]),
        F.entries.map fun e => (evensFirst (doubleDims [m] e.1), e.2)⟩ m m).get i j = F.get [i * m + j] := by
  unfold flattenNd
  rw [tab2_get_mk _ _ _ _ _ hi hj, get_eq_entSum]
  simp only [List.map_map]
  have key := accumulate_pos_get F.entries
    (fun idx => (glamRowMajor (evensFirst ([m].flatMap fun n => [n, n])) (evensFirst (doubleDims [m] idx)) / m) * m
      + glamRowMajor (evensFirst ([m].flatMap fun n => [n, n])) (evensFirst (doubleDims [m] idx)) % m)
    (m * m) (i * m + j) (tab2_index_lt hi hj) [i * m + j] (by
      intro e he
      have hv := hwf e he
      rw [hr, idxIn_one] at hv
      obtain ⟨q, hq, heq⟩ := hv
      rw [heq, doubleDims_one]
      simp only [List.flatMap_cons, List.flatMap_nil, List.append_nil, evensFirst_pair, rowMajor_pair,
        Nat.div_add_mod', List.cons.injEq, and_true])
  exact key

/-- (b) the `F` side: `slicemultiply(F, box(B,B), 0)`, the reshape and the flattening give
`Σ_rows w·B_i(x_row)·B_j(x_row)` at `(i, j)` -/
theorem glam_fmat_1d (d : Dim α) (xs : List α) (dw : List ((List Nat × α) × α))
    (hd : ∀ ew ∈ dw, ∃ g < xs.length, ew.1.1 = [g])
    (hax : d.naxes = d.nknots - d.order - 1) (hs : d.stride = 1) :
    ∃ F', sliceMultiply ⟨[xs.length], dw.map fun (e, w) => (e.1, w)⟩
          (box (bsplineBasis d.knots d.nknots d.order (xs.take xs.length))
               (bsplineBasis d.knots d.nknots d.order (xs.take xs.length))) 0 = some F' ∧
      ∀ i < d.naxes, ∀ j < d.naxes,
        (flattenNd ⟨evensFirst ([d.naxes].flatMap fun n => [n, n]),
          F'.entries.map fun e => (evensFirst (doubleDims [d.naxes] e.1), e.2)⟩ d.naxes d.naxes).get i j
        = (dw.map fun ew => ew.2 * rowB [d] [xs] ⟨ew.1.1, ew.1.2, ew.2⟩ i
                                 * rowB [d] [xs] ⟨ew.1.1, ew.1.2, ew.2⟩ j).sum := by
  have hrow : (bsplineBasis d.knots d.nknots d.order (xs.take xs.length)).nrow = xs.length := by
    simp [bsplineBasis]
  have hcol : (bsplineBasis d.knots d.nknots d.order (xs.take xs.length)).ncol = d.naxes := by
    simp [bsplineBasis, hax]
  obtain ⟨F', h1, h2, h3, h4⟩ := slice_1d xs.length (dw.map fun (e, w) => (e.1, w))
    (box (bsplineBasis d.knots d.nknots d.order (xs.take xs.length))
         (bsplineBasis d.knots d.nknots d.order (xs.take xs.length))) hrow (by
      intro e he
      rw [List.mem_map] at he
      obtain ⟨ew, hew, rfl⟩ := he
      exact hd ew hew)
  have hbc : (box (bsplineBasis d.knots d.nknots d.order (xs.take xs.length))
         (bsplineBasis d.knots d.nknots d.order (xs.take xs.length))).ncol = d.naxes * d.naxes := by
    simp only [box, hcol]
  refine ⟨F', h1, ?_⟩
  intro i hi j hj
  have hlt : i * d.naxes + j < d.naxes * d.naxes := tab2_index_lt hi hj
  have hdiv : (i * d.naxes + j) / d.naxes = i := by
    rw [Nat.mul_comm, Nat.mul_add_div (by omega), Nat.div_eq_of_lt hj, Nat.add_zero]
  have hmod : (i * d.naxes + j) % d.naxes = j := by
    rw [Nat.mul_comm, Nat.mul_add_mod, Nat.mod_eq_of_lt hj]
  rw [flattenNd_F_get F' d.naxes i j (by rw [h2, hbc]) h3 hi hj, h4 _ (by rw [hbc]; exact hlt), List.map_map]
  congr 1
  apply List.map_congr_left
  intro ew hew
  obtain ⟨g, hg, heg⟩ := hd ew hew
  simp only [Function.comp, heg, List.getD_cons_zero, box, hcol, hdiv, hmod, L.mul_eq]
  rw [rowB_1d d xs g i _ _ hg hs hi, rowB_1d d xs g j _ _ hg hs hj]
  ring

/-! ## (c) the penalty -/

/-- row `q` of the specification's `K` for a one-dimensional problem is row `q` of the finite-difference matrix -/
theorem penaltyRow_1d (t : Int → α) (order p m q i : Nat) (hq : q < m - p) (hi : i < m) :
    penaltyRow t order p m 1 q i = (finiteDiff t order p m).get q i := by
  rw [finiteDiff_get_eq_derivCoef t order p m q i hq hi]
  unfold penaltyRow
  simp only [Nat.mod_one, Nat.div_one, Nat.mod_eq_of_lt hq, Nat.one_mul, Nat.div_eq_of_lt hq, Nat.zero_mul,
    Nat.mul_one, Nat.zero_add, Nat.add_zero, L.one_eq, L.zero_eq]

theorem dtd_finiteDiff_get (t : Int → α) (order p m i j : Nat) (hi : i < m) (hj : j < m) :
    (dtd (finiteDiff t order p m)).get i j
      = ∑ q ∈ range (m - p), penaltyRow t order p m 1 q i * penaltyRow t order p m 1 q j := by
  have hm : (finiteDiff t order p m).m = m := rfl
  have hn : (finiteDiff t order p m).n = m - p := rfl
  unfold dtd
  rw [hm, hn, tab2_get_ofFn _ hi hj, sumTo_eq_sum]
  apply Finset.sum_congr rfl
  intro q hq
  have hq' := mem_range.mp hq
  rw [L.mul_eq, penaltyRow_1d t order p m q i hq' hi, penaltyRow_1d t order p m q j hq' hj]

/-- (c) the penalty matrix of fit.h for one dimension is the specification's `λ·KᵀK` -/
theorem penaltyMat_1d_get (d : Dim α) (lam : α) (p i j : Nat) (hs : d.stride = 1)
    (hi : i < d.naxes) (hj : j < d.naxes) :
    (penaltyMat [d] [lam] [p]).get i j = penaltyGram [d] [lam] [p] d.naxes i j := by
  have hN : natProd [d.naxes] = d.naxes := by simp [natProd]
  have hNK : penaltyNK d p d.naxes = d.naxes - p := by
    unfold penaltyNK
    simp only [hs, Nat.mul_one]
    rw [Nat.div_self (by omega), Nat.one_mul]
  rw [penaltyGram_cons, ← penaltyNK, hNK, hs]
  simp only [penaltyMat, List.map_cons, List.map_nil, List.mapIdx_cons, List.mapIdx_nil, pick]
  rw [tab2_get_ofFn _ (by rw [hN]; exact hi) (by rw [hN]; exact hj)]
  simp only [List.length_cons, List.length_nil, Nat.zero_add, gt_iff_lt, Nat.lt_irrefl, if_false,
    List.getD_cons_zero]
  have hG : penaltyGram ([] : List (Dim α)) [] [] d.naxes i j = 0 := rfl
  rw [hG, add_zero]
  by_cases hz : isZero lam = true
  · have := (isZero_iff lam).mp hz
    rw [if_pos hz]
    simp only [List.filterMap_cons, id, List.filterMap_nil, List.foldl_nil, L.zero_eq, this, zero_mul]
  · rw [if_neg hz]
    simp only [List.filterMap_cons, id, List.filterMap_nil, List.foldl_cons, List.foldl_nil,
      L.zero_eq, L.add_eq, L.mul_eq, zero_add]
    congr 1
    rw [← dtd_finiteDiff_get d.knots d.order p d.naxes i j hi hj]
    rfl

/-! ## (d) the assembled system -/

/-- In one dimension the system assembled by the model of glam.c / fit.h is exactly the normal-equation system of the
specification: `fitmat = BᵀWB + λ KᵀK = specM`, `rhs = BᵀWz = specR`.
Hypotheses: `naxes = nknots − order − 1`, stride 1, every datum's index is `[g]` with `g` on the grid.
(`weights.length = data.length` is not needed: both sides pair data and weights by `zip`; no condition on `p`, `λ`:
for `λ = 0` the penalty term is skipped by the code and is `0·KᵀK` in the specification.) -/
theorem glam_eq_kron_1d (d : Dim α) (xs : List α) (data : List (List Nat × α)) (weights : List α) (lam : α)
    (p : Nat) (hax : d.naxes = d.nknots - d.order - 1) (hs : d.stride = 1)
    (hdata : ∀ e ∈ data, ∃ g < xs.length, e.1 = [g]) :
    let P : FitProblem α :=
      ⟨[d], [xs], ((data.zip weights).map fun (e, w) => ⟨e.1, e.2, w⟩).toArray, [lam], [p]⟩
    ∃ S, glamSystem [d] [xs] [xs.length] data weights [lam] [p] = some S ∧
      (∀ i < d.naxes, ∀ j < d.naxes, S.fitmat.get i j = (specM P).get i j) ∧
      (∀ i < d.naxes, S.rhs.getD i 0 = (specR P).getD i 0) := by
  intro P
  have hd : ∀ ew ∈ data.zip weights, ∃ g < xs.length, ew.1.1 = [g] :=
    fun ew hew => hdata ew.1 (List.of_mem_zip hew).1
  obtain ⟨R', hR, hRget⟩ := glam_rhs_1d d xs (data.zip weights) hd hax hs
  obtain ⟨F', hF, hFget⟩ := glam_fmat_1d d xs (data.zip weights) hd hax hs
  have hN : natProd [d.naxes] = d.naxes := by simp [natProd]
  have hncoef : P.ncoef = d.naxes := hN
  simp only [glamSystem, List.zip_cons_cons, List.zip_nil_right, List.map_cons, List.map_nil, glamConvolve, hF, hR]
  rw [hN]
  refine ⟨_, rfl, ?_, ?_⟩
  · intro i hi j hj
    have hMf := Mf_list P i j (by rw [hncoef]; exact hi) (by rw [hncoef]; exact hj)
    simp only [Mf] at hMf
    rw [hMf, hncoef]
    simp only []
    rw [tab2_get_ofFn _ hi hj, L.add_eq, hFget i hi j hj, penaltyMat_1d_get d lam p i j hs hi hj]
    congr 1
    simp only [P, List.map_map]
    rfl
  · intro i hi
    have hrf := rf_list P i (by rw [hncoef]; exact hi)
    simp only [rf] at hrf
    rw [hrf]
    have hi' : i < natProd (List.map (fun x : Dim α => x.naxes) [d]) := by
      show i < natProd [d.naxes]
      rw [hN]; exact hi
    simp only [Array.getD_eq_getD_getElem?, Array.getElem?_ofFn, hi', dite_true, Option.getD_some]
    rw [hRget i hi]
    simp only [P, List.map_map]
    rfl

end

/-- Non-vacuity: the example problem `exP` of `PsV/Proofs/FitQuad.lean` (order 1, 4 knots, 2 coefficients, stride 1;
three data on the grid `[1, 3/2, 2]`, one of weight 0) satisfies the hypotheses, so the model assembles
`M = [[2,−1],[−1,2]]`, `r = (1,1)`. -/
example :
    ∃ S, glamSystem [exDim] [[1, 3/2, 2]] [3] [([0], 1), ([2], 1), ([1], 5)] [1, 1, 0] [1] [1] = some S ∧
      S.fitmat.get 0 0 = 2 ∧ S.fitmat.get 0 1 = -1 ∧ S.fitmat.get 1 0 = -1 ∧ S.fitmat.get 1 1 = 2 ∧
      S.rhs.getD 0 0 = 1 ∧ S.rhs.getD 1 0 = 1 := by
  obtain ⟨S, h1, h2, h3⟩ := glam_eq_kron_1d exDim [1, 3/2, 2] [([0], 1), ([2], 1), ([1], 5)] [1, 1, 0] 1 1
    rfl rfl (by decide)
  have e2 : exDim.naxes = 2 := rfl
  rw [e2] at h2 h3
  refine ⟨S, h1, ?_, ?_, ?_, ?_, ?_, ?_⟩
  · rw [h2 0 (by omega) 0 (by omega)]; exact exP_M00
  · rw [h2 0 (by omega) 1 (by omega)]; exact exP_M01
  · rw [h2 1 (by omega) 0 (by omega)]; exact exP_M10
  · rw [h2 1 (by omega) 1 (by omega)]; exact exP_M11
  · rw [h3 0 (by omega)]; exact exP_r0
  · rw [h3 1 (by omega)]; exact exP_r1

end PsV
