import PsV.Proofs.Unity
import PsV.Proofs.FitQuad
import PsV.Proofs.FitDiffs
import PsV.Proofs.GlamNdDefs
/-!
# Polynomial reproduction in one dimension (degree ≤ 1)

For the Cox–de Boor basis of the specification (`Bind (indR t x)`, arbitrary order, arbitrary sorted knots,
repeated knots allowed) on the fully supported range `[t order, t n)`:
* `Bind_sum_one`: partition of unity,
* `Bind_sum_greville`: the Greville abscissae are the coefficients of the identity (Marsden, degree 1),
* `Bind_sum_affine`: affine functions,
and for the derivative coefficients of the penalty (`derivCoef`):
* `derivCoef_const`: those of a constant vanish from the first derivative on,
* `derivCoef_affine`: those of `a + b·ξ_k` vanish from the second derivative on.
-/
set_option linter.unusedSectionVars false
set_option linter.unusedSimpArgs false
set_option linter.unusedVariables false
namespace PsV
open Arith Finset
section
variable {α : Type} [Field α] [LinearOrder α] [IsStrictOrderedRing α] [A : Arith α] [L : LawfulArith α]

/-! ## bridge: a lawful bundle computes what the field instance computes -/

theorem lawful_le_eq (a b : α) : A.le a b = decide (a ≤ b) := by
  rw [Bool.eq_iff_iff, L.le_iff]; simp

theorem lawful_lt_eq (a b : α) : A.lt a b = decide (a < b) := by
  rw [Bool.eq_iff_iff, L.lt_iff]; simp

theorem indR_ofField (t : Int → α) (x : α) : @indR α A t x = @indR α (Arith.ofField α) t x := by
  funext i
  simp only [indR, lawful_le_eq, lawful_lt_eq]
  rfl

theorem Bind_ofField (ind : Int → Bool) (t : Int → α) (x : α) :
    ∀ (n : Nat) (i : Int), @Bind α A ind t x n i = @Bind α (Arith.ofField α) ind t x n i := by
  intro n
  induction n with
  | zero => intro i; simp only [Bind, L.one_eq, L.zero_eq]; rfl
  | succ n ih => intro i; simp only [Bind, L.add_eq, L.mul_eq, L.div_eq, L.sub_eq, ih]; rfl

/-! ## the interval of `x` and the window of non-zero basis functions -/

theorem exists_interval_aux (t : Int → α) (x : α) (order : Nat) (h1 : t (order : Int) ≤ x) :
    ∀ d : Nat, x < t ((order : Int) + d) →
      ∃ c : Nat, order ≤ c ∧ c < order + d ∧ t (c : Int) ≤ x ∧ x < t ((c : Int) + 1) := by
  intro d
  induction d with
  | zero =>
    intro h2
    simp only [Nat.cast_zero, add_zero] at h2
    exact absurd (lt_of_le_of_lt h1 h2) (lt_irrefl _)
  | succ d ih =>
    intro h2
    by_cases h : x < t ((order : Int) + d)
    · obtain ⟨c, c1, c2, c3, c4⟩ := ih h
      exact ⟨c, c1, by omega, c3, c4⟩
    · refine ⟨order + d, by omega, by omega, ?_, ?_⟩
      · have e : ((order + d : Nat) : Int) = (order : Int) + d := by push_cast; ring
        rw [e]; exact not_lt.mp h
      · have e : ((order + d : Nat) : Int) + 1 = (order : Int) + (d + 1 : Nat) := by push_cast; ring
        rw [e]; exact h2

theorem exists_interval (t : Int → α) (x : α) (order n : Nat)
    (hmono : ∀ i j : Int, 0 ≤ i → i ≤ j → j ≤ (n : Int) + order → t i ≤ t j)
    (h1 : t (order : Int) ≤ x) (h2 : x < t (n : Int)) :
    ∃ c : Nat, order ≤ c ∧ c < n ∧ t (c : Int) ≤ x ∧ x < t ((c : Int) + 1) := by
  by_cases hn : n ≤ order
  · have : t (n : Int) ≤ t (order : Int) := hmono _ _ (by omega) (by omega) (by omega)
    exact absurd (lt_of_lt_of_le h2 (le_trans this h1)) (lt_irrefl _)
  · obtain ⟨d, rfl⟩ : ∃ d, n = order + d := ⟨n - order, by omega⟩
    have e : ((order + d : Nat) : Int) = (order : Int) + d := by push_cast; ring
    rw [e] at h2
    exact exists_interval_aux t x order h1 d h2

/-- on the fully supported range the specification's basis functions are the polynomial pieces of the interval of `x` -/
theorem Bind_eq_Bp_full (t : Int → α) (x : α) (order n : Nat)
    (hmono : ∀ i j : Int, 0 ≤ i → i ≤ j → j ≤ (n : Int) + order → t i ≤ t j)
    (h1 : t (order : Int) ≤ x) (h2 : x < t (n : Int)) :
    ∃ c : Nat, order ≤ c ∧ c < n ∧ t (c : Int) < t ((c : Int) + 1) ∧
      ∀ k : Nat, k < n → Bind (indR t x) t x order (k : Int) = Bp t x (c : Int) order (k : Int) := by
  obtain ⟨c, c1, c2, c3, c4⟩ := exists_interval t x order n hmono h1 h2
  refine ⟨c, c1, c2, lt_of_le_of_lt c3 c4, ?_⟩
  intro k hk
  have hmono' : ∀ i j : Int, 0 ≤ i → i ≤ j → j < ((n + order + 1 : Nat) : Int) → t i ≤ t j :=
    fun i j hi hij hj => hmono i j hi hij (by push_cast at hj; omega)
  have hind := @indR_iff α _ _ t x (n + order + 1) (c : Int) hmono' (by omega) (by push_cast; omega) c3 c4
  rw [indR_ofField, Bind_ofField]
  exact @Bind_eq_Bp α _ _ t x (n + order + 1) (c : Int) _ hind order (k : Int) (by omega) (by push_cast; omega)

theorem sum_window (G : Nat → α) (order c n : Nat) (hc1 : order ≤ c) (hc2 : c < n)
    (hz : ∀ k, (k < c - order ∨ c < k) → G k = 0) :
    ∑ k ∈ range n, G k = ∑ k ∈ range (order + 1), G (c - order + k) := by
  have hsub : Ico (c - order) (c + 1) ⊆ range n := by
    intro k hk
    rw [mem_Ico] at hk
    exact mem_range.mpr (by omega)
  rw [← sum_subset hsub]
  · rw [sum_Ico_eq_sum_range]
    have : c + 1 - (c - order) = order + 1 := by omega
    rw [this]
  · intro k _ hk
    rw [mem_Ico] at hk
    exact hz k (by omega)

/-- window form: a sum over all basis functions, weighted by `g`, is the sum over the `order+1` non-zero ones -/
theorem Bp_sum_window (t : Int → α) (x : α) (order c n : Nat) (hc1 : order ≤ c) (hc2 : c < n) (g : Int → α) :
    ∑ k ∈ range n, Bp t x (c : Int) order (k : Int) * g (k : Int)
      = ∑ k ∈ range (order + 1), Bp t x (c : Int) order ((c : Int) - order + k) * g ((c : Int) - order + k) := by
  rw [sum_window (fun k : Nat => Bp t x (c : Int) order (k : Int) * g (k : Int)) order c n hc1 hc2]
  · apply sum_congr rfl
    intro k _
    have e : ((c - order + k : Nat) : Int) = (c : Int) - order + k := by
      push_cast [Nat.cast_sub hc1]; ring
    simp only [e]
  · intro k hk
    show Bp t x (c : Int) order (k : Int) * g (k : Int) = 0
    rw [Bp_zero_of_not_mem t x (c : Int) order (k : Int) (by omega), zero_mul]

/-! ## partition of unity -/

/-- partition of unity on the fully supported range -/
theorem Bind_sum_one (t : Int → α) (x : α) (order n : Nat)
    (hmono : ∀ i j : Int, 0 ≤ i → i ≤ j → j ≤ (n : Int) + order → t i ≤ t j)
    (h1 : t (order : Int) ≤ x) (h2 : x < t (n : Int)) :
    ∑ k ∈ range n, Bind (indR t x) t x order (k : Int) = 1 := by
  obtain ⟨c, c1, c2, hne, hB⟩ := Bind_eq_Bp_full t x order n hmono h1 h2
  rw [sum_congr rfl (fun k hk => hB k (mem_range.mp hk))]
  have hw := Bp_sum_window t x order c n c1 c2 (fun _ => 1)
  simp only [mul_one] at hw
  rw [hw]
  exact Bp_sum_one t x (c : Int) hne order (fun a b ha hab hb => hmono a b (by omega) hab (by omega))

/-! ## linear precision -/

/-- `t (i+1) + … + t (i+n)` -/
def gsum (t : Int → α) (n : Nat) (i : Int) : α := ∑ m ∈ range n, t (i + 1 + m)

theorem gsum_succ (t : Int → α) (n : Nat) (i : Int) : gsum t (n+1) i = gsum t n i + t (i + 1 + n) := by
  unfold gsum
  rw [sum_range_succ]

theorem gsum_succ' (t : Int → α) (n : Nat) (i : Int) : gsum t (n+1) i = t (i + 1) + gsum t n (i + 1) := by
  unfold gsum
  rw [sum_range_succ', add_comm]
  congr 1
  · simp
  · apply sum_congr rfl
    intro m _
    congr 1
    push_cast
    ring

theorem greville_eq_gsum (t : Int → α) (order k : Nat) : greville t order k = gsum t order (k : Int) / (order : α) := rfl

theorem Bp_gsum_alg (x u T B G : α) (h : T - u ≠ 0) :
    (x - u) / (T - u) * B * (G + T) + (T - x) / (T - u) * B * (u + G) = B * G + B * x := by
  field_simp
  ring

/-- un-normalised Marsden identity of degree 1 on the window of interval `left` -/
theorem Bp_sum_gsum (t : Int → α) (x : α) (left : Int) (hne : t left < t (left + 1)) :
    ∀ (n : Nat), (∀ a b : Int, left - n ≤ a → a ≤ b → b ≤ left + n + 1 → t a ≤ t b) →
      ∑ k ∈ range (n + 1), Bp t x left n (left - n + k) * gsum t n (left - n + k) = (n : α) * x := by
  intro n
  induction n with
  | zero => intro _; simp [gsum]
  | succ n ih =>
    intro hmono
    have hmono' : ∀ a b : Int, left - n ≤ a → a ≤ b → b ≤ left + n + 1 → t a ≤ t b :=
      fun a b h1 h2 h3 => hmono a b (by push_cast; omega) h2 (by push_cast; omega)
    have ih' := ih hmono'
    have one := Bp_sum_one t x left hne n hmono'
    have hexp : ∀ k : Nat, Bp t x left (n+1) (left - ((n+1 : Nat) : Int) + k) * gsum t (n+1) (left - ((n+1 : Nat) : Int) + k) =
        (x - t (left - n - 1 + k)) / (t (left + k) - t (left - n - 1 + k)) * Bp t x left n (left - n - 1 + k)
            * gsum t (n+1) (left - n - 1 + k)
        + (t (left + k + 1) - x) / (t (left + k + 1) - t (left - n + k)) * Bp t x left n (left - n + k)
            * gsum t (n+1) (left - n - 1 + k) := by
      intro k
      have e0 : left - ((n+1 : Nat) : Int) + k = left - n - 1 + k := by push_cast; ring
      have e1 : left - (n:Int) - 1 + k + n + 1 = left + k := by ring
      have e2 : left - (n:Int) - 1 + k + n + 2 = left + k + 1 := by ring
      have e3 : left - (n:Int) - 1 + k + 1 = left - n + k := by ring
      rw [e0]
      simp only [Bp]
      rw [e1, e2, e3, add_mul]
    rw [sum_congr rfl (fun k _ => hexp k), sum_add_distrib]
    rw [sum_range_succ' (fun k : Nat => (x - t (left - n - 1 + k)) / (t (left + k) - t (left - n - 1 + k))
          * Bp t x left n (left - n - 1 + k) * gsum t (n+1) (left - n - 1 + k))]
    rw [sum_range_succ (fun k : Nat => (t (left + k + 1) - x) / (t (left + k + 1) - t (left - n + k))
          * Bp t x left n (left - n + k) * gsum t (n+1) (left - n - 1 + k))]
    have z1 : Bp t x left n (left - n - 1 + ((0:Nat):Int)) = 0 :=
      Bp_zero_of_not_mem t x left n _ (Or.inr (by push_cast; omega))
    have z2 : Bp t x left n (left - n + ((n+1 : Nat) : Int)) = 0 :=
      Bp_zero_of_not_mem t x left n _ (Or.inl (by push_cast; omega))
    rw [z1, z2, mul_zero, zero_mul, mul_zero, zero_mul, add_zero, add_zero, ← sum_add_distrib]
    have key : ∀ k ∈ range (n+1),
        (x - t (left - n - 1 + ((k+1 : Nat) : Int))) / (t (left + ((k+1 : Nat) : Int)) - t (left - n - 1 + ((k+1 : Nat) : Int)))
            * Bp t x left n (left - n - 1 + ((k+1 : Nat) : Int)) * gsum t (n+1) (left - n - 1 + ((k+1 : Nat) : Int))
          + (t (left + k + 1) - x) / (t (left + k + 1) - t (left - n + k)) * Bp t x left n (left - n + k)
            * gsum t (n+1) (left - n - 1 + k)
        = Bp t x left n (left - n + k) * gsum t n (left - n + k) + Bp t x left n (left - n + k) * x := by
      intro k hk
      rw [mem_range] at hk
      have e1 : left - (n:Int) - 1 + ((k+1 : Nat) : Int) = left - n + k := by push_cast; ring
      have e2 : left + ((k+1 : Nat) : Int) = left + k + 1 := by push_cast; ring
      rw [e1, e2]
      have hden : t (left + k + 1) - t (left - n + k) ≠ 0 := by
        have h1 : t (left - n + k) ≤ t left := hmono _ _ (by push_cast; omega) (by omega) (by push_cast; omega)
        have h2 : t (left + 1) ≤ t (left + k + 1) := hmono _ _ (by push_cast; omega) (by omega) (by push_cast; omega)
        have : t (left - n + k) < t (left + k + 1) := lt_of_le_of_lt h1 (lt_of_lt_of_le hne h2)
        exact sub_ne_zero.mpr (ne_of_gt this)
      have g1 : gsum t (n+1) (left - n + k) = gsum t n (left - n + k) + t (left + k + 1) := by
        rw [gsum_succ]
        have : left - (n:Int) + k + 1 + n = left + k + 1 := by ring
        rw [this]
      have g2 : gsum t (n+1) (left - n - 1 + k) = t (left - n + k) + gsum t n (left - n + k) := by
        rw [gsum_succ']
        have : left - (n:Int) - 1 + k + 1 = left - n + k := by ring
        rw [this]
      rw [g1, g2]
      exact Bp_gsum_alg x _ _ _ _ hden
    rw [sum_congr rfl key, sum_add_distrib, ih', ← sum_mul, one]
    push_cast
    ring

/-- linear precision: the Greville abscissae are the B-spline coefficients of the identity (Marsden's identity, degree 1) -/
theorem Bind_sum_greville (t : Int → α) (x : α) (order n : Nat) (ho : 1 ≤ order)
    (hmono : ∀ i j : Int, 0 ≤ i → i ≤ j → j ≤ (n : Int) + order → t i ≤ t j)
    (h1 : t (order : Int) ≤ x) (h2 : x < t (n : Int)) :
    ∑ k ∈ range n, Bind (indR t x) t x order (k : Int) * greville t order k = x := by
  obtain ⟨c, c1, c2, hne, hB⟩ := Bind_eq_Bp_full t x order n hmono h1 h2
  have ho' : (order : α) ≠ 0 := Nat.cast_ne_zero.mpr (by omega)
  have e1 : ∑ k ∈ range n, Bind (indR t x) t x order (k : Int) * greville t order k
      = ∑ k ∈ range n, Bp t x (c : Int) order (k : Int) * (gsum t order (k : Int) / (order : α)) :=
    sum_congr rfl (fun k hk => by rw [hB k (mem_range.mp hk), greville_eq_gsum])
  rw [e1, Bp_sum_window t x order c n c1 c2 (fun i => gsum t order i / (order : α))]
  have e2 : ∑ k ∈ range (order + 1), Bp t x (c : Int) order ((c : Int) - order + k) * (gsum t order ((c : Int) - order + k) / (order : α))
      = (∑ k ∈ range (order + 1), Bp t x (c : Int) order ((c : Int) - order + k) * gsum t order ((c : Int) - order + k)) / (order : α) := by
    rw [sum_div]
    exact sum_congr rfl (fun k _ => by rw [mul_div_assoc])
  rw [e2, Bp_sum_gsum t x (c : Int) hne order (fun a b ha hab hb => hmono a b (by omega) hab (by omega))]
  field_simp

/-- corollary: affine functions -/
theorem Bind_sum_affine (t : Int → α) (x : α) (order n : Nat) (a b : α) (ho : 1 ≤ order ∨ b = 0)
    (hmono : ∀ i j : Int, 0 ≤ i → i ≤ j → j ≤ (n : Int) + order → t i ≤ t j)
    (h1 : t (order : Int) ≤ x) (h2 : x < t (n : Int)) :
    ∑ k ∈ range n, Bind (indR t x) t x order (k : Int) * (a + b * greville t order k) = a + b * x := by
  have e : ∀ k ∈ range n, Bind (indR t x) t x order (k : Int) * (a + b * greville t order k)
      = a * Bind (indR t x) t x order (k : Int) + b * (Bind (indR t x) t x order (k : Int) * greville t order k) :=
    fun k _ => by ring
  rw [sum_congr rfl e, sum_add_distrib, ← mul_sum, ← mul_sum, Bind_sum_one t x order n hmono h1 h2, mul_one]
  rcases ho with ho | hb
  · rw [Bind_sum_greville t x order n ho hmono h1 h2]
  · rw [hb, zero_mul, zero_mul]

/-! ## derivative coefficients -/

theorem derivCoef_const_succ (t : Int → α) (order : Nat) (a : α) :
    ∀ (p j : Nat), derivCoef t order (p+1) (fun _ => a) j = 0 := by
  intro p
  induction p with
  | zero =>
    intro j
    simp only [derivCoef, L.sub_eq, L.mul_eq, L.div_eq, sub_self, mul_zero, zero_div]
  | succ p ih =>
    intro j
    rw [derivCoef, ih (j+1), ih j]
    simp only [L.sub_eq, L.mul_eq, L.div_eq, sub_self, mul_zero, zero_div]

/-- derivative coefficients of a constant vanish from the first derivative on -/
theorem derivCoef_const (t : Int → α) (order p : Nat) (hp : 1 ≤ p) (a : α) (j : Nat) :
    derivCoef t order p (fun _ => a) j = 0 := by
  obtain ⟨q, rfl⟩ : ∃ q, p = q + 1 := ⟨p - 1, by omega⟩
  exact derivCoef_const_succ t order a q j

theorem greville_diff (t : Int → α) (n m : Nat) :
    greville t (n+1) (m+1) - greville t (n+1) m
      = (t (((m : Int) + 1) + n + 1) - t ((m : Int) + 1)) / ((n+1 : Nat) : α) := by
  rw [greville_eq_gsum, greville_eq_gsum, ← sub_div]
  congr 1
  have e : ((m+1 : Nat) : Int) = (m : Int) + 1 := by push_cast; ring
  rw [e, gsum_succ t n ((m : Int) + 1), gsum_succ' t n (m : Int)]
  have e2 : (m : Int) + 1 + 1 + n = (m : Int) + 1 + n + 1 := by ring
  rw [e2]
  ring

/-- the first derivative coefficients of `a + b·ξ` are `b` where the knot span is non-degenerate -/
theorem derivCoef_one_affine (t : Int → α) (n : Nat) (a b : α) (m : Nat)
    (h : t ((m : Int) + 1) ≠ t ((m : Int) + (n+1 : Nat) + 1)) :
    derivCoef t (n+1) 1 (fun k => a + b * greville t (n+1) k) m = b := by
  rw [derivCoef_one]
  have e : (m : Int) + ((n+1 : Nat) : Int) + 1 = (m : Int) + 1 + n + 1 := by push_cast; ring
  rw [e] at h
  have hd : t ((m : Int) + 1 + n + 1) - t ((m : Int) + 1) ≠ 0 := sub_ne_zero.mpr (Ne.symm h)
  have hn : ((n+1 : Nat) : α) ≠ 0 := Nat.cast_ne_zero.mpr (by omega)
  have e2 : (a + b * greville t (n+1) (m+1)) - (a + b * greville t (n+1) m)
      = b * ((t (((m : Int) + 1) + n + 1) - t ((m : Int) + 1)) / ((n+1 : Nat) : α)) := by
    rw [← greville_diff]; ring
  rw [e2]
  field_simp

theorem derivCoef_affine_succ (t : Int → α) (n : Nat) (a b : α) :
    ∀ (q j : Nat), (∀ m : Nat, j ≤ m → m ≤ j + q + 1 → t ((m : Int) + 1) ≠ t ((m : Int) + (n+1 : Nat) + 1)) →
      derivCoef t (n+1) (q+2) (fun k => a + b * greville t (n+1) k) j = 0 := by
  intro q
  induction q with
  | zero =>
    intro j hk
    rw [derivCoef, derivCoef_one_affine t n a b (j+1) (hk (j+1) (by omega) (by omega)),
      derivCoef_one_affine t n a b j (hk j (by omega) (by omega))]
    simp only [L.sub_eq, L.mul_eq, L.div_eq, sub_self, mul_zero, zero_div]
  | succ q ih =>
    intro j hk
    rw [derivCoef, ih (j+1) (fun m h1 h2 => hk m (by omega) (by omega)),
      ih j (fun m h1 h2 => hk m h1 (by omega))]
    simp only [L.sub_eq, L.mul_eq, L.div_eq, sub_self, mul_zero, zero_div]

/-- derivative coefficients of the affine function's coefficient vector vanish from the second derivative on
(where the knot spans `t (m+1) … t (m+order+1)` involved are non-degenerate) -/
theorem derivCoef_affine (t : Int → α) (order p : Nat) (ho : 1 ≤ order) (hp : 2 ≤ p) (a b : α) (j : Nat)
    (hk : ∀ m : Nat, j ≤ m → m + 1 ≤ j + p → t ((m : Int) + 1) ≠ t ((m : Int) + order + 1)) :
    derivCoef t order p (fun k => a + b * greville t order k) j = 0 := by
  obtain ⟨n, rfl⟩ : ∃ n, order = n + 1 := ⟨order - 1, by omega⟩
  obtain ⟨q, rfl⟩ : ∃ q, p = q + 2 := ⟨p - 2, by omega⟩
  exact derivCoef_affine_succ t n a b q j (fun m h1 h2 => hk m h1 (by omega))

end
end PsV
