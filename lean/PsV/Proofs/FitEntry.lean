import PsV.Proofs.Fit
import PsV.Model.FitEntry
import PsV.Model.Lifecycle
/-! Helper lemmas for the width-aware model `fitBodyW` and the entry point `fitEntry` (C13). -/
namespace PsV.Fit

/-! ### the new statements -/

@[simp] theorem inInt_ok_iff {w : Width} {v : Nat} : inInt w v = .ok ↔ v < I32 := by
  unfold inInt; split <;> simp [*]

@[simp] theorem inLong_ok_iff {w : Width} {v : Nat} : inLong w v = .ok ↔ v < I64 := by
  unfold inLong; split <;> simp [*]

@[simp] theorem inU32_ok_iff {w : Width} {v : Nat} : inU32 w v = .ok ↔ v < U32 := by
  unfold inU32; split <;> simp [*]

/-! ### nothing after the sanity block throws an argument error -/

/-- the block cannot end in a `reject` -/
def NoRej (o : Out) : Prop := ∀ e, o ≠ .reject e

theorem noRej_ok : NoRej .ok := fun _ h => by cases h
theorem noRej_rd (s : Site) (l i : Nat) : NoRej (rd s l i) := by intro e; unfold rd; split <;> simp
theorem noRej_vla (s : Site) (n : Nat) : NoRej (vla s n) := by intro e; unfold vla; split <;> simp
theorem noRej_inInt (w : Width) (v : Nat) : NoRej (inInt w v) := by intro e; unfold inInt; split <;> simp
theorem noRej_inLong (w : Width) (v : Nat) : NoRej (inLong w v) := by intro e; unfold inLong; split <;> simp
theorem noRej_inU32 (w : Width) (v : Nat) : NoRej (inU32 w v) := by intro e; unfold inU32; split <;> simp

theorem noRej_andThen {x y : Out} (hx : NoRej x) (hy : NoRej y) : NoRej (x.andThen y) := by
  intro e
  cases x with
  | ok => simpa [Out.andThen] using hy e
  | reject e' => exact absurd rfl (hx e')
  | fault f => simp [Out.andThen]

theorem noRej_nil : NoRej (seqAll []) := noRej_ok

theorem noRej_cons {x : Out} {xs : List Out} (hx : NoRej x) (hxs : NoRej (seqAll xs)) : NoRej (seqAll (x :: xs)) :=
  noRej_andThen hx hxs

theorem noRej_forN {n : Nat} {f : Nat → Out} (h : ∀ i, NoRej (f i)) : NoRej (forN n f) := by
  induction n with
  | zero => exact noRej_ok
  | succ n ih => exact noRej_andThen ih (h n)

theorem noRej_when {b : Bool} {x : Out} (h : NoRej x) : NoRej (Out.when b x) := by
  unfold Out.when; cases b
  · exact noRej_ok
  · exact h

theorem noRej_bsplineReads (nk : Nat) : ∀ n i, NoRej (bsplineReads nk n i) := by
  intro n
  induction n with
  | zero => intro i; exact noRej_cons (noRej_rd _ _ _) (noRej_cons (noRej_rd _ _ _) noRej_nil)
  | succ n ih =>
    intro i
    unfold bsplineReads
    exact noRej_cons (noRej_rd _ _ _) <| noRej_cons (ih i) <| noRej_cons (noRej_rd _ _ _) <|
      noRej_cons (noRej_rd _ _ _) <| noRej_cons (noRej_rd _ _ _) <| noRej_cons (ih (i+1)) <|
      noRej_cons (noRej_rd _ _ _) <| noRej_cons (noRej_rd _ _ _) noRej_nil

theorem noRej_dividedDiffs (vlaLen nk order : Nat) : ∀ p j outLen, NoRej (dividedDiffs vlaLen nk order p j outLen) := by
  intro p
  induction p with
  | zero =>
    intro j outLen
    exact noRej_cons (noRej_vla _ _) <| noRej_cons (noRej_vla _ _) <| noRej_cons (noRej_rd _ _ _) noRej_nil
  | succ p ih =>
    intro j outLen
    unfold dividedDiffs
    refine noRej_cons (noRej_vla _ _) <| noRej_cons (noRej_vla _ _) <| noRej_cons (ih _ _) <| noRej_cons (ih _ _) <|
      noRej_cons (noRej_rd _ _ _) <| noRej_cons (noRej_rd _ _ _) <| noRej_cons (noRej_rd _ _ _) <|
      noRej_cons (noRej_rd _ _ _) <| noRej_cons (noRej_rd _ _ _) <| noRej_cons (noRej_rd _ _ _) <|
      noRej_cons (noRej_forN fun i => ?_) noRej_nil
    exact noRej_cons (noRej_rd _ _ _) <| noRej_cons (noRej_rd _ _ _) <| noRej_cons (noRej_rd _ _ _) noRej_nil

theorem noRej_bsplineBasisW (nk npts xlen order : Nat) : NoRej (bsplineBasisW nk npts xlen order) := by
  unfold bsplineBasisW
  refine noRej_cons (noRej_inInt _ _) <| noRej_cons (noRej_forN fun col => ?_) noRej_nil
  refine noRej_cons (noRej_forN fun row => ?_) <| noRej_cons (noRej_inInt _ _) noRej_nil
  exact noRej_cons (noRej_rd _ _ _) <| noRej_cons (noRej_inInt _ _) <| noRej_cons (noRej_bsplineReads _ _ _) <|
    noRej_cons (noRej_rd _ _ _) <| noRej_cons (noRej_inInt _ _) <| noRej_cons (noRej_inInt _ _) noRej_nil

theorem noRej_calcPenaltyW (x nd : Nat) (nspl : List Nat) (dim nk order porder : Nat) :
    NoRej (calcPenaltyW x nd nspl dim nk order porder) := by
  unfold calcPenaltyW
  refine noRej_cons (noRej_vla _ _) <| noRej_cons (noRej_rd _ _ _) <| noRej_cons (noRej_forN fun row => ?_) <|
    noRej_cons (noRej_forN fun i => noRej_rd _ _ _) noRej_nil
  refine noRej_cons (noRej_inInt _ _) <| noRej_cons (noRej_inInt _ _) <| noRej_cons (noRej_inInt _ _) <|
    noRej_cons (noRej_inInt _ _) <| noRej_cons (noRej_inInt _ _) <| noRej_cons (noRej_dividedDiffs _ _ _ _ _ _) <|
    noRej_cons (noRej_forN fun k => ?_) noRej_nil
  exact noRej_cons (noRej_rd _ _ _) <| noRej_cons (noRej_rd _ _ _) noRej_nil

theorem noRej_monoTailW (naxes : List Nat) (m : Nat) : NoRej (monoTailW naxes m) := by
  unfold monoTailW
  refine noRej_cons (noRej_rd _ _ _) <| noRej_cons (noRej_inLong _ _) <| noRej_cons (noRej_inLong _ _) <|
    noRej_cons (noRej_forN fun i => noRej_forN fun j => noRej_forN fun k => ?_) noRej_nil
  exact noRej_cons (noRej_inLong _ _) <| noRej_cons (noRej_rd _ _ _) <| noRej_cons (noRej_rd _ _ _) noRej_nil

theorem noRej_fitBodyW (c : Cfg) (a : Args) : NoRej (fitBodyW c a) := by
  unfold fitBodyW
  refine noRej_cons (noRej_inU32 _ _) <| noRej_cons (noRej_forN fun _ => noRej_rd _ _ _) <|
    noRej_cons (noRej_forN fun _ => noRej_rd _ _ _) <| noRej_cons (noRej_forN fun _ => noRej_rd _ _ _) <|
    noRej_cons (noRej_rd _ _ _) <| noRej_cons (noRej_forN fun _ => ?_) <| noRej_cons (noRej_rd _ _ _) <|
    noRej_cons (noRej_rd _ _ _) <| noRej_cons (noRej_forN fun _ => noRej_rd _ _ _) <|
    noRej_cons (noRej_forN fun _ => ?_) <| noRej_cons (noRej_forN fun _ => ?_) <|
    noRej_cons (noRej_forN fun _ => ?_) <| noRej_cons (noRej_when (noRej_monoTailW _ _)) noRej_nil
  · exact noRej_cons (noRej_rd _ _ _) <| noRej_cons (noRej_rd _ _ _) <| noRej_cons (noRej_rd _ _ _) noRej_nil
  · exact noRej_cons (noRej_rd _ _ _) <| noRej_cons (noRej_rd _ _ _) noRej_nil
  · exact noRej_cons (noRej_rd _ _ _) <| noRej_cons (noRej_rd _ _ _) <|
      noRej_cons (noRej_when (noRej_calcPenaltyW _ _ _ _ _ _ _)) noRej_nil
  · exact noRej_cons (noRej_rd _ _ _) <| noRej_cons (noRej_bsplineBasisW _ _ _ _) noRej_nil

/-- an outcome that is neither `ok` nor a `reject` is a fault -/
theorem fault_of_not_ok {o : Out} (h1 : o ≠ .ok) (h2 : NoRej o) : ∃ f, o = .fault f := by
  cases o with
  | ok => exact absurd rfl h1
  | reject e => exact absurd rfl (h2 e)
  | fault f => exact ⟨f, rfl⟩

/-! ### the routines with integer widths -/

theorem bsplineBasisW_ok {nk npts xlen order : Nat} (hk : order + 2 ≤ nk) (hx : npts ≤ xlen) (hnk : nk < I32)
    (hcells : npts * nsplinesOf nk order < I32) : bsplineBasisW nk npts xlen order = .ok := by
  unfold bsplineBasisW
  have hns : nsplinesOf nk order = nk - order - 1 := nsplinesOf_eq (by omega)
  rw [hns] at hcells ⊢
  simp only [forN_ok_iff, seqAll_cons_ok, seqAll_nil, rd_ok_iff, inInt_ok_iff, and_true]
  refine ⟨by omega, fun col hc => ⟨fun row hr => ?_, by omega⟩⟩
  have hcell := cell_lt hc hr
  have hrow : row + 1 ≤ npts * (nk - order - 1) := by
    have : npts * 1 ≤ npts * (nk - order - 1) := Nat.mul_le_mul_left npts (by omega)
    omega
  exact ⟨by omega, by omega, bsplineReads_ok order col (by omega), hcell, by omega, by omega⟩

/-- the `bsplinebasis` clause of `NoWrapB` is necessary: with 2^31 or more cells the counter `k` overflows -/
theorem bsplineBasisW_not_ok {nk npts xlen order : Nat}
    (hcells : I32 ≤ npts * nsplinesOf nk order) : bsplineBasisW nk npts xlen order ≠ .ok := by
  intro h
  unfold bsplineBasisW at h
  simp only [forN_ok_iff, seqAll_cons_ok, seqAll_nil, rd_ok_iff, inInt_ok_iff, and_true] at h
  obtain ⟨_, h⟩ := h
  have hnp : 0 < npts := by
    rcases Nat.eq_zero_or_pos npts with h0 | h0
    · rw [h0, Nat.zero_mul] at hcells; simp [I32] at hcells
    · exact h0
  -- the cell whose `k++` produces 2^31
  have hdm := Nat.div_add_mod (I32 - 1) npts
  have hmod := Nat.mod_lt (I32 - 1) hnp
  have hcol : (I32 - 1) / npts < nsplinesOf nk order := by
    apply Nat.div_lt_of_lt_mul
    have : 0 < I32 := by simp [I32]
    omega
  have := ((h ((I32 - 1) / npts) hcol).1 ((I32 - 1) % npts) hmod).2.2.2.2.2
  rw [Nat.mul_comm] at hdm
  have hpos : 0 < I32 := by simp [I32]
  omega

theorem bsplineBasisW64_ok {nk npts xlen order : Nat} (hk : order + 2 ≤ nk) (hx : npts ≤ xlen) (hnk : nk < I32)
    (hcells : npts * nsplinesOf nk order < U64) : bsplineBasisW64 nk npts xlen order = .ok := by
  unfold bsplineBasisW64
  have hns : nsplinesOf nk order = nk - order - 1 := nsplinesOf_eq (by omega)
  simp only [Nat.mod_eq_of_lt hcells]
  rw [hns]
  simp only [forN_ok_iff, seqAll_cons_ok, seqAll_nil, rd_ok_iff, inInt_ok_iff, and_true]
  refine ⟨by omega, fun col hc row hr => ?_⟩
  exact ⟨by omega, by omega, by omega, bsplineReads_ok order col (by omega), cell_lt hc hr⟩

theorem calcPenaltyW_ok {vlaExtra ndim : Nat} {nspl : List Nat} {dim nk order porder : Nat}
    (hlen : nspl.length = ndim) (hdim : dim < ndim) (hns : nspl.getD dim 0 = nk - order - 1)
    (hk : 2 * order + 2 ≤ nk) (hp : porder ≤ order) (hx : vlaExtra = 1) (hnk : nk < I32) :
    calcPenaltyW vlaExtra ndim nspl dim nk order porder = .ok := by
  unfold calcPenaltyW
  have hw : wsub (nspl.getD dim 0) porder = nk - order - 1 - porder := by
    rw [hns]; exact wsub_of_le (by omega)
  have hI : I32 < U32 := by simp [I32, U32]
  have hp1 : (porder + 1) % U32 = porder + 1 := Nat.mod_eq_of_lt (by omega)
  have hIU : I32 * I32 < U64 := by simp [I32, U64]
  have htl : ((nk - order - 1 - porder) * (porder + 1)) % U64 = (nk - order - 1 - porder) * (porder + 1) := by
    apply Nat.mod_eq_of_lt
    have h1 : (nk - order - 1 - porder) * (porder + 1) ≤ I32 * I32 :=
      Nat.mul_le_mul (by omega) (by omega)
    omega
  simp only [hw, hp1, htl, seqAll_cons_ok, seqAll_nil, rd_ok_iff, vla_ok_iff, inInt_ok_iff, forN_ok_iff, and_true]
  refine ⟨by omega, by omega, ?_, fun i hi => by omega⟩
  intro row hrow
  refine ⟨by omega, by omega, by omega, by omega, by omega,
    dividedDiffs_ok (by omega) porder row (porder+1) (by omega) (by omega) (by omega) (fun _ => by omega), ?_⟩
  intro k hk'
  exact ⟨trip_lt hrow hk', hk'⟩

theorem prodL_pos (l : List Nat) (h : ∀ x ∈ l, 0 < x) : 0 < prodL l := by
  induction l with
  | nil => simp [prodL]
  | cons x xs ih =>
    rw [prodL_cons]
    exact Nat.mul_pos (h x (by simp)) (ih fun y hy => h y (by simp [hy]))

theorem monoTailW_ok (naxes : List Nat) (m : Nat) (h : m < naxes.length) (hpos : ∀ x ∈ naxes, 0 < x)
    (hp : prodL naxes < I64) : monoTailW naxes m = .ok := by
  unfold monoTailW
  have hIU : I64 < U64 := by simp [I64, U64]
  have hmod : prodL naxes % U64 = prodL naxes := Nat.mod_eq_of_lt (by omega)
  have hs1 : 0 < prodL (naxes.take m) := prodL_pos _ fun x hx => hpos x (List.mem_of_mem_take hx)
  have hs2 : 0 < prodL (naxes.drop (m+1)) := prodL_pos _ fun x hx => hpos x (List.mem_of_mem_drop hx)
  have hnm : 0 < naxes.getD m 0 := hpos _ (getD_mem _ _ _ h)
  have hsplit := prodL_split naxes m h
  rw [hmod]
  simp only [seqAll_cons_ok, seqAll_nil, forN_ok_iff, rd_ok_iff, inLong_ok_iff, and_true]
  generalize prodL (naxes.take m) = s1 at *
  generalize prodL (naxes.drop (m+1)) = s2 at *
  generalize naxes.getD m 0 = nm at *
  generalize prodL naxes = P at *
  subst hsplit
  have hnms : 0 < nm * s2 := Nat.mul_pos hnm hs2
  have hle1 : s1 * 1 ≤ s1 * (nm * s2) := Nat.mul_le_mul_left s1 hnms
  have hle2 : 1 * (nm * s2) ≤ s1 * (nm * s2) := Nat.mul_le_mul_right (nm * s2) hs1
  have hle3 : 1 * s2 ≤ nm * s2 := Nat.mul_le_mul_right s2 hnm
  refine ⟨h, by omega, by omega, ?_⟩
  intro i hi j hj k hk
  have e1 : i * s2 * nm = i * (nm * s2) := by rw [Nat.mul_assoc, Nat.mul_comm s2 nm]
  have hA : (j + 1) * s2 + k < nm * s2 := trip_lt (by omega) hk
  have hB : j * s2 + k < nm * s2 := trip_lt (by omega) hk
  have hC : ∀ r, r < nm * s2 → i * (nm * s2) + r < s1 * (nm * s2) := fun r hr => trip_lt hi hr
  have his : i * s2 ≤ i * (nm * s2) := Nat.mul_le_mul_left i (by omega)
  have h0 := hC 0 hnms
  rw [e1]
  have hA' := hC _ hA
  have hB' := hC _ hB
  have mA : (i * (nm * s2) + (j + 1) * s2 + k) % U64 = i * (nm * s2) + (j + 1) * s2 + k :=
    Nat.mod_eq_of_lt (by omega)
  have mB : (i * (nm * s2) + j * s2 + k) % U64 = i * (nm * s2) + j * s2 + k := Nat.mod_eq_of_lt (by omega)
  rw [mA, mB]
  exact ⟨by omega, by omega, by omega⟩

/-! ### the size condition -/

theorem noWrapB_iff (a : Args) : NoWrapB a = true ↔
    a.data.ndim < U32 ∧ (∀ i, i < a.data.ndim → a.nkAt i < I32 ∧ a.rangeOf i * a.nsplAt i < I32) ∧ ncoeffs a < I64 := by
  simp only [NoWrapB, Bool.and_eq_true, decide_eq_true_eq, List.all_eq_true, List.mem_range]
  constructor
  · rintro ⟨⟨h1, h2⟩, h3⟩; exact ⟨h1, h2, h3⟩
  · rintro ⟨h1, h2, h3⟩; exact ⟨⟨h1, h2⟩, h3⟩

theorem stridesOfW_eq {naxes : List Nat} (h : prodL naxes < U64) (hpos : ∀ x ∈ naxes, 0 < x) :
    stridesOfW naxes = stridesOf naxes := by
  unfold stridesOfW stridesOf
  rw [List.map_map]
  apply List.map_congr_left
  intro i hi
  have hi' : i < naxes.length := List.mem_range.mp hi
  simp only [Function.comp]
  apply Nat.mod_eq_of_lt
  -- a suffix product is at most the whole product
  have hsplit : prodL naxes = prodL (naxes.take (i+1)) * prodL (naxes.drop (i+1)) := by
    rw [← prodL_append, List.take_append_drop]
  have hpre : 0 < prodL (naxes.take (i+1)) := prodL_pos _ fun x hx => hpos x (List.mem_of_mem_take hx)
  have : 1 * prodL (naxes.drop (i+1)) ≤ prodL (naxes.take (i+1)) * prodL (naxes.drop (i+1)) :=
    Nat.mul_le_mul_right _ hpre
  show (naxes.drop (i+1)).foldl (· * ·) 1 < U64
  have e : (naxes.drop (i+1)).foldl (· * ·) 1 = prodL (naxes.drop (i+1)) := rfl
  omega

/-! ### knot vectors for the large witnesses -/

theorem sortedB_replicate (n : Nat) (k : Int) : sortedB (List.replicate n (some k)) = true := by
  induction n with
  | zero => rfl
  | succ n ih =>
    cases n with
    | zero => rfl
    | succ m =>
      simp only [List.replicate_succ] at ih ⊢
      simp [sortedB, keyLt, ih]


/-- the knots `0, 1, …, n-1` -/
def iotaKnots (n : Nat) : List (Option Int) := (List.range' 0 n).map fun i => some (Int.ofNat i)

theorem sortedB_range' (n s : Nat) : sortedB ((List.range' s n).map fun i => some (Int.ofNat i)) = true := by
  induction n generalizing s with
  | zero => rfl
  | succ n ih =>
    cases n with
    | zero => rfl
    | succ m =>
      have h := ih (s + 1)
      simp only [List.range'_succ, List.map_cons] at h ⊢
      simp only [sortedB, keyLt, h, Bool.and_true, Bool.not_eq_true', decide_eq_false_iff_not]
      simp only [Int.ofNat_eq_natCast]
      omega

theorem sortedB_iotaKnots (n : Nat) : sortedB (iotaKnots n) = true := sortedB_range' n 0

theorem length_iotaKnots (n : Nat) : (iotaKnots n).length = n := by simp [iotaKnots]

/-- A family of consistent argument tuples of any size: `nd` dimensions, each with `nk` knots `0..nk-1`, order `ord`,
    `npts` abscissae; one data point (all indices 0); no smoothing, penalty order 0. -/
def uniArgs (nd nk ord npts mono : Nat) : Args :=
  ⟨⟨1, nd, List.replicate nd npts, List.replicate nd [0]⟩, 1, List.replicate nd npts, List.replicate nd ord,
   List.replicate nd (iotaKnots nk), [false], [0], mono⟩

theorem getD_replicate {α} (n i : Nat) (x d : α) (h : i < n) : (List.replicate n x).getD i d = x := by
  simp [List.getD_eq_getElem?_getD, h]

section uni
variable {nd nk ord npts mono i : Nat}

theorem uni_knotsAt (h : i < nd) : (uniArgs nd nk ord npts mono).knotsAt i = iotaKnots nk := by
  show (List.replicate nd (iotaKnots nk)).getD i [] = _; exact getD_replicate _ _ _ _ h
theorem uni_nkAt (h : i < nd) : (uniArgs nd nk ord npts mono).nkAt i = nk := by
  show ((uniArgs nd nk ord npts mono).knotsAt i).length = nk; rw [uni_knotsAt h, length_iotaKnots]
theorem uni_ordAt (h : i < nd) : (uniArgs nd nk ord npts mono).ordAt i = ord := by
  show (List.replicate nd ord).getD i 0 = _; exact getD_replicate _ _ _ _ h
theorem uni_rangeOf (h : i < nd) : (uniArgs nd nk ord npts mono).rangeOf i = npts := by
  show (List.replicate nd npts).getD i 0 = _; exact getD_replicate _ _ _ _ h
theorem uni_coordLen (h : i < nd) : (uniArgs nd nk ord npts mono).coordLen i = npts := by
  show (List.replicate nd npts).getD i 0 = _; exact getD_replicate _ _ _ _ h
theorem uni_idxCol (h : i < nd) : (uniArgs nd nk ord npts mono).idxCol i = [0] := by
  show (List.replicate nd [0]).getD i [] = _; exact getD_replicate _ _ _ _ h
theorem uni_nsplAt (h : i < nd) (hk : ord + 1 ≤ nk) : (uniArgs nd nk ord npts mono).nsplAt i = nk - ord - 1 := by
  simp only [Args.nsplAt, uni_nkAt h, uni_ordAt h]; exact nsplinesOf_eq hk

theorem uni_wf : (uniArgs nd nk ord npts mono).data.WF :=
  ⟨by simp [uniArgs], by simp [uniArgs], by
    intro c hc
    simp only [uniArgs] at hc
    rw [List.eq_of_mem_replicate hc]; rfl⟩

theorem uni_checks (hnd : 1 ≤ nd) (hnp : 1 ≤ npts) (hk : 2 * ord + 2 ≤ nk)
    (hm : mono = noMonodim ∨ mono < nd) : fitChecks repaired (uniArgs nd nk ord npts mono) = .ok := by
  rw [fitChecks_ok_iff]
  refine ⟨rfl, by simp only [uniArgs]; omega, by simp [uniArgs], ?_, by simp [uniArgs], ?_, by simp [uniArgs],
    by simp [uniArgs], ?_, Or.inr (by simp [uniArgs]), Or.inr (by simp [uniArgs]), ?_, hm⟩
  · intro i hi
    have hi' : i < nd := hi
    rw [uni_idxCol hi', uni_rangeOf hi']
    refine ⟨by simpa [uniArgs] using hi', by simp, by simpa [uniArgs] using hi', ?_⟩
    simp only [maxIdx, List.foldl_cons, List.foldl_nil]; omega
  · intro i hi
    have hi' : i < nd := hi
    rw [uni_coordLen hi', uni_rangeOf hi']
    exact ⟨by simpa [uniArgs] using hi', Nat.le_refl _⟩
  · intro i hi
    have hi' : i < nd := hi
    rw [uni_knotsAt hi', uni_ordAt hi', uni_nkAt hi']
    exact ⟨by simpa [uniArgs] using hi', sortedB_iotaKnots nk, by simpa [uniArgs] using hi', hk⟩
  · intro i hi
    have hi' : i < nd := hi
    have hpi : (uniArgs nd nk ord npts mono).penIdx i = 0 := by simp [Args.penIdx, uniArgs]
    refine ⟨by rw [hpi]; simp [uniArgs], by simpa [uniArgs] using hi', ?_⟩
    have hpa : (uniArgs nd nk ord npts mono).penAt i = 0 := by
      show ([0] : List Nat).getD ((uniArgs nd nk ord npts mono).penIdx i) 0 = 0
      rw [hpi]; rfl
    rw [hpa]; exact Nat.zero_le _

theorem map_range_const {f : Nat → Nat} {c n : Nat} (h : ∀ i, i < n → f i = c) :
    (List.range n).map f = List.replicate n c := by
  apply List.ext_getElem
  · simp
  · intro i h1 h2
    simp only [List.getElem_map, List.getElem_range, List.getElem_replicate]
    exact h i (by simpa using h1)

theorem prodL_replicate (n c : Nat) : prodL (List.replicate n c) = c ^ n := by
  induction n with
  | zero => simp [prodL]
  | succ n ih => rw [List.replicate_succ, prodL_cons, ih, Nat.pow_succ, Nat.mul_comm]

theorem uni_ncoeffs (hk : ord + 1 ≤ nk) : ncoeffs (uniArgs nd nk ord npts mono) = (nk - ord - 1) ^ nd := by
  unfold ncoeffs
  have : (uniArgs nd nk ord npts mono).data.ndim = nd := rfl
  rw [this, map_range_const (c := nk - ord - 1) fun i hi => uni_nsplAt hi hk, prodL_replicate]
end uni


/-! ### bridge to C20's life-cycle model (`PsV.Lifecycle.fit`, Model/Lifecycle.lean) -/

open PsV.Lifecycle in
/-- without an allocation countdown a program of allocations runs to its end … -/
theorem runSteps_allocs (l : List Nat) (live : List Nat) :
    (runSteps none (l.map Step.a) live).2.2.2 = true := by
  induction l generalizing live with
  | nil => simp [runSteps]
  | cons n rest ih => simpa [runSteps, dec] using ih (live ++ [n])

open PsV.Lifecycle in
/-- … and one that ends in a non-allocation failure does not -/
theorem runSteps_allocs_fail (l : List Nat) (live : List Nat) :
    (runSteps none (l.map Step.a ++ [Step.fail]) live).2.2.2 = false := by
  induction l generalizing live with
  | nil => simp [runSteps]
  | cons n rest ih => simpa [runSteps, dec] using ih (live ++ [n])

open PsV.Lifecycle in
theorem build_ok_of_complete (guard : Bool) (t : Tab) (steps : List Step) (target : Tab) (n : Nat)
    (h : (runSteps none steps []).2.2.2 = true) :
    (build guard t none steps target n).res = .ok ∧ (build guard t none steps target n).tab.ndim = target.ndim := by
  unfold build
  simp only [h, if_true]
  exact ⟨trivial, rfl⟩

open PsV.Lifecycle in
theorem build_guard_of_failed (t : Tab) (steps : List Step) (target : Tab) (n : Nat)
    (h : (runSteps none steps []).2.2.2 = false) :
    (build true t none steps target n).res = .threw ∧ (build true t none steps target n).tab.ndim = t.ndim := by
  unfold build
  simp only [h, Bool.false_eq_true, if_false, if_true]
  exact ⟨trivial, rfl⟩

open PsV.Lifecycle in
/-- C20's `fit` at HEAD on an empty table with arguments its `valid` flag accepts is `build` under the guard -/
theorem lifecycle_fit_empty_valid (t : Tab) (fa : FitArgs) (ht : t.ndim = 0) (hv : fa.valid = true) (hd : fa.dims ≠ []) :
    PsV.Lifecycle.fit Cfg.head t none fa = build true t none (fitSteps fa) (fitTarget fa t) fa.dims.length := by
  unfold PsV.Lifecycle.fit
  simp [Cfg.head, ht, hv, hd]

open PsV.Lifecycle in
theorem lifecycle_fit_empty_invalid (t : Tab) (fa : FitArgs) (ht : t.ndim = 0) (hv : fa.valid = false) :
    PsV.Lifecycle.fit Cfg.head t none fa = ⟨t, none, .threw, []⟩ := by
  unfold PsV.Lifecycle.fit
  simp [Cfg.head, ht, hv]

open PsV.Lifecycle in
theorem lifecycle_fit_occupied (t : Tab) (fa : FitArgs) (ht : t.ndim ≠ 0) :
    PsV.Lifecycle.fit Cfg.head t none fa = ⟨t, none, .threw, []⟩ := by
  unfold PsV.Lifecycle.fit
  simp [Cfg.head, ht]

open PsV.Lifecycle in
theorem fitSteps_complete (fa : FitArgs) (h : fa.glamOk = true) : (runSteps none (fitSteps fa) []).2.2.2 = true := by
  unfold fitSteps
  rw [h]; simp only [if_true, List.append_nil]
  exact runSteps_allocs _ _

open PsV.Lifecycle in
theorem fitSteps_failed (fa : FitArgs) (h : fa.glamOk = false) : (runSteps none (fitSteps fa) []).2.2.2 = false := by
  unfold fitSteps
  rw [h]; simp only [Bool.false_eq_true, if_false]
  exact runSteps_allocs_fail _ _

/-- What C20's model keeps of an argument tuple: whether the sanity block accepts it (`valid`), whether
    `glamfit_complex` succeeds, and the dimensions of the table that is built. -/
def toLifecycle (a : Args) (x : Ext) : PsV.Lifecycle.FitArgs :=
  { valid := decide (fitChecks repaired a = .ok)
    glamOk := decide (x ≠ .glamFailed)
    dims := (List.range a.data.ndim).map fun i => ⟨a.ordAt i, a.nkAt i, a.nsplAt i⟩ }

theorem toLifecycle_dims_length (a : Args) (x : Ext) : (toLifecycle a x).dims.length = a.data.ndim := by
  simp [toLifecycle]

end PsV.Fit
