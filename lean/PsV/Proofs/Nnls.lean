import PsV.Model.Nnls
import Mathlib.Data.Matrix.Mul
import Mathlib.LinearAlgebra.Matrix.Symmetric
import Mathlib.Algebra.Order.BigOperators.Group.Finset
import Mathlib.Algebra.Order.Field.Basic
import Mathlib.Algebra.Order.Ring.Rat
import Mathlib.Data.Rat.Defs
import Mathlib.Tactic.Linarith
import Mathlib.Tactic.Ring
import Mathlib.Algebra.BigOperators.Fin
set_option linter.unusedSectionVars false
/-!
# Helper lemmas for C11 (NNLS): the quadratic objective, KKT points, and the bridge between the executable
`Nat`-indexed checker of `PsV.Model.Nnls` and `Matrix (Fin n) (Fin n)`.
-/
namespace PsV
open Matrix

section Quad
variable {n : ℕ} {α : Type} [Field α] [LinearOrder α] [IsStrictOrderedRing α]

/-- the objective `½ zᵀAz − bᵀz` -/
def qf (A : Matrix (Fin n) (Fin n) α) (b z : Fin n → α) : α := (1/2) * (z ⬝ᵥ A *ᵥ z) - b ⬝ᵥ z

/-- its gradient `Az − b` -/
def gradM (A : Matrix (Fin n) (Fin n) α) (b z : Fin n → α) : Fin n → α := A *ᵥ z - b

/-- symmetric positive definite, stated directly (Mathlib's `Matrix.PosDef` needs a star-ordered ring) -/
def SPD (A : Matrix (Fin n) (Fin n) α) : Prop := A.IsSymm ∧ ∀ v : Fin n → α, v ≠ 0 → 0 < v ⬝ᵥ A *ᵥ v

/-- symmetric positive semidefinite -/
def SPSD (A : Matrix (Fin n) (Fin n) α) : Prop := A.IsSymm ∧ ∀ v : Fin n → α, 0 ≤ v ⬝ᵥ A *ᵥ v

theorem SPD.spsd {A : Matrix (Fin n) (Fin n) α} (h : SPD A) : SPSD A := by
  refine ⟨h.1, fun v => ?_⟩
  by_cases hv : v = 0
  · subst hv; simp
  · exact le_of_lt (h.2 v hv)

/-- exact KKT conditions of `min qf, z ≥ 0` -/
def KKT (A : Matrix (Fin n) (Fin n) α) (b x : Fin n → α) : Prop :=
  (∀ i, 0 ≤ x i) ∧ (∀ i, 0 ≤ gradM A b x i) ∧ (∀ i, 0 < x i → gradM A b x i = 0)

/-- KKT up to a per-component tolerance -/
def TolKKT (A : Matrix (Fin n) (Fin n) α) (b x tol : Fin n → α) : Prop :=
  (∀ i, 0 ≤ x i) ∧ (∀ i, -(tol i) ≤ gradM A b x i) ∧ (∀ i, 0 < x i → gradM A b x i ≤ tol i)

theorem symm_swap {A : Matrix (Fin n) (Fin n) α} (hA : A.IsSymm) (x d : Fin n → α) :
    x ⬝ᵥ A *ᵥ d = d ⬝ᵥ A *ᵥ x := by
  rw [Matrix.dotProduct_mulVec, ← Matrix.mulVec_transpose, hA.eq, dotProduct_comm]

/-- second-order expansion of the objective (exact: it is quadratic) -/
theorem qf_expand {A : Matrix (Fin n) (Fin n) α} (hA : A.IsSymm) (b x d : Fin n → α) :
    qf A b (x + d) = qf A b x + d ⬝ᵥ gradM A b x + (1/2) * (d ⬝ᵥ A *ᵥ d) := by
  unfold qf gradM
  rw [Matrix.mulVec_add, add_dotProduct, dotProduct_add, dotProduct_add, dotProduct_add, dotProduct_sub,
    symm_swap hA x d, dotProduct_comm b d]
  ring

theorem qf_diff {A : Matrix (Fin n) (Fin n) α} (hA : A.IsSymm) (b x z : Fin n → α) :
    qf A b z - qf A b x = (z - x) ⬝ᵥ gradM A b x + (1/2) * ((z - x) ⬝ᵥ A *ᵥ (z - x)) := by
  have h := qf_expand hA b x (z - x)
  rw [add_sub_cancel] at h
  rw [h]; ring

theorem dot_sub_split (z x g : Fin n → α) : (z - x) ⬝ᵥ g = z ⬝ᵥ g - x ⬝ᵥ g := sub_dotProduct z x g

end Quad

/-! ## bridge `Nat`-indexed executable definitions ↔ `Fin n`-indexed matrices (at `ℚ`) -/
namespace Nnls

def toMat (n : ℕ) (A : Mat) : Matrix (Fin n) (Fin n) ℚ := fun i j => A i j
def toVec (n : ℕ) (v : Vec) : Fin n → ℚ := fun i => v i

theorem foldl_add_eq (f : ℕ → ℚ) (l : List ℕ) (a : ℚ) :
    l.foldl (fun acc i => acc + f i) a = a + (l.map f).sum := by
  induction l generalizing a with
  | nil => simp
  | cons h t ih => simp only [List.foldl_cons, List.map_cons, List.sum_cons]; rw [ih]; ring

theorem sumTo_eq (n : ℕ) (f : ℕ → ℚ) : sumTo n f = ∑ i : Fin n, f i := by
  unfold sumTo
  rw [foldl_add_eq, zero_add]
  induction n with
  | zero => simp
  | succ k ih =>
    rw [List.range_succ, List.map_append, List.sum_append, ih, Fin.sum_univ_castSucc]
    simp

theorem grad_eq (n : ℕ) (A : Mat) (b x : Vec) (i : Fin n) :
    grad n A b x i = gradM (toMat n A) (toVec n b) (toVec n x) i := by
  unfold grad Nnls.mulVec gradM
  rw [sumTo_eq]
  simp [Matrix.mulVec, dotProduct, toMat, toVec]

theorem gapBound_eq (n : ℕ) (tol x z : Vec) :
    gapBound n tol x z = ∑ i : Fin n, toVec n tol i * (toVec n x i + toVec n z i) := by
  unfold gapBound; rw [sumTo_eq]; rfl

theorem halfQuad_eq (n : ℕ) (A : Mat) (d : Vec) :
    halfQuad n A d = (1/2) * (toVec n d ⬝ᵥ (toMat n A) *ᵥ (toVec n d)) := by
  unfold halfQuad
  rw [sumTo_eq]
  have : ∀ i : Fin n, d i * Nnls.mulVec n A d i = toVec n d i * ((toMat n A) *ᵥ (toVec n d)) i := by
    intro i
    unfold Nnls.mulVec
    rw [sumTo_eq]
    simp [Matrix.mulVec, dotProduct, toMat, toVec]
  simp only [this, dotProduct]
  ring

theorem getD_tab {β : Type} (n : ℕ) (f : ℕ → β) (i : ℕ) (d : β) :
    (tab n f).getD i d = if i < n then f i else d := by
  unfold tab
  by_cases h : i < n
  · simp [Array.getD, h]
  · simp [Array.getD, h]

theorem at0_tab (n : ℕ) (f : ℕ → ℚ) (i : ℕ) : at0 (tab n f) i = if i < n then f i else 0 :=
  getD_tab n f i 0

theorem atF_tab (n : ℕ) (f : ℕ → Bool) (i : ℕ) : atF (tab n f) i = if i < n then f i else false :=
  getD_tab n f i false

theorem at0_empty (i : ℕ) : at0 #[] i = 0 := by simp [at0, Array.getD]

theorem countB_zero {n : ℕ} {p : ℕ → Bool} (h : countB n p = 0) (i : ℕ) (hi : i < n) : p i = false := by
  unfold countB at h
  rw [List.length_eq_zero_iff, List.filter_eq_nil_iff] at h
  have := h i (List.mem_range.mpr hi)
  simpa using this


/-! ## BLOCK3 state machine: non-negativity -/

/-- every component of the iterate is `≥ 0` -/
def NN (s : B3State) : Prop := ∀ i, 0 ≤ at0 s.x i

theorem trialVal_nonneg (inF : ℕ → Bool) (x xF : ℕ → ℚ) (a : ℚ) (i : ℕ) (hx : 0 ≤ x i) :
    0 ≤ trialVal inF x xF a i := by
  unfold trialVal
  split
  · split
    · exact le_refl _
    · rename_i h; exact not_lt.mp h
  · exact hx

theorem innerLoop_nn (E : B3Env) : ∀ (fuel : ℕ) (s : B3State) (h2 : Array Bool) (s' : B3State),
    NN s → innerLoop E fuel s h2 = some s' → NN s' := by
  intro fuel
  induction fuel with
  | zero => intro s h2 s' _ h; simp [innerLoop] at h
  | succ f ih =>
    intro s h2 s' hs h
    rw [innerLoop] at h
    dsimp only at h
    split_ifs at h with c1 c2 c3
    · -- accept
      have : s' = _ := (Option.some.inj h).symm
      subst this
      intro i
      show 0 ≤ at0 (tab E.n _) i
      rw [at0_tab]
      split
      · rename_i hi
        split
        · rename_i hF
          have hz := countB_zero c1 i hi
          simp only [hF, Bool.true_and, decide_eq_false_iff_not, not_lt] at hz
          exact hz
        · exact hs i
      · exact le_refl _
    · -- boundary
      refine ih _ _ _ ?_ h
      intro i
      show 0 ≤ at0 (tab E.n _) i
      rw [at0_tab]
      split
      · split
        · exact le_refl _
        · exact hs i
      · exact le_refl _
    · -- walk, feasible
      have : s' = _ := (Option.some.inj h).symm
      subst this
      intro i
      show 0 ≤ at0 (tab E.n _) i
      rw [at0_tab]
      split
      · exact trialVal_nonneg _ _ _ _ _ (hs i)
      · exact le_refl _
    · -- walk, not feasible
      refine ih _ _ _ ?_ h
      intro i
      show 0 ≤ at0 (tab E.n _) i
      rw [at0_tab]
      split
      · exact trialVal_nonneg _ _ _ _ _ (hs i)
      · exact le_refl _

theorem outerLoop_nn (E : B3Env) : ∀ (fuel : ℕ) (s : B3State), NN s → NN (outerLoop E fuel s).1 := by
  intro fuel
  induction fuel with
  | zero => intro s hs; simpa [outerLoop] using hs
  | succ f ih =>
    intro s hs
    rw [outerLoop]
    dsimp only
    split_ifs with c1
    · exact hs
    · cases hi : innerLoop E E.innerFuel { s with h1 := tab E.n fun i => atF s.h1 i && !(!(atF s.inF i && !atF s.h1 i) && decide (at0 s.y i < -E.tol)) }
          (tab E.n fun i => (!(atF s.inF i && !atF s.h1 i) && decide (at0 s.y i < -E.tol)) && !atF s.h1 i) with
      | none => simpa using hs
      | some s1 =>
        simp only
        apply ih
        intro i
        show 0 ≤ at0 (tab E.n _) i
        rw [at0_tab]
        have h1 : NN s1 := by
          refine innerLoop_nn E _ _ _ _ ?_ hi
          intro i; exact hs i
        split
        · split
          · exact h1 i
          · exact le_refl _
        · exact le_refl _


/-! ## BLOCK3 state machine: the convergence exit with exact solves -/

theorem sumTo_congr (n : ℕ) (f g : ℕ → ℚ) (h : ∀ i, i < n → f i = g i) : sumTo n f = sumTo n g := by
  rw [sumTo_eq, sumTo_eq]; exact Finset.sum_congr rfl (fun i _ => h i i.2)

theorem grad_congr (n : ℕ) (A : Mat) (b x x' : Vec) (h : ∀ j, j < n → x j = x' j) (i : ℕ) :
    grad n A b x i = grad n A b x' i := by
  unfold grad Nnls.mulVec
  congr 1
  apply sumTo_congr
  intro j hj; rw [h j hj]

theorem grad_zero (n : ℕ) (A : Mat) (b : Vec) (i : ℕ) : grad n A b (fun _ => 0) i = -(b i) := by
  unfold grad Nnls.mulVec
  rw [sumTo_eq]; simp

theorem atF_empty (i : ℕ) : atF #[] i = false := by simp [atF, Array.getD]

/-- What "exact solves" means for the environment of BLOCK3 on the system `(A, b)`. -/
structure ExactEnv (E : B3Env) (A : Mat) (b : Vec) : Prop where
  tol_nonneg : 0 ≤ E.tol
  /-- the passive-set solve returns a vector whose gradient vanishes on `F` (zero elsewhere) -/
  solve_exact : ∀ (inF : ℕ → Bool) (i : ℕ), i < E.n → inF i = true →
      grad E.n A b (fun j => if inF j then at0 (E.solve inF) j else 0) i = 0
  /-- the dual update is the gradient of the point that is `x` on `F_` and zero elsewhere -/
  dual_exact : ∀ (inF : ℕ → Bool) (x : ℕ → ℚ) (i : ℕ), i < E.n →
      E.dual inF x i = grad E.n A b (fun j => if inF j then x j else 0) i

/-- invariant of the outer loop -/
structure B3Inv (E : B3Env) (A : Mat) (b : Vec) (s : B3State) : Prop where
  nn : NN s
  zeroG : ∀ i, i < E.n → (atF s.inF i && !atF s.h1 i) = false → at0 s.x i = 0
  yG : ∀ i, i < E.n → (atF s.inF i && !atF s.h1 i) = false → at0 s.y i = grad E.n A b (at0 s.x) i
  opt : s.optF = true →
    (∀ i, i < E.n → atF s.h1 i = false) ∧ ∀ i, i < E.n → atF s.inF i = true → grad E.n A b (at0 s.x) i = 0

theorem b3Init_inv (E : B3Env) (A : Mat) (b : Vec) : B3Inv E A b (b3Init E.n fun i => -(b i)) := by
  refine ⟨?_, ?_, ?_, ?_⟩
  · intro i; simp [b3Init, at0_empty]
  · intro i _ _; simp [b3Init, at0_empty]
  · intro i hi _
    show at0 (tab E.n _) i = grad E.n A b (at0 #[]) i
    rw [at0_tab, if_pos hi, grad_congr E.n A b (at0 #[]) (fun _ => 0) (fun j _ => at0_empty j), grad_zero]
  · intro _
    refine ⟨fun i _ => atF_empty i, fun i _ h => ?_⟩
    simp [b3Init, atF_empty] at h

/-- when the inner loop hands back `optimal_on_F = true`, nothing is pending and `x` is the solve on `F` -/
theorem innerLoop_opt (E : B3Env) : ∀ (fuel : ℕ) (s : B3State) (h2 : Array Bool) (s' : B3State),
    innerLoop E fuel s h2 = some s' → s'.optF = true →
      (∀ i, atF s'.h1 i = false) ∧
      ∀ i, i < E.n → atF s'.inF i = true → at0 s'.x i = at0 (E.solve (atF s'.inF)) i := by
  intro fuel
  induction fuel with
  | zero => intro s h2 s' h; simp [innerLoop] at h
  | succ f ih =>
    intro s h2 s' h hopt
    rw [innerLoop] at h
    dsimp only at h
    split_ifs at h with c1 c2 c3
    · have : s' = _ := (Option.some.inj h).symm
      subst this
      refine ⟨fun i => atF_empty i, fun i hi hF => ?_⟩
      show at0 (tab E.n _) i = _
      rw [at0_tab, if_pos hi]
      simp only at hF
      rw [if_pos hF]
    · exact ih _ _ _ h hopt
    · have : s' = _ := (Option.some.inj h).symm
      subst this
      simp at hopt
    · exact ih _ _ _ h hopt

theorem outerLoop_kkt (E : B3Env) (A : Mat) (b : Vec) (hE : ExactEnv E A b) :
    ∀ (fuel : ℕ) (s : B3State), B3Inv E A b s → (outerLoop E fuel s).2 = B3Exit.converged →
      kktCheck E.n A b (at0 (outerLoop E fuel s).1.x) (fun _ => E.tol) = true := by
  intro fuel
  induction fuel with
  | zero => intro s _ h; simp [outerLoop] at h
  | succ f ih =>
    intro s hs
    rw [outerLoop]
    dsimp only
    split_ifs with c1
    · intro _
      simp only [Bool.and_eq_true, decide_eq_true_eq] at c1
      obtain ⟨hcnt, hopt⟩ := c1
      obtain ⟨hh1, hgF⟩ := hs.opt hopt
      unfold kktCheck
      rw [List.all_eq_true]
      intro i hi
      have hi' : i < E.n := List.mem_range.mp hi
      simp only [Bool.and_eq_true, Bool.or_eq_true, decide_eq_true_eq]
      refine ⟨⟨hs.nn i, ?_⟩, ?_⟩
      · by_cases hF : atF s.inF i = true
        · rw [hgF i hi' hF]; have := hE.tol_nonneg; linarith
        · have hF' : atF s.inF i = false := by simpa using hF
          have hz := countB_zero hcnt i hi'
          rw [atF_tab, if_pos hi'] at hz
          simp only [hF', hh1 i hi', Bool.not_false, Bool.true_and, Bool.and_true,
            decide_eq_false_iff_not, not_lt] at hz
          rw [← hs.yG i hi' (by simp [hF'])]
          exact hz
      · by_cases hF : atF s.inF i = true
        · right; rw [hgF i hi' hF]; exact hE.tol_nonneg
        · have hF' : atF s.inF i = false := by simpa using hF
          left; rw [hs.zeroG i hi' (by simp [hF'])]
    · cases hin : innerLoop E E.innerFuel { s with h1 := tab E.n fun i => atF s.h1 i && !(!(atF s.inF i && !atF s.h1 i) && decide (at0 s.y i < -E.tol)) }
          (tab E.n fun i => (!(atF s.inF i && !atF s.h1 i) && decide (at0 s.y i < -E.tol)) && !atF s.h1 i) with
      | none => intro h; simp at h
      | some s1 =>
        simp only
        apply ih
        have hnn1 : NN s1 := by
          refine innerLoop_nn E _ _ _ _ ?_ hin
          intro i; exact hs.nn i
        have hinF_ : ∀ j, j < E.n →
            atF (tab E.n fun i => atF s1.inF i && !atF s1.h1 i) j = (atF s1.inF j && !atF s1.h1 j) := by
          intro j hj; rw [atF_tab, if_pos hj]
        have hx2 : ∀ j, j < E.n →
            at0 (tab E.n fun i => if atF (tab E.n fun i => atF s1.inF i && !atF s1.h1 i) i then at0 s1.x i else 0) j
              = if (atF s1.inF j && !atF s1.h1 j) then at0 s1.x j else 0 := by
          intro j hj; rw [at0_tab, if_pos hj, hinF_ j hj]
        refine ⟨?_, ?_, ?_, ?_⟩
        · intro i
          show 0 ≤ at0 (tab E.n _) i
          rw [at0_tab]
          split
          · split
            · exact hnn1 i
            · exact le_refl _
          · exact le_refl _
        · intro i hi hG
          show at0 (tab E.n _) i = 0
          simp only at hG
          rw [hx2 i hi, hG]; simp
        · intro i hi hG
          show at0 (tab E.n _) i = grad E.n A b (at0 (tab E.n _)) i
          simp only at hG
          rw [at0_tab, if_pos hi, hinF_ i hi, hG]
          simp only [Bool.false_eq_true, if_false]
          rw [hE.dual_exact _ _ i hi]
          apply grad_congr
          intro j hj
          rw [hx2 j hj, hinF_ j hj]
        · intro hopt
          simp only at hopt
          obtain ⟨hh1, hsol⟩ := innerLoop_opt E _ _ _ _ hin hopt
          refine ⟨fun i _ => hh1 i, fun i hi hF => ?_⟩
          simp only at hF
          show grad E.n A b (at0 (tab E.n _)) i = 0
          refine Eq.trans ?_ (hE.solve_exact (atF s1.inF) i hi hF)
          apply grad_congr
          intro j hj
          rw [hx2 j hj, hh1 j]
          simp only [Bool.not_false, Bool.and_true]
          by_cases hj' : atF s1.inF j = true
          · rw [if_pos hj', if_pos hj', hsol j hj hj']
          · rw [if_neg hj', if_neg hj']

end Nnls
end PsV
