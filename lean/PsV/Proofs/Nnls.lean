import PsV.Model.Nnls
import Mathlib.Data.Matrix.Mul
import Mathlib.LinearAlgebra.Matrix.Symmetric
import Mathlib.Algebra.Order.BigOperators.Group.Finset
import Mathlib.Algebra.Order.Field.Basic
import Mathlib.Algebra.Order.Ring.Rat
import Mathlib.Data.Rat.Defs
import Mathlib.Tactic.Linarith
import Mathlib.Tactic.Ring
import Mathlib.Algebra.BigOperators.Fin
set_option linter.unusedSectionVars false
/-!
# Helper lemmas for C11 (NNLS): the quadratic objective, KKT points, and the bridge between the executable
`Nat`-indexed checker of `PsV.Model.Nnls` and `Matrix (Fin n) (Fin n)`.
-/
namespace PsV
open Matrix

section Quad
variable {n : ℕ} {α : Type} [Field α] [LinearOrder α] [IsStrictOrderedRing α]

/-- the objective `½ zᵀAz − bᵀz` -/
def qf (A : Matrix (Fin n) (Fin n) α) (b z : Fin n → α) : α := (1/2) * (z ⬝ᵥ A *ᵥ z) - b ⬝ᵥ z

/-- its gradient `Az − b` -/
def gradM (A : Matrix (Fin n) (Fin n) α) (b z : Fin n → α) : Fin n → α := A *ᵥ z - b

/-- symmetric positive definite, stated directly (Mathlib's `Matrix.PosDef` needs a star-ordered ring) -/
def SPD (A : Matrix (Fin n) (Fin n) α) : Prop := A.IsSymm ∧ ∀ v : Fin n → α, v ≠ 0 → 0 < v ⬝ᵥ A *ᵥ v

/-- symmetric positive semidefinite -/
def SPSD (A : Matrix (Fin n) (Fin n) α) : Prop := A.IsSymm ∧ ∀ v : Fin n → α, 0 ≤ v ⬝ᵥ A *ᵥ v

theorem SPD.spsd {A : Matrix (Fin n) (Fin n) α} (h : SPD A) : SPSD A := by
  refine ⟨h.1, fun v => ?_⟩
  by_cases hv : v = 0
  · subst hv; simp
  · exact le_of_lt (h.2 v hv)

/-- exact KKT conditions of `min qf, z ≥ 0` -/
def KKT (A : Matrix (Fin n) (Fin n) α) (b x : Fin n → α) : Prop :=
  (∀ i, 0 ≤ x i) ∧ (∀ i, 0 ≤ gradM A b x i) ∧ (∀ i, 0 < x i → gradM A b x i = 0)

/-- KKT up to a per-component tolerance -/
def TolKKT (A : Matrix (Fin n) (Fin n) α) (b x tol : Fin n → α) : Prop :=
  (∀ i, 0 ≤ x i) ∧ (∀ i, -(tol i) ≤ gradM A b x i) ∧ (∀ i, 0 < x i → gradM A b x i ≤ tol i)

theorem symm_swap {A : Matrix (Fin n) (Fin n) α} (hA : A.IsSymm) (x d : Fin n → α) :
    x ⬝ᵥ A *ᵥ d = d ⬝ᵥ A *ᵥ x := by
  rw [Matrix.dotProduct_mulVec, ← Matrix.mulVec_transpose, hA.eq, dotProduct_comm]

/-- second-order expansion of the objective (exact: it is quadratic) -/
theorem qf_expand {A : Matrix (Fin n) (Fin n) α} (hA : A.IsSymm) (b x d : Fin n → α) :
    qf A b (x + d) = qf A b x + d ⬝ᵥ gradM A b x + (1/2) * (d ⬝ᵥ A *ᵥ d) := by
  unfold qf gradM
  rw [Matrix.mulVec_add, add_dotProduct, dotProduct_add, dotProduct_add, dotProduct_add, dotProduct_sub,
    symm_swap hA x d, dotProduct_comm b d]
  ring

theorem qf_diff {A : Matrix (Fin n) (Fin n) α} (hA : A.IsSymm) (b x z : Fin n → α) :
    qf A b z - qf A b x = (z - x) ⬝ᵥ gradM A b x + (1/2) * ((z - x) ⬝ᵥ A *ᵥ (z - x)) := by
  have h := qf_expand hA b x (z - x)
  rw [add_sub_cancel] at h
  rw [h]; ring

theorem dot_sub_split (z x g : Fin n → α) : (z - x) ⬝ᵥ g = z ⬝ᵥ g - x ⬝ᵥ g := sub_dotProduct z x g

end Quad

/-! ## bridge `Nat`-indexed executable definitions ↔ `Fin n`-indexed matrices (at `ℚ`) -/
namespace Nnls

def toMat (n : ℕ) (A : Mat) : Matrix (Fin n) (Fin n) ℚ := fun i j => A i j
def toVec (n : ℕ) (v : Vec) : Fin n → ℚ := fun i => v i

theorem foldl_add_eq (f : ℕ → ℚ) (l : List ℕ) (a : ℚ) :
    l.foldl (fun acc i => acc + f i) a = a + (l.map f).sum := by
  induction l generalizing a with
  | nil => simp
  | cons h t ih => simp only [List.foldl_cons, List.map_cons, List.sum_cons]; rw [ih]; ring

theorem sumTo_eq (n : ℕ) (f : ℕ → ℚ) : sumTo n f = ∑ i : Fin n, f i := by
  unfold sumTo
  rw [foldl_add_eq, zero_add]
  induction n with
  | zero => simp
  | succ k ih =>
    rw [List.range_succ, List.map_append, List.sum_append, ih, Fin.sum_univ_castSucc]
    simp

theorem grad_eq (n : ℕ) (A : Mat) (b x : Vec) (i : Fin n) :
    grad n A b x i = gradM (toMat n A) (toVec n b) (toVec n x) i := by
  unfold grad Nnls.mulVec gradM
  rw [sumTo_eq]
  simp [Matrix.mulVec, dotProduct, toMat, toVec]

theorem gapBound_eq (n : ℕ) (tol x z : Vec) :
    gapBound n tol x z = ∑ i : Fin n, toVec n tol i * (toVec n x i + toVec n z i) := by
  unfold gapBound; rw [sumTo_eq]; rfl

theorem halfQuad_eq (n : ℕ) (A : Mat) (d : Vec) :
    halfQuad n A d = (1/2) * (toVec n d ⬝ᵥ (toMat n A) *ᵥ (toVec n d)) := by
  unfold halfQuad
  rw [sumTo_eq]
  have : ∀ i : Fin n, d i * Nnls.mulVec n A d i = toVec n d i * ((toMat n A) *ᵥ (toVec n d)) i := by
    intro i
    unfold Nnls.mulVec
    rw [sumTo_eq]
    simp [Matrix.mulVec, dotProduct, toMat, toVec]
  simp only [this, dotProduct]
  ring

theorem getD_tab {β : Type} (n : ℕ) (f : ℕ → β) (i : ℕ) (d : β) :
    (tab n f).getD i d = if i < n then f i else d := by
  unfold tab
  by_cases h : i < n
  · simp [Array.getD, h]
  · simp [Array.getD, h]

theorem at0_tab (n : ℕ) (f : ℕ → ℚ) (i : ℕ) : at0 (tab n f) i = if i < n then f i else 0 :=
  getD_tab n f i 0

theorem atF_tab (n : ℕ) (f : ℕ → Bool) (i : ℕ) : atF (tab n f) i = if i < n then f i else false :=
  getD_tab n f i false

theorem at0_empty (i : ℕ) : at0 #[] i = 0 := by simp [at0, Array.getD]

theorem countB_zero {n : ℕ} {p : ℕ → Bool} (h : countB n p = 0) (i : ℕ) (hi : i < n) : p i = false := by
  unfold countB at h
  rw [List.length_eq_zero_iff, List.filter_eq_nil_iff] at h
  have := h i (List.mem_range.mpr hi)
  simpa using this

end Nnls
end PsV
