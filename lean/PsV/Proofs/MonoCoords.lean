import PsV.Proofs.Monotone
import PsV.Proofs.Nnls
/-!
Helper lemmas for C10, third part: the change of variables of the monotonic fit as a linear map.

* `box_decomp`      : every flat position of an `s1 × n × s2` array is `idx3 n s2 i j k`;
* `cumsum_exact`    : closed form of the exact cumulative sum (re-stated here for the helper file);
* `cumsum_diffAlong`, `diffAlong_cumsum` : the cumulative sum and the increment operator `diffAlong` are inverse to each
                      other on the box (`L L⁻¹ = L⁻¹ L = 1`);
* `cumMat`          : the matrix of the cumulative sum (column `q` = cumulative sum of the unit vector `e_q`, computed by
                      the very loop `cumsumLoop`), `cumMat_mulVec` (`L t` = `cumsumLoop (+) t`), `cumMat_injective`;
* `qf_tcoords`, `spd_tcoords` : the quadratic objective in the coordinates `c = L t`.
-/
namespace PsV
open Finset Matrix

/-! ## positions of the box -/

theorem box_decomp {s1 n s2 p : Nat} (hp : p < s1 * n * s2) :
    ∃ i j k, i < s1 ∧ j < n ∧ k < s2 ∧ p = idx3 n s2 i j k := by
  have hs2 : 0 < s2 := by
    rcases Nat.eq_zero_or_pos s2 with h | h
    · subst h; simp at hp
    · exact h
  have hn : 0 < n := by
    rcases Nat.eq_zero_or_pos n with h | h
    · subst h; simp at hp
    · exact h
  have hr : p / s2 < s1 * n := Nat.div_lt_of_lt_mul (by rw [Nat.mul_comm]; exact hp)
  refine ⟨p / s2 / n, p / s2 % n, p % s2, Nat.div_lt_of_lt_mul (by rw [Nat.mul_comm]; exact hr),
    Nat.mod_lt _ hn, Nat.mod_lt _ hs2, ?_⟩
  rw [idx3_eq]
  have h1 : p / s2 / n * n + p / s2 % n = p / s2 := by
    rw [Nat.mul_comm]; exact Nat.div_add_mod _ _
  rw [h1, Nat.mul_comm]
  exact (Nat.div_add_mod _ _).symm

theorem idx3_mid {n s2 i j k : Nat} (hj : j < n) (hk : k < s2) : idx3 n s2 i j k / s2 % n = j := by
  rw [idx3_eq]
  have hs : 0 < s2 := by omega
  have e1 : ((i * n + j) * s2 + k) / s2 = i * n + j := by
    rw [Nat.mul_comm, Nat.mul_add_div hs, Nat.div_eq_of_lt hk]; rfl
  rw [e1, Nat.mul_comm, Nat.mul_add_mod, Nat.mod_eq_of_lt hj]

/-! ## exact cumulative sums and increments -/

theorem cumsum_exact {α : Type} [AddCommMonoid α] (s1 n s2 : Nat) (t : Nat → α)
    {i j k : Nat} (hi : i < s1) (hj : j < n) (hk : k < s2) :
    cumsumLoop (· + ·) s1 n s2 t (idx3 n s2 i j k) = ∑ l ∈ range (j+1), t (idx3 n s2 i l k) := by
  rw [cumsumLoop_spec _ t n s2 s1 hi hj hk]
  exact csum_add_eq_sum t n s2 i k j

theorem diffAlong_first {α : Type} (sub : α → α → α) (n s2 : Nat) (c : Nat → α) {i k : Nat}
    (hn : 0 < n) (hk : k < s2) : diffAlong sub n s2 c (idx3 n s2 i 0 k) = c (idx3 n s2 i 0 k) := by
  unfold diffAlong
  rw [idx3_mid hn hk, if_pos rfl]

theorem diffAlong_succ {α : Type} (sub : α → α → α) (n s2 : Nat) (c : Nat → α) {i j k : Nat}
    (hj : j + 1 < n) (hk : k < s2) :
    diffAlong sub n s2 c (idx3 n s2 i (j+1) k) = sub (c (idx3 n s2 i (j+1) k)) (c (idx3 n s2 i j k)) := by
  unfold diffAlong
  rw [idx3_mid hj hk, if_neg (by omega), idx3_succ, Nat.add_sub_cancel]

/-- inside the box the cumulative sum reads the increments inside the box only -/
theorem cumsum_congr {α : Type} [AddCommMonoid α] (s1 n s2 : Nat) (t t' : Nat → α)
    (h : ∀ p, p < s1 * n * s2 → t p = t' p) {p : Nat} (hp : p < s1 * n * s2) :
    cumsumLoop (· + ·) s1 n s2 t p = cumsumLoop (· + ·) s1 n s2 t' p := by
  obtain ⟨i, j, k, hi, hj, hk, rfl⟩ := box_decomp hp
  rw [cumsum_exact s1 n s2 _ hi hj hk, cumsum_exact s1 n s2 _ hi hj hk]
  apply Finset.sum_congr rfl
  intro l hl
  exact h _ (idx3_lt hi (by have := mem_range.mp hl; omega) hk)

/-- `L (L⁻¹ c) = c` on the box -/
theorem cumsum_diffAlong {α : Type} [AddCommGroup α] (s1 n s2 : Nat) (c : Nat → α) {p : Nat}
    (hp : p < s1 * n * s2) :
    cumsumLoop (· + ·) s1 n s2 (diffAlong (· - ·) n s2 c) p = c p := by
  obtain ⟨i, j, k, hi, hj, hk, rfl⟩ := box_decomp hp
  rw [cumsum_exact s1 n s2 _ hi hj hk]
  clear hp
  induction j with
  | zero =>
    rw [Finset.sum_range_one, diffAlong_first _ _ _ _ hj hk]
  | succ j ih =>
    rw [Finset.sum_range_succ, ih (by omega), diffAlong_succ _ _ _ _ hj hk]
    exact add_sub_cancel _ _

/-- `L⁻¹ (L t) = t` on the box -/
theorem diffAlong_cumsum {α : Type} [AddCommGroup α] (s1 n s2 : Nat) (t : Nat → α) {p : Nat}
    (hp : p < s1 * n * s2) :
    diffAlong (· - ·) n s2 (cumsumLoop (· + ·) s1 n s2 t) p = t p := by
  obtain ⟨i, j, k, hi, hj, hk, rfl⟩ := box_decomp hp
  cases j with
  | zero =>
    rw [diffAlong_first _ _ _ _ hj hk, cumsum_exact s1 n s2 _ hi hj hk, Finset.sum_range_one]
  | succ j =>
    rw [diffAlong_succ _ _ _ _ hj hk, cumsum_exact s1 n s2 _ hi hj hk,
      cumsum_exact s1 n s2 _ hi (by omega) hk, Finset.sum_range_succ _ (j+1)]
    exact add_sub_cancel_left _ _

/-- the cumulative sum is injective on the box -/
theorem cumsum_injective {α : Type} [AddCommGroup α] (s1 n s2 : Nat) (t t' : Nat → α)
    (h : ∀ p, p < s1 * n * s2 → cumsumLoop (· + ·) s1 n s2 t p = cumsumLoop (· + ·) s1 n s2 t' p) :
    ∀ p, p < s1 * n * s2 → t p = t' p := by
  intro p hp
  rw [← diffAlong_cumsum s1 n s2 t hp, ← diffAlong_cumsum s1 n s2 t' hp]
  obtain ⟨i, j, k, hi, hj, hk, rfl⟩ := box_decomp hp
  cases j with
  | zero => rw [diffAlong_first _ _ _ _ hj hk, diffAlong_first _ _ _ _ hj hk, h _ hp]
  | succ j =>
    rw [diffAlong_succ _ _ _ _ hj hk, diffAlong_succ _ _ _ _ hj hk, h _ hp,
      h _ (idx3_lt hi (by omega) hk)]

/-- increments non-negative ⇔ first slice non-negative and non-decreasing along the middle index -/
theorem diffAlong_nonneg_iff {α : Type} [AddCommGroup α] [LinearOrder α] [IsOrderedAddMonoid α]
    (s1 n s2 : Nat) (c : Nat → α) :
    (∀ p, p < s1 * n * s2 → 0 ≤ diffAlong (· - ·) n s2 c p) ↔
      (∀ i, i < s1 → ∀ k, k < s2 → 0 < n → 0 ≤ c (idx3 n s2 i 0 k)) ∧
      (∀ i, i < s1 → ∀ j, j + 1 < n → ∀ k, k < s2 → c (idx3 n s2 i j k) ≤ c (idx3 n s2 i (j+1) k)) := by
  constructor
  · intro h
    refine ⟨fun i hi k hk hn => ?_, fun i hi j hj k hk => ?_⟩
    · have := h _ (idx3_lt hi hn hk)
      rwa [diffAlong_first _ _ _ _ hn hk] at this
    · have := h _ (idx3_lt hi hj hk)
      rw [diffAlong_succ _ _ _ _ hj hk] at this
      exact sub_nonneg.mp this
  · rintro ⟨h0, h1⟩ p hp
    obtain ⟨i, j, k, hi, hj, hk, rfl⟩ := box_decomp hp
    cases j with
    | zero => rw [diffAlong_first _ _ _ _ hj hk]; exact h0 i hi k hk hj
    | succ j => rw [diffAlong_succ _ _ _ _ hj hk]; exact sub_nonneg.mpr (h1 i hi j hj k hk)

/-! ## the matrix of the cumulative sum -/

/-- a vector indexed by `Fin N` as a function on `Nat` (zero outside) -/
def extZ {α : Type} [Zero α] {N : Nat} (t : Fin N → α) : Nat → α := fun q => if h : q < N then t ⟨q, h⟩ else 0

theorem extZ_val {α : Type} [Zero α] {N : Nat} (t : Fin N → α) (q : Fin N) : extZ t q.val = t q := by
  unfold extZ
  rw [dif_pos q.isLt]

/-- `L = I_{s1} ⊗ (lower-triangular ones)_n ⊗ I_{s2}`: column `q` is the cumulative sum of the unit vector `e_q`,
computed by the loop of `glamfit_complex` itself -/
def cumMat (α : Type) [Semiring α] (s1 n s2 : Nat) : Matrix (Fin (s1 * n * s2)) (Fin (s1 * n * s2)) α :=
  fun p q => cumsumLoop (· + ·) s1 n s2 (fun r => if r = q.val then 1 else 0) p.val

/-- `L t` is the cumulative sum of `t` -/
theorem cumMat_mulVec {α : Type} [CommSemiring α] (s1 n s2 : Nat) (t : Fin (s1 * n * s2) → α)
    (p : Fin (s1 * n * s2)) :
    (cumMat α s1 n s2 *ᵥ t) p = cumsumLoop (· + ·) s1 n s2 (extZ t) p.val := by
  obtain ⟨i, j, k, hi, hj, hk, hp⟩ := box_decomp p.isLt
  rw [hp, cumsum_exact s1 n s2 _ hi hj hk]
  unfold Matrix.mulVec dotProduct cumMat
  have e : ∀ q : Fin (s1 * n * s2),
      cumsumLoop (· + ·) s1 n s2 (fun r => if r = q.val then (1 : α) else 0) p.val * t q
        = ∑ l ∈ range (j+1), (if idx3 n s2 i l k = q.val then t q else 0) := by
    intro q
    rw [hp, cumsum_exact s1 n s2 _ hi hj hk, Finset.sum_mul]
    apply Finset.sum_congr rfl
    intro l _
    split <;> simp
  rw [Finset.sum_congr rfl (fun q _ => e q), Finset.sum_comm]
  apply Finset.sum_congr rfl
  intro l hl
  have hl' : l < n := by have := mem_range.mp hl; omega
  have hlt : idx3 n s2 i l k < s1 * n * s2 := idx3_lt hi hl' hk
  rw [Finset.sum_eq_single (⟨idx3 n s2 i l k, hlt⟩ : Fin (s1 * n * s2))]
  · rw [if_pos rfl]
    exact (extZ_val t ⟨_, hlt⟩).symm
  · intro q _ hq
    rw [if_neg]
    intro hc
    exact hq (Fin.ext hc.symm)
  · intro h; exact absurd (Finset.mem_univ _) h

theorem cumMat_injective {α : Type} [CommRing α] (s1 n s2 : Nat) (t : Fin (s1 * n * s2) → α)
    (h : cumMat α s1 n s2 *ᵥ t = 0) : t = 0 := by
  funext q
  have h0 : ∀ p, p < s1 * n * s2 →
      cumsumLoop (· + ·) s1 n s2 (extZ t) p = cumsumLoop (· + ·) s1 n s2 (fun _ => (0 : α)) p := by
    intro p hp
    have := congrFun h ⟨p, hp⟩
    rw [cumMat_mulVec] at this
    rw [this]
    obtain ⟨i, j, k, hi, hj, hk, rfl⟩ := box_decomp hp
    rw [cumsum_exact s1 n s2 _ hi hj hk]
    simp
  have := cumsum_injective s1 n s2 _ _ h0 q.val q.isLt
  rw [extZ_val] at this
  exact this

/-! ## the quadratic objective in the coordinates `c = L t` -/

set_option linter.unusedSectionVars false
section Quad
variable {N : ℕ} {α : Type} [Field α] [LinearOrder α] [IsStrictOrderedRing α]

theorem quad_tcoords (A L : Matrix (Fin N) (Fin N) α) (v : Fin N → α) :
    v ⬝ᵥ (Lᵀ * A * L) *ᵥ v = (L *ᵥ v) ⬝ᵥ A *ᵥ (L *ᵥ v) := by
  rw [← Matrix.mulVec_mulVec, ← Matrix.mulVec_mulVec, Matrix.dotProduct_mulVec, Matrix.vecMul_transpose]

theorem lin_tcoords (L : Matrix (Fin N) (Fin N) α) (b v : Fin N → α) :
    (Lᵀ *ᵥ b) ⬝ᵥ v = b ⬝ᵥ L *ᵥ v := by
  rw [Matrix.mulVec_transpose, ← Matrix.dotProduct_mulVec]

/-- the T-problem's objective is the B-problem's objective at `c = L t` -/
theorem qf_tcoords (A L : Matrix (Fin N) (Fin N) α) (b t : Fin N → α) :
    qf (Lᵀ * A * L) (Lᵀ *ᵥ b) t = qf A b (L *ᵥ t) := by
  unfold qf
  rw [quad_tcoords, lin_tcoords]

theorem spd_tcoords (A L : Matrix (Fin N) (Fin N) α) (hA : SPD A) (hL : ∀ v, L *ᵥ v = 0 → v = 0) :
    SPD (Lᵀ * A * L) := by
  refine ⟨?_, fun v hv => ?_⟩
  · unfold Matrix.IsSymm
    rw [Matrix.transpose_mul, Matrix.transpose_mul, Matrix.transpose_transpose, hA.1.eq, Matrix.mul_assoc]
  · rw [quad_tcoords]
    exact hA.2 _ (fun h => hv (hL v h))

/-- a solution of the normal equations is the global (unconstrained) minimiser -/
theorem normal_eq_global_min (A : Matrix (Fin N) (Fin N) α) (b c : Fin N → α) (hA : SPD A) (hsol : A *ᵥ c = b)
    (z : Fin N → α) : qf A b c ≤ qf A b z := by
  have hd := qf_diff hA.1 b c z
  have hg : gradM A b c = 0 := by unfold gradM; rw [hsol, sub_self]
  rw [hg, dotProduct_zero, zero_add] at hd
  have := hA.spsd.2 (z - c)
  linarith

end Quad

end PsV
