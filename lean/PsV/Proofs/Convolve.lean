import PsV.Model.Convolve
import Mathlib.Data.Nat.Factorial.Basic
import Mathlib.Algebra.BigOperators.Group.Finset.Basic
import Mathlib.Tactic.Ring
import Mathlib.Tactic.Linarith
/-! Helper lemmas for C14: the loop combinator on windows of an array, factorial, row-major strides. -/
namespace PsV

variable {α : Type}

/-! ## windows -/

/-- the array seen as a partial function -/
def view (a : Array α) : Nat → Option α := fun p => a[p]?

/-- apply `h (p - lo)` to the cells `lo ≤ p < lo + w`, leave the others alone -/
def winO (lo w : Nat) (h : Nat → α → α) (m : Nat → Option α) : Nat → Option α :=
  fun p => if lo ≤ p ∧ p < lo + w then (m p).map (h (p - lo)) else m p

theorem view_modify (a : Array α) (i : Nat) (f : α → α) :
    view (a.modify i f) = winO i 1 (fun _ => f) (view a) := by
  funext p
  simp only [view, winO, Array.getElem?_modify]
  by_cases h : i = p
  · subst h; simp
  · have h2 : ¬ (i ≤ p ∧ p < i + 1) := by omega
    simp [h, h2]

/-- `for b < n: a.modify (base + b) (g b)` touches cell `base + b` with `g b` -/
theorem loopN_cells (F : Nat → Array α → Array α) (base : Nat) (g : Nat → α → α)
    (hF : ∀ b a, view (F b a) = winO (base + b) 1 (fun _ => g b) (view a)) :
    ∀ n a, view (loopN n F a) = winO base n g (view a) := by
  intro n
  induction n with
  | zero =>
    intro a; funext p
    simp only [loopN, winO]
    have : ¬ (base ≤ p ∧ p < base + 0) := by omega
    simp [this]
  | succ n ih =>
    intro a; funext p
    simp only [loopN, hF, ih]
    simp only [winO]
    by_cases h1 : base ≤ p ∧ p < base + n
    · have h2 : ¬ (base + n ≤ p ∧ p < base + n + 1) := by omega
      have h3 : base ≤ p ∧ p < base + (n + 1) := by omega
      simp [h1, h2, h3]
    · by_cases h2 : base + n ≤ p ∧ p < base + n + 1
      · have h3 : base ≤ p ∧ p < base + (n + 1) := by omega
        have h4 : p - base = n := by omega
        rw [if_pos h2, if_neg h1, if_pos h3, h4]
      · have h3 : ¬ (base ≤ p ∧ p < base + (n + 1)) := by omega
        simp [h1, h2, h3]

/-- consecutive windows of width `w`: block `b` handled by `h b` -/
theorem loopN_tiles (F : Nat → Array α → Array α) (base w : Nat) (lo : Nat → Nat)
    (h : Nat → Nat → α → α) (hlo : ∀ b, lo b = base + b * w)
    (hF : ∀ b a, view (F b a) = winO (lo b) w (h b) (view a)) :
    ∀ n a, view (loopN n F a) = winO base (n * w) (fun r => h (r / w) (r % w)) (view a) := by
  intro n
  induction n with
  | zero =>
    intro a; funext p
    simp only [loopN, winO]
    have : ¬ (base ≤ p ∧ p < base + 0 * w) := by omega
    simp [this]
  | succ n ih =>
    intro a; funext p
    simp only [loopN, hF, ih, hlo]
    simp only [winO]
    have e : (n + 1) * w = n * w + w := Nat.succ_mul n w
    by_cases h1 : base ≤ p ∧ p < base + n * w
    · have h2 : ¬ (base + n * w ≤ p ∧ p < base + n * w + w) := by omega
      have h3 : base ≤ p ∧ p < base + (n + 1) * w := by omega
      simp [h1, h2, h3]
    · by_cases h2 : base + n * w ≤ p ∧ p < base + n * w + w
      · have h3 : base ≤ p ∧ p < base + (n + 1) * w := by omega
        have hw : 0 < w := by omega
        obtain ⟨s, hs⟩ : ∃ s, p - base = s + n * w := ⟨p - base - n * w, by omega⟩
        have hsw : s < w := by omega
        have h4 : p - (base + n * w) = s := by omega
        have h5 : (p - base) / w = n := by
          rw [hs, Nat.add_mul_div_right _ _ hw, Nat.div_eq_of_lt hsw]; omega
        have h6 : (p - base) % w = s := by
          rw [hs, Nat.add_mul_mod_self_right, Nat.mod_eq_of_lt hsw]
        rw [if_pos h2, if_neg h1, if_pos h3, h4, h5, h6]
      · have h3 : ¬ (base ≤ p ∧ p < base + (n + 1) * w) := by omega
        simp [h1, h2, h3]

/-- the same window again and again: the cell-wise functions compose -/
theorem loopN_repeat (F : Nat → Array α → Array α) (lo w : Nat) (h : Nat → Nat → α → α)
    (hF : ∀ l a, view (F l a) = winO lo w (h l) (view a)) :
    ∀ n a, view (loopN n F a) = winO lo w (fun r v => loopN n (fun l v => h l r v) v) (view a) := by
  intro n
  induction n with
  | zero =>
    intro a; funext p
    simp only [loopN, winO]
    split <;> simp
  | succ n ih =>
    intro a; funext p
    simp only [loopN, hF, ih]
    simp only [winO]
    split
    · simp [Option.map_map, Function.comp_def]
    · rfl

/-! ## factorial -/


theorem factLoop_eq : ∀ (i acc : Nat), acc < 2^32 → factLoop i acc = (acc * i.factorial) % 2^32
  | 0, acc, h => by rw [factLoop, Nat.factorial_zero, Nat.mul_one, Nat.mod_eq_of_lt h]
  | 1, acc, h => by rw [factLoop, Nat.factorial_one, Nat.mul_one, Nat.mod_eq_of_lt h]
  | i+2, acc, h => by
    have hlt : (acc * (i + 2)) % 2^32 < 2^32 := Nat.mod_lt _ (by norm_num)
    rw [factLoop, factLoop_eq (i+1) _ hlt, Nat.mod_mul_mod]
    congr 1
    rw [Nat.factorial_succ (i+1)]
    ring

/-! ## row-major strides -/

theorem rowMajor_length : ∀ l : List Nat, (rowMajor l).1.length = l.length
  | [] => rfl
  | _ :: ns => by simp [rowMajor, rowMajor_length ns]

theorem rowMajor_total : ∀ l : List Nat, (rowMajor l).2 = l.prod
  | [] => rfl
  | n :: ns => by simp [rowMajor, rowMajor_total ns, Nat.mul_comm]

/-- `strides[i] = Π_{j>i} naxes[j]` -/
theorem rowMajor_stride : ∀ (l : List Nat) (i : Nat), i < l.length →
    (rowMajor l).1.getD i 0 = (l.drop (i+1)).prod
  | [], i, h => by simp at h
  | n :: ns, 0, _ => by simp [rowMajor, rowMajor_total]
  | n :: ns, i+1, h => by
    have := rowMajor_stride ns i (by simpa using h)
    simpa [rowMajor] using this

theorem prodL_eq (l : List Nat) : prodL l = l.prod := by
  unfold prodL
  have : ∀ (l : List Nat) (a : Nat), l.foldl (· * ·) a = a * l.prod := by
    intro l
    induction l with
    | nil => intro a; simp
    | cons x xs ih => intro a; simp [ih, Nat.mul_assoc]
  simpa using this l 1

end PsV
