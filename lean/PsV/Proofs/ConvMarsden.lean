import PsV.Proofs.Unity
/-!
Marsden's identity on one polynomial piece: with the dual polynomials
`dualPoly t n i c = ∏_{m<n} (c - t (i+1+m))`, on a non-empty interval `left` of a sorted knot vector

  `∑_{k ≤ n} dualPoly t n (left-n+k) c * Bp t u left n (left-n+k) = (c - u)^n`,

its truncated version at a knot value, and the fact that `Bp t x left n i` reads only the knots
`t i … t (i+n+1)`.
-/
namespace PsV
open Finset
variable {α : Type} [Field α] [LinearOrder α]

/-- dual polynomial of the B-spline `i` of degree `n`: `∏_{m<n} (c - t (i+1+m))` -/
def dualPoly (t : Int → α) (n : Nat) (i : Int) (c : α) : α :=
  ∏ m ∈ range n, (c - t (i + 1 + m))

omit [LinearOrder α] in
theorem dualPoly_succ_right (t : Int → α) (n : Nat) (i : Int) (c : α) :
    dualPoly t (n+1) i c = dualPoly t n i c * (c - t (i + n + 1)) := by
  unfold dualPoly
  rw [prod_range_succ]
  have e : i + 1 + (n:Int) = i + n + 1 := by ring
  rw [e]

omit [LinearOrder α] in
theorem dualPoly_succ_left (t : Int → α) (n : Nat) (i : Int) (c : α) :
    dualPoly t (n+1) (i - 1) c = (c - t i) * dualPoly t n i c := by
  unfold dualPoly
  rw [prod_range_succ', mul_comm]
  have e0 : i - 1 + 1 + ((0:Nat):Int) = i := by push_cast; ring
  rw [e0]
  congr 1
  apply prod_congr rfl
  intro m _
  have e : i - 1 + 1 + ((m+1:Nat):Int) = i + 1 + m := by push_cast; ring
  rw [e]

omit [LinearOrder α] in
/-- the termwise algebraic identity behind Marsden's identity -/
theorem marsden_term (P B c u T ti : α) (hden : T - ti ≠ 0) :
    P * (c - T) * ((u - ti) / (T - ti) * B) + (c - ti) * P * ((T - u) / (T - ti) * B)
      = (c - u) * (P * B) := by
  field_simp
  ring

/-- Marsden's identity on the polynomial piece `left`. -/
theorem Bp_marsden (t : Int → α) (u c : α) (left : Int) (hne : t left < t (left + 1)) :
    ∀ (n : Nat), (∀ a b : Int, left - n ≤ a → a ≤ b → b ≤ left + n + 1 → t a ≤ t b) →
      ∑ k ∈ range (n + 1), dualPoly t n (left - n + k) c * Bp t u left n (left - n + k)
        = (c - u)^n := by
  intro n
  induction n with
  | zero => intro _; simp [Bp, dualPoly]
  | succ n ih =>
    intro hmono
    have ih' := ih (fun a b h1 h2 h3 => hmono a b (by push_cast; omega) h2 (by push_cast; omega))
    have hexp : ∀ k : Nat,
        dualPoly t (n+1) (left - ((n+1 : Nat) : Int) + k) c
          * Bp t u left (n+1) (left - ((n+1 : Nat) : Int) + k) =
        dualPoly t (n+1) (left - n - 1 + k) c *
          ((u - t (left - n - 1 + k)) / (t (left + k) - t (left - n - 1 + k))
            * Bp t u left n (left - n - 1 + k))
        + dualPoly t (n+1) (left - n - 1 + k) c *
          ((t (left + k + 1) - u) / (t (left + k + 1) - t (left - n + k))
            * Bp t u left n (left - n + k)) := by
      intro k
      simp only [Bp]
      have e0 : left - ((n+1 : Nat) : Int) + k = left - n - 1 + k := by push_cast; ring
      have e1 : left - (n:Int) - 1 + k + n + 1 = left + k := by ring
      have e2 : left - (n:Int) - 1 + k + n + 2 = left + k + 1 := by ring
      have e3 : left - (n:Int) - 1 + k + 1 = left - n + k := by ring
      rw [e0, e1, e2, e3, mul_add]
    simp only [hexp, sum_add_distrib]
    rw [sum_range_succ' (fun k : Nat => dualPoly t (n+1) (left - n - 1 + k) c *
          ((u - t (left - n - 1 + k)) / (t (left + k) - t (left - n - 1 + k))
            * Bp t u left n (left - n - 1 + k)))]
    rw [sum_range_succ (fun k : Nat => dualPoly t (n+1) (left - n - 1 + k) c *
          ((t (left + k + 1) - u) / (t (left + k + 1) - t (left - n + k))
            * Bp t u left n (left - n + k)))]
    have z1 : Bp t u left n (left - n - 1 + ((0:Nat):Int)) = 0 :=
      Bp_zero_of_not_mem t u left n _ (Or.inr (by push_cast; omega))
    have z2 : Bp t u left n (left - n + ((n+1 : Nat) : Int)) = 0 :=
      Bp_zero_of_not_mem t u left n _ (Or.inl (by push_cast; omega))
    rw [z1, z2]
    simp only [mul_zero, add_zero]
    rw [← sum_add_distrib, pow_succ', ← ih', mul_sum]
    apply sum_congr rfl
    intro k hk
    rw [mem_range] at hk
    have e1 : left - (n:Int) - 1 + ((k+1 : Nat) : Int) = left - n + k := by push_cast; ring
    have e2 : left + ((k+1 : Nat) : Int) = left + k + 1 := by push_cast; ring
    rw [e1, e2]
    have hden : t (left + k + 1) - t (left - n + k) ≠ 0 := by
      have h1 : t (left - n + k) ≤ t left := hmono _ _ (by push_cast; omega) (by omega) (by push_cast; omega)
      have h2 : t (left + 1) ≤ t (left + k + 1) := hmono _ _ (by push_cast; omega) (by omega) (by push_cast; omega)
      have : t (left - n + k) < t (left + k + 1) := lt_of_le_of_lt h1 (lt_of_lt_of_le hne h2)
      exact sub_ne_zero.mpr (ne_of_gt this)
    have d1 : dualPoly t (n+1) (left - n + k) c
        = dualPoly t n (left - n + k) c * (c - t (left + k + 1)) := by
      rw [dualPoly_succ_right]
      have e : left - (n:Int) + k + n + 1 = left + k + 1 := by ring
      rw [e]
    have d2 : dualPoly t (n+1) (left - n - 1 + k) c
        = (c - t (left - n + k)) * dualPoly t n (left - n + k) c := by
      rw [← dualPoly_succ_left]
      have e : left - (n:Int) - 1 + k = left - n + k - 1 := by ring
      rw [e]
    rw [d1, d2]
    exact marsden_term _ _ _ _ _ _ hden

/-- Marsden's identity with the product written out. -/
theorem Bp_marsden_prod (t : Int → α) (u c : α) (left : Int) (hne : t left < t (left + 1))
    (n : Nat) (hmono : ∀ a b : Int, left - n ≤ a → a ≤ b → b ≤ left + n + 1 → t a ≤ t b) :
    ∑ k ∈ range (n + 1),
      (∏ m ∈ range n, (c - t (left - n + k + 1 + m))) * Bp t u left n (left - n + k)
        = (c - u)^n :=
  Bp_marsden t u c left hne n hmono

/-- Marsden's identity truncated at a knot value `c` outside the open interval `left`. -/
theorem Bp_marsden_trunc (t : Int → α) (u c : α) (left : Int) (hne : t left < t (left + 1)) (n : Nat)
    (hmono : ∀ a b : Int, left - n ≤ a → a ≤ b → b ≤ left + n + 1 → t a ≤ t b)
    (hc : c ≤ t left ∨ t (left + 1) ≤ c)
    (hknot : c ≤ t left → ∀ i : Int, left - n ≤ i → i ≤ left → t i < c →
      ∃ m : Nat, m < n ∧ c = t (i + 1 + m)) :
    ∑ k ∈ range (n + 1),
      (if t (left - n + k) < c then dualPoly t n (left - n + k) c else 0)
        * Bp t u left n (left - n + k)
      = if t (left + 1) ≤ c then (c - u)^n else 0 := by
  by_cases h : t (left + 1) ≤ c
  · rw [if_pos h, ← Bp_marsden t u c left hne n hmono]
    apply sum_congr rfl
    intro k hk
    rw [mem_range] at hk
    have h1 : t (left - n + k) ≤ t left := hmono _ _ (by omega) (by omega) (by omega)
    have : t (left - n + k) < c := lt_of_le_of_lt h1 (lt_of_lt_of_le hne h)
    rw [if_pos this]
  · rw [if_neg h]
    have hcl : c ≤ t left := by
      rcases hc with hc | hc
      · exact hc
      · exact absurd hc h
    apply sum_eq_zero
    intro k hk
    rw [mem_range] at hk
    by_cases hlt : t (left - n + k) < c
    · rw [if_pos hlt]
      obtain ⟨m, hm, hcm⟩ := hknot hcl (left - n + k) (by omega) (by omega) hlt
      have : dualPoly t n (left - n + k) c = 0 := by
        unfold dualPoly
        apply prod_eq_zero (mem_range.mpr hm)
        rw [← hcm, sub_self]
      rw [this, zero_mul]
    · rw [if_neg hlt, zero_mul]

omit [LinearOrder α] in
/-- `Bp t x left n i` reads only the knots `t i … t (i+n+1)`. -/
theorem Bp_congr_knots (t t' : Int → α) (x : α) (left : Int) : ∀ (n : Nat) (i : Int),
    (∀ z : Int, i ≤ z → z ≤ i + n + 1 → t z = t' z) → Bp t x left n i = Bp t' x left n i := by
  intro n
  induction n with
  | zero => intro i _; simp only [Bp]
  | succ n ih =>
    intro i h
    simp only [Bp]
    rw [ih i (fun z h1 h2 => h z h1 (by push_cast; omega)),
      ih (i+1) (fun z h1 h2 => h z (by omega) (by push_cast; omega)),
      h i (by omega) (by push_cast; omega),
      h (i+n+1) (by omega) (by push_cast; omega),
      h (i+n+2) (by omega) (by push_cast; omega),
      h (i+1) (by omega) (by push_cast; omega)]

end PsV
