import PsV.Proofs.ConvTable
/-!
# From the polynomial piece to the shared Cox–de Boor specification

`convolve_slices_spec`: `convolve_slices` with the new basis given by the shared specification `PsV.Bsel`
(Cox–de Boor with the right- or left-continuous convention of C01) at **every** point of the new knot range.
-/
namespace PsV
open Finset

/-- the knot interval that contains `x` (right-continuous convention) -/
theorem exists_interval_R (t : Nat → Rat) (x : Rat) : ∀ (M : Nat), t 0 ≤ x → x < t M →
    ∃ l, l < M ∧ t l ≤ x ∧ x < t (l+1)
  | 0, h0, h1 => absurd (lt_of_le_of_lt h0 h1) (lt_irrefl _)
  | M+1, h0, h1 => by
    by_cases h : x < t M
    · obtain ⟨l, hl, a, b⟩ := exists_interval_R t x M h0 h
      exact ⟨l, by omega, a, b⟩
    · exact ⟨M, by omega, not_lt.mp h, h1⟩

/-- the knot interval that contains `x` (left-continuous convention) -/
theorem exists_interval_L (t : Nat → Rat) (x : Rat) : ∀ (M : Nat), t 0 < x → x ≤ t M →
    ∃ l, l < M ∧ t l < x ∧ x ≤ t (l+1)
  | 0, h0, h1 => absurd (lt_of_lt_of_le h0 h1) (lt_irrefl _)
  | M+1, h0, h1 => by
    by_cases h : x ≤ t M
    · obtain ⟨l, hl, a, b⟩ := exists_interval_L t x M h0 h
      exact ⟨l, by omega, a, b⟩
    · exact ⟨M, by omega, not_le.mp h, h1⟩

/-- the smallest pairwise sum `τ_0 + y_0` occurs once: the first two knots of the new knot vector differ -/
theorem rho_first_lt (ks cks rho : List Rat) (hk : ks.Pairwise (· < ·)) (hc : cks.Pairwise (· < ·))
    (hperm : rho.Perm (pairSums ks cks)) (hs : rho.Pairwise (· ≤ ·)) (h2 : 2 ≤ rho.length) :
    getK rho 0 < getK rho 1 := by
  match ks, cks, hk, hc, hperm with
  | [], _, _, _, hperm =>
    have : rho.length = 0 := by rw [hperm.length_eq]; simp [pairSums]
    omega
  | a :: ks', [], _, _, hperm =>
    have : rho.length = 0 := by rw [hperm.length_eq]; simp [pairSums]
    omega
  | a :: ks', b :: cs', hk, hc, hperm =>
    -- pairSums = (a+b) :: rest, every element of rest is larger
    have hka := List.pairwise_cons.mp hk
    have hcb := List.pairwise_cons.mp hc
    have hform : pairSums (a :: ks') (b :: cs') =
        (a + b) :: (cs'.map (fun y => a + y) ++ ks'.flatMap (fun a' => (b :: cs').map (fun y => a' + y))) := by
      simp only [pairSums, List.flatMap_cons, List.map_cons, List.cons_append]
      rfl
    have hrest : ∀ s ∈ (cs'.map (fun y => a + y) ++ ks'.flatMap (fun a' => (b :: cs').map (fun y => a' + y))),
        a + b < s := by
      intro s hs'
      rw [List.mem_append] at hs'
      rcases hs' with h | h
      · rw [List.mem_map] at h
        obtain ⟨y, hy, rfl⟩ := h
        have := hcb.1 y hy
        linarith
      · rw [List.mem_flatMap] at h
        obtain ⟨a', ha', h⟩ := h
        rw [List.mem_map] at h
        obtain ⟨y, hy, rfl⟩ := h
        have h1 := hka.1 a' ha'
        have h2' : b ≤ y := by
          rcases List.mem_cons.mp hy with h | h
          · rw [h]
          · exact le_of_lt (hcb.1 y h)
        linarith
    rw [hform] at hperm
    match rho, hperm, hs, h2 with
    | r0 :: r1 :: rho'', hperm, hs, _ =>
      have hs0 := List.pairwise_cons.mp hs
      have hmem0 : a + b ∈ r0 :: r1 :: rho'' := hperm.mem_iff.mpr (List.mem_cons_self)
      have hr0 : r0 ≤ a + b := by
        rcases List.mem_cons.mp hmem0 with h | h
        · rw [h]
        · exact hs0.1 _ h
      have hr0' : a + b ≤ r0 := by
        have : r0 ∈ (a + b) :: _ := hperm.mem_iff.mp (List.mem_cons_self)
        rcases List.mem_cons.mp this with h | h
        · rw [h]
        · exact le_of_lt (hrest r0 h)
      have e0 : r0 = a + b := le_antisymm hr0 hr0'
      rw [e0] at hperm
      have hperm' := hperm.cons_inv
      have : r1 ∈ _ := hperm'.mem_iff.mp (List.mem_cons_self)
      have := hrest r1 this
      show getK (r0 :: r1 :: rho'') 0 < getK (r0 :: r1 :: rho'') 1
      simp only [getK, List.getD_cons_zero, List.getD_cons_succ]
      rw [e0]; exact this

/-- the knot function the shared specification sees for a `CDim` -/
theorem toDim_knots_nat (d : CDim Rat) (i : Nat) : (ConvSpec.toDim d).knots (i : Int) = getK d.knots i := by
  unfold ConvSpec.toDim getK
  have : ¬ ((i : Int) < 0) := by omega
  simp [this]

attribute [local instance] Arith.ofField in
/-- the shared specification's basis value is the polynomial piece of the interval that contains `x` -/
theorem Bsel_eq_Bp (d : CDim Rat) (x : Rat) (hkn : d.knots.length = d.nknots) (hnax : d.naxes + d.order + 1 = d.nknots)
    (hs : d.knots.Pairwise (· ≤ ·)) (hn1 : 1 ≤ d.naxes) (h01 : getK d.knots 0 < getK d.knots 1)
    (hx1 : getK d.knots 0 ≤ x) (hx2 : x ≤ getK d.knots (d.nknots - 1)) :
    ∃ left : Nat, left + 1 < d.nknots ∧ getK d.knots left < getK d.knots (left+1) ∧
      getK d.knots left ≤ x ∧ x ≤ getK d.knots (left+1) ∧
      ∀ l, l < d.naxes → Bsel (ConvSpec.toDim d) x 0 l = Bp (ConvSpec.toDim d).knots x (left : Int) d.order (l : Int) := by
  set t := (ConvSpec.toDim d).knots with ht
  have htn : ∀ i : Nat, t (i : Int) = getK d.knots i := fun i => toDim_knots_nat d i
  have hmono : ∀ i j : Int, 0 ≤ i → i ≤ j → j < d.nknots → t i ≤ t j := by
    intro i j hi hij hj
    have e1 : i = ((i.toNat : Nat) : Int) := by omega
    have e2 : j = ((j.toNat : Nat) : Int) := by omega
    rw [e1, e2, htn, htn]
    exact getK_mono d.knots hs _ _ (by omega) (by omega)
  have hBsel : ∀ l : Nat, Bsel (ConvSpec.toDim d) x 0 l = Bind (selInd (ConvSpec.toDim d) x) t x d.order (l : Int) := fun l => rfl
  by_cases hcase : x < getK d.knots d.naxes
  · -- right-continuous piece
    obtain ⟨left, hl, a, b⟩ := exists_interval_R (getK d.knots) x d.naxes hx1 hcase
    refine ⟨left, by omega, lt_of_le_of_lt a b, a, le_of_lt b, ?_⟩
    intro l hl'
    rw [hBsel]
    have hsel : selInd (ConvSpec.toDim d) x = indR t x := by
      unfold selInd
      have : (Arith.lt x ((ConvSpec.toDim d).knots ((ConvSpec.toDim d).naxes : Int))) = true := by
        show decide (x < t ((d.naxes : Nat) : Int)) = true
        rw [htn]; exact decide_eq_true hcase
      rw [if_pos this]
    rw [hsel]
    exact Bind_eq_Bp t x d.nknots (left : Int) (indR t x)
      (indR_iff t x d.nknots (left : Int) hmono (by omega) (by omega) (by rw [htn]; exact a)
        (by have : ((left : Int) + 1) = ((left + 1 : Nat) : Int) := by push_cast; ring
            rw [this, htn]; exact b))
      d.order (l : Int) (by omega) (by omega)
  · -- left-continuous piece
    have hge : getK d.knots d.naxes ≤ x := not_lt.mp hcase
    have h1n : getK d.knots 1 ≤ getK d.knots d.naxes := getK_mono d.knots hs 1 d.naxes hn1 (by omega)
    have hx0 : getK d.knots 0 < x := by linarith
    obtain ⟨left, hl, a, b⟩ := exists_interval_L (getK d.knots) x (d.nknots - 1) hx0 hx2
    refine ⟨left, by omega, lt_of_lt_of_le a b, le_of_lt a, b, ?_⟩
    intro l hl'
    rw [hBsel]
    have hsel : selInd (ConvSpec.toDim d) x = indL t x := by
      unfold selInd
      have : ¬ (Arith.lt x ((ConvSpec.toDim d).knots ((ConvSpec.toDim d).naxes : Int))) = true := by
        show ¬ decide (x < t ((d.naxes : Nat) : Int)) = true
        rw [htn]; simpa using hge
      rw [if_neg this]
    rw [hsel]
    exact Bind_eq_Bp t x d.nknots (left : Int) (indL t x)
      (indL_iff t x d.nknots (left : Int) hmono (by omega) (by omega) (by rw [htn]; exact a)
        (by have : ((left : Int) + 1) = ((left + 1 : Nat) : Int) := by push_cast; ring
            rw [this, htn]; exact b))
      d.order (l : Int) (by omega) (by omega)

/-- **every slice of the convolved table, evaluated with the shared Cox–de Boor specification at any point of the
new knot range, is the specification's convolution integral of the old slice** -/
theorem convolve_slices_spec (T : CTable Rat) (dim : Nat) (ck : List Rat) (d : CDim Rat)
    (hd : T.dims[dim]? = some d) (hk : d.knots.length = d.nknots) (hnax : d.naxes + d.order + 1 = d.nknots)
    (hn1 : 1 ≤ d.naxes)
    (hτ : d.knots.Pairwise (· < ·)) (hy : ck.Pairwise (· < ·)) (hq : 2 ≤ ck.length)
    (h12 : d.order + ck.length - 1 ≤ 12) :
    ∃ R d', convolve T dim ck = some R ∧ R.dims[dim]? = some d' ∧
      d'.knots = sortKnots (pairSums d.knots ck) ∧ d'.order = d.order + ck.length - 1 ∧
      d'.nknots = d'.knots.length ∧ d'.naxes + d'.order + 1 = d'.nknots ∧ 1 ≤ d'.naxes ∧
      ∀ i k, i < prodL ((T.dims.map (·.naxes)).take dim) → k < prodL ((T.dims.map (·.naxes)).drop (dim+1)) →
      ∀ (x : Rat), getK d'.knots 0 ≤ x → x ≤ getK d'.knots (d'.nknots - 1) →
        ∑ l ∈ range d'.naxes,
            R.coef.getD (i * prodL ((T.dims.map (·.naxes)).drop (dim+1)) * d'.naxes
              + l * prodL ((T.dims.map (·.naxes)).drop (dim+1)) + k) 0 * Bsel (ConvSpec.toDim d') x 0 l
          = ConvSpec.conv1 (getK d.knots) d.nknots d.order d.naxes
              (fun j => T.coef.getD (i * prodL ((T.dims.map (·.naxes)).drop (dim+1)) * d.naxes
                + j * prodL ((T.dims.map (·.naxes)).drop (dim+1)) + k) 0)
              (getK ck) (ck.length - 1) x := by
  obtain ⟨R, d', hR, hd', hkn, hord, hna, hnk, hmain⟩ := convolve_slices T dim ck d hd hk hnax hτ hy hq h12
  -- size of the new knot vector
  have hlen : d'.knots.length = d.nknots * ck.length := by
    rw [hkn, (sortKnots_perm _).length_eq, pairSums_length, hk]
  have hbig : d.order + ck.length + 1 ≤ d.nknots * ck.length := by
    have h1 : 2 * d.nknots ≤ d.nknots * ck.length := by
      rw [Nat.mul_comm 2]; exact Nat.mul_le_mul_left _ hq
    have h2 : 2 * ck.length ≤ d.nknots * ck.length := by
      exact Nat.mul_le_mul_right _ (by omega)
    omega
  have hnax' : d'.naxes + d'.order + 1 = d'.nknots := by rw [hna, hnk, hord, hlen]; omega
  have hn1' : 1 ≤ d'.naxes := by rw [hna, hord, hlen]; omega
  refine ⟨R, d', hR, hd', hkn, hord, hnk, hnax', hn1', ?_⟩
  intro i k hi hk' x hx1 hx2
  have hs : d'.knots.Pairwise (· ≤ ·) := by rw [hkn]; exact sortKnots_sorted _
  have h01 : getK d'.knots 0 < getK d'.knots 1 :=
    rho_first_lt d.knots ck d'.knots hτ hy (by rw [hkn]; exact sortKnots_perm _) hs (by omega)
  obtain ⟨left, hl1, hl2, hl3, hl4, hB⟩ := Bsel_eq_Bp d' x hnk.symm hnax' hs hn1' h01 hx1 hx2
  rw [← hmain i k hi hk' (ConvSpec.toDim d').knots (fun z _ => toDim_knots_nat d' z) left x (by omega) hl2 hl3 hl4]
  apply Finset.sum_congr rfl
  intro l hl
  rw [hB l (mem_range.mp hl), hord]

end PsV
