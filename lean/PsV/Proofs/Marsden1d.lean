import PsV.Proofs.PolyRepro1d
import Mathlib.Data.Nat.Choose.Basic
import Mathlib.Data.Nat.Factorial.Basic
/-!
# Marsden's identity in one dimension (all degrees)

For the Cox–de Boor basis of the specification (`Bind (indR t x)`, arbitrary order, arbitrary sorted knots,
repeated knots allowed) on the fully supported range `[t order, t n)`:
* `Bind_sum_monomial`: `Σ_k B_{k,order}(x) · e_j(t_{k+1..k+order})/C(order,j) = x^j` for every `j ≤ order`
  (`e_j` the elementary symmetric polynomial, `esymW`; the coefficient is `dualCoef`),
and for the derivative coefficients of the penalty (`derivCoef`):
* `derivCoef_dual_level`: the `q`-th derivative coefficients of the coefficient vector of `x^j` (`q ≤ j`) are
  `j!/(j-q)!` times the dual coefficients of `x^(j-q)` for the order `order-q` on the knots shifted by `q`,
* `derivCoef_monomial`: they vanish for `q > j`.
-/
set_option linter.unusedSectionVars false
set_option linter.unusedSimpArgs false
set_option linter.unusedVariables false
namespace PsV
open Arith Finset
section
variable {α : Type} [Field α] [LinearOrder α] [IsStrictOrderedRing α] [A : Arith α] [L : LawfulArith α]

/-! ## elementary symmetric polynomials of a window of knots -/

/-- elementary symmetric polynomial `e_j` of the `m` knots `t (i+1), …, t (i+m)` -/
def esymW (t : Int → α) (i : Int) : (m : Nat) → (j : Nat) → α
  | _, 0 => 1
  | 0, _+1 => 0
  | m+1, j+1 => esymW t i m (j+1) + t (i + m + 1) * esymW t i m j

/-- dual (Marsden) coefficient of `x^j` for order `order`: `e_j(t_{k+1..k+order}) / C(order, j)` -/
def dualCoef (t : Int → α) (order j k : Nat) : α := esymW t (k : Int) order j / (Nat.choose order j : α)

theorem esymW_zero_right (t : Int → α) (i : Int) (m : Nat) : esymW t i m 0 = 1 := by
  cases m <;> rfl

theorem esymW_zero_succ (t : Int → α) (i : Int) (j : Nat) : esymW t i 0 (j+1) = 0 := rfl

theorem esymW_succ_succ (t : Int → α) (i : Int) (m j : Nat) :
    esymW t i (m+1) (j+1) = esymW t i m (j+1) + t (i + m + 1) * esymW t i m j := rfl

theorem esymW_zero_left (t : Int → α) (i i' : Int) (j : Nat) : esymW t i 0 j = esymW t i' 0 j := by
  cases j <;> rfl

/-- peeling the first knot of the window instead of the last -/
theorem esymW_peel_first (t : Int → α) : ∀ (m j : Nat) (i : Int),
    esymW t i (m+1) (j+1) = esymW t (i+1) m (j+1) + t (i+1) * esymW t (i+1) m j := by
  intro m
  induction m with
  | zero =>
    intro j i
    rw [esymW_succ_succ, esymW_zero_succ, esymW_zero_succ, esymW_zero_left t i (i+1) j]
    simp
  | succ m ih =>
    intro j i
    have e : i + ((m+1 : Nat) : Int) + 1 = i + 1 + m + 1 := by push_cast; ring
    rw [esymW_succ_succ t i (m+1) j, ih j i, e]
    cases j with
    | zero =>
      rw [esymW_succ_succ t (i+1) m 0]
      simp only [esymW_zero_right]
      ring
    | succ j =>
      rw [ih j i, esymW_succ_succ t (i+1) m (j+1), esymW_succ_succ t (i+1) m j]
      ring

theorem esymW_one (t : Int → α) (i : Int) : ∀ m : Nat, esymW t i m 1 = gsum t m i := by
  intro m
  induction m with
  | zero => simp [esymW, gsum]
  | succ m ih =>
    rw [esymW_succ_succ, ih, esymW_zero_right, gsum_succ, mul_one]
    have : i + (m : Int) + 1 = i + 1 + m := by ring
    rw [this]

theorem dualCoef_zero (t : Int → α) (order k : Nat) : dualCoef t order 0 k = 1 := by
  simp [dualCoef, esymW_zero_right]

/-- the dual coefficients of `x` are the Greville abscissae (no restriction on `order` is needed: both sides are
`0/0 = 0` for `order = 0`) -/
theorem dualCoef_one (t : Int → α) (order k : Nat) : dualCoef t order 1 k = greville t order k := by
  rw [dualCoef, esymW_one, Nat.choose_one_right, greville_eq_gsum]

/-! ## Marsden's identity on the window -/

theorem Bp_esym_alg (x u T B G H : α) (h : T - u ≠ 0) :
    (x - u) / (T - u) * B * (G + T * H) + (T - x) / (T - u) * B * (G + u * H) = B * G + B * (x * H) := by
  field_simp
  ring

/-- un-normalised Marsden identity on the window of interval `left`:
`Σ_k B_{left-n+k,n}(x) · e_j(t_{left-n+k+1..left+k}) = C(n,j) · x^j` -/
theorem Bp_sum_esym (t : Int → α) (x : α) (left : Int) (hne : t left < t (left + 1)) :
    ∀ (n : Nat), (∀ a b : Int, left - n ≤ a → a ≤ b → b ≤ left + n + 1 → t a ≤ t b) → ∀ j : Nat,
      ∑ k ∈ range (n + 1), Bp t x left n (left - n + k) * esymW t (left - n + k) n j
        = (n.choose j : α) * x ^ j := by
  intro n
  induction n with
  | zero =>
    intro _ j
    cases j with
    | zero => simp [esymW_zero_right, Bp]
    | succ j => simp [esymW_zero_succ]
  | succ n ih =>
    intro hmono j
    have hmono' : ∀ a b : Int, left - n ≤ a → a ≤ b → b ≤ left + n + 1 → t a ≤ t b :=
      fun a b h1 h2 h3 => hmono a b (by push_cast; omega) h2 (by push_cast; omega)
    cases j with
    | zero =>
      simp only [esymW_zero_right, mul_one, Nat.choose_zero_right, Nat.cast_one, pow_zero]
      exact Bp_sum_one t x left hne (n+1) hmono
    | succ j =>
    have ih1 := ih hmono' (j+1)
    have ih0 := ih hmono' j
    have hexp : ∀ k : Nat, Bp t x left (n+1) (left - ((n+1 : Nat) : Int) + k)
          * esymW t (left - ((n+1 : Nat) : Int) + k) (n+1) (j+1) =
        (x - t (left - n - 1 + k)) / (t (left + k) - t (left - n - 1 + k)) * Bp t x left n (left - n - 1 + k)
            * esymW t (left - n - 1 + k) (n+1) (j+1)
        + (t (left + k + 1) - x) / (t (left + k + 1) - t (left - n + k)) * Bp t x left n (left - n + k)
            * esymW t (left - n - 1 + k) (n+1) (j+1) := by
      intro k
      have e0 : left - ((n+1 : Nat) : Int) + k = left - n - 1 + k := by push_cast; ring
      have e1 : left - (n:Int) - 1 + k + n + 1 = left + k := by ring
      have e2 : left - (n:Int) - 1 + k + n + 2 = left + k + 1 := by ring
      have e3 : left - (n:Int) - 1 + k + 1 = left - n + k := by ring
      rw [e0]
      simp only [Bp]
      rw [e1, e2, e3, add_mul]
    rw [sum_congr rfl (fun k _ => hexp k), sum_add_distrib]
    rw [sum_range_succ' (fun k : Nat => (x - t (left - n - 1 + k)) / (t (left + k) - t (left - n - 1 + k))
          * Bp t x left n (left - n - 1 + k) * esymW t (left - n - 1 + k) (n+1) (j+1))]
    rw [sum_range_succ (fun k : Nat => (t (left + k + 1) - x) / (t (left + k + 1) - t (left - n + k))
          * Bp t x left n (left - n + k) * esymW t (left - n - 1 + k) (n+1) (j+1))]
    have z1 : Bp t x left n (left - n - 1 + ((0:Nat):Int)) = 0 :=
      Bp_zero_of_not_mem t x left n _ (Or.inr (by push_cast; omega))
    have z2 : Bp t x left n (left - n + ((n+1 : Nat) : Int)) = 0 :=
      Bp_zero_of_not_mem t x left n _ (Or.inl (by push_cast; omega))
    rw [z1, z2, mul_zero, zero_mul, mul_zero, zero_mul, add_zero, add_zero, ← sum_add_distrib]
    have key : ∀ k ∈ range (n+1),
        (x - t (left - n - 1 + ((k+1 : Nat) : Int))) / (t (left + ((k+1 : Nat) : Int)) - t (left - n - 1 + ((k+1 : Nat) : Int)))
            * Bp t x left n (left - n - 1 + ((k+1 : Nat) : Int)) * esymW t (left - n - 1 + ((k+1 : Nat) : Int)) (n+1) (j+1)
          + (t (left + k + 1) - x) / (t (left + k + 1) - t (left - n + k)) * Bp t x left n (left - n + k)
            * esymW t (left - n - 1 + k) (n+1) (j+1)
        = Bp t x left n (left - n + k) * esymW t (left - n + k) n (j+1)
          + Bp t x left n (left - n + k) * (x * esymW t (left - n + k) n j) := by
      intro k hk
      rw [mem_range] at hk
      have e1 : left - (n:Int) - 1 + ((k+1 : Nat) : Int) = left - n + k := by push_cast; ring
      have e2 : left + ((k+1 : Nat) : Int) = left + k + 1 := by push_cast; ring
      rw [e1, e2]
      have hden : t (left + k + 1) - t (left - n + k) ≠ 0 := by
        have h1 : t (left - n + k) ≤ t left := hmono _ _ (by push_cast; omega) (by omega) (by push_cast; omega)
        have h2 : t (left + 1) ≤ t (left + k + 1) := hmono _ _ (by push_cast; omega) (by omega) (by push_cast; omega)
        have : t (left - n + k) < t (left + k + 1) := lt_of_le_of_lt h1 (lt_of_lt_of_le hne h2)
        exact sub_ne_zero.mpr (ne_of_gt this)
      have g1 : esymW t (left - n + k) (n+1) (j+1)
          = esymW t (left - n + k) n (j+1) + t (left + k + 1) * esymW t (left - n + k) n j := by
        rw [esymW_succ_succ]
        have : left - (n:Int) + k + n + 1 = left + k + 1 := by ring
        rw [this]
      have g2 : esymW t (left - n - 1 + k) (n+1) (j+1)
          = esymW t (left - n + k) n (j+1) + t (left - n + k) * esymW t (left - n + k) n j := by
        rw [esymW_peel_first]
        have : left - (n:Int) - 1 + k + 1 = left - n + k := by ring
        rw [this]
      rw [g1, g2]
      exact Bp_esym_alg x _ _ _ _ _ hden
    rw [sum_congr rfl key, sum_add_distrib, ih1]
    have e3 : ∑ k ∈ range (n+1), Bp t x left n (left - n + k) * (x * esymW t (left - n + k) n j)
        = x * ∑ k ∈ range (n+1), Bp t x left n (left - n + k) * esymW t (left - n + k) n j := by
      rw [mul_sum]
      exact sum_congr rfl (fun k _ => by ring)
    rw [e3, ih0, Nat.choose_succ_succ' n j]
    push_cast
    ring

/-- Marsden's identity, monomial form: on the fully supported range `[t order, t n)` of sorted knots
`Σ_k B_{k,order}(x) · e_j(t_{k+1..k+order})/C(order,j) = x^j` for every `j ≤ order`. -/
theorem Bind_sum_monomial (t : Int → α) (x : α) (order n j : Nat) (hj : j ≤ order)
    (hmono : ∀ i j : Int, 0 ≤ i → i ≤ j → j ≤ (n : Int) + order → t i ≤ t j)
    (h1 : t (order : Int) ≤ x) (h2 : x < t (n : Int)) :
    ∑ k ∈ range n, Bind (indR t x) t x order (k : Int) * dualCoef t order j k = x ^ j := by
  obtain ⟨c, c1, c2, hne, hB⟩ := Bind_eq_Bp_full t x order n hmono h1 h2
  have hc : (order.choose j : α) ≠ 0 := Nat.cast_ne_zero.mpr (Nat.pos_iff_ne_zero.mp (Nat.choose_pos hj))
  have e1 : ∑ k ∈ range n, Bind (indR t x) t x order (k : Int) * dualCoef t order j k
      = ∑ k ∈ range n, Bp t x (c : Int) order (k : Int) * (esymW t (k : Int) order j / (order.choose j : α)) :=
    sum_congr rfl (fun k hk => by rw [hB k (mem_range.mp hk), dualCoef])
  rw [e1, Bp_sum_window t x order c n c1 c2 (fun i => esymW t i order j / (order.choose j : α))]
  have e2 : ∑ k ∈ range (order + 1), Bp t x (c : Int) order ((c : Int) - order + k)
        * (esymW t ((c : Int) - order + k) order j / (order.choose j : α))
      = (∑ k ∈ range (order + 1), Bp t x (c : Int) order ((c : Int) - order + k)
          * esymW t ((c : Int) - order + k) order j) / (order.choose j : α) := by
    rw [sum_div]
    exact sum_congr rfl (fun k _ => by rw [mul_div_assoc])
  rw [e2, Bp_sum_esym t x (c : Int) hne order (fun a b ha hab hb => hmono a b (by omega) hab (by omega)) j]
  field_simp

/-! ## derivative coefficients of the dual coefficients -/

theorem derivCoef_succ_eq (t : Int → α) (order q : Nat) (c : Nat → α) (i : Nat) :
    derivCoef t order (q+1) c i
      = ((order - q : Nat) : α) * (derivCoef t order q c (i+1) - derivCoef t order q c i)
          / (t ((i : Int) + order + 1) - t ((i : Int) + q + 1)) := by
  rw [derivCoef]
  simp only [L.sub_eq, L.mul_eq, L.div_eq, L.ofNat_eq]

theorem dual_level_alg (M R C0 C1 D E0 E1 T u : α) (h : M * C0 = C1 * R) (hT : T - u ≠ 0)
    (h0 : C0 ≠ 0) (h1 : C1 ≠ 0) :
    M * (D * ((E1 + T * E0) / C1) - D * ((E1 + u * E0) / C1)) / (T - u) = R * D * (E0 / C0) := by
  have e : D * ((E1 + T * E0) / C1) - D * ((E1 + u * E0) / C1) = D * E0 / C1 * (T - u) := by
    field_simp
    ring
  rw [e, mul_div_assoc, mul_div_assoc, div_self hT, mul_one]
  have hM : M = C1 * R / C0 := by rw [← h, mul_div_assoc, div_self h0, mul_one]
  rw [hM]
  field_simp

/-- the `q`-th derivative coefficients of the coefficient vector of `x^j` are `j!/(j-q)!` times the dual coefficients
of `x^(j-q)` for the order `order - q` on the knot vector shifted by `q` (`m = order - q`, `r = j - q`), where the
knot spans that the recurrence divides by are non-degenerate -/
theorem derivCoef_dual_level (t : Int → α) (order j : Nat) :
    ∀ (q m r : Nat), q + m = order → q + r = j → r ≤ m → ∀ i : Nat,
      (∀ a q' : Nat, i ≤ a → q' < q → a + q' + 1 ≤ i + q → t ((a : Int) + q' + 1) ≠ t ((a : Int) + order + 1)) →
      derivCoef t order q (dualCoef t order j) i
        = (j.descFactorial q : α) * (esymW t ((i : Int) + q) m r / (m.choose r : α)) := by
  intro q
  induction q with
  | zero =>
    intro m r hm hr _ i _
    have hm' : m = order := by omega
    have hr' : r = j := by omega
    subst hm' hr'
    simp only [derivCoef, dualCoef, Nat.descFactorial_zero, Nat.cast_one, one_mul, Nat.cast_zero, add_zero]
  | succ q ih =>
    intro m r hm hr hrm i hk
    have ihA := ih (m+1) (r+1) (by omega) (by omega) (by omega) (i+1)
      (fun a q' h1 h2 h3 => hk a q' (by omega) (by omega) (by omega))
    have ihB := ih (m+1) (r+1) (by omega) (by omega) (by omega) i
      (fun a q' h1 h2 h3 => hk a q' (by omega) (by omega) (by omega))
    have hden := hk i q (le_refl _) (by omega) (by omega)
    have eo : order - q = m + 1 := by omega
    have ea1 : (((i+1 : Nat) : Int)) + (q : Int) = (i : Int) + q + 1 := by push_cast; ring
    have ea2 : (i : Int) + ((q+1 : Nat) : Int) = (i : Int) + q + 1 := by push_cast; ring
    have eT : (i : Int) + (order : Int) + 1 = (i : Int) + q + 1 + m + 1 := by
      rw [← hm]; push_cast; ring
    rw [derivCoef_succ_eq, ihA, ihB, eo, ea1, ea2, eT]
    rw [eT] at hden
    rw [esymW_succ_succ t ((i : Int) + q + 1) m r, esymW_peel_first t m r ((i : Int) + q)]
    have hD : ((j.descFactorial (q+1) : Nat) : α) = ((r+1 : Nat) : α) * (j.descFactorial q : α) := by
      rw [Nat.descFactorial_succ]
      have : j - q = r + 1 := by omega
      rw [this]
      push_cast
      ring
    rw [hD]
    have hC : ((m+1 : Nat) : α) * (m.choose r : α) = ((m+1).choose (r+1) : α) * ((r+1 : Nat) : α) := by
      have := Nat.add_one_mul_choose_eq m r
      exact_mod_cast this
    have h0 : (m.choose r : α) ≠ 0 := Nat.cast_ne_zero.mpr (Nat.pos_iff_ne_zero.mp (Nat.choose_pos hrm))
    have h1 : ((m+1).choose (r+1) : α) ≠ 0 :=
      Nat.cast_ne_zero.mpr (Nat.pos_iff_ne_zero.mp (Nat.choose_pos (by omega)))
    exact dual_level_alg _ _ _ _ _ _ _ _ _ hC (sub_ne_zero.mpr (Ne.symm hden)) h0 h1

/-- the `j`-th derivative coefficients of the coefficient vector of `x^j` are the constant `j!` -/
theorem derivCoef_dual_top (t : Int → α) (order j : Nat) (hj : j ≤ order) (i : Nat)
    (hk : ∀ a q' : Nat, i ≤ a → q' < j → a + q' + 1 ≤ i + j → t ((a : Int) + q' + 1) ≠ t ((a : Int) + order + 1)) :
    derivCoef t order j (dualCoef t order j) i = (j.factorial : α) := by
  rw [derivCoef_dual_level t order j j (order - j) 0 (by omega) (by omega) (by omega) i hk,
    esymW_zero_right, Nat.choose_zero_right, Nat.descFactorial_self, Nat.cast_one, div_one, mul_one]

theorem derivCoef_monomial_succ (t : Int → α) (order j : Nat) (hj : j ≤ order) :
    ∀ (s i : Nat),
      (∀ a q' : Nat, i ≤ a → q' < j → a + q' + 1 ≤ i + (j + 1 + s) →
        t ((a : Int) + q' + 1) ≠ t ((a : Int) + order + 1)) →
      derivCoef t order (j + 1 + s) (dualCoef t order j) i = 0 := by
  intro s
  induction s with
  | zero =>
    intro i hk
    show derivCoef t order (j + 1) (dualCoef t order j) i = 0
    rw [derivCoef_succ_eq,
      derivCoef_dual_top t order j hj (i+1) (fun a q' h1 h2 h3 => hk a q' (by omega) h2 (by omega)),
      derivCoef_dual_top t order j hj i (fun a q' h1 h2 h3 => hk a q' h1 h2 (by omega)),
      sub_self, mul_zero, zero_div]
  | succ s ih =>
    intro i hk
    show derivCoef t order ((j + 1 + s) + 1) (dualCoef t order j) i = 0
    rw [derivCoef_succ_eq,
      ih (i+1) (fun a q' h1 h2 h3 => hk a q' (by omega) h2 (by omega)),
      ih i (fun a q' h1 h2 h3 => hk a q' h1 h2 (by omega)),
      sub_self, mul_zero, zero_div]

/-- the `p`-th derivative coefficients of the coefficient vector of `x^j` vanish for `p > j`; sharp form of the
non-degeneracy condition: only the levels `q < j` of the recurrence divide by a knot span that matters (from level `j` on
the numerators are zero) -/
theorem derivCoef_monomial' (t : Int → α) (order p j i : Nat) (hjp : j < p) (hj : j ≤ order)
    (hk : ∀ m q : Nat, i ≤ m → q < j → m + q + 1 ≤ i + p → t ((m : Int) + q + 1) ≠ t ((m : Int) + order + 1)) :
    derivCoef t order p (dualCoef t order j) i = 0 := by
  obtain ⟨s, rfl⟩ : ∃ s, p = j + 1 + s := ⟨p - (j + 1), by omega⟩
  exact derivCoef_monomial_succ t order j hj s i hk

/-- the `p`-th derivative coefficients of the coefficient vector of `x^j` vanish for `p > j` (where the knot spans
`t (m+q+1) … t (m+order+1)`, `q < p`, that the recurrence divides by are non-degenerate) -/
theorem derivCoef_monomial (t : Int → α) (order p j i : Nat) (hjp : j < p) (hj : j ≤ order)
    (hk : ∀ m q : Nat, i ≤ m → q < p → m + q + 1 ≤ i + p → q < order →
      t ((m : Int) + q + 1) ≠ t ((m : Int) + order + 1)) :
    derivCoef t order p (dualCoef t order j) i = 0 :=
  derivCoef_monomial' t order p j i hjp hj (fun m q h1 h2 h3 => hk m q h1 (by omega) h3 (by omega))

end
end PsV
