import PsV.Model.FitsCrash
import PsV.Proofs.FitsWrite
import PsV.Proofs.FitsBytes
/-! Lemmas for C08: what the writer leaves on disk (every failure path), and crash states of front-to-back logs. -/
namespace PsV.C08

/-! ## traces of `write_fits_core` -/

theorem runCore_mem (env : Env) : ∀ (steps : List Step) (i : Nat), ∀ c ∈ (runCore env steps i).2, c.1 ∈ steps
  | [], _, c, hc => by unfold runCore at hc; exact absurd hc (by simp)
  | s :: rest, i, c, hc => by
    unfold runCore at hc
    by_cases he : env i = true
    · simp only [he, if_true, List.mem_cons] at hc
      rcases hc with rfl | hc
      · exact List.mem_cons_self ..
      · exact List.mem_cons_of_mem _ (runCore_mem env rest (i+1) c hc)
    · simp only [he, Bool.false_eq_true, if_false, List.mem_cons, List.not_mem_nil, or_false] at hc
      subst hc; exact List.mem_cons_self ..

/-- a failing `write_fits_core` made exactly one failing call: its last -/
theorem runCore_fail (env : Env) : ∀ (steps : List Step) (i : Nat), (runCore env steps i).1 = false →
    failures (runCore env steps i).2 = 1
  | [], _, h => by unfold runCore at h; exact absurd h (by simp)
  | s :: rest, i, h => by
    unfold runCore at h ⊢
    by_cases he : env i = true
    · simp only [he, if_true] at h ⊢
      have := runCore_fail env rest (i+1) h
      unfold failures at this ⊢
      simpa using this
    · simp only [he, Bool.false_eq_true, if_false]
      rfl

theorem failures_map_true (steps : List Step) : failures (steps.map fun s => (s, true)) = 0 := by
  unfold failures; simp

theorem failures_append (a b : List (Step × Bool)) : failures (a ++ b) = failures a + failures b := by
  unfold failures; simp

theorem failures_cons (c : Step × Bool) (a : List (Step × Bool)) : failures (c :: a) = (if c.2 then 0 else 1) + failures a := by
  unfold failures
  cases h : c.2 <;> simp [List.filter, h] <;> omega

/-! ## the four ways `write_fits` can go -/

inductive Course (steps : List Step) (env : Env) : Prop
  /-- `fits_create_file` fails -/
  | create : env 0 = false → writeFitsOn steps env = ⟨.failure, [(.init, false)]⟩ → Course steps env
  /-- everything succeeds -/
  | done : env 0 = true → writeFitsOn steps env = ⟨.success, (.init, true) :: steps.map (fun s => (s, true)) ++ [(.clos, true)]⟩ →
      Course steps env
  /-- `write_fits_core` succeeds, the close fails, `remove` is called -/
  | close (e : Bool) : env 0 = true →
      writeFitsOn steps env = ⟨.failure, (.init, true) :: steps.map (fun s => (s, true)) ++ [(.clos, false), (.remove, e)]⟩ →
      Course steps env
  /-- a call of `write_fits_core` fails, the guard calls `fits_delete_file` -/
  | core (tr : List (Step × Bool)) (e : Bool) : env 0 = true → (∀ c ∈ tr, c.1 ∈ steps) → failures tr = 1 →
      writeFitsOn steps env = ⟨.failure, (.init, true) :: tr ++ [(.delt, e)]⟩ → Course steps env

theorem course (steps : List Step) (env : Env) : Course steps env := by
  by_cases h0 : env 0 = true
  · by_cases hc : (runCore env steps 1).1 = true
    · obtain ⟨ht, _⟩ := runCore_ok env steps 1 hc
      by_cases hn : env (1 + (runCore env steps 1).2.length) = true
      · refine Course.done h0 ?_
        unfold writeFitsOn
        simp only [h0, Bool.not_true, Bool.false_eq_true, if_false, hc, if_true, hn]
        rw [ht]
      · refine Course.close (env (1 + (runCore env steps 1).2.length + 1)) h0 ?_
        unfold writeFitsOn
        simp only [h0, Bool.not_true, Bool.false_eq_true, if_false, hc, if_true, hn]
        rw [ht]
    · have hc' : (runCore env steps 1).1 = false := by simpa using hc
      refine Course.core (runCore env steps 1).2 (env (1 + (runCore env steps 1).2.length)) h0
        (runCore_mem env steps 1) (runCore_fail env steps 1 hc') ?_
      unfold writeFitsOn
      simp only [h0, Bool.not_true, Bool.false_eq_true, if_false, hc']
  · have h0' : env 0 = false := by simpa using h0
    refine Course.create h0' ?_
    unfold writeFitsOn
    simp only [h0', Bool.not_false, if_true]

/-! ## the file name along a trace -/

/-- calls which neither create nor delete the file -/
def Plain (s : Step) : Prop := s ≠ .init ∧ s ≠ .delt ∧ s ≠ .remove

/-- all operations of calls `j … j+n-1` -/
def ioRange (w : World) (j n : Nat) : List IoOp := (List.range' j n).flatMap w.io

theorem diskOfTrace_append (w : World) (prev : Option Bytes) : ∀ (a b : List (Step × Bool)) (j : Nat) (d : Option Bytes),
    diskOfTrace w prev (a ++ b) j d = diskOfTrace w prev b (j + a.length) (diskOfTrace w prev a j d)
  | [], b, j, d => rfl
  | c :: a, b, j, d => by
    have e : j + (c :: a).length = j + 1 + a.length := by simp; omega
    rw [List.cons_append, e]
    show diskOfTrace w prev (a ++ b) (j+1) (stepDisk w prev d j c)
      = diskOfTrace w prev b (j+1+a.length) (diskOfTrace w prev a (j+1) (stepDisk w prev d j c))
    exact diskOfTrace_append w prev a b (j+1) _

theorem stepDisk_plain (w : World) (prev : Option Bytes) (f : Bytes) (j : Nat) (c : Step × Bool) (h : Plain c.1) :
    stepDisk w prev (some f) j c = some ((w.io j).foldl IoOp.apply f) := by
  obtain ⟨s, ok⟩ := c
  obtain ⟨h1, h2, h3⟩ := h
  cases s <;> first | rfl | exact absurd rfl h1 | exact absurd rfl h2 | exact absurd rfl h3

theorem diskOfTrace_plain (w : World) (prev : Option Bytes) : ∀ (tr : List (Step × Bool)) (j : Nat) (f : Bytes),
    (∀ c ∈ tr, Plain c.1) → diskOfTrace w prev tr j (some f) = some ((ioRange w j tr.length).foldl IoOp.apply f)
  | [], j, f, _ => by unfold diskOfTrace ioRange; rfl
  | c :: tr, j, f, h => by
    unfold diskOfTrace
    rw [stepDisk_plain w prev f j c (h c (List.mem_cons_self ..)),
      diskOfTrace_plain w prev tr (j+1) _ (fun c' hc' => h c' (List.mem_cons_of_mem _ hc'))]
    unfold ioRange
    rw [List.length_cons, List.range'_succ, List.flatMap_cons, List.foldl_append]

set_option linter.unusedSimpArgs false in
theorem coreSteps_plain (sh : Shape) : ∀ s ∈ coreSteps sh, Plain s := by
  intro s hs
  have : s = .crim ∨ s = .pky ∨ s = .ppx ∨ s = .uky := by
    unfold coreSteps at hs
    cases sh.hasPeriods <;> cases sh.hasExtents <;>
      simp only [List.mem_append, List.mem_cons, List.mem_replicate, List.mem_flatten, List.not_mem_nil, or_false,
        if_true, if_false, Bool.false_eq_true] at hs <;> grind
  unfold Plain
  rcases this with rfl | rfl | rfl | rfl <;> simp

/-- after a successful create, calls which neither create nor delete leave a file made of everything written so far -/
theorem disk_created (w : World) (prev : Option Bytes) (mid : List (Step × Bool)) (hmid : ∀ c ∈ mid, Plain c.1) :
    diskOfTrace w prev ((.init, true) :: mid) 0 prev = some ((ioRange w 0 (1 + mid.length)).foldl IoOp.apply []) := by
  show diskOfTrace w prev mid 1 (some ((w.io 0).foldl IoOp.apply [])) = _
  rw [diskOfTrace_plain w prev mid 1 _ hmid]
  unfold ioRange
  rw [Nat.add_comm 1, List.range'_succ, List.flatMap_cons, List.foldl_append]

theorem disk_created_then (w : World) (prev : Option Bytes) (mid : List (Step × Bool)) (hmid : ∀ c ∈ mid, Plain c.1)
    (last : Step × Bool) :
    diskOfTrace w prev ((.init, true) :: mid ++ [last]) 0 prev =
      stepDisk w prev (some ((ioRange w 0 (1 + mid.length)).foldl IoOp.apply [])) (1 + mid.length) last := by
  rw [diskOfTrace_append, disk_created w prev mid hmid]
  have : 0 + ((Step.init, true) :: mid).length = 1 + mid.length := by simp; omega
  rw [this]
  rfl

/-- **Every failure path**: when `write_fits` reports a failure, no file of that name is left — or the file which was
    there before is untouched (only if creating failed) — unless the clean-up call itself failed as well. -/
theorem failure_disk (steps : List Step) (hp : ∀ s ∈ steps, Plain s) (w : World) (prev : Option Bytes)
    (h : (writeFitsOn steps w.env).outcome = .failure) :
    diskAfter steps w prev = none ∨
    ((writeFitsOn steps w.env).trace = [(.init, false)] ∧ diskAfter steps w prev = prev) ∨
    (Step.delt, false) ∈ (writeFitsOn steps w.env).trace ∨ (Step.remove, false) ∈ (writeFitsOn steps w.env).trace := by
  unfold diskAfter
  cases course steps w.env with
  | create h0 e =>
    rw [e]
    show (if w.clobbered then none else prev) = none ∨ (_ ∧ (if w.clobbered then none else prev) = prev) ∨ _
    cases w.clobbered
    · exact Or.inr (Or.inl ⟨rfl, rfl⟩)
    · exact Or.inl rfl
  | done h0 e => rw [e] at h; exact absurd h (by simp)
  | close r h0 e =>
    rw [e]
    simp only
    have hmid : ∀ c ∈ steps.map (fun s => (s, true)) ++ [(Step.clos, false)], Plain c.1 := by
      intro c hc
      rcases List.mem_append.1 hc with hc | hc
      · obtain ⟨s, hs, rfl⟩ := List.mem_map.1 hc; exact hp s hs
      · rw [List.mem_singleton.1 hc]; unfold Plain; simp
    have eq : ((Step.init, true) :: steps.map (fun s => (s, true))) ++ [(Step.clos, false), (Step.remove, r)]
        = ((Step.init, true) :: (steps.map (fun s => (s, true)) ++ [(Step.clos, false)])) ++ [(Step.remove, r)] := by simp
    rw [eq, disk_created_then w prev _ hmid (Step.remove, r)]
    cases r
    · exact Or.inr (Or.inr (Or.inr (by simp)))
    · exact Or.inl rfl
  | core tr r h0 hmem hf e =>
    rw [e]
    simp only
    have hmid : ∀ c ∈ tr, Plain c.1 := fun c hc => hp _ (hmem c hc)
    rw [disk_created_then w prev _ hmid (Step.delt, r)]
    cases r
    · exact Or.inr (Or.inr (Or.inl (by simp)))
    · exact Or.inl rfl

/-- with at most one failing call the clean-up call did not fail -/
theorem single_failure (steps : List Step) (hp : ∀ s ∈ steps, Plain s) (env : Env) (h1 : failures (writeFitsOn steps env).trace ≤ 1) :
    (Step.delt, false) ∉ (writeFitsOn steps env).trace ∧ (Step.remove, false) ∉ (writeFitsOn steps env).trace := by
  cases course steps env with
  | create h0 e => rw [e]; simp
  | done h0 e => rw [e]; simp
  | close r h0 e =>
    rw [e] at h1 ⊢
    simp only [failures_cons, failures_append, failures_map_true] at h1
    cases r
    · simp [failures] at h1
    · simp
  | core tr r h0 hmem hf e =>
    rw [e] at h1 ⊢
    simp only [failures_cons, failures_append, hf] at h1
    cases r
    · simp [failures] at h1
    · have hd : ∀ b, (Step.delt, b) ∉ tr := fun b hc => (hp _ (hmem _ hc)).2.1 rfl
      have hr : ∀ b, (Step.remove, b) ∉ tr := fun b hc => (hp _ (hmem _ hc)).2.2 rfl
      simp [hd, hr]

/-- a trace with a failing call is not the trace of a reported success -/
theorem failing_call_reported (steps : List Step) (env : Env) (c : Step × Bool)
    (hc : c ∈ (writeFitsOn steps env).trace) (hf : c.2 = false) : (writeFitsOn steps env).outcome = .failure := by
  cases course steps env with
  | create h0 e => rw [e]
  | done h0 e =>
    rw [e] at hc
    simp only [List.mem_append, List.mem_cons, List.mem_map, List.not_mem_nil, or_false] at hc
    rcases hc with (rfl | ⟨s, _, rfl⟩) | rfl <;> exact absurd hf (by simp)
  | close r h0 e => rw [e]
  | core tr r h0 hmem hf' e => rw [e]

/-- a reported success leaves the file made of everything the calls wrote -/
theorem success_disk (steps : List Step) (hp : ∀ s ∈ steps, Plain s) (w : World) (prev : Option Bytes)
    (h : (writeFitsOn steps w.env).outcome = .success) :
    diskAfter steps w prev =
      some ((ioRange w 0 (writeFitsOn steps w.env).trace.length).foldl IoOp.apply []) := by
  unfold diskAfter
  cases course steps w.env with
  | create h0 e => rw [e] at h; exact absurd h (by simp)
  | close r h0 e => rw [e] at h; exact absurd h (by simp)
  | core tr r h0 hmem hf' e => rw [e] at h; exact absurd h (by simp)
  | done h0 e =>
    rw [e]
    simp only
    have hmid : ∀ c ∈ steps.map (fun s => (s, true)) ++ [(Step.clos, true)], Plain c.1 := by
      intro c hc
      rcases List.mem_append.1 hc with hc | hc
      · obtain ⟨s, hs, rfl⟩ := List.mem_map.1 hc; exact hp s hs
      · rw [List.mem_singleton.1 hc]; unfold Plain; simp
    have eq : ((Step.init, true) :: steps.map (fun s => (s, true))) ++ [(Step.clos, true)]
        = (Step.init, true) :: (steps.map (fun s => (s, true)) ++ [(Step.clos, true)]) := by simp
    rw [eq, disk_created w prev _ hmid]
    simp only [List.length_cons, Nat.add_comm 1]

/-- under the contract `Surfaces`, a write or close that failed inside any call made is reported -/
theorem bad_op_reported (steps : List Step) (w : World) (hs : Surfaces w (writeFitsOn steps w.env).trace)
    (j : Nat) (hj : j < (writeFitsOn steps w.env).trace.length) (o : IoOp) (ho : o ∈ w.io j) (hbad : o.bad = true) :
    (writeFitsOn steps w.env).outcome = .failure := by
  obtain ⟨j', _, s, hs'⟩ := hs j hj ⟨o, ho, hbad⟩
  exact failing_call_reported steps w.env (s, false) (List.mem_of_getElem? hs') rfl

/-! ## operation logs which write front to back -/

/-- the bytes an operation log writes, in order -/
def payload : List Op → Bytes
  | [] => []
  | .pwrite _ data :: rest => data ++ payload rest
  | _ :: rest => payload rest

theorem applyOp_append (s data : Bytes) : applyOp s (.pwrite s.length data) = s ++ data := by
  unfold applyOp
  simp only
  have e : s.length + data.length - s.length = data.length := by omega
  rw [e, List.take_append_of_le_length (Nat.le_refl _), List.take_length,
    List.drop_eq_nil_of_le (by simp), List.append_nil]

theorem applyOp_truncate_self (s : Bytes) : applyOp s (.truncate s.length) = s := by
  unfold applyOp
  simp

theorem applyOps_appendOnly : ∀ (ops : List Op) (s : Bytes), appendOnly s.length ops = true →
    applyOps s ops = s ++ payload ops
  | [], s, _ => by unfold applyOps payload; simp
  | .pwrite off data :: rest, s, h => by
    unfold appendOnly at h
    simp only [Bool.and_eq_true, beq_iff_eq] at h
    obtain ⟨rfl, h2⟩ := h
    unfold applyOps payload
    rw [List.foldl_cons, applyOp_append]
    have := applyOps_appendOnly rest (s ++ data) (by rw [List.length_append]; exact h2)
    unfold applyOps at this
    rw [this, List.append_assoc]
  | .truncate l :: rest, s, h => by
    unfold appendOnly at h
    simp only [Bool.and_eq_true, beq_iff_eq] at h
    obtain ⟨rfl, h2⟩ := h
    unfold applyOps payload
    rw [List.foldl_cons, applyOp_truncate_self]
    exact applyOps_appendOnly rest s h2
  | .flush :: rest, s, h => by
    unfold appendOnly at h
    unfold applyOps payload
    rw [List.foldl_cons]
    exact applyOps_appendOnly rest s h
  | .close :: rest, s, h => by
    unfold appendOnly at h
    unfold applyOps payload
    rw [List.foldl_cons]
    exact applyOps_appendOnly rest s h

/-- Every crash state of a front-to-back log — any number of complete operations, then any number of bytes of the
    next — is a prefix of the complete file. -/
theorem crash_prefix : ∀ (ops : List Op) (s : Bytes) (k b : Nat), appendOnly s.length ops = true →
    crashStep (applyOps s (ops.take k)) ops[k]? b <+: applyOps s ops
  | [], s, k, b, _ => by
    simp only [List.take_nil, List.getElem?_nil]
    unfold crashStep applyOps
    exact List.prefix_refl _
  | o :: rest, s, 0, b, h => by
    rw [applyOps_appendOnly _ s h]
    simp only [List.take_zero, List.getElem?_cons_zero]
    unfold crashStep applyOps
    simp only [List.foldl_nil]
    cases o with
    | pwrite off data =>
      unfold appendOnly at h
      simp only [Bool.and_eq_true, beq_iff_eq] at h
      obtain ⟨rfl, _⟩ := h
      simp only
      split
      · exact List.prefix_append _ _
      · rw [applyOp_append]
        unfold payload
        rw [← List.append_assoc]
        refine List.IsPrefix.trans ?_ (List.prefix_append _ _)
        exact (List.prefix_append_right_inj s).2 (List.take_prefix _ _)
    | truncate l => exact List.prefix_append _ _
    | flush => exact List.prefix_append _ _
    | close => exact List.prefix_append _ _
  | o :: rest, s, k+1, b, h => by
    simp only [List.take_succ_cons, List.getElem?_cons_succ]
    have hstep : ∃ s', applyOp s o = s' ∧ appendOnly s'.length rest = true := by
      cases o with
      | pwrite off data =>
        unfold appendOnly at h
        simp only [Bool.and_eq_true, beq_iff_eq] at h
        obtain ⟨rfl, h2⟩ := h
        exact ⟨s ++ data, applyOp_append s data, by rw [List.length_append]; exact h2⟩
      | truncate l =>
        unfold appendOnly at h
        simp only [Bool.and_eq_true, beq_iff_eq] at h
        obtain ⟨rfl, h2⟩ := h
        exact ⟨s, applyOp_truncate_self s, h2⟩
      | flush => exact ⟨s, rfl, by unfold appendOnly at h; exact h⟩
      | close => exact ⟨s, rfl, by unfold appendOnly at h; exact h⟩
    obtain ⟨s', hs', h'⟩ := hstep
    have := crash_prefix rest s' k b h'
    unfold applyOps at this ⊢
    rw [List.foldl_cons, List.foldl_cons, hs']
    exact this

theorem crashState_eq (ops : List Op) (k b : Nat) :
    crashState ops k b = crashStep (applyOps [] (ops.take k)) ops[k]? b := by
  unfold crashState crashStep
  cases ops[k]? with
  | none => rfl
  | some o => cases o <;> rfl

/-- operations which all succeeded act like the plain operation log -/
theorem foldl_apply_ok : ∀ (ios : List IoOp) (f : Bytes), (∀ o ∈ ios, o.ok = true) →
    ios.foldl IoOp.apply f = applyOps f (ios.map IoOp.op)
  | [], f, _ => rfl
  | o :: ios, f, h => by
    unfold applyOps
    rw [List.foldl_cons, List.map_cons, List.foldl_cons]
    have : IoOp.apply f o = applyOp f o.op := by
      unfold IoOp.apply; rw [h o (List.mem_cons_self ..)]; rfl
    rw [this]
    exact foldl_apply_ok ios _ (fun o' ho' => h o' (List.mem_cons_of_mem _ ho'))

end PsV.C08
