import PsV.Model.WalkBlocks
import PsV.Proofs.Sync
/-! Helper lemmas for the C11 theorems about the result loop of `walk_descents` over blocks of workers and about the rows
added to the full-size factor by `modify_factor_p` (`PsV/Model/WalkBlocks.lean`). -/
namespace PsV.Nnls
open PsV.Sync

/-! ## the loop as written is the sequential selection -/

theorem selStepL_self (less : Nat → Nat → Bool) (m : Nat) (acc : Acc) (k : Nat) (v : Option Nat) :
    selStepL less m acc k k v = selStep less m acc k v := by
  rcases acc with ⟨a1, a2⟩
  cases a2 <;> cases v <;> cases a1 <;> rfl

theorem scanL_n (c : Cfg) (val : Nat → Option Nat) (i : Nat) (acc : Acc) : scanL c c.n val i acc = scan c val i acc := by
  unfold scanL scan
  have : (fun a j => selStepL c.less c.m a (i * c.n + j) (i * c.n + j) (val j))
      = (fun a j => selStep c.less c.m a (i * c.n + j) (val j)) := by
    funext a j; exact selStepL_self _ _ _ _ _
  rw [this]

/-- `i*n + active i = min ((i+1)*n) m` for a started block -/
theorem block_end (c : Cfg) (i : Nat) (h : i * c.n < c.m) : i * c.n + c.active i = min ((i + 1) * c.n) c.m := by
  unfold Cfg.active
  rw [Nat.succ_mul]
  generalize i * c.n = a at *
  omega

theorem blocks_cover (c : Cfg) (hn : 0 < c.n) : c.m ≤ c.blocks * c.n := by
  have h : ¬ c.blocks * c.n < c.m := fun hx => Nat.lt_irrefl _ ((lt_blocks_iff c hn c.blocks).mpr hx)
  omega

/-- after the first `B` blocks the loop as written has done what the sequential scan does on the first `min (B*n) m` indices -/
theorem blockLoop_prefix (c : Cfg) (hn : 0 < c.n) : ∀ B, B ≤ c.blocks →
    (List.range B).foldl (fun acc i => scanL c c.n (fun j => some (i * c.n + j)) i acc) (none, none)
      = flat c.less c.m (min (B * c.n) c.m) := by
  intro B
  induction B with
  | zero => intro _; simp [flat]
  | succ B ih =>
    intro hB
    have hlt : B * c.n < c.m := (lt_blocks_iff c hn B).mp (by omega)
    rw [List.range_succ, List.foldl_append, ih (by omega)]
    simp only [List.foldl_cons, List.foldl_nil]
    rw [scanL_n, Nat.min_eq_left (Nat.le_of_lt hlt), scan_flat c _ B (fun j _ => rfl), block_end c B hlt]

theorem blockLoop_eq_selectSeq (c : Cfg) (hn : 0 < c.n) : blockLoop c = selectSeq c.less c.m := by
  unfold blockLoop blockLoopL selectSeq
  rw [blockLoop_prefix c hn c.blocks (Nat.le_refl _), Nat.min_eq_right (blocks_cover c hn)]

/-! ## the indices the loop looks at -/

theorem trialIndices_prefix (c : Cfg) (hn : 0 < c.n) : ∀ B, B ≤ c.blocks →
    ((List.range B).flatMap fun i => (List.range (c.active i)).map fun j => i * c.n + j)
      = List.range (min (B * c.n) c.m) := by
  intro B
  induction B with
  | zero => intro _; simp
  | succ B ih =>
    intro hB
    have hlt : B * c.n < c.m := (lt_blocks_iff c hn B).mp (by omega)
    rw [List.range_succ, List.flatMap_append, ih (by omega), Nat.min_eq_left (Nat.le_of_lt hlt)]
    simp only [List.flatMap_cons, List.flatMap_nil, List.append_nil]
    rw [← block_end c B hlt, List.range_add]

theorem trialIndices_eq_range (c : Cfg) (hn : 0 < c.n) : trialIndices c = List.range c.m := by
  unfold trialIndices
  rw [trialIndices_prefix c hn c.blocks (Nat.le_refl _), Nat.min_eq_right (blocks_cover c hn)]

/-- the pair (block, worker) that holds the last trial -/
theorem last_pair_exists (c : Cfg) (hn : 0 < c.n) (hm : 1 ≤ c.m) :
    (c.m - 1) / c.n < c.blocks ∧ (c.m - 1) % c.n < c.active ((c.m - 1) / c.n) ∧
      (c.m - 1) / c.n * c.n + (c.m - 1) % c.n = c.m - 1 := by
  have hdm : (c.m - 1) / c.n * c.n + (c.m - 1) % c.n = c.m - 1 := by
    rw [Nat.mul_comm]; exact Nat.div_add_mod _ _
  have hmod : (c.m - 1) % c.n < c.n := Nat.mod_lt _ hn
  refine ⟨(lt_blocks_iff c hn _).mpr ?_, ?_, hdm⟩
  · generalize (c.m - 1) / c.n * c.n = a at *; omega
  · unfold Cfg.active
    generalize (c.m - 1) / c.n * c.n = a at *
    omega

theorem last_pair_unique (c : Cfg) (hn : 0 < c.n) (i j : Nat) (hj : j < c.active i) (h : i * c.n + j = c.m - 1) :
    i = (c.m - 1) / c.n ∧ j = (c.m - 1) % c.n := by
  have hjn : j < c.n := Nat.lt_of_lt_of_le hj (active_le c i)
  have h' : c.m - 1 = c.n * i + j := by rw [Nat.mul_comm]; exact h.symm
  constructor
  · rw [h', Nat.mul_add_div hn, Nat.div_eq_of_lt hjn, Nat.add_zero]
  · rw [h', Nat.mul_add_mod, Nat.mod_eq_of_lt hjn]

/-! ## one worker, the multiplier `n_blocks` instead of `n_threads` -/

theorem blocks_one (c : Cfg) (h1 : c.n = 1) : c.blocks = c.m := by
  unfold Cfg.blocks; rw [h1]; simp

theorem active_one (c : Cfg) (h1 : c.n = 1) (i : Nat) (hi : i < c.m) : c.active i = 1 := by
  unfold Cfg.active; rw [h1]; omega

/-- no started (block, worker) pair passes the test `i*n_blocks + j == n_alpha-1` when there is one worker and `n_alpha ≥ 2` -/
theorem wrong_multiplier_never_last (c : Cfg) (h1 : c.n = 1) (hm : 2 ≤ c.m) (i j : Nat) (hi : i < c.blocks)
    (hj : j < c.active i) : i * c.blocks + j ≠ c.m - 1 := by
  rw [blocks_one c h1] at hi ⊢
  rw [active_one c h1 i hi] at hj
  have hj0 : j = 0 := by omega
  subst hj0
  rcases Nat.eq_zero_or_pos i with h0 | hp
  · subst h0; omega
  · have : c.m ≤ i * c.m := Nat.le_mul_of_pos_left _ hp
    omega

/-- with that test and no residual-reducing trial, `success` is never set: after block 0 the accumulator stays `(some 0, none)` -/
theorem blockLoopL_wrong_prefix (c : Cfg) (h1 : c.n = 1) (hm : 2 ≤ c.m)
    (hno : ∀ k, 1 ≤ k → k < c.m → c.less k 0 = false) : ∀ B, 1 ≤ B → B ≤ c.blocks →
    (List.range B).foldl (fun acc i => scanL c c.blocks (fun j => some (i * c.n + j)) i acc) (none, none)
      = (some 0, none) := by
  intro B
  induction B with
  | zero => intro h; omega
  | succ B ih =>
    intro _ hB
    have hBm : B < c.m := by rw [blocks_one c h1] at hB; omega
    rw [List.range_succ, List.foldl_append]
    simp only [List.foldl_cons, List.foldl_nil]
    rcases Nat.eq_zero_or_pos B with h0 | hp
    · subst h0
      unfold scanL
      rw [active_one c h1 0 hBm]
      simp [selStepL]
    · rw [ih hp (by omega)]
      have hne : B * c.blocks ≠ c.m - 1 := by
        have := wrong_multiplier_never_last c h1 hm B 0 (by omega) (by rw [active_one c h1 B hBm]; omega)
        simpa using this
      have hB0 : B ≠ 0 := by omega
      unfold scanL
      rw [active_one c h1 B hBm]
      simp [selStepL, h1, hB0, hno B hp hBm, hne]

/-! ## `walkScan` in the vocabulary of `selectSeq` -/

/-- what the sequential line search of `block3Run` returns: the first distance whose trial reduces the residual, else the last one -/
theorem walkScan_first_or_last (E : B3Env) (inF : Nat → Bool) (x xF : Nat → Rat) (res0 : Rat) :
    ∀ (as : List Rat) (k : Nat), 1 ≤ k → k ≤ as.length →
      (∀ j, 1 ≤ j → j < k → decide (E.resid inF (trialVal inF x xF (as.getD (j - 1) 0)) < res0) = false) →
      (decide (E.resid inF (trialVal inF x xF (as.getD (k - 1) 0)) < res0) = true ∨ k = as.length) →
      walkScan E inF x xF res0 as
        = (as.getD (k - 1) 0, decide (E.resid inF (trialVal inF x xF (as.getD (k - 1) 0)) < res0)) := by
  intro as
  induction as with
  | nil => intro k h1 h2; simp at h2; omega
  | cons a rest ih =>
    intro k h1 h2 hbefore hk
    cases rest with
    | nil =>
      have hk1 : k = 1 := by simp at h2; omega
      subst hk1
      simp [walkScan]
    | cons b rest' =>
      by_cases hk1 : k = 1
      · subst hk1
        have hred : decide (E.resid inF (trialVal inF x xF a) < res0) = true := by
          rcases hk with h | h
          · simpa using h
          · simp at h
        have hlt : E.resid inF (trialVal inF x xF a) < res0 := by simpa using hred
        simp [walkScan, hlt]
      · have hnot : ¬ E.resid inF (trialVal inF x xF a) < res0 := by
          have := hbefore 1 (Nat.le_refl _) (by omega)
          simpa using this
        have hrec := ih (k - 1) (by omega) (by simp at h2 ⊢; omega)
          (fun j hj1 hj2 => by
            have := hbefore (j + 1) (by omega) (by omega)
            have hidx : j + 1 - 1 = (j - 1) + 1 := by omega
            rw [hidx] at this
            simpa using this)
          (by
            have hidx : k - 1 = (k - 1 - 1) + 1 := by omega
            rcases hk with h | h
            · left; rw [hidx] at h; simpa using h
            · right; simp at h ⊢; omega)
        have hidx : k - 1 = (k - 1 - 1) + 1 := by omega
        rw [walkScan, if_neg hnot, hrec]
        rw [hidx]
        simp

end PsV.Nnls

namespace PsV.Nnls

/-! ## rows added to the full-size factor -/

/-- agreement of two matrices on `[0,n) × [0,n)` -/
def AgreeOn (n : Nat) (R R' : Mat) : Prop := ∀ i j, i < n → j < n → R i j = R' i j

theorem all_range_of (n : Nat) (p : Nat → Bool) (h : ∀ j, j < n → p j = true) : (List.range n).all p = true := by
  rw [List.all_eq_true]
  intro j hj
  exact h j (List.mem_range.mp hj)

/-- one `cholmod_rowadd` with the column taken from `A` restricted to the passive set that already contains `k` -/
theorem rowAdd_repMat (n : Nat) (A : Mat) (S : Nat → Bool) (k : Nat) (R : Mat) (hkS : S k = false)
    (hsym : ∀ i j, i < n → j < n → A i j = A j i) (hR : AgreeOn n R (repMat A S)) (hk : k < n) :
    ∃ R', rowAdd n k (getColumn A (fun i => S i || i == k) k) R = some R' ∧
      AgreeOn n R' (repMat A (fun i => S i || i == k)) := by
  have hkk : R k k = 1 := by rw [hR k k hk hk]; simp [repMat, hkS]
  have hrow : ∀ j, j < n → j ≠ k → R k j = 0 ∧ R j k = 0 := by
    intro j hj hne
    rw [hR k j hk hj, hR j k hj hk]
    have hne' : ¬ k = j := fun h => hne h.symm
    simp [repMat, hkS, hne, hne']
  have hcond : ((R k k == 1) && ((List.range n).all fun j => j == k || (R k j == 0 && R j k == 0))) = true := by
    rw [Bool.and_eq_true]
    refine ⟨by rw [hkk]; rfl, all_range_of n _ fun j hj => ?_⟩
    by_cases hjk : j = k
    · simp [hjk]
    · obtain ⟨h1, h2⟩ := hrow j hj hjk
      simp [h1, h2]
  refine ⟨_, by unfold rowAdd; rw [if_pos hcond], ?_⟩
  intro i j hi hj
  by_cases hik : i = k
  · subst hik
    by_cases hSj : (S j || j == i) = true
    · have := hsym j i hj hi
      simp [repMat, getColumn, hSj, this]
    · have hSj' : (S j || j == i) = false := by simpa using hSj
      have hne : ¬ i = j := by
        intro h; subst h; simp at hSj'
      simp [repMat, getColumn, hSj', hne]
  · by_cases hjk : j = k
    · subst hjk
      by_cases hSi : (S i || i == j) = true
      · simp [repMat, getColumn, hSi, hik]
      · have hSi' : (S i || i == j) = false := by simpa using hSi
        simp [repMat, getColumn, hSi', hik]
    · have hik' : (i == k) = false := by simpa using hik
      have hjk' : (j == k) = false := by simpa using hjk
      simp only [if_neg hik, if_neg hjk]
      rw [hR i j hi hj]
      simp [repMat, hik', hjk']

theorem repMat_congr (A : Mat) (S S' : Nat → Bool) (h : ∀ i, S i = S' i) : repMat A S = repMat A S' := by
  have : S = S' := funext h
  rw [this]

/-- the `H2` loop as written represents `A` on the enlarged passive set -/
theorem addRows_repMat (n : Nat) (A : Mat) (hsym : ∀ i j, i < n → j < n → A i j = A j i) :
    ∀ (H2 : List Nat) (S : Nat → Bool) (R : Mat), (∀ k ∈ H2, k < n) → H2.Nodup → (∀ k ∈ H2, S k = false) →
      AgreeOn n R (repMat A S) →
      ∃ R', addRows n A S H2 R = some R' ∧ AgreeOn n R' (repMat A (fun i => S i || H2.contains i)) := by
  intro H2
  induction H2 with
  | nil =>
    intro S R _ _ _ hR
    refine ⟨R, rfl, ?_⟩
    have : (fun i => S i || ([] : List Nat).contains i) = S := by funext i; simp
    rw [this]; exact hR
  | cons k ks ih =>
    intro S R hlt hnd hS hR
    obtain ⟨R1, h1, hA1⟩ := rowAdd_repMat n A S k R (hS k (List.mem_cons_self ..)) hsym hR (hlt k (List.mem_cons_self ..))
    have hnd' := List.nodup_cons.mp hnd
    obtain ⟨R2, h2, hA2⟩ := ih (fun i => S i || i == k) R1 (fun q hq => hlt q (List.mem_cons_of_mem _ hq)) hnd'.2
      (fun q hq => by
        have hqk : ¬ q = k := fun h => hnd'.1 (h ▸ hq)
        simp [hS q (List.mem_cons_of_mem _ hq), hqk]) hA1
    refine ⟨R2, ?_, ?_⟩
    · simp only [addRows, h1]; exact h2
    · rw [repMat_congr A (fun i => S i || (k :: ks).contains i) (fun i => (S i || i == k) || ks.contains i)
        (fun i => by
          by_cases hik : i = k
          · simp [hik]
          · have hb : (i == k) = false := by simpa using hik
            simp [hik, hb])]
      exact hA2

/-- the seeded variant breaks the precondition of the second `cholmod_rowadd` as soon as the first two rows are coupled -/
theorem addRowsSettled_coupled (n : Nat) (A : Mat) (Sfinal : Nat → Bool) (k1 k2 : Nat) (rest : List Nat) (R : Mat)
    (h1 : k1 < n) (hne : k1 ≠ k2) (hS2 : Sfinal k2 = true) (hc : A k2 k1 ≠ 0) :
    addRowsSettled n A Sfinal (k1 :: k2 :: rest) R = none := by
  unfold addRowsSettled
  cases hfirst : rowAdd n k1 (getColumn A Sfinal k1) R with
  | none => rfl
  | some R1 =>
    simp only
    have hR1 : R1 = fun i j => if i = k1 then getColumn A Sfinal k1 j else if j = k1 then getColumn A Sfinal k1 i else R i j := by
      unfold rowAdd at hfirst
      split at hfirst
      · exact (Option.some.inj hfirst).symm
      · cases hfirst
    have hentry : R1 k2 k1 = A k2 k1 := by
      rw [hR1]
      have : ¬ k2 = k1 := fun h => hne h.symm
      simp [this, getColumn, hS2]
    have hfail : ((R1 k2 k2 == 1) && ((List.range n).all fun j => j == k2 || (R1 k2 j == 0 && R1 j k2 == 0))) = false := by
      rw [Bool.and_eq_false_iff]
      right
      rw [Bool.eq_false_iff]
      intro hall
      rw [List.all_eq_true] at hall
      have := hall k1 (List.mem_range.mpr h1)
      rw [hentry] at this
      have hb : (k1 == k2) = false := by simpa using hne
      simp [hb, hc] at this
    unfold addRowsSettled
    unfold rowAdd
    rw [if_neg (by rw [hfail]; simp)]

/-- the exact solve on a passive set reads the matrix only on that set -/
theorem solveOn_congr (n : Nat) (A A' : Mat) (b : Vec) (S : List Nat) (h : ∀ r ∈ S, ∀ c ∈ S, A r c = A' r c) :
    solveOn n A b S = solveOn n A' b S := by
  unfold solveOn
  have : (S.map fun r => ((S.map fun c => A r c) ++ [b r]).toArray) = (S.map fun r => ((S.map fun c => A' r c) ++ [b r]).toArray) := by
    apply List.map_congr_left
    intro r hr
    have : (S.map fun c => A r c) = (S.map fun c => A' r c) := List.map_congr_left fun c hc => h r hr c hc
    rw [this]
  rw [this]

end PsV.Nnls
