import Mathlib.Algebra.Order.Field.Basic
import Mathlib.Algebra.Order.Field.Power
import Mathlib.Algebra.Order.AbsoluteValue.Basic
import Mathlib.Tactic.Ring
import Mathlib.Tactic.Linarith
import Mathlib.Tactic.Positivity
import Mathlib.Tactic.FieldSimp
/-!
# Relative-error calculus (Higham's ⟨k⟩ counters) over an ordered field

`RelErr ε k a b` : `b = a · r` with `(1+ε)^(-k) ≤ r ≤ (1+ε)^k` — "`b` is `a` perturbed by at most `k`
roundings of relative size `ε`".  The standard model of floating-point arithmetic without underflow
and overflow is `fl(a ∘ b) = (a ∘ b)(1+δ)`, `|δ| ≤ u`, which is `RelErr ε 1` for `ε = u/(1-u)`.
-/
namespace PsV
variable {F : Type} [Field F] [LinearOrder F] [IsStrictOrderedRing F]

def RelErr (ε : F) (k : Nat) (a b : F) : Prop :=
  ∃ r : F, b = a * r ∧ ((1 + ε) ^ k)⁻¹ ≤ r ∧ r ≤ (1 + ε) ^ k

/-- `g k = (1+ε)^k − 1`, the absolute-error factor that belongs to `k` roundings -/
def gfac (ε : F) (k : Nat) : F := (1 + ε) ^ k - 1

section
variable {ε : F} (hε : 0 ≤ ε)
include hε

theorem one_le_pow_eps (k : Nat) : (1 : F) ≤ (1 + ε) ^ k := one_le_pow₀ (by linarith)

theorem pow_eps_pos (k : Nat) : (0 : F) < (1 + ε) ^ k := lt_of_lt_of_le one_pos (one_le_pow_eps hε k)

theorem pow_eps_mono {k k' : Nat} (h : k ≤ k') : (1 + ε) ^ k ≤ (1 + ε) ^ k' :=
  pow_le_pow_right₀ (by linarith) h

theorem gfac_nonneg (k : Nat) : 0 ≤ gfac ε k := by
  unfold gfac; linarith [one_le_pow_eps hε k]

theorem gfac_mono {k k' : Nat} (h : k ≤ k') : gfac ε k ≤ gfac ε k' := by
  unfold gfac; linarith [pow_eps_mono hε h]

theorem RelErr.refl (a : F) : RelErr ε 0 a a := ⟨1, by simp, by simp, by simp⟩

theorem RelErr.zero_left {k : Nat} {b : F} (h : RelErr ε k 0 b) : b = 0 := by
  obtain ⟨r, rfl, _, _⟩ := h; simp

theorem RelErr.of_zero (k : Nat) : RelErr ε k (0 : F) 0 :=
  ⟨1, by simp, inv_le_one_of_one_le₀ (one_le_pow_eps hε k), one_le_pow_eps hε k⟩

theorem RelErr.factor_pos {k : Nat} {r : F} (h : ((1 + ε) ^ k)⁻¹ ≤ r) : 0 < r :=
  lt_of_lt_of_le (inv_pos.2 (pow_eps_pos hε k)) h

theorem RelErr.mono {k k' : Nat} {a b : F} (h : RelErr ε k a b) (hk : k ≤ k') : RelErr ε k' a b := by
  obtain ⟨r, e, h1, h2⟩ := h
  refine ⟨r, e, le_trans ?_ h1, le_trans h2 (pow_eps_mono hε hk)⟩
  exact inv_anti₀ (pow_eps_pos hε k) (pow_eps_mono hε hk)

theorem RelErr.nonneg {k : Nat} {a b : F} (h : RelErr ε k a b) (ha : 0 ≤ a) : 0 ≤ b := by
  obtain ⟨r, rfl, h1, _⟩ := h
  exact mul_nonneg ha (le_of_lt (RelErr.factor_pos hε h1))

theorem RelErr.mul {k k' : Nat} {a b c d : F} (h : RelErr ε k a b) (h' : RelErr ε k' c d) :
    RelErr ε (k + k') (a * c) (b * d) := by
  obtain ⟨r, rfl, h1, h2⟩ := h
  obtain ⟨s, rfl, h3, h4⟩ := h'
  have hr := RelErr.factor_pos hε h1
  have hs := RelErr.factor_pos hε h3
  refine ⟨r * s, by ring, ?_, ?_⟩
  · rw [pow_add, mul_inv]
    exact mul_le_mul h1 h3 (le_of_lt (inv_pos.2 (pow_eps_pos hε k'))) (le_of_lt hr)
  · rw [pow_add]
    exact mul_le_mul h2 h4 (le_of_lt hs) (le_of_lt (pow_eps_pos hε k))

theorem RelErr.inv {k : Nat} {a b : F} (h : RelErr ε k a b) : RelErr ε k a⁻¹ b⁻¹ := by
  obtain ⟨r, rfl, h1, h2⟩ := h
  have hr := RelErr.factor_pos hε h1
  refine ⟨r⁻¹, by rw [mul_inv], ?_, ?_⟩
  · exact inv_anti₀ hr h2
  · rw [← inv_inv ((1 + ε) ^ k)]
    exact inv_anti₀ (inv_pos.2 (pow_eps_pos hε k)) h1

theorem RelErr.div {k k' : Nat} {a b c d : F} (h : RelErr ε k a b) (h' : RelErr ε k' c d) :
    RelErr ε (k + k') (a / c) (b / d) := by
  rw [div_eq_mul_inv, div_eq_mul_inv]
  exact RelErr.mul hε h (RelErr.inv hε h')

/-- sums of non-negative quantities keep the relative error (no cancellation) -/
theorem RelErr.add_nonneg {k : Nat} {a b c d : F} (h : RelErr ε k a b) (h' : RelErr ε k c d)
    (ha : 0 ≤ a) (hc : 0 ≤ c) : RelErr ε k (a + c) (b + d) := by
  obtain ⟨r, rfl, h1, h2⟩ := h
  obtain ⟨s, rfl, h3, h4⟩ := h'
  rcases eq_or_lt_of_le (_root_.add_nonneg ha hc) with h0 | hpos
  · have ha0 : a = 0 := by linarith
    have hc0 : c = 0 := by linarith
    subst ha0; subst hc0
    simpa using RelErr.of_zero hε k
  · refine ⟨(a * r + c * s) / (a + c), by field_simp, ?_, ?_⟩
    · rw [le_div_iff₀ hpos]
      nlinarith [mul_le_mul_of_nonneg_left h1 ha, mul_le_mul_of_nonneg_left h3 hc]
    · rw [div_le_iff₀ hpos]
      nlinarith [mul_le_mul_of_nonneg_left h2 ha, mul_le_mul_of_nonneg_left h4 hc]

/-- one more rounding -/
theorem RelErr.round {fl : F → F} (hfl : ∀ a, RelErr ε 1 a (fl a)) {k : Nat} {a b : F} (h : RelErr ε k a b) :
    RelErr ε (k + 1) a (fl b) := by
  obtain ⟨r, rfl, h1, h2⟩ := h
  obtain ⟨s, e, h3, h4⟩ := hfl (a * r)
  have := RelErr.mul hε (⟨r, rfl, h1, h2⟩ : RelErr ε k a (a * r)) (⟨s, rfl, h3, h4⟩ : RelErr ε 1 1 (1 * s))
  rw [e]
  simpa [mul_assoc] using this

/-- the factor is within `gfac` of one -/
theorem RelErr.abs_factor {k : Nat} {r : F} (h1 : ((1 + ε) ^ k)⁻¹ ≤ r) (h2 : r ≤ (1 + ε) ^ k) :
    |r - 1| ≤ gfac ε k := by
  unfold gfac
  have hp := pow_eps_pos hε k
  have h1' : 1 ≤ (1 + ε) ^ k := one_le_pow_eps hε k
  rw [abs_le]
  constructor
  · -- 1 - r ≤ 1 - p⁻¹ ≤ p - 1
    have : 1 - ((1 + ε) ^ k)⁻¹ ≤ (1 + ε) ^ k - 1 := by
      have hinv : ((1 + ε) ^ k)⁻¹ * (1 + ε) ^ k = 1 := inv_mul_cancel₀ (ne_of_gt hp)
      have hi0 : 0 < ((1 + ε) ^ k)⁻¹ := inv_pos.2 hp
      nlinarith [mul_self_nonneg ((1 + ε) ^ k - 1)]
    linarith
  · linarith

theorem RelErr.abs_sub {k : Nat} {a b : F} (h : RelErr ε k a b) : |b - a| ≤ gfac ε k * |a| := by
  obtain ⟨r, rfl, h1, h2⟩ := h
  have : a * r - a = a * (r - 1) := by ring
  rw [this, abs_mul, mul_comm]
  exact mul_le_mul_of_nonneg_right (RelErr.abs_factor hε h1 h2) (abs_nonneg a)

end
end PsV
