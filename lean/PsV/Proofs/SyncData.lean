import PsV.Model.SyncData
import PsV.Proofs.Sync
/-! Helper lemmas for the data layer of C12: the record-level scan is the image of the index-level scan, the data
invariant and its preservation, the evaluation counters. -/
namespace PsV.Sync

variable {D R : Type}

/-! ## record-level scan = image of the index-level scan -/
def mapAcc (f : Nat → R) (acc : Acc) : AccD R := (acc.1.map f, acc.2.map fun p => (p.1.map f, p.2))

@[simp] theorem mapAcc_isSome (f : Nat → R) (acc : Acc) : (mapAcc f acc).2.isSome = acc.2.isSome := by
  cases h : acc.2 <;> simp [mapAcc, h]

theorem selStepD_map (lt : R → R → Bool) (f : Nat → R) (m : Nat) (acc : Acc) (k : Nat) (v : Option Nat) :
    selStepD lt m (mapAcc f acc) k (v.map f) = mapAcc f (selStep (fun a b => lt (f a) (f b)) m acc k v) := by
  obtain ⟨b, ch⟩ := acc
  cases ch with
  | some p => simp [selStepD, selStep, mapAcc]
  | none =>
    by_cases hk : k = 0
    · simp [selStepD, selStep, mapAcc, hk]
    · cases v <;> cases b <;> simp [selStepD, selStep, mapAcc, hk] <;> split <;> simp

theorem foldl_selStepD_map (lt : R → R → Bool) (f : Nat → R) (m : Nat) (idx : Nat → Nat) (out : Nat → Option R)
    (val : Nat → Option Nat) (l : List Nat) (h : ∀ j, j ∈ l → out j = (val j).map f) :
    ∀ acc, l.foldl (fun a j => selStepD lt m a (idx j) (out j)) (mapAcc f acc)
      = mapAcc f (l.foldl (fun a j => selStep (fun a b => lt (f a) (f b)) m a (idx j) (val j)) acc) := by
  induction l with
  | nil => intro acc; rfl
  | cons j rest ih =>
    intro acc
    simp only [List.foldl_cons]
    rw [h j (List.mem_cons_self ..), selStepD_map]
    exact ih (fun j' hj' => h j' (List.mem_cons_of_mem _ hj')) _

theorem scanD_map (P : DProb D R) (out : Nat → Option R) (val : Nat → Option Nat) (i : Nat) (acc : Acc)
    (h : ∀ j, out j = (val j).map (P.num.trial P.x0)) :
    scanD P out i (mapAcc (P.num.trial P.x0) acc) = mapAcc (P.num.trial P.x0) (scan P.cfg val i acc) :=
  foldl_selStepD_map P.num.lt (P.num.trial P.x0) P.m (fun j => i * P.n + j) out val _ (fun j _ => h j) acc

theorem flatD_map (P : DProb D R) (K : Nat) :
    flatD P K = mapAcc (P.num.trial P.x0) (flat P.cfg.less P.m K) := by
  have := foldl_selStepD_map P.num.lt (P.num.trial P.x0) P.m (fun k => k)
    (fun k => some (P.num.trial P.x0 k)) (fun k => some k) (List.range K) (fun j _ => rfl) (none, none)
  exact this

/-! ## frame lemmas for the control steps -/
theorem stepC_frame (c : Cfg) (s s' : State) (hs : stepC c s = some s') (hp : s.cpc ≠ .unlockB) :
    s'.base = s.base ∧ s'.chosen = s.chosen ∧ s'.val = s.val ∧ s'.blk = s.blk := by
  unfold stepC at hs
  split at hs <;> (try split at hs) <;> simp at hs <;> (try subst hs) <;> simp_all

theorem stepC_aidx (c : Cfg) (s s' : State) (hs : stepC c s = some s') (hp : s.cpc ≠ .lockA) :
    s'.aidx = s.aidx := by
  unfold stepC at hs
  split at hs <;> (try split at hs) <;> simp at hs <;> (try subst hs) <;> simp_all

theorem stepC_lock2 (c : Cfg) (s s' : State) (hs : stepC c s = some s') (w : Nat) (hw : s'.wpc w = .lock2) :
    s.wpc w = .lock2 := by
  unfold stepC at hs
  split at hs <;> (try split at hs) <;> simp at hs <;> subst hs <;> simp_all [upd, wakeAll] <;> grind

theorem stepC_unlockB (c : Cfg) (s s' : State) (hs : stepC c s = some s') (hp : s.cpc = .unlockB) :
    (s'.base, s'.chosen) = scan c s.val s.blk (s.base, s.chosen) ∧ s'.val = s.val ∧ s'.aidx = s.aidx ∧
      s'.wpc = s.wpc ∧ s'.cpc = loopHead c (s.blk + 1) (scan c s.val s.blk (s.base, s.chosen)).2.isSome := by
  simp only [stepC, hp] at hs
  injection hs with hs; subst hs
  simp

theorem stepW_frame (s s' : State) (w : Nat) (hs : stepW s w = some s') :
    s'.base = s.base ∧ s'.chosen = s.chosen ∧ s'.aidx = s.aidx ∧
      s'.val = (if s.wpc w = .lock2 then upd s.val w (some (s.aidx w)) else s.val) := by
  unfold stepW at hs
  split at hs <;> (try split at hs) <;> simp at hs <;> (try subst hs) <;> simp_all

theorem stepW_lock2 (s s' : State) (w : Nat) (hs : stepW s w = some s') (k : Nat) (hk : s'.wpc k = .lock2) :
    (k = w ∧ s.wpc w = .hold ∧ s.st w = .run) ∨ (k ≠ w ∧ s.wpc k = .lock2) := by
  unfold stepW at hs
  split at hs <;> (try split at hs) <;> simp at hs <;> subst hs <;> simp_all [upd, wakeAll] <;> grind

theorem spur_frame (c : Cfg) (s s' : State) (t : Nat) (hs : spur? c s t = some s') :
    s'.base = s.base ∧ s'.chosen = s.chosen ∧ s'.aidx = s.aidx ∧ s'.val = s.val ∧
      ∀ k, s'.wpc k = .lock2 → s.wpc k = .lock2 := by
  unfold spur? at hs
  split at hs <;> split at hs <;> simp at hs <;> subst hs <;> simp_all [upd] <;> grind

/-! ## the data invariant -/
structure DInv (P : DProb D R) (d : DState D R) : Prop where
  accRel : (d.res, d.pick) = mapAcc (P.num.trial P.x0) (d.ctl.base, d.ctl.chosen)
  outRel : ∀ w, d.out w = (d.ctl.val w).map (P.num.trial P.x0)
  rdRel : ∀ w, d.ctl.wpc w = .lock2 → d.rdx w = P.x0 ∧ d.rda w = d.ctl.aidx w
  xRel : d.x = copyOut P P.x0 none d.pick

theorem dinv_init (P : DProb D R) : DInv P (initD P) := by
  constructor <;> simp [initD, init, mapAcc, copyOut]

theorem pick_none_of (P : DProb D R) (d : DState D R) (h : DInv P d) (hc : d.ctl.chosen = none) :
    d.pick = none ∧ d.x = P.x0 := by
  have h1 := h.accRel
  rw [hc] at h1
  have h2 : d.pick = none := by simpa [mapAcc] using congrArg Prod.snd h1
  refine ⟨h2, ?_⟩
  rw [h.xRel, h2]; rfl

/-- coordinator steps: the control part is exactly the index-level step, and the data invariant is preserved -/
theorem dinv_stepCD (P : DProb D R) (hn : 0 < P.n) (d d' : DState D R) (hi : Inv P.cfg d.ctl) (h : DInv P d)
    (hs : stepCD P d = some d') : stepC P.cfg d.ctl = some d'.ctl ∧ DInv P d' := by
  unfold stepCD at hs
  cases hsc : stepC P.cfg d.ctl with
  | none => simp [hsc] at hs
  | some s' =>
    simp only [hsc] at hs
    by_cases hp : d.ctl.cpc = .unlockB
    · simp only [hp] at hs
      injection hs with hs
      obtain ⟨hacc, hval, haidx, hwpc, hcpc⟩ := stepC_unlockB P.cfg d.ctl s' hsc hp
      have hscan : scanD P d.out d.ctl.blk (d.res, d.pick)
          = mapAcc (P.num.trial P.x0) (scan P.cfg d.ctl.val d.ctl.blk (d.ctl.base, d.ctl.chosen)) := by
        rw [h.accRel]; exact scanD_map P d.out d.ctl.val d.ctl.blk _ h.outRel
      have hch : d.ctl.chosen = none := (hi.accLoop (Or.inr (by simp [hp, inBlock]))).2.1
      obtain ⟨hpn, hx0⟩ := pick_none_of P d h hch
      have hctl : ({ s' with cpc := (loopHead P.cfg (d.ctl.blk + 1) (scanD P d.out d.ctl.blk (d.res, d.pick)).2.isSome) } : State) = s' := by
        rw [hscan, mapAcc_isSome, ← hcpc]
      rw [hctl] at hs
      subst hs
      refine ⟨rfl, ?_, ?_, ?_, ?_⟩
      · show ((scanD P d.out d.ctl.blk (d.res, d.pick)).1, (scanD P d.out d.ctl.blk (d.res, d.pick)).2) = _
        rw [hscan, hacc]
      · intro w; show d.out w = _; rw [hval]; exact h.outRel w
      · intro w hw
        show d.rdx w = P.x0 ∧ d.rda w = s'.aidx w
        rw [haidx]; rw [hwpc] at hw; exact h.rdRel w hw
      · show copyOut P d.x d.pick _ = copyOut P P.x0 none _
        rw [hpn, hx0]
    · have hs' : some ({ d with ctl := s' } : DState D R) = some d' := by
        cases hq : d.ctl.cpc <;> simp_all
      injection hs' with hs'
      subst hs'
      obtain ⟨hb, hc, hv, _⟩ := stepC_frame P.cfg d.ctl s' hsc hp
      refine ⟨rfl, ?_, ?_, ?_, h.xRel⟩
      · show (d.res, d.pick) = mapAcc _ (s'.base, s'.chosen); rw [hb, hc]; exact h.accRel
      · intro w; show d.out w = _; rw [hv]; exact h.outRel w
      · intro w hw
        show d.rdx w = P.x0 ∧ d.rda w = s'.aidx w
        have hw0 := stepC_lock2 P.cfg d.ctl s' hsc w hw
        by_cases hA : d.ctl.cpc = .lockA
        · -- no worker is inside its compute region when the coordinator re-assigns the α pointers
          have hrun := hi.lock2Run w hw0
          have := (hi.runBlock w hrun).1
          simp [hA, inBlock] at this
        · rw [stepC_aidx P.cfg d.ctl s' hsc hA]; exact h.rdRel w hw0

/-- worker steps -/
theorem dinv_stepWD (P : DProb D R) (d d' : DState D R) (w : Nat) (hi : Inv P.cfg d.ctl) (h : DInv P d)
    (hs : stepWD P d w = some d') : stepW d.ctl w = some d'.ctl ∧ DInv P d' := by
  unfold stepWD at hs
  cases hsw : stepW d.ctl w with
  | none => simp [hsw] at hs
  | some s' =>
    simp only [hsw] at hs
    obtain ⟨hb, hc, ha, hv⟩ := stepW_frame d.ctl s' w hsw
    by_cases hp2 : d.ctl.wpc w = .lock2
    · -- the compute region closes
      simp only [hp2] at hs
      injection hs with hs; subst hs
      obtain ⟨hrx, hra⟩ := h.rdRel w hp2
      refine ⟨rfl, ?_, ?_, ?_, h.xRel⟩
      · show (d.res, d.pick) = mapAcc _ (s'.base, s'.chosen); rw [hb, hc]; exact h.accRel
      · intro k
        show upd d.out w (some (P.num.trial (d.rdx w) (d.rda w))) k = (s'.val k).map _
        rw [hv, if_pos hp2, hrx, hra]
        by_cases hk : k = w
        · simp [upd, hk]
        · simp only [upd, hk, if_false]; exact h.outRel k
      · intro k hk
        show d.rdx k = P.x0 ∧ d.rda k = s'.aidx k
        rcases stepW_lock2 d.ctl s' w hsw k hk with ⟨_, hh, _⟩ | ⟨_, hk2⟩
        · rw [hp2] at hh; cases hh
        · rw [ha]; exact h.rdRel k hk2
    · rw [if_neg hp2] at hv
      by_cases hopen : d.ctl.wpc w = .hold ∧ d.ctl.st w = .run
      · -- the compute region opens: x still has its entry value
        simp only [hopen.1, hopen.2] at hs
        injection hs with hs; subst hs
        have hblk := (hi.runBlock w hopen.2).1
        have hch : d.ctl.chosen = none := (hi.accLoop (Or.inr hblk)).2.1
        obtain ⟨_, hx0⟩ := pick_none_of P d h hch
        refine ⟨rfl, ?_, ?_, ?_, h.xRel⟩
        · show (d.res, d.pick) = mapAcc _ (s'.base, s'.chosen); rw [hb, hc]; exact h.accRel
        · intro k; show d.out k = _; rw [hv]; exact h.outRel k
        · intro k hk
          show upd d.rdx w d.x k = P.x0 ∧ upd d.rda w (d.ctl.aidx w) k = s'.aidx k
          rw [ha]
          by_cases hkw : k = w
          · simp [upd, hkw, hx0]
          · simp only [upd, hkw, if_false]
            rcases stepW_lock2 d.ctl s' w hsw k hk with ⟨hh, _, _⟩ | ⟨_, hk2⟩
            · exact absurd hh hkw
            · exact h.rdRel k hk2
      · have hs' : some ({ d with ctl := s' } : DState D R) = some d' := by
          cases hq : d.ctl.wpc w <;> cases hq2 : d.ctl.st w <;> simp_all
        injection hs' with hs'; subst hs'
        refine ⟨rfl, ?_, ?_, ?_, h.xRel⟩
        · show (d.res, d.pick) = mapAcc _ (s'.base, s'.chosen); rw [hb, hc]; exact h.accRel
        · intro k; show d.out k = _; rw [hv]; exact h.outRel k
        · intro k hk
          show d.rdx k = P.x0 ∧ d.rda k = s'.aidx k
          rw [ha]
          rcases stepW_lock2 d.ctl s' w hsw k hk with ⟨_, h1, h2⟩ | ⟨_, hk2⟩
          · exact absurd ⟨h1, h2⟩ hopen
          · exact h.rdRel k hk2

theorem dinv_spurD (P : DProb D R) (d d' : DState D R) (t : Nat) (h : DInv P d)
    (hs : spurD? P d t = some d') : spur? P.cfg d.ctl t = some d'.ctl ∧ DInv P d' := by
  unfold spurD? at hs
  cases hsp : spur? P.cfg d.ctl t with
  | none => simp [hsp] at hs
  | some s' =>
    simp only [hsp, Option.map_some] at hs
    injection hs with hs; subst hs
    obtain ⟨hb, hc, ha, hv, hl⟩ := spur_frame P.cfg d.ctl s' t hsp
    refine ⟨rfl, ?_, ?_, ?_, h.xRel⟩
    · show (d.res, d.pick) = mapAcc _ (s'.base, s'.chosen); rw [hb, hc]; exact h.accRel
    · intro k; show d.out k = _; rw [hv]; exact h.outRel k
    · intro k hk
      show d.rdx k = P.x0 ∧ d.rda k = s'.aidx k
      rw [ha]; exact h.rdRel k (hl k hk)

theorem dinv_stepD (P : DProb D R) (hn : 0 < P.n) (d d' : DState D R) (t : Nat) (hi : Inv P.cfg d.ctl)
    (h : DInv P d) (hs : stepD? P d t = some d') : step? P.cfg d.ctl t = some d'.ctl ∧ DInv P d' := by
  cases t with
  | zero => exact dinv_stepCD P hn d d' hi h hs
  | succ w =>
    simp only [stepD?] at hs
    split at hs
    · rename_i hw
      have := dinv_stepWD P d d' w hi h hs
      refine ⟨?_, this.2⟩
      simp only [step?]
      rw [if_pos (show w < P.cfg.n from hw)]; exact this.1
    · cases hs

/-! ## reachability of the data model; refinement -/
inductive DReach (P : DProb D R) : DState D R → Prop
  | init : DReach P (initD P)
  | step {d d' : DState D R} (t : Nat) : DReach P d → stepD? P d t = some d' → DReach P d'
  | spur {d d' : DState D R} (t : Nat) : DReach P d → spurD? P d t = some d' → DReach P d'

theorem dreach_inv (P : DProb D R) (hn : 0 < P.n) {d : DState D R} (h : DReach P d) :
    Reach P.cfg d.ctl ∧ DInv P d := by
  induction h with
  | init => exact ⟨Reach.init, dinv_init P⟩
  | step t _ hs ih =>
    have := dinv_stepD P hn _ _ t (reach_inv P.cfg hn ih.1) ih.2 hs
    exact ⟨Reach.step t ih.1 this.1, this.2⟩
  | spur t _ hs ih =>
    have := dinv_spurD P _ _ t ih.2 hs
    exact ⟨Reach.spur t ih.1 this.1, this.2⟩

theorem dreach_runSchedD (P : DProb D R) : ∀ (sched : List (Nat × Bool)) (d d' : DState D R),
    DReach P d → runSchedD P d sched = some d' → DReach P d' := by
  intro sched
  induction sched with
  | nil => intro d d' h hs; simp [runSchedD] at hs; subst hs; exact h
  | cons a rest ih =>
    intro d d' h hs
    obtain ⟨t, sp⟩ := a
    simp only [runSchedD] at hs
    cases sp with
    | true =>
      simp only [if_true] at hs
      cases h1 : spurD? P d t with
      | none => simp [h1] at hs
      | some d1 => simp only [h1] at hs; exact ih d1 d' (DReach.spur t h h1) hs
    | false =>
      simp only [Bool.false_eq_true, if_false] at hs
      cases h1 : stepD? P d t with
      | none => simp [h1] at hs
      | some d1 => simp only [h1] at hs; exact ih d1 d' (DReach.step t h h1) hs

end PsV.Sync

namespace PsV.Sync
variable {D R : Type}

/-! ## evaluation counters: every trial index of a processed block is evaluated exactly once -/
/-- trial index `k` has been evaluated (its result is published): it belongs to a finished block, or to the current
    block and its worker is back in state WAIT -/
def doneIdx (c : Cfg) (s : State) (k : Nat) : Prop :=
  k < c.m ∧ (k < s.blk * c.n ∨
    (inBlock s.cpc = true ∧ s.blk * c.n ≤ k ∧ k < s.blk * c.n + c.n ∧ s.st (k - s.blk * c.n) = .wait))

theorem active_spec (c : Cfg) (i j : Nat) : j < c.active i ↔ j < c.n ∧ i * c.n + j < c.m := by
  simp only [Cfg.active]; omega

theorem doneIdx_of_frame (c : Cfg) (s s' : State) (k : Nat) (hb : s'.blk = s.blk) (hst : s'.st = s.st)
    (hc : inBlock s'.cpc = inBlock s.cpc) : doneIdx c s' k ↔ doneIdx c s k := by
  simp only [doneIdx, hb, hst, hc]

@[simp] theorem inBlock_loopHead (c : Cfg) (i : Nat) (b : Bool) : inBlock (loopHead c i b) = false := by
  simp only [loopHead]; split <;> rfl

theorem stepC_cntframe (c : Cfg) (s s' : State) (hs : stepC c s = some s')
    (hp : s.cpc ≠ .lockA) (hp2 : s.cpc ≠ .unlockB) (hp3 : s.cpc ≠ .lockT) :
    s'.blk = s.blk ∧ s'.st = s.st ∧ inBlock s'.cpc = inBlock s.cpc := by
  cases hq : s.cpc with
  | lockA => exact absurd hq hp
  | unlockB => exact absurd hq hp2
  | lockT => exact absurd hq hp3
  | _ =>
    simp only [stepC, hq] at hs
    try split at hs
    all_goals first
      | (injection hs with hs; subst hs; refine ⟨rfl, rfl, ?_⟩; dsimp only; (try split) <;> first | exact inBlock_loopHead .. | simp [inBlock])
      | cases hs

theorem doneIdx_stepC (c : Cfg) (s s' : State) (hi : Inv c s) (hs : stepC c s = some s') (k : Nat) :
    doneIdx c s' k ↔ doneIdx c s k := by
  by_cases hA : s.cpc = .lockA
  · simp only [stepC, hA] at hs
    split at hs
    · injection hs with hs; subst hs
      have hib : inBlock s.cpc = false := by rw [hA]; rfl
      unfold doneIdx
      rw [hib]
      dsimp only
      constructor
      · rintro ⟨h1, h2 | ⟨_, h3, h4, h5⟩⟩
        · exact ⟨h1, Or.inl h2⟩
        · have : k - s.blk * c.n < c.active s.blk := (active_spec c _ _).mpr ⟨by omega, by omega⟩
          simp [this] at h5
      · rintro ⟨h1, h2 | ⟨h3, _⟩⟩
        · exact ⟨h1, Or.inl h2⟩
        · cases h3
    · cases hs
  by_cases hB : s.cpc = .unlockB
  · have hall := hi.unlockBAll hB
    simp only [stepC, hB] at hs
    injection hs with hs; subst hs
    have hib : inBlock s.cpc = true := by rw [hB]; rfl
    unfold doneIdx
    show k < c.m ∧ (k < (s.blk + 1) * c.n ∨ (inBlock (loopHead c (s.blk + 1) _) = true ∧ _)) ↔ _
    rw [inBlock_loopHead, hib, Nat.succ_mul]
    constructor
    · rintro ⟨h1, h2 | ⟨h3, _⟩⟩
      · refine ⟨h1, ?_⟩
        by_cases hk : k < s.blk * c.n
        · exact Or.inl hk
        · refine Or.inr ⟨rfl, by omega, h2, ?_⟩
          exact hall _ ((active_spec c _ _).mpr ⟨by omega, by omega⟩)
      · cases h3
    · rintro ⟨h1, h2 | ⟨_, h3, h4, _⟩⟩
      · exact ⟨h1, Or.inl (by omega)⟩
      · exact ⟨h1, Or.inl h4⟩
  by_cases hT : s.cpc = .lockT
  · simp only [stepC, hT] at hs
    split at hs
    · injection hs with hs; subst hs
      simp [doneIdx, hT, inBlock]
    · cases hs
  obtain ⟨h1, h2, h3⟩ := stepC_cntframe c s s' hs hA hB hT
  exact doneIdx_of_frame c s s' k h1 h2 h3

theorem stepW_cntframe (s s' : State) (w : Nat) (hs : stepW s w = some s') (hp : s.wpc w ≠ .lock2) :
    s'.blk = s.blk ∧ s'.st = s.st ∧ inBlock s'.cpc = inBlock s.cpc := by
  unfold stepW at hs
  split at hs <;> (try split at hs) <;> simp at hs <;> (try subst hs) <;> simp_all

theorem stepW_lock2_eq (s s' : State) (w : Nat) (hs : stepW s w = some s') (hp : s.wpc w = .lock2) :
    s'.blk = s.blk ∧ s'.st = upd s.st w .wait ∧ s'.cpc = s.cpc := by
  simp only [stepW, hp] at hs
  split at hs
  · injection hs with hs; subst hs; simp
  · cases hs

theorem spur_cntframe (c : Cfg) (s s' : State) (t : Nat) (hs : spur? c s t = some s') :
    s'.blk = s.blk ∧ s'.st = s.st ∧ inBlock s'.cpc = inBlock s.cpc := by
  unfold spur? at hs
  split at hs <;> split at hs <;> simp at hs <;> subst hs <;> simp_all [inBlock]

/-- the worker that closes its compute region publishes exactly the index `blk*n + w`, which was not done before -/
theorem doneIdx_lock2 (c : Cfg) (s s' : State) (w : Nat) (hi : Inv c s) (hs : stepW s w = some s')
    (hp : s.wpc w = .lock2) :
    s.aidx w = s.blk * c.n + w ∧ ¬ doneIdx c s (s.blk * c.n + w) ∧
      ∀ k, (doneIdx c s' k ↔ (doneIdx c s k ∨ k = s.blk * c.n + w)) := by
  have hrun := hi.lock2Run w hp
  obtain ⟨hblk, hact⟩ := hi.runBlock w hrun
  have hai := (hi.blockVals hblk w hact).1
  obtain ⟨hwn, hwm⟩ := (active_spec c _ _).mp hact
  obtain ⟨h1, h2, h3⟩ := stepW_lock2_eq s s' w hs hp
  refine ⟨hai, ?_, ?_⟩
  · simp only [doneIdx, Nat.add_sub_cancel_left, hrun]
    rintro ⟨_, h | ⟨_, _, _, h⟩⟩
    · omega
    · cases h
  · intro k
    unfold doneIdx
    rw [h1, h2, h3, hblk]
    constructor
    · rintro ⟨a, b | ⟨_, b1, b2, b3⟩⟩
      · exact Or.inl ⟨a, Or.inl b⟩
      · by_cases hk : k - s.blk * c.n = w
        · exact Or.inr (by omega)
        · simp only [upd, hk, if_false] at b3
          exact Or.inl ⟨a, Or.inr ⟨rfl, b1, b2, b3⟩⟩
    · rintro (⟨a, b | ⟨_, b1, b2, b3⟩⟩ | hk)
      · exact ⟨a, Or.inl b⟩
      · refine ⟨a, Or.inr ⟨rfl, b1, b2, ?_⟩⟩
        simp only [upd]; split
        · rfl
        · exact b3
      · subst hk
        refine ⟨hwm, Or.inr ⟨rfl, by omega, by omega, ?_⟩⟩
        simp [upd]

/-- counters: evaluated indices have count 1, all others 0 -/
def CntInv (P : DProb D R) (d : DState D R) : Prop :=
  ∀ k, (doneIdx P.cfg d.ctl k → d.cnt k = 1) ∧ (¬ doneIdx P.cfg d.ctl k → d.cnt k = 0)

theorem cntInv_init (P : DProb D R) : CntInv P (initD P) := by
  intro k
  simp [initD, doneIdx, init, inBlock]

theorem cntInv_stepD (P : DProb D R) (hn : 0 < P.n) (d d' : DState D R) (t : Nat) (hi : Inv P.cfg d.ctl)
    (hd : DInv P d) (h : CntInv P d) (hs : stepD? P d t = some d') : CntInv P d' := by
  have hctl := (dinv_stepD P hn d d' t hi hd hs).1
  cases t with
  | zero =>
    have hcnt : d'.cnt = d.cnt := by
      simp only [stepD?, stepCD] at hs
      cases hsc : stepC P.cfg d.ctl with
      | none => simp [hsc] at hs
      | some s' =>
        simp only [hsc] at hs
        split at hs <;> (injection hs with hs; subst hs; rfl)
    intro k
    rw [hcnt, doneIdx_stepC P.cfg d.ctl d'.ctl hi hctl k]
    exact h k
  | succ w =>
    simp only [step?] at hctl
    simp only [stepD?] at hs
    split at hs
    case isFalse => cases hs
    rename_i hw
    rw [if_pos (show w < P.cfg.n from hw)] at hctl
    by_cases hp : d.ctl.wpc w = .lock2
    · obtain ⟨hai, hnd, hiff⟩ := doneIdx_lock2 P.cfg d.ctl d'.ctl w hi hctl hp
      have hra := (hd.rdRel w hp).2
      have hcnt : d'.cnt = upd d.cnt (d.ctl.blk * P.cfg.n + w) (d.cnt (d.ctl.blk * P.cfg.n + w) + 1) := by
        simp only [stepWD] at hs
        cases hsw : stepW d.ctl w with
        | none => simp [hsw] at hs
        | some s' =>
          simp only [hsw, hp] at hs
          injection hs with hs; subst hs
          show upd d.cnt (d.rda w) (d.cnt (d.rda w) + 1) = _
          rw [hra, hai]
      intro k
      rw [hcnt, hiff k]
      by_cases hk : k = d.ctl.blk * P.cfg.n + w
      · subst hk
        simp only [upd, if_true]
        have := (h (d.ctl.blk * P.cfg.n + w)).2 hnd
        constructor
        · intro _; omega
        · intro hno; exact absurd (Or.inr trivial) hno
      · simp only [upd, hk, if_false, or_false]
        exact h k
    · have hcnt : d'.cnt = d.cnt := by
        simp only [stepWD] at hs
        cases hsw : stepW d.ctl w with
        | none => simp [hsw] at hs
        | some s' =>
          simp only [hsw] at hs
          split at hs
          · injection hs with hs; subst hs; rfl
          · rename_i hq; exact absurd hq hp
          · injection hs with hs; subst hs; rfl
      obtain ⟨h1, h2, h3⟩ := stepW_cntframe d.ctl d'.ctl w hctl hp
      intro k
      rw [hcnt, doneIdx_of_frame P.cfg d.ctl d'.ctl k h1 h2 h3]
      exact h k

theorem cntInv_spurD (P : DProb D R) (d d' : DState D R) (t : Nat) (h : CntInv P d)
    (hs : spurD? P d t = some d') : CntInv P d' := by
  unfold spurD? at hs
  cases hsp : spur? P.cfg d.ctl t with
  | none => simp [hsp] at hs
  | some s' =>
    simp only [hsp, Option.map_some] at hs
    injection hs with hs; subst hs
    obtain ⟨h1, h2, h3⟩ := spur_cntframe P.cfg d.ctl s' t hsp
    intro k
    show (doneIdx P.cfg s' k → d.cnt k = 1) ∧ (¬ doneIdx P.cfg s' k → d.cnt k = 0)
    rw [doneIdx_of_frame P.cfg d.ctl s' k h1 h2 h3]
    exact h k

theorem dreach_cnt (P : DProb D R) (hn : 0 < P.n) {d : DState D R} (h : DReach P d) : CntInv P d := by
  induction h with
  | init => exact cntInv_init P
  | step t hr hs ih =>
    have := dreach_inv P hn hr
    exact cntInv_stepD P hn _ _ t (reach_inv P.cfg hn this.1) this.2 ih hs
  | spur t _ hs ih => exact cntInv_spurD P _ _ t ih hs

end PsV.Sync
