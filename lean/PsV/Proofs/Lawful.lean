import Mathlib.Algebra.Order.Field.Basic
import Mathlib.Algebra.Order.Field.Rat
import Mathlib.Algebra.BigOperators.Ring.Finset
import Mathlib.Tactic.Ring
import Mathlib.Tactic.Linarith
import Mathlib.Tactic.FieldSimp
import PsV.Model.Glam
/-!
# `LawfulArith`: the `Arith` bundle of a model carrier is the arithmetic of an ordered field

Theorems about the numerical models are stated for any carrier with `[Field α] [LinearOrder α]
[IsStrictOrderedRing α] [Arith α] [LawfulArith α]`; `Rat` with the core instance of
`PsV/Model/Arith.lean` — the instance the compiled driver executes — is lawful (all `rfl`).
-/
namespace PsV
open Arith

class LawfulArith (α : Type) [Field α] [LinearOrder α] [A : Arith α] : Prop where
  add_eq : ∀ a b : α, A.add a b = a + b
  sub_eq : ∀ a b : α, A.sub a b = a - b
  mul_eq : ∀ a b : α, A.mul a b = a * b
  div_eq : ∀ a b : α, A.div a b = a / b
  neg_eq : ∀ a : α, A.neg a = -a
  lt_iff : ∀ a b : α, A.lt a b = true ↔ a < b
  le_iff : ∀ a b : α, A.le a b = true ↔ a ≤ b
  zero_eq : (A.zero : α) = 0
  one_eq : (A.one : α) = 1
  ofNat_eq : ∀ n : Nat, (A.ofNat n : α) = (n : α)
  rnd_eq : ∀ a : α, A.rnd a = a

instance : LawfulArith Rat where
  add_eq _ _ := rfl
  sub_eq _ _ := rfl
  mul_eq _ _ := rfl
  div_eq _ _ := rfl
  neg_eq _ := rfl
  lt_iff a b := by simp [Arith.lt]
  le_iff a b := by simp [Arith.le]
  zero_eq := rfl
  one_eq := rfl
  ofNat_eq _ := rfl
  rnd_eq _ := rfl

section
variable {α : Type} [Field α] [LinearOrder α] [A : Arith α] [L : LawfulArith α]

theorem sumTo_eq_sum (n : Nat) (f : Nat → α) : sumTo n f = ∑ i ∈ Finset.range n, f i := by
  induction n with
  | zero => simp [sumTo, L.zero_eq]
  | succ n ih => simp [sumTo, L.add_eq, ih, Finset.sum_range_succ]

theorem isZero_iff (a : α) : isZero a = true ↔ a = 0 := by
  unfold isZero
  rw [L.zero_eq]
  constructor
  · intro h
    simp only [Bool.not_eq_true', Bool.or_eq_false_iff] at h
    have h1 : ¬ a < 0 := fun hh => by have := (L.lt_iff a 0).mpr hh; simp [this] at h
    have h2 : ¬ 0 < a := fun hh => by have := (L.lt_iff 0 a).mpr hh; simp [this] at h
    exact le_antisymm (not_lt.mp h2) (not_lt.mp h1)
  · intro h
    subst h
    have h1 : A.lt (0:α) 0 = false := by
      cases hh : A.lt (0:α) 0 with
      | false => rfl
      | true => exact absurd ((L.lt_iff 0 0).mp hh) (lt_irrefl _)
    simp [h1]
end

theorem tabGet_tabOf {α : Type} (n m : Nat) (f : Nat → Nat → α) : tabGet (tabOf n m f) f = f := by
  funext i j
  unfold tabGet tabOf
  split
  · rename_i row hrow
    split
    · rename_i v hv
      rw [Array.getElem?_eq_some_iff] at hrow hv
      obtain ⟨hi, hrow⟩ := hrow
      obtain ⟨hj, hv⟩ := hv
      subst hrow
      simp at hv
      exact hv.symm
    · rfl
  · rfl

theorem tabulate2_eq {α : Type} (n m : Nat) (f : Nat → Nat → α) : tabulate2 n m f = f :=
  tabGet_tabOf n m f

end PsV
