import PsV.Proofs.Marsden1d
import PsV.Proofs.PolyReproNd
/-!
# C09: polynomial data of any degree below the penalty order

Per dimension a polynomial `Σ_j a_j x^j` given by its coefficient list; its B-spline coefficient vector is
`k ↦ Σ_j a_j · e_j(t_{k+1..k+order})/C(order, j)` (Marsden's identity); products over the dimensions and sums of
products cover every polynomial whose degree in `x_d` is below the penalty order `p_d`.
-/
namespace PsV
open Arith Finset NormalEq
set_option linter.unusedSectionVars false
set_option linter.unusedVariables false

section
variable {α : Type} [Field α] [LinearOrder α] [IsStrictOrderedRing α] [A : Arith α] [L : LawfulArith α]

/-- `Σ_j a_j x^j` -/
def poly1 (as : List α) (x : α) : α := ∑ j ∈ range as.length, as.getD j 0 * x ^ j

/-- B-spline coefficient vector of `Σ_j a_j x^j` on the knots `t`, order `order` -/
def poly1Coef (t : Int → α) (order : Nat) (as : List α) (k : Nat) : α :=
  ∑ j ∈ range as.length, dualCoef t order j k * as.getD j 0

def polyFnsG : List (Dim α) → List (List α) → List (Nat → α)
  | d :: ds, as :: ass => poly1Coef d.knots d.order as :: polyFnsG ds ass
  | _, _ => []

/-- coefficient vector of `Π_d (Σ_j a_{d,j} x_d^j)` -/
def polyCoefG (ds : List (Dim α)) (ass : List (List α)) (i : Nat) : α := compProd ds (polyFnsG ds ass) i

/-- `Π_d (Σ_j a_{d,j} x_d^j)` -/
def polyValG : List (List α) → List α → α
  | as :: ass, x :: xs => poly1 as x * polyValG ass xs
  | [], [] => 1
  | _, _ => 0

/-- per dimension: degree below the penalty order and at most the spline order; the knot spans the derivative
recurrence divides by are non-degenerate -/
def PolyDegOKG : List (Dim α) → List (List α) → List Nat → Prop
  | d :: ds, as :: ass, p :: ps =>
    (as.length ≤ p ∧ as.length ≤ d.order + 1 ∧
      ∀ m q : Nat, q < p → q < d.order → m + q + 1 < d.naxes →
        d.knots ((m : Int) + q + 1) ≠ d.knots ((m : Int) + d.order + 1))
      ∧ PolyDegOKG ds ass ps
  | _, _, _ => True

theorem poly1Coef_sum (t : Int → α) (x : α) (order n : Nat) (as : List α) (hlen : as.length ≤ order + 1)
    (hmono : ∀ i j : Int, 0 ≤ i → i ≤ j → j ≤ (n : Int) + order → t i ≤ t j)
    (h1 : t (order : Int) ≤ x) (h2 : x < t (n : Int)) :
    ∑ k ∈ range n, Bind (indR t x) t x order (k : Int) * poly1Coef t order as k = poly1 as x := by
  unfold poly1Coef poly1
  simp only [mul_sum]
  rw [sum_comm]
  refine sum_congr rfl (fun j hj => ?_)
  have hj' : j ≤ order := by have := mem_range.1 hj; omega
  rw [← Bind_sum_monomial t x order n j hj' hmono h1 h2, mul_sum]
  exact sum_congr rfl (fun k _ => by ring)

theorem poly1Coef_deriv (t : Int → α) (order p n : Nat) (as : List α) (hp : as.length ≤ p)
    (hlen : as.length ≤ order + 1)
    (hk : ∀ m q : Nat, q < p → q < order → m + q + 1 < n →
        t ((m : Int) + q + 1) ≠ t ((m : Int) + order + 1))
    (k : Nat) (hkn : k < n - p) : derivCoef t order p (poly1Coef t order as) k = 0 := by
  unfold poly1Coef
  rw [derivCoef_lin']
  refine sum_eq_zero (fun j hj => ?_)
  have hj' := mem_range.1 hj
  rw [derivCoef_monomial t order p j k (by omega) (by omega)
    (fun m q h1 h2 h3 h4 => hk m q h2 h4 (by omega)), zero_mul]

theorem dimDerivVanish_polyG (ds : List (Dim α)) (ass : List (List α)) (ps : List Nat)
    (h : PolyDegOKG ds ass ps) : DimDerivVanish ds (polyFnsG ds ass) ps := by
  induction ds generalizing ass ps with
  | nil => cases ass <;> cases ps <;> trivial
  | cons d ds ih =>
    cases ass with
    | nil => cases ps <;> trivial
    | cons as ass =>
      cases ps with
      | nil => trivial
      | cons p ps =>
        obtain ⟨⟨h1, h2, h3⟩, h4⟩ := h
        exact ⟨fun k hk => poly1Coef_deriv d.knots d.order p d.naxes as h1 h2 h3 k hk, ih ass ps h4⟩

theorem derivVanishes_polyCoefG (ds : List (Dim α)) (ass : List (List α)) (ps : List Nat) (N : Nat)
    (hst : StridesRowMajor ds) (h : PolyDegOKG ds ass ps) : DerivVanishes ds ps N (polyCoefG ds ass) :=
  derivVanishes_compProd ds (polyFnsG ds ass) ps N hst (dimDerivVanish_polyG ds ass ps h)

/-- per dimension `k ↦ B_{d,k}(x_d)·c_{d,k}` -/
def mulFnsG : List (Dim α) → List α → List (List α) → List (Nat → α)
  | d :: ds, x :: xs, as :: ass =>
    (fun k => Bind (indR d.knots x) d.knots x d.order (k : Int) * poly1Coef d.knots d.order as k)
      :: mulFnsG ds xs ass
  | _, _, _ => []

theorem basisProd_mul_polyCoefG (ds : List (Dim α)) (xs : List α) (ass : List (List α)) (i : Nat)
    (hx : xs.length = ds.length) (hq : ass.length = ds.length) :
    basisProd ds xs i * polyCoefG ds ass i = compProd ds (mulFnsG ds xs ass) i := by
  unfold polyCoefG
  induction ds generalizing xs ass with
  | nil =>
    have h1 : xs = [] := by simpa using hx
    have h2 : ass = [] := by simpa using hq
    subst h1; subst h2
    simp [basisProd, polyFnsG, mulFnsG, compProd, L.one_eq]
  | cons d ds ih =>
    cases xs with
    | nil => simp at hx
    | cons x xs =>
      cases ass with
      | nil => simp at hq
      | cons as ass =>
        simp only [basisProd, polyFnsG, mulFnsG, compProd, L.mul_eq]
        rw [← ih xs ass (by simpa using hx) (by simpa using hq)]
        ring

theorem dimSums_mulFnsG (ds : List (Dim α)) (xs : List α) (ass : List (List α))
    (hx : xs.length = ds.length) (hq : ass.length = ds.length)
    (hsorted : KnotsSorted ds) (hsup : InSupport ds xs)
    (ho : List.Forall₂ (fun (d : Dim α) (as : List α) => as.length ≤ d.order + 1) ds ass) :
    dimSums ds (mulFnsG ds xs ass) = polyValG ass xs := by
  induction ds generalizing xs ass with
  | nil =>
    have h1 : xs = [] := by simpa using hx
    have h2 : ass = [] := by simpa using hq
    subst h1; subst h2
    rfl
  | cons d ds ih =>
    cases xs with
    | nil => simp at hx
    | cons x xs =>
      cases ass with
      | nil => simp at hq
      | cons as ass =>
        obtain ⟨⟨s1, s2⟩, hsup'⟩ := hsup
        cases ho with
        | cons ho1 ho2 =>
          simp only [mulFnsG, dimSums, polyValG]
          rw [ih xs ass (by simpa using hx) (by simpa using hq)
            (fun d' hd' => hsorted d' (by simp [hd'])) hsup' ho2,
            poly1Coef_sum d.knots x d.order d.naxes as ho1 (hsorted d (by simp)) s1 s2]

theorem ordOK_of_degOKG (ds : List (Dim α)) (ass : List (List α)) (ps : List Nat)
    (hq : ass.length = ds.length) (hp : ps.length = ds.length) (h : PolyDegOKG ds ass ps) :
    List.Forall₂ (fun (d : Dim α) (as : List α) => as.length ≤ d.order + 1) ds ass := by
  induction ds generalizing ass ps with
  | nil =>
    have h2 : ass = [] := by simpa using hq
    subst h2; exact List.Forall₂.nil
  | cons d ds ih =>
    cases ass with
    | nil => simp at hq
    | cons as ass =>
      cases ps with
      | nil => simp at hp
      | cons p ps =>
        obtain ⟨⟨_, h2, _⟩, h4⟩ := h
        exact List.Forall₂.cons h2 (ih ass ps (by simpa using hq) (by simpa using hp) h4)

theorem sum_basisProd_polyCoefG (ds : List (Dim α)) (xs : List α) (ass : List (List α))
    (hst : StridesRowMajor ds) (hx : xs.length = ds.length) (hq : ass.length = ds.length)
    (hsorted : KnotsSorted ds) (hsup : InSupport ds xs)
    (ho : List.Forall₂ (fun (d : Dim α) (as : List α) => as.length ≤ d.order + 1) ds ass) :
    ∑ i ∈ range (natProd (ds.map (·.naxes))), basisProd ds xs i * polyCoefG ds ass i = polyValG ass xs := by
  rw [sum_congr rfl (fun i _ => basisProd_mul_polyCoefG ds xs ass i hx hq), sum_compProd _ _ hst,
    dimSums_mulFnsG ds xs ass hx hq hsorted hsup ho]

/-! ## sums of products = all polynomials -/

def polyValGSum (terms : List (List (List α))) (xs : List α) : α := (terms.map fun ass => polyValG ass xs).sum

def polyCoefGSum (ds : List (Dim α)) (terms : List (List (List α))) (i : Nat) : α :=
  (terms.map fun ass => polyCoefG ds ass i).sum

/-- the data of non-zero weight lie in the fully supported range and are values of the polynomial -/
def PolyDataG (P : FitProblem α) (terms : List (List (List α))) : Prop :=
  ∀ r < P.rows.size, rowW P r ≠ 0 →
    ∃ xs, rowPoint P r = some xs ∧ InSupport P.dims xs ∧ rowZ P r = polyValGSum terms xs

theorem polyDataG_generated (P : FitProblem α) (terms : List (List (List α)))
    (hst : StridesRowMajor P.dims) (hc : P.coords.length = P.dims.length)
    (hp : P.porder.length = P.dims.length) (hsorted : KnotsSorted P.dims)
    (hterms : ∀ ass ∈ terms, ass.length = P.dims.length ∧ PolyDegOKG P.dims ass P.porder)
    (hz : PolyDataG P terms) :
    ∀ r < P.rows.size, rowW P r ≠ 0 →
      rowZ P r = ∑ i ∈ range P.ncoef, designEntry P r i * polyCoefGSum P.dims terms i := by
  intro r hr hw
  obtain ⟨xs, hpt, hsup, hzr⟩ := hz r hr hw
  have hx : xs.length = P.dims.length := by rw [rowPoint_length P r xs hpt, hc]
  unfold polyCoefGSum
  rw [hzr, sum_mul_list_sum]
  unfold polyValGSum
  congr 1
  apply List.map_congr_left
  intro ass hass
  obtain ⟨hq, hdeg⟩ := hterms ass hass
  rw [sum_congr rfl (fun i _ => by rw [designEntry_of_point P r i xs hpt])]
  exact (sum_basisProd_polyCoefG P.dims xs ass hst hx hq hsorted hsup
    (ordOK_of_degOKG P.dims ass P.porder hq hp hdeg)).symm

theorem derivVanishes_polyCoefGSum (ds : List (Dim α)) (terms : List (List (List α))) (ps : List Nat) (N : Nat)
    (hst : StridesRowMajor ds) (h : ∀ ass ∈ terms, PolyDegOKG ds ass ps) :
    DerivVanishes ds ps N (polyCoefGSum ds terms) := by
  unfold polyCoefGSum
  induction terms with
  | nil => exact derivVanishes_zero ds ps N
  | cons ass terms ih =>
    simp only [List.map_cons, List.sum_cons]
    exact derivVanishes_add ds ps N _ _ (derivVanishes_polyCoefG ds ass ps N hst (h ass (by simp)))
      (ih (fun q hq => h q (by simp [hq])))

end

/-! ## a concrete two-dimensional problem over `Rat` with a quadratic

Orders 3 × 1 on the knots `0,…,8` and `0,…,3`: 5 × 2 coefficients, strides (2, 1), fully supported range `[3,5) × [1,2)`.
Data: the polynomial `x²(1 − y) + 3` (degree 2 in `x`, degree 1 in `y`) at four points, one datum of weight 0 off the
polynomial.  Penalty orders (3, 2), `λ = (2, 5)`. -/
section Example

def polyDims2 : List (Dim Rat) := [⟨3, 9, 5, 2, fun i => (i : Rat)⟩, ⟨1, 4, 2, 1, fun i => (i : Rat)⟩]
def polyTerms2 : List (List (List Rat)) := [[[0, 0, 1], [1, -1]], [[3], [1]]]
def polyP2 : FitProblem Rat :=
  { dims := polyDims2, coords := [[3, 7/2, 9/2], [1, 3/2]],
    rows := #[⟨[0, 0], 3, 1⟩, ⟨[1, 1], -25/8, 2⟩, ⟨[2, 0], 3, 1⟩, ⟨[2, 1], -57/8, 1⟩, ⟨[1, 0], 100, 0⟩],
    smooth := [2, 5], porder := [3, 2] }

theorem polyP2_strides : StridesRowMajor polyP2.dims := ⟨rfl, rfl⟩

theorem polyP2_sorted : KnotsSorted polyP2.dims := by
  intro d hd i j _ hij _
  simp only [polyP2, polyDims2, List.mem_cons, List.not_mem_nil, or_false] at hd
  rcases hd with rfl | rfl <;> (show ((i : Int) : Rat) ≤ (j : Int); exact_mod_cast hij)

theorem polyP2_knots (o : Nat) (m q : Nat) (hq : q < o) :
    (((m : Int) + q + 1 : Int) : Rat) ≠ (((m : Int) + o + 1 : Int) : Rat) := by
  intro h
  have : (m : Int) + q + 1 = (m : Int) + o + 1 := by exact_mod_cast h
  omega

theorem polyP2_terms : ∀ ass ∈ polyTerms2, ass.length = polyP2.dims.length ∧ PolyDegOKG polyP2.dims ass polyP2.porder := by
  intro ass h
  simp only [polyTerms2, List.mem_cons, List.not_mem_nil, or_false] at h
  rcases h with rfl | rfl
  · exact ⟨rfl, ⟨by decide, by decide, fun m q h1 h2 _ => polyP2_knots 3 m q h2⟩,
      ⟨by decide, by decide, fun m q h1 h2 _ => polyP2_knots 1 m q h2⟩, trivial⟩
  · exact ⟨rfl, ⟨by decide, by decide, fun m q h1 h2 _ => polyP2_knots 3 m q h2⟩,
      ⟨by decide, by decide, fun m q h1 h2 _ => polyP2_knots 1 m q h2⟩, trivial⟩

theorem polyP2_val (x y : Rat) : polyValGSum polyTerms2 [x, y] = x ^ 2 * (1 - y) + 3 := by
  simp only [polyValGSum, polyTerms2, polyValG, poly1, Finset.sum_range_succ, Finset.sum_range_zero,
    List.map_cons, List.map_nil, List.sum_cons, List.sum_nil, List.length_cons, List.length_nil,
    List.getD_cons_zero, List.getD_cons_succ]
  ring

theorem polyP2_data : PolyDataG polyP2 polyTerms2 := by
  intro r hr hw
  have hr' : r < 5 := hr
  have : r = 0 ∨ r = 1 ∨ r = 2 ∨ r = 3 ∨ r = 4 := by omega
  rcases this with rfl | rfl | rfl | rfl | rfl
  · refine ⟨[3, 1], by decide +kernel, by simp [InSupport, polyP2, polyDims2]; norm_num, ?_⟩
    rw [polyP2_val, show rowZ polyP2 0 = 3 by decide +kernel]; norm_num
  · refine ⟨[7/2, 3/2], by decide +kernel, by simp [InSupport, polyP2, polyDims2]; norm_num, ?_⟩
    rw [polyP2_val, show rowZ polyP2 1 = -25/8 by decide +kernel]; norm_num
  · refine ⟨[9/2, 1], by decide +kernel, by simp [InSupport, polyP2, polyDims2]; norm_num, ?_⟩
    rw [polyP2_val, show rowZ polyP2 2 = 3 by decide +kernel]; norm_num
  · refine ⟨[9/2, 3/2], by decide +kernel, by simp [InSupport, polyP2, polyDims2]; norm_num, ?_⟩
    rw [polyP2_val, show rowZ polyP2 3 = -57/8 by decide +kernel]; norm_num
  · exact absurd (by decide +kernel : rowW polyP2 4 = 0) hw

end Example
end PsV
