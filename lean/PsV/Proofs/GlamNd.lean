import PsV.Proofs.GlamNdConv
import PsV.Proofs.GlamNdFlat
import PsV.Proofs.GlamNdPen
/-!
# C09, any number of dimensions: the system assembled by the model of glam.c is the normal-equation system

Data side (`glam_data_nd`): the chain of `slicemultiply` calls with the boxed bases, the doubling and reordering of the
axes of `F` and `flatten_ndarray_to_sparse` yield `BᵀWB` and `BᵀWz` of the Kronecker design matrix
`B[r, i] = Π_d B_d(i_d, x_{r,d})` — by induction over the dimensions (`glamConvolve_get`, `flattenNd_F_get_nd`).
-/
set_option linter.unusedSectionVars false
set_option linter.unusedSimpArgs false
set_option linter.unusedVariables false
namespace PsV
open Arith Finset

section
variable {α : Type} [Field α] [LinearOrder α] [IsStrictOrderedRing α] [A : Arith α] [L : LawfulArith α]

/-- the list of basis matrices built by `glamfit_complex` -/
def glamBases (dims : List (Dim α)) (coords : List (List α)) (dataRanges : List Nat) : List (Mat α) :=
  (dims.zip (coords.zip dataRanges)).map fun (d, xs, n) => bsplineBasis d.knots d.nknots d.order (xs.take n)

theorem glamBases_cons (d : Dim α) (ds : List (Dim α)) (c : List α) (cs : List (List α)) :
    glamBases (d :: ds) (c :: cs) ((c :: cs).map List.length)
      = bsplineBasis d.knots d.nknots d.order (c.take c.length) :: glamBases ds cs (cs.map List.length) := rfl

theorem glamBases_nrow (dims : List (Dim α)) (coords : List (List α)) (hlen : coords.length = dims.length) :
    List.Forall₂ (fun (b : Mat α) r => b.nrow = r) (glamBases dims coords (coords.map List.length))
      (coords.map List.length) := by
  induction dims generalizing coords with
  | nil =>
    cases coords with
    | nil => exact List.Forall₂.nil
    | cons c cs => simp at hlen
  | cons d ds ih =>
    cases coords with
    | nil => simp at hlen
    | cons c cs =>
      rw [glamBases_cons, List.map_cons]
      refine List.Forall₂.cons ?_ (ih cs (by simpa using hlen))
      simp [bsplineBasis]

theorem glamBases_ncol (dims : List (Dim α)) (coords : List (List α)) (hlen : coords.length = dims.length)
    (hax : ∀ d ∈ dims, d.naxes = d.nknots - d.order - 1) :
    (glamBases dims coords (coords.map List.length)).map (fun b => b.ncol) = dims.map (·.naxes) := by
  induction dims generalizing coords with
  | nil =>
    cases coords with
    | nil => rfl
    | cons c cs => simp at hlen
  | cons d ds ih =>
    cases coords with
    | nil => simp at hlen
    | cons c cs =>
      rw [glamBases_cons, List.map_cons, List.map_cons,
        ih cs (by simpa using hlen) (fun d' hd' => hax d' (by simp [hd']))]
      congr 1
      simp [bsplineBasis, hax d (by simp)]

theorem gridPoint_of_idxIn (coords : List (List α)) (g : List Nat)
    (h : IdxIn g (coords.map List.length)) : ∃ xs, gridPoint coords g = some xs := by
  induction coords generalizing g with
  | nil =>
    have : g = [] := by simpa [idxIn_nil_right] using h
    subst this; exact ⟨[], rfl⟩
  | cons c cs ih =>
    cases g with
    | nil => exact absurd h.1 (by simp)
    | cons g0 gs =>
      rw [List.map_cons, idxIn_cons] at h
      obtain ⟨xs, hxs⟩ := ih gs h.2
      refine ⟨c[g0] :: xs, ?_⟩
      simp [gridPoint, List.getElem?_eq_getElem h.1, hxs]

/-- the product of the basis-matrix entries addressed by a datum's grid index and the index tuple of coefficient `i`
is the design-matrix entry `Π_d B_d(i_d, x_d)` -/
theorem matProd_bases (dims : List (Dim α)) (coords : List (List α)) (g : List Nat) (xs : List α) (i : Nat)
    (hlen : coords.length = dims.length) (hg : gridPoint coords g = some xs) :
    matProd (glamBases dims coords (coords.map List.length)) g (comps dims i) = basisProd dims xs i := by
  induction dims generalizing coords g xs with
  | nil =>
    cases coords with
    | nil =>
      cases g with
      | nil => simp [gridPoint] at hg; subst hg; simp [glamBases, matProd, comps, basisProd, L.one_eq]
      | cons g0 gs => simp [gridPoint] at hg
    | cons c cs => simp at hlen
  | cons d ds ih =>
    cases coords with
    | nil => simp at hlen
    | cons c cs =>
      cases g with
      | nil => simp [gridPoint] at hg
      | cons g0 gs =>
        cases hc : c[g0]? with
        | none => simp [gridPoint, hc] at hg
        | some x =>
          cases hr : gridPoint cs gs with
          | none => simp [gridPoint, hc, hr] at hg
          | some xs' =>
            have hxs : xs = x :: xs' := by
              simp [gridPoint, hc, hr] at hg; exact hg.symm
            subst hxs
            rw [glamBases_cons, ndFlat_comps_cons]
            simp only [matProd, basisProd]
            rw [ih cs gs xs' (by simpa using hlen) hr, basis_val, List.take_length, hc, L.mul_eq]

/-- an entry of the boxed matrices at `[a_d·n_d + b_d]` is the product of the entries at `a` and at `b` -/
theorem matProd_box (bs : List (Mat α)) (e ia ib : List Nat) (ha : ia.length = bs.length)
    (hb : IdxIn ib (bs.map fun b => b.ncol)) :
    matProd (bs.map fun b => box b b) e (pairIdx (bs.map fun b => b.ncol) ia ib)
      = matProd bs e ia * matProd bs e ib := by
  induction bs generalizing e ia ib with
  | nil =>
    have : ib = [] := by simpa [idxIn_nil_right] using hb
    subst this
    have : ia = [] := by simpa using ha
    subst this
    cases e <;> simp [matProd, pairIdx]
  | cons b bs ih =>
    cases ib with
    | nil => exact absurd hb.1 (by simp)
    | cons b0 ib' =>
      rw [List.map_cons, idxIn_cons] at hb
      cases ia with
      | nil => simp at ha
      | cons a0 ia' =>
        cases e with
        | nil => simp [matProd, pairIdx]
        | cons e0 e' =>
          simp only [List.map_cons, pairIdx, matProd]
          rw [ih e' ia' ib' (by simpa using ha) hb.2]
          have hpos : 0 < b.ncol := by omega
          have h1 : (a0 * b.ncol + b0) / b.ncol = a0 := by
            rw [Nat.add_comm, Nat.add_mul_div_right _ _ hpos, Nat.div_eq_of_lt hb.1, Nat.zero_add]
          have h2 : (a0 * b.ncol + b0) % b.ncol = b0 := by
            rw [Nat.add_comm, Nat.add_mul_mod_self_right, Nat.mod_eq_of_lt hb.1]
          simp only [box, h1, h2, L.mul_eq]
          ring

theorem idxIn_pairIdx (ns ia ib : List Nat) (ha : IdxIn ia ns) (hb : IdxIn ib ns) :
    IdxIn (pairIdx ns ia ib) (ns.map fun n => n * n) := by
  induction ns generalizing ia ib with
  | nil =>
    have h1 : ia = [] := by simpa [idxIn_nil_right] using ha
    have h2 : ib = [] := by simpa [idxIn_nil_right] using hb
    subst h1; subst h2
    exact (idxIn_nil_right _).2 rfl
  | cons n ns ih =>
    cases ia with
    | nil => exact absurd ha.1 (by simp)
    | cons a0 ia' =>
      cases ib with
      | nil => exact absurd hb.1 (by simp)
      | cons b0 ib' =>
        rw [idxIn_cons] at ha hb
        simp only [pairIdx, List.map_cons]
        rw [idxIn_cons]
        exact ⟨tab2_index_lt ha.1 hb.1, ih ia' ib' ha.2 hb.2⟩

/-- **Data side of the GLAM identity, any number of dimensions.**  With C-ordered strides, `naxes = nknots − order − 1`,
one coordinate vector per dimension and every datum on the grid, the convolution loop of `glamfit_complex` succeeds and
the flattened `R` and the reshaped, flattened `F` hold `(BᵀWz)_i` and `(BᵀWB)_{ij}` of the Kronecker design matrix. -/
theorem glam_data_nd (dims : List (Dim α)) (coords : List (List α)) (dw : List ((List Nat × α) × α))
    (hne : dims ≠ []) (hs : StridesRowMajor dims) (hax : ∀ d ∈ dims, d.naxes = d.nknots - d.order - 1)
    (hlen : coords.length = dims.length)
    (hd : ∀ ew ∈ dw, IdxIn ew.1.1 (coords.map List.length)) :
    ∃ F R, glamConvolve (glamBases dims coords (coords.map List.length)) 0
        ⟨coords.map List.length, dw.map fun (e, w) => (e.1, w)⟩
        ⟨coords.map List.length, dw.map fun (e, w) => (e.1, A.mul w e.2)⟩ = some (F, R) ∧
      (∀ i < natProd (dims.map (·.naxes)),
        (flattenNd R (natProd (dims.map (·.naxes))) 1).get i 0
          = (dw.map fun ew => ew.2 * ew.1.2 * rowB dims coords ⟨ew.1.1, ew.1.2, ew.2⟩ i).sum) ∧
      (∀ i < natProd (dims.map (·.naxes)), ∀ j < natProd (dims.map (·.naxes)),
        (flattenNd ⟨evensFirst ((dims.map (·.naxes)).flatMap fun n => [n, n]),
            F.entries.map fun e => (evensFirst (doubleDims (dims.map (·.naxes)) e.1), e.2)⟩
            (natProd (dims.map (·.naxes))) (natProd (dims.map (·.naxes)))).get i j
          = (dw.map fun ew => ew.2 * rowB dims coords ⟨ew.1.1, ew.1.2, ew.2⟩ i
                                   * rowB dims coords ⟨ew.1.1, ew.1.2, ew.2⟩ j).sum) := by
  have hncol := glamBases_ncol dims coords hlen hax
  obtain ⟨F, R, hconv, hFr, hFwf, hRr, hRwf, hFget, hRget⟩ :=
    glamConvolve_get (glamBases dims coords (coords.map List.length)) (coords.map List.length)
      (dw.map fun (e, w) => (e.1, w)) (dw.map fun (e, w) => (e.1, A.mul w e.2))
      (glamBases_nrow dims coords hlen)
      (by intro e he; rw [List.mem_map] at he; obtain ⟨ew, hew, rfl⟩ := he; exact hd ew hew)
      (by intro e he; rw [List.mem_map] at he; obtain ⟨ew, hew, rfl⟩ := he; exact hd ew hew)
  have hRr' : R.ranges = dims.map (·.naxes) := by rw [hRr, hncol]
  have hFr' : F.ranges = (dims.map (·.naxes)).map fun n => n * n := by
    rw [hFr, ← hncol, List.map_map]; rfl
  -- the design-matrix row of a datum
  have hrow : ∀ ew ∈ dw, ∀ i, matProd (glamBases dims coords (coords.map List.length)) ew.1.1 (comps dims i)
      = rowB dims coords ⟨ew.1.1, ew.1.2, ew.2⟩ i := by
    intro ew hew i
    obtain ⟨xs, hxs⟩ := gridPoint_of_idxIn coords ew.1.1 (hd ew hew)
    rw [matProd_bases dims coords ew.1.1 xs i hlen hxs]
    unfold rowB
    simp only [hxs]
  refine ⟨F, R, hconv, ?_, ?_⟩
  · intro i hi
    obtain ⟨hci, hri⟩ := comps_spec dims hs hne i hi
    have h1 := flattenNd_R_get R (dims.map (·.naxes)) hRr' hRwf (comps dims i) hci
    rw [hri] at h1
    rw [h1, hRget (comps dims i) (by rw [hRr']; exact hci), List.map_map]
    congr 1
    apply List.map_congr_left
    intro ew hew
    simp only [Function.comp, L.mul_eq]
    rw [hrow ew hew i]
    ring
  · intro i hi j hj
    obtain ⟨hci, hri⟩ := comps_spec dims hs hne i hi
    obtain ⟨hcj, hrj⟩ := comps_spec dims hs hne j hj
    have h1 := flattenNd_F_get_nd F (dims.map (·.naxes)) hFr' hFwf (comps dims i) (comps dims j) hci hcj
    rw [hri, hrj] at h1
    have hp := idxIn_pairIdx (dims.map (·.naxes)) (comps dims i) (comps dims j) hci hcj
    rw [h1, hFget _ (by rw [hFr']; exact hp), List.map_map]
    congr 1
    apply List.map_congr_left
    intro ew hew
    simp only [Function.comp]
    have hb := matProd_box (glamBases dims coords (coords.map List.length)) ew.1.1 (comps dims i) (comps dims j)
      (by rw [hci.1, ← hncol, List.length_map]) (by rw [hncol]; exact hcj)
    rw [hncol] at hb
    rw [hb, hrow ew hew i, hrow ew hew j]
    ring

/-- **The GLAM identity in any number of dimensions.**  The system that the model of `glamfit_complex` / `fit.h` hands
to the Cholesky solve is exactly the normal-equation system `(specM, specR)` of the stated objective, whose design matrix
is the Kronecker product of the one-dimensional basis matrices: `fitmat = BᵀWB + Σ_d λ_d K_dᵀK_d`, `rhs = BᵀWz`.
`smoothing` / `porders` are the raw arguments (one entry, or one per dimension: `pick`), the problem `P` carries them
expanded per dimension — exactly as `psvdriver C09` builds both sides. -/
theorem glam_eq_kron_nd (dims : List (Dim α)) (coords : List (List α)) (data : List (List Nat × α))
    (weights : List α) (smoothing : List α) (porders : List Nat)
    (hne : dims ≠ []) (hs : StridesRowMajor dims) (hax : ∀ d ∈ dims, d.naxes = d.nknots - d.order - 1)
    (hlen : coords.length = dims.length)
    (hdata : ∀ e ∈ data, IdxIn e.1 (coords.map List.length)) :
    let P : FitProblem α :=
      ⟨dims, coords, ((data.zip weights).map fun (e, w) => ⟨e.1, e.2, w⟩).toArray,
       (List.range dims.length).map (fun k => pick smoothing k 0),
       (List.range dims.length).map (fun k => pick porders k 0)⟩
    ∃ S, glamSystem dims coords (coords.map List.length) data weights smoothing porders = some S ∧
      (∀ i < P.ncoef, ∀ j < P.ncoef, S.fitmat.get i j = (specM P).get i j) ∧
      (∀ i < P.ncoef, S.rhs.getD i 0 = (specR P).getD i 0) := by
  intro P
  have hd : ∀ ew ∈ data.zip weights, IdxIn ew.1.1 (coords.map List.length) :=
    fun ew hew => hdata ew.1 (List.of_mem_zip hew).1
  obtain ⟨F, R, hconv, hRget, hFget⟩ := glam_data_nd dims coords (data.zip weights) hne hs hax hlen hd
  have hncoef : P.ncoef = natProd (dims.map (·.naxes)) := rfl
  have hconv' : glamConvolve
      ((dims.zip (coords.zip (coords.map List.length))).map fun (d, xs, n) =>
        bsplineBasis d.knots d.nknots d.order (xs.take n)) 0
      ⟨coords.map List.length, (data.zip weights).map fun (e, w) => (e.1, w)⟩
      ⟨coords.map List.length, (data.zip weights).map fun (e, w) => (e.1, A.mul w e.2)⟩ = some (F, R) := hconv
  simp only [glamSystem, hconv']
  refine ⟨_, rfl, ?_, ?_⟩
  · intro i hi j hj
    rw [hncoef] at hi hj
    have hMf := Mf_list P i j hi hj
    simp only [Mf] at hMf
    rw [hMf, hncoef]
    simp only []
    rw [tab2_get_ofFn _ hi hj, L.add_eq, hFget i hi j hj, penaltyMat_get_nd dims smoothing porders hs i j hi hj]
    congr 1
    simp only [P, List.map_map]
    rfl
  · intro i hi
    rw [hncoef] at hi
    have hrf := rf_list P i hi
    simp only [rf] at hrf
    rw [hrf]
    simp only [Array.getD_eq_getD_getElem?, Array.getElem?_ofFn, hi, dite_true, Option.getD_some]
    rw [hRget i hi]
    simp only [P, List.map_map]
    rfl

end
end PsV
