import PsV.Model.CApiRefine
import PsV.Proofs.CApi
/-!
# C18 — the C machine refines the C++ twin (helper lemmas).  Core Lean only.
-/
namespace PsV.CApi

/-! ## Whole wrapper bodies -/

theorem failReturns_sound {w : Wrapper} (h : failReturns w = true) {c : Call} (hc : c ∈ w.calls)
    (hp : possible c.op .fail = true) : c.returnsOn .fail = true := by
  unfold failReturns at h
  have := List.all_eq_true.mp h c hc
  simp only [possible] at hp
  simpa [hp] using this

/-- For a wrapper record that passes the decidable checks: whatever sequence of its calls a body makes, with whatever
    outcomes the behaviour classes allow, the C caller sees exactly what a faithful wrapper shows for the C++ outcome
    of that body, and no exception leaves. -/
theorem execTrace_sound {w : Wrapper} (hw : wrapperOk w = true) (hf : failReturns w = true) :
    ∀ tr : List (Call × Outcome), (∀ p ∈ tr, p.1 ∈ w.calls ∧ possible p.1.op p.2 = true) → completes w tr = true →
      execTrace w tr = expected w.ret (traceOutcome tr) ∧ execTrace w tr ≠ .escapes
  | [], _, hc => by
    simp only [completes, List.any_nil, Bool.false_or, Bool.or_eq_true, beq_iff_eq] at hc
    simp only [execTrace, traceOutcome, fallThrough, expected]
    cases hr : w.ret <;> simp_all
  | (c, o) :: rest, hall, hc => by
    have hco := hall (c, o) (List.mem_cons_self ..)
    have hs := (wrapperOk_sound hw).1 c hco.1 o hco.2
    by_cases hret : c.returnsOn o = true
    · simp only [execTrace, traceOutcome, hret, if_true, Bool.true_or]
      exact ⟨hs.2, hs.1⟩
    · have hok : o = .ok := by
        cases o with
        | ok => rfl
        | fail => exact absurd (failReturns_sound hf hco.1 hco.2) hret
        | throws => exact absurd rfl hret
      subst hok
      have hret' : c.returnsOn .ok = false := by simpa using hret
      simp only [execTrace, traceOutcome, hret', Bool.false_eq_true, if_false, Bool.false_or, bne_self_eq_false]
      apply execTrace_sound hw hf rest (fun p hp => hall p (List.mem_cons_of_mem _ hp))
      simp only [completes, List.any_cons, hret', Bool.false_or] at hc ⊢
      exact hc

/-- a body that gets as far as the wrapper's last call ends in a `return` (for a wrapper record that passes `finalOk`) -/
theorem completes_of_reaches_last {w : Wrapper} (hf : finalOk w = true) (tr : List (Call × Outcome))
    (hl : tr.getLast?.map Prod.fst = w.calls.getLast?) (hne : w.calls ≠ []) : completes w tr = true := by
  unfold finalOk at hf
  unfold completes
  cases h1 : w.finalSucceeds
  case true => simp
  case false =>
  cases h2 : w.ret == .void
  case true => simp
  case false =>
  cases h3 : w.ret == .value
  case true => simp
  case false =>
  simp only [h1, h2, h3, Bool.false_or, Bool.or_false] at hf ⊢
  cases hc : w.calls.getLast? with
  | none => exact absurd (List.getLast?_eq_none_iff.mp hc) hne
  | some c =>
    rw [hc] at hf hl
    simp only [Bool.and_eq_true] at hf
    cases ht : tr.getLast? with
    | none => rw [ht] at hl; cases hl
    | some p =>
      rw [ht] at hl
      simp only [Option.map_some, Option.some.injEq] at hl
      apply List.any_eq_true.mpr
      refine ⟨p, List.mem_of_getLast? ht, ?_⟩
      rw [hl]
      cases p.2
      · exact hf.1
      · exact hf.2
      · rfl

/-! ## `principal` picks a call of the wrapper -/

theorem principal_mem {w : Wrapper} {sel : Nat} {c : Call} (h : principal w sel = some c) : c ∈ w.calls := by
  unfold principal at h
  simp only at h
  split at h
  · cases h
  · rename_i l hl
    have hlmem := List.mem_of_getLast? hl
    have hsub : ∀ x, x ∈ (if (w.calls.filter fun c => c.op != .other && c.op != .wrapperFree).any (·.op != .getter) then
        (w.calls.filter fun c => c.op != .other && c.op != .wrapperFree).filter (·.op != .getter)
        else (w.calls.filter fun c => c.op != .other && c.op != .wrapperFree)) → x ∈ w.calls := by
      intro x hx
      split at hx
      · exact (List.mem_filter.mp (List.mem_filter.mp hx).1).1
      · exact (List.mem_filter.mp hx).1
    split at h
    · rename_i c' hc'
      cases h
      exact hsub _ (List.mem_filter.mp (List.mem_of_getElem? hc')).1
    · cases h
      exact hsub _ hlmem

/-! ## Erasure and abstraction commute with the list operations -/

section
variable {Obj Arg Val : Type}

theorem hget_erase (s : CSt Obj Val) (h : Nat) : hget s.erase h = (hptr s h).st := by
  simp only [hget, hptr, CSt.erase, List.getD_eq_getElem?_getD, List.getElem?_map]
  cases s.hs[h]? <;> rfl

theorem rget_erase (s : CSt Obj Val) (r : Nat) : rget s.erase r = (rslot s r).isSome := by
  simp only [rget, rslot, CSt.erase, List.getD_eq_getElem?_getD, List.getElem?_map]
  cases s.rs[r]? <;> rfl

theorem tobj_abs (s : CSt Obj Val) (h : Nat) : tobj s.abs h = (hptr s h).obj? := by
  simp only [tobj, hptr, CSt.abs, List.getD_eq_getElem?_getD, List.getElem?_map]
  cases s.hs[h]? <;> rfl

theorem erase_hs_length (s : CSt Obj Val) : s.erase.hs.length = s.hs.length := by simp [CSt.erase]
theorem erase_rs_length (s : CSt Obj Val) : s.erase.rs.length = s.rs.length := by simp [CSt.erase]

theorem set_same {α : Type} {l : List α} {h : Nat} {v : α} (hv : ∀ x, l[h]? = some x → x = v) : l.set h v = l := by
  apply List.ext_getElem?
  intro i
  rw [List.getElem?_set]
  split
  · rename_i hi
    subst hi
    split
    · rename_i hlt
      have := hv l[h] (List.getElem?_eq_getElem hlt)
      rw [List.getElem?_eq_getElem hlt, this]
    · rename_i hlt
      rw [List.getElem?_eq_none (by omega)]
  · rfl

/-- a NULL handle holds no object: writing "no object" there changes nothing -/
theorem abs_set_none_of_null {s : CSt Obj Val} {h : Nat} (hn : hptr s h = .null) :
    (s.hs.map HPtr.obj?).set h none = s.hs.map HPtr.obj? := by
  apply set_same
  intro x hx
  rw [List.getElem?_map] at hx
  simp only [hptr, List.getD_eq_getElem?_getD] at hn
  cases hh : s.hs[h]? with
  | none => rw [hh] at hx; cases hx
  | some v =>
    rw [hh] at hx hn
    simp only [Option.getD_some] at hn
    subst hn
    simp only [Option.map_some, HPtr.obj?, Option.some.injEq] at hx
    exact hx.symm

theorem cfree_erase (F : LifeFacts) (s : CSt Obj Val) (h : Nat) : (cfree F s h).erase = freeStep F s.erase h := by
  unfold cfree freeStep
  rw [hget_erase]
  cases hh : hptr s h with
  | null => rfl
  | dangling => rfl
  | live x =>
    simp only [HPtr.st]
    cases F.freeDeletesTyped <;> cases F.freeResetsHandle <;> simp [CSt.erase, List.map_set, HPtr.st]

theorem cfree_abs {F : LifeFacts} (hF : F.Good) (s : CSt Obj Val) (hi : Inv s.erase) (h : Nat) :
    (cfree F s h).abs = { s.abs with objs := s.abs.objs.set h none } := by
  obtain ⟨_, hF2, hF3, _⟩ := hF
  unfold cfree
  cases hh : hptr s h with
  | null => simp only [CSt.abs]; rw [abs_set_none_of_null hh]
  | dangling =>
    have := getD_ne_dangling hi.nodangling h
    rw [← hget, hget_erase, hh] at this
    exact absurd rfl this
  | live x => simp [hF2, hF3, CSt.abs, List.map_set, HPtr.obj?]

/-! ## What the table must say about the wrappers that move pointers (decided on the generated table) -/

structure LifeRetsOk (T : List Wrapper) : Prop where
  init_ok : lifeRet T "splinetable_init" .ok = .success
  init_throws : lifeRet T "splinetable_init" .throws = .failure
  free_ok : lifeRet T "splinetable_free" .ok = .void
  readFile_ok : lifeRet T "readsplinefitstable" .ok = .success
  readFile_throws : lifeRet T "readsplinefitstable" .throws = .failure
  readMem_ok : lifeRet T "readsplinefitstable_mem" .ok = .success
  readMem_throws : lifeRet T "readsplinefitstable_mem" .throws = .failure
  readMem_oom : lifeOomRet T "readsplinefitstable_mem" = .failure
  grideval_ok : lifeRet T "splinetable_grideval" .ok = .success
  grideval_throws : lifeRet T "splinetable_grideval" .throws = .failure
  grideval_oom : lifeOomRet T "splinetable_grideval" = .failure
  grideval_guard : lifeGuardRet T "splinetable_grideval" = .failure
  destroy_ok : lifeRet T "ndsparse_destroy" .ok = .void
  writeMem_ok : lifeRet T "writesplinefitstable_mem" .ok = .success
  writeMem_throws : lifeRet T "writesplinefitstable_mem" .throws = .failure
  writeMem_oom : lifeOomRet T "writesplinefitstable_mem" = .failure

/-- one call: ownership effect = the `step`s of Model/CApi.lean (inside the usage rule), the objects / results /
    buffers afterwards are the twin's, and the C caller sees what a faithful wrapper shows for the twin's outcome -/
def StepOk (F : LifeFacts) (T : List Wrapper) (sem : Sem Obj Arg Val) (s : CSt Obj Val) (e : CCall Arg) : Prop :=
  (cstep F T sem s e).1.erase = run F s.erase (opOf sem s e) ∧ validRun F s.erase (opOf sem s e) = true ∧
  (cstep F T sem s e).1.abs = (tstep sem s.abs e).1 ∧
  agrees e (cstep F T sem s e).2 (tstep sem s.abs e).2

theorem step_init {F : LifeFacts} (hF : F.Good) {T : List Wrapper} (hL : LifeRetsOk T) (sem : Sem Obj Arg Val)
    (s : CSt Obj Val) (h : Nat) (oom : Bool) (hd : cDefined T s (.init h oom : CCall Arg) = true) :
    StepOk F T sem s (.init h oom) := by
  obtain ⟨hF1, _⟩ := hF
  simp only [cDefined, Bool.and_eq_true, decide_eq_true_eq, beq_iff_eq] at hd
  have hv : opValid s.erase (.init h (if oom then .throws else .ok)) = true := by
    simp only [opValid, Bool.and_eq_true, decide_eq_true_eq, beq_iff_eq, erase_hs_length, hget_erase]; exact hd
  cases oom
  · refine ⟨?_, by simpa [opOf, validRun] using hv, ?_, ?_⟩
    · simp [cstep, opOf, run, step, hF1, CSt.erase, List.map_set, HPtr.st]
    · simp [cstep, tstep, hF1, CSt.abs, List.map_set, HPtr.obj?]
    · simp [agrees, cstep, tstep, hL.init_ok, expected, CCall.retTy]
  · refine ⟨?_, by simpa [opOf, validRun] using hv, ?_, ?_⟩
    · simp [cstep, opOf, run, step]
    · simp [cstep, tstep]
    · simp [agrees, cstep, tstep, hL.init_throws, expected, CCall.retTy]

theorem step_free {F : LifeFacts} (hF : F.Good) {T : List Wrapper} (hL : LifeRetsOk T) (sem : Sem Obj Arg Val)
    (s : CSt Obj Val) (hi : Inv s.erase) (h : Nat) (hd : cDefined T s (.free h : CCall Arg) = true) :
    StepOk F T sem s (.free h) := by
  simp only [cDefined, decide_eq_true_eq] at hd
  refine ⟨?_, ?_, ?_, ?_⟩
  · simp only [cstep, opOf, run, List.foldl, step]; exact cfree_erase F s h
  · simp [opOf, validRun, opValid, erase_hs_length, hd]
  · simp only [cstep, tstep]; exact cfree_abs hF s hi h
  · simp [agrees, cstep, tstep, hL.free_ok, expected, CCall.retTy]

theorem step_readFile {F : LifeFacts} (hF : F.Good) {T : List Wrapper} (hL : LifeRetsOk T) (sem : Sem Obj Arg Val)
    (s : CSt Obj Val) (hi : Inv s.erase) (h : Nat) (a : Arg) (oom : Bool) (hd : cDefined T s (.readFile h a oom : CCall Arg) = true) :
    StepOk F T sem s (.readFile h a oom) := by
  have hF' := hF
  obtain ⟨_, _, _, hF4, hF5, _⟩ := hF
  simp only [cDefined, decide_eq_true_eq] at hd
  have hA := cfree_abs hF' s hi h
  have hE := cfree_erase F s h
  have hobjs : (cfree F s h).hs.map HPtr.obj? = (s.hs.map HPtr.obj?).set h none := congrArg TSt.objs hA
  have hres : (cfree F s h).rs = s.rs := congrArg TSt.res hA
  have hbuf : (cfree F s h).led.buffers = s.led.buffers := congrArg TSt.bufs hA
  unfold StepOk
  simp only [cstep, tstep, opOf, hF4, hF5, if_true]
  generalize (if oom = true then none else sem.load a) = r
  cases r with
  | some x =>
    refine ⟨?_, ?_, ?_, ?_⟩
    · simp only [run, List.foldl, step, hF4, hF5, if_true, ← hE]
      simp [CSt.erase, List.map_set, HPtr.st]
    · simp [validRun, opValid, erase_hs_length, hd]
    · simp only [CSt.abs, List.map_set, hobjs, hres, hbuf, List.set_set, HPtr.obj?]
    · simp [agrees, hL.readFile_ok, expected, CCall.retTy]
  | none =>
    refine ⟨?_, ?_, ?_, ?_⟩
    · simp only [run, List.foldl, step, hF4, if_true, ← hE]
    · simp [validRun, opValid, erase_hs_length, hd]
    · simp only [CSt.abs, hobjs, hres, hbuf]
    · simp [agrees, hL.readFile_throws, expected, CCall.retTy]

/-- overwriting a live handle with (a pointer to) a live object does not change the ownership picture -/
theorem erase_set_live {s : CSt Obj Val} {h : Nat} {x : Obj} (hh : hptr s h = .live x) :
    (s.hs.map HPtr.st).set h .live = s.hs.map HPtr.st := by
  apply set_same
  intro y hy
  rw [List.getElem?_map] at hy
  simp only [hptr, List.getD_eq_getElem?_getD] at hh
  cases hv : s.hs[h]? with
  | none => rw [hv] at hy; cases hy
  | some v =>
    rw [hv] at hy hh
    simp only [Option.getD_some] at hh
    subst hh
    simp only [Option.map_some, HPtr.st, Option.some.injEq] at hy
    exact hy.symm

theorem not_dangling {s : CSt Obj Val} (hi : Inv s.erase) (h : Nat) : hptr s h ≠ .dangling := by
  intro hh
  have := getD_ne_dangling hi.nodangling h
  rw [← hget, hget_erase, hh] at this
  exact absurd rfl this

theorem status_of_possible {op : UOp} (hc : canFail op = false) {o : Outcome} (hp : possible op o = true)
    {r : Outcome → CRet} (hok : r .ok = .success) (hth : r .throws = .failure) :
    r o = expected .status o ∧ r o ≠ .escapes := by
  cases o with
  | ok => simp [hok, expected]
  | throws => simp [hth, expected]
  | fail => simp [possible, hc] at hp

theorem step_readMem {F : LifeFacts} (hF : F.Good) {T : List Wrapper} (hL : LifeRetsOk T) (sem : Sem Obj Arg Val) (hsem : sem.WF)
    (s : CSt Obj Val) (hi : Inv s.erase) (h : Nat) (a : Arg) (oom : Bool) (hd : cDefined T s (.readMem h a oom : CCall Arg) = true) :
    StepOk F T sem s (.readMem h a oom) := by
  obtain ⟨_, _, _, _, _, hF6, _⟩ := hF
  simp only [cDefined, Bool.and_eq_true, decide_eq_true_eq, Bool.or_eq_true, Bool.not_eq_true', beq_iff_eq] at hd
  have hT := tobj_abs s h
  have hG := hget_erase s h
  unfold StepOk
  cases hh : hptr s h with
  | dangling => exact absurd hh (not_dangling hi h)
  | null =>
    rw [hh] at hT hG
    simp only [HPtr.obj?, HPtr.st] at hT hG
    cases oom
    · have hr := status_of_possible (op := .readFitsMem) rfl (hsem .readFitsMem a sem.empty)
        (r := lifeRet T "readsplinefitstable_mem") hL.readMem_ok hL.readMem_throws
      refine ⟨?_, ?_, ?_, ?_⟩
      · simp only [cstep, opOf, hh, run, List.foldl, step, hG, Bool.false_eq_true, if_false]
        simp [CSt.erase, List.map_set, HPtr.st]
      · simp [opOf, hh, validRun, opValid, erase_hs_length, hd.1]
      · simp only [cstep, tstep, hh, hT, Bool.false_eq_true, if_false]
        simp [CSt.abs, List.map_set, HPtr.obj?]
      · simp only [agrees, cstep, tstep, hh, hT, CCall.retTy, Bool.false_eq_true, if_false, Option.getD_some]
        exact ⟨hr.1, hr.2, trivial⟩
    · refine ⟨?_, ?_, ?_, ?_⟩
      · simp only [cstep, opOf, hh, run, List.foldl, step, hG, if_true]
      · simp [opOf, hh, validRun, opValid, erase_hs_length, hd.1]
      · simp only [cstep, tstep, hh, hT, if_true]
      · simp [agrees, cstep, tstep, hh, hT, CCall.retTy, hL.readMem_oom, expected]
  | live x =>
    rw [hh] at hT hG
    simp only [HPtr.obj?, HPtr.st] at hT hG
    have hr := status_of_possible (op := .readFitsMem) rfl (hsem .readFitsMem a x)
      (r := lifeRet T "readsplinefitstable_mem") hL.readMem_ok hL.readMem_throws
    refine ⟨?_, ?_, ?_, ?_⟩
    · simp only [cstep, opOf, hh, run, List.foldl, step, hG, hF6, if_true]
      simp [CSt.erase, List.map_set, HPtr.st, erase_set_live hh]
    · simp [opOf, hh, validRun, opValid, erase_hs_length, hd.1]
    · simp only [cstep, tstep, hh, hT, hF6, if_true]
      simp [CSt.abs, List.map_set, HPtr.obj?]
    · simp only [agrees, cstep, tstep, hh, hT, CCall.retTy, hF6, if_true, Option.getD_some]
      exact ⟨hr.1, hr.2, trivial⟩

theorem guardRet_sound {w : Wrapper} (hw : wrapperOk w = true) : guardRet w = expected w.ret .fail ∧ guardRet w ≠ .escapes := by
  have h := (wrapperOk_sound hw).2
  unfold guardRet expected
  cases w.ret <;> simp [h]

theorem oomRet_sound {w : Wrapper} (hw : wrapperOk w = true) (hm : w.mayThrow = true) :
    oomRet w = expected w.ret .throws ∧ oomRet w ≠ .escapes := by
  unfold oomRet
  cases hf : w.calls.find? (fun c => canThrow c.op) with
  | none =>
    unfold Wrapper.mayThrow at hm
    obtain ⟨c, hc, hct⟩ := List.any_eq_true.mp hm
    exact absurd hct (by simpa using List.find?_eq_none.mp hf c hc)
  | some c =>
    have hs := (wrapperOk_sound hw).1 c (List.mem_of_find?_eq_some hf) .throws (by simpa [possible] using List.find?_some hf)
    exact ⟨hs.2, hs.1⟩

theorem step_member {F : LifeFacts} {T : List Wrapper} (hT : ∀ w ∈ T, wrapperOk w = true) (sem : Sem Obj Arg Val) (hsem : sem.WF)
    (s : CSt Obj Val) (hi : Inv s.erase) (w : Wrapper) (h : Nat) (a : Arg) (sel : Nat) (oom : Bool)
    (hd : cDefined T s (.member w h a sel oom : CCall Arg) = true) :
    StepOk F T sem s (.member w h a sel oom) := by
  simp only [cDefined, Bool.and_eq_true, decide_eq_true_eq, Bool.not_eq_true'] at hd
  obtain ⟨⟨⟨⟨hlt, hmem⟩, _⟩, hpr⟩, hcase⟩ := hd
  have hw := hT w (List.contains_iff_mem.mp hmem)
  have hTo := tobj_abs s h
  have hG := hget_erase s h
  unfold StepOk
  cases hh : hptr s h with
  | dangling => exact absurd hh (not_dangling hi h)
  | null =>
    rw [hh] at hTo hG hcase
    simp only [HPtr.obj?, HPtr.st, Bool.and_eq_true, Bool.not_eq_true'] at hTo hG hcase
    have hg := guardRet_sound hw
    refine ⟨?_, ?_, ?_, ?_⟩
    · simp only [cstep, opOf, hh, run, List.foldl, step, hG]
    · simp [opOf, validRun, opValid, erase_hs_length, hlt]
    · simp only [cstep, tstep, hh, hTo]
    · simp only [agrees, cstep, tstep, hh, hTo, CCall.retTy, Option.getD_none]
      exact ⟨hg.1, hg.2, trivial⟩
  | live x =>
    rw [hh] at hTo hG hcase
    simp only [HPtr.obj?, HPtr.st, Bool.or_eq_true, Bool.not_eq_true'] at hTo hG hcase
    cases oom
    · cases hp : principal w sel with
      | none => rw [hp] at hpr; cases hpr
      | some c =>
        have hs := (wrapperOk_sound hw).1 c (principal_mem hp) _ (hsem c.op a x)
        refine ⟨?_, ?_, ?_, ?_⟩
        · simp only [cstep, opOf, hh, hp, run, List.foldl, step, hG, Bool.false_eq_true, if_false]
          simp [CSt.erase, List.map_set, HPtr.st, erase_set_live hh]
        · simp [opOf, validRun, opValid, erase_hs_length, hlt]
        · simp only [cstep, tstep, hh, hTo, hp, Bool.false_eq_true, if_false]
          simp [CSt.abs, List.map_set, HPtr.obj?]
        · simp only [agrees, cstep, tstep, hh, hTo, hp, CCall.retTy, Bool.false_eq_true, if_false, Option.getD_some]
          exact ⟨hs.2, hs.1, trivial⟩
    · have hm : w.mayThrow = true := by simpa using hcase
      have ho := oomRet_sound hw hm
      refine ⟨?_, ?_, ?_, ?_⟩
      · simp only [cstep, opOf, hh, run, List.foldl, step, hG, if_true]
      · simp [opOf, validRun, opValid, erase_hs_length, hlt]
      · simp only [cstep, tstep, hh, hTo, if_true]
      · simp only [agrees, cstep, tstep, hh, hTo, CCall.retTy, if_true, Option.getD_some]
        exact ⟨ho.1, ho.2, trivial⟩

theorem step_grideval {F : LifeFacts} (hF : F.Good) {T : List Wrapper} (hL : LifeRetsOk T) (sem : Sem Obj Arg Val) (hsem : sem.WF)
    (s : CSt Obj Val) (hi : Inv s.erase) (nt : Bool) (h slot : Nat) (a : Arg) (oom : Bool)
    (hd : cDefined T s (.grideval nt h slot a oom : CCall Arg) = true) :
    StepOk F T sem s (.grideval nt h slot a oom) := by
  obtain ⟨_, _, _, _, _, _, hF7, _, _, hF10⟩ := hF
  simp only [cDefined, Bool.and_eq_true, decide_eq_true_eq, Option.isNone_iff_eq_none] at hd
  obtain ⟨⟨hlt, hslt⟩, hnone⟩ := hd
  have hTo := tobj_abs s h
  have hG := hget_erase s h
  have hR := rget_erase s slot
  rw [hnone] at hR
  simp only [Option.isSome_none] at hR
  have hv : ∀ o, validRun F s.erase [.grideval h slot o] = true := by
    intro o; simp [validRun, opValid, erase_hs_length, erase_rs_length, hlt, hslt, hR]
  have hfail : run F s.erase [.grideval h slot .fail] = s.erase := by
    simp only [run, List.foldl, step, hR, Bool.and_false, Bool.false_eq_true, if_false]
  have hthrows : run F s.erase [.grideval h slot .throws] = s.erase := by
    simp only [run, List.foldl, step, hR, Bool.and_false, Bool.false_eq_true, if_false]
  unfold StepOk
  cases nt
  case true =>
    refine ⟨?_, ?_, ?_, ?_⟩
    · simp only [cstep, opOf, hnone, Option.isSome_none, Bool.and_false, Bool.false_eq_true, if_false, if_true, hfail]
    · simp only [opOf, if_true]; exact hv _
    · simp only [cstep, tstep, hnone, Option.isSome_none, Bool.and_false, Bool.false_eq_true, if_false, if_true]
    · simp [agrees, cstep, tstep, hnone, CCall.retTy, hL.grideval_guard, expected]
  case false =>
  cases hh : hptr s h with
  | dangling => exact absurd hh (not_dangling hi h)
  | null =>
    rw [hh] at hTo hG
    simp only [HPtr.obj?, HPtr.st] at hTo hG
    refine ⟨?_, ?_, ?_, ?_⟩
    · simp only [cstep, opOf, hnone, hh, Option.isSome_none, Bool.and_false, Bool.false_eq_true, if_false, hfail]
    · simp only [opOf, hh, Bool.false_eq_true, if_false]; exact hv _
    · simp only [cstep, tstep, hnone, hh, hTo, Option.isSome_none, Bool.and_false, Bool.false_eq_true, if_false]
    · simp [agrees, cstep, tstep, hnone, hh, hTo, CCall.retTy, hL.grideval_guard, expected]
  | live x =>
    rw [hh] at hTo hG
    simp only [HPtr.obj?, HPtr.st] at hTo hG
    cases oom
    case true =>
      refine ⟨?_, ?_, ?_, ?_⟩
      · simp only [cstep, opOf, hnone, hh, Option.isSome_none, Bool.and_false, Bool.false_eq_true, if_false, if_true, hthrows]
      · simp only [opOf, hh, Bool.false_eq_true, if_false, if_true]; exact hv _
      · simp only [cstep, tstep, hnone, hh, hTo, Option.isSome_none, Bool.and_false, Bool.false_eq_true, if_false, if_true]
      · simp [agrees, cstep, tstep, hnone, hh, hTo, CCall.retTy, hL.grideval_oom, expected]
    case false =>
      have hr := status_of_possible (op := .grideval) rfl (hsem .grideval a x)
        (r := lifeRet T "splinetable_grideval") hL.grideval_ok hL.grideval_throws
      generalize hm : sem.member .grideval a x = r at hr
      obtain ⟨o, x', v⟩ := r
      simp only at hr
      cases o
      case ok =>
        refine ⟨?_, ?_, ?_, ?_⟩
        · simp only [cstep, opOf, hnone, hh, hm, hF7, Option.isSome_none, Bool.and_false, Bool.false_eq_true, if_false, if_true,
            run, List.foldl, step, hR]
          simp [CSt.erase, List.map_set, HPtr.st, erase_set_live hh]
        · simp only [opOf, hh, hm, Bool.false_eq_true, if_false]; exact hv _
        · simp only [cstep, tstep, hnone, hh, hTo, hm, hF7, Option.isSome_none, Bool.and_false, Bool.false_eq_true, if_false, if_true]
          simp [CSt.abs, List.map_set, HPtr.obj?]
        · simp only [agrees, cstep, tstep, hnone, hh, hTo, hm, CCall.retTy, Option.isSome_none, Bool.and_false, Bool.false_eq_true,
            if_false, Option.getD_some]
          exact ⟨hr.1, hr.2, trivial⟩
      case fail =>
        refine ⟨?_, ?_, ?_, ?_⟩
        · simp only [cstep, opOf, hnone, hh, hm, Option.isSome_none, Bool.and_false, Bool.false_eq_true, if_false, hfail]
          simp [CSt.erase, List.map_set, HPtr.st, erase_set_live hh]
        · simp only [opOf, hh, hm, Bool.false_eq_true, if_false]; exact hv _
        · simp only [cstep, tstep, hnone, hh, hTo, hm, Option.isSome_none, Bool.and_false, Bool.false_eq_true, if_false]
          simp [CSt.abs, List.map_set, HPtr.obj?]
        · simp only [agrees, cstep, tstep, hnone, hh, hTo, hm, CCall.retTy, Option.isSome_none, Bool.and_false, Bool.false_eq_true,
            if_false, Option.getD_some]
          exact ⟨hr.1, hr.2, trivial⟩
      case throws =>
        refine ⟨?_, ?_, ?_, ?_⟩
        · simp only [cstep, opOf, hnone, hh, hm, Option.isSome_none, Bool.and_false, Bool.false_eq_true, if_false, hthrows]
          simp [CSt.erase, List.map_set, HPtr.st, erase_set_live hh]
        · simp only [opOf, hh, hm, Bool.false_eq_true, if_false]; exact hv _
        · simp only [cstep, tstep, hnone, hh, hTo, hm, Option.isSome_none, Bool.and_false, Bool.false_eq_true, if_false]
          simp [CSt.abs, List.map_set, HPtr.obj?]
        · simp only [agrees, cstep, tstep, hnone, hh, hTo, hm, CCall.retTy, Option.isSome_none, Bool.and_false, Bool.false_eq_true,
            if_false, Option.getD_some]
          exact ⟨hr.1, hr.2, trivial⟩

theorem step_destroy {F : LifeFacts} (hF : F.Good) {T : List Wrapper} (hL : LifeRetsOk T) (sem : Sem Obj Arg Val)
    (s : CSt Obj Val) (slot : Nat) (hd : cDefined T s (.destroy slot : CCall Arg) = true) :
    StepOk F T sem s (.destroy slot) := by
  obtain ⟨_, _, _, _, _, _, _, hF8, _⟩ := hF
  simp only [cDefined, decide_eq_true_eq] at hd
  have hR := rget_erase s slot
  unfold StepOk
  cases hs : rslot s slot with
  | none =>
    rw [hs] at hR
    simp only [Option.isSome_none] at hR
    have hsame : s.rs.set slot none = s.rs := by
      apply set_same
      intro x hx
      simp only [rslot, List.getD_eq_getElem?_getD, hx, Option.getD_some] at hs
      exact hs
    refine ⟨?_, ?_, ?_, ?_⟩
    · simp only [cstep, opOf, hs, run, List.foldl, step, hR, Bool.false_eq_true, if_false]
    · simp [opOf, validRun, opValid, erase_rs_length, hd]
    · simp only [cstep, tstep, hs, CSt.abs, hsame]
    · simp [agrees, cstep, tstep, hs, CCall.retTy, hL.destroy_ok, expected]
  | some v =>
    rw [hs] at hR
    simp only [Option.isSome_some] at hR
    refine ⟨?_, ?_, ?_, ?_⟩
    · simp only [cstep, opOf, hs, run, List.foldl, step, hR, hF8, if_true]
      simp [CSt.erase, List.map_set]
    · simp [opOf, validRun, opValid, erase_rs_length, hd]
    · simp only [cstep, tstep, hs, hF8, if_true]
      simp [CSt.abs]
    · simp [agrees, cstep, tstep, hs, CCall.retTy, hL.destroy_ok, expected]

theorem step_writeMem {F : LifeFacts} (hF : F.Good) {T : List Wrapper} (hL : LifeRetsOk T) (sem : Sem Obj Arg Val) (hsem : sem.WF)
    (s : CSt Obj Val) (h : Nat) (a : Arg) (oom : Bool) (hd : cDefined T s (.writeMem h a oom : CCall Arg) = true) :
    StepOk F T sem s (.writeMem h a oom) := by
  obtain ⟨_, _, _, _, _, _, _, _, hF9, _⟩ := hF
  simp only [cDefined, Bool.and_eq_true, decide_eq_true_eq, beq_iff_eq] at hd
  obtain ⟨hlt, hlive⟩ := hd
  have hTo := tobj_abs s h
  have hG := hget_erase s h
  have hv : ∀ o, validRun F s.erase [.writeMem h o] = true := by
    intro o; simp [validRun, opValid, erase_hs_length, hlt]
  unfold StepOk
  cases hh : hptr s h with
  | dangling => rw [hh] at hlive; cases hlive
  | null => rw [hh] at hlive; cases hlive
  | live x =>
    rw [hh] at hTo hG
    simp only [HPtr.obj?, HPtr.st] at hTo hG
    cases oom
    case true =>
      refine ⟨?_, ?_, ?_, ?_⟩
      · simp only [cstep, opOf, hh, if_true, run, List.foldl, step]
      · simp only [opOf, hh, if_true]; exact hv _
      · simp only [cstep, tstep, hh, hTo, if_true]
      · simp [agrees, cstep, tstep, hh, hTo, CCall.retTy, hL.writeMem_oom, expected]
    case false =>
      have hr := status_of_possible (op := .writeFitsMem) rfl (hsem .writeFitsMem a x)
        (r := lifeRet T "writesplinefitstable_mem") hL.writeMem_ok hL.writeMem_throws
      generalize hm : sem.member .writeFitsMem a x = r at hr
      obtain ⟨o, x', v⟩ := r
      simp only at hr
      cases o
      case ok =>
        refine ⟨?_, ?_, ?_, ?_⟩
        · simp only [cstep, opOf, hh, hm, hF9, Bool.false_eq_true, if_false, if_true, run, List.foldl, step]
          simp [CSt.erase, List.map_set, HPtr.st, erase_set_live hh]
        · simp only [opOf, hh, hm, Bool.false_eq_true, if_false]; exact hv _
        · simp only [cstep, tstep, hh, hTo, hm, hF9, Bool.false_eq_true, if_false, if_true]
          simp [CSt.abs, List.map_set, HPtr.obj?]
        · simp only [agrees, cstep, tstep, hh, hTo, hm, CCall.retTy, Bool.false_eq_true, if_false, Option.getD_some]
          exact ⟨hr.1, hr.2, trivial⟩
      case fail =>
        refine ⟨?_, ?_, ?_, ?_⟩
        · simp only [cstep, opOf, hh, hm, Bool.false_eq_true, if_false, run, List.foldl, step]
          simp [CSt.erase, List.map_set, HPtr.st, erase_set_live hh]
        · simp only [opOf, hh, hm, Bool.false_eq_true, if_false]; exact hv _
        · simp only [cstep, tstep, hh, hTo, hm, Bool.false_eq_true, if_false]
          simp [CSt.abs, List.map_set, HPtr.obj?]
        · simp only [agrees, cstep, tstep, hh, hTo, hm, CCall.retTy, Bool.false_eq_true, if_false, Option.getD_some]
          exact ⟨hr.1, hr.2, trivial⟩
      case throws =>
        refine ⟨?_, ?_, ?_, ?_⟩
        · simp only [cstep, opOf, hh, hm, Bool.false_eq_true, if_false, run, List.foldl, step]
          simp [CSt.erase, List.map_set, HPtr.st, erase_set_live hh]
        · simp only [opOf, hh, hm, Bool.false_eq_true, if_false]; exact hv _
        · simp only [cstep, tstep, hh, hTo, hm, Bool.false_eq_true, if_false]
          simp [CSt.abs, List.map_set, HPtr.obj?]
        · simp only [agrees, cstep, tstep, hh, hTo, hm, CCall.retTy, Bool.false_eq_true, if_false, Option.getD_some]
          exact ⟨hr.1, hr.2, trivial⟩

theorem step_freeBuffer {F : LifeFacts} {T : List Wrapper} (sem : Sem Obj Arg Val)
    (s : CSt Obj Val) (hd : cDefined T s (.freeBuffer : CCall Arg) = true) :
    StepOk F T sem s .freeBuffer := by
  simp only [cDefined, decide_eq_true_eq] at hd
  refine ⟨?_, ?_, ?_, ?_⟩
  · simp [cstep, opOf, run, step, CSt.erase]
  · simp [opOf, validRun, opValid, CSt.erase, hd]
  · simp [cstep, tstep, CSt.abs]
  · simp [agrees, cstep, tstep, CCall.retTy, expected]

theorem step_nullArg {F : LifeFacts} {T : List Wrapper} (hT : ∀ w ∈ T, wrapperOk w = true) (sem : Sem Obj Arg Val)
    (s : CSt Obj Val) (w : Wrapper) (p : String) (h : Nat) (hd : cDefined T s (.nullArg w p h : CCall Arg) = true) :
    StepOk F T sem s (.nullArg w p h) := by
  simp only [cDefined, Bool.and_eq_true] at hd
  have hg := guardRet_sound (hT w (List.contains_iff_mem.mp hd.1.1))
  refine ⟨?_, ?_, ?_, ?_⟩
  · simp [cstep, opOf, run]
  · simp [opOf, validRun]
  · simp [cstep, tstep]
  · simp only [agrees, cstep, tstep, CCall.retTy, Option.getD_none]
    exact ⟨hg.1, hg.2, trivial⟩

/-- every call inside the defined scope -/
theorem cstep_refines {F : LifeFacts} (hF : F.Good) {T : List Wrapper} (hT : ∀ w ∈ T, wrapperOk w = true) (hL : LifeRetsOk T)
    (sem : Sem Obj Arg Val) (hsem : sem.WF) (s : CSt Obj Val) (hi : Inv s.erase) (e : CCall Arg) (hd : cDefined T s e = true) :
    StepOk F T sem s e := by
  cases e with
  | init h oom => exact step_init hF hL sem s h oom hd
  | free h => exact step_free hF hL sem s hi h hd
  | readFile h a oom => exact step_readFile hF hL sem s hi h a oom hd
  | readMem h a oom => exact step_readMem hF hL sem hsem s hi h a oom hd
  | member w h a sel oom => exact step_member hT sem hsem s hi w h a sel oom hd
  | grideval nt h slot a oom => exact step_grideval hF hL sem hsem s hi nt h slot a oom hd
  | destroy slot => exact step_destroy hF hL sem s slot hd
  | writeMem h a oom => exact step_writeMem hF hL sem hsem s h a oom hd
  | freeBuffer => exact step_freeBuffer sem s hd
  | nullArg w p h => exact step_nullArg hT sem s w p h hd

theorem countP_objs {Obj : Type} (l : List (HPtr Obj)) :
    (l.map HPtr.st).count .live = (l.map HPtr.obj?).countP Option.isSome := by
  induction l with
  | nil => rfl
  | cons a l ih => cases a <;> simp [HPtr.st, HPtr.obj?, ih]

theorem countP_res {Val : Type} (l : List (Option Val)) : (l.map Option.isSome).count true = l.countP Option.isSome := by
  induction l with
  | nil => rfl
  | cons a l ih => cases a <;> simp [ih]

theorem run_append (F : LifeFacts) (s : St) (a b : List Op) : run F s (a ++ b) = run F (run F s a) b := by
  simp [run, List.foldl_append]

theorem validRun_append (F : LifeFacts) : ∀ (a b : List Op) (s : St),
    validRun F s (a ++ b) = (validRun F s a && validRun F (run F s a) b)
  | [], b, s => by simp [validRun, run]
  | op :: a, b, s => by
    simp only [List.cons_append, validRun, run, List.foldl_cons, Bool.and_assoc]
    rw [validRun_append F a b (step F s op)]
    rfl

/-- … and therefore every history inside it: the C machine's final objects, results and buffers are the twin's, call by
    call the C caller saw what a faithful wrapper shows for the twin's outcome, the ownership state is the one
    `run`/`step` of Model/CApi.lean compute for some history that obeys the usage rule, and the ledger invariant holds. -/
theorem crun_refines {F : LifeFacts} (hF : F.Good) {T : List Wrapper} (hT : ∀ w ∈ T, wrapperOk w = true) (hL : LifeRetsOk T)
    (sem : Sem Obj Arg Val) (hsem : sem.WF) : ∀ (es : List (CCall Arg)) (s : CSt Obj Val), Inv s.erase → cDefinedRun F T sem s es = true →
    (crun F T sem s es).1.abs = (trun sem s.abs es).1 ∧
    agreesAll es (crun F T sem s es).2 (trun sem s.abs es).2 ∧
    Inv (crun F T sem s es).1.erase ∧
    (∃ ops, validRun F s.erase ops = true ∧ (crun F T sem s es).1.erase = run F s.erase ops)
  | [], s, hi, _ => ⟨rfl, trivial, hi, [], rfl, rfl⟩
  | e :: es, s, hi, hd => by
    simp only [cDefinedRun, Bool.and_eq_true] at hd
    obtain ⟨h1, h2, h3, h4⟩ := cstep_refines hF hT hL sem hsem s hi e hd.1
    obtain ⟨i1, _, _⟩ := run_inv hF (opOf sem s e) s.erase hi h2
    rw [← h1] at i1
    obtain ⟨k1, k2, k3, ops, k4, k5⟩ := crun_refines hF hT hL sem hsem es (cstep F T sem s e).1 i1 hd.2
    simp only [crun, trun]
    rw [← h3]
    refine ⟨k1, ⟨h4, k2⟩, k3, opOf sem s e ++ ops, ?_, ?_⟩
    · rw [validRun_append, h2, ← h1, k4]; rfl
    · rw [run_append, ← h1, k5]

end

end PsV.CApi
