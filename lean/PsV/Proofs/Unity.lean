import PsV.Proofs.EvalSpec
import Mathlib.Algebra.BigOperators.Group.Finset.Basic
import Mathlib.Algebra.BigOperators.Ring.Finset
/-!
Partition of unity: on a non-empty interval `left` of a sorted knot vector the `n+1` polynomial-piece
values `Bp … n (left-n+k)`, `k = 0..n`, sum to one.
-/
namespace PsV
open Finset
variable {α : Type} [Field α] [LinearOrder α]

theorem Bp_sum_one (t : Int → α) (x : α) (left : Int)
    (hne : t left < t (left + 1)) :
    ∀ (n : Nat), (∀ a b : Int, left - n ≤ a → a ≤ b → b ≤ left + n + 1 → t a ≤ t b) →
      ∑ k ∈ range (n + 1), Bp t x left n (left - n + k) = 1 := by
  intro n
  induction n with
  | zero => intro _; simp [Bp]
  | succ n ih =>
    intro hmono
    have ih' := ih (fun a b h1 h2 h3 => hmono a b (by push_cast; omega) h2 (by push_cast; omega))
    -- expand one level of the recurrence
    have hexp : ∀ k : Nat, Bp t x left (n+1) (left - ((n+1 : Nat) : Int) + k) =
        (x - t (left - n - 1 + k)) / (t (left + k) - t (left - n - 1 + k)) * Bp t x left n (left - n - 1 + k)
        + (t (left + k + 1) - x) / (t (left + k + 1) - t (left - n + k)) * Bp t x left n (left - n + k) := by
      intro k
      simp only [Bp]
      have e0 : left - ((n+1 : Nat) : Int) + k = left - n - 1 + k := by push_cast; ring
      have e1 : left - (n:Int) - 1 + k + n + 1 = left + k := by ring
      have e2 : left - (n:Int) - 1 + k + n + 2 = left + k + 1 := by ring
      have e3 : left - (n:Int) - 1 + k + 1 = left - n + k := by ring
      rw [e0, e1, e2, e3]
    simp only [hexp, sum_add_distrib]
    -- first sum: k = 0 term vanishes, shift the rest
    rw [sum_range_succ' (fun k : Nat => (x - t (left - n - 1 + k)) / (t (left + k) - t (left - n - 1 + k)) * Bp t x left n (left - n - 1 + k))]
    rw [sum_range_succ (fun k : Nat => (t (left + k + 1) - x) / (t (left + k + 1) - t (left - n + k)) * Bp t x left n (left - n + k))]
    have z1 : Bp t x left n (left - n - 1 + ((0:Nat):Int)) = 0 :=
      Bp_zero_of_not_mem t x left n _ (Or.inr (by push_cast; omega))
    have z2 : Bp t x left n (left - n + ((n+1 : Nat) : Int)) = 0 :=
      Bp_zero_of_not_mem t x left n _ (Or.inl (by push_cast; omega))
    rw [z1, z2, mul_zero, mul_zero, add_zero, add_zero, ← sum_add_distrib, ← ih']
    apply sum_congr rfl
    intro k hk
    rw [mem_range] at hk
    have e1 : left - (n:Int) - 1 + ((k+1 : Nat) : Int) = left - n + k := by push_cast; ring
    have e2 : left + ((k+1 : Nat) : Int) = left + k + 1 := by push_cast; ring
    rw [e1, e2]
    have hden : t (left + k + 1) - t (left - n + k) ≠ 0 := by
      have h1 : t (left - n + k) ≤ t left := hmono _ _ (by push_cast; omega) (by omega) (by push_cast; omega)
      have h2 : t (left + 1) ≤ t (left + k + 1) := hmono _ _ (by push_cast; omega) (by omega) (by push_cast; omega)
      have : t (left - n + k) < t (left + k + 1) := lt_of_le_of_lt h1 (lt_of_lt_of_le hne h2)
      exact sub_ne_zero.mpr (ne_of_gt this)
    field_simp
    ring

end PsV

namespace PsV
open Finset
variable {α : Type} [Field α] [LinearOrder α]
attribute [local instance] Arith.ofField

/-- in the fully supported region the margin loops do not move: the chosen interval is the centre -/
theorem shift_eq_center_of_full (t : Int → α) (nknots n : Nat) (x : α) (c : Nat) (l : Int)
    (hc : CenterOK t nknots n x c) (hs : ShiftOK t nknots n x c l)
    (hnd : t ((nknots:Int) - n - 2) < t ((nknots:Int) - n - 1) ∨ x ≠ t ((nknots:Int) - n - 1))
    (h1 : t n ≤ x) (h2 : x ≤ t ((nknots:Int) - n - 1)) : l = c := by
  obtain ⟨hl0, hl1, hb, hdown, hup⟩ := hs
  have hlen := hc.len
  have hmono := hc.mono
  have lower : (n:Int) ≤ l := by
    by_contra hlt
    have hlt : l < n := by omega
    have hln : t (l+1) ≤ t n := hmono _ _ (by omega) (by omega) (by omega)
    rcases hb with ⟨_, _, b2⟩ | ⟨hx, b1, b2⟩
    · exact absurd (lt_of_lt_of_le b2 (le_trans hln h1)) (lt_irrefl _)
    · have hnn : t n ≤ t ((nknots:Int) - n - 1) := hmono _ _ (by omega) (by omega) (by omega)
      have e1 : x = t ((nknots:Int) - n - 1) := le_antisymm h2 hx
      have e2 : t n = t ((nknots:Int) - n - 1) := le_antisymm hnn (by rw [← e1]; exact le_trans b2 hln)
      rcases hnd with hnd | hnd
      · have : t n ≤ t ((nknots:Int) - n - 2) := hmono _ _ (by omega) (by omega) (by omega)
        rw [e2] at this
        exact absurd (lt_of_lt_of_le hnd this) (lt_irrefl _)
      · exact hnd e1
  have upper : l ≤ (nknots:Int) - n - 2 := by
    by_contra hgt
    have hgt : (nknots:Int) - n - 1 ≤ l := by omega
    have hnl : t ((nknots:Int) - n - 1) ≤ t l := hmono _ _ (by omega) hgt (by omega)
    rcases hb with ⟨hx, b1, _⟩ | ⟨_, b1, _⟩
    · exact absurd (lt_of_le_of_lt (le_trans hnl b1) hx) (lt_irrefl _)
    · exact absurd (lt_of_lt_of_le b1 (le_trans h2 hnl)) (lt_irrefl _)
  by_contra hne
  rcases lt_or_gt_of_ne hne with h | h
  · have := hdown h; omega
  · have := hup h; have := hc.hi; omega

/-- in the fully supported range of a dimension the basis functions of the block sum to one -/
theorem window_sum_one (d : Dim α) (x : α) (c : Nat) (hwf : d.WF) (h : PointOK d x c)
    (h1 : d.knots d.order ≤ x) (h2 : x ≤ d.knots ((d.nknots:Int) - d.order - 1)) :
    ∑ k ∈ range (d.order + 1), Bsel d x 0 (c - d.order + k) = 1 := by
  obtain ⟨hc, hnd⟩ := h
  have hs := marginShift_spec d.knots d.nknots d.order x c hc hnd
  have hlc := shift_eq_center_of_full d.knots d.nknots d.order x c _ hc hs hnd h1 h2
  obtain ⟨hl0, hl1, hb, _, _⟩ := hs
  have hlo := hc.lo; have hhi := hc.hi
  have hne : d.knots c < d.knots ((c:Int) + 1) := by
    rw [hlc] at hb
    rcases hb with ⟨_, b1, b2⟩ | ⟨_, b1, b2⟩
    · exact lt_of_le_of_lt b1 b2
    · exact lt_of_lt_of_le b1 b2
  have hind : ∀ j : Int, 0 ≤ j → j ≤ (d.nknots:Int) - 2 →
      ((if x < d.knots ((d.nknots:Int) - d.order - 1) then indR d.knots x else indL d.knots x) j = true ↔ j = (c:Int)) := by
    rw [hlc] at hb hl0 hl1
    rcases hb with ⟨hx, b1, b2⟩ | ⟨hx, b1, b2⟩
    · rw [if_pos hx]; exact indR_iff d.knots x d.nknots _ hc.mono hl0 hl1 b1 b2
    · rw [if_neg (not_lt.mpr hx)]; exact indL_iff d.knots x d.nknots _ hc.mono hl0 hl1 b1 b2
  rw [← Bp_sum_one d.knots x c hne d.order (fun a b ha hab hb' => hc.mono a b (by omega) hab (by omega))]
  apply sum_congr rfl
  intro k hk
  rw [mem_range] at hk
  rw [Bsel_value d x hwf, Bind_eq_Bp d.knots x d.nknots c _ hind d.order _ (by push_cast; omega) (by push_cast; omega)]
  congr 1
  push_cast [Nat.cast_sub hlo]
  ring

/-- with all coefficients one the specification sum factorises into the per-dimension sums -/
theorem specSum_ones (coef : Int → α) (hones : ∀ i, coef i = 1) :
    ∀ (rows : List (Nat × List α)) (p : α) (pos : Int),
      specSum coef rows p pos = p * (rows.map fun r => r.2.sum).prod := by
  intro rows
  induction rows with
  | nil => intro p pos; simp [specSum, hones]
  | cons r rest ih =>
    intro p pos
    obtain ⟨s, fs⟩ := r
    simp only [specSum, List.map_cons, List.prod_cons]
    have : ∀ (l : List α) (q : Int), specSumRow (specSum coef rest) s p l q = p * l.sum * (rest.map fun r => r.2.sum).prod := by
      intro l
      induction l with
      | nil => intro q; simp [specSumRow]
      | cons a l ihl =>
        intro q
        simp only [specSumRow, of_add, of_mul, ih, ihl, List.sum_cons]
        ring
    rw [this]; ring

end PsV

namespace PsV
open Finset
variable {α : Type} [Field α] [LinearOrder α]
attribute [local instance] Arith.ofField

theorem list_sum_range' (f : Nat → α) (a : Nat) : ∀ m : Nat,
    ((List.range' a m).map f).sum = ∑ k ∈ range m, f (a + k) := by
  intro m
  induction m generalizing a with
  | zero => simp
  | succ m ih =>
    rw [List.range'_succ, List.map_cons, List.sum_cons, ih (a+1), sum_range_succ']
    simp only [Nat.add_zero]
    rw [add_comm]
    congr 1
    apply sum_congr rfl
    intro k _
    congr 1; omega

/-- every coordinate inside the fully supported range `[knots[order], knots[naxes]]` -/
def AllFull : List (Dim α) → List α → Prop
  | d :: ds, x :: xs => (d.knots d.order ≤ x ∧ x ≤ d.knots ((d.nknots:Int) - d.order - 1)) ∧ AllFull ds xs
  | _, _ => True

theorem prod_window_sums : ∀ (ds : List (Dim α)) (xs : List α) (cs : List Nat),
    AllOK ds xs cs → AllFull ds xs →
    ((winRows (dimWs ds xs cs (List.replicate ds.length .value))).map fun r => r.2.sum).prod = 1 := by
  intro ds
  induction ds with
  | nil => intro xs cs _ _; simp [dimWs, winRows]
  | cons d ds ih =>
    intro xs cs hok hfull
    cases xs with
    | nil => simp [AllOK] at hok
    | cons x xs =>
      cases cs with
      | nil => simp [AllOK] at hok
      | cons c cs =>
        obtain ⟨⟨hwf, hp⟩, hrest⟩ := hok
        obtain ⟨⟨f1, f2⟩, frest⟩ := hfull
        simp only [List.length_cons, List.replicate_succ, dimWs, winRows, List.map_cons, List.prod_cons]
        have := ih xs cs hrest frest
        simp only [winRows] at this
        rw [this, mul_one]
        simp only [dimW, derivOrder]
        rw [list_sum_range']
        exact window_sum_one d x c hwf hp f1 f2

/-- all coefficients one ⇒ value one on the fully supported region -/
theorem ndsplineeval_ones (T : Table α) (xs : List α) (cs : List Nat)
    (hok : AllOK T.dims xs cs) (hstride : lastStrideOne T.dims) (hones : ∀ i, T.coef i = 1)
    (hfull : AllFull T.dims xs) : ndsplineeval T xs cs 0 = 1 := by
  obtain ⟨r1, r2, r3, r4⟩ := rows_eq_winRows T.dims xs cs (List.replicate T.dims.length .value) hok (allModesOK_replicate_value _ _ (AllOK_lengths _ _ _ hok).1)
  obtain ⟨l1, l2⟩ := AllOK_lengths T.dims xs cs hok
  unfold ndsplineeval evalModes
  rw [maskModes_zero]
  have hl := rows_lastStride T.dims xs cs (List.replicate T.dims.length .value) l1 l2 (by simp) hstride
  rw [walk_eq T.coef _ hl, r1, specSum_ones T.coef hones, prod_window_sums T.dims xs cs hok hfull]
  simp

end PsV
