import PsV.Driver.C06
import PsV.Model.FitsReadState
import PsV.Model.FitsView
/-!
Driver for the second C07 correspondence: the step-by-step reader on the object and the lookup view of a read table.
(The reader verdict / table tie is command `R` of `PsV/Driver/C06.lean`.)

```
L <name> <hex>   any bytes: decode + guarded read + lookup probes
                 → L <name> undecodable | unmodelled
                 | L <name> err <site> guard=<empty|LEAK|FAULT>
                 | L <name> ok guard=<done|BAD|FAULT> lk=<probe results>
```
Probe `p` (0..11) takes in dimension `i` knot number `j = (7p + 3i + p²) mod nknots[i]` of the table that was read —
for odd `p` the midpoint `(knots[j] + knots[(j+1) mod nknots]) * 0.5` computed in double — and probe 11 puts a NaN
into dimension `11 mod ndim`.  The result of `searchCenters (t.lookupAxes …)` is printed as `R` (rejected), `N` (did
not terminate) or the centres joined by `.`; probes are joined by `;`.  The harness forms the same probes from the
table the real reader returned and calls the real `searchcenters`.
-/
namespace PsV.Driver.C07
open PsV PsV.Driver PsV.Fits PsV.Driver.C06

def nanBitsD : UInt64 := 0x7ff8000000000000

def probe (t : Fits.Table) (p : Nat) : List UInt64 :=
  (List.range t.ndim).map fun i =>
    if p = 11 ∧ i = 11 % t.ndim then nanBitsD else
    let k := t.knots.getD i []
    let j := (7 * p + 3 * i + p * p) % k.length
    let a := k.getD j 0
    if p % 2 = 1 then ((Float.ofBits a + Float.ofBits (k.getD ((j + 1) % k.length) 0)) * 0.5).toBits else a

def showRes : Res (List Nat) → String
  | .reject => "R"
  | .nonterm => "N"
  | .ok cs => ".".intercalate (cs.map toString)

def lookups (t : Fits.Table) : String :=
  ";".intercalate ((List.range 12).map fun p =>
    showRes (searchCenters (t.lookupAxes fun _ _ => none) ((probe t p).map keyOf)))

def handle (ws : List String) : String :=
  match ws with
  | ["L", name, hx] =>
    match unhex hx with
    | none => s!"L {name} bad-input"
    | some b =>
      match decodeFits b with
      | none => s!"L {name} undecodable"
      | some f =>
        if ¬ (modelledE ext f && rawOK true b) then s!"L {name} unmodelled" else
        match readGuarded ext f with
        | .error _ => s!"L {name} err ? guard=FAULT"
        | .ok (o, .error e) => s!"L {name} err {errName e} guard={if o = Obj.empty then "empty" else "LEAK"}"
        | .ok (o, .ok t) =>
          let g := match destroy o with
            | .ok [] => if o.ndim = t.ndim then "done" else "BAD"
            | _ => "BAD"
          s!"L {name} ok guard={g} lk={lookups t}"
  | _ => "bad-input"

def run : IO Unit := do
  lineLoop (← IO.getStdin) (← IO.getStdout) handle

end PsV.Driver.C07
