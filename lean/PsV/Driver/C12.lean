import PsV.Model.Sync
import PsV.Driver.Common
import Std.Data.HashMap
/-!
Driver for C12 (executes `PsV.Sync.step?`, `spur?`, `opOf`, `rank`, `selectSeq`, `anyEnabled`).

Lines
  `R rep n m resid status feas calcs expect tok*`   replay a pthread-call trace of the real `walk_descents`
        tok = `tid:op:snapshot:owner[:aidx,..]`  (snapshot: one of W/R/T per worker, `-` = not available)
        reply `ok final=<0|1> deadlock=<0|1> chosen=<k|-> feas=<0|1> calcs=<c> steps=<k>` or `BAD@<i> <why>`
  `W rep n m resid`        coordinator-starvation schedule produced by the model  → `sched=<t,t,..> end=<final|deadlock|open>`
  `E rep n m resid maxStates maxScheds spur`   breadth-first exploration of the model's state graph →
        `EXP states= trans= deadlocks= finals= complete= results= nsched=` then `S <t,..>` lines (a set of schedules whose
        prefixes cover every explored transition) and up to 3 `D <t,..>` lines (shortest schedules into deadlocked states)
resid = comma separated order-isomorphic integer keys of the residuals per trial index (`nan` = NaN), or `-`.
-/
namespace PsV.Driver.C12
open PsV.Sync PsV.Driver

def parseResid (s : String) : Array (Option Int) :=
  if s == "-" then #[] else ((s.splitOn ",").map fun t => t.toInt?).toArray

def mkCfg (rep : Bool) (n m : Nat) (resid : Array (Option Int)) : Cfg :=
  { n := n, m := m, repaired := rep,
    less := fun a b => match resid[a]?, resid[b]? with
      | some (some x), some (some y) => decide (x < y)
      | _, _ => false }

def stChar : WSt → Char
  | .wait => 'W' | .run => 'R' | .term => 'T'

def snapshot (c : Cfg) (s : State) : String := String.ofList ((List.range c.n).map fun w => stChar (s.st w))
def ownerStr (s : State) : String := match s.owner with | none => "-1" | some t => toString t

def chosenStr (s : State) : String :=
  match s.chosen with
  | some (some k, _) => toString k
  | some (none, _) => "garbage"
  | none => "-"
def feasStr (s : State) : String := match s.chosen with | some (_, true) => "1" | _ => "0"

/-- one token; returns the new state or an error text -/
def applyTok (c : Cfg) (s : State) (tok : String) : Except String State := do
  match tok.splitOn ":" with
  | tidS :: opS :: snap :: own :: rest =>
    let some tid := tidS.toNat? | throw s!"bad tid {tok}"
    let op := opS.front
    let s' ←
      if op == 'S' then
        match spur? c s tid with
        | some s' => pure s'
        | none => throw s!"spurious wake-up of {tid} not possible in the model"
      else do
        if opOf s tid != op then throw s!"thread {tid} issued {op} but the model expects {opOf s tid}"
        match step? c s tid with
        | some s' =>
          if !(rank c s' < rank c s) then throw s!"rank did not decrease ({rank c s} -> {rank c s'})"
          pure s'
        | none => throw s!"thread {tid} op {op} not enabled in the model"
    if snap != "-" then
      if snap != snapshot c s' then throw s!"worker states after {tidS}:{opS} are {snap}, model has {snapshot c s'}"
      if own != ownerStr s' then throw s!"mutex owner after {tidS}:{opS} is {own}, model has {ownerStr s'}"
    match rest with
    | [a] =>
      let idx := a.splitOn ","
      for (x, w) in idx.zip (List.range c.n) do
        if x != "x" && x.toNat? != some (s'.aidx w) then
          throw s!"alpha index of worker {w} is {x}, model has {s'.aidx w}"
    | _ => pure ()
    pure s'
  | _ => throw s!"bad token {tok}"

def replay (c : Cfg) (toks : List String) : Except String State := do
  let mut s := init c
  let mut i := 0
  for t in toks do
    match applyTok c s t with
    | .ok s' => s := s'
    | .error e => throw s!"BAD@{i} {e}"
    i := i + 1
  pure s

def isDead (c : Cfg) (s : State) : Bool := !isFinal s && !anyEnabled c s

def handleR (ws : List String) : String :=
  match ws with
  | rep :: n :: m :: resid :: status :: feas :: calcs :: expect :: toks =>
    match n.toNat?, m.toNat? with
    | some n, some m =>
      let c := mkCfg (rep == "1") n m (parseResid resid)
      match replay c toks with
      | .error e => e
      | .ok s =>
        let fin := isFinal s
        let dead := isDead c s
        let base := s!"final={if fin then 1 else 0} deadlock={if dead then 1 else 0} chosen={chosenStr s} feas={feasStr s} calcs={s.calcs} steps={toks.length}"
        if status == "ret" then
          if !fin then s!"BAD@end routine returned but the model is at a non-final state ({base})"
          else if chosenStr s != expect then s!"BAD@end chosen index {chosenStr s} but implementation/oracle {expect} ({base})"
          else if feasStr s != feas then s!"BAD@end feasible {feasStr s} vs {feas} ({base})"
          else if toString s.calcs != calcs then s!"BAD@end residual_calcs {s.calcs} vs {calcs} ({base})"
          else if (s.base, s.chosen) != selectSeq c.less c.m then s!"BAD@end model result differs from selectSeq ({base})"
          else "ok " ++ base
        else if status == "deadlock" then
          if dead then "ok " ++ base else s!"BAD@end implementation deadlocked, model state is not deadlocked ({base})"
        else s!"BAD@end status {status}"
    | _, _ => "bad-input"
  | _ => "bad-input"

def schedStr (l : List (Nat × Bool)) : String :=
  ",".intercalate (l.map fun (t, sp) => (if sp then "s" else "") ++ toString t)

/-- coordinator runs only when no worker can -/
def starve (c : Cfg) (fuel : Nat) : State × List (Nat × Bool) := Id.run do
  let mut s := init c
  let mut acc : List (Nat × Bool) := []
  for _ in [0:fuel] do
    if isFinal s then break
    let mut found := false
    for w in [0:c.n] do
      if !found then
        match step? c s (w+1) with
        | some s' => s := s'; acc := (w+1, false) :: acc; found := true
        | none => pure ()
    if !found then
      match step? c s 0 with
      | some s' => s := s'; acc := (0, false) :: acc; found := true
      | none => pure ()
    if !found then break
  return (s, acc.reverse)

def handleW (ws : List String) : String :=
  match ws with
  | [rep, n, m, resid] =>
    match n.toNat?, m.toNat? with
    | some n, some m =>
      let c := mkCfg (rep == "1") n m (parseResid resid)
      let (s, sch) := starve c 100000
      s!"sched={schedStr sch} end={if isFinal s then "final" else if isDead c s then "deadlock" else "open"}"
    | _, _ => "bad-input"
  | _ => "bad-input"

def cpcCode : CPc → Nat
  | .create k => 100 + k | .join k => 100000 + k | .lockA => 1 | .bcastA => 2 | .unlockA => 3 | .lockB => 4
  | .condWait => 5 | .waiting => 6 | .woken => 7 | .unlockB => 8 | .lockT => 9 | .bcastT => 10 | .unlockT => 11 | .final => 12
def wpcCode : WPc → Nat
  | .idle => 0 | .lock1 => 1 | .hold => 2 | .waiting => 3 | .woken => 4 | .lock2 => 5 | .bcast => 6 | .unlock2 => 7 | .exit => 8 | .done => 9
def wstCode : WSt → Nat
  | .wait => 0 | .run => 1 | .term => 2
def optCode : Option Nat → Nat
  | none => 0 | some k => k + 1

def keyOf (c : Cfg) (s : State) : String :=
  let hd := [cpcCode s.cpc, s.blk, optCode s.owner, optCode s.base, s.calcs,
             match s.chosen with | none => 0 | some (v, f) => 1 + 2 * optCode v + (if f then 1 else 0)]
  let ws := (List.range c.n).flatMap fun w => [wpcCode (s.wpc w), wstCode (s.st w), s.aidx w, optCode (s.val w)]
  toString (hd ++ ws)

structure Node where
  s : State
  parent : Nat
  lab : Nat × Bool
  depth : Nat

instance : Inhabited Node := ⟨{ s := init { n := 1, m := 1, less := fun _ _ => false, repaired := true }, parent := 0, lab := (0, false), depth := 0 }⟩

def pathTo (nodes : Array Node) (i : Nat) : List (Nat × Bool) := Id.run do
  let mut acc : List (Nat × Bool) := []
  let mut j := i
  for _ in [0:nodes.size] do
    if j == 0 then break
    match nodes[j]? with
    | some nd => acc := nd.lab :: acc; j := nd.parent
    | none => break
  return acc

def explore (c : Cfg) (maxStates maxScheds : Nat) (spur : Bool) : List String := Id.run do
  let mut nodes : Array Node := #[{ s := init c, parent := 0, lab := (0, false), depth := 0 }]
  let mut seen : Std.HashMap String Nat := Std.HashMap.emptyWithCapacity 1024
  seen := seen.insert (keyOf c (init c)) 0
  -- non-tree edges (source node, label), tree leaves
  let mut extra : Array (Nat × (Nat × Bool)) := #[]
  let mut hasChild : Array Bool := #[false]
  let mut trans := 0
  let mut deadl : Array Nat := #[]
  let mut finals := 0
  let mut results : List String := []
  let mut head := 0
  let mut complete := true
  while head < nodes.size do
    let nd := nodes[head]!
    let s := nd.s
    if isFinal s then
      finals := finals + 1
      let r := chosenStr s ++ "/" ++ feasStr s
      if !results.contains r then results := r :: results
    else if !anyEnabled c s then deadl := deadl.push head
    let labs : List (Nat × Bool) :=
      (List.range (c.n + 1)).map (fun t => (t, false)) ++ (if spur then (List.range (c.n + 1)).map (fun t => (t, true)) else [])
    for lab in labs do
      let r := if lab.2 then spur? c s lab.1 else step? c s lab.1
      match r with
      | none => pure ()
      | some s' =>
        trans := trans + 1
        let k := keyOf c s'
        match seen[k]? with
        | some _ => extra := extra.push (head, lab)
        | none =>
          if nodes.size < maxStates then
            seen := seen.insert k nodes.size
            nodes := nodes.push { s := s', parent := head, lab := lab, depth := nd.depth + 1 }
            hasChild := hasChild.push false
            hasChild := hasChild.set! head true
          else complete := false
    head := head + 1
  let mut out : List String := []
  let mut ns := 0
  -- tree leaves cover all tree edges; non-tree edges need their own schedule
  for i in [0:nodes.size] do
    if !hasChild[i]! && i != 0 then
      if ns < maxScheds then out := ("S " ++ schedStr (pathTo nodes i)) :: out
      ns := ns + 1
  for (src, lab) in extra do
    if ns < maxScheds then out := ("S " ++ schedStr (pathTo nodes src ++ [lab])) :: out
    ns := ns + 1
  let dl := (deadl.toList.take 3).map fun i => "D " ++ schedStr (pathTo nodes i)
  let hdr := s!"EXP states={nodes.size} trans={trans} deadlocks={deadl.size} finals={finals} complete={if complete then 1 else 0} results={",".intercalate results} nsched={ns} emitted={out.length}"
  return hdr :: (dl ++ out.reverse)

def handleE (ws : List String) : List String :=
  match ws with
  | [rep, n, m, resid, ms, msch, sp] =>
    match n.toNat?, m.toNat?, ms.toNat?, msch.toNat? with
    | some n, some m, some ms, some msch => explore (mkCfg (rep == "1") n m (parseResid resid)) ms msch (sp == "1")
    | _, _, _, _ => ["bad-input"]
  | _ => ["bad-input"]

partial def loop (h out : IO.FS.Stream) : IO Unit := do
  let line ← h.getLine
  if line.isEmpty then return ()
  match words line with
  | "R" :: rest => out.putStrLn (handleR rest)
  | "W" :: rest => out.putStrLn (handleW rest)
  | "E" :: rest => for l in handleE rest do out.putStrLn l
  | _ => out.putStrLn "bad-input"
  loop h out

def run : IO Unit := do loop (← IO.getStdin) (← IO.getStdout)

end PsV.Driver.C12
