import PsV.Model.Sync
import PsV.Model.SyncData
import PsV.Driver.Common
import Std.Data.HashMap
/-!
Driver for C12 (executes `PsV.Sync.step?`, `spur?`, `opOf`, `rank`, `selectSeq`, `anyEnabled`, and the data layer
`stepD?`, `spurD?`, `seqD` of Model/SyncData.lean on symbolic data: `x` = a version number (0 = value on entry, k+1 = entry
value with the record of trial k copied in), a record = (α index, version of `x` it was computed from)).

Lines
  `R rep n m resid status feas calcs expect tok*`   replay a pthread-call trace of the real `walk_descents`
        tok = `tid:op:snapshot:owner[:aidx,..]`  (snapshot: one of W/R/T per worker, `-` = not available); a worker token
        `tid:U:..:..:d<aidx>,<xdiff>,<receq>` reports a finished computation (α index read, x changed since entry, record
        equals the oracle's trial of that index)
        reply `ok final=<0|1> deadlock=<0|1> chosen=<k|-> feas=<0|1> calcs=<c> steps=<k> xver=<v> cnt=<c0,c1,..> alldone=<0|1>`
        or `BAD@<i> <why>`
  `F threads nF fl modfl nH`   `factorUpdate` (modify_factor's update-vs-refactor decision) → `FU <0|1>`
  `L`                      the lost-wake-up witness of `C12_lost_wakeup_reachable`: `LW n=<n> m=<m> sched=<t,..>`
  `W rep n m resid`        coordinator-starvation schedule produced by the model  → `sched=<t,t,..> end=<final|deadlock|open>`
  `E rep n m resid maxStates maxScheds spur`   breadth-first exploration of the model's state graph →
        `EXP states= trans= deadlocks= finals= complete= results= nsched=` then `S <t,..>` lines (a set of schedules whose
        prefixes cover every explored transition) and up to 3 `D <t,..>` lines (shortest schedules into deadlocked states)
resid = comma separated order-isomorphic integer keys of the residuals per trial index (`nan` = NaN), or `-`.
-/
namespace PsV.Driver.C12
open PsV.Sync PsV.Driver

def parseResid (s : String) : Array (Option Int) :=
  if s == "-" then #[] else ((s.splitOn ",").map fun t => t.toInt?).toArray

def mkCfg (rep : Bool) (n m : Nat) (resid : Array (Option Int)) : Cfg :=
  { n := n, m := m, repaired := rep,
    less := fun a b => match resid[a]?, resid[b]? with
      | some (some x), some (some y) => decide (x < y)
      | _, _ => false }

/-- symbolic data: see the header -/
def mkProb (rep : Bool) (n m : Nat) (resid : Array (Option Int)) : DProb Nat (Nat × Nat) :=
  { n := n, m := m, repaired := rep, x0 := 0,
    num := { trial := fun x k => (k, x),
             lt := fun a b => a.2 == 0 && b.2 == 0 && (match resid[a.1]?, resid[b.1]? with
               | some (some x), some (some y) => decide (x < y)
               | _, _ => false),
             put := fun x r => if x == 0 && r.2 == 0 then r.1 + 1 else 1000000 } }

def stChar : WSt → Char
  | .wait => 'W' | .run => 'R' | .term => 'T'

def snapshot (c : Cfg) (s : State) : String := String.ofList ((List.range c.n).map fun w => stChar (s.st w))
def ownerStr (s : State) : String := match s.owner with | none => "-1" | some t => toString t

def chosenStr (s : State) : String :=
  match s.chosen with
  | some (some k, _) => toString k
  | some (none, _) => "garbage"
  | none => "-"
def feasStr (s : State) : String := match s.chosen with | some (_, true) => "1" | _ => "0"

def cpcCode : CPc → Nat
  | .create k => 100 + k | .join k => 100000 + k | .lockA => 1 | .bcastA => 2 | .unlockA => 3 | .lockB => 4
  | .condWait => 5 | .waiting => 6 | .woken => 7 | .unlockB => 8 | .lockT => 9 | .bcastT => 10 | .unlockT => 11 | .final => 12
def wpcCode : WPc → Nat
  | .idle => 0 | .lock1 => 1 | .hold => 2 | .waiting => 3 | .woken => 4 | .lock2 => 5 | .bcast => 6 | .unlock2 => 7 | .exit => 8 | .done => 9
def wstCode : WSt → Nat
  | .wait => 0 | .run => 1 | .term => 2
def optCode : Option Nat → Nat
  | none => 0 | some k => k + 1

def keyOf (c : Cfg) (s : State) : String :=
  let hd := [cpcCode s.cpc, s.blk, optCode s.owner, optCode s.base, s.calcs,
             match s.chosen with | none => 0 | some (v, f) => 1 + 2 * optCode v + (if f then 1 else 0)]
  let ws := (List.range c.n).flatMap fun w => [wpcCode (s.wpc w), wstCode (s.st w), s.aidx w, optCode (s.val w)]
  toString (hd ++ ws)

/-- one token; returns the new state or an error text.  The data model `stepD?` / `spurD?` is executed; its control
    part must coincide with what `step?` / `spur?` produce (the refinement theorem `C12_data_refines_control`, executed). -/
def applyTok (P : DProb Nat (Nat × Nat)) (d : DState Nat (Nat × Nat)) (tok : String) : Except String (DState Nat (Nat × Nat)) := do
  let c := P.cfg
  let s := d.ctl
  match tok.splitOn ":" with
  | tidS :: opS :: snap :: own :: rest =>
    let some tid := tidS.toNat? | throw s!"bad tid {tok}"
    let op := opS.front
    let (s', d') ←
      if op == 'S' then
        match spur? c s tid, spurD? P d tid with
        | some s', some d' => pure (s', d')
        | _, _ => throw s!"spurious wake-up of {tid} not possible in the model"
      else do
        if opOf s tid != op then throw s!"thread {tid} issued {op} but the model expects {opOf s tid}"
        match step? c s tid, stepD? P d tid with
        | some s', some d' =>
          if !(rank c s' < rank c s) then throw s!"rank did not decrease ({rank c s} -> {rank c s'})"
          pure (s', d')
        | some _, none => throw s!"thread {tid} op {op}: enabled in the hand-shake model but not in the data model"
        | none, _ => throw s!"thread {tid} op {op} not enabled in the model"
    if keyOf c s' != keyOf c d'.ctl then throw s!"data model and hand-shake model disagree after {tidS}:{opS}"
    if snap != "-" then
      if snap != snapshot c s' then throw s!"worker states after {tidS}:{opS} are {snap}, model has {snapshot c s'}"
      if own != ownerStr s' then throw s!"mutex owner after {tidS}:{opS} is {own}, model has {ownerStr s'}"
    -- has this transition opened a compute region (worker saw RUN and unlocked)?
    let opened := op == 'U' && tid ≥ 1 && s.wpc (tid - 1) == .hold && s.st (tid - 1) == .run
    match rest with
    | [a] =>
      if a.startsWith "d" then
        -- the code reports a finished computation of worker tid-1 (observed at the END of its compute region)
        if !opened then throw s!"thread {tid} reports a computation but the model has not opened a compute region"
        let w := tid - 1
        match ((a.drop 1).toString.splitOn ",").map String.toInt? with
        | [some k, some xdiff, some receq] =>
          if k != (d'.rda w : Int) then throw s!"worker {w} computed with alpha index {k}, the model's worker read index {d'.rda w}"
          if k != (s'.blk * c.n + w : Nat) then throw s!"worker {w} computed alpha index {k}, not blk*n+w = {s'.blk * c.n + w}"
          if (xdiff != 0) != (d'.rdx w != 0) then
            throw s!"worker {w}: x {if xdiff != 0 then "changed" else "unchanged"} during the run, the model's worker read version {d'.rdx w}"
          if xdiff != 0 then throw s!"worker {w} computed from an x that is not the entry value"
          if receq != 1 then throw s!"record of worker {w} (alpha index {k}) differs from the single-threaded trial of that index"
        | _ => throw s!"bad data field {a}"
      else
        if opened && snap != "-" then throw s!"worker {tid - 1} finished a computation without reporting its data"
        let idx := a.splitOn ","
        for (x, w) in idx.zip (List.range c.n) do
          if x != "x" && x.toNat? != some (s'.aidx w) then
            throw s!"alpha index of worker {w} is {x}, model has {s'.aidx w}"
    | _ => if opened && snap != "-" then throw s!"worker {tid - 1} finished a computation without reporting its data"
    pure d'
  | _ => throw s!"bad token {tok}"

def replay (P : DProb Nat (Nat × Nat)) (toks : List String) : Except String (DState Nat (Nat × Nat)) := do
  let mut d := initD P
  let mut i := 0
  for t in toks do
    match applyTok P d t with
    | .ok d' => d := d'
    | .error e => throw s!"BAD@{i} {e}"
    i := i + 1
  pure d

def isDead (c : Cfg) (s : State) : Bool := !isFinal s && !anyEnabled c s

def allDone (c : Cfg) (s : State) : Bool :=
  s.owner.isNone && (List.range c.n).all fun w => s.wpc w == .done

def handleR (ws : List String) : String :=
  match ws with
  | rep :: n :: m :: resid :: status :: feas :: calcs :: expect :: toks =>
    match n.toNat?, m.toNat? with
    | some n, some m =>
      let P := mkProb (rep == "1") n m (parseResid resid)
      let c := P.cfg
      match replay P toks with
      | .error e => e
      | .ok d =>
        let s := d.ctl
        let fin := isFinal s
        let dead := isDead c s
        let cnts := (List.range m).map d.cnt
        let base := s!"final={if fin then 1 else 0} deadlock={if dead then 1 else 0} chosen={chosenStr s} feas={feasStr s} calcs={s.calcs} steps={toks.length} xver={d.x} cnt={",".intercalate (cnts.map toString)} alldone={if allDone c s then 1 else 0}"
        if status == "ret" then
          if !fin then s!"BAD@end routine returned but the model is at a non-final state ({base})"
          else if chosenStr s != expect then s!"BAD@end chosen index {chosenStr s} but implementation/oracle {expect} ({base})"
          else if feasStr s != feas then s!"BAD@end feasible {feasStr s} vs {feas} ({base})"
          else if toString s.calcs != calcs then s!"BAD@end residual_calcs {s.calcs} vs {calcs} ({base})"
          else if (s.base, s.chosen) != selectSeq c.less c.m then s!"BAD@end model result differs from selectSeq ({base})"
          else if d.outputs != seqD P then s!"BAD@end data outputs differ from the single-threaded specification seqD ({base})"
          else if some d.x != expect.toNat?.map (· + 1) then s!"BAD@end x holds version {d.x}, expected the record of trial {expect} ({base})"
          else if cnts != (List.range m).map (fun k => if k < s.blk * n then 1 else 0) then s!"BAD@end evaluation counts are not exactly-once over the processed blocks ({base})"
          else if !allDone c s then s!"BAD@end routine returned but not every worker has exited / mutex owned ({base})"
          else "ok " ++ base
        else if status == "deadlock" then
          if dead then "ok " ++ base else s!"BAD@end implementation deadlocked, model state is not deadlocked ({base})"
        else s!"BAD@end status {status}"
    | _, _ => "bad-input"
  | _ => "bad-input"

def schedStr (l : List (Nat × Bool)) : String :=
  ",".intercalate (l.map fun (t, sp) => (if sp then "s" else "") ++ toString t)

/-- coordinator runs only when no worker can -/
def starve (c : Cfg) (fuel : Nat) : State × List (Nat × Bool) := Id.run do
  let mut s := init c
  let mut acc : List (Nat × Bool) := []
  for _ in [0:fuel] do
    if isFinal s then break
    let mut found := false
    for w in [0:c.n] do
      if !found then
        match step? c s (w+1) with
        | some s' => s := s'; acc := (w+1, false) :: acc; found := true
        | none => pure ()
    if !found then
      match step? c s 0 with
      | some s' => s := s'; acc := (0, false) :: acc; found := true
      | none => pure ()
    if !found then break
  return (s, acc.reverse)

def handleW (ws : List String) : String :=
  match ws with
  | [rep, n, m, resid] =>
    match n.toNat?, m.toNat? with
    | some n, some m =>
      let c := mkCfg (rep == "1") n m (parseResid resid)
      let (s, sch) := starve c 100000
      s!"sched={schedStr sch} end={if isFinal s then "final" else if isDead c s then "deadlock" else "open"}"
    | _, _ => "bad-input"
  | _ => "bad-input"

structure Node where
  s : State
  parent : Nat
  lab : Nat × Bool
  depth : Nat

instance : Inhabited Node := ⟨{ s := init { n := 1, m := 1, less := fun _ _ => false, repaired := true }, parent := 0, lab := (0, false), depth := 0 }⟩

def pathTo (nodes : Array Node) (i : Nat) : List (Nat × Bool) := Id.run do
  let mut acc : List (Nat × Bool) := []
  let mut j := i
  for _ in [0:nodes.size] do
    if j == 0 then break
    match nodes[j]? with
    | some nd => acc := nd.lab :: acc; j := nd.parent
    | none => break
  return acc

def explore (c : Cfg) (maxStates maxScheds : Nat) (spur : Bool) : List String := Id.run do
  let mut nodes : Array Node := #[{ s := init c, parent := 0, lab := (0, false), depth := 0 }]
  let mut seen : Std.HashMap String Nat := Std.HashMap.emptyWithCapacity 1024
  seen := seen.insert (keyOf c (init c)) 0
  -- non-tree edges (source node, label), tree leaves
  let mut extra : Array (Nat × (Nat × Bool)) := #[]
  let mut hasChild : Array Bool := #[false]
  let mut trans := 0
  let mut deadl : Array Nat := #[]
  let mut finals := 0
  let mut results : List String := []
  let mut head := 0
  let mut complete := true
  while head < nodes.size do
    let nd := nodes[head]!
    let s := nd.s
    if isFinal s then
      finals := finals + 1
      let r := chosenStr s ++ "/" ++ feasStr s
      if !results.contains r then results := r :: results
    else if !anyEnabled c s then deadl := deadl.push head
    let labs : List (Nat × Bool) :=
      (List.range (c.n + 1)).map (fun t => (t, false)) ++ (if spur then (List.range (c.n + 1)).map (fun t => (t, true)) else [])
    for lab in labs do
      let r := if lab.2 then spur? c s lab.1 else step? c s lab.1
      match r with
      | none => pure ()
      | some s' =>
        trans := trans + 1
        let k := keyOf c s'
        match seen[k]? with
        | some _ => extra := extra.push (head, lab)
        | none =>
          if nodes.size < maxStates then
            seen := seen.insert k nodes.size
            nodes := nodes.push { s := s', parent := head, lab := lab, depth := nd.depth + 1 }
            hasChild := hasChild.push false
            hasChild := hasChild.set! head true
          else complete := false
    head := head + 1
  let mut out : List String := []
  let mut ns := 0
  -- tree leaves cover all tree edges; non-tree edges need their own schedule
  for i in [0:nodes.size] do
    if !hasChild[i]! && i != 0 then
      if ns < maxScheds then out := ("S " ++ schedStr (pathTo nodes i)) :: out
      ns := ns + 1
  for (src, lab) in extra do
    if ns < maxScheds then out := ("S " ++ schedStr (pathTo nodes src ++ [lab])) :: out
    ns := ns + 1
  let dl := (deadl.toList.take 3).map fun i => "D " ++ schedStr (pathTo nodes i)
  let hdr := s!"EXP states={nodes.size} trans={trans} deadlocks={deadl.size} finals={finals} complete={if complete then 1 else 0} results={",".intercalate results} nsched={ns} emitted={out.length}"
  return hdr :: (dl ++ out.reverse)

def handleE (ws : List String) : List String :=
  match ws with
  | [rep, n, m, resid, ms, msch, sp] =>
    match n.toNat?, m.toNat?, ms.toNat?, msch.toNat? with
    | some n, some m, some ms, some msch => explore (mkCfg (rep == "1") n m (parseResid resid)) ms msch (sp == "1")
    | _, _, _, _ => ["bad-input"]
  | _ => ["bad-input"]

partial def loop (h out : IO.FS.Stream) : IO Unit := do
  let line ← h.getLine
  if line.isEmpty then return ()
  match words line with
  | "R" :: rest => out.putStrLn (handleR rest)
  | "W" :: rest => out.putStrLn (handleW rest)
  | ["F", th, nF, fl, modfl, nH] =>
    match th.toNat?, nF.toNat?, fl.toNat?, modfl.toNat?, nH.toNat? with
    | some th, some nF, some fl, some modfl, some nH => out.putStrLn s!"FU {if factorUpdate th true nF fl modfl nH then 1 else 0}"
    | _, _, _, _, _ => out.putStrLn "bad-input"
  | "L" :: _ => out.putStrLn s!"LW n={lostWakeupCfg.n} m={lostWakeupCfg.m} rep={if lostWakeupCfg.repaired then 1 else 0} sched={schedStr lostWakeupSchedule}"
  | "E" :: rest => for l in handleE rest do out.putStrLn l
  | _ => out.putStrLn "bad-input"
  loop h out

def run : IO Unit := do loop (← IO.getStdin) (← IO.getStdout)

end PsV.Driver.C12
