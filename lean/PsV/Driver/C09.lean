import PsV.Model.FitGlam
import PsV.Model.GlamFlatten
import PsV.Driver.C17
/-!
Driver for C09 (unconstrained penalised fit).  Stateful: an `F` line sets the current problem, `C` lines judge
coefficient vectors returned by the real fit against it.  All arithmetic is exact (`Rat`).

  `F ndim (order nknots knotbits*)* (npts xbits*)* nrows (idx* zbits wbits)* ns smoothbits* np porder*`
      → `notspd N` | `spd N R glamM=<0|1> glamR=<0|1> cert=<0|1> sym=<0|1> Mnorm rnorm cstarnorm objstar minpivot`
        spec: `specM`, `specR`, `specFit` (exact elimination; `notspd` when a pivot is not positive);
        `glamM/glamR`: the system assembled by the model of glam.c (`glamSystem`) equals the spec's (per-instance
        re-check of the theorem `glam_eq_kron_C09`); `spd` is a proved certificate (`specFit_certifies_posDef`);
        `cert`: `M·c* = r` holds exactly; `sym`: `M` is symmetric.
  `C ncoef cbits32*` → `resid cnorm diff objhat maxres_hat maxres_star zmax`
        `resid = ‖M ĉ − r‖∞`, `diff = ‖ĉ − c*‖∞`, `objhat = objective ĉ`, `maxres = max_r |z_r − (B c)_r|`.
  `L ndim ranges* ncol nentries (idx*)*` → `ub` | `ok pre=<0|1> (row col)*`
        stateless: `flattenC` (Model/GlamFlatten.lean, the index arithmetic of `flatten_ndarray_to_sparse` in its C types,
        `long moduli[]`) for every listed entry; `pre`: the hypotheses of `flatten_ctypes_exact` hold (ranges fit
        `unsigned`, indices inside the ranges, `Π ranges < 2⁶³`, `0 < ncol < 2⁶⁴`).
-/
namespace PsV.Driver.C09
open PsV PsV.Driver PsV.Driver.Eval PsV.Driver.C17

structure State where
  P : FitProblem Rat
  M : Tab2 Rat
  r : Array Rat
  cstar : Array Rat
  B : Tab2 Rat

def rmax (l : List Rat) : Rat := l.foldl (fun a b => if a < ratAbs b then ratAbs b else a) 0

def parseKnotDims : Nat → List String → Option (List (Nat × Array UInt64) × List String)
  | 0, rest => some ([], rest)
  | n+1, o :: nk :: rest => do
    let order ← o.toNat?
    let nknots ← nk.toNat?
    let (ks, rest) ← takeN nknots rest
    let kb ← bitsList ks
    let (ds, rest) ← parseKnotDims n rest
    pure ((order, kb.toArray) :: ds, rest)
  | _, _ => none

def parseRows (nd : Nat) : Nat → List String → Option (List (List Nat × Rat × Rat) × List String)
  | 0, rest => some ([], rest)
  | n+1, rest => do
    let (iw, rest) ← takeN nd rest
    let idx ← natList iw
    match rest with
    | zb :: wb :: rest =>
      let z ← (zb.toNat?.map (·.toUInt64)).bind ratOfBits
      let w ← (wb.toNat?.map (·.toUInt64)).bind ratOfBits
      let (es, rest) ← parseRows nd n rest
      pure ((idx, z, w) :: es, rest)
    | _ => none

/-- row-major strides from the axis lengths -/
def stridesOf : List Nat → List Nat
  | [] => []
  | _ :: ns => natProd ns :: stridesOf ns

def mkDims (kd : List (Nat × Array UInt64)) : List (Dim Rat) :=
  let ns := kd.map fun (o, kb) => kb.size - o - 1
  (kd.zip (stridesOf ns)).map fun ((o, kb), s) =>
    let kr : Array Rat := kb.map fun u => (ratOfBits u).getD 0      -- converted once
    ⟨o, kb.size, kb.size - o - 1, s, fun i => if i < 0 then 0 else kr.getD i.toNat 0⟩

def b01 (b : Bool) : String := if b then "1" else "0"

def handleF (ws : List String) : Option State × String :=
  let r : Option (Option State × String) := do
    match ws with
    | ndw :: rest =>
      let nd ← ndw.toNat?
      let (kd, rest) ← parseKnotDims nd rest
      let (cb, rest) ← parseCoords nd rest
      let coords ← cb.mapM (fun l => l.mapM ratOfBits)
      match rest with
      | nr :: rest =>
        let nrows ← nr.toNat?
        let (rows, rest) ← parseRows nd nrows rest
        match rest with
        | nsw :: rest =>
          let ns ← nsw.toNat?
          let (sw, rest) ← takeN ns rest
          let smooth ← (← bitsList sw).mapM ratOfBits
          match rest with
          | npw :: rest =>
            let np ← npw.toNat?
            let (pw, _) ← takeN np rest
            let porder ← natList pw
            let dims := mkDims kd
            let P : FitProblem Rat :=
              ⟨dims, coords, (rows.map fun (idx, z, w) => (⟨idx, z, w⟩ : FitRow Rat)).toArray,
               (List.range nd).map (fun i => pick smooth i 0), (List.range nd).map (fun i => pick porder i 0)⟩
            let N := P.ncoef
            let M := specM P
            let rv := specR P
            match solveSPD M rv with
            | none => pure (none, s!"notspd {N}")
            | some cs =>
              let idxN := List.range N
              let cert := idxN.all fun i => (sumTo N fun j => M.get i j * cs.getD j 0) == rv.getD i 0
              let sym := idxN.all fun i => idxN.all fun j => M.get i j == M.get j i
              let (gM, gR) := match glamSystem dims coords (coords.map List.length) (rows.map fun (idx, z, _) => (idx, z)) (rows.map fun (_, _, w) => w) smooth porder with
                | none => (false, false)
                | some S => (idxN.all fun i => idxN.all fun j => S.fitmat.get i j == M.get i j,
                             S.rhs.size == N && idxN.all fun i => S.rhs.getD i 0 == rv.getD i 0)
              let mnorm := rmax (idxN.map fun i => idxN.foldl (fun a j => a + ratAbs (M.get i j)) 0)
              let cfun : Nat → Rat := fun i => cs.getD i 0
              let st : State := ⟨P, M, rv, cs, designTab P⟩
              pure (some st, s!"spd {N} {P.rows.size} glamM={b01 gM} glamR={b01 gR} cert={b01 cert} sym={b01 sym} {showRat mnorm} {showRat (rmax rv.toList)} {showRat (rmax cs.toList)} {showRat (objective P cfun)} {showRat (match spdPivots M with | some (p :: ps) => ps.foldl (fun a b => if b < a then b else a) p | _ => 0)}")
          | [] => none
        | [] => none
      | [] => none
    | [] => none
  r.getD (none, "bad-input")

def maxRes (st : State) (c : Nat → Rat) : Rat :=
  let N := st.P.ncoef
  rmax ((List.range st.P.rows.size).map fun r => rowZ st.P r - sumTo N fun i => st.B.get r i * c i)

def handleC (st : Option State) (ws : List String) : String :=
  match st with
  | none => "no-problem"
  | some st =>
    match ws with
    | ncw :: cw =>
      match ncw.toNat?, cw.mapM (fun s => s.toNat?.map (·.toUInt32)) with
      | some nc, some cb =>
        let N := st.P.ncoef
        if nc ≠ N || cb.length ≠ N then "bad-size" else
        match cb.mapM (fun u => ratOfBits (Float32.ofBits u).toFloat.toBits) with
        | none => "nonfinite"
        | some cl =>
          let ca := cl.toArray
          let c : Nat → Rat := fun i => ca.getD i 0
          let idxN := List.range N
          let resid := rmax (idxN.map fun i => (sumTo N fun j => st.M.get i j * c j) - st.r.getD i 0)
          let diff := rmax (idxN.map fun i => c i - st.cstar.getD i 0)
          let zmax := rmax ((List.range st.P.rows.size).map fun r => rowZ st.P r)
          s!"{showRat resid} {showRat (rmax cl)} {showRat diff} {showRat (objective st.P c)} {showRat (maxRes st c)} {showRat (maxRes st fun i => st.cstar.getD i 0)} {showRat zmax}"
      | _, _ => "bad-input"
    | [] => "bad-input"

def parseTuples (nd : Nat) : Nat → List String → Option (List (List Nat))
  | 0, _ => some []
  | n+1, rest => do
    let (iw, rest) ← takeN nd rest
    let idx ← natList iw
    let es ← parseTuples nd n rest
    pure (idx :: es)

def handleL (ws : List String) : String :=
  let r : Option String := do
    match ws with
    | ndw :: rest =>
      let nd ← ndw.toNat?
      let (rw, rest) ← takeN nd rest
      let ranges ← natList rw
      match rest with
      | ncw :: new :: rest =>
        let ncol ← ncw.toNat?
        let ne ← new.toNat?
        let es ← parseTuples nd ne rest
        let pre := ranges.all (fun r => decide (r < 4294967296)) && decide (natProd ranges < 9223372036854775808)
          && decide (0 < ncol) && decide (ncol < 18446744073709551616)
          && es.all (fun e => e.length == nd && (e.zip ranges).all fun (i, r) => decide (i < r))
        let outs := es.map fun e => flattenC ranges e ncol
        if outs.any (fun o => match o with | .ok _ => false | _ => true) then pure "ub" else
        pure (s!"ok pre={b01 pre}" ++ String.join (outs.map fun o => match o with | .ok (r, c) => s!" {r} {c}" | _ => ""))
      | _ => none
    | [] => none
  r.getD "bad-input"

partial def loop (h out : IO.FS.Stream) (st : Option State) : IO Unit := do
  let line ← h.getLine
  if line.isEmpty then return ()
  match words line with
  | "F" :: rest =>
    let (st', o) := handleF rest
    out.putStrLn o
    loop h out st'
  | "C" :: rest =>
    out.putStrLn (handleC st rest)
    loop h out st
  | "L" :: rest =>
    out.putStrLn (handleL rest)
    loop h out st
  | _ =>
    out.putStrLn "bad-input"
    loop h out st

def run : IO Unit := do loop (← IO.getStdin) (← IO.getStdout) none

end PsV.Driver.C09
