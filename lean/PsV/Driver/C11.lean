import PsV.Model.Nnls
import PsV.Model.WalkBlocks
import PsV.Driver.Common
/-!
Driver for C11 (NNLS solvers).  Stateful line protocol:

  `SYS id kind n ls rows nnz (i j bits)*nnz v bits*rows nref`   system; `ls=1`: A = MᵀM, b = Mᵀv (exact)
        → `sys n=<n> symm=<0/1> spd=<0/1/na> ref=<0/1/na>`      (spd / ref only for n ≤ nref)
  `X id solver tolbits xbits*n`                                    vector returned by the C solver
        → `x finite=<0/1> nonneg=<0/1> negok=<0/1> kkt=<0/1> dist=<0/1/na> need=<f> tolmax=<f> rel=<f> maxdiff=<f|na> negpart=<f>`
  `B3 id tolbits maxiter`                                          run the BLOCK3 state machine with exact solves
        → `b3 exit=<converged|iterCap|innerFuel> full=<n> boundary=<n> walk=<n> forced=<n> kkt=<0/1> dist=<0/1/na>`   (forced: walks whose last trial was taken by the forced-step rule)

  `BL n m mult bettermask`                                         result loop of `walk_descents` (`blockLoopL`): `n` workers, `m = n_alpha` trials,
        → `bl base=<k|none> chosen=<k|none> feasible=<0/1/na>`     last-trial test `i*mult + j == m-1`, trial `k` reduces the residual iff bit `k` of the mask
  `AR id k h2_1 … h2_r`                                            rows `h2_*` added to the full-size factor of the current system whose passive set is
        → `ar rows=<r> written=<some|none> represents=<0/1> settled=<some|none> coupled=<0/1>`     `{0..k-1} \ H2` (`addRows` / `addRowsSettled`)

All decisions (`kkt`, `dist`, `nonneg`, `negok`, `spd`) are made by the definitions of `PsV.Nnls` on exact rationals.
-/
namespace PsV.Driver.C11
open PsV PsV.Driver PsV.Nnls

def ratOfBits (u : UInt64) : Option Rat :=
  let sign := (u >>> 63) != 0
  let e := ((u >>> 52) &&& 0x7ff).toNat
  let m := (u &&& 0xfffffffffffff).toNat
  if e == 0x7ff then none else
  let (mant, ex) : Nat × Int := if e == 0 then (m, -1074) else (m + 2^52, (e : Int) - 1075)
  let mag : Rat := if ex ≥ 0 then ((mant * 2^ex.toNat : Nat) : Rat) else (mant : Rat) / ((2^(-ex).toNat : Nat) : Rat)
  some (if sign then -mag else mag)

def ratAbs (r : Rat) : Rat := if r < 0 then -r else r
def ratMax (a b : Rat) : Rat := if a < b then b else a

/-- approximate value for the report only -/
def ratToFloat (r : Rat) : Float :=
  let n := r.num.natAbs
  let d := r.den
  let ln := n.log2
  let ld := d.log2
  let sn := if ln > 900 then ln - 900 else 0
  let sd := if ld > 900 then ld - 900 else 0
  let f := (Float.ofNat (n >>> sn)) / (Float.ofNat (d >>> sd))
  let f := f * Float.exp2 (Float.ofInt ((sn : Int) - (sd : Int)))
  if r.num < 0 then -f else f

/-- scientific notation (Lean prints floats with six fixed decimals) -/
def sci (r : Rat) : String :=
  let f := ratToFloat r
  if f == 0 then "0" else
  let a := f.abs
  let e := (Float.log10 a).floor
  let m := f / Float.pow 10.0 e
  s!"{m}e{e.toInt64}"


structure Sys where
  n : Nat := 0
  A : Array Rat := #[]     -- dense n × n, row-major
  b : Array Rat := #[]
  /-- `|M|ᵀ|M|` and `|M|ᵀ|v|` for the least-squares form (`|A|`, `|b|` otherwise): magnitude of the operations that form the gradient -/
  Aabs : Array Rat := #[]
  babs : Array Rat := #[]
  rows : Nat := 0
  ref : Option (Array Rat) := none
  refTried : Bool := false

def Sys.mat (s : Sys) : Mat := fun i j => if j < s.n then s.A.getD (i * s.n + j) 0 else 0
def Sys.vec (s : Sys) : Vec := fun i => s.b.getD i 0

def vecOf (a : Array Rat) : Vec := fun i => a.getD i 0

def parseTriplets : Nat → List String → Option (List (Nat × Nat × Rat) × List String)
  | 0, rest => some ([], rest)
  | k+1, i :: j :: v :: rest => do
    let i ← i.toNat?
    let j ← j.toNat?
    let v ← v.toNat?
    let r ← ratOfBits v.toUInt64
    let (ts, rest) ← parseTriplets k rest
    pure ((i, j, r) :: ts, rest)
  | _, _ => none

def parseSys (ws : List String) : Option (Sys × Nat) := do
  match ws with
  | _id :: _kind :: n :: ls :: rows :: nnz :: rest =>
    let n ← n.toNat?
    let ls ← ls.toNat?
    let rows ← rows.toNat?
    let nnz ← nnz.toNat?
    let (ts, rest) ← parseTriplets nnz rest
    match rest with
    | "v" :: rest =>
      let (vs, rest) ← takeN rows rest
      let v ← vs.mapM fun s => s.toNat? >>= fun u => ratOfBits u.toUInt64
      let nref ← match rest with | [r] => r.toNat? | _ => none
      let va := v.toArray
      if ls == 0 then
        if rows ≠ n then none else
        let A := ts.foldl (fun (a : Array Rat) (t : Nat × Nat × Rat) =>
          let p := t.1 * n + t.2.1
          a.setIfInBounds p (a.getD p 0 + t.2.2)) (Array.replicate (n*n) 0)
        pure ({ n := n, A := A, b := va, Aabs := A.map ratAbs, babs := va.map ratAbs, rows := n }, nref)
      else
        -- A = MᵀM, b = Mᵀv, from the rows of M
        let rowsM : Array (List (Nat × Rat)) := ts.foldl (fun a t => a.setIfInBounds t.1 ((t.2.1, t.2.2) :: a.getD t.1 [])) (Array.replicate rows [])
        let A := rowsM.foldl (fun (a : Array Rat) row =>
          row.foldl (fun a p => row.foldl (fun a q =>
            let pos := p.1 * n + q.1
            a.setIfInBounds pos (a.getD pos 0 + p.2 * q.2)) a) a) (Array.replicate (n*n) 0)
        let b := (rowsM.zip va).foldl (fun (a : Array Rat) (rv : List (Nat × Rat) × Rat) =>
          rv.1.foldl (fun a p => a.setIfInBounds p.1 (a.getD p.1 0 + p.2 * rv.2)) a) (Array.replicate n 0)
        let Aabs := rowsM.foldl (fun (a : Array Rat) row =>
          row.foldl (fun a p => row.foldl (fun a q =>
            let pos := p.1 * n + q.1
            a.setIfInBounds pos (a.getD pos 0 + ratAbs (p.2 * q.2))) a) a) (Array.replicate (n*n) 0)
        let babs := (rowsM.zip va).foldl (fun (a : Array Rat) (rv : List (Nat × Rat) × Rat) =>
          rv.1.foldl (fun a p => a.setIfInBounds p.1 (a.getD p.1 0 + ratAbs (p.2 * rv.2))) a) (Array.replicate n 0)
        pure ({ n := n, A := A, b := b, Aabs := Aabs, babs := babs, rows := rows }, nref)
    | _ => none
  | _ => none

def b2s (b : Bool) : String := if b then "1" else "0"

/-- rounding constant of the tolerance: `K·n·u`, `K = 64`, `u = 2⁻⁵³` -/
def roundUnit (n : Nat) : Rat := (64 * (n : Rat)) / ((2^53 : Nat) : Rat)

/-- per-component tolerance tied to the solver's stated tolerance `tolS`, the projection distance `negpart`
    and the size of the data.
    Cholesky-based solvers (block, updown, BLOCK3; scaling-invariant backward error, componentwise):
      `tolS + negpart·Σ_j|A_ij| + 64·n·2⁻⁵³·(Σ_j |A_ij| x_j + |b_i|)`
    Lawson–Hanson (`lh`, SuiteSparseQR: backward error relative to the *column* norms, not invariant under scaling):
      `tolS + 64·max(n,rows)·2⁻⁵³·Σ_i(Σ_j |A|_ij x_j + |b|_i)`  for every `i`, where for the least-squares form
      `|A| = |M|ᵀ|M|`, `|b| = |M|ᵀ|v|` (the gradient `Mᵀ(Mx − v)` cancels against `‖M‖‖v‖`, not against `|Mᵀv|`). -/
def tolVec (s : Sys) (lh : Bool) (tolS negpart : Rat) (xp : Vec) (mags : Array Rat) : Array Rat :=
  if lh then
    let mag := (sumTo s.n fun i => (sumTo s.n fun j => s.Aabs.getD (i * s.n + j) 0 * xp j) + s.babs.getD i 0)
    let u := roundUnit (if s.n < s.rows then s.rows else s.n)
    ((List.range s.n).map fun i =>
      tolS + negpart * (sumTo s.n fun j => ratAbs (s.mat i j)) + u * mag).toArray
  else
  -- `mags[i] = Σ_j |A_ij| x_j + |b_i|` (computed once by `rowPass`); the row sum `Σ_j|A_ij|` is only needed when some
  -- component was negative
  ((List.range s.n).map fun i =>
    tolS + (if negpart = 0 then 0 else negpart * (sumTo s.n fun j => ratAbs (s.mat i j)))
      + roundUnit s.n * mags.getD i 0).toArray

/-- one pass over row `i` of `A`: `(Σ_j A_ij x_j, Σ_j |A_ij| x_j)` for `x ≥ 0` (the product is formed once and terms
    with `x_j = 0` are skipped: the dense systems of several hundred unknowns make the driver's cost quadratic) -/
def rowPass (s : Sys) (xpA : Array Rat) (i : Nat) : Rat × Rat :=
  (List.range s.n).foldl (fun (acc : Rat × Rat) j =>
    let xj := xpA.getD j 0
    if xj = 0 then acc else
    let p := s.A.getD (i * s.n + j) 0 * xj
    (acc.1 + p, acc.2 + ratAbs p)) (0, 0)

def checkX (s : Sys) (lh : Bool) (tolS : Rat) (xs : Array Rat) : String :=
  let n := s.n
  let A := s.mat
  let b := s.vec
  let x := vecOf xs
  let negpart := (List.range n).foldl (fun m i => ratMax m (-(x i))) 0
  let xpA : Array Rat := xs.map fun v => if v < 0 then 0 else v
  let xp := vecOf xpA
  let rp : Array (Rat × Rat) := ((List.range n).map (rowPass s xpA)).toArray
  -- gradient `A xp − b` and magnitude `|A| xp + |b|` (reports and tolerance; the decision is `kktCheck` below)
  let gA : Array Rat := ((List.range n).map fun i => (rp.getD i (0, 0)).1 - b i).toArray
  let mags : Array Rat := ((List.range n).map fun i => (rp.getD i (0, 0)).2 + ratAbs (b i)).toArray
  let tolA := tolVec s lh tolS negpart xp mags
  let tol := vecOf tolA
  let kkt := kktCheck n A b xp tol
  let g := vecOf gA
  let need := (List.range n).foldl (fun m i => ratMax m (ratMax (-(g i)) (if 0 < xp i then g i else 0))) 0
  let rel := (List.range n).foldl (fun m i =>
      let mag := mags.getD i 0
      let v := ratMax (-(g i)) (if 0 < xp i then g i else 0)
      if mag = 0 then m else ratMax m (v / mag)) 0
  let tolmax := (List.range n).foldl (fun m i => ratMax m (tol i)) 0
  let (dist, maxdiff) := match s.ref with
    | none => ("na", "na")
    | some r =>
      let z := vecOf r
      (b2s (distCheck n A tol xp z), sci ((List.range n).foldl (fun m i => ratMax m (ratAbs (xp i - z i))) 0))
  s!"x finite=1 nonneg={b2s (decide (negpart = 0))} negok={b2s (decide (negpart ≤ tolS))} kkt={b2s kkt} dist={dist} need={sci need} tolmax={sci tolmax} rel={sci rel} maxdiff={maxdiff} negpart={sci negpart}"

def showExit : B3Exit → String
  | .converged => "converged"
  | .iterCap => "iterCap"
  | .innerFuel => "innerFuel"

def runB3 (s : Sys) (tolS : Rat) (maxIter : Nat) : String :=
  let n := s.n
  let E := exactEnv n s.mat s.vec tolS maxIter (4 * n + 8)
  let (st, ex) := block3Run E (fun i => -(s.vec i))
  let xA : Array Rat := tab n (at0 st.x)
  let x := vecOf xA
  let tol : Vec := fun _ => tolS
  let dist := match s.ref with
    | none => "na"
    | some r => b2s (distCheck n s.mat tol x (vecOf r))
  s!"b3 exit={showExit ex} full={st.nFull} boundary={st.nBoundary} walk={st.nWalk} forced={st.nForced} kkt={b2s (kktCheck n s.mat s.vec x tol)} dist={dist}"

def showOptNat : Option Nat → String
  | some k => toString k
  | none => "none"

/-- the result loop of `walk_descents` over blocks of workers (`PsV.Nnls.blockLoopL`) -/
def runBL (n m mult mask : Nat) : String :=
  let c : Sync.Cfg := { n := n, m := m, less := fun a b => b == 0 && mask.testBit a, repaired := true }
  let r := blockLoopL c mult
  match r.2 with
  | some (k, f) => s!"bl base={showOptNat r.1} chosen={showOptNat k} feasible={b2s f}"
  | none => s!"bl base={showOptNat r.1} chosen=none feasible=na"

/-- rows `h2` added to the full-size factor with passive set `{0..k-1} \ h2` of the current system, as written and with the
    sets settled first; `represents`: the result equals `repMat A F'` on `[0,n)²` (instance of `modify_factor_add_rows_represents`) -/
def runAR (s : Sys) (k : Nat) (h2 : List Nat) : String :=
  let n := s.n
  let A := s.mat
  let S : Nat → Bool := fun i => decide (i < k) && !h2.contains i
  let S' : Nat → Bool := fun i => S i || h2.contains i
  let R0 := repMat A S
  let w := addRows n A S h2 R0
  let rep := match w with
    | none => false
    | some R => (List.range n).all fun i => (List.range n).all fun j => R i j == repMat A S' i j
  let st := addRowsSettled n A S' h2 R0
  -- some row is coupled to a row added before it
  let coupled := (List.range h2.length).any fun q => (List.range q).any fun p => !(A (h2.getD q 0) (h2.getD p 0) == 0)
  s!"ar rows={h2.length} written={if w.isSome then "some" else "none"} represents={b2s rep} settled={if st.isSome then "some" else "none"} coupled={b2s coupled}"

def step (st : Sys) (ws : List String) : Sys × String :=
  match ws with
  | "SYS" :: rest =>
    match parseSys rest with
    | none => ({}, "bad-sys")
    | some (s, nref) =>
      let symm := isSymm s.n s.mat
      if s.n ≤ nref then
        let spd := spdCert s.n s.mat
        let ref := if spd then refNnls s.n s.mat s.vec else none
        let refA := ref
        ({ s with ref := refA, refTried := true },
          s!"sys n={s.n} symm={b2s symm} spd={b2s spd} ref={b2s refA.isSome}")
      else (s, s!"sys n={s.n} symm={b2s symm} spd=na ref=na")
  | "X" :: _id :: solver :: tolb :: xs =>
    match tolb.toNat? >>= fun u => ratOfBits u.toUInt64 with
    | none => (st, "bad-input")
    | some tolS =>
      if xs.length ≠ st.n then (st, "bad-input") else
      match xs.mapM fun s => s.toNat? with
      | none => (st, "bad-input")
      | some us =>
        match us.mapM fun u => ratOfBits u.toUInt64 with
        | none => (st, "x finite=0")
        | some xr => (st, checkX st (solver == "0" || solver == "4") tolS xr.toArray)
  | ["BL", n, m, mult, mask] =>
    match n.toNat?, m.toNat?, mult.toNat?, mask.toNat? with
    | some n, some m, some mult, some mask => (st, runBL n m mult mask)
    | _, _, _, _ => (st, "bad-input")
  | "AR" :: _id :: k :: h2 =>
    match k.toNat?, h2.mapM fun t => t.toNat? with
    | some k, some h2 => (st, runAR st k h2)
    | _, _ => (st, "bad-input")
  | ["B3", _id, tolb, mi] =>
    match tolb.toNat? >>= (fun u => ratOfBits u.toUInt64), mi.toNat? with
    | some tolS, some maxIter => (st, runB3 st tolS maxIter)
    | _, _ => (st, "bad-input")
  | _ => (st, "bad-input")

partial def loop (h out : IO.FS.Stream) (st : Sys) : IO Unit := do
  let line ← h.getLine
  if line.isEmpty then return ()
  let (st', o) := step st (words line)
  out.putStrLn o
  loop h out st'

def run : IO Unit := do loop (← IO.getStdin) (← IO.getStdout) {}

end PsV.Driver.C11
